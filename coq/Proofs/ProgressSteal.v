(* ProgressSteal.v -- property C02, the no-stand-off half, for --dist worksteal: a work-stealing
   session without worker failure cannot get stuck.

   In every reachable state of Model/System.v (mode MSteal, no crash, no undecodable report, no empty
   test id, at least one worker) in which the session has not ended, some component can make a USEFUL
   move in the sense of Progress.useful: a command is delivered, a worker's receiver thread has
   something to unpack or a steal reply to send, a worker's main thread is not blocked, the
   controller's receiver thread has a message to read, or the controller's main loop has an event to
   handle (theorem c02_ws_no_deadlock_useful).  Stop requests of the workers' own sessions
   (stops_after) are allowed: no hypothesis no_stop is needed.

   The dangerous states of work stealing:
   - an idle node while the pool is empty and another node holds many tests: invariant Wv (every
     node that is up and holds < 2 tests sees an empty pool AND an outstanding steal request), and
     CouplingSteal's steal_request invariant (the outstanding request is really in flight:
     command, computed reply, `unscheduled` message or event);
   - a refused request (empty reply): the `unscheduled` event makes the controller run
     check_schedule again, which re-establishes Wv (check_Wv);
   - a victim whose own session stops while a request is in flight: its reply is lost and the marker
     steal_requested_from_node stays set for ever (see the examples cst_ex_stop_before and _after in CompletenessSteal.v), but its
     "finished" carries the stop request, the controller's shouldstop is set, every node is told to
     shut down and the session ends as "interrupted" (pw_sd below).

   Organisation: part A worker-level facts; part B the scheduler (Wv, check_Wv) and one controller
   iteration (XEFFW / LXEFFW); part C the progress invariant PInvW and its preservation; part D
   quiescent states are impossible; part E theorems and examples.  TerminationSteal.v builds on
   this file. *)
From XV Require Import Base Worker Ctl SchedLoad SchedSteal SchedScope SchedEach Sched DSession System
  NoHook DSessionProofs WorkerProofs StealProofs LoadProofs FifoProofs ExactlyOnce Coupling ExactlyOnceSteal
  CouplingSteal CompletenessSteal Completeness Progress.
From XV Require LivenessLaws.
From Coq Require Import Permutation.
Open Scope nat_scope.

(* ====================================================================================== *)
(* A. worker-level facts                                                                   *)
(* ====================================================================================== *)

(* the signals of one main-thread step, in terms of CouplingSteal's xsig *)
Lemma main_step_xsigs o w w' evs :
  WX2 w -> main_step o w = Some (w', evs) ->
  (wph w = PBoot -> In XReady (flat_map we_xsig evs)) /\
  (In XReady (flat_map we_xsig evs) -> wph w = PBoot) /\
  wph w' <> PBoot /\
  (2 <= prank (wph w') -> 2 <= prank (wph w) \/ In XCF (flat_map we_xsig evs)) /\
  (In XCF (flat_map we_xsig evs) -> prank (wph w) = 1) /\
  (wph w' = PExited -> exists b, In (XFin b) (flat_map we_xsig evs)) /\
  (forall l, ~ In (XUns l) (flat_map we_xsig evs)).
Proof.
  intros X2 H. unfold WX2 in X2.
  ms_cases H; wprj; rewrite ?P in *; cbn [flat_map we_xsig app In prank];
    (split; [|split; [|split; [|split; [|split; [|split]]]]]);
    try discriminate; try tauto; try lia; auto;
    try (intros [F|[]]; discriminate F); try (intros l [F|[]]; discriminate F); try (intros l []);
    try (intros _; eexists; left; reflexivity).
  - destruct (stops_after o (snd cur)); [discriminate|]. destruct (snd nxt); discriminate.
  - destruct (stops_after o (snd cur)); [discriminate|]. destruct (snd nxt); discriminate.
  - inversion X2 as [|e' sc' He Hsc]; subst. destruct e; try contradiction; intros [].
  - inversion X2 as [|e' sc' He Hsc]; subst. destruct e; try contradiction; intros [].
  - inversion X2 as [|e' sc' He Hsc]; subst. destruct e; try contradiction; intros l' [].
Qed.

(* "ready" is never behind "collectionfinish" on a node's way to the controller *)
Fixpoint rc_ok (L : list xsig) : Prop :=
  match L with
  | [] => True
  | g :: r => (g = XCF -> ~ In XReady r) /\ rc_ok r
  end.

Lemma rc_ok_app L E :
  rc_ok L -> rc_ok E -> (In XReady E -> ~ In XCF L) -> rc_ok (L ++ E).
Proof.
  induction L as [|g r IH]; cbn [app rc_ok]; intros HL HE Hx; [exact HE|].
  destruct HL as (H1 & H2). split.
  - intros Eg Hin. apply in_app_or in Hin. destruct Hin as [Hin|Hin]; [exact (H1 Eg Hin)|].
    apply (Hx Hin). left. exact Eg.
  - apply IH; [exact H2|exact HE|]. intros Hin Hc. apply (Hx Hin). right. exact Hc.
Qed.

Lemma rc_ok_tail M B : rc_ok (M ++ B) -> rc_ok B.
Proof. induction M as [|g M IH]; cbn [app rc_ok]; [auto|]. intros (_ & H). apply IH. exact H. Qed.

Lemma rc_ok_one g : rc_ok [g].
Proof. cbn. split; [intros _ []|exact I]. Qed.

Lemma rc_ok_small E : length E <= 1 -> rc_ok E.
Proof. destruct E as [|g [|h E]]; cbn [length]; intros H; [exact I|apply rc_ok_one|lia]. Qed.

(* the shutdown marker stays in a worker's stream: steals only remove indices *)
Lemma shr_in_true l l' : shr l l' -> In true l -> In true l'.
Proof.
  induction 1 as [|b l l' H IH|l l' H IH]; intros Hin; [exact Hin| |].
  - destruct Hin as [->|Hin]; [left; reflexivity|right; apply IH; exact Hin].
  - destruct Hin as [F|Hin]; [discriminate|apply IH; exact Hin].
Qed.

Lemma in_true_app_shr a a' b : shr a a' -> In true (a ++ b) -> In true (a' ++ b).
Proof.
  intros S Hin. apply in_app_or in Hin. apply in_or_app.
  destruct Hin as [Hin|Hin]; [left; eapply shr_in_true; eauto|right; exact Hin].
Qed.

(* a worker blocked at an empty queue, with an idle receiver thread, has not been sent the marker *)
Lemma blocked_no_mark w :
  WInv w -> wq w = [] -> wrpend w = [] -> winbox w = [] -> wreply w = None ->
  (wph w = PWaitFirst \/ exists cur, wph w = PWaitNext cur) ->
  ~ In true (wmarks w) /\ length (owed_w w) <= 1.
Proof.
  intros I Eq Er Ei Ep Hph. pose proof (inv_phase w I) as PI. unfold phase_inv in PI.
  unfold wmarks, owed_w, owed_main. rewrite Eq, Er, Ei, Ep. cbn [map app rmark flat_map item_inds ents_idx].
  rewrite !app_nil_r.
  destruct Hph as [E|(cur & E)]; rewrite E in PI |- *.
  - destruct PI as (Epop & _). rewrite Epop. cbn. split; [intros []|lia].
  - destruct PI as (pre & Epop & Hnm & _). rewrite Epop. split; [|cbn; lia].
    intros Hin. apply in_map_iff in Hin. destruct Hin as (e & Ee & Hin). apply in_app_or in Hin.
    destruct Hin as [Hin|[<-|[]]].
    + specialize (Hnm e Hin). unfold is_idx in Hnm. destruct (snd e); [discriminate Ee|discriminate Hnm].
    + discriminate Ee.
Qed.

(* ====================================================================================== *)
(* B. the scheduler: what every check_schedule call re-establishes                          *)
(* ====================================================================================== *)

(* every node that is up and idle (holds < 2 tests) sees an empty pool and an outstanding steal
   request: the decision "nothing to do for this idle node" is only ever taken in that situation *)
Definition Wv (ws : wsstate) : Prop :=
  ws_coll ws <> None -> forall n, In n (ws_up ws) -> ws_len ws n < 2 ->
  ws_pending ws = [] /\ ws_steal ws <> None.

Lemma Wv_nocoll ws : ws_coll ws = None -> Wv ws.
Proof. intros E F. contradiction. Qed.

Theorem check_Wv s s' o r :
  all_open (ws_nt s) -> ws_check_schedule s = (s', o, r) -> Wv s'.
Proof.
  intros Ho H. pose proof (W10_check_schedule_never_raises _ _ _ _ H) as ->.
  rewrite check_schedule_eq in H.
  destruct (ws_coll s) as [coll|] eqn:Ec; [|inv H; apply Wv_nocoll; exact Ec].
  destruct (ws_idle s (ws_up s)) as [|i0 il] eqn:Ei.
  { injection H as Hs' _. subst s'. intros _ n Hn Hl. exfalso.
    assert (X : In n (ws_idle s (ws_up s))) by (apply ws_idle_spec; auto). rewrite Ei in X. destruct X. }
  assert (Hidle : forall n, In n (i0 :: il) -> In n (ws_up s)).
  { intros n Hn. rewrite <- Ei in Hn. apply ws_idle_spec in Hn. tauto. }
  destruct (match ws_pending s with [] => (s, [], Ok tt) | _ :: _ => ws_distribute (i0 :: il) s end)
    as [[s1 o1] r1] eqn:E1.
  assert (D : r1 = Ok tt /\ TW s s1 o1 /\ ws_nt s1 = ws_nt s /\ ws_pending s1 = []).
  { destruct (ws_pending s) as [|p0 pl] eqn:Ep.
    - inv E1. split; [reflexivity|]. split; [apply TW_refl|]. split; [reflexivity|exact Ep].
    - destruct (distribute_TW (i0 :: il) s s1 o1 r1 Ho) as (A & B & C & _ & _ & F); [|exact E1|].
      + intros n Hn. apply up_ready. apply Hidle. exact Hn.
      + split; [exact A|]. split; [exact B|]. split; [exact C|]. apply F. discriminate. }
  destruct D as (-> & T1 & N1 & P1).
  destruct (ws_phase2 (ws_up s) s1) as [[s2 o2] r2] eqn:E2. injection H as Hs' _ Hr2. subst s2 r2.
  destruct (tw_keeps _ _ _ T1) as (Kc & Kn & Km & Kk).
  assert (Eup1 : ws_up s1 = ws_up s) by (apply ws_up_ext; assumption).
  assert (Ho1 : all_open (ws_nt s1)) by (rewrite N1; exact Ho).
  apply phase2_inv in E2.
  destruct E2 as [(-> & _ & _ & Hc)|[(Hs & _ & v & k & vp & f & _ & _ & _ & _ & -> & _ & _)
                 |[(Hs & _ & Hl)|(_ & _ & F & _)]]]; [| | |discriminate].
  - intros _ n Hn Hl. rewrite Eup1 in Hn. destruct Hc as [Hc|(m & Hm)].
    + exfalso. assert (X : In n (ws_idle s1 (ws_up s))) by (apply ws_idle_spec; auto). rewrite Hc in X. destruct X.
    + split; [exact P1|congruence].
  - intros _ n _ _. cbn [ws_set_steal ws_pending ws_steal]. split; [exact P1|discriminate].
  - assert (Hl1 : forall n, In n (ws_idle s1 (ws_up s)) -> aget n (ws_nt s1) <> None).
    { intros n Hn. rewrite N1. apply up_ready. apply ws_idle_spec in Hn. tauto. }
    destruct (shut_loop_TW _ _ _ _ _ Ho1 Hl1 Hl) as (_ & T2 & F2 & S2).
    intros _ n Hn Hlen. exfalso.
    pose proof (TW_up _ _ _ T2 n Hn) as Hn1. rewrite Eup1 in Hn1.
    destruct F2 as (F21 & _). rewrite (ws_len_ext s1 s' n F21) in Hlen.
    assert (X : In n (ws_idle s1 (ws_up s))) by (apply ws_idle_spec; auto).
    apply ws_up_spec in Hn. destruct Hn as (_ & c & Ec' & Hsd & _).
    rewrite (S2 n c X Ec') in Hsd. discriminate.
Qed.

(* flag changes (a node is told to shut down, or goes down) keep Wv *)
Lemma Wv_mono ws ws' :
  Wv ws -> incl (ws_up ws') (ws_up ws) -> ws_n2p ws' = ws_n2p ws -> ws_pending ws' = ws_pending ws ->
  ws_steal ws' = ws_steal ws -> ws_coll ws' = ws_coll ws -> Wv ws'.
Proof.
  intros H Hi Ep Eq Es Ec Hc n Hn Hl. rewrite Eq, Es. rewrite Ec in Hc. rewrite (ws_len_ext ws ws' n Ep) in Hl.
  apply (H Hc n); [apply Hi; exact Hn|exact Hl].
Qed.

Lemma books_nil_small (m : amap (list nat)) :
  flat_map snd m = [] -> forallb (fun p => length (snd p) <? MIN_PENDING) m = true.
Proof.
  induction m as [|[k v] m IH]; cbn [flat_map forallb snd]; [reflexivity|]. intros H.
  apply app_eq_nil in H. destruct H as (-> & H). rewrite (IH H). reflexivity.
Qed.

(* the first (and only) call of schedule(): either check_schedule has run, or the collection is empty
   and the tests are finished at once, or the collections differ and nothing is scheduled *)
Lemma schedule_Wv ws ws' o r :
  all_open (ws_nt ws) -> ws_coll ws = None -> ws_pending ws = [] -> ws_steal ws = None -> wbooks ws = [] ->
  ws_collection_is_completed ws = true -> ws_n2c ws <> [] ->
  ws_schedule ws = (ws', o, r) -> Wv ws' \/ ws_tests_finished ws' = true.
Proof.
  intros Ho Ec Ep Est Eb Hcomp Hn2c H. unfold ws_schedule in H.
  rewrite mbind_get in H. rewrite Hcomp in H. unfold massert in H. rewrite mbind_ret in H. rewrite Ec in H.
  unfold mbind at 1 in H. destruct (ws_same_collection ws) as [[t2 p2] r2] eqn:Es.
  apply (same_collection_quietw _ _ _ _ Hn2c) in Es. destruct Es as (-> & C2 & (f0 & c0 & ot0 & En0 & ->)).
  destruct (forallb (fun p => coll_eqb c0 (snd p)) ot0); cbn [negb] in H.
  2:{ unfold ret in H. inv H. left. apply Wv_nocoll. exact Ec. }
  rewrite mbind_get in H. rewrite En0 in H. cbn [of_opt] in H. rewrite mbind_ret, mbind_put in H.
  set (mid := ws_set_pending (ws_set_coll ws (Some c0)) (seq 0 (length c0))) in *.
  destruct c0 as [|x c].
  - unfold ret in H. inv H. right. unfold ws_tests_finished, ws_collection_is_completed in *. cbn.
    rewrite Hcomp, Est. cbn. apply books_nil_small. exact Eb.
  - destruct (ws_check_schedule mid) as [[ws2 o2] r2] eqn:Ech. inv H. left.
    apply (check_Wv mid ws' o2 r). exact Ho. exact Ech.
Qed.

(* ---- the controller never sends an empty run command ---- *)
Lemma ne_ws_send_tests n num : allout Q_ne (ws_send_tests n num).
Proof. unfold ws_send_tests. nel. Qed.
Lemma ne_ws_distribute idle : allout Q_ne (ws_distribute idle).
Proof. induction idle as [|n r IH]; cbn [ws_distribute]; [apply ao_ret|]. nel; try apply ne_ws_send_tests; try exact IH. Qed.
Lemma ne_node_send_steal {S} (nt_of : S -> ntable) n ixs : allout Q_ne (node_send nt_of n (CSteal ixs)).
Proof. unfold node_send. ao Q_ne; apply ne_node_flags. Qed.
Lemma ne_ws_check_schedule : allout Q_ne ws_check_schedule.
Proof. unfold ws_check_schedule. nel; try apply ne_ws_distribute; try apply ne_node_send_steal. Qed.
Lemma ne_ws_same : allout Q_ne ws_same_collection.
Proof. unfold ws_same_collection. nel. Qed.
Lemma ne_ws_schedule : allout Q_ne ws_schedule.
Proof.
  unfold ws_schedule. pose proof ne_ws_check_schedule as Hc. pose proof ne_ws_same as Hs.
  set (chk := ws_check_schedule) in *. set (sm := ws_same_collection) in *. clearbody chk sm. nel.
Qed.

(* the collection the scheduler works with is the one reported by the first node of node2collection *)
Lemma schedule_coll ws ws' o r coll :
  all_open (ws_nt ws) -> ws_coll ws = None -> ws_collection_is_completed ws = true -> ws_n2c ws <> [] ->
  ws_schedule ws = (ws', o, r) -> ws_coll ws' = Some coll -> exists k others, ws_n2c ws = (k, coll) :: others.
Proof.
  intros Ho Ec Hcomp Hn2c H Hc. unfold ws_schedule in H.
  rewrite mbind_get in H. rewrite Hcomp in H. unfold massert in H. rewrite mbind_ret in H. rewrite Ec in H.
  unfold mbind at 1 in H. destruct (ws_same_collection ws) as [[t2 p2] r2] eqn:Es.
  apply (same_collection_quietw _ _ _ _ Hn2c) in Es. destruct Es as (-> & C2 & (f0 & c0 & ot0 & En0 & ->)).
  destruct (forallb (fun p => coll_eqb c0 (snd p)) ot0); cbn [negb] in H.
  2:{ unfold ret in H. inv H. congruence. }
  rewrite mbind_get in H. rewrite En0 in H. cbn [of_opt] in H. rewrite mbind_ret, mbind_put in H.
  set (mid := ws_set_pending (ws_set_coll ws (Some c0)) (seq 0 (length c0))) in *.
  assert (Em : ws_coll mid = Some c0) by reflexivity.
  destruct c0 as [|x c].
  - unfold ret in H. inv H. exists f0, ot0. congruence.
  - destruct (ws_check_schedule mid) as [[ws2 o2] r2] eqn:Ech. inv H.
    assert (Hom : all_open (ws_nt mid)) by exact Ho.
    destruct (check_fullw _ _ _ _ Hom Ech) as (_ & T & _). destruct (tw_keeps _ _ _ T) as (Kc & _).
    exists f0, ot0. congruence.
Qed.

Section CtlXW.
Variable N : nat.
Variable collf : nat -> list string.
Notation LJWc := (LJW N collf).
Notation DJW0c := (DJW0 N collf).
Notation DJWc := (DJW N collf).
Notation PREWc := (PREW N collf).

Ltac dprj := cbn [d_sched d_shuttingdown d_shouldstop d_active d_countfailures d_maxfail d_failed_nodes
  d_max_restart d_collect_seen d_next_gw d_requeue d_set_sched d_set_active d_set_shouldstop
  d_set_shuttingdown d_set_countfailures d_set_collect_seen d_withw].

Record XEFFW (ev : cevent) (d : dstate) (ws : wsstate) (d1 : dstate) (ws1 : wsstate) (o1 : list out) : Prop := {
  xw_act_sub : forall m, In m (d_active d1) -> In m (d_active d);
  xw_act_fin : forall m b, ev_xsig ev = Some (m, XFin b) -> ~ In m (d_active d1);
  xw_nodes_keep : forall m, In m (ws_nodes ws) -> In m (ws_nodes ws1) \/ exists b, ev_xsig ev = Some (m, XFin b);
  xw_ready : forall n, ev = QReady n ->
             if d_shuttingdown d then LivenessLaws.sd_in (ws_nt ws1) n else In n (ws_nodes ws1);
  xw_nodes_sd : d_shuttingdown d = true -> forall m, In m (ws_nodes ws1) -> In m (ws_nodes ws);
  xw_cf : forall n ids, ev = QCollFinish n ids -> d_shuttingdown d = false -> In n (ws_nodes ws) ->
          In n (akeys (ws_n2c ws1));
  xw_cf_new : forall m, In m (akeys (ws_n2c ws1)) -> In m (akeys (ws_n2c ws)) \/ In m (ws_nodes ws);
  xw_n2c_keep : d_shuttingdown d = false -> forall m, In m (akeys (ws_n2c ws)) -> In m (akeys (ws_n2c ws1));
  xw_wv : d_shuttingdown d = false -> Wv ws -> (forall n, ev = QReady n -> ws_coll ws = None) ->
          Wv ws1 \/ ws_tests_finished ws1 = true;
  xw_ne : forall m, Forall ne_cmd (cmds_to m o1);
  xw_coll : forall coll, ws_coll ws1 = Some coll ->
            ws_coll ws = Some coll \/ exists k others, ws_n2c ws1 = (k, coll) :: others;
}.

Lemma x_samew ev d ws d1 o1 :
  same_ctl d d1 -> d_sched d = StW ws -> (forall m, cmds_to m o1 = []) ->
  (forall m b, ev_xsig ev <> Some (m, XFin b)) -> (forall n, ev <> QReady n) ->
  (forall n ids, ev = QCollFinish n ids -> d_shuttingdown d = false -> In n (ws_nodes ws) -> False) ->
  forall ws1, d_sched d1 = StW ws1 -> XEFFW ev d ws d1 ws1 o1.
Proof.
  intros (S1 & S2 & S3 & S4) Els Hq Hf Hr Hc ws1 E1.
  assert (ws1 = ws) by congruence. subst ws1. constructor.
  - intros m Hm. rewrite <- S3. exact Hm.
  - intros m b E. exfalso. exact (Hf _ _ E).
  - auto.
  - intros n E. exfalso. exact (Hr _ E).
  - auto.
  - intros n ids E A B. exfalso. exact (Hc _ _ E A B).
  - auto.
  - auto.
  - auto.
  - intros m. rewrite Hq. constructor.
  - auto.
Qed.

(* ---- workerready ---- *)
Lemma handle_ready_xw n d ws d1 o1 r :
  DJWc d ws -> WI ws -> PREWc (QReady n) d ws ->
  d_handle (QReady n) d = (d1, o1, r) -> forall ws1, d_sched d1 = StW ws1 -> XEFFW (QReady n) d ws d1 ws1 o1.
Proof.
  intros (J0 & Jss) Iw (HnN & Hpre) H ws1 E1. pose proof J0 as [Els J Jb Jq Jg Jf]. pose proof Iw as (Ho & _).
  cbn [d_handle] in H. unfold hook in H. rewrite mbind_emit, mbind_get in H.
  destruct (d_shuttingdown d) eqn:Esd.
  - rewrite (d_node_shutdown_liftw n d ws Els) in H.
    destruct (node_shutdown ws_nt ws_set_nt n ws) as [[ws2 o2] r2] eqn:En. cbn [liftW] in H. inv H.
    cbn in E1. inv E1.
    assert (Hk : aget n (ws_nt ws) <> None) by (apply (wj_ntk _ _ _ J); exact HnN).
    destruct (node_shutdown_TW _ _ _ _ _ Ho Hk En) as (-> & T & F & _).
    pose proof (LivenessLaws.g_node_shutdown_post wsstate ws_nt ws_set_nt (fun _ _ => eq_refl) _ _ _ _ En) as (A1 & _).
    destruct F as (F1 & F2 & F3 & F4 & F5 & F6 & F7).
    constructor.
    + intros m Hm. exact Hm.
    + intros m b E. discriminate.
    + intros m Hm. left. unfold ws_nodes in *. rewrite F1. exact Hm.
    + intros n' E. inv E. rewrite Esd. exact A1.
    + intros _ m Hm. unfold ws_nodes in *. rewrite F1 in Hm. exact Hm.
    + intros n' ids E. discriminate.
    + intros m Hm. left. rewrite F5 in Hm. exact Hm.
    + intros F. congruence.
    + cbn. rewrite Esd. discriminate.
    + intros m. apply ne_cmds_to. constructor; [exact Logic.I|]. exact (ne_node_shutdown ws_nt ws_set_nt n _ _ _ _ En).
    + intros coll Hc. left. rewrite F3 in Hc. exact Hc.
  - destruct (Hpre eq_refl) as (Hnew & Hina).
    assert (Ea : aget n (ws_n2p ws) = None) by (apply LoadProofs.aget_none_keys; exact Hnew).
    unfold mbind at 1 in H. rewrite (sched_op_runw _ d ws Els) in H. cbn [s_step] in H.
    unfold ws_add_node, massert, ahas in H. rewrite mbind_get in H. rewrite Ea in H. cbn [negb] in H.
    rewrite mbind_ret in H. unfold put, lift, no_str, ret in H. inv H.
    cbn in E1. inv E1.
    set (ws1 := ws_set_n2p ws (aset n [] (ws_n2p ws))).
    assert (Ek : ws_nodes ws1 = ws_nodes ws ++ [n]) by (apply LoadProofs.akeys_aset_new; exact Ea).
    constructor.
    + intros m Hm. exact Hm.
    + intros m b E. discriminate.
    + intros m Hm. left. rewrite Ek. apply in_or_app. left. exact Hm.
    + intros n' E. inv E. rewrite Esd, Ek. apply in_or_app. right. left. reflexivity.
    + intros F. congruence.
    + intros n' ids E. discriminate.
    + intros m Hm. left. exact Hm.
    + intros _ m Hm. exact Hm.
    + intros _ _ Hc. left. apply Wv_nocoll. exact (Hc n eq_refl).
    + intros m. cbn. constructor.
    + intros coll Hc. left. exact Hc.
Qed.

(* ---- runtest_protocol_complete ---- *)
Lemma handle_complete_xw n i ms d ws d1 o1 r :
  DJWc d ws -> WI ws -> PREWc (QComplete n i ms) d ws ->
  d_handle (QComplete n i ms) d = (d1, o1, r) ->
  forall ws1, d_sched d1 = StW ws1 -> XEFFW (QComplete n i ms) d ws d1 ws1 o1.
Proof.
  intros (J0 & Jss) Iw Hin H ws1 E1. pose proof J0 as [Els J Jb Jq Jg Jf]. pose proof Iw as (Ho & Inn & I3).
  cbn [PREW] in Hin.
  assert (Hcur : exists cur, aget n (ws_n2p ws) = Some cur /\ In i cur).
  { unfold bkw, alist_get in Hin. destruct (aget n (ws_n2p ws)) as [cur|]; [eauto|destruct Hin]. }
  destruct Hcur as (cur & Ecur & Hic). destruct (remove_first_in i cur Hic) as (cur' & Erf).
  cbn [d_handle] in H. unfold mbind at 1 in H. rewrite (sched_op_runw _ d ws Els) in H. cbn [s_step] in H.
  destruct (ws_mark_test_complete n i ws) as [[ws2 o2] r2] eqn:Em. cbn [lift] in H.
  unfold ws_mark_test_complete in Em. rewrite mbind_get in Em. rewrite Ecur in Em. cbn [of_opt] in Em.
  rewrite mbind_ret in Em. rewrite Erf in Em. cbn [of_opt] in Em. rewrite mbind_ret, mbind_put in Em.
  set (mid := ws_set_n2p ws (aset n cur' (ws_n2p ws))) in *.
  assert (Hom : all_open (ws_nt mid)) by exact Ho.
  destruct (check_fullw _ _ _ _ Hom Em) as (-> & T & _).
  pose proof (check_Wv _ _ _ _ Hom Em) as HW.
  unfold no_str, ret in H. inv H. cbn in E1. inv E1.
  assert (Kk0 : akeys (ws_n2p mid) = akeys (ws_n2p ws)) by (eapply akeys_aset; eauto).
  destruct (tw_keeps _ _ _ T) as (Kc & Kn & Km & Kk).
  constructor.
  - intros m Hm. exact Hm.
  - intros m b E. discriminate.
  - intros m Hm. left. unfold ws_nodes in *. rewrite Kk, Kk0. exact Hm.
  - intros n' E. discriminate.
  - intros _ m Hm. unfold ws_nodes in *. rewrite Kk, Kk0 in Hm. exact Hm.
  - intros n' ids E. discriminate.
  - intros m Hm. left. rewrite Kn in Hm. exact Hm.
  - intros _ m Hm. rewrite Kn. exact Hm.
  - intros _ _ _. left. exact HW.
  - intros m. rewrite ?app_nil_r. apply ne_cmds_to. exact (ne_ws_check_schedule _ _ _ _ Em).
  - intros coll Hc. left. rewrite Kc in Hc. exact Hc.
Qed.

(* ---- the worker's `unscheduled` reply ---- *)
Lemma handle_unsched_xw n ixs d ws d1 o1 r :
  DJWc d ws -> WI ws -> PREWc (QUnscheduled n ixs) d ws ->
  d_handle (QUnscheduled n ixs) d = (d1, o1, r) ->
  forall ws1, d_sched d1 = StW ws1 -> XEFFW (QUnscheduled n ixs) d ws d1 ws1 o1.
Proof.
  intros (J0 & Jss) Iw (Hst & rest & Prest) H ws1 E1. pose proof J0 as [Els J Jb Jq Jg Jf].
  pose proof Iw as (Ho & Inn & I3).
  assert (Hnode : In n (ws_nodes ws)) by (apply (wj_st _ _ _ J); exact Hst).
  assert (Hcur : exists cur, aget n (ws_n2p ws) = Some cur).
  { apply LoadProofs.aget_In_keys in Hnode. destruct (aget n (ws_n2p ws)) as [cur|]; [eauto|congruence]. }
  destruct Hcur as (cur & Ecur).
  cbn [d_handle] in H. unfold mbind at 1 in H. rewrite (sched_op_runw _ d ws Els) in H. cbn [s_step] in H.
  rewrite (W6_eq n ixs ws cur Hst Ecur) in H.
  set (mid := rp_mid n ixs ws cur) in *.
  destruct (ws_check_schedule mid) as [[ws2 o2] r2] eqn:Em. cbn [lift] in H.
  assert (Hom : all_open (ws_nt mid)) by exact Ho.
  destruct (check_fullw _ _ _ _ Hom Em) as (-> & T & _).
  pose proof (check_Wv _ _ _ _ Hom Em) as HW.
  unfold no_str, ret in H. inv H. cbn in E1. inv E1.
  assert (Kk0 : akeys (ws_n2p mid) = akeys (ws_n2p ws)) by (unfold mid, rp_mid; wsproj; eapply akeys_aset; eauto).
  destruct (tw_keeps _ _ _ T) as (Kc & Kn & Km & Kk).
  constructor.
  - intros m Hm. exact Hm.
  - intros m b E. discriminate.
  - intros m Hm. left. unfold ws_nodes in *. rewrite Kk, Kk0. exact Hm.
  - intros n' E. discriminate.
  - intros _ m Hm. unfold ws_nodes in *. rewrite Kk, Kk0 in Hm. exact Hm.
  - intros n' ids E. discriminate.
  - intros m Hm. left. rewrite Kn in Hm. exact Hm.
  - intros _ m Hm. rewrite Kn. exact Hm.
  - intros _ _ _. left. exact HW.
  - intros m. rewrite ?app_nil_r. apply ne_cmds_to. exact (ne_ws_check_schedule _ _ _ _ Em).
  - intros coll Hc. left. rewrite Kc in Hc. exact Hc.
Qed.

(* ---- workerfinished ---- *)
Lemma handle_finished_xw n sk d ws d1 o1 r :
  DJWc d ws -> WI ws -> PREWc (QFinished n sk) d ws ->
  d_handle (QFinished n sk) d = (d1, o1, r) ->
  forall ws1, d_sched d1 = StW ws1 -> XEFFW (QFinished n sk) d ws d1 ws1 o1.
Proof.
  intros (J0 & Jss) Iw Hpre H ws1 E1. pose proof J0 as [Els J Jb Jq Jg Jf]. pose proof Iw as (Ho & (Inn1 & Inn2) & I3).
  cbn [d_handle] in H. unfold d_worker_workerfinished, hook in H. rewrite mbind_emit in H.
  destruct sk; cbn [PREW] in Hpre; [| |contradiction].
  - destruct Hpre as (Hina & Hbook & (f & Ef & Hsdn) & Hstn).
    rewrite mbind_get in H. rewrite Els in H. cbn [s_nodes] in H.
    assert (Hsome : some_sd ws) by (exists n, f; auto).
    assert (STEP : exists ws2 o2,
      ((if mem_nat n (ws_nodes ws)
        then r0 <- d_sched_op (SRemove n);; massert match r0 with Some s0 => (s0 =? "")%string | None => true end
        else ret tt) d) = (d_set_sched d (StW ws2), o2, Ok tt) /\
      (forall m, In m (ws_nodes ws2) -> In m (ws_nodes ws)) /\
      (forall m, In m (ws_nodes ws) -> m <> n -> In m (ws_nodes ws2)) /\
      (forall m, In m (akeys (ws_n2c ws2)) -> In m (akeys (ws_n2c ws))) /\
      (ws_collection_is_completed ws = true -> ws_n2c ws2 = ws_n2c ws) /\
      (Wv ws -> Wv ws2) /\ Forall Q_ne o2 /\ ws_coll ws2 = ws_coll ws).
    { destruct (mem_nat n (ws_nodes ws)) eqn:Emem.
      - apply StealProofs.mem_nat_In in Emem. specialize (Hbook Emem).
        set (mid := rn_mid n ws []).
        destruct (ws_check_schedule mid) as [[ws2 o2] r2] eqn:Em.
        assert (Hom : all_open (ws_nt mid)) by exact Ho.
        destruct (check_fullw _ _ _ _ Hom Em) as (-> & T & _).
        pose proof (check_Wv _ _ _ _ Hom Em) as HW.
        exists ws2, o2. destruct (tw_keeps _ _ _ T) as (Kc & Kn & Km & Kk).
        split.
        { unfold mbind. rewrite (sched_op_runw _ d ws Els). cbn [s_step]. rewrite (W7_eq_idle n ws Hbook).
          fold mid. rewrite Em. cbn [lift]. unfold massert, ret. rewrite app_nil_r. reflexivity. }
        split.
        { intros m Hm. unfold ws_nodes in *. rewrite Kk in Hm. unfold mid, rn_mid in Hm. wsproj.
          eapply StealProofs.adel_keys_incl; eauto. }
        split.
        { intros m Hm Hne. unfold ws_nodes in *. rewrite Kk. unfold mid, rn_mid. wsproj. apply in_keys_adel; assumption. }
        split.
        { intros m Hm. rewrite Kn in Hm. unfold mid, rn_mid in Hm. wsproj.
          destruct (ws_collection_is_completed ws); [exact Hm|eapply StealProofs.adel_keys_incl; eauto]. }
        split.
        { intros C. rewrite Kn. apply (rn_mid_completed n ws [] C). }
        split; [intros _; exact HW|]. split; [exact (ne_ws_check_schedule _ _ _ _ Em)|]. rewrite Kc. reflexivity.
      - apply WorkerProofs.mem_nat_false in Emem. exists ws, [].
        split; [rewrite d_set_sched_same by exact Els; reflexivity|].
        split; [auto|]. split; [auto|]. split; [auto|]. split; [auto|]. split; [auto|]. split; [constructor|reflexivity]. }
    destruct STEP as (ws2 & o2 & Erun & Fsub & Fkeep & Fn2c & Fcomp & FW & Fne & Fcoll).
    unfold mbind at 1 in H. rewrite Erun in H.
    rewrite (active_remove_run n (d_set_sched d (StW ws2)) Hina) in H. inv H.
    cbn in E1. inv E1. constructor.
    + intros m Hm. cbn [d_active d_set_active d_set_sched] in Hm. apply in_filter_neq in Hm. tauto.
    + intros m b E. cbn in E. inv E. cbn [d_active d_set_active d_set_sched]. intros Hm. apply in_filter_neq in Hm. tauto.
    + intros m Hm. destruct (Nat.eq_dec m n) as [->|Hne]; [right; exists false; reflexivity|left; apply Fkeep; assumption].
    + intros n' E. discriminate.
    + intros _ m Hm. apply Fsub. exact Hm.
    + intros n' ids E. discriminate.
    + intros m Hm. left. apply Fn2c. exact Hm.
    + intros Hs m Hm. destruct (Jq Hs Hsome) as (C & _). rewrite (Fcomp C). exact Hm.
    + intros _ HW _. left. apply FW. exact HW.
    + intros m. rewrite ?app_nil_r. apply ne_cmds_to. constructor; [exact Logic.I|exact Fne].
    + intros coll Hc. left. rewrite Fcoll in Hc. exact Hc.
  - assert (STEP : exists d2, (d0 <- get;; (if d_shouldstop d0 then ret tt else put (d_set_shouldstop d0 true))) d = (d2, [], Ok tt) /\
              d_sched d2 = d_sched d /\ d_shuttingdown d2 = d_shuttingdown d /\ d_active d2 = d_active d /\ d_shouldstop d2 = true).
    { rewrite mbind_get. destruct (d_shouldstop d) eqn:Ess.
      - exists d. auto.
      - eexists. split; [reflexivity|]. auto. }
    destruct STEP as (d2 & Erun & S1 & S2 & S3 & S4).
    unfold mbind at 1 in H. rewrite Erun in H.
    assert (Hina : In n (d_active d2)) by (rewrite S3; exact Hpre).
    rewrite (active_remove_run n d2 Hina) in H. inv H.
    cbn [d_sched d_set_active] in E1. assert (ws1 = ws) by congruence. subst ws1. constructor.
    + intros m Hm. cbn [d_active d_set_active] in Hm. apply in_filter_neq in Hm. rewrite <- S3. tauto.
    + intros m b E. cbn in E. inv E. cbn [d_active d_set_active]. intros Hm. apply in_filter_neq in Hm. tauto.
    + auto.
    + intros n' E. discriminate.
    + auto.
    + intros n' ids E. discriminate.
    + auto.
    + auto.
    + auto.
    + intros m. cbn. constructor.
    + auto.
Qed.

(* ---- collectionfinish ---- *)
Lemma handle_collfinish_xw n ids d ws d1 o1 r :
  DJWc d ws -> WI ws -> PREWc (QCollFinish n ids) d ws ->
  d_handle (QCollFinish n ids) d = (d1, o1, r) ->
  forall ws1, d_sched d1 = StW ws1 -> XEFFW (QCollFinish n ids) d ws d1 ws1 o1.
Proof.
  intros DJd Iw (HnN & Hnew & Hids) H ws1 E1. pose proof DJd as (J0 & Jss). pose proof J0 as [Els J Jb Jq Jg Jf].
  pose proof Iw as (Ho & _ & I3).
  assert (SAME : forall x, (d, @nil out, x) = (d1, o1, r) ->
                 (d_shuttingdown d = false -> In n (ws_nodes ws) -> False) ->
                 XEFFW (QCollFinish n ids) d ws d1 ws1 o1).
  { intros x E Hno. inv E. apply x_samew.
    - unfold same_ctl. auto.
    - exact Els.
    - intros m. reflexivity.
    - intros m b E. discriminate.
    - intros n' E. discriminate.
    - intros n' ids' E A B. inv E. exact (Hno A B).
    - exact E1. }
  cbn [d_handle] in H. rewrite mbind_get in H.
  destruct (d_shuttingdown d) eqn:Esd; [eapply SAME; [exact H|discriminate]|].
  rewrite Els in H. cbn [s_nodes] in H.
  destruct (mem_nat n (ws_nodes ws)) eqn:Em; cbn [negb] in H.
  2:{ eapply SAME; [exact H|]. intros _ Hin. apply WorkerProofs.mem_nat_false in Em. contradiction. }
  clear SAME. apply StealProofs.mem_nat_In in Em.
  assert (Hp : aget n (ws_n2p ws) <> None) by (apply LoadProofs.aget_In_keys; exact Em).
  assert (Hc : ws_collection_is_completed ws = false) by (eapply completed_pigeonw; eauto).
  assert (Ecoll : ws_coll ws = None).
  { destruct (ws_coll ws) eqn:E; [|reflexivity]. rewrite (wj_cc _ _ _ J) in Hc; [discriminate|]. rewrite E. discriminate. }
  destruct (I3 Ecoll) as (Ep0 & Est0). pose proof (wj_b0 _ _ _ J Ecoll) as Eb0.
  unfold hook in H. rewrite mbind_emit in H. unfold mbind at 1 in H.
  rewrite (sched_op_runw _ d ws Els) in H. cbn [s_step] in H. rewrite (add_coll_runw n ids ws Hp Hc) in H.
  cbn [lift] in H. set (lsa := ws_set_n2c ws (aset n ids (ws_n2c ws))) in *.
  rewrite mbind_get in H. cbn [d_sched d_set_sched s_collection_is_completed app] in H.
  assert (Kn : In n (akeys (ws_n2c lsa))).
  { unfold lsa. cbn [ws_n2c ws_set_n2c]. eapply FifoProofs.aget_some_in. apply StealProofs.aget_aset_eq. }
  assert (Kkeep : forall m, In m (akeys (ws_n2c ws)) -> In m (akeys (ws_n2c lsa))).
  { intros m Hm. unfold lsa. cbn [ws_n2c ws_set_n2c]. apply akeys_aset_incl. exact Hm. }
  assert (Knew : forall m, In m (akeys (ws_n2c lsa)) -> In m (akeys (ws_n2c ws)) \/ In m (ws_nodes ws)).
  { intros m Hm. apply akeys_aset_cases in Hm. destruct Hm as [->|Hm]; [right; exact Em|left; exact Hm]. }
  destruct (ws_collection_is_completed lsa) eqn:Eca.
  - unfold mbind at 1 in H. rewrite (sched_op_runw _ (d_set_sched d (StW lsa)) lsa eq_refl) in H. cbn [s_step] in H.
    destruct (ws_schedule lsa) as [[ws2 o2] r2] eqn:Es. cbn [lift] in H.
    assert (Hn2c : ws_n2c lsa <> []).
    { unfold lsa. wsproj. destruct (ws_n2c ws) as [|[k v] rr]; cbn; [discriminate|].
      destruct (Nat.eqb n k); discriminate. }
    pose proof (schedule_Wv lsa ws2 o2 r2 Ho Ecoll Ep0 Est0 Eb0 Eca Hn2c Es) as HW.
    destruct (schedule_firstw lsa ws2 o2 r2 Ho Ecoll Ep0 Est0 Eb0 Eca Hn2c Es)
      as (-> & Tnt & Tbk & Tk & Tn2c & Tnum & _).
    unfold no_str, ret in H. inv H. cbn in E1. inv E1.
    constructor.
    + intros m Hm. exact Hm.
    + intros m b E. discriminate.
    + intros m Hm. left. unfold ws_nodes in *. rewrite Tk. exact Hm.
    + intros n' E. discriminate.
    + intros F. congruence.
    + intros n' ids' E _ _. inv E. rewrite Tn2c. exact Kn.
    + intros m Hm. rewrite Tn2c in Hm. apply Knew. exact Hm.
    + intros _ m Hm. rewrite Tn2c. apply Kkeep. exact Hm.
    + intros _ _ _. exact HW.
    + intros m. rewrite ?app_nil_r. apply ne_cmds_to. constructor; [exact Logic.I|]. exact (ne_ws_schedule _ _ _ _ Es).
    + intros coll Hcl. right. rewrite Tn2c. exact (schedule_coll lsa ws1 o2 (Ok tt) coll Ho Ecoll Eca Hn2c Es Hcl).
  - unfold ret in H. inv H. cbn in E1. inv E1. constructor.
    + intros m Hm. exact Hm.
    + intros m b E. discriminate.
    + intros m Hm. left. exact Hm.
    + intros n' E. discriminate.
    + intros F. congruence.
    + intros n' ids' E _ _. inv E. exact Kn.
    + exact Knew.
    + intros _ m Hm. apply Kkeep. exact Hm.
    + intros _ _ _. left. apply Wv_nocoll. exact Ecoll.
    + intros m. cbn. constructor.
    + intros coll Hcl. left. exact Hcl.
Qed.

Theorem handle_xw ev d ws d1 o1 r :
  DJWc d ws -> WI ws -> d_active d <> [] -> PREWc ev d ws ->
  d_handle ev d = (d1, o1, r) ->
  forall ws1, d_sched d1 = StW ws1 -> XEFFW ev d ws d1 ws1 o1.
Proof.
  intros DJd Iw Hact Hpre H ws1 E1.
  assert (QUIET : match ev with
                  | QLogStart _ _ | QLogFinish _ _ | QWarning | QReport _ _ _ _ | QCollectReport _ _ _ => True
                  | _ => False end -> XEFFW ev d ws d1 ws1 o1).
  { intros Hq. destruct (handle_quiet ev d d1 o1 r Hq H) as (-> & S & C).
    apply x_samew.
    - exact S.
    - destruct DJd as ([Els _ _ _ _ _] & _). exact Els.
    - exact C.
    - destruct ev; try contradiction; intros m b E; discriminate.
    - destruct ev; try contradiction; intros n' E; discriminate.
    - destruct ev; try contradiction; intros n' ids' E; discriminate.
    - exact E1. }
  destruct ev; try (apply QUIET; exact Logic.I); try (cbn in Hpre; contradiction).
  - eapply handle_ready_xw; eauto.
  - eapply handle_collfinish_xw; eauto.
  - eapply handle_complete_xw; eauto.
  - eapply handle_unsched_xw; eauto.
  - eapply handle_finished_xw; eauto.
Qed.

(* ---- the end of the iteration ---- *)
Lemma NRWo_sd_in a cs b :
  NRWo a cs b -> (exists f, a = Some f /\ shutting_down f = true) -> exists f', b = Some f' /\ shutting_down f' = true.
Proof.
  intros R (f & -> & Hs). destruct b as [f'|]; [|destruct R]. cbn in R. exists f'. split; [reflexivity|].
  destruct (NRW_fields _ _ _ R) as (_ & Bd & _ & Dsd & _). unfold shutting_down in *. rewrite Bd.
  apply orb_true_iff in Hs. destruct Hs as [Hs|Hs]; [rewrite Hs; reflexivity|].
  assert (X : n_sdsent f' = true) by (apply Dsd; left; exact Hs). rewrite X. apply orb_true_r.
Qed.

Lemma loop_rest_sdw d ws d' o :
  d_sched d = StW ws -> loop_rest d = (d', o, Ok tt) -> forall ws', d_sched d' = StW ws' ->
  d_shuttingdown d = false -> d_shuttingdown d' = true ->
  forall m, In m (ws_nodes ws) -> LivenessLaws.sd_in (ws_nt ws') m.
Proof.
  intros Els H ws' E' Hsd Hsd' m Hm. unfold loop_rest in H.
  apply LoadProofs.mbind_inv in H.
  destruct H as [(e & _ & F)|(d2 & o3 & [] & o4 & Hmid & H & ->)]; [discriminate|].
  apply LoadProofs.mbind_inv in Hmid.
  destruct Hmid as [(e & _ & F)|(t1 & p1 & a & p2 & Hg & Hmid & ->)]; [discriminate|].
  unfold get in Hg. injection Hg as <- <- <-.
  apply LoadProofs.mbind_inv in H.
  destruct H as [(e & _ & F)|(t2 & p3 & a2 & p4 & Hg & H & ->)]; [discriminate|].
  unfold get in Hg. injection Hg as <- <- <-.
  assert (NT : d_nt d' = ws_nt ws') by (unfold d_nt; rewrite E'; reflexivity).
  assert (Hm0 : In m (s_nodes (d_sched d))) by (rewrite Els; exact Hm).
  destruct (s_tests_finished (d_sched d)) eqn:Efin.
  - apply LivenessLaws.d_triggershutdown_spec in Hmid.
    destruct Hmid as (A & _ & Ball & _).
    pose proof (Ball Hsd m Hm0) as X.
    destruct (d_shouldstop d2) eqn:Estop.
    + apply LivenessLaws.d_triggershutdown_spec in H. destruct H as (_ & Hsame & _).
      destruct (Hsame A) as (-> & _). rewrite <- NT. exact X.
    + unfold ret in H. inv H. rewrite <- NT. exact X.
  - unfold ret in Hmid. inv Hmid.
    destruct (d_shouldstop d2) eqn:Estop.
    + apply LivenessLaws.d_triggershutdown_spec in H. destruct H as (_ & _ & Ball & _).
      rewrite <- NT. exact (Ball Hsd m Hm0).
    + unfold ret in H. inv H. congruence.
Qed.

Record LXEFFW (ev : cevent) (d : dstate) (ws : wsstate) (d' : dstate) (ws' : wsstate) (o : list out) : Prop := {
  lxw_act_sub : forall m, In m (d_active d') -> In m (d_active d);
  lxw_act_fin : forall m b, ev_xsig ev = Some (m, XFin b) -> ~ In m (d_active d');
  lxw_nodes_keep : forall m, In m (ws_nodes ws) -> In m (ws_nodes ws') \/ exists b, ev_xsig ev = Some (m, XFin b);
  lxw_ready : forall n, ev = QReady n -> In n (ws_nodes ws') \/ LivenessLaws.sd_in (ws_nt ws') n;
  lxw_cf : forall n ids, ev = QCollFinish n ids -> d_shuttingdown d' = false -> In n (ws_nodes ws) ->
           In n (akeys (ws_n2c ws'));
  lxw_cf_new : forall m, In m (akeys (ws_n2c ws')) -> In m (akeys (ws_n2c ws)) \/ In m (ws_nodes ws);
  lxw_n2c_keep : d_shuttingdown d' = false -> forall m, In m (akeys (ws_n2c ws)) -> In m (akeys (ws_n2c ws'));
  lxw_wv : d_shuttingdown d' = false -> Wv ws -> (forall n, ev = QReady n -> ws_coll ws = None) -> Wv ws';
  lxw_tf : d_shuttingdown d' = false -> ws_tests_finished ws' = false;
  lxw_sd : d_shuttingdown d' = true ->
           (d_shuttingdown d = true -> forall m, In m (ws_nodes ws) -> LivenessLaws.sd_in (ws_nt ws) m) ->
           forall m, In m (ws_nodes ws') -> LivenessLaws.sd_in (ws_nt ws') m;
  lxw_ne : forall m, Forall ne_cmd (cmds_to m o);
  lxw_coll : forall coll, ws_coll ws' = Some coll ->
             ws_coll ws = Some coll \/ exists k others, ws_n2c ws' = (k, coll) :: others;
}.

Theorem loop_xw ev d ws d' o r :
  DJWc d ws -> WI ws -> d_active d <> [] -> PREWc ev d ws ->
  d_loop_once ev d = (d', o, r) -> forall ws', d_sched d' = StW ws' -> LXEFFW ev d ws d' ws' o.
Proof.
  intros DJd Iw Hact Hpre H ws' E'. rewrite loop_once_unfold in H.
  apply LoadProofs.mbind_inv in H. destruct H as [(e & H1 & ->)|(d1 & o1 & a & o2 & H1 & H2 & ->)].
  { destruct (handle_effw N collf _ _ _ _ _ _ DJd Iw Hact Hpre H1) as (F & _). discriminate. }
  destruct (handle_effw N collf _ _ _ _ _ _ DJd Iw Hact Hpre H1) as (_ & ws1 & E1).
  pose proof (hw_dj _ _ _ _ _ _ _ _ E1) as J1.
  pose proof (handle_xw _ _ _ _ _ _ DJd Iw Hact Hpre H1 ws1 (wd_sched _ _ _ _ J1)) as X1.
  assert (Ho1 : all_open (ws_nt ws1)).
  { intros m f' Ef'. destruct (NRWo_open _ _ _ _ (hw_nt _ _ _ _ _ _ _ _ E1 m) Ef') as (f & Ef & R).
    destruct (NRW_fields _ _ _ R) as (_ & _ & C & _). rewrite C. destruct Iw as (Ho & _). eapply Ho; eauto. }
  pose proof H2 as H2'.
  destruct (loop_rest_effw N collf _ _ _ _ _ J1 Ho1 H2) as (-> & ws2 & -> & T & F & Same & Upn & Csd).
  cbn in E'. inv E'.
  pose proof (hw_sd _ _ _ _ _ _ _ _ E1) as Hsd1.
  assert (SDF : d_shuttingdown d1 || ws_tests_finished ws1 || d_shouldstop d1 = false ->
                d_shuttingdown d1 = false /\ ws_tests_finished ws1 = false /\ ws' = ws1).
  { intros E. destruct (Same E) as (-> & _). apply orb_false_iff in E. destruct E as (E & E3).
    apply orb_false_iff in E. destruct E as (E1' & E2). auto. }
  pose proof F as (F1 & F2 & F3 & F4 & F5 & F6 & F7).
  assert (Knodes : ws_nodes ws' = ws_nodes ws1) by (unfold ws_nodes; rewrite F1; reflexivity).
  assert (SDM : forall m, LivenessLaws.sd_in (ws_nt ws1) m -> LivenessLaws.sd_in (ws_nt ws') m).
  { intros m Hm. exact (NRWo_sd_in _ _ _ (tw_nt _ _ _ T m) Hm). }
  constructor; dprj.
  - apply (xw_act_sub _ _ _ _ _ _ X1).
  - apply (xw_act_fin _ _ _ _ _ _ X1).
  - intros m Hm. rewrite Knodes. apply (xw_nodes_keep _ _ _ _ _ _ X1). exact Hm.
  - intros n E. pose proof (xw_ready _ _ _ _ _ _ X1 n E) as X. destruct (d_shuttingdown d).
    + right. apply SDM. exact X.
    + left. rewrite Knodes. exact X.
  - intros n ids E Hsd Hin. destruct (SDF Hsd) as (A & _ & ->). rewrite Hsd1 in A.
    exact (xw_cf _ _ _ _ _ _ X1 n ids E A Hin).
  - intros m Hm. rewrite F5 in Hm. exact (xw_cf_new _ _ _ _ _ _ X1 m Hm).
  - intros Hsd m Hm. destruct (SDF Hsd) as (A & _ & ->). rewrite Hsd1 in A.
    exact (xw_n2c_keep _ _ _ _ _ _ X1 A m Hm).
  - intros Hsd HW Hr. destruct (SDF Hsd) as (A & B & ->). rewrite Hsd1 in A.
    destruct (xw_wv _ _ _ _ _ _ X1 A HW Hr) as [Y|Y]; [exact Y|congruence].
  - intros Hsd. destruct (SDF Hsd) as (_ & A & ->). exact A.
  - intros Hsd Hold m Hm. rewrite Knodes in Hm. destruct (d_shuttingdown d1) eqn:Esd1.
    + apply SDM. symmetry in Hsd1.
      apply (NRWo_sd_in _ _ _ (hw_nt _ _ _ _ _ _ _ _ E1 m)). apply (Hold Hsd1).
      apply (xw_nodes_sd _ _ _ _ _ _ X1 Hsd1). exact Hm.
    + eapply (loop_rest_sdw d1 ws1); eauto. apply (wd_sched _ _ _ _ J1).
  - intros m. rewrite cmds_to_app. apply Forall_app. split; [apply (xw_ne _ _ _ _ _ _ X1)|].
    apply Forall_forall. intros cm Hcm. rewrite (Csd m cm Hcm). exact Logic.I.
  - intros coll Hcl. rewrite F3 in Hcl. rewrite F5. exact (xw_coll _ _ _ _ _ _ X1 coll Hcl).
Qed.

End CtlXW.

(* ====================================================================================== *)
(* C. the progress invariant                                                               *)
(* ====================================================================================== *)

(* ---- small facts on signals ---- *)
Lemma ev_xsigs_for_in n ev g : In g (ev_xsigs_for n ev) -> ev_xsig ev = Some (n, g).
Proof.
  unfold ev_xsigs_for. destruct (ev_xsig ev) as [[m h]|]; [|intros []].
  destruct (Nat.eqb m n) eqn:E; [|intros []]. apply Nat.eqb_eq in E. intros [<-|[]]. subst. reflexivity.
Qed.

Lemma ev_xsig_ready ev n : ev_xsig ev = Some (n, XReady) -> ev = QReady n.
Proof. destruct ev; cbn; intros E; try discriminate; inv E; try reflexivity. Qed.

Lemma ev_xsig_cf ev n : ev_xsig ev = Some (n, XCF) -> exists ids, ev = QCollFinish n ids.
Proof. destruct ev; cbn; intros E; try discriminate; inv E. eexists. reflexivity. Qed.

Lemma ev_xsigs_for_self n ev g : ev_xsig ev = Some (n, g) -> ev_xsigs_for n ev = [g].
Proof. intros E. unfold ev_xsigs_for. rewrite E, Nat.eqb_refl. reflexivity. Qed.

Lemma ev_xsigs_for_small n ev : length (ev_xsigs_for n ev) <= 1.
Proof. unfold ev_xsigs_for. destruct (ev_xsig ev) as [[m g]|]; [destruct (Nat.eqb m n)|]; cbn; lia. Qed.

(* one main-thread step emits at most one signal *)
Lemma main_step_one_sig o w w' evs :
  WX2 w -> main_step o w = Some (w', evs) -> length (flat_map we_xsig evs) <= 1.
Proof.
  intros X H. destruct (main_step_rank2 _ _ _ _ X H) as (Hok & [(E & _)|(g & E & _)]);
    rewrite (we_xsigs_inj evs Hok), E; cbn; lia.
Qed.

(* what the receiver thread sends: nothing, or one `unscheduled` reply *)
Lemma recv_step_sigs o w :
  Forall good_cmd_ws (winbox w) ->
  let E := flat_map we_xsig (snd (recv_step o w)) in
  length E <= 1 /\ forall g, In g E -> exists l, g = XUns l.
Proof.
  intros G. destruct (recv_step_owed2 o w G) as ([E|(_ & E)] & _); cbv zeta; rewrite E.
  - cbn. split; [lia|intros g []].
  - destruct (wreply w) as [l|]; cbn; (split; [lia|]); [intros g [<-|[]]; eauto|intros g []].
Qed.

Section SysPW.
Variable c : config.
Notation N := (c_numnodes c).
Hypothesis Hnc : forall n i, c_crash_in c n i = false.
Hypothesis Hng : no_garbled c.
Hypothesis Hne : forall k, ~ In ""%string (c_coll c k).

Record PNW (act : list nat) (sd dnb : bool) (ws : wsstate) (n : nat) (L : list xsig) (dn : list cmd) (w : wst) : Prop := {
  (* a worker that has booted: its "ready" is in flight, or it is registered, or it was told to shut down *)
  qn_ready : In n act -> wph w <> PBoot -> wph w <> PExited ->
             In XReady L \/ In n (ws_nodes ws) \/ (exists f, aget n (ws_nt ws) = Some f /\ n_sdsent f = true);
  (* a worker that has collected: its collection is in flight or recorded *)
  qn_cf : sd = false -> In n act -> 2 <= prank (wph w) -> wph w <> PExited ->
          In XCF L \/ In n (akeys (ws_n2c ws));
  (* a worker that has exited and is still heard: its "finished" is in flight *)
  qn_fin : wph w = PExited -> In n act -> dnb = false -> exists b, In (XFin b) L;
  (* a node that was told to shut down: the marker is in its command stream *)
  qn_mark : forall f, aget n (ws_nt ws) = Some f -> n_sdsent f = true ->
            In true (wmarks w ++ flat_map cmd_marks dn);
  qn_cb : CB w;
  qn_rc : wph w <> PExited -> rc_ok L;
  qn_boot : wph w = PBoot -> ~ In XCF L;
  qn_wx : WX2 w;
}.

Record PCW (d : dstate) (ws : wsstate) : Prop := {
  pw_tf : d_shuttingdown d = false -> ws_tests_finished ws = false;
  pw_wv : d_shuttingdown d = false -> Wv ws;
  pw_sd : d_shuttingdown d = true -> forall m, In m (ws_nodes ws) -> LivenessLaws.sd_in (ws_nt ws) m;
  pw_act : forall m, In m (d_active d) -> m < N;
  (* a recorded collection belongs to a registered node, or to one that has finished *)
  pw_k : forall m, In m (akeys (ws_n2c ws)) -> In m (ws_nodes ws) \/ ~ In m (d_active d);
}.

Definition PInvW (s : sys) : Prop :=
  exists ws, d_sched (y_d s) = StW ws /\ PCW (y_d s) ws /\
    (* a node that is down and still active: its "finished" event is on the controller's queue *)
    (forall n, ndown ws n = true -> In n (d_active (y_d s)) -> exists b, In (XFin b) (evq_xsigs n (y_evq s))) /\
    forall n w, aget n (y_w s) = Some w ->
      PNW (d_active (y_d s)) (d_shuttingdown (y_d s)) (ndown ws n) ws n (xsigs s n) (alist_get [] n (y_down s)) w.

Lemma PInvW_set_result s r : PInvW s -> PInvW (set_result s r).
Proof. intros H. exact H. Qed.

(* ---- worker steps ---- *)
Lemma PNW_deliver act sd dnb ws n L cm rest w :
  PNW act sd dnb ws n L (cm :: rest) w -> PNW act sd dnb ws n L rest (deliver w cm).
Proof.
  intros [A B C D E F G H]. destruct (deliver_owed2 w cm) as (_ & Ep & _).
  constructor; rewrite ?Ep; auto; try (apply CB_deliver; exact E).
  intros f Ef Hs. specialize (D f Ef Hs). rewrite deliver_marks, <- app_assoc. exact D.
Qed.

(* signals are appended to what is in flight *)
Lemma PNW_recv o act sd dnb ws n L dn w :
  Forall good_cmd_ws (winbox w) -> PNW act sd dnb ws n L dn w ->
  PNW act sd dnb ws n (L ++ flat_map we_xsig (snd (recv_step o w))) dn (fst (recv_step o w)).
Proof.
  intros G [A B C D E F G0 H].
  destruct (recv_step_owed2 o w G) as (_ & _ & Ep & _ & _ & _ & _ & _ & Hshr).
  destruct (recv_step_sigs o w G) as (Hlen & Huns).
  constructor; rewrite ?Ep.
  - intros H1 H2 H3. destruct (A H1 H2 H3) as [X|X]; [left; apply in_or_app; left; exact X|right; exact X].
  - intros H1 H2 H3 H4. destruct (B H1 H2 H3 H4) as [X|X]; [left; apply in_or_app; left; exact X|right; exact X].
  - intros H1 H2 H3. destruct (C H1 H2 H3) as (b & X). exists b. apply in_or_app. left. exact X.
  - intros f Ef Hs. eapply in_true_app_shr; [exact Hshr|exact (D f Ef Hs)].
  - apply CB_recv. exact E.
  - intros Hx. apply rc_ok_app; [exact (F Hx)|apply rc_ok_small; exact Hlen|].
    intros Hi. destruct (Huns _ Hi) as (l & F0). discriminate.
  - intros Hb Hi. apply in_app_or in Hi. destruct Hi as [Hi|Hi]; [exact (G0 Hb Hi)|].
    destruct (Huns _ Hi) as (l & F0). discriminate.
  - unfold WX2 in *. rewrite Ep. exact H.
Qed.

Lemma PNW_main o act sd dnb ws n L dn w w' evs :
  PNW act sd dnb ws n L dn w -> main_step o w = Some (w', evs) ->
  PNW act sd dnb ws n (L ++ flat_map we_xsig evs) dn w'.
Proof.
  intros [A B C D E F G X] H.
  destruct (main_step_xsigs _ _ _ _ X H) as (Bt1 & Bt2 & Bt3 & Cf1 & Cf2 & Fn & _).
  pose proof (main_step_not_exited _ _ _ _ H) as Hne0.
  constructor.
  - intros Hact _ _. destruct (phase_eq_dec_boot (wph w)) as [Eb|Eb].
    + left. apply in_or_app. right. apply Bt1. exact Eb.
    + destruct (A Hact Eb Hne0) as [X1|X1]; [left; apply in_or_app; left; exact X1|right; exact X1].
  - intros Hsd Hact Hr _. destruct (Cf1 Hr) as [Hr0|Hin].
    + destruct (B Hsd Hact Hr0 Hne0) as [X1|X1]; [left; apply in_or_app; left; exact X1|right; exact X1].
    + left. apply in_or_app. right. exact Hin.
  - intros Hex _ _. destruct (Fn Hex) as (b & Hb). exists b. apply in_or_app. right. exact Hb.
  - intros f Ef Hs. rewrite (main_step_marks _ _ _ _ H). exact (D f Ef Hs).
  - eapply CB_main; eauto.
  - intros _. apply rc_ok_app; [exact (F Hne0)|apply rc_ok_small; eapply main_step_one_sig; eauto|].
    intros Hi. apply G. apply Bt2. exact Hi.
  - intros Hb. contradiction.
  - eapply main_step_WX2; eauto.
Qed.

(* ---- the controller's receiver thread: flags only; a message of a node that is down is dropped ---- *)
Lemma PNW_ext act sd dnb dnb' ws ws' n L L' dn w :
  (forall g, aget n (ws_nt ws) = Some g -> exists g', aget n (ws_nt ws') = Some g' /\ n_sdsent g' = n_sdsent g) ->
  (forall g', aget n (ws_nt ws') = Some g' -> exists g, aget n (ws_nt ws) = Some g /\ n_sdsent g' = n_sdsent g) ->
  ws_n2p ws' = ws_n2p ws -> ws_n2c ws' = ws_n2c ws ->
  (wph w <> PExited -> L' = L) -> (dnb' = false -> L' = L /\ dnb = false) ->
  PNW act sd dnb ws n L dn w -> PNW act sd dnb' ws' n L' dn w.
Proof.
  intros FL FL' Ep Ec HL Hd [A B C D E F G X]. constructor; auto.
  - intros H1 H2 H3. rewrite (HL H3). destruct (A H1 H2 H3) as [Y|[Y|(f & Ef & Hs)]]; [left; exact Y|right; left|right; right].
    + unfold ws_nodes. rewrite Ep. exact Y.
    + destruct (FL f Ef) as (f' & Ef' & Es). exists f'. split; [exact Ef'|congruence].
  - intros H1 H2 H3 H4. rewrite (HL H4), Ec. exact (B H1 H2 H3 H4).
  - intros H1 H2 H3. destruct (Hd H3) as (-> & H3'). exact (C H1 H2 H3').
  - intros f' Ef' Hs. destruct (FL' f' Ef') as (f & Ef & Es). apply (D f Ef). congruence.
  - intros H1. rewrite (HL H1). exact (F H1).
  - intros H1. rewrite HL; [exact (G H1)|]. rewrite H1. discriminate.
Qed.

(* ---- one iteration of the controller loop, seen from node n ---- *)
Lemma PNW_ctl ev d ws d' ws' o n L' dn w dnb :
  LEFFW N (c_coll c) ev d ws d' ws' o -> LXEFFW ev d ws d' ws' o ->
  DJW N (c_coll c) d ws -> n < N ->
  (forall ids, ev = QCollFinish n ids -> ~ In n (akeys (ws_n2c ws))) ->
  (forall f', aget n (ws_nt ws') = Some f' -> n_down f' = true -> wph w = PExited) ->
  PNW (d_active d) (d_shuttingdown d) dnb ws n (ev_xsigs_for n ev ++ L') dn w ->
  PNW (d_active d') (d_shuttingdown d') dnb ws' n L' (dn ++ cmds_to n o) w.
Proof.
  intros LE LX (J0 & Jss) HnN Hcfpre Hdown [A B C D E F G X]. pose proof J0 as [Els J Jb Jq Jg Jf].
  assert (Hsub : forall g, In g L' -> In g (ev_xsigs_for n ev ++ L')) by (intros g Hg; apply in_or_app; right; exact Hg).
  assert (SDd : d_shuttingdown d' = false -> d_shuttingdown d = false).
  { intros Hs. destruct (d_shuttingdown d) eqn:Esd; [|reflexivity]. rewrite (lw_sd _ _ _ _ _ _ _ _ LE Esd) in Hs. discriminate. }
  constructor.
  - intros Hact Hnb Hnx. pose proof (lxw_act_sub _ _ _ _ _ _ LX n Hact) as Hact0.
    destruct (A Hact0 Hnb Hnx) as [Hi|[Hi|(f & Ef & Hs)]].
    + apply in_app_or in Hi. destruct Hi as [Hi|Hi]; [|left; exact Hi].
      apply ev_xsigs_for_in, ev_xsig_ready in Hi.
      destruct (lxw_ready _ _ _ _ _ _ LX n Hi) as [Y|(f' & Ef' & Hs')]; [right; left; exact Y|].
      right. right. exists f'. split; [exact Ef'|]. unfold shutting_down in Hs'.
      destruct (n_down f') eqn:Edn; [exfalso; exact (Hnx (Hdown f' Ef' Edn))|exact Hs'].
    + destruct (lxw_nodes_keep _ _ _ _ _ _ LX n Hi) as [Y|(b & Hev)]; [right; left; exact Y|].
      exfalso. exact (lxw_act_fin _ _ _ _ _ _ LX n b Hev Hact).
    + right. right. pose proof (lw_nt _ _ _ _ _ _ _ _ LE n) as R. rewrite Ef in R.
      destruct (aget n (ws_nt ws')) as [f'|] eqn:Ef'; [|destruct R]. cbn in R.
      exists f'. split; [reflexivity|]. destruct (NRW_fields _ _ _ R) as (_ & _ & _ & Dsd & _). apply Dsd. left. exact Hs.
  - intros Hsd' Hact Hr Hnx. pose proof (lxw_act_sub _ _ _ _ _ _ LX n Hact) as Hact0. pose proof (SDd Hsd') as Hsd.
    destruct (B Hsd Hact0 Hr Hnx) as [Hi|Hi].
    + apply in_app_or in Hi. destruct Hi as [Hi|Hi]; [|left; exact Hi].
      right. apply ev_xsigs_for_in in Hi. pose proof Hi as Hev. apply ev_xsig_cf in Hi. destruct Hi as (ids & ->).
      apply (lxw_cf _ _ _ _ _ _ LX n ids eq_refl Hsd').
      rewrite (ev_xsigs_for_self _ _ _ Hev) in *. cbn [app] in *.
      assert (Hnb : wph w <> PBoot) by (intros Eb; rewrite Eb in Hr; cbn in Hr; lia).
      assert (Hnc2 : ~ In n (akeys (ws_n2c ws))) by exact (Hcfpre ids eq_refl).
      destruct (A Hact0 Hnb Hnx) as [[Y|Y]|[Y|(f & Ef & Hs)]].
      * discriminate.
      * exfalso. destruct (F Hnx) as (Frc & _). exact (Frc eq_refl Y).
      * exact Y.
      * exfalso. assert (Hsome : some_sd ws) by (exists n, f; auto).
        destruct (Jq Hsd Hsome) as (Cc & _).
        rewrite (completed_pigeonw N (c_coll c) ws n J HnN Hnc2) in Cc. discriminate.
    + right. exact (lxw_n2c_keep _ _ _ _ _ _ LX Hsd' n Hi).
  - intros Hex Hact Hd. pose proof (lxw_act_sub _ _ _ _ _ _ LX n Hact) as Hact0.
    destruct (C Hex Hact0 Hd) as (b & Hi). apply in_app_or in Hi. destruct Hi as [Hi|Hi]; [|exists b; exact Hi].
    exfalso. apply ev_xsigs_for_in in Hi. exact (lxw_act_fin _ _ _ _ _ _ LX n b Hi Hact).
  - intros f' Ef' Hs. destruct (NRWo_open _ _ _ _ (lw_nt _ _ _ _ _ _ _ _ LE n) Ef') as (f0 & Ef0 & R).
    destruct (NRW_fields _ _ _ R) as (_ & _ & _ & Dsd & _). apply Dsd in Hs.
    rewrite flat_map_app, app_assoc. apply in_or_app. destruct Hs as [Hs|Hs].
    + left. exact (D f0 Ef0 Hs).
    + right. apply in_flat_map. exists CShutdown. split; [exact Hs|left; reflexivity].
  - exact E.
  - intros Hnx. exact (rc_ok_tail _ _ (F Hnx)).
  - intros Hb Hi. exact (G Hb (Hsub _ Hi)).
  - exact X.
Qed.

Lemma PInvW_init : c_mode c = MSteal -> 0 < N -> PInvW (sys_init c).
Proof.
  intros Hm Hpos. unfold PInvW. cbn [sys_init y_d d_sched]. rewrite Hm. cbn [s_init s_set_nt].
  eexists. split; [reflexivity|]. split; [|split].
  - constructor; cbn [d_shuttingdown].
    + intros _. unfold ws_tests_finished, ws_collection_is_completed. cbn [ws_set_nt ws_init ws_numnodes ws_n2c length].
      destruct N; [lia|]. reflexivity.
    + intros _. apply Wv_nocoll. reflexivity.
    + discriminate.
    + cbn [d_active]. intros m Hin. apply in_seq in Hin. lia.
    + cbn. intros m [].
  - intros n Hd. exfalso. unfold ndown in Hd. cbn [ws_set_nt ws_init ws_nt] in Hd.
    destruct (aget n (init_nt c)) as [f|] eqn:Ef; [|discriminate]. rewrite (aget_init_nt_dn c n f Ef) in Hd. discriminate.
  - intros n w Ew. cbn [sys_init y_w] in Ew. apply aget_map_const in Ew. subst w.
    assert (Esg : xsigs (sys_init c) n = []).
    { unfold xsigs. cbn [sys_init y_evq y_up]. rewrite alist_get_map_nil. reflexivity. }
    rewrite Esg. constructor; cbn [w_init wph prank].
    + intros _ Fb. exfalso. apply Fb. reflexivity.
    + intros _ _ Fb. lia.
    + discriminate.
    + intros f Ef Hs. cbn [ws_set_nt ws_nt ws_init] in Ef. rewrite (aget_init_nt_sd c n f Ef) in Hs. discriminate.
    + exact CB_init.
    + intros _. exact I.
    + intros _ [].
    + exact I.
Qed.

(* a worker step that pushes events onto its wire *)
Lemma pinvw_push s n0 w0 w' evs ws :
  d_sched (y_d s) = StW ws -> PCW (y_d s) ws ->
  (forall n, ndown ws n = true -> In n (d_active (y_d s)) -> exists b, In (XFin b) (evq_xsigs n (y_evq s))) ->
  (forall n w, aget n (y_w s) = Some w ->
     PNW (d_active (y_d s)) (d_shuttingdown (y_d s)) (ndown ws n) ws n (xsigs s n) (alist_get [] n (y_down s)) w) ->
  aget n0 (y_w s) = Some w0 ->
  PNW (d_active (y_d s)) (d_shuttingdown (y_d s)) (ndown ws n0) ws n0 (xsigs s n0 ++ flat_map we_xsig evs)
      (alist_get [] n0 (y_down s)) w' ->
  PInvW (push_up (set_w s n0 w') n0 (map (up_of_wevent c n0) evs)).
Proof.
  intros Els PCd PDn PNs Ew X.
  set (s' := push_up (set_w s n0 w') n0 (map (up_of_wevent c n0) evs)).
  assert (Sg : forall n, xsigs s' n = if Nat.eqb n n0 then xsigs s n0 ++ flat_map we_xsig evs else xsigs s n).
  { intros n. unfold xsigs, s'. cbn [push_up set_w y_evq y_up]. destruct (Nat.eqb n n0) eqn:E.
    - apply Nat.eqb_eq in E. subst n. rewrite FifoProofs.alist_get_aset_eq, flat_map_app, up_xsigs_of_wevents, app_assoc. reflexivity.
    - apply Nat.eqb_neq in E. rewrite FifoProofs.alist_get_aset_neq by exact E. reflexivity. }
  exists ws. split; [exact Els|]. split; [exact PCd|]. split; [exact PDn|].
  intros n w Hw. rewrite Sg. unfold s' in Hw |- *. cbn [push_up set_w y_w y_d y_down] in Hw |- *.
  destruct (Nat.eqb n n0) eqn:E.
  - apply Nat.eqb_eq in E. subst n. rewrite FifoProofs.aget_aset_eq in Hw. inv Hw. exact X.
  - apply Nat.eqb_neq in E. rewrite FifoProofs.aget_aset_neq in Hw by exact E. apply PNs. exact Hw.
Qed.

(* ---- the one-step lemma ---- *)
Lemma step_pinvw P s l s' o w :
  no_crash_label l -> CInvG c P s -> PInvW s -> sys_step c s l = Some (s', o, w) -> PInvW s'.
Proof.
  intros Hl CI (wsp & Elsp & PCd & PDn & PNs) H.
  pose proof CI as [Inv Ek (ws & DJd & NIs) Eq Eu Edn Ea Er Epm Efn Edw Ecl Eef Est Epo].
  pose proof Inv as [A B (ws0 & Els0 & Iw & T) D E E' F G].
  pose proof DJd as (J0 & Jss). pose proof J0 as [Els J Jb Jq Jg Jf].
  assert (ws0 = ws) by congruence. subst ws0. assert (wsp = ws) by congruence. subst wsp.
  unfold sys_step in H. destruct (y_result s) eqn:Eres; [discriminate|].
  destruct l as [n0|n0|n0|n0| |n0]; [| | | | |contradiction].
  - (* LDeliver *)
    replace (mem_nat n0 (y_dead s)) with false in H by (rewrite A; reflexivity).
    destruct (aget n0 (y_down s)) as [[|cmd rest]|] eqn:Ed; try discriminate.
    destruct (aget n0 (y_w s)) as [w0|] eqn:Ew; try discriminate.
    fin3 H s' o w.
    exists ws. split; [exact Els|]. split; [exact PCd|]. split; [exact PDn|].
    intros n w Hw. unfold xsigs. cbn [y_d y_down y_evq y_up y_w] in *. fold (xsigs s n).
    destruct (Nat.eq_dec n n0) as [->|Hn].
    + rewrite FifoProofs.aget_aset_eq in Hw. inv Hw. rewrite FifoProofs.alist_get_aset_eq.
      apply PNW_deliver. pose proof (PNs n0 w0 Ew) as X. rewrite (alist_get_some [] _ _ _ Ed) in X. exact X.
    + rewrite FifoProofs.aget_aset_neq in Hw by exact Hn. rewrite FifoProofs.alist_get_aset_neq by exact Hn.
      apply PNs. exact Hw.
  - (* LRecvW *)
    replace (mem_nat n0 (y_dead s)) with false in H by (rewrite A; reflexivity).
    destruct (aget n0 (y_w s)) as [w0|] eqn:Ew; try discriminate.
    destruct (negb (wcb w0)); [discriminate|].
    destruct (recv_step (c_oracle c n0) w0) as [w' evs] eqn:Es. fin3 H s' o w.
    destruct (G _ _ Ew) as (Iw0 & Gw & Sw & NGw).
    apply pinvw_push with (w0 := w0) (ws := ws); auto.
    pose proof (PNW_recv (c_oracle c n0) _ _ _ _ _ _ _ _ Gw (PNs n0 w0 Ew)) as X. rewrite Es in X. exact X.
  - (* LMain *)
    replace (mem_nat n0 (y_dead s)) with false in H by (rewrite A; reflexivity).
    destruct (aget n0 (y_w s)) as [w0|] eqn:Ew; try discriminate.
    assert (Hd : dies_now c n0 w0 = false).
    { unfold dies_now. destruct (wph w0); auto. }
    rewrite Hd in H.
    destruct (main_step (c_oracle c n0) w0) as [[w' evs]|] eqn:Es; [|discriminate]. fin3 H s' o w.
    apply pinvw_push with (w0 := w0) (ws := ws); auto.
    eapply PNW_main; [exact (PNs n0 w0 Ew)|exact Es].
  - (* LRecv *)
    destruct (aget n0 (y_up s)) as [[|m rest]|] eqn:Eup; try discriminate.
    cbn [y_d] in H.
    destruct (process_from_remote n0 m (y_d s)) as [[d' outs] r] eqn:Ep.
    pose proof (E n0) as En. rewrite (alist_get_some [] _ _ _ Eup) in En.
    inversion En as [|m1 r1 Gm Gr]; subst.
    destruct (Eu n0) as (Eu1 & Eu2). rewrite (alist_get_some [] _ _ _ Eup) in Eu1, Eu2.
    inversion Eu1 as [|m2 r2 Gm3 Gr3]; subst.
    assert (HnN : n0 < N).
    { destruct (Nat.lt_ge_cases n0 N) as [X|X]; [exact X|]. specialize (Eu2 X). discriminate. }
    destruct (aget n0 (ws_nt ws)) as [f|] eqn:Ef.
    2:{ exfalso. apply (proj2 (wj_ntk _ _ _ J n0)); [exact HnN|exact Ef]. }
    destruct (worker_knownw c s n0 Ek HnN) as (wn & Ewn).
    destruct (pfr_effw c _ _ _ _ _ _ _ _ Els Ef Gm Gm3 HnN Ep)
      as (-> & evs & ws' & -> & Els' & Hdrop & Hheard & Hother & Hok3 & S1 & S2 & S3 & P1 & P2 & P3 & P4 & P5 & P6 & P8 &
          (f' & Ef' & Fsd & Fcl & Fsp & Fdn & Fdn' & Ffin)).
    cbn [apply_outs] in H. unfold close_if_dead in H. cbn [set_evq set_d y_dead] in H.
    replace (mem_nat n0 (y_dead s)) with false in H by (rewrite A; reflexivity).
    fin3 H s' o w.
    assert (Eups : flat_map up_xsig (alist_get [] n0 (y_up s)) = up_xsig m ++ flat_map up_xsig rest).
    { rewrite (alist_get_some [] _ _ _ Eup). reflexivity. }
    assert (FL : forall k g, aget k (ws_nt ws) = Some g ->
                 exists g', aget k (ws_nt ws') = Some g' /\ n_sdsent g' = n_sdsent g /\ (n_down g = true -> n_down g' = true)).
    { intros k g Eg. destruct (Nat.eq_dec k n0) as [->|Hk].
      - exists f'. split; [exact Ef'|]. assert (g = f) by congruence. subst g. auto.
      - exists g. rewrite (P8 k Hk). auto. }
    assert (FL' : forall k g', aget k (ws_nt ws') = Some g' ->
                  exists g, aget k (ws_nt ws) = Some g /\ n_sdsent g' = n_sdsent g /\ (n_down g = true -> n_down g' = true)).
    { intros k g' Eg. destruct (Nat.eq_dec k n0) as [->|Hk].
      - exists f. split; [exact Ef|]. assert (g' = f') by congruence. subst g'. auto.
      - exists g'. rewrite <- (P8 k Hk). auto. }
    assert (Hup : incl (ws_up ws') (ws_up ws)).
    { apply ws_up_mono; [rewrite P1; reflexivity|exact P2|].
      intros k g' Eg Hs. destruct (FL' k g' Eg) as (g & Eg0 & Es0 & Ed0). exists g. split; [exact Eg0|].
      unfold shutting_down in *. apply orb_false_iff in Hs. destruct Hs as (H1 & H2).
      rewrite <- Es0, H2. destruct (n_down g) eqn:Edg; [rewrite (Ed0 eq_refl) in H1; discriminate|reflexivity]. }
    assert (ND0 : ndown ws n0 = n_down f) by (unfold ndown; rewrite Ef; reflexivity).
    assert (ND0' : ndown ws' n0 = n_down f') by (unfold ndown; rewrite Ef'; reflexivity).
    assert (NDk : forall k, k <> n0 -> ndown ws' k = ndown ws k) by (intros k Hk; unfold ndown; rewrite (P8 k Hk); reflexivity).
    (* the signals of a node that is not down are only moved from its wire to the queue *)
    assert (Esg : forall n, n <> n0 \/ n_down f = false ->
              evq_xsigs n (y_evq s ++ evs) ++ flat_map up_xsig (alist_get [] n (aset n0 rest (y_up s))) = xsigs s n).
    { intros n Hn. unfold xsigs. rewrite evq_xsigs_app. destruct (Nat.eq_dec n n0) as [->|Hnq].
      - destruct Hn as [Hn|Hn]; [congruence|].
        rewrite FifoProofs.alist_get_aset_eq, Eups. destruct (Hheard Hn) as (Hsig & _).
        rewrite Hsig, Nat.eqb_refl, <- app_assoc. reflexivity.
      - rewrite (Hother n Hnq), app_nil_r, FifoProofs.alist_get_aset_neq by exact Hnq. reflexivity. }
    exists ws'. cbn [set_evq set_d y_d y_evq y_down y_up y_w y_dead y_result]. split; [exact Els'|].
    destruct PCd as [Ptf Pwv Psd Pact Pk]. split; [|split].
    + constructor; rewrite ?S1, ?S3.
      * intros Hs. rewrite <- (Ptf Hs). unfold ws_tests_finished, ws_collection_is_completed.
        rewrite P6, P2, P3, P5, P1. reflexivity.
      * intros Hs. exact (Wv_mono ws ws' (Pwv Hs) Hup P1 P3 P5 P4).
      * intros Hs m0 Hm0. unfold ws_nodes in Hm0. rewrite P1 in Hm0. destruct (Psd Hs m0 Hm0) as (g & Eg & Hsg).
        destruct (FL m0 g Eg) as (g' & Eg' & Es' & Ed'). exists g'. split; [exact Eg'|].
        unfold shutting_down in *. rewrite Es'. destruct (n_down g); [rewrite (Ed' eq_refl); reflexivity|].
        cbn in Hsg. rewrite Hsg. apply orb_true_r.
      * exact Pact.
      * intros m0 Hm0. rewrite P2 in Hm0. unfold ws_nodes. rewrite P1. exact (Pk m0 Hm0).
    + intros n Hd Hact. rewrite S3 in Hact. rewrite evq_xsigs_app.
      destruct (Nat.eq_dec n n0) as [->|Hnq].
      * rewrite ND0' in Hd. destruct (n_down f) eqn:Edf.
        -- destruct (PDn n0 ND0 Hact) as (b & Hb). exists b. apply in_or_app. left. exact Hb.
        -- destruct (Fdn' Hd) as [X|(b & ->)]; [discriminate|].
           destruct (Hheard eq_refl) as (Hsig & _). exists b. apply in_or_app. right.
           rewrite Hsig, Nat.eqb_refl. left. reflexivity.
      * rewrite (NDk n Hnq) in Hd. destruct (PDn n Hd Hact) as (b & Hb). exists b. apply in_or_app. left. exact Hb.
    + intros n w Hw. unfold xsigs. cbn [set_evq set_d y_d y_down y_evq y_up]. rewrite S1, S3.
      assert (FLn : forall g, aget n (ws_nt ws) = Some g -> exists g', aget n (ws_nt ws') = Some g' /\ n_sdsent g' = n_sdsent g).
      { intros g Eg. destruct (FL n g Eg) as (g' & X1 & X2 & _). eauto. }
      assert (FLn' : forall g', aget n (ws_nt ws') = Some g' -> exists g, aget n (ws_nt ws) = Some g /\ n_sdsent g' = n_sdsent g).
      { intros g' Eg. destruct (FL' n g' Eg) as (g & X1 & X2 & _). eauto. }
      destruct (Nat.eq_dec n n0) as [->|Hnq].
      * assert (w = wn) by congruence. subst w.
        apply (PNW_ext _ _ (ndown ws n0) _ ws ws' n0 (xsigs s n0)); auto.
        -- intros Hnx. apply Esg. right. destruct (n_down f) eqn:Edf; [|reflexivity]. exfalso. apply Hnx.
           exact (proj1 (Edw ws n0 f wn Els Ef Edf Ewn)).
        -- intros Hd. rewrite ND0' in Hd. assert (Edf : n_down f = false).
           { destruct (n_down f) eqn:Edf; [|reflexivity]. rewrite (Fdn eq_refl) in Hd. discriminate. }
           split; [apply Esg; right; exact Edf|rewrite ND0; exact Edf].
      * rewrite (Esg n (or_introl Hnq)), (NDk n Hnq).
        apply (PNW_ext _ _ (ndown ws n) _ ws ws' n (xsigs s n)); auto.
  - (* LCtl *)
    specialize (Ea eq_refl).
    destruct (d_active (y_d s)) as [|a0 ar] eqn:Eact; [contradiction|].
    destruct (y_evq s) as [|ev q] eqn:Eevq; [discriminate|].
    inversion D as [|ev1 q1 Gev Gq]; subst. inversion Eq as [|ev2 q2 Gev3 Gq3]; subst.
    destruct (d_loop_once ev (y_d s)) as [[d' outs] r] eqn:El.
    assert (Hpre : PREW N (c_coll c) ev (y_d s) ws).
    { eapply pre_from_invw; eauto. }
    assert (Hact : d_active (y_d s) <> []) by (rewrite Eact; discriminate).
    destruct (loop_once_okw N (c_coll c) ev (y_d s) ws d' outs r DJd Iw Hact Hpre El) as (-> & ws' & LE).
    destruct (okw_loop_once ev (y_d s) Gev _ _ _ El ws Els Iw) as (ws2 & Els2 & _ & HWT & Go).
    assert (Els' : d_sched d' = StW ws').
    { destruct (lw_dj _ _ _ _ _ _ _ _ LE) as ([E1 _ _ _ _ _] & _). exact E1. }
    pose proof (loop_xw N (c_coll c) ev (y_d s) ws d' outs (Ok tt) DJd Iw Hact Hpre El ws' Els') as LX.
    set (s1 := apply_outs (set_d (set_evq s q) d') outs) in *.
    assert (Hd1 : y_dead (set_d (set_evq s q) d') = []) by (cbn; exact A).
    destruct (apply_outs_effw outs _ Hd1 Go) as (A1 & A2 & A3 & A4 & A5 & A6 & A7).
    cbn [set_d set_evq y_d y_evq y_up y_w y_dead y_result y_down] in A1, A2, A3, A4, A5, A6, A7.
    fold s1 in A1, A2, A3, A4, A5, A6, A7.
    assert (S' : exists rr, s' = set_result s1 rr).
    { destruct (d_session_finished d') eqn:Efin.
      - fin3 H s' o w. eexists. reflexivity.
      - destruct (d_active d') as [|b0 br] eqn:Eact'.
        + exfalso. pose proof (lw_fin _ _ _ _ _ _ _ _ LE) as Hf. rewrite Eact' in Hf. specialize (Hf eq_refl).
          unfold d_session_finished in Efin. rewrite Hf, Eact' in Efin. discriminate.
        + fin3 H s' o w. exists (y_result s1). symmetry. apply set_result_same. reflexivity. }
    destruct S' as (rr & ->).
    apply PInvW_set_result.
    assert (SDd : d_shuttingdown d' = false -> d_shuttingdown (y_d s) = false).
    { intros Hs. destruct (d_shuttingdown (y_d s)) eqn:Esd; [|reflexivity].
      rewrite (lw_sd _ _ _ _ _ _ _ _ LE Esd) in Hs. discriminate. }
    exists ws'. rewrite A1. split; [exact Els'|]. destruct PCd as [Ptf Pwv Psd Pact Pk]. split; [|split].
    + constructor.
      * exact (lxw_tf _ _ _ _ _ _ LX).
      * intros Hs. pose proof (SDd Hs) as Hs0. apply (lxw_wv _ _ _ _ _ _ LX Hs (Pwv Hs0)).
        intros n ->. cbn [PREW] in Hpre. destruct Hpre as (HnN & Hp). destruct (Hp Hs0) as (Hnn & Hna).
        destruct (ws_coll ws) eqn:Ecoll0; [|reflexivity]. exfalso.
        assert (Hni : ~ In n (akeys (ws_n2c ws))).
        { intros Hin. destruct (Pk n Hin) as [X|X]; [exact (Hnn X)|exact (X Hna)]. }
        pose proof (completed_pigeonw N (c_coll c) ws n J HnN Hni) as Fc.
        rewrite (wj_cc _ _ _ J) in Fc; [discriminate|congruence].
      * intros Hs. apply (lxw_sd _ _ _ _ _ _ LX Hs). exact Psd.
      * intros m Hm. apply Pact. exact (lxw_act_sub _ _ _ _ _ _ LX m Hm).
      * intros m Hm.
        assert (KN : In m (ws_nodes ws) -> In m (ws_nodes ws') \/ ~ In m (d_active d')).
        { intros X. destruct (lxw_nodes_keep _ _ _ _ _ _ LX m X) as [Y|(b & Y)]; [left; exact Y|right].
          exact (lxw_act_fin _ _ _ _ _ _ LX m b Y). }
        destruct (lxw_cf_new _ _ _ _ _ _ LX m Hm) as [X|X]; [|exact (KN X)].
        destruct (Pk m X) as [Y|Y]; [exact (KN Y)|right]. intros Z. apply Y. exact (lxw_act_sub _ _ _ _ _ _ LX m Z).
    + intros n Hd Hact'. rewrite A2. rewrite (ndown_leff c _ _ _ _ _ _ n LE) in Hd.
      pose proof (lxw_act_sub _ _ _ _ _ _ LX n Hact') as Hact0. rewrite ?Eact in Hact0.
      destruct (PDn n Hd Hact0) as (b & Hi).
      cbn [evq_xsigs flat_map] in Hi. apply in_app_or in Hi. destruct Hi as [Hi|Hi]; [|exists b; exact Hi].
      exfalso. apply ev_xsigs_for_in in Hi. exact (lxw_act_fin _ _ _ _ _ _ LX n b Hi Hact').
    + intros n w1 Hw. rewrite A4 in Hw. rewrite A7.
      assert (Es : xsigs s1 n = evq_xsigs n q ++ flat_map up_xsig (alist_get [] n (y_up s))).
      { unfold xsigs. rewrite A2, A3. reflexivity. }
      rewrite Es, (ndown_leff c _ _ _ _ _ _ n LE).
      eapply PNW_ctl; [exact LE|exact LX|exact DJd|exact (worker_ltw c s n w1 Ek Hw)| | |].
      * intros ids ->. cbn [PREW] in Hpre. tauto.
      * intros f' Ef' Hdn'. destruct (NRWo_open _ _ _ _ (lw_nt _ _ _ _ _ _ _ _ LE n) Ef') as (f & Ef & R0).
        destruct (NRW_fields _ _ _ R0) as (_ & Bd & _).
        apply (Edw ws n f w1 Els Ef); [congruence|exact Hw].
      * rewrite <- (xsigs_head s ev q n Eevq). rewrite Eact. apply PNs. exact Hw.
Qed.

Lemma pinvw_run ls :
  c_mode c = MSteal -> 0 < N -> Forall no_crash_label ls ->
  (exists P, CInvG c P (sys_run c ls)) /\ PInvW (sys_run c ls).
Proof.
  intros Hm Hpos Hls. unfold sys_run.
  assert (G : forall s, (exists P, CInvG c P s) /\ PInvW s ->
     let s' := fold_left (fun s l => match sys_step c s l with Some (s', _, _) => s' | None => s end) ls s in
     (exists P, CInvG c P s') /\ PInvW s').
  { induction Hls as [|l ls Hl Hls IH]; intros s Hs; cbn [fold_left]; [exact Hs|].
    apply IH. destruct (sys_step c s l) as [[[s' o] w]|] eqn:E; [|exact Hs].
    destruct Hs as ((P & H1) & H2). split; [eapply (step_cinvw c Hnc Hng Hne); eauto|eapply step_pinvw; eauto]. }
  apply G. split; [exists (fun _ => false); apply CInvW_init; assumption|apply PInvW_init; assumption].
Qed.

(* ====================================================================================== *)
(* D. quiescent states cannot occur while the session is running                           *)
(* ====================================================================================== *)
Lemma quiescent_false_w P s :
  CInvG c P s -> PInvW s -> y_result s = None -> y_evq s = [] ->
  (forall n w, aget n (y_w s) = Some w -> quiet c s n w) -> False.
Proof.
  intros CI (wsp & Elsp & PCd & PDn & PNs) Hres Hevq HQ.
  pose proof CI as [Inv Ek (ws & DJd & NIs) Eq Eu Edn Ea Er Epm Efn Edw Ecl Eef Est Epo].
  pose proof Inv as [A B (ws0 & Els0 & Iw & T) D E E' F G].
  pose proof DJd as (J0 & Jss). pose proof J0 as [Els J Jb Jq Jg Jf].
  assert (ws0 = ws) by congruence. subst ws0. assert (wsp = ws) by congruence. subst wsp.
  destruct PCd as [Ptf Pwv Psd Pact Pk].
  assert (SG : forall n w, aget n (y_w s) = Some w -> xsigs s n = []).
  { intros n w Hw. destruct (HQ n w Hw) as (_ & Hu & _). unfold xsigs. rewrite Hevq, Hu. reflexivity. }
  (* an active node: its worker waits at an empty queue, is heard, was not told to shut down, is registered,
     its own session has not stopped, its book holds at most one test and no steal request names it *)
  assert (ACT : forall n, In n (d_active (y_d s)) -> exists w f, aget n (y_w s) = Some w /\ aget n (ws_nt ws) = Some f /\
            n_sdsent f = false /\ n_down f = false /\ In n (ws_nodes ws) /\ length (bkw ws n) <= 1 /\
            cnt (ws_steal ws) n = 0 /\ (d_shuttingdown (y_d s) = false -> In n (akeys (ws_n2c ws)))).
  { intros n Hact. pose proof (Pact n Hact) as HnN. destruct (worker_knownw c s n Ek HnN) as (w & Ew).
    pose proof (PNs n w Ew) as Y. rewrite (SG n w Ew) in Y.
    destruct (HQ n w Ew) as (Hd & Hu & Hb & Hm). rewrite Hd in Y.
    destruct (aget n (ws_nt ws)) as [f|] eqn:Ef.
    2:{ exfalso. apply (proj2 (wj_ntk _ _ _ J n)); [exact HnN|exact Ef]. }
    exists w, f. split; [exact Ew|]. split; [reflexivity|].
    assert (Hdf : n_down f = false).
    { destruct (n_down f) eqn:Ed0; [|reflexivity]. exfalso.
      assert (X : ndown ws n = true) by (unfold ndown; rewrite Ef; exact Ed0).
      destruct (PDn n X Hact) as (b & Hb0). rewrite Hevq in Hb0. destruct Hb0. }
    assert (Hnd : ndown ws n = false) by (unfold ndown; rewrite Ef; exact Hdf).
    rewrite Hnd in Y.
    assert (Hnx : wph w <> PExited).
    { intros Ex. destruct (qn_fin _ _ _ _ _ _ _ _ Y Ex Hact eq_refl) as (b & []). }
    apply LivenessLaws.V6_main_step_blocked in Hm.
    destruct (G n w Ew) as (Iw0 & Gw & _).
    assert (BL : wq w = [] /\ wcb w = true /\ prank (wph w) = 2 /\ wph w <> PBoot /\
                 (wph w = PWaitFirst \/ exists cur, wph w = PWaitNext cur)).
    { destruct Hm as [(Ep & Eq0 & Ecb)|[(cur & Ep & Eq0)|Ep]]; [| |contradiction].
      - rewrite Ep. repeat split; auto; try discriminate.
      - pose proof (qn_cb _ _ _ _ _ _ _ _ Y) as Cb. unfold CB in Cb. rewrite Ep in Cb.
        rewrite Ep. repeat split; auto; try discriminate. right. eexists. reflexivity. }
    destruct BL as (Eq0 & Ecb & Hr & Hnb & Hph).
    unfold recv_busy in Hb. rewrite Ecb in Hb. cbn [andb] in Hb. apply negb_false_iff in Hb.
    destruct (wrpend w) eqn:Erp; [|discriminate]. destruct (winbox w) eqn:Eib; [|discriminate].
    destruct (wreply w) eqn:Erep; [discriminate|].
    destruct (blocked_no_mark w Iw0 Eq0 Erp Eib Erep Hph) as (Hnm & Hom).
    assert (Hsf : n_sdsent f = false).
    { destruct (n_sdsent f) eqn:Es; [|reflexivity]. exfalso. apply Hnm.
      pose proof (qn_mark _ _ _ _ _ _ _ _ Y f Ef Es) as X. cbn [flat_map] in X. rewrite app_nil_r in X. exact X. }
    split; [exact Hsf|]. split; [exact Hdf|].
    assert (Hin : In n (ws_nodes ws)).
    { destruct (qn_ready _ _ _ _ _ _ _ _ Y Hact Hnb Hnx) as [[]|[Hin|(f1 & Ef1 & Hs1)]]; [exact Hin|]. congruence. }
    split; [exact Hin|].
    pose proof (NIs n w Ew) as X. unfold NInvG in X. destruct (P n) eqn:EP.
    { exfalso. destruct (sw_ph _ _ _ _ _ _ _ X) as [Z|Z]; [|contradiction]. rewrite Z in Hr. discriminate. }
    rewrite (SG n w Ew), Hd in X.
    split; [|split].
    - pose proof (nw_coupled _ _ _ _ _ _ X) as Cp. unfold R in Cp. rewrite Erep in Cp.
      cbn [xcompletes xbacks flat_map app reply_inds] in Cp. rewrite !app_nil_r in Cp.
      apply Permutation_length in Cp. lia.
    - pose proof (nw_steal _ _ _ _ _ _ X) as St. rewrite Eib, Erep in St. unfold nstc, nuns in St. cbn in St. lia.
    - intros Hsd. assert (Hr2 : 2 <= prank (wph w)) by lia.
      destruct (qn_cf _ _ _ _ _ _ _ _ Y Hsd Hact Hr2 Hnx) as [[]|Hc]. exact Hc. }
  assert (Hact0 : exists a, In a (d_active (y_d s))).
  { destruct (d_active (y_d s)) as [|a ar] eqn:Eact; [exfalso; exact (Ea Hres eq_refl)|]. exists a. left. reflexivity. }
  destruct Hact0 as (a & Hacta).
  destruct (ACT a Hacta) as (wa & fa & Ewa & Efa & Hsfa & Hdfa & Hina & Hbka & Hsta & Hn2ca).
  destruct (d_shuttingdown (y_d s)) eqn:Esd.
  - (* shutting down: the registered node a was told to shut down, or is down *)
    destruct (Psd eq_refl a Hina) as (f' & Ef' & Hs'). rewrite Efa in Ef'. inv Ef'.
    unfold shutting_down in Hs'. rewrite Hsfa, Hdfa in Hs'. discriminate.
  - assert (Hss : d_shouldstop (y_d s) = false).
    { destruct (d_shouldstop (y_d s)) eqn:E1; [|reflexivity]. specialize (Jss eq_refl). discriminate. }
    (* every worker has reported its collection *)
    assert (Hcomp : ws_collection_is_completed ws = true).
    { destruct (ws_collection_is_completed ws) eqn:Ec; [reflexivity|]. exfalso.
      assert (ALL : forall n, n < N -> In n (akeys (ws_n2c ws))).
      { intros n HnN. destruct (worker_knownw c s n Ek HnN) as (w & Ew).
        destruct (in_dec Nat.eq_dec n (d_active (y_d s))) as [Hact|Hna].
        - destruct (ACT n Hact) as (_ & _ & _ & _ & _ & _ & _ & _ & _ & X). exact (X eq_refl).
        - exfalso. pose proof (NIs n w Ew) as X. unfold NInvG in X. destruct (P n) eqn:EP.
          + destruct (Est n EP) as [Z|Z]; [contradiction|congruence].
          + destruct (nw_act _ _ _ _ _ _ X Hna) as (_ & Ex).
            destruct (nw_flags _ _ _ _ _ _ X) as (f & Ef & Mk).
            assert (MP : markpopped w) by (apply (nw_fx _ _ _ _ _ _ X); left; exact Ex).
            destruct (markpopped_empty _ _ _ MP Mk) as (_ & _ & _ & _ & _ & Hs).
            assert (Hsome : some_sd ws) by (exists n, f; auto).
            destruct (Jq eq_refl Hsome) as (Cc & _). congruence. }
      assert (Hinc : incl (seq 0 N) (akeys (ws_n2c ws))) by (intros n Hn; apply in_seq in Hn; apply ALL; lia).
      pose proof (NoDup_incl_length (seq_NoDup N 0) Hinc) as Hlen. rewrite seq_length, akeys_length in Hlen.
      unfold ws_collection_is_completed in Ec. rewrite (wj_num _ _ _ J) in Ec. apply Nat.leb_gt in Ec. lia. }
    destruct (ws_coll ws) as [coll|] eqn:Ecoll.
    + (* the tests are distributed: node a is idle, so a steal request is outstanding -- but none is in flight *)
      assert (Hup : In a (ws_up ws)).
      { apply ws_up_spec. split; [exact Hina|]. exists fa. split; [exact Efa|]. split.
        - unfold shutting_down. rewrite Hdfa, Hsfa. reflexivity.
        - apply ahas_keys. exact (Hn2ca eq_refl). }
      assert (Hlen : ws_len ws a < 2) by (rewrite ws_len_bkw; lia).
      assert (Hc : ws_coll ws <> None) by (rewrite Ecoll; discriminate).
      destruct (Pwv eq_refl Hc a Hup Hlen) as (_ & Hst).
      destruct (ws_steal ws) as [v|] eqn:Ev; [|congruence].
      assert (Hv : In v (d_active (y_d s))) by (apply (Jb eq_refl Hss); apply (wj_st _ _ _ J); exact Ev).
      destruct (ACT v Hv) as (_ & _ & _ & _ & _ & _ & _ & _ & X & _). rewrite cnt_some_eq in X. discriminate.
    + (* nothing was scheduled: the tests are finished *)
      pose proof (Ptf eq_refl) as Htf. destruct Iw as (_ & _ & I3). destruct (I3 Ecoll) as (Ep0 & Es0).
      unfold ws_tests_finished in Htf. rewrite Hcomp, Ep0, Es0 in Htf. cbn [andb] in Htf.
      rewrite (books_nil_small _ (wj_b0 _ _ _ J Ecoll)) in Htf. discriminate.
Qed.

(* in every state satisfying the invariants in which the session has not ended, a useful move exists *)
Theorem progress_w P s :
  CInvG c P s -> PInvW s -> y_result s = None -> exists l, Good_label c s l.
Proof.
  intros CI PI Hres. pose proof (sw_dead _ (cw_sinv _ _ _ CI)) as Hd.
  destruct (y_evq s) as [|ev q] eqn:Eevq.
  - destruct (find_label c s (seq 0 N)) as [l|] eqn:Ef.
    + destruct (find_label_some _ _ _ _ Ef) as (n & Hn). exists l. eapply node_label_ok; eauto.
    + exfalso. apply (quiescent_false_w P s CI PI Hres Eevq). intros n w Ew.
      apply node_label_none; [|exact Ew]. apply (find_label_none _ _ _ Ef). apply in_seq.
      pose proof (worker_ltw c s n w (cw_keys _ _ _ CI) Ew). lia.
  - exists LCtl. split; [exact Logic.I|]. split; [reflexivity|].
    unfold sys_step. rewrite Hres, Eevq.
    destruct (d_active (y_d s)).
    + destruct (d_no_active (y_d s)) as [[d' outs] r]. discriminate.
    + destruct (d_loop_once ev (y_d s)) as [[d' outs] r]. destruct r; [|discriminate].
      destruct (d_session_finished d'); [discriminate|].
      destruct (d_active d'); [|discriminate].
      destruct (d_no_active d') as [[d2 outs2] r2]. discriminate.
Qed.

End SysPW.

(* ====================================================================================== *)
(* E. the theorems                                                                         *)
(* ====================================================================================== *)
Section MainPW.
  Variable c : config.
  Variable ls : list label.
  Hypothesis Hmode : c_mode c = MSteal.
  Hypothesis Hnocrash : forall n i, c_crash_in c n i = false.
  Hypothesis Hnogarbled : no_garbled c.
  Hypothesis Hids : forall n, ~ In ""%string (c_coll c n).
  Hypothesis Hsched : Forall no_crash_label ls.
  Hypothesis Hnodes : 0 < c_numnodes c.

  Theorem run_pinvw : PInvW c (sys_run c ls).
  Proof. exact (proj2 (pinvw_run c Hnocrash Hnogarbled Hids ls Hmode Hnodes Hsched)). Qed.

  (* in every reachable state: every node that is up and idle sees an empty pool and an outstanding
     steal request (as long as the session is not shutting down) *)
  Theorem run_idle_has_request : forall wss,
    d_sched (y_d (sys_run c ls)) = StW wss -> d_shuttingdown (y_d (sys_run c ls)) = false -> Wv wss.
  Proof.
    intros wss E Hsd. destruct run_pinvw as (ws & Els & PCd & _). assert (wss = ws) by congruence. subst wss.
    exact (pw_wv _ _ _ PCd Hsd).
  Qed.

  (* C02, no stand-off, --dist worksteal: while the session has not ended, some component can make a
     useful move (not a crash, not an idle turn of a worker's receiver thread).  No hypothesis on the
     stop requests of the workers' own sessions is needed. *)
  Theorem c02_ws_no_deadlock_useful :
    y_result (sys_run c ls) = None ->
    exists l, no_crash_label l /\ useful (sys_run c ls) l = true /\ sys_step c (sys_run c ls) l <> None.
  Proof.
    intros Hres. destruct (pinvw_run c Hnocrash Hnogarbled Hids ls Hmode Hnodes Hsched) as ((P & CI) & PI).
    exact (progress_w c Hnocrash P _ CI PI Hres).
  Qed.

  Theorem c02_ws_no_deadlock :
    y_result (sys_run c ls) = None ->
    exists l, no_crash_label l /\ sys_step c (sys_run c ls) l <> None.
  Proof.
    intros Hres. destruct (c02_ws_no_deadlock_useful Hres) as (l & A & _ & B). exists l. split; assumption.
  Qed.
End MainPW.

(* the moves excluded by [useful] are idle turns of a receiver thread: Progress.idle_turn_changes_nothing
   is independent of the scheduling mode *)

Print Assumptions c02_ws_no_deadlock_useful.
Print Assumptions c02_ws_no_deadlock.
Print Assumptions run_idle_has_request.
Check c02_ws_no_deadlock_useful.
Check c02_ws_no_deadlock.
Check run_idle_has_request.
Check progress_w.
Check step_pinvw.
Check check_Wv.

(* ====================================================================================== *)
(* Non-vacuity: concrete states, evaluated                                                 *)
(* ====================================================================================== *)
(* (a) the state of ExactlyOnceSteal.c01w_ex_steal_requested (3 workers, 12 tests): worker 0 has run
   0 1 2, holds test 3 and waits at an empty queue for its successor; the pool is empty; the request
   for worker 1's tests 6 7 is on worker 1's wire.  Worker 0 is idle (1 test), the pool is empty and
   the request is outstanding (Wv); the useful moves are those of the other nodes *)
Example progw_ex_request :
  let s := sys_run c01w_cfg c01w_sched_request in
  y_result s = None /\ steal_of s = Some 1 /\ bookw s 0 = [3] /\ stealreq s 1 = 1 /\
  prog_moves c01w_cfg s = [LDeliver 1; LMain 1; LDeliver 2] /\ prog_idle c01w_cfg s = [LRecvW 0; LRecvW 1; LRecvW 2].
Proof. vm_compute. repeat split. Qed.

(* (b) a refused request (2 workers, 8 tests): worker 0 has run 0 1 2 and holds 3; the request for
   worker 1's tests 6 7 is on worker 1's wire while worker 1 runs 4 5 6 and takes 7 from its queue; the
   steal finds nothing, the reply is empty.  The stages: request on the wire; reply computed (the only
   useful moves are worker 1's receiver thread, which sends it, and the controller's receiver thread);
   reply queued (the only useful move is the controller's); after the controller has handled it: no
   request outstanding, both nodes hold one test, nothing can be stolen: both are told to shut down *)
Definition progw_cfg : config := ws_cfg 2 8 0%Z (fun _ _ => false) (fun _ => [Passed]).
Definition progw_r1 : list label :=
  c01_rep 6 cst_rr2 ++ c01_rep 4 [LRecvW 0; LRecvW 1] ++ c01_rep 18 [LMain 0] ++ c01_rep 14 [LRecv 0] ++
  c01_rep 14 [LCtl] ++ c01_rep 24 [LMain 1].
Definition progw_r2 : list label := progw_r1 ++ [LDeliver 1; LRecvW 1].
Definition progw_r3 : list label := progw_r2 ++ [LRecvW 1] ++ c01_rep 20 [LRecv 1].
Definition progw_r4 : list label := progw_r3 ++ c01_rep 13 [LCtl].
Definition progw_view (c : config) (s : sys) :=
  (map (fun n => (bookw s n, stealreq s n)) (seq 0 (c_numnodes c)), steal_of s,
   map (fun p => (fst p, snd p)) (y_down s), prog_moves c s, prog_idle c s, y_result s).
Example progw_ex_refused :
  progw_view progw_cfg (sys_run progw_cfg progw_r1) =
    ([([3], 0); ([4; 5; 6; 7], 1)], Some 1, [(0, []); (1, [CSteal [6; 7]])], [LDeliver 1; LRecv 1], [LRecvW 0; LRecvW 1], None) /\
  progw_view progw_cfg (sys_run progw_cfg progw_r2) =
    ([([3], 0); ([4; 5; 6; 7], 1)], Some 1, [(0, []); (1, [])], [LRecvW 1; LRecv 1], [LRecvW 0], None) /\
  (exists w, aget 1 (y_w (sys_run progw_cfg progw_r2)) = Some w /\ wreply w = Some []) /\
  progw_view progw_cfg (sys_run progw_cfg progw_r3) =
    ([([3], 0); ([4; 5; 6; 7], 1)], Some 1, [(0, []); (1, [])], [LCtl], [LRecvW 0; LRecvW 1], None) /\
  last (y_evq (sys_run progw_cfg progw_r3)) QWarning = QUnscheduled 1 [] /\
  progw_view progw_cfg (sys_run progw_cfg progw_r4) =
    ([([3], 0); ([7], 0)], None, [(0, [CShutdown]); (1, [CShutdown])], [LDeliver 0; LDeliver 1], [LRecvW 0; LRecvW 1], None) /\
  d_shuttingdown (y_d (sys_run progw_cfg progw_r4)) = true.
Proof. vm_compute. repeat split. eexists. split; reflexivity. Qed.

(* (c) the victim's own session stops while the request is in flight (CompletenessSteal.cst_stop_sched2):
   the reply is lost, the marker stays set with no request in flight -- but the session is not stuck:
   worker 1's "finished" (with the stop request) is on the controller's queue; once it is handled every
   node is told to shut down, and the session ends as "interrupted" *)
Example progw_ex_stop :
  let s := sys_run cst_stop_cfg cst_stop_sched2 in
  y_result s = None /\ steal_of s = Some 1 /\ stealreq s 1 = 0 /\
  prog_moves cst_stop_cfg s = [LCtl] /\ In (QFinished 1 SKStop) (y_evq s) /\
  y_result (sys_run cst_stop_cfg (cst_stop_sched2 ++ c01_rep 40 cst_rr2)) = Some RInterrupted.
Proof. vm_compute. repeat split. do 4 right. left. reflexivity. Qed.

(* the theorem applies to the states of (b) and (c) *)
Lemma progw_cfg_hyps :
  c_mode progw_cfg = MSteal /\ (forall n i, c_crash_in progw_cfg n i = false) /\ no_garbled progw_cfg /\
  (forall n, ~ In ""%string (c_coll progw_cfg n)) /\ 0 < c_numnodes progw_cfg.
Proof.
  split; [reflexivity|]. split; [reflexivity|]. split.
  { intros n i H. cbn in H. destruct H as [H|[]]. discriminate. }
  split.
  { intros n H. cbn in H. repeat (destruct H as [H|H]; [discriminate|]). exact H. }
  cbn. lia.
Qed.

Example progw_ex_theorem_applies :
  (let s := sys_run progw_cfg progw_r3 in
   exists l, no_crash_label l /\ useful s l = true /\ sys_step progw_cfg s l <> None) /\
  (let s := sys_run cst_stop_cfg cst_stop_sched2 in
   exists l, no_crash_label l /\ useful s l = true /\ sys_step cst_stop_cfg s l <> None).
Proof.
  cbv zeta. split.
  - destruct progw_cfg_hyps as (H1 & H2 & H3 & H4 & H5).
    apply c02_ws_no_deadlock_useful; try assumption; [vm_compute; repeat constructor|vm_compute; reflexivity].
  - destruct cst_ex_stop_hyps as (H1 & H2 & H3 & H4 & H5 & H6 & _).
    apply c02_ws_no_deadlock_useful; try assumption. vm_compute. reflexivity.
Qed.
Print Assumptions progw_ex_theorem_applies.
