(* CouplingSteal.v -- the book coupling invariant of the work-stealing scheduler (--dist worksteal),
   and its consequences: the worksteal analogue of Coupling.v.

   For --dist worksteal, no worker failure (c_crash_in constantly false, no LCrash label, no undecodable
   report: no_garbled c), no empty test id and at least one worker, in EVERY reachable state of
   Model/System.v:

   (2) the controller never raises (controller_never_raises_ws) -- also when workers' own sessions ask
       to stop -- hence c01_ws_places_nodup and its companions hold without the not_errored hypothesis;

   (1) for every node n whose own session has not stopped (unstopped c s n: worker n has started no test
       after which its session stops; all nodes, when no_stop c: stops_after constantly false):
       - coupling_node_ws / coupling_invariant_ws (CoupledW): the controller's book of node n
         (node2pending[n]) is, as a multiset,
           completions on the controller's event queue and on n's wire up
           ++ indices taken by n's main thread whose completion has not been emitted
           ++ n's queue ++ rest of the command being unpacked ++ n's inbox ++ CRun indices on n's wire down
         TOGETHER WITH the indices on their way back: the worker's computed, unsent `unscheduled` reply,
         `unscheduled` messages on n's wire up, `unscheduled` events of n in the controller's queue
         (back_in_book: they are still in the victim's book);
       - coupling_ordered_node_ws / coupling_ordered_ws (CoupledOrd): IN ORDER, the book of n with the
         indices on their way back struck out is the list
           completions ++ taken ++ queue ++ command being unpacked ++ inbox ++ wire down;
       - steal_request_node_ws / steal_request_unique (StealOne): a steal request for n is in flight
         (CSteal on the wire down / in the inbox, computed reply, `unscheduled` message / event) exactly
         once if steal_requested_from_node = n, and not at all otherwise;
       and, without any condition on stops (steal_names_tail): a steal request names the tail of the
       victim's book as it is when the request is sent, and leaves the victim at least two tests;

   (3) conservation (cw_perm, used by CompletenessSteal.v) as long as no worker's session has stopped.

   The condition on stops is needed for (1) and (3): see CompletenessSteal.v, cst_ex_stop_*: a worker
   whose session stopped answers a steal request AFTER its "finished"; the controller does not hear it
   any more, the stolen indices vanish and the marker steal_requested_from_node stays set for ever.
   For such a node the invariant (NIWS) only says that what the worker side holds is a SUB-multiset of
   the book, in terms of what the controller still hears of the node (hsigs).

   Organisation: definitions; part A worker-level lemmas; part B the scheduler (exact effect of
   check_schedule on books, flags and the steal marker; the quiescent state QW); part C the controller
   (DSession) handlers; part D the per-node invariants NIW (session running) and NIWS (session stopped),
   the system invariant CInvG, its preservation, and the theorems. *)
From XV Require Import Base Worker Ctl SchedLoad SchedSteal SchedScope SchedEach Sched DSession System
  NoHook DSessionProofs WorkerProofs StealProofs LoadProofs FifoProofs ExactlyOnce Coupling ExactlyOnceSteal.
From Coq Require Import Permutation.
Open Scope nat_scope.

(* ====================================================================================== *)
(* Definitions: signals in flight, what is owed / on its way back, the coupling; executable checkers *)
(* ====================================================================================== *)

Inductive xsig := XReady | XCF | XComp (i : nat) | XUns (ixs : list nat) | XFin (stop : bool).

Definition ev_xsig (ev : cevent) : option (nat * xsig) :=
  match ev with
  | QReady n => Some (n, XReady)
  | QCollFinish n _ => Some (n, XCF)
  | QComplete n i _ => Some (n, XComp i)
  | QUnscheduled n ixs => Some (n, XUns ixs)
  | QFinished n sk => Some (n, XFin (match sk with SKNone => false | _ => true end))
  | _ => None
  end.
Definition ev_xsigs_for (n : nat) (ev : cevent) : list xsig :=
  match ev_xsig ev with Some (m, g) => if Nat.eqb m n then [g] else [] | None => [] end.
Definition evq_xsigs (n : nat) (q : list cevent) : list xsig := flat_map (ev_xsigs_for n) q.
Definition we_xsig (e : wevent) : list xsig :=
  match e with
  | EReady => [XReady]
  | ECollFinish => [XCF]
  | EComplete i => [XComp i]
  | EUnscheduled l => [XUns l]
  | EFinished s => [XFin s]
  | _ => []
  end.
Definition up_xsig (m : upmsg) : list xsig :=
  match m with
  | UEv ECollFinish => []
  | UEv e => we_xsig e
  | UCollFinish _ => [XCF]
  | UComplete i _ => [XComp i]
  | _ => []
  end.
Definition xsigs (s : sys) (n : nat) : list xsig :=
  evq_xsigs n (y_evq s) ++ flat_map up_xsig (alist_get [] n (y_up s)).

Definition xcompletes (L : list xsig) : list nat :=
  flat_map (fun g => match g with XComp i => [i] | _ => [] end) L.
Definition xbacks (L : list xsig) : list nat :=
  flat_map (fun g => match g with XUns l => l | _ => [] end) L.
Definition is_uns (g : xsig) : bool := match g with XUns _ => true | _ => false end.
Definition nuns (L : list xsig) : nat := length (filter is_uns L).
Definition is_steal (c : cmd) : bool := match c with CSteal _ => true | _ => false end.
Definition nstc (cs : list cmd) : nat := length (filter is_steal cs).
Definition nrep (r : option (list nat)) : nat := match r with Some _ => 1 | None => 0 end.

Definition bookw (s : sys) (n : nat) : list nat :=
  match d_sched (y_d s) with StW ws => alist_get [] n (ws_n2p ws) | _ => [] end.
Definition owedw (s : sys) (n : nat) : list nat :=
  xcompletes (xsigs s n) ++
  match aget n (y_w s) with Some w => owed_w w | None => [] end ++
  flat_map cmd_inds (alist_get [] n (y_down s)).
Definition backw (s : sys) (n : nat) : list nat :=
  match aget n (y_w s) with Some w => reply_inds (wreply w) | None => [] end ++ xbacks (xsigs s n).
Definition CoupledW (s : sys) : Prop := forall n, Permutation (bookw s n) (owedw s n ++ backw s n).

Definition stealreq (s : sys) (n : nat) : nat :=
  nstc (alist_get [] n (y_down s)) +
  match aget n (y_w s) with Some w => nstc (winbox w) + nrep (wreply w) | None => 0 end +
  nuns (xsigs s n).
Definition steal_of (s : sys) : option nat :=
  match d_sched (y_d s) with StW ws => ws_steal ws | _ => None end.
Definition cnt (st : option nat) (n : nat) : nat :=
  match st with Some m => if Nat.eqb m n then 1 else 0 | None => 0 end.
Definition StealOne (s : sys) : Prop := forall n, stealreq s n = cnt (steal_of s) n.

(* ---- executable checkers ---- *)
Definition cocc (i : nat) (l : list nat) : nat := count_occ Nat.eq_dec l i.
Definition perm_b (K : nat) (a b : list nat) : bool :=
  Nat.eqb (length a) (length b) && forallb (fun i => Nat.eqb (cocc i a) (cocc i b)) (seq 0 K).
Definition list_eqb_nat (a b : list nat) : bool := list_eqb Nat.eqb a b.

Definition chk_perm (K N : nat) (s : sys) : bool :=
  forallb (fun n => perm_b K (bookw s n) (owedw s n ++ backw s n)) (seq 0 N).
Definition chk_ord (N : nat) (s : sys) : bool :=
  forallb (fun n => list_eqb_nat (filter (fun i => negb (mem_nat i (backw s n))) (bookw s n)) (owedw s n)) (seq 0 N).
Definition chk_one (N : nat) (s : sys) : bool :=
  forallb (fun n => Nat.eqb (stealreq s n) (cnt (steal_of s) n)) (seq 0 N).
Definition chk_cons (K : nat) (s : sys) : bool :=
  match d_sched (y_d s) with
  | StW ws => match ws_coll ws with Some _ => perm_b K (places_ws s) (seq 0 K) | None => true end
  | _ => true
  end.
Definition chk_noerr (s : sys) : bool :=
  match y_result s with Some (RError _) => false | _ => true end.

Fixpoint sys_states (c : config) (s : sys) (ls : list label) : list sys :=
  match ls with
  | [] => [s]
  | l :: r => s :: sys_states c (match sys_step c s l with Some (s', _, _) => s' | None => s end) r
  end.

(* pseudo-random schedules *)
Definition lab_of (N : nat) (k : nat) : label :=
  let n := (k / 5) mod N in
  match k mod 5 with
  | 0 => LDeliver n | 1 => LRecvW n | 2 => LMain n | 3 => LRecv n | _ => LCtl
  end.
Fixpoint rnd_sched (N : nat) (len : nat) (seed : Z) : list label :=
  match len with
  | 0 => []
  | S len' => let seed' := ((seed * 1103 + 12345) mod 65521)%Z in
              lab_of N (Z.to_nat ((seed' / 7) mod 1000)%Z) :: rnd_sched N len' seed'
  end.
Definition ws_names (k : nat) : list string :=
  map (fun i => String (Ascii.ascii_of_nat (48 + i)) EmptyString) (seq 0 k).

Definition ws_oracle (k : nat) (stop : nat -> bool) : oracle :=
  {| reports_of := fun _ => [Passed]; stops_after := stop; ncollected := k; coll_reports := [] |}.
Definition ws_cfg (nodes k : nat) (maxfail : Z) (stop : nat -> nat -> bool) (rep : nat -> list outcome) : config :=
  {| c_mode := MSteal; c_numnodes := nodes; c_chunk := None; c_maxfail := maxfail; c_max_restart := Some 4%Z;
     c_requeue := 0; c_coll := fun _ => ws_names k;
     c_oracle := fun n => {| reports_of := rep; stops_after := stop n; ncollected := k; coll_reports := [] |};
     c_dur := fun _ => 0%Z; c_crash_in := fun _ _ => false; c_strict := false; c_spec := fun _ => 0 |}.

(* ====================================================================================== *)
(* Part A: worker-level lemmas *)
(* ====================================================================================== *)

(* ====================================================================================== *)
(* A.1 signals: ranks and channel order (as in Coupling.v, with the `unscheduled` reply)    *)
(* ====================================================================================== *)
Definition inj (g : sig) : xsig :=
  match g with SgReady => XReady | SgCF => XCF | SgComp i => XComp i | SgFin b => XFin b end.

Definition xrank (g : xsig) : nat :=
  match g with XReady => 0 | XCF => 1 | XComp _ | XUns _ => 2 | XFin _ => 3 end.

Lemma xrank_inj g : xrank (inj g) = srank g.
Proof. destruct g; reflexivity. Qed.

Lemma xcompletes_app a b : xcompletes (a ++ b) = xcompletes a ++ xcompletes b.
Proof. apply flat_map_app. Qed.
Lemma xbacks_app a b : xbacks (a ++ b) = xbacks a ++ xbacks b.
Proof. apply flat_map_app. Qed.
Lemma nuns_app a b : nuns (a ++ b) = nuns a + nuns b.
Proof. unfold nuns. rewrite filter_app, app_length. reflexivity. Qed.
Lemma nstc_app a b : nstc (a ++ b) = nstc a + nstc b.
Proof. unfold nstc. rewrite filter_app, app_length. reflexivity. Qed.
Lemma evq_xsigs_app n a b : evq_xsigs n (a ++ b) = evq_xsigs n a ++ evq_xsigs n b.
Proof. apply flat_map_app. Qed.

Lemma xcompletes_inj L : xcompletes (map inj L) = completes L.
Proof.
  induction L as [|g L IH]; [reflexivity|]. unfold xcompletes, completes in *. cbn [map flat_map]. rewrite IH.
  destruct g; reflexivity.
Qed.
Lemma xbacks_inj L : xbacks (map inj L) = [].
Proof.
  induction L as [|g L IH]; [reflexivity|]. unfold xbacks in *. cbn [map flat_map]. rewrite IH.
  destruct g; reflexivity.
Qed.
Lemma nuns_inj L : nuns (map inj L) = 0.
Proof. induction L as [|g L IH]; [reflexivity|]. unfold nuns in *. cbn. destruct g; cbn; exact IH. Qed.

Lemma we_xsig_inj e : ok_wev e -> we_xsig e = map inj (we_sig e).
Proof. destruct e; cbn; intros H; try reflexivity. contradiction. Qed.

Lemma we_xsigs_inj evs : Forall ok_wev evs -> flat_map we_xsig evs = map inj (flat_map we_sig evs).
Proof.
  induction 1 as [|e evs He _ IH]; [reflexivity|]. cbn [flat_map]. rewrite map_app, IH, (we_xsig_inj e He). reflexivity.
Qed.

Lemma up_xsig_of_wevent c n e : up_xsig (up_of_wevent c n e) = we_xsig e.
Proof. destruct e; try reflexivity. destruct oc; reflexivity. Qed.

Lemma up_xsigs_of_wevents c n evs :
  flat_map up_xsig (map (up_of_wevent c n) evs) = flat_map we_xsig evs.
Proof.
  induction evs as [|e evs IH]; cbn [map flat_map]; [reflexivity|].
  rewrite up_xsig_of_wevent, IH. reflexivity.
Qed.

Fixpoint xsorted (L : list xsig) : Prop :=
  match L with
  | [] => True
  | g :: r => Forall (fun h => prec (xrank g) (xrank h)) r /\ xsorted r
  end.
Definition xchan_ok (k : nat) (L : list xsig) : Prop :=
  xsorted L /\ Forall (fun g => prec (xrank g) k) L.

Lemma xchan_ok_nil k : xchan_ok k [].
Proof. split; [exact I|constructor]. Qed.

Lemma xchan_ok_mono k k' L : xchan_ok k L -> k <= k' -> xchan_ok k' L.
Proof.
  intros (S & F) Hk. split; [exact S|]. eapply Forall_impl; [|exact F].
  intros g Hg. exact (prec_mono _ _ _ Hg Hk).
Qed.

Lemma xsorted_snoc L g : xsorted L -> Forall (fun h => prec (xrank h) (xrank g)) L -> xsorted (L ++ [g]).
Proof.
  induction L as [|h L IH]; cbn; intros S F; [split; [constructor|exact I]|].
  destruct S as (S1 & S2). inversion F as [|h' L' F1 F2]; subst. split.
  - apply Forall_app. split; [exact S1|constructor; [exact F1|constructor]].
  - apply IH; assumption.
Qed.

Lemma xchan_ok_snoc k k' L g :
  xchan_ok k L -> xrank g = k -> prec k k' -> k <= k' -> xchan_ok k' (L ++ [g]).
Proof.
  intros (S & F) Eg Hp Hk. split.
  - apply xsorted_snoc; [exact S|]. rewrite Eg. exact F.
  - apply Forall_app. split.
    + eapply Forall_impl; [|exact F]. intros h Hh. exact (prec_mono _ _ _ Hh Hk).
    + constructor; [rewrite Eg; exact Hp|constructor].
Qed.

Lemma xchan_ok_tail k g L : xchan_ok k (g :: L) -> xchan_ok k L.
Proof. intros ((S1 & S2) & F). inversion F; subst. split; assumption. Qed.

Lemma xchan_ok_head k g L : xchan_ok k (g :: L) ->
  prec (xrank g) k /\ Forall (fun h => prec (xrank g) (xrank h)) L.
Proof. intros ((S1 & S2) & F). inversion F; subst. split; assumption. Qed.

Lemma xrank_le3 g : xrank g <= 3.
Proof. destruct g; cbn; lia. Qed.

Lemma xchan_ok_fin_head k b L : xchan_ok k (XFin b :: L) -> L = [] /\ 4 <= k.
Proof.
  intros H. destruct (xchan_ok_head _ _ _ H) as (Hk & F). cbn in Hk. split.
  - destruct L as [|h L]; [reflexivity|]. inversion F as [|h' L' F1 F2]; subst.
    pose proof (xrank_le3 h). unfold prec in F1. cbn in F1. lia.
  - unfold prec in Hk. lia.
Qed.

Lemma xchan_ok_fin_mid k A b L : xchan_ok k (A ++ XFin b :: L) -> L = [] /\ 4 <= k.
Proof.
  induction A as [|g A IH]; cbn [app]; intros H; [exact (xchan_ok_fin_head _ _ _ H)|].
  apply IH. eapply xchan_ok_tail. exact H.
Qed.

Lemma xchan_ok_in k g L : xchan_ok k L -> In g L -> prec (xrank g) k.
Proof. intros (_ & F) Hin. rewrite Forall_forall in F. apply F. exact Hin. Qed.

Lemma xchan_ok_ready_head k L : xchan_ok k (XReady :: L) -> ~ In XReady L /\ 1 <= k.
Proof.
  intros H. destruct (xchan_ok_head _ _ _ H) as (Hk & F). cbn in Hk. split.
  - intros Hin. rewrite Forall_forall in F. specialize (F _ Hin). unfold prec in F. cbn in F. lia.
  - unfold prec in Hk. lia.
Qed.

Lemma xchan_ok_cf_head k L : xchan_ok k (XCF :: L) -> ~ In XCF L /\ 2 <= k.
Proof.
  intros H. destruct (xchan_ok_head _ _ _ H) as (Hk & F). cbn in Hk. split.
  - intros Hin. rewrite Forall_forall in F. specialize (F _ Hin). unfold prec in F. cbn in F. lia.
  - unfold prec in Hk. lia.
Qed.

(* transfer from Coupling's channel order *)
Lemma prec_forall_inj (P : nat -> Prop) L :
  Forall (fun g => P (srank g)) L -> Forall (fun g => P (xrank g)) (map inj L).
Proof. induction 1; cbn; constructor; [rewrite xrank_inj|]; assumption. Qed.

(* ====================================================================================== *)
(* A.2 the shutdown marker is the last thing a worker is ever sent                         *)
(* ====================================================================================== *)
(* the stream of everything sent to a worker, as marks: true = the shutdown marker *)
Definition bm (it : item) : bool := match it with Mark => true | Idx _ => false end.
Definition cmd_marks (c : cmd) : list bool :=
  match c with
  | CRun l => map (fun _ => false) l
  | CShutdown | CEnd => [true]
  | CSteal _ => [false]
  | CRunAll => []
  end.
Definition rmark (r : option (list nat)) : list bool := match r with Some _ => [false] | None => [] end.
Definition wmarks (w : wst) : list bool :=
  map (fun e => bm (snd e)) (wpopped w) ++ map (fun e => bm (snd e)) (wq w) ++ map bm (wrpend w) ++
  rmark (wreply w) ++ flat_map cmd_marks (winbox w).

Fixpoint mlastb (l : list bool) : bool :=
  match l with
  | [] => true
  | true :: r => match r with [] => true | _ => false end
  | false :: r => mlastb r
  end.
Definition nomarkb (l : list bool) : bool := forallb negb l.
Definition mark_okb (sd : bool) (l : list bool) : Prop :=
  mlastb l = true /\ (sd = false -> nomarkb l = true).

Lemma nomarkb_app a b : nomarkb (a ++ b) = nomarkb a && nomarkb b.
Proof. apply forallb_app. Qed.
Lemma nomarkb_falses {A} (l : list A) : nomarkb (map (fun _ => false) l) = true.
Proof. induction l; cbn; auto. Qed.
Lemma nomarkb_mlastb l : nomarkb l = true -> mlastb l = true.
Proof. induction l as [|[|] l IH]; cbn; auto. discriminate. Qed.
Lemma mlastb_app_nomark a b : nomarkb a = true -> mlastb (a ++ b) = mlastb b.
Proof. induction a as [|[|] a IH]; cbn; auto. discriminate. Qed.
Lemma mlastb_mark_inv a b : mlastb (a ++ true :: b) = true -> b = [].
Proof.
  induction a as [|[|] a IH]; cbn.
  - destruct b; [reflexivity|discriminate].
  - destruct (a ++ true :: b) eqn:E; [destruct a; discriminate|discriminate].
  - exact IH.
Qed.
Lemma mark_okb_nil sd : mark_okb sd [].
Proof. split; reflexivity. Qed.

(* dropping non-markers *)
Inductive shr : list bool -> list bool -> Prop :=
| shr_nil : shr [] []
| shr_keep b l l' : shr l l' -> shr (b :: l) (b :: l')
| shr_drop l l' : shr l l' -> shr (false :: l) l'.

Lemma shr_refl l : shr l l.
Proof. induction l; constructor; assumption. Qed.
Lemma shr_trans a b c : shr a b -> shr b c -> shr a c.
Proof.
  intros H1. revert c. induction H1; intros c H2; [exact H2| |].
  - inversion H2; subst; constructor; apply IHshr; assumption.
  - constructor. apply IHshr. exact H2.
Qed.

Lemma shr_app a a' b b' : shr a a' -> shr b b' -> shr (a ++ b) (a' ++ b').
Proof. intros H1 H2. induction H1; cbn; [exact H2|constructor; assumption|constructor; assumption]. Qed.
Lemma shr_nil_inv l' : shr [] l' -> l' = [].
Proof. intros H. inversion H. reflexivity. Qed.
Lemma shr_mlastb l l' : shr l l' -> mlastb l = true -> mlastb l' = true.
Proof.
  intros H. induction H as [|b l l' H IH|l l' H IH]; intros M; [reflexivity| |].
  - destruct b; cbn in *.
    + destruct l; [|discriminate]. apply shr_nil_inv in H. subst. reflexivity.
    + apply IH. exact M.
  - apply IH. exact M.
Qed.
Lemma shr_nomarkb l l' : shr l l' -> nomarkb l = true -> nomarkb l' = true.
Proof.
  intros H. induction H as [|b l l' H IH|l l' H IH]; intros M; [reflexivity| |].
  - unfold nomarkb in *. cbn [forallb] in *. apply andb_true_iff in M. destruct M as (M1 & M2). rewrite M1, (IH M2). reflexivity.
  - apply IH. exact M.
Qed.
Lemma shr_mark_okb sd l l' : shr l l' -> mark_okb sd l -> mark_okb sd l'.
Proof. intros H (M1 & M2). split; [eapply shr_mlastb; eauto|intros E; eapply shr_nomarkb; eauto]. Qed.

Lemma shr_falses {A} (l : list A) : shr (map (fun _ => false) l) [].
Proof. induction l; cbn; constructor; assumption. Qed.

(* the flags of a node and the commands put on its channel, in order: nothing follows a shutdown *)
Inductive NRW : nctl -> list cmd -> nctl -> Prop :=
| NRW_nil f : NRW f [] f
| NRW_run f ixs cs f' : n_sdsent f = false -> NRW f cs f' -> NRW f (CRun ixs :: cs) f'
| NRW_steal f ixs cs f' : n_sdsent f = false -> NRW f cs f' -> NRW f (CSteal ixs :: cs) f'
| NRW_sd f cs f' : n_sdsent f = false -> NRW (sd_mark f) cs f' -> NRW f (CShutdown :: cs) f'.

Lemma NRW_app f a f1 b f2 : NRW f a f1 -> NRW f1 b f2 -> NRW f (a ++ b) f2.
Proof.
  intros H1 H2. induction H1; cbn [app]; [exact H2| | |].
  - apply NRW_run; auto.
  - apply NRW_steal; auto.
  - apply NRW_sd; auto.
Qed.

Lemma NRW_sdsent_true f cs f' : NRW f cs f' -> n_sdsent f = true -> cs = [] /\ f' = f.
Proof. intros H Hs. destruct H; [auto|congruence|congruence|congruence]. Qed.

Lemma NRW_fields f cs f' : NRW f cs f' ->
  n_spec f' = n_spec f /\ n_down f' = n_down f /\ n_closed f' = n_closed f /\
  (n_sdsent f' = true <-> n_sdsent f = true \/ In CShutdown cs) /\
  Forall good_cmd_ws cs.
Proof.
  intros H. induction H as [f|f ixs cs f' Hs H1 IH|f ixs cs f' Hs H1 IH|f cs f' Hs H1 IH].
  - repeat split; auto. intros [X|[]]; exact X.
  - destruct IH as (A & B & C & D & E).
    split; [exact A|]. split; [exact B|]. split; [exact C|]. split; [|constructor; [exact I|exact E]].
    split.
    + intros X. apply D in X. destruct X as [X|X]; [left; exact X|right; right; exact X].
    + intros [X|[X|X]]; [apply D; left; exact X|discriminate|apply D; right; exact X].
  - destruct IH as (A & B & C & D & E).
    split; [exact A|]. split; [exact B|]. split; [exact C|]. split; [|constructor; [exact I|exact E]].
    split.
    + intros X. apply D in X. destruct X as [X|X]; [left; exact X|right; right; exact X].
    + intros [X|[X|X]]; [apply D; left; exact X|discriminate|apply D; right; exact X].
  - destruct IH as (A & B & C & D & E). cbn in A, B, C.
    split; [exact A|]. split; [exact B|]. split; [exact C|]. split; [|constructor; [exact I|exact E]].
    split.
    + intros _. right. left. reflexivity.
    + intros _. apply D. left. reflexivity.
Qed.

Lemma NRW_mark_okb f cs f' st :
  NRW f cs f' -> mark_okb (n_sdsent f) st -> mark_okb (n_sdsent f') (st ++ flat_map cmd_marks cs).
Proof.
  intros H. revert st. induction H as [f|f ixs cs f' Hs H1 IH|f ixs cs f' Hs H1 IH|f cs f' Hs H1 IH]; intros st (M1 & M2).
  - cbn. rewrite app_nil_r. split; assumption.
  - cbn [flat_map cmd_marks]. rewrite app_assoc. apply IH.
    specialize (M2 Hs). split.
    + apply nomarkb_mlastb. rewrite nomarkb_app, M2, nomarkb_falses. reflexivity.
    + intros _. rewrite nomarkb_app, M2, nomarkb_falses. reflexivity.
  - cbn [flat_map cmd_marks]. rewrite app_assoc. apply IH.
    specialize (M2 Hs). split.
    + apply nomarkb_mlastb. rewrite nomarkb_app, M2. reflexivity.
    + intros _. rewrite nomarkb_app, M2. reflexivity.
  - cbn [flat_map cmd_marks]. rewrite app_assoc. apply IH.
    specialize (M2 Hs). split.
    + rewrite mlastb_app_nomark by exact M2. reflexivity.
    + cbn. discriminate.
Qed.

(* no marks at all: no index and no steal request *)
Lemma cmd_marks_nil cs : flat_map cmd_marks cs = [] -> flat_map cmd_inds cs = [] /\ nstc cs = 0.
Proof.
  induction cs as [|c cs IH]; [auto|]. cbn [flat_map]. intros H. apply app_eq_nil in H. destruct H as (H1 & H2).
  destruct (IH H2) as (A & B). destruct c as [l| |l| |]; cbn in H1; try discriminate.
  - destruct l; [|discriminate]. cbn. auto.
  - cbn. unfold nstc in *. cbn. auto.
Qed.

(* ====================================================================================== *)
(* A.3 the worker's steps                                                                  *)
(* ====================================================================================== *)
Definition WX2 (w : wst) : Prop := match wph w with PRun _ _ sc => Forall rep_ev sc | _ => True end.
Definition clr (w : wst) : wst := upd_recv w (winbox w) (wrpend w) None.

Lemma WX_clr w : WX2 w -> WX (clr w).
Proof. intros H. split; [reflexivity|exact H]. Qed.

Lemma WInv_clr w : WInv w -> WInv (clr w).
Proof. apply upd_recv_inv. Qed.

Ltac wprj := cbn [clr upd_recv upd_ph w_pop set_cb add_ran wph wq wrpend winbox wreply wpopped wcb wflag wntag wran wputs wstolen].

(* the main thread does not look at the receiver's pending reply *)
Lemma main_step_clr o w w' evs : main_step o w = Some (w', evs) -> main_step o (clr w) = Some (clr w', evs).
Proof.
  intros H. unfold main_step in *. wprj.
  destruct (wph w) as [|rest| | |cur|cur nxt|cur nxt script|sfin|] eqn:P.
  - inversion H; subst. reflexivity.
  - destruct rest as [|[k fl] rest]; inversion H; subst; reflexivity.
  - inversion H; subst. reflexivity.
  - destruct (wq w) as [|[t [i|]] q'] eqn:Q.
    + destruct (wcb w); [discriminate|]. inversion H; subst. reflexivity.
    + inversion H; subst. reflexivity.
    + inversion H; subst. reflexivity.
  - destruct (wq w) as [|nxt q'] eqn:Q; [discriminate|]. inversion H; subst. reflexivity.
  - inversion H; subst. reflexivity.
  - destruct script as [|e script]; inversion H; subst; reflexivity.
  - inversion H; subst. reflexivity.
  - discriminate.
Qed.

Lemma owed_main_clr w : owed_main (clr w) = owed_main w.
Proof. reflexivity. Qed.

Lemma main_step_WX2 o w w' evs : WX2 w -> main_step o w = Some (w', evs) -> WX2 w'.
Proof.
  intros X H. apply main_step_clr in H. exact (proj2 (main_step_WX _ _ _ _ (WX_clr w X) H)).
Qed.

Lemma main_step_keeps_reply o w w' evs : main_step o w = Some (w', evs) -> wreply w' = wreply w.
Proof. intros H. exact (proj1 (proj2 (proj2 (main_step_frame _ _ _ _ H)))). Qed.

Lemma main_step_owed2 o w w' evs :
  WInv w -> WX2 w -> main_step o w = Some (w', evs) ->
  owed_main w ++ ents_idx (wq w) = completes (flat_map we_sig evs) ++ owed_main w' ++ ents_idx (wq w').
Proof.
  intros I X H. apply main_step_clr in H.
  exact (main_step_owed _ _ _ _ (WInv_clr w I) (WX_clr w X) H).
Qed.

Lemma main_step_rank2 o w w' evs :
  WX2 w -> main_step o w = Some (w', evs) ->
  Forall ok_wev evs /\
  ((flat_map we_sig evs = [] /\ prank (wph w) <= prank (wph w')) \/
   (exists g, flat_map we_sig evs = [g] /\ srank g = prank (wph w) /\
              prec (srank g) (prank (wph w')) /\ prank (wph w) <= prank (wph w'))).
Proof.
  intros X H. apply main_step_clr in H. exact (main_step_rank _ _ _ _ (WX_clr w X) H).
Qed.

Lemma main_step_emits_fin2 o w w' evs b :
  WX2 w -> main_step o w = Some (w', evs) -> In (SgFin b) (flat_map we_sig evs) -> wph w = PFinishing b.
Proof.
  intros X H Hi. apply main_step_clr in H. exact (main_step_emits_fin _ _ _ _ _ (WX_clr w X) H Hi).
Qed.

Lemma main_step_marks o w w' evs : main_step o w = Some (w', evs) -> wmarks w' = wmarks w.
Proof.
  intros H. ms_cases H; unfold wmarks; wprj; try rewrite Q; try reflexivity;
    rewrite map_app; cbn [map app]; rewrite <- !app_assoc; reflexivity.
Qed.

(* a worker whose session does not ask to stop leaves its loop only on the marker *)
Lemma main_step_no_stop o w w' evs :
  (forall i, stops_after o i = false) -> main_step o w = Some (w', evs) ->
  wph w <> PFinishing true -> wph w' <> PFinishing true.
Proof.
  intros Hs H Hn. ms_cases H; wprj; try discriminate; try congruence.
  rewrite Hs. destruct (snd nxt); discriminate.
Qed.

(* the callback is installed when the loop is entered *)
Lemma main_step_cb o w w' evs :
  main_step o w = Some (w', evs) -> (wcb w = true -> 2 <= prank (wph w)) -> (wcb w' = true -> 2 <= prank (wph w')).
Proof.
  intros H Hc. assert (Hm : wcb w = true -> 2 <= prank (wph w) -> True) by auto.
  ms_cases H; wprj; rewrite ?P in *; cbn [prank] in *; intros E; try (specialize (Hc E); lia); try lia.
  - destruct (stops_after o (snd cur)); [cbn; lia|]. destruct (snd nxt); cbn; lia.
Qed.

(* ---- the receiver thread ---- *)
Lemma deliver_marks w c : wmarks (deliver w c) = wmarks w ++ cmd_marks c.
Proof.
  unfold wmarks, deliver. cbn [upd_recv wq wrpend winbox wpopped wreply].
  rewrite flat_map_app. cbn [flat_map]. rewrite app_nil_r, <- !app_assoc. reflexivity.
Qed.

Lemma filter_marks_shr (f : qent -> bool) q :
  (forall e, f e = false -> bm (snd e) = false) ->
  shr (map (fun e => bm (snd e)) q) (map (fun e => bm (snd e)) (filter f q)).
Proof.
  intros Hf. induction q as [|e q IH]; cbn; [constructor|].
  destruct (f e) eqn:E; cbn.
  - constructor. exact IH.
  - rewrite (Hf e E). constructor. exact IH.
Qed.

Lemma steal_q_shr q s q' st :
  steal_q q s = (q', st) -> shr (map (fun e => bm (snd e)) q) (map (fun e => bm (snd e)) q').
Proof.
  intros H. destruct (steal_all_or_nothing q s q' st H) as [(_ & ->)|(-> & _)]; [apply shr_refl|].
  apply filter_marks_shr. intros [t it] E. apply negb_false_iff in E. unfold ent_in in E. cbn in *.
  destruct it; [reflexivity|discriminate].
Qed.

Definition R (w : wst) : list nat := reply_inds (wreply w).

(* what recv_next does to a worker that has no reply pending *)
Lemma recv_next_spec2 o inbox : forall w,
  Forall good_cmd_ws inbox -> wreply w = None ->
  let w' := recv_next o w inbox in
  wph w' = wph w /\ wpopped w' = wpopped w /\ wcb w' = wcb w /\
  Permutation (ents_idx (wq w') ++ item_inds (wrpend w') ++ flat_map cmd_inds (winbox w') ++ R w')
              (ents_idx (wq w) ++ flat_map cmd_inds inbox) /\
  nstc (winbox w') + nrep (wreply w') = nstc inbox /\
  shr (map (fun e => bm (snd e)) (wq w) ++ flat_map cmd_marks inbox)
      (map (fun e => bm (snd e)) (wq w') ++ map bm (wrpend w') ++ rmark (wreply w') ++ flat_map cmd_marks (winbox w')).
Proof.
  induction inbox as [|c r IH]; intros w G Er; cbv zeta.
  - cbn. unfold R. rewrite Er. cbn. rewrite !app_nil_r. repeat split; try reflexivity. apply shr_refl.
  - inversion G as [|c' r' Gc Gr]; subst. destruct c as [ixs| |s| |]; try contradiction.
    + destruct ixs as [|i ixs]; [exact (IH w Gr Er)|].
      cbn [recv_next upd_recv w_put wph wpopped wreply wcb wq wrpend winbox flat_map cmd_inds cmd_marks map].
      unfold R. cbn [upd_recv w_put wreply]. rewrite Er. cbn [reply_inds nrep rmark].
      rewrite ents_idx_app, item_inds_map_idx, map_app, map_map. cbn [ents_idx ent_idx snd map bm app].
      split; [reflexivity|]. split; [reflexivity|]. split; [reflexivity|]. split; [|split].
      * rewrite app_nil_r, <- !app_assoc. reflexivity.
      * unfold nstc. cbn. lia.
      * rewrite <- !app_assoc. cbn [app]. apply shr_refl.
    + (* steal *)
      cbn [recv_next]. destruct (w_steal_keeps w s) as (Ep & _ & Eph & Ei).
      cbn [upd_recv wph wpopped wcb wq wrpend winbox wreply].
      split; [exact Eph|]. split; [exact Ep|]. split; [unfold w_steal; destruct (steal_q (wq w) s); reflexivity|].
      split; [|split].
      * pose proof (w_steal_q w s) as P. unfold R. cbn [upd_recv wreply item_inds flat_map app cmd_inds].
        permc_with P.
      * unfold w_steal. destruct (steal_q (wq w) s). cbn [wreply nrep]. unfold nstc. cbn. lia.
      * unfold w_steal. destruct (steal_q (wq w) s) as [q' st] eqn:Es. cbn [wq wreply rmark map app flat_map cmd_marks].
        apply shr_app; [eapply steal_q_shr; eauto|apply shr_refl].
    + cbn [recv_next upd_recv w_put wph wpopped wreply wcb wq wrpend winbox flat_map cmd_inds cmd_marks map].
      unfold R. cbn [upd_recv w_put wreply]. rewrite Er. cbn [reply_inds nrep rmark].
      rewrite ents_idx_app, map_app. cbn [ents_idx ent_idx snd map bm item_inds flat_map app].
      split; [reflexivity|]. split; [reflexivity|]. split; [reflexivity|]. split; [|split].
      * rewrite !app_nil_r. reflexivity.
      * unfold nstc. cbn. lia.
      * rewrite <- !app_assoc. cbn [app]. apply shr_refl.
    + cbn [recv_next upd_recv w_put wph wpopped wreply wcb wq wrpend winbox flat_map cmd_inds cmd_marks map].
      unfold R. cbn [upd_recv w_put wreply]. rewrite Er. cbn [reply_inds nrep rmark].
      rewrite ents_idx_app, map_app. cbn [ents_idx ent_idx snd map bm item_inds flat_map app].
      split; [reflexivity|]. split; [reflexivity|]. split; [reflexivity|]. split; [|split].
      * rewrite !app_nil_r. reflexivity.
      * unfold nstc. cbn. lia.
      * rewrite <- !app_assoc. cbn [app]. apply shr_refl.
Qed.

Definition reply_ev (r : option (list nat)) : list wevent :=
  match r with Some ixs => [EUnscheduled ixs] | None => [] end.

(* one step of the receiver thread: a pending reply is sent; what the worker owes, together with
   what is on its way back, is conserved; the main thread's side is not touched *)
Lemma recv_step_owed2 o w :
  Forall good_cmd_ws (winbox w) ->
  let w' := fst (recv_step o w) in
  let evs := snd (recv_step o w) in
  (evs = [] \/ (wcb w = true /\ evs = reply_ev (wreply w))) /\
  (wreply w = None -> evs = []) /\
  wph w' = wph w /\ wpopped w' = wpopped w /\ wcb w' = wcb w /\
  Permutation (owed_w w' ++ R w' ++ xbacks (flat_map we_xsig evs)) (owed_w w ++ R w) /\
  xcompletes (flat_map we_xsig evs) = [] /\
  nstc (winbox w') + nrep (wreply w') + nuns (flat_map we_xsig evs) = nstc (winbox w) + nrep (wreply w) /\
  shr (wmarks w) (wmarks w').
Proof.
  intros G. cbv zeta. unfold recv_step. destruct (negb (wcb w)) eqn:Ecb.
  { cbn [fst snd flat_map xbacks nuns filter length]. rewrite !app_nil_r. unfold nuns. cbn.
    repeat split; auto; try lia. apply shr_refl. }
  apply negb_false_iff in Ecb.
  fold (reply_ev (wreply w)).
  assert (Ev1 : xbacks (flat_map we_xsig (reply_ev (wreply w))) = R w).
  { unfold R. destruct (wreply w); cbn; [rewrite !app_nil_r|]; reflexivity. }
  assert (Ev2 : xcompletes (flat_map we_xsig (reply_ev (wreply w))) = []) by (destruct (wreply w); reflexivity).
  assert (Ev3 : nuns (flat_map we_xsig (reply_ev (wreply w))) = nrep (wreply w)) by (destruct (wreply w); reflexivity).
  assert (Ev4 : wreply w = None -> reply_ev (wreply w) = []) by (intros ->; reflexivity).
  cbn [upd_recv wrpend winbox].
  destruct (wrpend w) as [|it rest] eqn:Er; cbn [fst snd].
  - destruct (recv_next_spec2 o (winbox w) (upd_recv w (winbox w) [] None) G eq_refl) as (A & B & C & D & E & F).
    cbn [upd_recv wph wpopped wreply wq wcb] in A, B, C, D, E, F.
    split; [right; auto|]. split; [exact Ev4|]. split; [exact A|]. split; [exact B|]. split; [exact C|].
    split; [|split; [exact Ev2|split]].
    + unfold owed_w. rewrite (owed_main_ext w _ A B), Er, Ev1. cbn [item_inds flat_map app].
      rewrite <- !app_assoc. apply Permutation_app_head. permc_with D.
    + rewrite Ev3. lia.
    + unfold wmarks. rewrite B, Er. cbn [map app].
      apply shr_app; [apply shr_refl|].
      eapply shr_trans; [|exact F].
      apply shr_app; [apply shr_refl|]. destruct (wreply w); cbn; [constructor|]; apply shr_refl.
  - split; [right; auto|]. split; [exact Ev4|]. split; [reflexivity|]. split; [reflexivity|]. split; [reflexivity|].
    split; [|split; [exact Ev2|split]].
    + unfold owed_w, R. cbn [upd_recv w_put wq wrpend winbox wreply reply_inds wph wpopped]. rewrite Er, Ev1.
      rewrite (owed_main_ext w (upd_recv (w_put (upd_recv w (winbox w) (it :: rest) None) it) (winbox w) rest None)) by reflexivity.
      rewrite ents_idx_app, ents_idx_one, (item_inds_cons it rest). unfold R. permc.
    + cbn [upd_recv w_put winbox wreply nrep]. rewrite Ev3. lia.
    + unfold wmarks. cbn [upd_recv w_put wq wrpend winbox wpopped wreply rmark]. rewrite Er, map_app.
      cbn [map app]. rewrite <- !app_assoc. cbn [app].
      apply shr_app; [apply shr_refl|]. apply shr_app; [apply shr_refl|]. constructor.
      apply shr_app; [apply shr_refl|]. destruct (wreply w); cbn; [constructor|]; apply shr_refl.
Qed.

Lemma deliver_owed2 w c :
  owed_w (deliver w c) = owed_w w ++ cmd_inds c /\ wph (deliver w c) = wph w /\
  wpopped (deliver w c) = wpopped w /\ wreply (deliver w c) = wreply w /\ wcb (deliver w c) = wcb w /\
  nstc (winbox (deliver w c)) = nstc (winbox w) + nstc [c].
Proof.
  destruct (deliver_owed w c) as (A & _ & B & C & D). repeat split; auto.
  unfold deliver. cbn [upd_recv winbox]. apply nstc_app.
Qed.

(* ====================================================================================== *)
(* A.4 order: striking indices out of a list                                               *)
(* ====================================================================================== *)
Definition notin (B : list nat) : nat -> bool := fun i => negb (mem_nat i B).

Lemma notin_true B i : notin B i = true <-> ~ In i B.
Proof. unfold notin. rewrite negb_true_iff. apply WorkerProofs.mem_nat_false. Qed.

Lemma notin_ext B B' i : (In i B <-> In i B') -> notin B i = notin B' i.
Proof.
  intros H. destruct (notin B i) eqn:E1, (notin B' i) eqn:E2; try reflexivity.
  - apply notin_true in E1. assert (X : ~ ~ In i B') by (intros X; apply notin_true in X; congruence).
    exfalso. apply X. intros Y. apply E1. apply H. exact Y.
  - apply notin_true in E2. assert (X : ~ ~ In i B) by (intros X; apply notin_true in X; congruence).
    exfalso. apply X. intros Y. apply E2. apply H. exact Y.
Qed.

Lemma filter_notin_ext B B' l : (forall i, In i B <-> In i B') -> filter (notin B) l = filter (notin B') l.
Proof. intros H. apply filter_ext_in'. intros i _. apply notin_ext. apply H. Qed.

Lemma notin_app A B i : notin (A ++ B) i = notin A i && notin B i.
Proof. unfold notin, mem_nat. rewrite existsb_app, negb_orb. reflexivity. Qed.

Lemma filter_notin_app A B l : filter (notin (A ++ B)) l = filter (notin A) (filter (notin B) l).
Proof.
  rewrite filter_filter. apply filter_ext_in'. intros i _. rewrite notin_app. apply andb_comm.
Qed.

Lemma filter_notin_id B l : (forall i, In i l -> ~ In i B) -> filter (notin B) l = l.
Proof. intros H. apply filter_all. intros i Hi. apply notin_true. apply H. exact Hi. Qed.

Lemma filter_notin_nil l : filter (notin []) l = l.
Proof. apply filter_notin_id. intros i _ []. Qed.

Lemma remove_first_filter i l l' :
  NoDup l -> remove_first i l = Some l' -> l' = filter (fun j => negb (Nat.eqb j i)) l.
Proof.
  revert l'. induction l as [|y l IH]; cbn; intros l' ND H; [discriminate|].
  inversion ND as [|y' l0 Hn ND']; subst. destruct (Nat.eqb i y) eqn:E.
  - apply Nat.eqb_eq in E. subst y. inv H. rewrite Nat.eqb_refl. cbn. symmetry. apply filter_all.
    intros j Hj. apply negb_true_iff, Nat.eqb_neq. intros ->. contradiction.
  - rewrite (Nat.eqb_sym y i), E. cbn. destruct (remove_first i l) as [r|]; [|discriminate]. inv H.
    f_equal. apply IH; auto.
Qed.

Lemma ents_idx_filter_notin s q :
  ents_idx (filter (fun e => negb (ent_in s e)) q) = filter (notin s) (ents_idx q).
Proof.
  induction q as [|[t it] q IH]; [reflexivity|]. destruct it as [j|].
  - change (filter (fun e => negb (ent_in s e)) ((t, Idx j) :: q))
      with (if negb (mem_nat j s) then (t, Idx j) :: filter (fun e => negb (ent_in s e)) q
            else filter (fun e => negb (ent_in s e)) q).
    change (ents_idx ((t, Idx j) :: q)) with (j :: ents_idx q). cbn [filter]. unfold notin at 1.
    destruct (negb (mem_nat j s)); [|exact IH].
    change (ents_idx ((t, Idx j) :: filter (fun e => negb (ent_in s e)) q))
      with (j :: ents_idx (filter (fun e => negb (ent_in s e)) q)). f_equal. exact IH.
  - exact IH.
Qed.

Lemma in_ents_idx_filter s q i : In i (ents_idx (filter (ent_in s) q)) <-> In i (ents_idx q) /\ In i s.
Proof.
  rewrite !ents_idx_in. split.
  - intros (t & H). apply filter_In in H. destruct H as (H1 & H2). unfold ent_in in H2. cbn in H2.
    apply WorkerProofs.mem_nat_In in H2. split; [exists t; exact H1|exact H2].
  - intros ((t & H1) & H2). exists t. apply filter_In. split; [exact H1|]. unfold ent_in. cbn.
    apply WorkerProofs.mem_nat_In. exact H2.
Qed.

(* one receiver step, in order: what the worker owes afterwards is what it owed with the stolen
   indices S struck out; S joins what is on the way back *)
Lemma recv_step_ord o w :
  Forall good_cmd_ws (winbox w) -> NoDup (owed_w w) ->
  let w' := fst (recv_step o w) in
  let evs := snd (recv_step o w) in
  exists S, owed_w w' = filter (notin S) (owed_w w) /\ incl S (owed_w w) /\
            (forall i, In i (xbacks (flat_map we_xsig evs) ++ R w') <-> In i (R w) \/ In i S).
Proof.
  intros G ND. cbv zeta.
  assert (NONE : forall w' evs, owed_w w' = owed_w w ->
            (forall i, In i (xbacks (flat_map we_xsig evs) ++ R w') <-> In i (R w)) ->
            exists S, owed_w w' = filter (notin S) (owed_w w) /\ incl S (owed_w w) /\
              (forall i, In i (xbacks (flat_map we_xsig evs) ++ R w') <-> In i (R w) \/ In i S)).
  { intros w' evs E1 E2. exists []. split; [rewrite filter_notin_nil; exact E1|]. split; [intros i []|].
    intros i. rewrite E2. split; [auto|intros [X|[]]; exact X]. }
  unfold recv_step. destruct (negb (wcb w)) eqn:Ecb.
  { cbn [fst snd]. apply NONE; [reflexivity|]. intros i. cbn. reflexivity. }
  fold (reply_ev (wreply w)).
  assert (Ev1 : xbacks (flat_map we_xsig (reply_ev (wreply w))) = R w).
  { unfold R. destruct (wreply w); cbn; [rewrite !app_nil_r|]; reflexivity. }
  cbn [upd_recv wrpend winbox].
  destruct (wrpend w) as [|it rest] eqn:Er; cbn [fst snd].
  2:{ apply NONE.
      - unfold owed_w. cbn [upd_recv w_put wq wrpend winbox wph wpopped]. rewrite Er.
        rewrite (owed_main_ext w (upd_recv (w_put (upd_recv w (winbox w) (it :: rest) None) it) (winbox w) rest None)) by reflexivity.
        rewrite ents_idx_app, ents_idx_one, (item_inds_cons it rest), <- !app_assoc. reflexivity.
      - intros i. rewrite Ev1. unfold R at 1. cbn [upd_recv wreply reply_inds]. rewrite app_nil_r. reflexivity. }
  (* recv_next on the inbox *)
  assert (GEN : forall inbox w1, Forall good_cmd_ws inbox -> wreply w1 = None ->
     NoDup (owed_main w1 ++ ents_idx (wq w1) ++ flat_map cmd_inds inbox) ->
     exists S, owed_w (recv_next o w1 inbox) =
               filter (notin S) (owed_main w1 ++ ents_idx (wq w1) ++ flat_map cmd_inds inbox) /\
       incl S (owed_main w1 ++ ents_idx (wq w1) ++ flat_map cmd_inds inbox) /\
       (forall i, In i (R (recv_next o w1 inbox)) <-> In i S)).
  { clear. induction inbox as [|c r IH]; intros w1 G E0 ND.
    - exists []. cbn. rewrite filter_notin_nil. unfold owed_w. cbn [upd_recv wq wrpend winbox].
      split; [rewrite (owed_main_ext w1 (upd_recv w1 [] [] (wreply w1))) by reflexivity; reflexivity|].
      split; [intros i []|]. intros i. unfold R. cbn. rewrite E0. cbn. tauto.
    - inversion G as [|c' r' Gc Gr]; subst. destruct c as [ixs| |s| |]; try contradiction.
      + destruct ixs as [|i ixs]; [exact (IH w1 Gr E0 ND)|]. exists []. rewrite filter_notin_nil.
        cbn [recv_next]. unfold owed_w, R. cbn [upd_recv w_put wq wrpend winbox wreply flat_map cmd_inds].
        rewrite (owed_main_ext w1 (upd_recv (w_put w1 (Idx i)) r (map Idx ixs) (wreply w1))) by reflexivity.
        rewrite ents_idx_app, item_inds_map_idx. cbn [ents_idx ent_idx snd app]. rewrite <- !app_assoc.
        split; [reflexivity|]. split; [intros j []|]. intros j. rewrite E0. cbn. tauto.
      + (* steal *)
        cbn [recv_next]. destruct (w_steal_keeps w1 s) as (Ep & _ & Eph & _).
        unfold w_steal. destruct (steal_q (wq w1) s) as [q' st] eqn:Es.
        exists (ents_idx st). unfold owed_w, R.
        cbn [upd_recv wq wrpend winbox wreply reply_inds item_inds flat_map cmd_inds app].
        match goal with |- owed_main ?ww ++ _ = _ /\ _ => rewrite (owed_main_ext w1 ww) by reflexivity end.
        assert (Hst : incl (ents_idx st) (ents_idx (wq w1))).
        { intros i Hi. destruct (steal_all_or_nothing _ _ _ _ Es) as [(-> & _)|(_ & -> & _)]; [destruct Hi|].
          apply in_ents_idx_filter in Hi. tauto. }
        split; [|split; [|tauto]].
        2:{ intros i Hi. apply in_or_app. right. apply in_or_app. left. apply Hst. exact Hi. }
        rewrite !filter_app.
        assert (D1 : forall i, In i (owed_main w1) -> ~ In i (ents_idx st)).
        { intros i H1 H2. apply Hst in H2.
          exact (WorkerProofs.nodup_app_disj _ _ i ND H1 (in_or_app _ _ _ (or_introl H2))). }
        assert (D2 : forall i, In i (flat_map cmd_inds r) -> ~ In i (ents_idx st)).
        { intros i H1 H2. apply Hst in H2. apply WorkerProofs.nodup_app_r in ND.
          exact (WorkerProofs.nodup_app_disj _ _ i ND H2 H1). }
        rewrite (filter_notin_id _ _ D1), (filter_notin_id _ _ D2). f_equal. f_equal.
        destruct (steal_all_or_nothing _ _ _ _ Es) as [(-> & ->)|(-> & -> & _)].
        * cbn. rewrite filter_notin_nil. reflexivity.
        * rewrite ents_idx_filter_notin. apply filter_ext_in'. intros i Hi. apply notin_ext.
          rewrite in_ents_idx_filter. tauto.
      + exists []. rewrite filter_notin_nil. cbn [recv_next]. unfold owed_w, R.
        cbn [upd_recv w_put wq wrpend winbox wreply flat_map cmd_inds item_inds].
        rewrite (owed_main_ext w1 (upd_recv (w_put w1 Mark) r [] (wreply w1))) by reflexivity.
        rewrite ents_idx_app. cbn [ents_idx ent_idx snd app]. rewrite app_nil_r.
        split; [reflexivity|]. split; [intros j []|]. intros j. rewrite E0. cbn. tauto.
      + exists []. rewrite filter_notin_nil. cbn [recv_next]. unfold owed_w, R.
        cbn [upd_recv w_put wq wrpend winbox wreply flat_map cmd_inds item_inds].
        rewrite (owed_main_ext w1 (upd_recv (w_put w1 Mark) r [] (wreply w1))) by reflexivity.
        rewrite ents_idx_app. cbn [ents_idx ent_idx snd app]. rewrite app_nil_r.
        split; [reflexivity|]. split; [intros j []|]. intros j. rewrite E0. cbn. tauto. }
  assert (Eow : owed_w w = owed_main (upd_recv w (winbox w) [] None) ++
                 ents_idx (wq (upd_recv w (winbox w) [] None)) ++ flat_map cmd_inds (winbox w)).
  { unfold owed_w. rewrite Er. reflexivity. }
  rewrite Eow in ND.
  destruct (GEN (winbox w) (upd_recv w (winbox w) [] None) G eq_refl ND) as (S & A & B & C).
  exists S. rewrite Eow. split; [exact A|]. split; [exact B|]. intros i. rewrite Ev1, in_app_iff, C. tauto.
Qed.

(* ====================================================================================== *)
(* A.5 what the controller still hears of a worker                                         *)
(* ====================================================================================== *)
(* the controller's receiver thread ignores a node from its "finished" on: the signals of a node
   that count are those up to its first "finished"; once the node is marked down, none *)
Definition is_fin_x (g : xsig) : bool := match g with XFin _ => true | _ => false end.
Fixpoint cutfin (l : list xsig) : list xsig :=
  match l with
  | [] => []
  | g :: r => if is_fin_x g then [g] else g :: cutfin r
  end.
Definition hasfin (l : list xsig) : bool := existsb is_fin_x l.
Definition hup (dn : bool) (l : list upmsg) : list xsig :=
  if dn then [] else cutfin (flat_map up_xsig l).

Lemma cutfin_app a b : cutfin (a ++ b) = if hasfin a then cutfin a else a ++ cutfin b.
Proof.
  induction a as [|g a IH]; [reflexivity|]. cbn [app cutfin hasfin existsb].
  destruct (is_fin_x g); [reflexivity|]. cbn [orb]. fold (hasfin a). rewrite IH.
  destruct (hasfin a); reflexivity.
Qed.

Lemma cutfin_small l : length l <= 1 -> cutfin l = l.
Proof. destruct l as [|g [|h l]]; cbn; intros H; try lia; [reflexivity|destruct (is_fin_x g); reflexivity]. Qed.

Lemma cutfin_sorted l : xsorted l -> cutfin l = l.
Proof.
  induction l as [|g l IH]; [reflexivity|]. cbn [xsorted cutfin]. intros (F & S).
  destruct (is_fin_x g) eqn:E; [|rewrite (IH S); reflexivity].
  destruct g; try discriminate. destruct l as [|h l]; [reflexivity|]. exfalso.
  inversion F as [|h' l' F1 F2]; subst. pose proof (xrank_le3 h). unfold prec in F1. cbn in F1. lia.
Qed.

Lemma xsorted_app_r a b : xsorted (a ++ b) -> xsorted b.
Proof. induction a as [|g a IH]; cbn; [auto|]. intros (_ & S). apply IH. exact S. Qed.

Lemma hasfin_in l : hasfin l = true <-> exists b, In (XFin b) l.
Proof.
  unfold hasfin. rewrite existsb_exists. split.
  - intros (g & Hg & E). destruct g; try discriminate. eauto.
  - intros (b & Hb). exists (XFin b). auto.
Qed.

Lemma cutfin_incl l g : In g (cutfin l) -> In g l.
Proof.
  induction l as [|h l IH]; cbn; [auto|]. destruct (is_fin_x h); cbn; intros [E|H]; auto. destruct H.
Qed.

(* a more liberal form of snoc: the new signal need not be of the current rank *)
Lemma xchan_ok_snoc2 k L g :
  xchan_ok k L -> prec (xrank g) k -> Forall (fun h => prec (xrank h) (xrank g)) L -> xchan_ok k (L ++ [g]).
Proof.
  intros (S & F) Hg Hl. split.
  - apply xsorted_snoc; assumption.
  - apply Forall_app. split; [exact F|constructor; [exact Hg|constructor]].
Qed.

(* ====================================================================================== *)
(* Part B: the work-stealing scheduler *)
(* ====================================================================================== *)

Ltac wsproj :=
  cbn [ws_nt ws_numnodes ws_n2c ws_n2p ws_pending ws_coll ws_steal
       ws_set_nt ws_set_n2c ws_set_n2p ws_set_pending ws_set_coll ws_set_steal] in *.

Definition NRWo (a : option nctl) (cs : list cmd) (b : option nctl) : Prop :=
  match a, b with
  | Some f, Some f' => NRW f cs f'
  | None, None => cs = []
  | _, _ => False
  end.

Lemma NRWo_refl a : NRWo a [] a.
Proof. destruct a; cbn; [constructor|reflexivity]. Qed.

Lemma NRWo_trans a c1 b c2 c : NRWo a c1 b -> NRWo b c2 c -> NRWo a (c1 ++ c2) c.
Proof.
  destruct a, b, c; cbn; try tauto.
  - apply NRW_app.
  - intros -> ->. reflexivity.
Qed.

Lemma NRWo_open a cs b f' : NRWo a cs b -> b = Some f' -> exists f, a = Some f /\ NRW f cs f'.
Proof. destruct a, b; cbn; try tauto; intros H E; inversion E; subst; eauto. Qed.

Lemma NRWo_keys a cs b : NRWo a cs b -> (b <> None <-> a <> None).
Proof. destruct a, b; cbn; try tauto; intros _; split; intros; discriminate. Qed.

Definition bkw (s : wsstate) (n : nat) : list nat := alist_get [] n (ws_n2p s).

Lemma ws_len_bkw s n : ws_len s n = length (bkw s n).
Proof. unfold ws_len, bkw, alist_get. destruct (aget n (ws_n2p s)); reflexivity. Qed.

Definition keepsw (s s' : wsstate) : Prop :=
  ws_coll s' = ws_coll s /\ ws_n2c s' = ws_n2c s /\ ws_numnodes s' = ws_numnodes s /\
  akeys (ws_n2p s') = akeys (ws_n2p s).

Lemma keepsw_refl s : keepsw s s.
Proof. unfold keepsw. auto. Qed.
Lemma keepsw_trans a b c : keepsw a b -> keepsw b c -> keepsw a c.
Proof. unfold keepsw. intuition congruence. Qed.

Lemma cnt_some_eq n : cnt (Some n) n = 1.
Proof. cbn. rewrite Nat.eqb_refl. reflexivity. Qed.
Lemma cnt_some_neq v n : v <> n -> cnt (Some v) n = 0.
Proof. intros H. cbn. destruct (Nat.eqb v n) eqn:E; [apply Nat.eqb_eq in E; congruence|reflexivity]. Qed.
Lemma cnt_le1 st n : cnt st n <= 1.
Proof. destruct st as [m|]; cbn; [destruct (Nat.eqb m n)|]; lia. Qed.
Lemma cnt_pos st n : cnt st n = 1 -> st = Some n.
Proof. destruct st as [m|]; cbn; [|discriminate]. destruct (Nat.eqb m n) eqn:E; [|discriminate]. apply Nat.eqb_eq in E. congruence. Qed.

(* the effect of a scheduling step *)
Record TW (s s' : wsstate) (o : list out) : Prop := {
  tw_nt : forall n, NRWo (aget n (ws_nt s)) (cmds_to n o) (aget n (ws_nt s'));
  tw_bk : forall n, bkw s' n = bkw s n ++ flat_map cmd_inds (cmds_to n o);
  tw_keeps : keepsw s s';
  tw_steal : forall n, cnt (ws_steal s) n + nstc (cmds_to n o) = cnt (ws_steal s') n;
  tw_stin : forall v, ws_steal s' = Some v -> ws_steal s = Some v \/ In v (akeys (ws_n2p s));
  tw_pend : exists moved, ws_pending s = moved ++ ws_pending s';
}.

Lemma TW_refl s : TW s s [].
Proof.
  constructor.
  - intros n. apply NRWo_refl.
  - intros n. cbn. rewrite app_nil_r. reflexivity.
  - apply keepsw_refl.
  - intros n. cbn. unfold nstc. cbn. lia.
  - auto.
  - exists []. reflexivity.
Qed.

Lemma TW_trans s s1 s2 o1 o2 : TW s s1 o1 -> TW s1 s2 o2 -> TW s s2 (o1 ++ o2).
Proof.
  intros [A1 B1 C1 D1 E1 (m1 & F1)] [A2 B2 C2 D2 E2 (m2 & F2)]. constructor.
  - intros n. rewrite cmds_to_app. eapply NRWo_trans; [apply A1|apply A2].
  - intros n. rewrite cmds_to_app, flat_map_app, B2, B1, <- app_assoc. reflexivity.
  - eapply keepsw_trans; eauto.
  - intros n. rewrite cmds_to_app, nstc_app. specialize (D1 n). specialize (D2 n). lia.
  - intros v H. destruct (E2 v H) as [X|X]; [apply E1; exact X|]. right.
    destruct C1 as (_ & _ & _ & K). rewrite <- K. exact X.
  - exists (m1 ++ m2). rewrite F1, F2, app_assoc. reflexivity.
Qed.

Lemma TW_all_open s s' o : TW s s' o -> all_open (ws_nt s) -> all_open (ws_nt s').
Proof.
  intros T Ho n f' E. destruct (NRWo_open _ _ _ _ (tw_nt _ _ _ T n) E) as (f & Ef & R).
  destruct (NRW_fields _ _ _ R) as (_ & _ & C & _). rewrite C. eapply Ho; eauto.
Qed.

Lemma TW_nt_keys s s' o n : TW s s' o -> (aget n (ws_nt s') <> None <-> aget n (ws_nt s) <> None).
Proof. intros T. apply (NRWo_keys _ _ _ (tw_nt _ _ _ T n)). Qed.

(* the nodes a distribution may address only shrink *)
Lemma ws_up_mono s s' :
  akeys (ws_n2p s') = akeys (ws_n2p s) -> ws_n2c s' = ws_n2c s ->
  (forall n f', aget n (ws_nt s') = Some f' -> shutting_down f' = false ->
     exists f, aget n (ws_nt s) = Some f /\ shutting_down f = false) ->
  incl (ws_up s') (ws_up s).
Proof.
  intros Ek En Hf m Hm. apply ws_up_spec in Hm. destruct Hm as (H1 & f' & Ef' & Hs & Hc).
  apply ws_up_spec. rewrite <- Ek. split; [exact H1|].
  destruct (Hf m f' Ef' Hs) as (f & Ef & Hs0). exists f. rewrite <- En. auto.
Qed.

Lemma TW_up s s' o : TW s s' o -> incl (ws_up s') (ws_up s).
Proof.
  intros T. destruct (tw_keeps _ _ _ T) as (_ & Kn & _ & Kk). apply ws_up_mono; [exact Kk|exact Kn|].
  intros n f' Ef' Hs. destruct (NRWo_open _ _ _ _ (tw_nt _ _ _ T n) Ef') as (f & Ef & R).
  destruct (NRW_fields _ _ _ R) as (_ & B & _ & D & _). exists f. split; [exact Ef|].
  unfold shutting_down in *. apply orb_false_iff in Hs. destruct Hs as (H1 & H2). rewrite <- B, H1. cbn.
  destruct (n_sdsent f) eqn:E; [|reflexivity]. assert (X : n_sdsent f' = true) by (apply D; left; reflexivity). congruence.
Qed.

Definition has_sd (o : list out) : Prop := exists n, In CShutdown (cmds_to n o).
Definition no_sd (o : list out) : Prop := forall n, ~ In CShutdown (cmds_to n o).

Lemma no_sd_app a b : no_sd a -> no_sd b -> no_sd (a ++ b).
Proof. intros Ha Hb n H. rewrite cmds_to_app in H. apply in_app_or in H. destruct H; [eapply Ha|eapply Hb]; eauto. Qed.
Lemma no_sd_nil : no_sd [].
Proof. intros n []. Qed.

(* ---- ws_send_tests ---- *)
Definition node_readyw (s : wsstate) (n : nat) : Prop :=
  aget n (ws_n2p s) <> None /\ exists f, aget n (ws_nt s) = Some f /\ n_sdsent f = false.

Lemma cmds_to_one n m c : cmds_to m [OSend n c] = if Nat.eqb n m then [c] else [].
Proof. cbn. destruct (Nat.eqb n m); reflexivity. Qed.

Lemma send_TW n num s s' o r :
  all_open (ws_nt s) -> node_readyw s n ->
  ws_send_tests n num s = (s', o, r) ->
  r = Ok tt /\ TW s s' o /\ ws_nt s' = ws_nt s /\ ws_steal s' = ws_steal s /\ no_sd o /\
  (s' = s /\ py_take num (ws_pending s) = [] \/ ws_pending s' = py_drop num (ws_pending s)).
Proof.
  intros Ho (Hp & f & Ef & Hs) H. rewrite send_tests_eq in H.
  pose proof (StealProofs.py_take_drop num (ws_pending s)) as Etd.
  destruct (py_take num (ws_pending s)) as [|t0 tl] eqn:Et.
  { inv H. split; [reflexivity|]. split; [apply TW_refl|]. split; [reflexivity|]. split; [reflexivity|].
    split; [apply no_sd_nil|]. left. auto. }
  destruct (aget n (ws_n2p s)) as [cur|] eqn:Ec; [|congruence]. rewrite Ef in H. rewrite (Ho _ _ Ef) in H. inv H.
  split; [reflexivity|]. unfold st_after. rewrite ?Et. wsproj. split; [|split; [reflexivity|split; [reflexivity|split]]].
  - constructor; wsproj.
    + intros m. rewrite cmds_to_one. destruct (Nat.eqb n m) eqn:E.
      * apply Nat.eqb_eq in E. subst m. rewrite Ef. cbn. apply NRW_run; [exact Hs|constructor].
      * apply NRWo_refl.
    + intros m. unfold bkw. wsproj. rewrite cmds_to_one. destruct (Nat.eqb n m) eqn:E.
      * apply Nat.eqb_eq in E. subst m. rewrite FifoProofs.alist_get_aset_eq. unfold alist_get. rewrite Ec.
        cbn. rewrite app_nil_r. reflexivity.
      * apply Nat.eqb_neq in E. rewrite FifoProofs.alist_get_aset_neq by congruence. cbn. rewrite app_nil_r. reflexivity.
    + unfold keepsw. wsproj. repeat split; try reflexivity. eapply akeys_aset; eauto.
    + intros m. rewrite cmds_to_one. destruct (Nat.eqb n m); unfold nstc; cbn; lia.
    + auto.
    + exists (t0 :: tl). symmetry. exact Etd.
  - intros m Hin. rewrite cmds_to_one in Hin. destruct (Nat.eqb n m); [destruct Hin as [F|[]]; discriminate|destruct Hin].
  - right. reflexivity.
Qed.

Lemma node_readyw_ext s s' n :
  akeys (ws_n2p s') = akeys (ws_n2p s) -> ws_nt s' = ws_nt s -> node_readyw s n -> node_readyw s' n.
Proof.
  intros Ek Ent (A & B). split; [|rewrite Ent; exact B].
  apply LoadProofs.aget_In_keys. rewrite Ek. apply LoadProofs.aget_In_keys. exact A.
Qed.

(* ---- the distribution loop: the last idle node gets everything that is left ---- *)
Lemma py_take_all {A} (l : list A) : py_take (zlen l / 1) l = l /\ py_drop (zlen l / 1) l = [].
Proof.
  rewrite Z.div_1_r. unfold py_take, py_drop, zlen.
  replace (0 <=? Z.of_nat (length l))%Z with true by (symmetry; apply Z.leb_le; lia).
  rewrite Nat2Z.id. split; [apply firstn_all|apply skipn_all].
Qed.

Lemma distribute_TW idle : forall s s' o r,
  all_open (ws_nt s) -> (forall n, In n idle -> node_readyw s n) ->
  ws_distribute idle s = (s', o, r) ->
  r = Ok tt /\ TW s s' o /\ ws_nt s' = ws_nt s /\ ws_steal s' = ws_steal s /\ no_sd o /\
  (idle <> [] -> ws_pending s' = []).
Proof.
  induction idle as [|n rest IH]; intros s s' o r Ho Hr H.
  - cbn in H. unfold ret in H. inv H. split; [reflexivity|]. split; [apply TW_refl|].
    split; [reflexivity|]. split; [reflexivity|]. split; [apply no_sd_nil|]. congruence.
  - rewrite distribute_cons in H.
    destruct (ws_send_tests n _ s) as [[s1 o1] r1] eqn:E1.
    destruct (send_TW _ _ _ _ _ _ Ho (Hr n (or_introl eq_refl)) E1) as (-> & T1 & N1 & S1 & D1 & P1).
    destruct (ws_distribute rest s1) as [[s2 o2] r2] eqn:E2. inv H.
    assert (Ho1 : all_open (ws_nt s1)) by (rewrite N1; exact Ho).
    assert (Hr1 : forall m, In m rest -> node_readyw s1 m).
    { intros m Hm. apply (node_readyw_ext s s1); [apply (tw_keeps _ _ _ T1)|exact N1|]. apply Hr. right. exact Hm. }
    destruct (IH _ _ _ _ Ho1 Hr1 E2) as (-> & T2 & N2 & S2 & D2 & P2).
    split; [reflexivity|]. split; [eapply TW_trans; eauto|]. split; [congruence|]. split; [congruence|].
    split; [apply no_sd_app; assumption|]. intros _.
    destruct rest as [|m rest'].
    + cbn in E2. unfold ret in E2. inv E2. cbn [length] in P1.
      change (Z.of_nat 1) with 1%Z in P1. destruct (py_take_all (ws_pending s)) as (Ta & Td).
      destruct P1 as [(-> & P1)|P1].
      * rewrite Ta in P1. exact P1.
      * rewrite P1. exact Td.
    + apply P2. discriminate.
Qed.

(* ---- the shutdown loop ---- *)
Lemma node_shutdown_TW n s s' o r :
  all_open (ws_nt s) -> aget n (ws_nt s) <> None ->
  node_shutdown ws_nt ws_set_nt n s = (s', o, r) ->
  r = Ok tt /\ TW s s' o /\ nt_only s s' /\
  (forall f', aget n (ws_nt s') = Some f' -> shutting_down f' = true).
Proof.
  intros Ho Hn H. rewrite node_shutdown_eq in H.
  destruct (aget n (ws_nt s)) as [f|] eqn:Ef; [|congruence].
  destruct (n_down f || n_sdsent f) eqn:Esd.
  - inv H. split; [reflexivity|]. split; [apply TW_refl|]. split; [apply nt_only_refl|].
    intros f' E. rewrite Ef in E. inv E. exact Esd.
  - rewrite (Ho _ _ Ef) in H. inv H. split; [reflexivity|].
    assert (Hs : n_sdsent f = false) by (apply orb_false_iff in Esd; tauto).
    split; [|split].
    + constructor; wsproj.
      * intros m. rewrite cmds_to_one, LoadProofs.aget_aset. destruct (Nat.eqb n m) eqn:E.
        -- apply Nat.eqb_eq in E. subst m. rewrite Nat.eqb_refl, Ef. cbn. apply NRW_sd; [exact Hs|constructor].
        -- rewrite Nat.eqb_sym, E. apply NRWo_refl.
      * intros m. unfold bkw. wsproj. rewrite cmds_to_one. destruct (Nat.eqb n m); cbn; rewrite app_nil_r; reflexivity.
      * unfold keepsw. wsproj. auto.
      * intros m. rewrite cmds_to_one. destruct (Nat.eqb n m); unfold nstc; cbn; lia.
      * auto.
      * exists []. reflexivity.
    + unfold nt_only. wsproj. repeat split; auto. eapply akeys_aset; eauto.
    + intros f'. wsproj. rewrite StealProofs.aget_aset_eq. intros E. inv E. unfold sd_flags, shutting_down. cbn.
      apply orb_true_r.
Qed.

Lemma nt_only_TW_ext s s' : nt_only s s' -> keepsw s s'.
Proof. intros (A & B & C & D & E & F & G). unfold keepsw. rewrite A. auto. Qed.

Lemma shut_loop_TW l : forall s s' o r,
  all_open (ws_nt s) -> (forall n, In n l -> aget n (ws_nt s) <> None) ->
  shut_loop l s = (s', o, r) ->
  r = Ok tt /\ TW s s' o /\ nt_only s s' /\
  (forall n f', In n l -> aget n (ws_nt s') = Some f' -> shutting_down f' = true).
Proof.
  unfold shut_loop. induction l as [|x l IH]; intros s s' o r Ho Hl H.
  - cbn in H. unfold ret in H. inv H. split; [reflexivity|]. split; [apply TW_refl|]. split; [apply nt_only_refl|].
    intros n f' [].
  - cbn [mfor] in H. apply StealProofs.mbind_inv in H.
    destruct H as [(e & H1 & ->)|(s1 & o1 & a & o2 & H1 & H2 & ->)].
    + destruct (node_shutdown_TW _ _ _ _ _ Ho (Hl x (or_introl eq_refl)) H1) as (F & _). discriminate.
    + destruct (node_shutdown_TW _ _ _ _ _ Ho (Hl x (or_introl eq_refl)) H1) as (_ & T1 & F1 & S1).
      assert (Ho1 : all_open (ws_nt s1)) by (eapply TW_all_open; eauto).
      assert (Hl1 : forall n, In n l -> aget n (ws_nt s1) <> None).
      { intros n Hn. apply (TW_nt_keys _ _ _ n T1). apply Hl. right. exact Hn. }
      destruct (IH _ _ _ _ Ho1 Hl1 H2) as (-> & T2 & F2 & S2).
      split; [reflexivity|]. split; [eapply TW_trans; eauto|]. split; [eapply nt_only_trans; eauto|].
      intros n f' [->|Hn] Ef'.
      * destruct (NRWo_open _ _ _ _ (tw_nt _ _ _ T2 n) Ef') as (f1 & Ef1 & R).
        specialize (S1 f1 Ef1). destruct (NRW_fields _ _ _ R) as (_ & B & _ & D & _).
        unfold shutting_down in *. rewrite B. apply orb_true_iff in S1. destruct S1 as [S1|S1]; [rewrite S1; reflexivity|].
        assert (X : n_sdsent f' = true) by (apply D; left; exact S1). rewrite X. apply orb_true_r.
      * eapply S2; eauto.
Qed.

Lemma shut_loop_outs l s s' o r :
  shut_loop l s = (s', o, r) -> forall n c, In c (cmds_to n o) -> c = CShutdown.
Proof.
  intros H n c Hin. destruct (shut_loop_frame _ _ _ _ _ H) as (_ & Q).
  unfold cmds_to in Hin. apply in_flat_map in Hin. destruct Hin as (x & Hx & Hc).
  rewrite Forall_forall in Q. destruct (Q x Hx) as (m & _ & ->). cbn in Hc.
  destruct (Nat.eqb m n); [destruct Hc as [<-|[]]; reflexivity|destruct Hc].
Qed.

(* ---- first_max ---- *)
Lemma first_max_ge s l : forall best v,
  first_max s l best = Some v ->
  (forall m, In m l -> ws_len s m <= ws_len s v) /\ (forall b, best = Some b -> ws_len s b <= ws_len s v).
Proof.
  induction l as [|n l IH]; cbn [first_max In]; intros best v H.
  - subst best. split; [intros m []|]. intros b E. inv E. lia.
  - destruct best as [b|].
    + destruct (ws_len s b <? ws_len s n) eqn:E.
      * apply Nat.ltb_lt in E. destruct (IH _ _ H) as (A & B). specialize (B n eq_refl). split.
        -- intros m [<-|Hm]; [exact B|apply A; exact Hm].
        -- intros b' Eb. inv Eb. lia.
      * apply Nat.ltb_ge in E. destruct (IH _ _ H) as (A & B). specialize (B b eq_refl). split.
        -- intros m [<-|Hm]; [lia|apply A; exact Hm].
        -- intros b' Eb. inv Eb. exact B.
    + destruct (IH _ _ H) as (A & B). specialize (B n eq_refl). split.
      * intros m [<-|Hm]; [exact B|apply A; exact Hm].
      * intros b' Eb. discriminate.
Qed.

Lemma first_max_none s l : first_max s l None = None -> l = [].
Proof.
  destruct l as [|n l]; [reflexivity|]. cbn [first_max]. intros H. exfalso.
  assert (G : forall l b, first_max s l (Some b) <> None).
  { clear. induction l as [|m l IH]; cbn [first_max]; intros b; [discriminate|]. destruct (ws_len s b <? ws_len s m); apply IH. }
  exact (G _ _ H).
Qed.

(* the state a whole distribution may be skipped in: empty pool, no request outstanding, no
   node that could give anything *)
Definition QW (ws : wsstate) : Prop :=
  ws_pending ws = [] /\ ws_steal ws = None /\ forall m, In m (ws_up ws) -> ws_len ws m <= 2.

Lemma min_steal_zero a : Nat.min (a / 2) (a - 2) = 0 <-> a <= 2.
Proof.
  split.
  - intros H. destruct (Nat.le_gt_cases a 2) as [X|X]; [exact X|exfalso].
    assert (1 <= a / 2) by (apply Nat.div_le_lower_bound; lia). lia.
  - intros H. destruct a as [|[|[|a]]]; try lia; reflexivity.
Qed.

Lemma up_ready s n : In n (ws_up s) -> node_readyw s n /\ aget n (ws_nt s) <> None.
Proof.
  intros Hn. apply ws_up_spec in Hn. destruct Hn as (H1 & f & Ef & Hs & _).
  split; [|congruence]. split; [apply LoadProofs.aget_In_keys; exact H1|].
  exists f. split; [exact Ef|]. unfold shutting_down in Hs. apply orb_false_iff in Hs. tauto.
Qed.

(* ---- check_schedule ---- *)
Theorem check_TW s s' o r :
  all_open (ws_nt s) -> ws_check_schedule s = (s', o, r) ->
  r = Ok tt /\ TW s s' o /\ (has_sd o -> QW s') /\ (QW s -> QW s') /\ (ws_up s = [] -> s' = s /\ o = []) /\
  (ws_steal s <> None -> no_sd o).
Proof.
  intros Ho H. pose proof (W10_check_schedule_never_raises _ _ _ _ H) as ->. split; [reflexivity|].
  assert (TRIV : s' = s -> o = [] ->
    TW s s' o /\ (has_sd o -> QW s') /\ (QW s -> QW s') /\ (ws_up s = [] -> s' = s /\ o = []) /\ (ws_steal s <> None -> no_sd o)).
  { intros -> ->. split; [apply TW_refl|]. split; [intros (n & [])|]. split; [auto|]. split; [auto|]. intros _. apply no_sd_nil. }
  rewrite check_schedule_eq in H.
  destruct (ws_coll s) as [coll|] eqn:Ec; [|inv H; apply TRIV; reflexivity].
  destruct (ws_idle s (ws_up s)) as [|i0 il] eqn:Ei; [inv H; apply TRIV; reflexivity|].
  assert (Hidle : forall n, In n (i0 :: il) -> In n (ws_up s)).
  { intros n Hn. rewrite <- Ei in Hn. apply ws_idle_spec in Hn. tauto. }
  destruct (match ws_pending s with [] => (s, [], Ok tt) | _ :: _ => ws_distribute (i0 :: il) s end)
    as [[s1 o1] r1] eqn:E1.
  assert (D : r1 = Ok tt /\ TW s s1 o1 /\ ws_nt s1 = ws_nt s /\ ws_steal s1 = ws_steal s /\ no_sd o1 /\
              ws_pending s1 = [] /\ (ws_pending s = [] -> s1 = s /\ o1 = [])).
  { destruct (ws_pending s) as [|p0 pl] eqn:Ep.
    - inv E1. split; [reflexivity|]. split; [apply TW_refl|]. split; [reflexivity|]. split; [reflexivity|].
      split; [apply no_sd_nil|]. split; auto.
    - destruct (distribute_TW (i0 :: il) s s1 o1 r1 Ho) as (A & B & C & D0 & E & F); [|exact E1|].
      + intros n Hn. apply up_ready. apply Hidle. exact Hn.
      + split; [exact A|]. split; [exact B|]. split; [exact C|]. split; [exact D0|]. split; [exact E|].
        split; [apply F; discriminate|discriminate]. }
  destruct D as (-> & T1 & N1 & S1 & D1 & P1 & Z1).
  destruct (ws_phase2 (ws_up s) s1) as [[s2 o2] r2] eqn:E2. inv H.
  assert (Ho1 : all_open (ws_nt s1)) by (rewrite N1; exact Ho).
  destruct (tw_keeps _ _ _ T1) as (Kc & Kn & Km & Kk).
  assert (Hup1 : forall m, In m (ws_up s) -> aget m (ws_nt s1) <> None).
  { intros m Hm. rewrite N1. apply up_ready. exact Hm. }
  (* the three outcomes of the second half *)
  assert (CASES :
    (s' = s1 /\ o2 = []) \/
    (ws_steal s1 = None /\ exists v k vp f, In v (ws_up s) /\ Nat.min (ws_len s1 v / 2) (ws_len s1 v - 2) = S k /\
       aget v (ws_n2p s1) = Some vp /\ aget v (ws_nt s1) = Some f /\ n_sdsent f = false /\
       s' = ws_set_steal s1 (Some v) /\ o2 = [OSend v (CSteal (py_lastn (S k) vp))]) \/
    (ws_steal s1 = None /\ (forall m, In m (ws_up s) -> ws_len s1 m <= 2) /\
     shut_loop (ws_idle s1 (ws_up s)) s1 = (s', o2, Ok tt))).
  { unfold ws_phase2, steal_res, MIN_PENDING in E2.
    destruct (ws_idle s1 (ws_up s)) as [|j0 jl] eqn:Ej; [inv E2; left; auto|].
    destruct (ws_steal s1) as [m|] eqn:Es; [inv E2; left; auto|].
    destruct (first_max s1 (ws_up s) None) as [v|] eqn:Ev.
    2:{ right. right. split; [reflexivity|]. split; [|exact E2].
        apply first_max_none in Ev. rewrite Ev. intros m []. }
    pose proof (first_max_in _ _ _ _ Ev) as [Hv|Hv]; [|discriminate].
    destruct (first_max_ge _ _ _ _ Ev) as (Hmax & _).
    destruct (Nat.min (ws_len s1 v / 2) (ws_len s1 v - 2)) as [|k] eqn:Ek.
    { right. right. split; [reflexivity|]. split; [|exact E2].
      apply min_steal_zero in Ek. intros m Hm. specialize (Hmax m Hm). lia. }
    right. left. split; [reflexivity|].
    destruct (up_ready s v Hv) as ((Rp & f & Ef & Hs) & _).
    destruct (aget v (ws_n2p s1)) as [vp|] eqn:Evp.
    2:{ exfalso. apply LoadProofs.aget_none_keys in Evp. apply Evp. rewrite Kk. apply LoadProofs.aget_In_keys. exact Rp. }
    rewrite N1, Ef in E2. rewrite (Ho _ _ Ef) in E2. inv E2.
    exists v, k, vp, f. rewrite N1. repeat split; auto. }
  destruct CASES as [(-> & ->)|[(Es1 & v & k & vp & f & Hv & Hk & Evp & Ef & Hsd & -> & ->)|(Es1 & Hlen & Hsl)]].
  - (* nothing more *)
    rewrite app_nil_r. split; [exact T1|]. split; [|split; [|split]].
    + intros (n & Hn). exfalso. exact (D1 n Hn).
    + intros (Q1 & Q2 & Q3). destruct (Z1 Q1) as (-> & ->). split; auto.
    + intros Hu. rewrite Hu in Ei. discriminate.
    + intros _. exact D1.
  - (* a steal request *)
    assert (T2 : TW s1 (ws_set_steal s1 (Some v)) [OSend v (CSteal (py_lastn (S k) vp))]).
    { constructor; wsproj.
      - intros m. rewrite cmds_to_one. destruct (Nat.eqb v m) eqn:E.
        + apply Nat.eqb_eq in E. subst m. rewrite Ef. cbn. apply NRW_steal; [exact Hsd|constructor].
        + apply NRWo_refl.
      - intros m. unfold bkw. wsproj. rewrite cmds_to_one. destruct (Nat.eqb v m); cbn; rewrite app_nil_r; reflexivity.
      - unfold keepsw. wsproj. auto.
      - intros m. rewrite Es1, cmds_to_one. cbn [cnt]. destruct (Nat.eqb v m); unfold nstc; cbn; lia.
      - intros v0 E. inv E. right. apply LoadProofs.aget_In_keys. congruence.
      - exists []. reflexivity. }
    split; [eapply TW_trans; eauto|]. split; [|split; [|split]].
    + intros (n & Hn). exfalso. rewrite cmds_to_app in Hn. apply in_app_or in Hn. destruct Hn as [Hn|Hn]; [exact (D1 n Hn)|].
      rewrite cmds_to_one in Hn. destruct (Nat.eqb v n); [destruct Hn as [F|[]]; discriminate|destruct Hn].
    + intros (Q1 & Q2 & Q3). exfalso. destruct (Z1 Q1) as (-> & _).
      specialize (Q3 v Hv). apply min_steal_zero in Q3. rewrite Q3 in Hk. discriminate.
    + intros Hu. rewrite Hu in Hv. destruct Hv.
    + intros Hne. exfalso. apply Hne. congruence.
  - (* the idle nodes are shut down *)
    assert (Hl1 : forall n, In n (ws_idle s1 (ws_up s)) -> aget n (ws_nt s1) <> None).
    { intros n Hn. apply Hup1. apply ws_idle_spec in Hn. tauto. }
    destruct (shut_loop_TW _ _ _ _ _ Ho1 Hl1 Hsl) as (_ & T2 & F2 & _).
    pose proof (TW_trans _ _ _ _ _ T1 T2) as T.
    assert (QS : QW s').
    { destruct F2 as (F21 & F22 & _ & F24 & _). split; [congruence|]. split; [congruence|].
      intros m Hm. apply (TW_up _ _ _ T) in Hm. rewrite (ws_len_ext s1 s' m F21). apply Hlen. exact Hm. }
    split; [exact T|]. split; [auto|]. split; [auto|]. split.
    + intros Hu. rewrite Hu in Ei. discriminate.
    + intros Hne. exfalso. apply Hne. congruence.
Qed.

(* ---- the book table as a whole ---- *)
Lemma bkw_none s n : aget n (ws_n2p s) = None -> bkw s n = [].
Proof. intros E. unfold bkw, alist_get. rewrite E. reflexivity. Qed.
Lemma bkw_some s n cur : aget n (ws_n2p s) = Some cur -> bkw s n = cur.
Proof. intros E. unfold bkw, alist_get. rewrite E. reflexivity. Qed.

Lemma in_bkw_books s n i : In i (bkw s n) -> In i (StealProofs.books s).
Proof.
  unfold bkw, alist_get, StealProofs.books. destruct (aget n (ws_n2p s)) as [cur|] eqn:E; [|intros []].
  intros Hi. apply in_flat_map. exists (n, cur). split; [|exact Hi]. clear Hi.
  induction (ws_n2p s) as [|[k v] m IH]; cbn in *; [discriminate|].
  destruct (Nat.eqb n k) eqn:Ek; [apply Nat.eqb_eq in Ek; inv E; left; reflexivity|right; auto].
Qed.

Lemma bkw_nodup s n : NoDup (StealProofs.tokens s) -> NoDup (bkw s n).
Proof.
  intros ND. unfold StealProofs.tokens in ND. apply WorkerProofs.nodup_app_r in ND. unfold StealProofs.books in ND.
  unfold bkw, alist_get. destruct (aget n (ws_n2p s)) as [cur|] eqn:E; [|constructor].
  pose proof (books_adel n cur _ E) as P. apply (Permutation_NoDup P) in ND. apply nodup_app_l in ND. exact ND.
Qed.

(* a steal request names the tail of the victim's book, and leaves it at least two tests *)
Definition STAIL (s' : wsstate) (o : list out) : Prop :=
  forall v ixs, In (OSend v (CSteal ixs)) o ->
  exists keep, bkw s' v = keep ++ ixs /\ 2 <= length keep /\ ixs <> [].

Lemma STAIL_nil s : STAIL s [].
Proof. intros v ixs []. Qed.

Lemma STAIL_hook s h o : STAIL s o -> STAIL s (OHook h :: o).
Proof. intros H v ixs [F|Hin]; [discriminate|]. exact (H v ixs Hin). Qed.

Lemma check_tail s s' o r : ws_check_schedule s = (s', o, r) -> STAIL s' o.
Proof.
  intros H v ixs Hin.
  assert (Hr : In (v, ixs) (steal_reqs o)).
  { unfold steal_reqs. apply in_flat_map. exists (OSend v (CSteal ixs)). split; [exact Hin|left; reflexivity]. }
  destruct (W2_single_steal _ _ _ _ H) as (Hlen & _).
  assert (E : steal_reqs o = [(v, ixs)]).
  { destruct (steal_reqs o) as [|x [|y l]]; [destruct Hr| |cbn in Hlen; lia].
    destruct Hr as [->|[]]. reflexivity. }
  destruct (W3_steal_tail _ _ _ _ _ _ H E) as (_ & book & Eb & keep & -> & Hk & Hi & _).
  exists keep. split; [apply bkw_some; exact Eb|]. split; [exact Hk|]. destruct ixs; [cbn in Hi; lia|discriminate].
Qed.

Lemma in_cmds_to v c o : In (OSend v c) o -> In c (cmds_to v o).
Proof.
  intros H. unfold cmds_to. apply in_flat_map. exists (OSend v c). split; [exact H|]. cbn. rewrite Nat.eqb_refl. left. reflexivity.
Qed.

Lemma nstc_zero_no_steal cs ixs : nstc cs = 0 -> ~ In (CSteal ixs) cs.
Proof.
  unfold nstc. induction cs as [|c cs IH]; cbn [filter In]; [tauto|].
  destruct c; cbn [is_steal length]; intros H [F|F]; try discriminate; try (apply IH; assumption).
Qed.

Lemma STAIL_nosteal s o : (forall v, nstc (cmds_to v o) = 0) -> STAIL s o.
Proof. intros H v ixs Hin. exfalso. apply in_cmds_to in Hin. exact (nstc_zero_no_steal _ _ (H v) Hin). Qed.

Lemma STAIL_app_quiet s a b : (forall v, cmds_to v a = []) -> STAIL s b -> STAIL s (a ++ b).
Proof.
  intros Ha Hb v ixs Hin. apply in_app_or in Hin. destruct Hin as [Hin|Hin]; [|exact (Hb v ixs Hin)].
  apply in_cmds_to in Hin. rewrite Ha in Hin. destruct Hin.
Qed.

Lemma STAIL_app_sd s s' a b :
  STAIL s a -> (forall n, bkw s' n = bkw s n) -> (forall n c, In c (cmds_to n b) -> c = CShutdown) -> STAIL s' (a ++ b).
Proof.
  intros Ha Hb Hsd v ixs Hin. apply in_app_or in Hin. destruct Hin as [Hin|Hin].
  - rewrite Hb. exact (Ha v ixs Hin).
  - apply in_cmds_to in Hin. apply Hsd in Hin. discriminate.
Qed.

(* ====================================================================================== *)
(* Part C.1: the controller invariant; triggershutdown; end of a loop iteration *)
(* ====================================================================================== *)

Notation wtokens := StealProofs.tokens.
Notation wbooks := StealProofs.books.

Section CtlW.
Variable N : nat.
Variable collf : nat -> list string.

Definition LGW (ws : wsstate) : Prop :=
  (forall k ids, In (k, ids) (ws_n2c ws) -> ids = collf k) /\
  (forall X, (forall k ids, In (k, ids) (ws_n2c ws) -> ids = X) ->
             ws_collection_is_completed ws = true -> ws_coll ws = Some X).

Lemma LGW_ext ws ws' :
  LGW ws -> ws_n2c ws' = ws_n2c ws -> ws_coll ws' = ws_coll ws -> ws_numnodes ws' = ws_numnodes ws -> LGW ws'.
Proof.
  intros (A & B) En Ec Em. unfold LGW, ws_collection_is_completed. rewrite En, Ec, Em. split; assumption.
Qed.

Record LJW (ws : wsstate) : Prop := {
  wj_num : ws_numnodes ws = N;
  wj_ntk : forall n, aget n (ws_nt ws) <> None <-> n < N;
  wj_nodes : forall n, In n (ws_nodes ws) -> n < N;
  wj_wf : NoDup (ws_nodes ws);
  wj_n2c : forall n, In n (akeys (ws_n2c ws)) -> n < N;
  wj_n2cnd : NoDup (akeys (ws_n2c ws));
  wj_cc : ws_coll ws <> None -> ws_collection_is_completed ws = true;
  wj_lg : LGW ws;
  wj_st : forall v, ws_steal ws = Some v -> In v (ws_nodes ws);
  wj_nd : NoDup (wtokens ws);
  wj_b0 : ws_coll ws = None -> wbooks ws = [];
}.

Definition some_sd (ws : wsstate) : Prop := exists n f, aget n (ws_nt ws) = Some f /\ n_sdsent f = true.

Record DJW0 (d : dstate) (ws : wsstate) : Prop := {
  wd_sched : d_sched d = StW ws;
  wd_lj : LJW ws;
  wd_b : d_shuttingdown d = false -> d_shouldstop d = false -> incl (ws_nodes ws) (d_active d);
  wd_q : d_shuttingdown d = false -> some_sd ws -> ws_collection_is_completed ws = true /\ QW ws;
  wd_g4 : d_shuttingdown d = true ->
          d_shouldstop d = true \/
          (ws_collection_is_completed ws = true /\ ws_pending ws = [] /\ ws_steal ws = None);
  wd_g5 : d_shuttingdown d = true -> ws_up ws = [];
}.
Definition DJW (d : dstate) (ws : wsstate) : Prop :=
  DJW0 d ws /\ (d_shouldstop d = true -> d_shuttingdown d = true).

Lemma completed_pigeonw ws n :
  LJW ws -> n < N -> ~ In n (akeys (ws_n2c ws)) -> ws_collection_is_completed ws = false.
Proof.
  intros J Hn Hni. unfold ws_collection_is_completed. rewrite (wj_num _ J). apply Nat.leb_gt.
  assert (ND : NoDup (n :: akeys (ws_n2c ws))) by (constructor; [exact Hni|apply (wj_n2cnd _ J)]).
  assert (Hi : incl (n :: akeys (ws_n2c ws)) (seq 0 N)).
  { intros m [<-|Hm]; apply in_seq; [lia|]. pose proof (wj_n2c _ J m Hm). lia. }
  pose proof (NoDup_incl_length ND Hi) as L. cbn [length] in L. rewrite seq_length, akeys_length in L. lia.
Qed.

Lemma nodes_knownw ws : LJW ws -> forall n, In n (ws_nodes ws) -> aget n (ws_nt ws) <> None.
Proof. intros J n Hn. apply (wj_ntk _ J). apply (wj_nodes _ J). exact Hn. Qed.

(* a scheduling step keeps the static part of the invariant *)
Lemma tokens_nil_books ws : wtokens ws = [] -> wbooks ws = [].
Proof. unfold StealProofs.tokens. intros H. apply app_eq_nil in H. tauto. Qed.

Lemma LJW_TW ws ws' o :
  LJW ws -> WI ws -> TW ws ws' o -> Permutation (wtokens ws') (wtokens ws) -> LJW ws'.
Proof.
  intros J (_ & _ & I3) T P. destruct (tw_keeps _ _ _ T) as (Kc & Kn & Km & Kk). constructor.
  - rewrite Km. apply J.
  - intros n. rewrite (TW_nt_keys _ _ _ n T). apply J.
  - unfold ws_nodes. rewrite Kk. apply J.
  - unfold ws_nodes. rewrite Kk. apply J.
  - rewrite Kn. apply J.
  - rewrite Kn. apply J.
  - unfold ws_collection_is_completed. rewrite Kc, Km, Kn. apply J.
  - apply (LGW_ext ws ws' (wj_lg _ J) Kn Kc Km).
  - intros v Hv. unfold ws_nodes. rewrite Kk. destruct (tw_stin _ _ _ T v Hv) as [X|X]; [apply (wj_st _ J); exact X|exact X].
  - eapply Permutation_NoDup; [apply Permutation_sym; exact P|apply J].
  - rewrite Kc. intros Ec. apply tokens_nil_books. apply Permutation_nil. rewrite P.
    unfold StealProofs.tokens. rewrite (wj_b0 _ J Ec). destruct (I3 Ec) as (-> & _). reflexivity.
Qed.

Lemma nt_only_tokens s s' : nt_only s s' -> wtokens s' = wtokens s.
Proof. intros (A & B & _). unfold StealProofs.tokens, StealProofs.books. rewrite A, B. reflexivity. Qed.

(* ====================================================================================== *)
(* lifting scheduler calls to the controller state                                         *)
(* ====================================================================================== *)
Definition liftW {A} (d : dstate) (x : wsstate * list out * result A) : dstate * list out * result A :=
  let '(ws', o, r) := x in (d_set_sched d (StW ws'), o, r).

Lemma d_node_shutdown_liftw n d ws :
  d_sched d = StW ws -> d_node_shutdown n d = liftW d (node_shutdown ws_nt ws_set_nt n ws).
Proof.
  intros Els. destruct d as [sch sd ss cf mf act fn mr cs gw rq]. cbn in Els. subst sch.
  unfold d_node_shutdown, node_shutdown, node_send, node_flags, mbind, get, put, of_opt, ret, raise, emit, liftW,
    d_nt, d_set_nt, d_set_sched.
  cbn [d_sched s_nt s_set_nt d_shuttingdown d_shouldstop d_countfailures d_maxfail d_active d_failed_nodes
       d_max_restart d_collect_seen d_next_gw d_requeue].
  destruct (aget n (ws_nt ws)) as [c|] eqn:En; [|reflexivity].
  destruct (n_down c || n_sdsent c); [reflexivity|].
  cbn [d_sched s_nt s_set_nt]. rewrite En.
  destruct (n_closed c); reflexivity.
Qed.

Lemma mfor_liftW {A} (f : A -> D unit) (g : A -> W unit) l :
  (forall x d ws, d_sched d = StW ws -> f x d = liftW d (g x ws)) ->
  forall d ws, d_sched d = StW ws -> mfor l f d = liftW d (mfor l g ws).
Proof.
  intros Hfg. induction l as [|x l IH]; intros d ws Els.
  - cbn. unfold ret. rewrite d_set_sched_same by exact Els. reflexivity.
  - cbn [mfor]. unfold mbind. rewrite (Hfg x d ws Els).
    destruct (g x ws) as [[ws1 o1] [a|e]]; cbn [liftW]; [|reflexivity].
    rewrite (IH (d_set_sched d (StW ws1)) ws1 eq_refl).
    destruct (mfor l g ws1) as [[ws2 o2] r2]. cbn [liftW]. reflexivity.
Qed.

Definition d_withw (d : dstate) (sd : bool) (ws : wsstate) : dstate :=
  d_set_sched (d_set_shuttingdown d sd) (StW ws).

Lemma up_nil_of_sd ws :
  (forall n f, In n (ws_nodes ws) -> aget n (ws_nt ws) = Some f -> shutting_down f = true) -> ws_up ws = [].
Proof.
  intros H. destruct (ws_up ws) as [|m l] eqn:E; [reflexivity|exfalso].
  assert (Hm : In m (ws_up ws)) by (rewrite E; left; reflexivity).
  apply ws_up_spec in Hm. destruct Hm as (H1 & f & Ef & Hs & _). rewrite (H m f H1 Ef) in Hs. discriminate.
Qed.

(* triggershutdown: every scheduled node is shut down once; nothing else changes *)
Lemma trigger_effw d ws d' o r :
  d_sched d = StW ws -> LJW ws -> all_open (ws_nt ws) ->
  d_triggershutdown d = (d', o, r) ->
  r = Ok tt /\ exists ws', d' = d_withw d true ws' /\ TW ws ws' o /\ nt_only ws ws' /\
    (d_shuttingdown d = true -> ws' = ws /\ o = []) /\
    (d_shuttingdown d = false -> ws_up ws' = []) /\
    (forall n c, In c (cmds_to n o) -> c = CShutdown).
Proof.
  intros Els J Ho H. unfold d_triggershutdown in H. unfold mbind at 1, get in H.
  destruct (d_shuttingdown d) eqn:Esd.
  - unfold ret in H. injection H as <- <- <-. split; [reflexivity|]. exists ws.
    split. { unfold d_withw. destruct d; cbn in *; subst; reflexivity. }
    split; [apply TW_refl|]. split; [apply nt_only_refl|]. split; [auto|]. split; [discriminate|]. intros n c [].
  - unfold mbind, put in H.
    rewrite (mfor_liftW d_node_shutdown (fun n => node_shutdown ws_nt ws_set_nt n) _ d_node_shutdown_liftw
               (d_set_shuttingdown d true) ws) in H by exact Els.
    rewrite Els in H. cbn [s_nodes] in H.
    destruct (mfor (ws_nodes ws) (fun n => node_shutdown ws_nt ws_set_nt n) ws) as [[ws2 o2] r2] eqn:Em.
    cbn [liftW app] in H. inv H.
    destruct (shut_loop_TW _ _ _ _ _ Ho (nodes_knownw ws J) Em) as (-> & T & F & S).
    split; [reflexivity|]. exists ws2. split; [reflexivity|]. split; [exact T|]. split; [exact F|].
    split; [discriminate|]. split.
    + intros _. apply up_nil_of_sd. intros n f Hn Ef. apply (S n f); [|exact Ef].
      destruct F as (F1 & _). unfold ws_nodes in *. rewrite F1 in Hn. exact Hn.
    + eapply shut_loop_outs. exact Em.
Qed.

Lemma WI_TW ws ws' o : WI ws -> TW ws ws' o -> ws_pending ws' = ws_pending ws -> ws_steal ws' = ws_steal ws -> WI ws'.
Proof.
  intros (I1 & (N1 & N2) & I3) T Ep Es. destruct (tw_keeps _ _ _ T) as (Kc & Kn & _).
  split; [eapply TW_all_open; eauto|]. split.
  - split; intros; [rewrite Kc in *|rewrite Kn in *]; eauto.
  - rewrite Kc, Ep, Es. exact I3.
Qed.

(* the end of a loop iteration *)
Lemma loop_rest_effw d ws d' o r :
  DJW0 d ws -> all_open (ws_nt ws) ->
  loop_rest d = (d', o, r) ->
  r = Ok tt /\ exists ws',
    d' = d_withw d (d_shuttingdown d || ws_tests_finished ws || d_shouldstop d) ws' /\
    TW ws ws' o /\ nt_only ws ws' /\
    (d_shuttingdown d' = false -> ws' = ws /\ o = []) /\
    (d_shuttingdown d' = true -> ws_up ws' = []) /\
    (forall n c, In c (cmds_to n o) -> c = CShutdown).
Proof.
  intros [Els J Jb Jq Jg Jf] Ho H. unfold loop_rest in H.
  apply LoadProofs.mbind_inv in H. destruct H as [(e & H1 & ->)|(d1 & o1 & a & o2 & H1 & H2 & ->)].
  - exfalso. unfold mbind at 1, get in H1. rewrite Els in H1. cbn [s_tests_finished] in H1.
    destruct (ws_tests_finished ws).
    + destruct (d_triggershutdown d) as [[dx ox] rx] eqn:Et.
      destruct (trigger_effw _ _ _ _ _ Els J Ho Et) as (-> & _). inv H1.
    + unfold ret in H1. inv H1.
  - unfold mbind at 1, get in H1. rewrite Els in H1. cbn [s_tests_finished] in H1.
    unfold mbind at 1, get in H2.
    destruct (ws_tests_finished ws) eqn:Etf.
    + destruct (d_triggershutdown d) as [[dx ox] rx] eqn:Et.
      destruct (trigger_effw _ _ _ _ _ Els J Ho Et) as (-> & ws1 & -> & T1 & F1 & N1 & U1 & C1). inv H1.
      assert (Z : forall b : bool, (if b then d_triggershutdown else ret tt) (d_withw d true ws1)
                  = (d_withw d true ws1, [], Ok tt)).
      { intros [|]; [|reflexivity]. unfold d_triggershutdown, mbind, get. reflexivity. }
      rewrite Z in H2. inv H2. rewrite app_nil_r, orb_true_r. cbn [orb].
      split; [reflexivity|]. exists ws1. split; [reflexivity|]. split; [exact T1|]. split; [exact F1|].
      split; [cbn; discriminate|]. split; [|exact C1].
      intros _. destruct (d_shuttingdown d) eqn:Esd.
      * destruct (N1 eq_refl) as (-> & _). apply Jf. reflexivity.
      * apply U1. reflexivity.
    + unfold ret in H1. inv H1. cbn [app]. rewrite orb_false_r.
      destruct (d_shouldstop d1) eqn:Ess.
      * destruct (d_triggershutdown d1) as [[dx ox] rx] eqn:Et.
        destruct (trigger_effw _ _ _ _ _ Els J Ho Et) as (-> & ws1 & -> & T1 & F1 & N1 & U1 & C1). inv H2.
        rewrite orb_true_r. split; [reflexivity|]. exists ws1.
        split; [reflexivity|]. split; [exact T1|]. split; [exact F1|]. split; [cbn; discriminate|]. split; [|exact C1].
        intros _. destruct (d_shuttingdown d1) eqn:Esd.
        -- destruct (N1 eq_refl) as (-> & _). apply Jf. reflexivity.
        -- apply U1. reflexivity.
      * unfold ret in H2. inv H2. rewrite orb_false_r. split; [reflexivity|]. exists ws.
        split. { unfold d_withw. destruct d'; cbn in *; subst; reflexivity. }
        split; [apply TW_refl|]. split; [apply nt_only_refl|]. split; [auto|]. split; [|intros n c []].
        cbn. exact Jf.
Qed.

End CtlW.

(* ====================================================================================== *)
(* Part C.2: the handlers *)
(* ====================================================================================== *)

(* ---- lists ---- *)
Lemma remove_first_in i l : In i l -> exists l', remove_first i l = Some l'.
Proof.
  induction l as [|y l IH]; cbn; [intros []|]. intros H. destruct (Nat.eqb i y) eqn:E; [eauto|].
  destruct H as [->|H]; [rewrite Nat.eqb_refl in E; discriminate|]. destruct (IH H) as (l' & ->). eauto.
Qed.

Lemma books_add_empty n (m : amap (list nat)) : aget n m = None -> flat_map snd (aset n [] m) = flat_map snd m.
Proof.
  induction m as [|[k v] m IH]; cbn; [reflexivity|]. destruct (Nat.eqb n k); [discriminate|].
  intros H. cbn. rewrite (IH H). reflexivity.
Qed.

Lemma filter_not_in (ixs l : list nat) :
  (forall i, In i l -> ~ In i ixs) -> filter (fun i => negb (mem_nat i ixs)) l = l.
Proof.
  induction l as [|a l IH]; cbn; intros H; [reflexivity|].
  assert (Ha : mem_nat a ixs = false) by (apply WorkerProofs.mem_nat_false; apply H; auto).
  rewrite Ha. cbn. f_equal. apply IH. intros i Hi. apply H. auto.
Qed.

(* withdrawing [ixs] from a book that is [ixs] plus a part disjoint from it *)
Lemma filter_withdraw (ixs rest book : list nat) :
  Permutation book (ixs ++ rest) -> (forall i, In i rest -> ~ In i ixs) ->
  Permutation (filter (fun i => negb (mem_nat i ixs)) book) rest.
Proof.
  intros P Hd. assert (Pf : forall f (a b : list nat), Permutation a b -> Permutation (filter f a) (filter f b)).
  { intros f a b Hp. induction Hp; cbn.
    - constructor.
    - destruct (f x); [constructor|]; assumption.
    - destruct (f x), (f y); try reflexivity. apply perm_swap.
    - etransitivity; eassumption. }
  rewrite (Pf _ _ _ P), filter_app, filter_all_mem by auto. cbn [app]. rewrite filter_not_in by exact Hd. reflexivity.
Qed.

Lemma nodup_perm_disj (ixs rest book : list nat) :
  NoDup book -> Permutation book (ixs ++ rest) -> (forall i, In i rest -> ~ In i ixs) /\ NoDup ixs /\ incl ixs book.
Proof.
  intros ND P. pose proof (Permutation_NoDup P ND) as ND2. split; [|split].
  - intros i Hr Hi. exact (WorkerProofs.nodup_app_disj _ _ i ND2 Hi Hr).
  - eapply nodup_app_l; eauto.
  - intros i Hi. eapply Permutation_in; [apply Permutation_sym; exact P|]. apply in_or_app. left. exact Hi.
Qed.

(* ---- ws_up under changes of the book table ---- *)
Lemma ws_up_ext s s' :
  akeys (ws_n2p s') = akeys (ws_n2p s) -> ws_nt s' = ws_nt s -> ws_n2c s' = ws_n2c s -> ws_up s' = ws_up s.
Proof. intros A B C. unfold ws_up. rewrite A, B, C. reflexivity. Qed.

Lemma aget_adel_in {V} n m (mp : amap V) v : aget m (adel n mp) = Some v -> In m (akeys mp).
Proof. intros H. eapply StealProofs.adel_keys_incl. eapply FifoProofs.aget_some_in. exact H. Qed.

Lemma ahas_adel {V} n m (mp : amap V) : ahas m (adel n mp) = true -> ahas m mp = true.
Proof.
  intros H. apply ahas_keys in H. apply ahas_keys. eapply StealProofs.adel_keys_incl. exact H.
Qed.

Section HandlersW.
Variable N : nat.
Variable collf : nat -> list string.
Notation LJWc := (LJW N collf).
Notation DJW0c := (DJW0 N collf).
Notation DJWc := (DJW N collf).

Definition bookmidw (ev : cevent) (m : nat) (b : list nat) : list nat :=
  match ev with
  | QComplete n i _ => if Nat.eqb m n then match remove_first i b with Some b' => b' | None => b end else b
  | QUnscheduled n ixs => if Nat.eqb m n then filter (fun i => negb (mem_nat i ixs)) b else b
  | _ => b
  end.
Definition unsev (ev : cevent) (m : nat) : nat :=
  match ev with QUnscheduled n _ => if Nat.eqb n m then 1 else 0 | _ => 0 end.

Record HEFFW (ev : cevent) (d : dstate) (ws : wsstate) (d1 : dstate) (ws1 : wsstate) (o1 : list out) : Prop := {
  hw_dj : DJW0c d1 ws1;
  hw_nt : forall m, NRWo (aget m (ws_nt ws)) (cmds_to m o1) (aget m (ws_nt ws1));
  hw_bk : forall m, bkw ws1 m = bookmidw ev m (bkw ws m) ++ flat_map cmd_inds (cmds_to m o1);
  hw_steal : forall m, cnt (ws_steal ws) m + nstc (cmds_to m o1) = cnt (ws_steal ws1) m + unsev ev m;
  hw_nodes : forall m, In m (ws_nodes ws1) -> In m (ws_nodes ws) \/ ev_xsig ev = Some (m, XReady);
  hw_n2c : forall m, In m (akeys (ws_n2c ws1)) -> In m (akeys (ws_n2c ws)) \/ ev_xsig ev = Some (m, XCF);
  hw_act : forall m, In m (d_active d) -> In m (d_active d1) \/ exists b, ev_xsig ev = Some (m, XFin b);
  hw_fin : d_active d1 = [] ->
           d_shuttingdown d1 = true \/ ws_tests_finished ws1 = true \/ d_shouldstop d1 = true;
  hw_sd : d_shuttingdown d1 = d_shuttingdown d;
  hw_ss : d_shouldstop d = true -> d_shouldstop d1 = true;
  hw_tail : STAIL ws1 o1;
  hw_stop : forall m, ev_xsig ev = Some (m, XFin true) -> d_shouldstop d1 = true;
}.

Definition PREW (ev : cevent) (d : dstate) (ws : wsstate) : Prop :=
  match ev with
  | QReady n => n < N /\ (d_shuttingdown d = false -> ~ In n (ws_nodes ws) /\ In n (d_active d))
  | QCollFinish n ids => n < N /\ ~ In n (akeys (ws_n2c ws)) /\ ids = collf n
  | QComplete n i _ => In i (bkw ws n)
  | QUnscheduled n ixs =>
      ws_steal ws = Some n /\
      exists rest, Permutation (bkw ws n) (ixs ++ rest)
  | QFinished n SKNone => In n (d_active d) /\ (In n (ws_nodes ws) -> aget n (ws_n2p ws) = Some []) /\
                          (exists f, aget n (ws_nt ws) = Some f /\ n_sdsent f = true) /\
                          ws_steal ws <> Some n
  | QFinished n SKStop => In n (d_active d)
  | QFinished _ SKKbd | QInternalError _ | QErrorDown _ => False
  | _ => True
  end.

Lemma heff_samew ev d ws d1 o1 :
  DJWc d ws -> d_active d <> [] -> same_ctl d d1 -> (forall m, cmds_to m o1 = []) ->
  (forall m b, bookmidw ev m b = b) -> (forall m, unsev ev m = 0) -> (forall m b, ev_xsig ev <> Some (m, XFin b)) ->
  HEFFW ev d ws d1 ws o1.
Proof.
  intros ([Els J Jb Jq Jg Jf] & Jss) Hact (S1 & S2 & S3 & S4) Hc Hb Hu Hf. constructor.
  - constructor.
    + rewrite S1. exact Els.
    + exact J.
    + rewrite S2, S3. intros Hsd Hss. apply Jb; [exact Hsd|].
      destruct (d_shouldstop d) eqn:E; [|reflexivity]. rewrite (S4 eq_refl) in Hss. discriminate.
    + rewrite S2. exact Jq.
    + rewrite S2. intros Hsd. destruct (Jg Hsd) as [X|X]; [left; apply S4; exact X|right; exact X].
    + rewrite S2. exact Jf.
  - intros m. rewrite Hc. apply NRWo_refl.
  - intros m. rewrite Hc, Hb. cbn. rewrite app_nil_r. reflexivity.
  - intros m. rewrite Hc, Hu. unfold nstc. cbn. lia.
  - auto.
  - auto.
  - intros m Hm. left. rewrite S3. exact Hm.
  - rewrite S3. intros F. contradiction.
  - exact S2.
  - exact S4.
  - apply STAIL_nosteal. intros v. rewrite Hc. reflexivity.
  - intros m E. exfalso. exact (Hf _ _ E).
Qed.

Lemma sched_op_runw op d ws :
  d_sched d = StW ws ->
  d_sched_op op d = let '(st, o, r) := s_step (StW ws) op in (d_set_sched d st, o, r).
Proof. intros Els. unfold d_sched_op. rewrite Els. reflexivity. Qed.

Ltac dprj := cbn [d_sched d_shuttingdown d_shouldstop d_active d_countfailures d_maxfail d_failed_nodes
  d_max_restart d_collect_seen d_next_gw d_requeue d_set_sched d_set_active d_set_shouldstop
  d_set_shuttingdown d_set_countfailures d_set_collect_seen d_withw].

(* a step that only touches node flags, while shutting down *)
Lemma DJW0_flags_sd d ws ws' o :
  DJW0c d ws -> WI ws -> TW ws ws' o -> nt_only ws ws' -> d_shuttingdown d = true ->
  DJW0c (d_set_sched d (StW ws')) ws'.
Proof.
  intros [Els J Jb Jq Jg Jf] Iw T F Hsd. destruct F as (F1 & F2 & F3 & F4 & F5 & F6 & F7). constructor; dprj.
  - reflexivity.
  - eapply LJW_TW; eauto. rewrite (nt_only_tokens ws ws'); [reflexivity|]. unfold nt_only. auto 10.
  - rewrite Hsd. discriminate.
  - rewrite Hsd. discriminate.
  - unfold ws_collection_is_completed. rewrite F2, F4, F5, F6. exact Jg.
  - intros _. specialize (Jf Hsd). pose proof (TW_up _ _ _ T) as Hi. rewrite Jf in Hi.
    destruct (ws_up ws') as [|m l]; [reflexivity|]. exfalso. apply (Hi m). left. reflexivity.
Qed.

(* ---- workerready ---- *)
Lemma handle_readyw n d ws d1 o1 r :
  DJWc d ws -> WI ws -> d_active d <> [] -> PREW (QReady n) d ws ->
  d_handle (QReady n) d = (d1, o1, r) -> r = Ok tt /\ exists ws1, HEFFW (QReady n) d ws d1 ws1 o1.
Proof.
  intros (J0 & Jss) Iw Hact (HnN & Hpre) H. pose proof J0 as [Els J Jb Jq Jg Jf]. pose proof Iw as (Ho & _).
  cbn [d_handle] in H. unfold hook in H. rewrite mbind_emit, mbind_get in H.
  destruct (d_shuttingdown d) eqn:Esd.
  - rewrite (d_node_shutdown_liftw n d ws Els) in H.
    destruct (node_shutdown ws_nt ws_set_nt n ws) as [[ws1 o2] r2] eqn:En. cbn [liftW] in H. inv H.
    assert (Hk : aget n (ws_nt ws) <> None) by (apply (wj_ntk _ _ _ J); exact HnN).
    destruct (node_shutdown_TW _ _ _ _ _ Ho Hk En) as (-> & T & F & _).
    split; [reflexivity|]. exists ws1.
    assert (C : forall m, cmds_to m (OHook (HNodeReady n) :: o2) = cmds_to m o2) by reflexivity.
    destruct (tw_keeps _ _ _ T) as (_ & Kn & _ & Kk).
    constructor.
    + apply (DJW0_flags_sd d ws ws1 o2 J0 Iw T F Esd).
    + intros m. rewrite C. apply (tw_nt _ _ _ T).
    + intros m. rewrite C. cbn [bookmidw]. apply (tw_bk _ _ _ T).
    + intros m. rewrite C. cbn [unsev]. rewrite (tw_steal _ _ _ T m). lia.
    + intros m Hm. left. unfold ws_nodes in *. rewrite <- Kk. exact Hm.
    + intros m Hm. left. rewrite <- Kn. exact Hm.
    + intros m Hm. left. exact Hm.
    + cbn. intros F0. contradiction.
    + reflexivity.
    + cbn. auto.
    + apply STAIL_nosteal. intros v. rewrite C. pose proof (tw_steal _ _ _ T v) as X.
      destruct F as (_ & _ & _ & F4 & _). rewrite F4 in X. lia.
    + intros m E. discriminate.
  - destruct (Hpre eq_refl) as (Hnew & Hina).
    assert (Ea : aget n (ws_n2p ws) = None) by (apply LoadProofs.aget_none_keys; exact Hnew).
    unfold mbind at 1 in H. rewrite (sched_op_runw _ d ws Els) in H. cbn [s_step] in H.
    unfold ws_add_node, massert, ahas in H. rewrite mbind_get in H. rewrite Ea in H. cbn [negb] in H.
    rewrite mbind_ret in H. unfold put, lift, no_str, ret in H. inv H.
    split; [reflexivity|]. set (ws1 := ws_set_n2p ws (aset n [] (ws_n2p ws))). exists ws1.
    assert (Ek : ws_nodes ws1 = ws_nodes ws ++ [n]) by (apply LoadProofs.akeys_aset_new; exact Ea).
    assert (Ebk : forall m, bkw ws1 m = bkw ws m).
    { intros m. unfold bkw, ws1. wsproj. destruct (Nat.eq_dec m n) as [->|Hm].
      - rewrite FifoProofs.alist_get_aset_eq. symmetry. apply alist_get_none. exact Ea.
      - apply FifoProofs.alist_get_aset_neq. exact Hm. }
    assert (Eup : forall m, In m (ws_up ws1) -> m = n \/ In m (ws_up ws)).
    { intros m Hm. apply ws_up_spec in Hm. destruct Hm as (H1 & Hr). unfold ws1 in H1. wsproj.
      change (akeys (aset n [] (ws_n2p ws))) with (ws_nodes ws1) in H1. rewrite Ek in H1.
      apply in_app_or in H1. destruct H1 as [H1|[<-|[]]]; [right|left; reflexivity].
      apply ws_up_spec. split; [exact H1|exact Hr]. }
    constructor.
    + constructor.
      * reflexivity.
      * constructor; [exact (wj_num _ _ _ J)|exact (wj_ntk _ _ _ J)| | |exact (wj_n2c _ _ _ J)|exact (wj_n2cnd _ _ _ J)
                      |exact (wj_cc _ _ _ J)|exact (wj_lg _ _ _ J)| | |].
        -- intros m Hm. rewrite Ek in Hm. apply in_app_or in Hm.
           destruct Hm as [Hm|[<-|[]]]; [apply (wj_nodes _ _ _ J); exact Hm|exact HnN].
        -- apply akeys_aset_nodup. apply J.
        -- intros v Hv. rewrite Ek. apply in_or_app. left. apply (wj_st _ _ _ J). exact Hv.
        -- unfold StealProofs.tokens, StealProofs.books, ws1. wsproj. rewrite (books_add_empty n _ Ea). apply J.
        -- intros Ec. unfold StealProofs.books, ws1. wsproj. rewrite (books_add_empty n _ Ea). apply (wj_b0 _ _ _ J Ec).
      * dprj. intros _ Hss m Hm. rewrite Ek in Hm. apply in_app_or in Hm.
        destruct Hm as [Hm|[<-|[]]]; [apply (Jb eq_refl Hss); exact Hm|exact Hina].
      * dprj. intros _ Hsome. destruct (Jq eq_refl Hsome) as (Cc & Q1 & Q2 & Q3). split; [exact Cc|].
        split; [exact Q1|]. split; [exact Q2|]. intros m Hm. rewrite ws_len_bkw, Ebk, <- ws_len_bkw.
        destruct (Eup m Hm) as [->|Hm']; [|apply Q3; exact Hm'].
        rewrite ws_len_bkw, (bkw_none ws n Ea). cbn. lia.
      * dprj. rewrite Esd. discriminate.
      * dprj. rewrite Esd. discriminate.
    + intros m. apply NRWo_refl.
    + intros m. cbn. rewrite app_nil_r. apply Ebk.
    + intros m. cbn. unfold nstc. cbn. lia.
    + intros m Hm. rewrite Ek in Hm. apply in_app_or in Hm. destruct Hm as [Hm|[<-|[]]]; [left; exact Hm|right; reflexivity].
    + intros m Hm. left. exact Hm.
    + intros m Hm. left. exact Hm.
    + cbn. intros F. contradiction.
    + reflexivity.
    + cbn. auto.
    + apply STAIL_hook, STAIL_nil.
    + intros m E. discriminate.
Qed.

(* check_schedule: everything the handlers need, in one statement *)
Lemma check_fullw s s' o r :
  all_open (ws_nt s) -> ws_check_schedule s = (s', o, r) ->
  r = Ok tt /\ TW s s' o /\ (has_sd o -> QW s') /\ (QW s -> QW s') /\ (ws_up s = [] -> s' = s /\ o = []) /\
  (ws_steal s <> None -> no_sd o) /\ Permutation (wtokens s') (wtokens s) /\ STAIL s' o.
Proof.
  intros Ho H. destruct (check_TW _ _ _ _ Ho H) as (A & B & C & D & E & F).
  repeat (split; [assumption|]). split; [apply (proj1 (W5_conservation _ _ _ _ H))|eapply check_tail; eauto].
Qed.

(* after a scheduler call made of a silent update [mid] followed by check_schedule *)
Lemma some_sd_after mid ws1 o :
  TW mid ws1 o -> some_sd ws1 -> some_sd mid \/ has_sd o.
Proof.
  intros T (k & f' & Ef' & Hs). destruct (NRWo_open _ _ _ _ (tw_nt _ _ _ T k) Ef') as (f & Ef & R).
  destruct (NRW_fields _ _ _ R) as (_ & _ & _ & D & _). apply D in Hs. destruct Hs as [Hs|Hs].
  - left. exists k, f. auto.
  - right. exists k. exact Hs.
Qed.

(* ---- runtest_protocol_complete ---- *)
Lemma handle_completew n i ms d ws d1 o1 r :
  DJWc d ws -> WI ws -> d_active d <> [] -> PREW (QComplete n i ms) d ws ->
  d_handle (QComplete n i ms) d = (d1, o1, r) ->
  r = Ok tt /\ exists ws1, HEFFW (QComplete n i ms) d ws d1 ws1 o1.
Proof.
  intros (J0 & Jss) Iw Hact Hin H. pose proof J0 as [Els J Jb Jq Jg Jf]. pose proof Iw as (Ho & Inn & I3).
  cbn [PREW] in Hin.
  assert (Hcur : exists cur, aget n (ws_n2p ws) = Some cur /\ In i cur).
  { unfold bkw, alist_get in Hin. destruct (aget n (ws_n2p ws)) as [cur|]; [eauto|destruct Hin]. }
  destruct Hcur as (cur & Ecur & Hic). destruct (remove_first_in i cur Hic) as (cur' & Erf).
  cbn [d_handle] in H. unfold mbind at 1 in H. rewrite (sched_op_runw _ d ws Els) in H. cbn [s_step] in H.
  destruct (ws_mark_test_complete n i ws) as [[ws1 o2] r2] eqn:Em. cbn [lift] in H.
  pose proof (W8_mark_test_complete n i ws ws1 o2 r2 Em) as PW8.
  unfold ws_mark_test_complete in Em. rewrite mbind_get in Em. rewrite Ecur in Em. cbn [of_opt] in Em.
  rewrite mbind_ret in Em. rewrite Erf in Em. cbn [of_opt] in Em. rewrite mbind_ret, mbind_put in Em.
  set (mid := ws_set_n2p ws (aset n cur' (ws_n2p ws))) in *.
  assert (Hom : all_open (ws_nt mid)) by exact Ho.
  destruct (check_fullw _ _ _ _ Hom Em) as (-> & T & Qsd & Qk & Qf & _ & Ptok & Htail).
  unfold no_str, ret in H. inv H. rewrite app_nil_r. specialize (PW8 eq_refl).
  assert (Kk0 : akeys (ws_n2p mid) = akeys (ws_n2p ws)) by (eapply akeys_aset; eauto).
  assert (Eup0 : ws_up mid = ws_up ws) by (apply ws_up_ext; [exact Kk0|reflexivity|reflexivity]).
  assert (NDm : NoDup (wtokens mid)).
  { pose proof (wj_nd _ _ _ J) as ND. apply (Permutation_NoDup (Permutation_sym PW8)) in ND.
    inversion ND as [|x l Hn ND']; subst. eapply Permutation_NoDup; [exact Ptok|exact ND']. }
  assert (Hcoll : ws_coll ws <> None).
  { intros E. pose proof (wj_b0 _ _ _ J E) as B0. apply (in_bkw_books ws n i) in Hin. rewrite B0 in Hin. destruct Hin. }
  assert (Hcomp : ws_collection_is_completed ws = true) by (apply (wj_cc _ _ _ J); exact Hcoll).
  assert (Jm : LJWc mid).
  { constructor; try apply J.
    - unfold ws_nodes. rewrite Kk0. apply J.
    - unfold ws_nodes. rewrite Kk0. apply J.
    - intros v Hv. unfold ws_nodes. rewrite Kk0. apply (wj_st _ _ _ J). exact Hv.
    - exact NDm.
    - intros E. contradiction. }
  assert (Im : WI mid) by exact Iw.
  assert (J1 : LJWc ws1) by (eapply LJW_TW; eauto).
  destruct (tw_keeps _ _ _ T) as (Kc & Kn & Km & Kk).
  assert (Hc1 : ws_collection_is_completed ws1 = true).
  { unfold ws_collection_is_completed in *. rewrite Km, Kn. exact Hcomp. }
  assert (Ebm : forall m, bkw mid m = bookmidw (QComplete n i ms) m (bkw ws m)).
  { intros m. unfold bkw, mid. wsproj. cbn [bookmidw]. destruct (Nat.eqb m n) eqn:E.
    - apply Nat.eqb_eq in E. subst m. rewrite FifoProofs.alist_get_aset_eq. unfold alist_get. rewrite Ecur, Erf. reflexivity.
    - apply Nat.eqb_neq in E. apply FifoProofs.alist_get_aset_neq. exact E. }
  assert (Hlen : forall m, ws_len mid m <= ws_len ws m).
  { intros m. rewrite !ws_len_bkw, Ebm. cbn [bookmidw]. destruct (Nat.eqb m n); [|lia].
    destruct (remove_first i (bkw ws m)) as [b'|] eqn:E; [|lia].
    apply remove_first_perm in E. apply Permutation_length in E. cbn in E. lia. }
  split; [reflexivity|]. exists ws1. constructor.
  - constructor.
    + reflexivity.
    + exact J1.
    + dprj. unfold ws_nodes. rewrite Kk, Kk0. exact Jb.
    + dprj. intros Hsd Hsome. split; [exact Hc1|].
      destruct (some_sd_after _ _ _ T Hsome) as [Hs|Hs]; [|apply Qsd; exact Hs].
      apply Qk. destruct (Jq Hsd Hs) as (_ & Q1 & Q2 & Q3). split; [exact Q1|]. split; [exact Q2|].
      intros m Hm. rewrite Eup0 in Hm. specialize (Q3 m Hm). specialize (Hlen m). lia.
    + dprj. intros Hsd. specialize (Jf Hsd). rewrite <- Eup0 in Jf. destruct (Qf Jf) as (-> & _).
      destruct (Jg Hsd) as [X|X]; [left; exact X|right; exact X].
    + dprj. intros Hsd. specialize (Jf Hsd). rewrite <- Eup0 in Jf. destruct (Qf Jf) as (-> & _). exact Jf.
  - intros m. apply (tw_nt _ _ _ T m).
  - intros m. rewrite (tw_bk _ _ _ T m), Ebm. reflexivity.
  - intros m. cbn [unsev]. rewrite <- (tw_steal _ _ _ T m). unfold mid. wsproj. lia.
  - intros m Hm. left. unfold ws_nodes in *. rewrite Kk, Kk0 in Hm. exact Hm.
  - intros m Hm. left. rewrite Kn in Hm. exact Hm.
  - intros m Hm. left. exact Hm.
  - dprj. intros F. contradiction.
  - reflexivity.
  - dprj. auto.
  - exact Htail.
  - intros m E. discriminate.
Qed.

(* ---- the worker's `unscheduled` reply ---- *)
Lemma handle_unschedw n ixs d ws d1 o1 r :
  DJWc d ws -> WI ws -> d_active d <> [] -> PREW (QUnscheduled n ixs) d ws ->
  d_handle (QUnscheduled n ixs) d = (d1, o1, r) ->
  r = Ok tt /\ exists ws1, HEFFW (QUnscheduled n ixs) d ws d1 ws1 o1.
Proof.
  intros (J0 & Jss) Iw Hact (Hst & rest & Prest) H. pose proof J0 as [Els J Jb Jq Jg Jf].
  pose proof Iw as (Ho & Inn & I3).
  assert (Hnode : In n (ws_nodes ws)) by (apply (wj_st _ _ _ J); exact Hst).
  assert (Hcur : exists cur, aget n (ws_n2p ws) = Some cur).
  { apply LoadProofs.aget_In_keys in Hnode. destruct (aget n (ws_n2p ws)) as [cur|]; [eauto|congruence]. }
  destruct Hcur as (cur & Ecur). rewrite (bkw_some ws n cur Ecur) in Prest.
  assert (Hcoll : ws_coll ws <> None).
  { intros E. destruct (I3 E) as (_ & F). congruence. }
  assert (Hcomp : ws_collection_is_completed ws = true) by (apply (wj_cc _ _ _ J); exact Hcoll).
  cbn [d_handle] in H. unfold mbind at 1 in H. rewrite (sched_op_runw _ d ws Els) in H. cbn [s_step] in H.
  rewrite (W6_eq n ixs ws cur Hst Ecur) in H.
  set (mid := rp_mid n ixs ws cur) in *.
  destruct (ws_check_schedule mid) as [[ws1 o2] r2] eqn:Em. cbn [lift] in H.
  assert (Hom : all_open (ws_nt mid)) by exact Ho.
  destruct (check_fullw _ _ _ _ Hom Em) as (-> & T & Qsd & Qk & Qf & _ & Ptok & Htail).
  unfold no_str, ret in H. inv H. rewrite app_nil_r.
  assert (NDcur : NoDup cur) by (rewrite <- (bkw_some ws n cur Ecur); apply bkw_nodup; apply J).
  destruct (nodup_perm_disj ixs rest cur NDcur Prest) as (Hdisj & NDix & Hincl).
  pose proof (filter_withdraw ixs rest cur Prest Hdisj) as Pfil.
  assert (Kk0 : akeys (ws_n2p mid) = akeys (ws_n2p ws)) by (unfold mid, rp_mid; wsproj; eapply akeys_aset; eauto).
  assert (Eup0 : ws_up mid = ws_up ws) by (apply ws_up_ext; [exact Kk0|reflexivity|reflexivity]).
  assert (Ptm : Permutation (wtokens mid) (wtokens ws)).
  { unfold StealProofs.tokens, StealProofs.books, mid, rp_mid. wsproj.
    pose proof (books_aset n cur (filter (fun i => negb (mem_nat i ixs)) cur) _ Ecur) as P1.
    pose proof (books_adel n cur _ Ecur) as P2. perm_count. }
  assert (Jm : LJWc mid).
  { constructor; try apply J.
    - unfold ws_nodes. rewrite Kk0. apply J.
    - unfold ws_nodes. rewrite Kk0. apply J.
    - intros v Hv. discriminate Hv.
    - eapply Permutation_NoDup; [apply Permutation_sym; exact Ptm|apply J].
    - intros E. contradiction. }
  assert (Im : WI mid).
  { split; [exact Ho|]. split; [exact Inn|]. intros E. contradiction. }
  assert (J1 : LJWc ws1) by (eapply LJW_TW; eauto).
  destruct (tw_keeps _ _ _ T) as (Kc & Kn & Km & Kk).
  assert (Hc1 : ws_collection_is_completed ws1 = true).
  { unfold ws_collection_is_completed in *. rewrite Km, Kn. exact Hcomp. }
  assert (Ebm : forall m, bkw mid m = bookmidw (QUnscheduled n ixs) m (bkw ws m)).
  { intros m. unfold bkw, mid, rp_mid. wsproj. cbn [bookmidw]. destruct (Nat.eqb m n) eqn:E.
    - apply Nat.eqb_eq in E. subst m. rewrite FifoProofs.alist_get_aset_eq. unfold alist_get. rewrite Ecur. reflexivity.
    - apply Nat.eqb_neq in E. apply FifoProofs.alist_get_aset_neq. exact E. }
  split; [reflexivity|]. exists ws1. constructor.
  - constructor.
    + reflexivity.
    + exact J1.
    + dprj. unfold ws_nodes. rewrite Kk, Kk0. exact Jb.
    + dprj. intros Hsd Hsome. split; [exact Hc1|].
      destruct (some_sd_after _ _ _ T Hsome) as [Hs|Hs]; [|apply Qsd; exact Hs].
      exfalso. destruct (Jq Hsd Hs) as (_ & _ & Q2 & _). congruence.
    + dprj. intros Hsd. destruct (Jg Hsd) as [X|(_ & _ & X)]; [left; exact X|congruence].
    + dprj. intros Hsd. specialize (Jf Hsd). rewrite <- Eup0 in Jf. destruct (Qf Jf) as (-> & _). exact Jf.
  - intros m. apply (tw_nt _ _ _ T m).
  - intros m. rewrite (tw_bk _ _ _ T m), Ebm. reflexivity.
  - intros m. rewrite Hst. cbn [unsev cnt]. pose proof (tw_steal _ _ _ T m) as X. unfold mid, rp_mid in X. wsproj.
    cbn [cnt] in X. lia.
  - intros m Hm. left. unfold ws_nodes in *. rewrite Kk, Kk0 in Hm. exact Hm.
  - intros m Hm. left. rewrite Kn in Hm. exact Hm.
  - intros m Hm. left. exact Hm.
  - dprj. intros F. contradiction.
  - reflexivity.
  - dprj. auto.
  - exact Htail.
  - intros m E. discriminate.
Qed.

(* ---- workerfinished ---- *)
Lemma in_keys_adel {V} n v (m : amap V) : In v (akeys m) -> v <> n -> In v (akeys (adel n m)).
Proof.
  intros Hv Hne. apply LoadProofs.aget_In_keys. rewrite aget_adel_neq by exact Hne. apply LoadProofs.aget_In_keys. exact Hv.
Qed.

Lemma rn_mid_steal n ws rest : ws_steal ws <> Some n -> ws_steal (rn_mid n ws rest) = ws_steal ws.
Proof.
  intros H. unfold rn_mid. wsproj. destruct (ws_steal ws) as [m|]; [|reflexivity].
  destruct (Nat.eqb m n) eqn:E; [|reflexivity]. apply Nat.eqb_eq in E. congruence.
Qed.

Lemma rn_mid_completed n ws rest :
  ws_collection_is_completed ws = true -> ws_collection_is_completed (rn_mid n ws rest) = true /\
  ws_n2c (rn_mid n ws rest) = ws_n2c ws.
Proof.
  intros C. unfold rn_mid, ws_collection_is_completed in *. wsproj.
  change (ws_numnodes ws <=? length (ws_n2c ws)) with (ws_collection_is_completed ws).
  unfold ws_collection_is_completed. rewrite C. auto.
Qed.

Lemma active_filter_incl n l l' : incl l l' -> ~ In n l -> incl l (filter (fun m => negb (Nat.eqb m n)) l').
Proof. intros Hi Hn m Hm. apply in_filter_neq. split; [apply Hi; exact Hm|]. intros ->. contradiction. Qed.


(* workerfinished with a stop request: the controller's own session is to stop; the scheduler is not touched *)
Lemma handle_finished_stopw n d ws d1 o1 r :
  DJWc d ws -> WI ws -> d_active d <> [] -> PREW (QFinished n SKStop) d ws ->
  d_handle (QFinished n SKStop) d = (d1, o1, r) ->
  r = Ok tt /\ exists ws1, HEFFW (QFinished n SKStop) d ws d1 ws1 o1.
Proof.
  intros (J0 & Jss) Iw Hact Hpre H. pose proof J0 as [Els J Jb Jq Jg Jf]. cbn [PREW] in Hpre.
  cbn [d_handle] in H. unfold d_worker_workerfinished, hook in H. rewrite mbind_emit in H.
  assert (STEP : exists d2, (d0 <- get;; (if d_shouldstop d0 then ret tt else put (d_set_shouldstop d0 true))) d = (d2, [], Ok tt) /\
            d_sched d2 = d_sched d /\ d_shuttingdown d2 = d_shuttingdown d /\ d_active d2 = d_active d /\ d_shouldstop d2 = true).
  { rewrite mbind_get. destruct (d_shouldstop d) eqn:Ess.
    - exists d. auto.
    - eexists. split; [reflexivity|]. auto. }
  destruct STEP as (d2 & Erun & S1 & S2 & S3 & S4).
  unfold mbind at 1 in H. rewrite Erun in H.
  assert (Hina : In n (d_active d2)) by (rewrite S3; exact Hpre).
  rewrite (active_remove_run n d2 Hina) in H. inv H.
  split; [reflexivity|]. exists ws. constructor.
  - constructor.
    + dprj. rewrite S1. exact Els.
    + exact J.
    + dprj. rewrite S4. discriminate.
    + dprj. rewrite S2. exact Jq.
    + dprj. intros _. left. exact S4.
    + dprj. rewrite S2. exact Jf.
  - intros m. apply NRWo_refl.
  - intros m. cbn. rewrite app_nil_r. reflexivity.
  - intros m. cbn. unfold nstc. cbn. lia.
  - auto.
  - auto.
  - intros m Hm. dprj. destruct (Nat.eq_dec m n) as [->|Hne]; [right; eexists; reflexivity|].
    left. apply in_filter_neq. rewrite S3. split; assumption.
  - dprj. intros _. right. right. exact S4.
  - dprj. exact S2.
  - dprj. intros _. exact S4.
  - apply STAIL_hook, STAIL_nil.
  - intros m _. dprj. exact S4.
Qed.

Lemma handle_finishedw n sk d ws d1 o1 r :
  DJWc d ws -> WI ws -> d_active d <> [] -> PREW (QFinished n sk) d ws ->
  d_handle (QFinished n sk) d = (d1, o1, r) ->
  r = Ok tt /\ exists ws1, HEFFW (QFinished n sk) d ws d1 ws1 o1.
Proof.
  intros DJd0 Iw Hact Hpre H.
  destruct sk; [|exact (handle_finished_stopw n d ws d1 o1 r DJd0 Iw Hact Hpre H)|cbn [PREW] in Hpre; contradiction].
  destruct DJd0 as (J0 & Jss). pose proof J0 as [Els J Jb Jq Jg Jf]. pose proof Iw as (Ho & (Inn1 & Inn2) & I3).
  cbn [d_handle] in H. unfold d_worker_workerfinished, hook in H. rewrite mbind_emit in H.
  cbn [PREW] in Hpre.
  destruct Hpre as (Hina & Hbook & (f & Ef & Hsdn) & Hstn).
  rewrite mbind_get in H. rewrite Els in H. cbn [s_nodes] in H.
  assert (Hsome : some_sd ws) by (exists n, f; auto).
  (* the scheduler part *)
  assert (STEP : exists ws1 o2,
    ((if mem_nat n (ws_nodes ws)
      then r0 <- d_sched_op (SRemove n);; massert match r0 with Some s0 => (s0 =? "")%string | None => true end
      else ret tt) d) = (d_set_sched d (StW ws1), o2, Ok tt) /\
    LJWc ws1 /\
    (forall m, NRWo (aget m (ws_nt ws)) (cmds_to m o2) (aget m (ws_nt ws1))) /\
    (forall m, bkw ws1 m = bkw ws m ++ flat_map cmd_inds (cmds_to m o2)) /\
    (forall m, cnt (ws_steal ws) m + nstc (cmds_to m o2) = cnt (ws_steal ws1) m) /\
    (forall m, In m (ws_nodes ws1) -> In m (ws_nodes ws) /\ m <> n) /\
    (forall m, In m (akeys (ws_n2c ws1)) -> In m (akeys (ws_n2c ws))) /\
    (ws_collection_is_completed ws = true -> ws_collection_is_completed ws1 = true) /\
    (QW ws -> ws_collection_is_completed ws = true -> QW ws1) /\
    (ws_up ws = [] -> ws_up ws1 = [] /\ ws_pending ws1 = ws_pending ws /\ ws_steal ws1 = ws_steal ws) /\
    STAIL ws1 o2).
  { destruct (mem_nat n (ws_nodes ws)) eqn:Emem.
    - apply StealProofs.mem_nat_In in Emem. specialize (Hbook Emem).
      set (mid := rn_mid n ws []).
      destruct (ws_check_schedule mid) as [[ws1 o2] r2] eqn:Em.
      assert (Hom : all_open (ws_nt mid)) by exact Ho.
      destruct (check_fullw _ _ _ _ Hom Em) as (-> & T & Qsd & Qk & Qf & _ & Ptok & Htail).
      exists ws1, o2.
      assert (Est : ws_steal mid = ws_steal ws) by (apply rn_mid_steal; exact Hstn).
      assert (Ep : ws_pending mid = ws_pending ws) by (unfold mid, rn_mid; wsproj; apply app_nil_r).
      assert (Pb : Permutation (wbooks ws) (wbooks mid)).
      { unfold StealProofs.books, mid, rn_mid. wsproj. exact (books_adel n [] _ Hbook). }
      assert (Hn2c : forall x, In x (ws_n2c mid) -> In x (ws_n2c ws)).
      { intros x. unfold mid, rn_mid. wsproj. destruct (ws_collection_is_completed ws); [auto|]. apply in_adel. }
      assert (Hn2ck : forall m, In m (akeys (ws_n2c mid)) -> In m (akeys (ws_n2c ws))).
      { intros m. unfold mid, rn_mid. wsproj. destruct (ws_collection_is_completed ws); [auto|]. apply StealProofs.adel_keys_incl. }
      assert (Hnodes : forall m, In m (ws_nodes mid) -> In m (ws_nodes ws) /\ m <> n).
      { intros m Hm. unfold ws_nodes, mid, rn_mid in Hm. wsproj. split; [eapply StealProofs.adel_keys_incl; eauto|].
        intros ->. exact (StealProofs.adel_not_key _ _ (wj_wf _ _ _ J) Hm). }
      assert (Hcompm : ws_collection_is_completed ws = true -> ws_collection_is_completed mid = true).
      { intros C. apply (rn_mid_completed n ws [] C). }
      assert (Jm : LJWc mid).
      { constructor.
        - apply J.
        - apply J.
        - intros m Hm. apply (wj_nodes _ _ _ J). apply Hnodes. exact Hm.
        - unfold ws_nodes, mid, rn_mid. wsproj. apply keys_nodup_adel. apply J.
        - intros m Hm. apply (wj_n2c _ _ _ J). apply Hn2ck. exact Hm.
        - unfold mid, rn_mid. wsproj. destruct (ws_collection_is_completed ws); [apply J|apply keys_nodup_adel; apply J].
        - intros Hc. apply Hcompm. apply (wj_cc _ _ _ J). exact Hc.
        - destruct (wj_lg _ _ _ J) as (G1 & G3). split.
          + intros k ids Hin. apply G1. apply Hn2c. exact Hin.
          + intros X HX C1. change (ws_coll mid) with (ws_coll ws).
            destruct (ws_collection_is_completed ws) eqn:C0.
            * destruct (rn_mid_completed n ws [] C0) as (_ & En). fold mid in En. rewrite En in HX. apply G3; auto.
            * exfalso. unfold ws_collection_is_completed in C0, C1. unfold mid, rn_mid in C1. wsproj.
              change (ws_numnodes ws <=? length (ws_n2c ws)) with (ws_collection_is_completed ws) in C1.
              unfold ws_collection_is_completed in C1. rewrite C0 in C1.
              apply Nat.leb_le in C1. apply Nat.leb_gt in C0. pose proof (length_adel_le n (ws_n2c ws)). lia.
        - intros v Hv. rewrite Est in Hv. unfold ws_nodes, mid, rn_mid. wsproj.
          apply in_keys_adel; [apply (wj_st _ _ _ J); exact Hv|]. intros ->. contradiction.
        - unfold StealProofs.tokens. rewrite Ep, <- Pb. apply J.
        - intros Ec. apply Permutation_nil. rewrite <- Pb. rewrite (wj_b0 _ _ _ J Ec). reflexivity. }
      assert (Im : WI mid).
      { split; [exact Ho|]. split; [split; [exact Inn1|intros k ids Hk; apply (Inn2 k ids); apply Hn2c; exact Hk]|].
        rewrite Ep, Est. exact I3. }
      assert (J1 : LJWc ws1) by (eapply LJW_TW; eauto).
      destruct (tw_keeps _ _ _ T) as (Kc & Kn & Km & Kk).
      assert (Ebm : forall m, bkw mid m = bkw ws m).
      { intros m. unfold bkw, mid, rn_mid. wsproj. destruct (Nat.eq_dec m n) as [->|Hm].
        - rewrite (alist_get_none [] n _ (aget_adel_eq n _ (wj_wf _ _ _ J))).
          unfold alist_get. rewrite Hbook. reflexivity.
        - unfold alist_get. rewrite aget_adel_neq by exact Hm. reflexivity. }
      assert (Hupm : incl (ws_up mid) (ws_up ws)).
      { intros m Hm. apply ws_up_spec in Hm. destruct Hm as (H1 & c & Ec & Hs & Hc). apply ws_up_spec.
        split; [apply Hnodes; exact H1|]. exists c. split; [exact Ec|]. split; [exact Hs|].
        unfold mid, rn_mid in Hc. wsproj. destruct (ws_collection_is_completed ws); [exact Hc|eapply ahas_adel; eauto]. }
      split.
      { unfold mbind. rewrite (sched_op_runw _ d ws Els). cbn [s_step]. rewrite (W7_eq_idle n ws Hbook).
        fold mid. rewrite Em. cbn [lift]. unfold massert, ret. rewrite app_nil_r. reflexivity. }
      split; [exact J1|]. split; [exact (tw_nt _ _ _ T)|].
      split. { intros m. rewrite (tw_bk _ _ _ T m), Ebm. reflexivity. }
      split. { intros m. rewrite <- (tw_steal _ _ _ T m), Est. reflexivity. }
      split. { intros m Hm. apply Hnodes. unfold ws_nodes in *. rewrite Kk in Hm. exact Hm. }
      split. { intros m Hm. apply Hn2ck. rewrite Kn in Hm. exact Hm. }
      split. { intros C. unfold ws_collection_is_completed. rewrite Km, Kn. apply Hcompm. exact C. }
      split.
      { intros (Q1 & Q2 & Q3) C. apply Qk. split; [congruence|]. split; [congruence|].
        intros m Hm. rewrite ws_len_bkw, Ebm, <- ws_len_bkw. apply Q3. apply Hupm. exact Hm. }
      split; [|exact Htail].
      intros Hu. assert (Hum : ws_up mid = []).
      { destruct (ws_up mid) as [|m l]; [reflexivity|]. exfalso. specialize (Hupm m (or_introl eq_refl)).
        rewrite Hu in Hupm. exact Hupm. }
      destruct (Qf Hum) as (-> & _). split; [exact Hum|]. split; [exact Ep|exact Est].
    - apply WorkerProofs.mem_nat_false in Emem. exists ws, []. split; [rewrite d_set_sched_same by exact Els; reflexivity|].
      split; [exact J|]. split; [intros m; apply NRWo_refl|]. split; [intros m; cbn; rewrite app_nil_r; reflexivity|].
      split; [intros m; unfold nstc; cbn; lia|]. split; [intros m Hm; split; [exact Hm|intros ->; contradiction]|].
      split; [auto|]. split; [auto|]. split; [auto|]. split; [auto|apply STAIL_nil]. }
  destruct STEP as (ws1 & o2 & Erun & J1 & Tnt & Tbk & Tst & Fnodes & Fn2c & Fcomp & FQ & Ffz & Htl).
  unfold mbind at 1 in H. rewrite Erun in H.
  rewrite (active_remove_run n (d_set_sched d (StW ws1)) Hina) in H. inv H. rewrite app_nil_r.
  split; [reflexivity|]. exists ws1.
  assert (C : forall m, cmds_to m (OHook (HNodeDown n false) :: o2) = cmds_to m o2) by reflexivity.
  assert (HB : d_shuttingdown d = false -> d_shouldstop d = false ->
               incl (ws_nodes ws1) (filter (fun m => negb (Nat.eqb m n)) (d_active d))).
  { intros Hs1 Hs2 m Hm. destruct (Fnodes m Hm) as (Hm1 & Hm2). apply in_filter_neq. split; [|exact Hm2].
    apply (Jb Hs1 Hs2). exact Hm1. }
  constructor.
  - constructor.
    + reflexivity.
    + exact J1.
    + dprj. exact HB.
    + dprj. intros Hsd _. destruct (Jq Hsd Hsome) as (Cc & Q). split; [apply Fcomp; exact Cc|apply FQ; assumption].
    + dprj. intros Hsd. destruct (Ffz (Jf Hsd)) as (_ & Ep & Es). rewrite Ep, Es.
      destruct (Jg Hsd) as [X|(Cc & X)]; [left; exact X|right; split; [apply Fcomp; exact Cc|exact X]].
    + dprj. intros Hsd. apply (Ffz (Jf Hsd)).
  - intros m. rewrite C. apply Tnt.
  - intros m. rewrite C. cbn [bookmidw]. apply Tbk.
  - intros m. rewrite C. cbn [unsev]. rewrite (Tst m). lia.
  - intros m Hm. left. apply Fnodes. exact Hm.
  - intros m Hm. left. apply Fn2c. exact Hm.
  - intros m Hm. dprj. destruct (Nat.eq_dec m n) as [->|Hne]; [right; eexists; reflexivity|].
    left. apply in_filter_neq. split; assumption.
  - dprj. intros Hempty. destruct (d_shuttingdown d) eqn:Esd; [left; reflexivity|].
    destruct (d_shouldstop d) eqn:Ess; [right; right; reflexivity|]. right. left.
    destruct (Jq eq_refl Hsome) as (Cc & Q). destruct (FQ Q Cc) as (Q1 & Q2 & _).
    specialize (HB eq_refl eq_refl). rewrite Hempty in HB.
    assert (En : ws_n2p ws1 = []).
    { destruct (ws_n2p ws1) as [|[k v] rest] eqn:E; [reflexivity|]. exfalso.
      apply (HB k). unfold ws_nodes. rewrite E. left. reflexivity. }
    unfold ws_tests_finished. rewrite (Fcomp Cc), Q1, Q2, En. reflexivity.
  - reflexivity.
  - dprj. auto.
  - apply STAIL_hook. exact Htl.
  - intros m E. discriminate.
Qed.

End HandlersW.

(* ====================================================================================== *)
(* Part C.3: collectionfinish / schedule(); one iteration of the controller loop *)
(* ====================================================================================== *)

Lemma mfor_colldiff_quietw first col others (s s' : wsstate) o r :
  mfor others (fun p : nat * list string =>
                 if coll_eqb col (snd p) then ret tt else emit (OCollDiff first (fst p))) s = (s', o, r) ->
  s' = s /\ r = Ok tt /\ forall n, cmds_to n o = [].
Proof.
  revert s s' o r. induction others as [|p others IH]; intros s s' o r H.
  - cbn in H. unfold ret in H. inv H. auto.
  - cbn [mfor] in H. apply LoadProofs.mbind_inv in H.
    destruct H as [(e & H1 & ->)|(s1 & o1 & a & o2 & H1 & H2 & ->)].
    + destruct (coll_eqb col (snd p)); unfold ret, emit in H1; inv H1.
    + destruct (IH _ _ _ _ H2) as (-> & -> & C2).
      destruct (coll_eqb col (snd p)); unfold ret, emit in H1; inv H1; (split; [reflexivity|split; [reflexivity|]]);
        intros n; rewrite cmds_to_app, C2; reflexivity.
Qed.

Lemma same_collection_quietw s s' o r :
  ws_n2c s <> [] -> ws_same_collection s = (s', o, r) ->
  s' = s /\ (forall n, cmds_to n o = []) /\
  exists first col others, ws_n2c s = (first, col) :: others /\
    r = Ok (forallb (fun p => coll_eqb col (snd p)) others).
Proof.
  intros Hne H. unfold ws_same_collection in H.
  apply LoadProofs.mbind_inv in H. destruct H as [(e & H & _)|(t1 & p1 & a & p2 & Hg & H & ->)].
  { unfold get in H. inv H. }
  unfold get in Hg. injection Hg as <- <- <-. cbn [app].
  destruct (ws_n2c s) as [|[first col] others]; [congruence|].
  apply LoadProofs.mbind_inv in H. destruct H as [(e & H & _)|(t3 & p3 & a & p4 & H1 & H & ->)].
  - apply mfor_colldiff_quietw in H. destruct H as (_ & F & _). discriminate.
  - apply mfor_colldiff_quietw in H1. destruct H1 as (-> & _ & C). unfold ret in H. inv H.
    split; [reflexivity|]. split; [|exists first, col, others; split; reflexivity].
    intros n. rewrite cmds_to_app, C. reflexivity.
Qed.

(* the first (and only) call of schedule() *)
Lemma schedule_firstw ws ws' o r :
  all_open (ws_nt ws) -> ws_coll ws = None -> ws_pending ws = [] -> ws_steal ws = None -> wbooks ws = [] ->
  ws_collection_is_completed ws = true -> ws_n2c ws <> [] ->
  ws_schedule ws = (ws', o, r) ->
  r = Ok tt /\
  (forall n, NRWo (aget n (ws_nt ws)) (cmds_to n o) (aget n (ws_nt ws'))) /\
  (forall n, bkw ws' n = bkw ws n ++ flat_map cmd_inds (cmds_to n o)) /\
  akeys (ws_n2p ws') = akeys (ws_n2p ws) /\ ws_n2c ws' = ws_n2c ws /\ ws_numnodes ws' = ws_numnodes ws /\
  (forall n, nstc (cmds_to n o) = cnt (ws_steal ws') n) /\
  (forall v, ws_steal ws' = Some v -> In v (akeys (ws_n2p ws))) /\
  (has_sd o -> QW ws') /\
  NoDup (wtokens ws') /\
  (ws_coll ws' = None -> ws' = ws /\ forall n, cmds_to n o = []) /\
  (forall X, (forall k ids, In (k, ids) (ws_n2c ws) -> ids = X) -> ws_coll ws' = Some X) /\
  STAIL ws' o.
Proof.
  intros Ho Ec Ep Est Eb Hcomp Hn2c H. unfold ws_schedule in H.
  rewrite mbind_get in H. rewrite Hcomp in H. unfold massert in H. rewrite mbind_ret in H. rewrite Ec in H.
  unfold mbind at 1 in H. destruct (ws_same_collection ws) as [[t2 p2] r2] eqn:Es.
  apply (same_collection_quietw _ _ _ _ Hn2c) in Es. destruct Es as (-> & C2 & (f0 & c0 & ot0 & En0 & ->)).
  set (same := forallb (fun p => coll_eqb c0 (snd p)) ot0) in *.
  assert (ALLEQ : forall X, (forall k ids, In (k, ids) (ws_n2c ws) -> ids = X) -> same = true /\ c0 = X).
  { intros X HX. rewrite En0 in HX. split; [|apply (HX f0); left; reflexivity].
    apply forallb_forall. intros [k ids] Hin. cbn [snd].
    rewrite (HX f0 c0 (or_introl eq_refl)), (HX k ids (or_intror Hin)). apply coll_eqb_refl. }
  assert (TOK0 : wtokens ws = []) by (unfold StealProofs.tokens; rewrite Ep, Eb; reflexivity).
  destruct same eqn:Esame; cbn [negb] in H.
  2:{ unfold ret in H. inv H. rewrite app_nil_r. split; [reflexivity|].
      split; [intros n; rewrite C2; apply NRWo_refl|].
      split; [intros n; rewrite C2; cbn; rewrite app_nil_r; reflexivity|].
      split; [reflexivity|]. split; [reflexivity|]. split; [reflexivity|].
      split; [intros n; rewrite C2, Est; reflexivity|].
      split; [intros v E; congruence|].
      split; [intros (n & Hin); rewrite C2 in Hin; destruct Hin|].
      split; [rewrite TOK0; constructor|].
      split; [intros _; split; [reflexivity|exact C2]|].
      split; [intros X HX; destruct (ALLEQ X HX) as (F & _); discriminate|].
      apply STAIL_nosteal. intros v. rewrite C2. reflexivity. }
  rewrite mbind_get in H. rewrite En0 in H. cbn [of_opt] in H. rewrite mbind_ret, mbind_put in H.
  set (mid := ws_set_pending (ws_set_coll ws (Some c0)) (seq 0 (length c0))) in *.
  assert (MID : forall ws' o2, (mid, @nil out, Ok tt) = (ws', o2, r) \/
                  (c0 <> [] /\ ws_check_schedule mid = (ws', o2, r)) ->
     r = Ok tt /\
     (forall n, NRWo (aget n (ws_nt ws)) (cmds_to n o2) (aget n (ws_nt ws'))) /\
     (forall n, bkw ws' n = bkw ws n ++ flat_map cmd_inds (cmds_to n o2)) /\
     akeys (ws_n2p ws') = akeys (ws_n2p ws) /\ ws_n2c ws' = ws_n2c ws /\ ws_numnodes ws' = ws_numnodes ws /\
     (forall n, nstc (cmds_to n o2) = cnt (ws_steal ws') n) /\
     (forall v, ws_steal ws' = Some v -> In v (akeys (ws_n2p ws))) /\
     (has_sd o2 -> QW ws') /\
     NoDup (wtokens ws') /\ ws_coll ws' = Some c0 /\ STAIL ws' o2).
  { intros ws2 o2 [E|(Hne & E)].
    - inv E. unfold mid. wsproj. split; [reflexivity|].
      split; [intros n; apply NRWo_refl|]. split; [intros n; cbn; rewrite app_nil_r; reflexivity|].
      split; [reflexivity|]. split; [reflexivity|]. split; [reflexivity|].
      split; [intros n; rewrite Est; reflexivity|]. split; [intros v E; congruence|].
      split; [intros (n & [])|]. split; [|split; [reflexivity|apply STAIL_nil]].
      unfold StealProofs.tokens, StealProofs.books. wsproj. fold (wbooks ws). rewrite Eb, app_nil_r. apply seq_NoDup.
    - assert (Hom : all_open (ws_nt mid)) by exact Ho.
      destruct (check_fullw _ _ _ _ Hom E) as (-> & T & Qsd & _ & _ & _ & Ptok & Htl).
      destruct (tw_keeps _ _ _ T) as (Kc & Kn & Km & Kk).
      split; [reflexivity|]. split; [exact (tw_nt _ _ _ T)|]. split; [exact (tw_bk _ _ _ T)|].
      split; [exact Kk|]. split; [exact Kn|]. split; [exact Km|].
      split. { intros n. rewrite <- (tw_steal _ _ _ T n). unfold mid. wsproj. rewrite Est. reflexivity. }
      split. { intros v Hv. destruct (tw_stin _ _ _ T v Hv) as [X|X]; [unfold mid in X; wsproj; congruence|exact X]. }
      split; [exact Qsd|]. split; [|split; [rewrite Kc; reflexivity|exact Htl]].
      eapply Permutation_NoDup; [apply Permutation_sym; exact Ptok|].
      unfold StealProofs.tokens, StealProofs.books, mid. wsproj. fold (wbooks ws). rewrite Eb, app_nil_r. apply seq_NoDup. }
  assert (FIN : forall ws2 o2, (ws2, o2, r) = (ws', o, r) -> False -> True) by auto. clear FIN.
  destruct c0 as [|x c].
  - unfold ret in H. inv H. rewrite app_nil_r.
    destruct (MID mid [] (or_introl eq_refl)) as (_ & A & B & C & D & E & F & G & I & K & L & TL).
    split; [reflexivity|].
    split; [intros n; rewrite C2; apply NRWo_refl|].
    split; [intros n; rewrite C2; cbn; rewrite app_nil_r; reflexivity|].
    split; [exact C|]. split; [exact D|]. split; [exact E|].
    split; [intros n; rewrite C2; unfold mid; wsproj; rewrite Est; reflexivity|].
    split; [exact G|]. split; [intros (n & Hin); rewrite C2 in Hin; destruct Hin|].
    split; [exact K|]. split; [intros F0; rewrite L in F0; discriminate|].
    split; [intros X HX; destruct (ALLEQ X HX) as (_ & <-); exact L|].
    apply STAIL_nosteal. intros v. rewrite C2. reflexivity.
  - set (chk := ws_check_schedule) in MID.
    destruct (ws_check_schedule mid) as [[ws2 o2] r2] eqn:Ech. inv H. subst chk.
    assert (Hx : x :: c <> []) by discriminate.
    destruct (MID ws' o2 (or_intror (conj Hx Ech))) as (-> & A & B & C & D & E & F & G & I & K & L & TL).
    assert (CT : forall n, cmds_to n (p2 ++ o2) = cmds_to n o2) by (intros n; rewrite cmds_to_app, C2; reflexivity).
    split; [reflexivity|].
    split; [intros n; rewrite CT; apply A|]. split; [intros n; rewrite CT; apply B|].
    split; [exact C|]. split; [exact D|]. split; [exact E|].
    split; [intros n; rewrite CT; apply F|]. split; [exact G|].
    split; [intros (n & Hin); rewrite CT in Hin; apply I; exists n; exact Hin|].
    split; [exact K|]. split; [intros F0; rewrite L in F0; discriminate|].
    split; [intros X HX; destruct (ALLEQ X HX) as (_ & <-); exact L|].
    apply STAIL_app_quiet; [exact C2|exact TL].
Qed.

Section LoopW.
Variable N : nat.
Variable collf : nat -> list string.
Notation LJWc := (LJW N collf).
Notation DJW0c := (DJW0 N collf).
Notation DJWc := (DJW N collf).
Notation HEFFWc := (HEFFW N collf).
Notation PREWc := (PREW N collf).

Ltac dprj := cbn [d_sched d_shuttingdown d_shouldstop d_active d_countfailures d_maxfail d_failed_nodes
  d_max_restart d_collect_seen d_next_gw d_requeue d_set_sched d_set_active d_set_shouldstop
  d_set_shuttingdown d_set_countfailures d_set_collect_seen d_withw].

Lemma add_coll_runw n ids ws :
  aget n (ws_n2p ws) <> None -> ws_collection_is_completed ws = false ->
  ws_add_node_collection n ids ws = (ws_set_n2c ws (aset n ids (ws_n2c ws)), [], Ok tt).
Proof.
  intros Hp Hc. unfold ws_add_node_collection. rewrite mbind_get. unfold massert, ahas.
  destruct (aget n (ws_n2p ws)); [|congruence]. rewrite mbind_ret, Hc. reflexivity.
Qed.

(* ---- collectionfinish ---- *)
Lemma handle_collfinishw n ids d ws d1 o1 r :
  DJWc d ws -> WI ws -> d_active d <> [] -> PREWc (QCollFinish n ids) d ws ->
  d_handle (QCollFinish n ids) d = (d1, o1, r) ->
  r = Ok tt /\ exists ws1, HEFFWc (QCollFinish n ids) d ws d1 ws1 o1.
Proof.
  intros DJd Iw Hact (HnN & Hnew & Hids) H. pose proof DJd as (J0 & Jss). pose proof J0 as [Els J Jb Jq Jg Jf].
  pose proof Iw as (Ho & _ & I3).
  assert (SAME : forall x, (d, @nil out, x) = (d1, o1, r) -> x = Ok tt ->
                 r = Ok tt /\ exists ws1, HEFFWc (QCollFinish n ids) d ws d1 ws1 o1).
  { intros x E Ex. inv E. split; [reflexivity|]. exists ws. apply heff_samew; auto.
    - unfold same_ctl. auto.
    - intros m b E. discriminate. }
  cbn [d_handle] in H. rewrite mbind_get in H.
  destruct (d_shuttingdown d) eqn:Esd; [eapply SAME; [exact H|reflexivity]|].
  rewrite Els in H. cbn [s_nodes] in H.
  destruct (mem_nat n (ws_nodes ws)) eqn:Em; cbn [negb] in H; [|eapply SAME; [exact H|reflexivity]].
  clear SAME. apply StealProofs.mem_nat_In in Em.
  assert (Hp : aget n (ws_n2p ws) <> None) by (apply LoadProofs.aget_In_keys; exact Em).
  assert (Hc : ws_collection_is_completed ws = false) by (eapply completed_pigeonw; eauto).
  assert (Ecoll : ws_coll ws = None).
  { destruct (ws_coll ws) eqn:E; [|reflexivity]. rewrite (wj_cc _ _ _ J) in Hc; [discriminate|]. rewrite E. discriminate. }
  destruct (I3 Ecoll) as (Ep0 & Est0). pose proof (wj_b0 _ _ _ J Ecoll) as Eb0.
  assert (NOSD : ~ some_sd ws).
  { intros Hs. destruct (Jq eq_refl Hs) as (C & _). congruence. }
  unfold hook in H. rewrite mbind_emit in H. unfold mbind at 1 in H.
  rewrite (sched_op_runw _ d ws Els) in H. cbn [s_step] in H. rewrite (add_coll_runw n ids ws Hp Hc) in H.
  cbn [lift] in H. set (lsa := ws_set_n2c ws (aset n ids (ws_n2c ws))) in *.
  rewrite mbind_get in H. cbn [d_sched d_set_sched s_collection_is_completed app] in H.
  assert (IDS : forall k x, In (k, x) (ws_n2c lsa) -> x = collf k).
  { intros k x Hin. unfold lsa in Hin. wsproj. apply in_aset in Hin.
    destruct Hin as [(-> & ->)|Hin]; [exact Hids|]. apply (proj1 (wj_lg _ _ _ J)). exact Hin. }
  assert (N2Ck : forall m, In m (akeys (ws_n2c lsa)) -> m < N).
  { intros m Hm. apply akeys_aset_cases in Hm. destruct Hm as [->|Hm]; [exact HnN|apply (wj_n2c _ _ _ J); exact Hm]. }
  assert (N2Cnd : NoDup (akeys (ws_n2c lsa))) by (apply akeys_aset_nodup; apply J).
  assert (N2C : forall m, In m (akeys (ws_n2c lsa)) -> In m (akeys (ws_n2c ws)) \/ ev_xsig (QCollFinish n ids) = Some (m, XCF)).
  { intros m Hm. apply akeys_aset_cases in Hm. destruct Hm as [->|Hm]; [right; reflexivity|left; exact Hm]. }
  destruct (ws_collection_is_completed lsa) eqn:Eca.
  - (* the last collection: schedule() *)
    unfold mbind at 1 in H. rewrite (sched_op_runw _ (d_set_sched d (StW lsa)) lsa eq_refl) in H. cbn [s_step] in H.
    destruct (ws_schedule lsa) as [[ws1 o2] r2] eqn:Es. cbn [lift] in H.
    assert (Hn2c : ws_n2c lsa <> []).
    { unfold lsa. wsproj. destruct (ws_n2c ws) as [|[k v] rr]; cbn; [discriminate|].
      destruct (Nat.eqb n k); discriminate. }
    destruct (schedule_firstw lsa ws1 o2 r2 Ho Ecoll Ep0 Est0 Eb0 Eca Hn2c Es)
      as (-> & Tnt & Tbk & Tk & Tn2c & Tnum & Tst & Tstin & Tsd & Tnd & Tnone & Tcoll & Ttl).
    unfold no_str, ret in H. inv H. rewrite app_nil_r.
    assert (C : forall m, cmds_to m (OHook (HCollFinished n) :: o2) = cmds_to m o2) by reflexivity.
    assert (Hc1 : ws_collection_is_completed ws1 = true).
    { unfold ws_collection_is_completed in *. rewrite Tnum, Tn2c. exact Eca. }
    split; [reflexivity|]. exists ws1. constructor.
    + constructor.
      * reflexivity.
      * constructor.
        -- rewrite Tnum. exact (wj_num _ _ _ J).
        -- intros m. rewrite (NRWo_keys _ _ _ (Tnt m)). apply (wj_ntk _ _ _ J).
        -- unfold ws_nodes. rewrite Tk. exact (wj_nodes _ _ _ J).
        -- unfold ws_nodes. rewrite Tk. exact (wj_wf _ _ _ J).
        -- rewrite Tn2c. exact N2Ck.
        -- rewrite Tn2c. exact N2Cnd.
        -- intros _. exact Hc1.
        -- split; [rewrite Tn2c; exact IDS|]. intros X HX _. apply Tcoll. rewrite <- Tn2c. exact HX.
        -- intros v Hv. unfold ws_nodes. rewrite Tk. apply Tstin. exact Hv.
        -- exact Tnd.
        -- intros E. destruct (Tnone E) as (-> & _). exact Eb0.
      * dprj. unfold ws_nodes. rewrite Tk. intros _. exact (Jb eq_refl).
      * dprj. intros _ (k & f' & Ef' & Hs). split; [exact Hc1|].
        destruct (NRWo_open _ _ _ _ (Tnt k) Ef') as (f & Ef & R).
        destruct (NRW_fields _ _ _ R) as (_ & _ & _ & D & _). apply D in Hs. destruct Hs as [Hs|Hs].
        -- exfalso. apply NOSD. exists k, f. auto.
        -- apply Tsd. exists k. exact Hs.
      * dprj. rewrite Esd. discriminate.
      * dprj. rewrite Esd. discriminate.
    + intros m. rewrite C. apply Tnt.
    + intros m. rewrite C. cbn [bookmidw]. apply Tbk.
    + intros m. rewrite C. cbn [unsev]. rewrite Est0, Tst. cbn [cnt]. lia.
    + intros m Hm. left. unfold ws_nodes in *. rewrite Tk in Hm. exact Hm.
    + intros m Hm. rewrite Tn2c in Hm. apply N2C. exact Hm.
    + intros m Hm. left. exact Hm.
    + dprj. intros F. contradiction.
    + reflexivity.
    + dprj. auto.
    + apply STAIL_hook. exact Ttl.
    + intros m E. discriminate.
  - (* not the last one *)
    unfold ret in H. inv H.
    split; [reflexivity|]. exists lsa. constructor.
    + constructor; [reflexivity| |dprj; intros _; exact (Jb eq_refl)| |dprj; rewrite Esd; discriminate|dprj; rewrite Esd; discriminate].
      * constructor; [exact (wj_num _ _ _ J)|exact (wj_ntk _ _ _ J)|exact (wj_nodes _ _ _ J)|exact (wj_wf _ _ _ J)|exact N2Ck|exact N2Cnd
                      | | |exact (wj_st _ _ _ J)|exact (wj_nd _ _ _ J)|exact (wj_b0 _ _ _ J)].
        -- intros F. exfalso. apply F. exact Ecoll.
        -- split; [exact IDS|]. intros X _ C0. congruence.
      * dprj. intros _ Hs. exfalso. apply NOSD. exact Hs.
    + intros m. apply NRWo_refl.
    + intros m. cbn. rewrite app_nil_r. reflexivity.
    + intros m. cbn. unfold nstc. cbn. lia.
    + intros m Hm. left. exact Hm.
    + exact N2C.
    + intros m Hm. left. exact Hm.
    + dprj. intros F. contradiction.
    + reflexivity.
    + dprj. auto.
    + apply STAIL_hook, STAIL_nil.
    + intros m E. discriminate.
Qed.

Theorem handle_effw ev d ws d1 o1 r :
  DJWc d ws -> WI ws -> d_active d <> [] -> PREWc ev d ws ->
  d_handle ev d = (d1, o1, r) -> r = Ok tt /\ exists ws1, HEFFWc ev d ws d1 ws1 o1.
Proof.
  intros DJd Iw Hact Hpre H.
  assert (QUIET : match ev with
                  | QLogStart _ _ | QLogFinish _ _ | QWarning | QReport _ _ _ _ | QCollectReport _ _ _ => True
                  | _ => False end -> r = Ok tt /\ exists ws1, HEFFWc ev d ws d1 ws1 o1).
  { intros Hq. destruct (handle_quiet ev d d1 o1 r Hq H) as (-> & S & C). split; [reflexivity|]. exists ws.
    apply heff_samew; auto; destruct ev; try contradiction; try reflexivity; intros m b E; discriminate. }
  destruct ev; try (apply QUIET; exact Logic.I); try (cbn in Hpre; contradiction).
  - eapply handle_readyw; eauto.
  - eapply handle_collfinishw; eauto.
  - eapply handle_completew; eauto.
  - eapply handle_unschedw; eauto.
  - eapply handle_finishedw; eauto.
Qed.

Record LEFFW (ev : cevent) (d : dstate) (ws : wsstate) (d' : dstate) (ws' : wsstate) (o : list out) : Prop := {
  lw_dj : DJWc d' ws';
  lw_nt : forall m, NRWo (aget m (ws_nt ws)) (cmds_to m o) (aget m (ws_nt ws'));
  lw_bk : forall m, bkw ws' m = bookmidw ev m (bkw ws m) ++ flat_map cmd_inds (cmds_to m o);
  lw_steal : forall m, cnt (ws_steal ws) m + nstc (cmds_to m o) = cnt (ws_steal ws') m + unsev ev m;
  lw_nodes : forall m, In m (ws_nodes ws') -> In m (ws_nodes ws) \/ ev_xsig ev = Some (m, XReady);
  lw_n2c : forall m, In m (akeys (ws_n2c ws')) -> In m (akeys (ws_n2c ws)) \/ ev_xsig ev = Some (m, XCF);
  lw_act : forall m, In m (d_active d) -> In m (d_active d') \/ exists b, ev_xsig ev = Some (m, XFin b);
  lw_fin : d_active d' = [] -> d_shuttingdown d' = true;
  lw_ss : d_shouldstop d = true -> d_shouldstop d' = true;
  lw_sd : d_shuttingdown d = true -> d_shuttingdown d' = true;
  lw_tail : STAIL ws' o;
  lw_stop : forall m, ev_xsig ev = Some (m, XFin true) -> d_shouldstop d' = true;
}.

Lemma LJW_flags ws ws' o : LJWc ws -> TW ws ws' o -> nt_only ws ws' -> LJWc ws'.
Proof.
  intros J T F. pose proof (nt_only_tokens _ _ F) as Et. destruct F as (F1 & F2 & F3 & F4 & F5 & F6 & F7). constructor.
  - rewrite F6. apply J.
  - intros n. rewrite (TW_nt_keys _ _ _ n T). apply J.
  - unfold ws_nodes. rewrite F1. apply J.
  - unfold ws_nodes. rewrite F1. apply J.
  - rewrite F5. apply J.
  - rewrite F5. apply J.
  - unfold ws_collection_is_completed. rewrite F3, F5, F6. apply J.
  - apply (LGW_ext _ ws ws' (wj_lg _ _ _ J) F5 F3 F6).
  - intros v Hv. unfold ws_nodes. rewrite F1. apply (wj_st _ _ _ J). congruence.
  - rewrite Et. apply J.
  - rewrite F3. unfold StealProofs.books. rewrite F1. apply J.
Qed.

(* one iteration of the controller loop never raises, and its effect *)
Theorem loop_once_okw ev d ws d' o r :
  DJWc d ws -> WI ws -> d_active d <> [] -> PREWc ev d ws ->
  d_loop_once ev d = (d', o, r) -> r = Ok tt /\ exists ws', LEFFW ev d ws d' ws' o.
Proof.
  intros DJd Iw Hact Hpre H. rewrite loop_once_unfold in H.
  apply LoadProofs.mbind_inv in H. destruct H as [(e & H1 & ->)|(d1 & o1 & a & o2 & H1 & H2 & ->)].
  { destruct (handle_effw _ _ _ _ _ _ DJd Iw Hact Hpre H1) as (F & _). discriminate. }
  destruct (handle_effw _ _ _ _ _ _ DJd Iw Hact Hpre H1) as (_ & ws1 & E1).
  pose proof (hw_dj _ _ _ _ _ _ _ _ E1) as J1.
  assert (Ho1 : all_open (ws_nt ws1)).
  { intros m f' Ef'. destruct (NRWo_open _ _ _ _ (hw_nt _ _ _ _ _ _ _ _ E1 m) Ef') as (f & Ef & R).
    destruct (NRW_fields _ _ _ R) as (_ & _ & C & _). rewrite C. destruct Iw as (Ho & _). eapply Ho; eauto. }
  destruct (loop_rest_effw _ _ _ _ _ _ _ J1 Ho1 H2) as (-> & ws2 & -> & T & F & Same & Upn & Csd).
  split; [reflexivity|]. exists ws2.
  pose proof F as (F1 & F2 & F3 & F4 & F5 & F6 & F7).
  assert (SD : d_shuttingdown d1 || ws_tests_finished ws1 || d_shouldstop d1 = false ->
               d_shuttingdown d1 = false /\ d_shouldstop d1 = false /\ ws2 = ws1 /\ o2 = []).
  { intros E. destruct (Same E) as (-> & ->). apply orb_false_iff in E. destruct E as (E & E3).
    apply orb_false_iff in E. destruct E as (E1' & E2). auto. }
  assert (Ecomp : ws_collection_is_completed ws2 = ws_collection_is_completed ws1).
  { unfold ws_collection_is_completed. rewrite F5, F6. reflexivity. }
  constructor.
  - split.
    + constructor.
      * reflexivity.
      * eapply LJW_flags; [apply J1|exact T|exact F].
      * dprj. intros Hsd Hss. destruct (SD Hsd) as (A & B' & -> & _). apply (wd_b _ _ _ _ J1 A B').
      * dprj. intros Hsd. destruct (SD Hsd) as (A & _ & -> & _). apply (wd_q _ _ _ _ J1 A).
      * dprj. intros Hsd. destruct (d_shouldstop d1) eqn:Ess; [left; reflexivity|right].
        rewrite Ecomp, F2, F4.
        destruct (d_shuttingdown d1) eqn:Esd1.
        -- destruct (wd_g4 _ _ _ _ J1 Esd1) as [X|X]; [congruence|exact X].
        -- rewrite orb_false_r in Hsd. cbn [orb] in Hsd. unfold ws_tests_finished in Hsd.
           apply andb_true_iff in Hsd. destruct Hsd as (Hsd & _). apply andb_true_iff in Hsd. destruct Hsd as (Hsd & S0).
           apply andb_true_iff in Hsd. destruct Hsd as (C & P0).
           split; [exact C|]. split; [destruct (ws_pending ws1); [reflexivity|discriminate]|].
           destruct (ws_steal ws1); [discriminate|reflexivity].
      * dprj. exact Upn.
    + dprj. intros Hss. rewrite Hss. apply orb_true_r.
  - intros m. rewrite cmds_to_app. eapply NRWo_trans; [apply (hw_nt _ _ _ _ _ _ _ _ E1)|apply (tw_nt _ _ _ T)].
  - intros m. rewrite cmds_to_app, flat_map_app, (tw_bk _ _ _ T m), (hw_bk _ _ _ _ _ _ _ _ E1 m), <- app_assoc. reflexivity.
  - intros m. rewrite cmds_to_app, nstc_app. pose proof (hw_steal _ _ _ _ _ _ _ _ E1 m). pose proof (tw_steal _ _ _ T m). lia.
  - intros m Hm. apply (hw_nodes _ _ _ _ _ _ _ _ E1). unfold ws_nodes in *. rewrite F1 in Hm. exact Hm.
  - intros m Hm. apply (hw_n2c _ _ _ _ _ _ _ _ E1). rewrite F5 in Hm. exact Hm.
  - intros m Hm. exact (hw_act _ _ _ _ _ _ _ _ E1 m Hm).
  - dprj. intros Hempty. destruct (hw_fin _ _ _ _ _ _ _ _ E1 Hempty) as [X|[X|X]]; rewrite X; rewrite ?orb_true_r, ?orb_true_l; reflexivity.
  - dprj. apply (hw_ss _ _ _ _ _ _ _ _ E1).
  - dprj. intros Hsd. rewrite (hw_sd _ _ _ _ _ _ _ _ E1), Hsd. reflexivity.
  - apply (STAIL_app_sd ws1 ws2); [exact (hw_tail _ _ _ _ _ _ _ _ E1)| |exact Csd].
    intros m. unfold bkw. rewrite F1. reflexivity.
  - dprj. apply (hw_stop _ _ _ _ _ _ _ _ E1).
Qed.

End LoopW.

(* ====================================================================================== *)
(* Part D.1: the per-node invariants NIW (session running) and NIWS (session stopped) *)
(* ====================================================================================== *)

Record NIW (ws : wsstate) (act : list nat) (n : nat) (L : list xsig) (dn : list cmd) (w : wst) : Prop := {
  nw_flags : exists f, aget n (ws_nt ws) = Some f /\
             mark_okb (n_sdsent f) (wmarks w ++ flat_map cmd_marks dn);
  nw_coupled : Permutation (bkw ws n)
                 (xcompletes L ++ owed_w w ++ flat_map cmd_inds dn ++ xbacks L ++ R w);
  nw_chan : xchan_ok (prank (wph w)) L;
  nw_nodes : In n (ws_nodes ws) -> ~ In XReady L /\ wph w <> PBoot;
  nw_n2c : In n (akeys (ws_n2c ws)) -> ~ In XCF L /\ 2 <= prank (wph w);
  nw_act : ~ In n act -> L = [] /\ wph w = PExited;
  nw_fx : finished_ph (wph w) -> markpopped w;
  nw_ns : wph w <> PFinishing true;
  nw_wx : WX2 w;
  nw_cb : wcb w = true -> 2 <= prank (wph w);
  nw_steal : nstc dn + nstc (winbox w) + nrep (wreply w) + nuns L = cnt (ws_steal ws) n;
  nw_nd : NoDup (bkw ws n);
  (* in order: the book with the indices on their way back struck out *)
  nw_ord : filter (notin (xbacks L ++ R w)) (bkw ws n) = xcompletes L ++ owed_w w ++ flat_map cmd_inds dn;
}.

Lemma coupled_nodup (b C O D B Rr : list nat) :
  NoDup b -> Permutation b (C ++ O ++ D ++ B ++ Rr) -> NoDup (C ++ O ++ D) /\ NoDup O.
Proof.
  intros ND P. pose proof (Permutation_NoDup P ND) as N1.
  assert (N2 : NoDup ((C ++ O ++ D) ++ B ++ Rr)) by (rewrite <- !app_assoc; exact N1).
  apply nodup_app_l in N2. split; [exact N2|]. apply WorkerProofs.nodup_app_r in N2. apply nodup_app_l in N2. exact N2.
Qed.

(* a worker that took the shutdown marker has nothing left, and no reply pending *)
Lemma markpopped_empty sd w X :
  markpopped w -> mark_okb sd (wmarks w ++ X) ->
  wq w = [] /\ wrpend w = [] /\ wreply w = None /\ flat_map cmd_marks (winbox w) = [] /\ X = [] /\ sd = true.
Proof.
  intros (pre & t & Ep) (M1 & M2). unfold wmarks in M1, M2. rewrite Ep, map_app in M1, M2. cbn [map snd bm] in M1, M2.
  rewrite <- !app_assoc in M1, M2. cbn [app] in M1, M2.
  assert (Hsd : sd = true).
  { destruct sd; [reflexivity|]. specialize (M2 eq_refl). rewrite nomarkb_app in M2.
    apply andb_true_iff in M2. destruct M2 as (_ & M2). cbn in M2. discriminate. }
  apply mlastb_mark_inv in M1. apply app_eq_nil in M1. destruct M1 as (Eq & M1).
  apply app_eq_nil in M1. destruct M1 as (Er & M1). apply app_eq_nil in M1. destruct M1 as (Erep & M1).
  apply app_eq_nil in M1. destruct M1 as (Ei & Ex).
  split; [destruct (wq w); [reflexivity|discriminate]|]. split; [destruct (wrpend w); [reflexivity|discriminate]|].
  split; [destruct (wreply w); [discriminate|reflexivity]|]. auto.
Qed.

Lemma prank_ge3 p : 3 <= prank p -> finished_ph p.
Proof. destruct p; cbn; intros H; try lia; [right; eexists; reflexivity|left; reflexivity]. Qed.

Lemma NIW_deliver ws act n L c rest w : NIW ws act n L (c :: rest) w -> NIW ws act n L rest (deliver w c).
Proof.
  intros [(f & Ef & Mk) Cp Ch Nd Nc Ac Fx Ns Wx Cb St Nbk Ord].
  destruct (deliver_owed2 w c) as (Eo & Ep & Epop & Er & Ecb & Est).
  constructor; rewrite ?Ep.
  - exists f. split; [exact Ef|]. rewrite deliver_marks, <- app_assoc. exact Mk.
  - rewrite Cp, Eo. unfold R. rewrite Er. cbn [flat_map]. permc.
  - exact Ch.
  - exact Nd.
  - exact Nc.
  - exact Ac.
  - unfold markpopped in *. rewrite Epop. exact Fx.
  - exact Ns.
  - unfold WX2 in *. rewrite Ep. exact Wx.
  - rewrite Ecb. exact Cb.
  - rewrite Est, Er. rewrite <- St. change (c :: rest) with ([c] ++ rest). rewrite nstc_app. lia.
  - exact Nbk.
  - unfold R. rewrite Er. fold (R w). rewrite Ord, Eo. cbn [flat_map]. rewrite <- !app_assoc. reflexivity.
Qed.

Lemma reply_ev_sigs r : flat_map we_xsig (reply_ev r) = match r with Some l => [XUns l] | None => [] end.
Proof. destruct r; reflexivity. Qed.

Lemma NIW_recv o ws act n L dn w :
  Forall good_cmd_ws (winbox w) -> NIW ws act n L dn w ->
  let w' := fst (recv_step o w) in
  let evs := snd (recv_step o w) in
  NIW ws act n (L ++ flat_map we_xsig evs) dn w' /\
  Forall (fun e => match e with EUnscheduled _ => True | _ => False end) evs /\
  (wph w = PExited -> evs = []).
Proof.
  intros G [(f & Ef & Mk) Cp Ch Nd Nc Ac Fx Ns Wx Cb St Nbk Ord]. cbv zeta.
  destruct (recv_step_owed2 o w G) as (Hev & Hnone & Ep & Epop & Ecb & P & Ec & Est & Hshr).
  set (w' := fst (recv_step o w)) in *. set (evs := snd (recv_step o w)) in *.
  (* a reply can only be pending while the main thread is in its loop *)
  assert (HR : finished_ph (wph w) -> wreply w = None).
  { intros Hf. destruct (markpopped_empty _ _ _ (Fx Hf) Mk) as (_ & _ & X & _). exact X. }
  assert (Hsig : flat_map we_xsig evs = [] \/
                 (exists l, flat_map we_xsig evs = [XUns l] /\ wreply w = Some l /\ wcb w = true)).
  { destruct Hev as [->|(Hcb & ->)]; [left; reflexivity|]. rewrite reply_ev_sigs.
    destruct (wreply w) as [l|]; [right; exists l; auto|left; reflexivity]. }
  assert (Huns : forall g, In g (flat_map we_xsig evs) -> exists l, g = XUns l).
  { intros g Hg. destruct Hsig as [E|(l & E & _)]; rewrite E in Hg; [destruct Hg|].
    destruct Hg as [<-|[]]. eauto. }
  assert (Hex : wph w = PExited -> evs = []).
  { intros Hp. apply Hnone. apply HR. left. exact Hp. }
  split; [|split; [|exact Hex]].
  2:{ destruct Hev as [->|(_ & ->)]; [constructor|]. destruct (wreply w); repeat constructor. }
  constructor; rewrite ?Ep.
  - exists f. split; [exact Ef|]. eapply shr_mark_okb; [|exact Mk]. apply shr_app; [exact Hshr|apply shr_refl].
  - rewrite Cp, xcompletes_app, xbacks_app, Ec. permc_with P.
  - destruct Hsig as [->|(l & -> & Hl & Hcb)]; [rewrite app_nil_r; exact Ch|].
    assert (Hk : prank (wph w) = 2).
    { specialize (Cb Hcb). destruct (Nat.le_gt_cases 3 (prank (wph w))) as [X|X]; [|lia].
      apply prank_ge3 in X. rewrite (HR X) in Hl. discriminate. }
    apply (xchan_ok_snoc 2 (prank (wph w)) L (XUns l)); [rewrite <- Hk; exact Ch|reflexivity|rewrite Hk; right; auto|lia].
  - intros Hin. destruct (Nd Hin) as (A & B). split; [|exact B]. intros Hi. apply in_app_or in Hi.
    destruct Hi as [Hi|Hi]; [exact (A Hi)|]. destruct (Huns _ Hi) as (l & F). discriminate.
  - intros Hin. destruct (Nc Hin) as (A & B). split; [|exact B]. intros Hi. apply in_app_or in Hi.
    destruct Hi as [Hi|Hi]; [exact (A Hi)|]. destruct (Huns _ Hi) as (l & F). discriminate.
  - intros Hn. destruct (Ac Hn) as (A & B). split; [|exact B]. rewrite A, (Hex B). reflexivity.
  - unfold markpopped in *. rewrite Epop. exact Fx.
  - exact Ns.
  - unfold WX2 in *. rewrite Ep. exact Wx.
  - rewrite Ecb. exact Cb.
  - rewrite nuns_app. lia.
  - exact Nbk.
  - destruct (coupled_nodup _ _ _ _ _ _ Nbk Cp) as (ND3 & NDo).
    destruct (recv_step_ord o w G NDo) as (S & Eo' & HS & Hback). fold w' evs in Eo', Hback.
    rewrite xcompletes_app, Ec, app_nil_r.
    rewrite (filter_notin_ext _ (S ++ xbacks L ++ R w)).
    2:{ intros i. rewrite xbacks_app, <- app_assoc, !in_app_iff. specialize (Hback i). rewrite in_app_iff in Hback. tauto. }
    rewrite filter_notin_app, Ord, !filter_app, <- Eo'.
    assert (D1 : forall i, In i (xcompletes L) -> ~ In i S).
    { intros i H1 H2. apply HS in H2.
      exact (WorkerProofs.nodup_app_disj _ _ i ND3 H1 (in_or_app _ _ _ (or_introl H2))). }
    assert (D2 : forall i, In i (flat_map cmd_inds dn) -> ~ In i S).
    { intros i H1 H2. apply HS in H2. apply WorkerProofs.nodup_app_r in ND3.
      exact (WorkerProofs.nodup_app_disj _ _ i ND3 H2 H1). }
    rewrite (filter_notin_id _ _ D1), (filter_notin_id _ _ D2). reflexivity.
Qed.

Lemma in_map_inj g L : In (inj g) (map inj L) -> In g L.
Proof.
  intros H. apply in_map_iff in H. destruct H as (h & E & Hh). destruct g, h; cbn in E; try discriminate; inv E; exact Hh.
Qed.

Lemma NIW_main o ws act n L dn w w' evs :
  wph w' <> PFinishing true ->
  WInv w -> NIW ws act n L dn w -> main_step o w = Some (w', evs) ->
  NIW ws act n (L ++ flat_map we_xsig evs) dn w' /\ Forall ok_wev evs /\
  ~ In (XFin true) (flat_map we_xsig evs).
Proof.
  intros Hns I [(f & Ef & Mk) Cp Ch Nd Nc Ac Fx Ns Wx Cb St Nbk Ord] H.
  destruct (main_step_frame _ _ _ _ H) as (Erp & Einb & Erep & _).
  pose proof (main_step_owed2 _ _ _ _ I Wx H) as Eow.
  destruct (main_step_rank2 _ _ _ _ Wx H) as (Hok & Hrank).
  pose proof (main_step_not_exited _ _ _ _ H) as Hne.
  rewrite (we_xsigs_inj evs Hok).
  assert (Hnofin : ~ In (XFin true) (map inj (flat_map we_sig evs))).
  { intros Hi. change (XFin true) with (inj (SgFin true)) in Hi. apply in_map_inj in Hi.
    apply (main_step_emits_fin2 _ _ _ _ _ Wx H) in Hi. contradiction. }
  split; [|split; [exact Hok|exact Hnofin]].
  assert (Hmono : prank (wph w) <= prank (wph w')) by (destruct Hrank as [(_ & X)|(g & _ & _ & _ & X)]; exact X).
  constructor.
  - exists f. split; [exact Ef|]. rewrite (main_step_marks _ _ _ _ H). exact Mk.
  - rewrite Cp, xcompletes_app, xbacks_app, xcompletes_inj, xbacks_inj. unfold owed_w, R. rewrite Erp, Einb, Erep.
    assert (P : Permutation (owed_main w ++ ents_idx (wq w))
                  (completes (flat_map we_sig evs) ++ owed_main w' ++ ents_idx (wq w'))) by (rewrite Eow; reflexivity).
    permc_with P.
  - destruct Hrank as [(-> & X)|(g & -> & Eg & Hp & X)].
    + cbn [map]. rewrite app_nil_r. eapply xchan_ok_mono; eauto.
    + cbn [map]. apply (xchan_ok_snoc (prank (wph w)) (prank (wph w')) L (inj g));
        [exact Ch|rewrite xrank_inj; exact Eg|rewrite <- Eg; exact Hp|exact X].
  - intros Hin. destruct (Nd Hin) as (Nr & Nb). split.
    + intros Hi. apply in_app_or in Hi. destruct Hi as [Hi|Hi]; [exact (Nr Hi)|].
      change XReady with (inj SgReady) in Hi. apply in_map_inj in Hi.
      destruct Hrank as [(E0 & _)|(g & E0 & Eg & _)]; rewrite E0 in Hi; [destruct Hi|].
      destruct Hi as [->|[]]. cbn in Eg. symmetry in Eg. apply prank_0 in Eg. contradiction.
    + intros E. rewrite E in Hmono. cbn in Hmono. assert (E0 : prank (wph w) = 0) by lia.
      apply prank_0 in E0. contradiction.
  - intros Hin. destruct (Nc Hin) as (Nr & Nb). split; [|lia].
    intros Hi. apply in_app_or in Hi. destruct Hi as [Hi|Hi]; [exact (Nr Hi)|].
    change XCF with (inj SgCF) in Hi. apply in_map_inj in Hi.
    destruct Hrank as [(E0 & _)|(g & E0 & Eg & _)]; rewrite E0 in Hi; [destruct Hi|].
    destruct Hi as [->|[]]. cbn in Eg. lia.
  - intros Hn. destruct (Ac Hn) as (_ & E). contradiction.
  - intros Hfin. destruct (main_step_phase_fin _ _ _ _ H Hfin) as [(b & Ep & Ep' & Hsig)|(b & Ep' & Hnf)].
    + assert (Hfin0 : finished_ph (wph w)) by (right; exists b; exact Ep).
      unfold markpopped in *. rewrite (main_step_in_fin _ _ _ _ _ H Ep). exact (Fx Hfin0).
    + destruct b.
      * exfalso. exact (Hns Ep').
      * eapply main_step_enter_fin; eauto. intros E. apply Hnf. right. exists false. exact E.
  - exact Hns.
  - eapply main_step_WX2; eauto.
  - exact (main_step_cb _ _ _ _ H Cb).
  - rewrite nuns_app, nuns_inj, Einb, Erep. lia.
  - exact Nbk.
  - rewrite xcompletes_app, xbacks_app, xcompletes_inj, xbacks_inj, app_nil_r. unfold R. rewrite Erep. fold (R w).
    rewrite Ord. unfold owed_w. rewrite Erp, Einb. rewrite <- !app_assoc. f_equal.
    rewrite (app_assoc (owed_main w)), Eow, <- !app_assoc. reflexivity.
Qed.

(* the controller's receiver thread only touches the down flag *)
Lemma NIW_flags_ext ws ws' act n L dn w :
  (forall f, aget n (ws_nt ws) = Some f -> exists f', aget n (ws_nt ws') = Some f' /\ n_sdsent f' = n_sdsent f) ->
  ws_n2p ws' = ws_n2p ws -> ws_n2c ws' = ws_n2c ws -> ws_steal ws' = ws_steal ws ->
  NIW ws act n L dn w -> NIW ws' act n L dn w.
Proof.
  intros Hf Ep Ec Es [(f & Ef & Mk) Cp Ch Nd Nc Ac Fx Ns Wx Cb St Nbk Ord]. constructor; auto.
  - destruct (Hf f Ef) as (f' & Ef' & Esd). exists f'. rewrite Esd. auto.
  - unfold bkw in *. rewrite Ep. exact Cp.
  - unfold ws_nodes. rewrite Ep. exact Nd.
  - rewrite Ec. exact Nc.
  - rewrite Es. exact St.
  - unfold bkw in *. rewrite Ep. exact Nbk.
  - unfold bkw in *. rewrite Ep. exact Ord.
Qed.

Lemma nuns_ev n ev : nuns (ev_xsigs_for n ev) = unsev ev n.
Proof.
  unfold ev_xsigs_for, unsev. destruct ev; cbn [ev_xsig]; try reflexivity;
    try (destruct (Nat.eqb n0 n); reflexivity).
Qed.

(* the book after the handler, from the book before *)
Lemma bookmid_perm ev n b L' A B :
  NoDup b ->
  Permutation b (xcompletes (ev_xsigs_for n ev ++ L') ++ A ++ xbacks (ev_xsigs_for n ev ++ L') ++ B) ->
  Permutation (bookmidw ev n b) (xcompletes L' ++ A ++ xbacks L' ++ B).
Proof.
  intros ND P. unfold ev_xsigs_for, bookmidw in *.
  destruct ev as [n0|n0 ids|n0 key fl|n0 i|n0 i|n0 i k oc|n0 i ms|n0 ixs| |n0|n0 sk|n0]; cbn [ev_xsig] in P;
    try exact P;
    try (destruct (Nat.eqb n0 n); exact P).
  - (* complete *)
    rewrite (Nat.eqb_sym n n0). destruct (Nat.eqb n0 n); [|exact P].
    cbn [app xcompletes xbacks flat_map] in P.
    assert (Hin : In i b) by (eapply Permutation_in; [apply Permutation_sym; exact P|left; reflexivity]).
    destruct (remove_first_in i b Hin) as (b' & Eb). rewrite Eb. apply remove_first_perm in Eb.
    apply (Permutation_cons_inv (a := i)). etransitivity; [exact Eb|exact P].
  - (* unscheduled *)
    rewrite (Nat.eqb_sym n n0). destruct (Nat.eqb n0 n); [|exact P].
    cbn [app xcompletes xbacks flat_map] in P.
    assert (P2 : Permutation b (ixs ++ (xcompletes L' ++ A ++ xbacks L' ++ B))) by (rewrite P; unfold xcompletes, xbacks; permc).
    destruct (nodup_perm_disj _ _ _ ND P2) as (Hd & _ & _).
    exact (filter_withdraw _ _ _ P2 Hd).
Qed.


(* ... and in order *)
Lemma bookmid_ord ev n b L' Rw X :
  NoDup b ->
  filter (notin (xbacks (ev_xsigs_for n ev ++ L') ++ Rw)) b = xcompletes (ev_xsigs_for n ev ++ L') ++ X ->
  filter (notin (xbacks L' ++ Rw)) (bookmidw ev n b) = xcompletes L' ++ X.
Proof.
  intros ND P. unfold ev_xsigs_for, bookmidw in *.
  destruct ev as [n0|n0 ids|n0 key fl|n0 i|n0 i|n0 i k oc|n0 i ms|n0 ixs| |n0|n0 sk|n0]; cbn [ev_xsig] in P;
    try exact P;
    try (destruct (Nat.eqb n0 n); exact P).
  - rewrite (Nat.eqb_sym n n0). destruct (Nat.eqb n0 n); [|exact P].
    cbn [app xcompletes xbacks flat_map] in P. fold (xcompletes L') in P. fold (xbacks L') in P.
    set (f := notin (xbacks L' ++ Rw)) in *.
    assert (Hin : In i b).
    { assert (X0 : In i (filter f b)) by (rewrite P; left; reflexivity). apply filter_In in X0. tauto. }
    destruct (remove_first_in i b Hin) as (b' & Eb). rewrite Eb.
    rewrite (remove_first_filter i b b' ND Eb).
    rewrite filter_filter. rewrite (filter_ext_in' _ (fun x => f x && negb (Nat.eqb x i)) b) by (intros x _; apply andb_comm).
    rewrite <- filter_filter, P. cbn [filter]. rewrite Nat.eqb_refl. cbn [negb].
    apply filter_all. intros j Hj. apply negb_true_iff, Nat.eqb_neq. intros ->.
    assert (N1 : NoDup (filter f b)) by (apply NoDup_filter; exact ND). rewrite P in N1.
    inversion N1; contradiction.
  - rewrite (Nat.eqb_sym n n0). destruct (Nat.eqb n0 n); [|exact P].
    cbn [app xcompletes xbacks flat_map] in P. fold (xcompletes L') in P. fold (xbacks L') in P.
    change (fun i : nat => negb (mem_nat i ixs)) with (notin ixs).
    rewrite <- filter_notin_app. rewrite <- P. apply filter_notin_ext. intros j. rewrite !in_app_iff. tauto.
Qed.

(* one iteration of the controller loop, seen from node n *)
Lemma NIW_ctl N collf ev d ws d' ws' o n L' dn w :
  LEFFW N collf ev d ws d' ws' o -> NoDup (bkw ws n) -> NoDup (bkw ws' n) ->
  NIW ws (d_active d) n (ev_xsigs_for n ev ++ L') dn w ->
  NIW ws' (d_active d') n L' (dn ++ cmds_to n o) w.
Proof.
  intros E ND ND' [(f & Ef & Mk) Cp Ch Nd Nc Ac Fx Ns Wx Cb St Nbk Ord].
  assert (Hsub : forall g, In g L' -> In g (ev_xsigs_for n ev ++ L')) by (intros g Hg; apply in_or_app; right; exact Hg).
  assert (Ch' : xchan_ok (prank (wph w)) L').
  { unfold ev_xsigs_for in Ch. destruct (ev_xsig ev) as [[m g]|]; [|exact Ch].
    destruct (Nat.eqb m n); [|exact Ch]. eapply xchan_ok_tail. exact Ch. }
  constructor.
  - pose proof (lw_nt _ _ _ _ _ _ _ _ E n) as Rr. rewrite Ef in Rr.
    destruct (aget n (ws_nt ws')) as [f'|] eqn:Ef'; [|destruct Rr]. cbn in Rr.
    exists f'. split; [reflexivity|]. rewrite flat_map_app, app_assoc. eapply NRW_mark_okb; eauto.
  - rewrite (lw_bk _ _ _ _ _ _ _ _ E n), flat_map_app.
    assert (P1 : Permutation (bkw ws n)
              (xcompletes (ev_xsigs_for n ev ++ L') ++ (owed_w w ++ flat_map cmd_inds dn) ++
               xbacks (ev_xsigs_for n ev ++ L') ++ R w)) by (rewrite Cp; permc).
    pose proof (bookmid_perm ev n _ L' _ _ ND P1) as P2. rewrite P2. permc.
  - exact Ch'.
  - intros Hin. destruct (lw_nodes _ _ _ _ _ _ _ _ E n Hin) as [Hold|Hev].
    + destruct (Nd Hold) as (A & B). split; [|exact B]. intros Hi. apply A. apply Hsub. exact Hi.
    + unfold ev_xsigs_for in Ch. rewrite Hev, Nat.eqb_refl in Ch. cbn [app] in Ch.
      destruct (xchan_ok_ready_head _ _ Ch) as (A & B). split; [exact A|].
      intros Ep. rewrite Ep in B. cbn in B. lia.
  - intros Hin. destruct (lw_n2c _ _ _ _ _ _ _ _ E n Hin) as [Hold|Hev].
    + destruct (Nc Hold) as (A & B). split; [|exact B]. intros Hi. apply A. apply Hsub. exact Hi.
    + unfold ev_xsigs_for in Ch. rewrite Hev, Nat.eqb_refl in Ch. cbn [app] in Ch.
      exact (xchan_ok_cf_head _ _ Ch).
  - intros Hn. destruct (in_dec Nat.eq_dec n (d_active d)) as [Hin|Hni].
    + destruct (lw_act _ _ _ _ _ _ _ _ E n Hin) as [X|(b & Hev)]; [contradiction|].
      unfold ev_xsigs_for in Ch. rewrite Hev, Nat.eqb_refl in Ch. cbn [app] in Ch.
      destruct (xchan_ok_fin_head _ _ _ Ch) as (A & B). split; [exact A|apply prank_4; exact B].
    + destruct (Ac Hni) as (A & B). split; [|exact B]. apply app_eq_nil in A. tauto.
  - exact Fx.
  - exact Ns.
  - exact Wx.
  - exact Cb.
  - rewrite nuns_app, nuns_ev in St. rewrite nstc_app. pose proof (lw_steal _ _ _ _ _ _ _ _ E n). lia.
  - exact ND'.
  - assert (P1 : Permutation (bkw ws n)
              (xcompletes (ev_xsigs_for n ev ++ L') ++ (owed_w w ++ flat_map cmd_inds dn) ++
               xbacks (ev_xsigs_for n ev ++ L') ++ R w)) by (rewrite Cp; permc).
    pose proof (bookmid_perm ev n _ L' _ _ ND P1) as P2.
    pose proof ND' as ND2. rewrite (lw_bk _ _ _ _ _ _ _ _ E n), P2 in ND2.
    rewrite (lw_bk _ _ _ _ _ _ _ _ E n), filter_app, flat_map_app.
    set (T := flat_map cmd_inds (cmds_to n o)) in *.
    assert (DT : forall i, In i T -> ~ In i (xbacks L' ++ R w)).
    { intros i H1 H2.
      assert (N3 : NoDup ((xbacks L' ++ R w) ++ T)).
      { eapply sub_nodup; [|exact ND2]. exists (xcompletes L' ++ owed_w w ++ flat_map cmd_inds dn). permc. }
      exact (WorkerProofs.nodup_app_disj _ _ i N3 H2 H1). }
    rewrite (filter_notin_id _ _ DT).
    assert (O1 : filter (notin (xbacks (ev_xsigs_for n ev ++ L') ++ R w)) (bkw ws n) =
                 xcompletes (ev_xsigs_for n ev ++ L') ++ (owed_w w ++ flat_map cmd_inds dn)) by exact Ord.
    rewrite (bookmid_ord ev n _ L' _ _ ND O1), <- !app_assoc. reflexivity.
Qed.

(* when the worker's "finished" is next, its book is empty and no steal request is outstanding on it *)
Lemma NIW_finished_empty ws act n L dn w :
  NIW ws act n (XFin false :: L) dn w ->
  bkw ws n = [] /\ (exists f, aget n (ws_nt ws) = Some f /\ n_sdsent f = true) /\ ws_steal ws <> Some n.
Proof.
  intros [(f & Ef & Mk) Cp Ch Nd Nc Ac Fx Ns Wx Cb St Nbk Ord].
  destruct (xchan_ok_fin_head _ _ _ Ch) as (-> & Hk). apply prank_4 in Hk.
  assert (Hf : finished_ph (wph w)) by (left; exact Hk).
  pose proof (Fx Hf) as Mp.
  destruct (markpopped_empty _ _ _ Mp Mk) as (Eq & Er & Erep & Ei & Ed & Hsd).
  destruct (cmd_marks_nil _ Ei) as (Ei1 & Ei2). destruct (cmd_marks_nil _ Ed) as (Ed1 & Ed2).
  split; [|split].
  - destruct Mp as (pre & t & Ep).
    unfold owed_w, owed_main, R in Cp. rewrite Hk, Ep, last_last, Eq, Er, Erep, Ei1, Ed1 in Cp. cbn in Cp.
    apply Permutation_nil. apply Permutation_sym. exact Cp.
  - exists f. auto.
  - intros Hs. rewrite Hs, cnt_some_eq, Ei2, Ed2, Erep in St. cbn in St. discriminate.
Qed.

(* ====================================================================================== *)
(* a worker whose own session has stopped                                                  *)
(* ====================================================================================== *)
(* Its main thread has left the loop without the shutdown marker; its receiver thread lives on
   and may answer a steal request after the worker's "finished" -- which the controller does not
   hear any more.  L is what the controller still hears of the node.  What the worker side holds
   for n is then only a SUB-multiset of the book, and a steal request may be lost. *)
Record NIWS (o : oracle) (ws : wsstate) (act : list nat) (n : nat) (L : list xsig) (dn : list cmd) (w : wst) : Prop := {
  sw_flags : exists f, aget n (ws_nt ws) = Some f /\
             mark_okb (n_sdsent f) (wmarks w ++ flat_map cmd_marks dn);
  sw_sub : sub (xcompletes L ++ owed_w w ++ flat_map cmd_inds dn ++ xbacks L ++ R w) (bkw ws n);
  sw_chan : xchan_ok (prank (wph w)) L;
  sw_nodes : In n (ws_nodes ws) -> ~ In XReady L;
  sw_n2c : In n (akeys (ws_n2c ws)) -> ~ In XCF L;
  sw_act : ~ In n act -> L = [] /\ wph w = PExited;
  sw_ph : wph w = PFinishing true \/ wph w = PExited;
  sw_nofalse : ~ In (XFin false) L;
  sw_stle : nstc dn + nstc (winbox w) + nrep (wreply w) + nuns L <= cnt (ws_steal ws) n;
  sw_nd : NoDup (bkw ws n);
  sw_ev : exists r, In r (wran w) /\ stops_after o (snd (fst r)) = true;
}.

Lemma xchan_nofin k L : xchan_ok k L -> k <= 3 -> forall b, ~ In (XFin b) L.
Proof. intros Ch Hk b Hi. pose proof (xchan_ok_in _ _ _ Ch Hi) as Hp. unfold prec in Hp. cbn in Hp. lia. Qed.

(* the step in which the main thread takes the stop exit *)
Lemma main_step_enter_stop o w w' evs :
  main_step o w = Some (w', evs) -> wph w' = PFinishing true ->
  exists cur nxt, wph w = PRun cur nxt [] /\ stops_after o (snd cur) = true /\
                  evs = [EComplete (snd cur)] /\ wran w' = wran w.
Proof.
  intros H. ms_cases H; wprj; rewrite ?P; intros Hp; try discriminate Hp.
  destruct (stops_after o (snd cur)) eqn:E.
  - exists cur, nxt. auto.
  - destruct (snd nxt); discriminate Hp.
Qed.

Lemma NIW_main_stop o ws act n L dn w w' evs :
  WInv w -> NIW ws act n L dn w -> main_step o w = Some (w', evs) -> wph w' = PFinishing true ->
  NIWS o ws act n (L ++ flat_map we_xsig evs) dn w' /\ Forall ok_wev evs /\
  (forall b, ~ In (XFin b) (flat_map we_xsig evs)).
Proof.
  intros I [(f & Ef & Mk) Cp Ch Nd Nc Ac Fx Ns Wx Cb St Nbk Ord] H Hp'.
  destruct (main_step_enter_stop _ _ _ _ H Hp') as (cur & nxt & Ep & Hstop & Eevs & Eran).
  destruct (main_step_frame _ _ _ _ H) as (Erp & Einb & Erep & _).
  pose proof (main_step_owed2 _ _ _ _ I Wx H) as Eow.
  destruct (main_step_rank2 _ _ _ _ Wx H) as (Hok & Hrank).
  assert (Esig : flat_map we_xsig evs = [XComp (snd cur)]) by (rewrite Eevs; reflexivity).
  assert (Hk2 : prank (wph w) = 2) by (rewrite Ep; reflexivity).
  split; [|split; [exact Hok|]].
  2:{ intros b Hi. rewrite Esig in Hi. destruct Hi as [F|[]]. discriminate. }
  constructor.
  - exists f. split; [exact Ef|]. rewrite (main_step_marks _ _ _ _ H). exact Mk.
  - apply sub_perm. apply Permutation_sym. rewrite Cp, (we_xsigs_inj evs Hok), xcompletes_app, xbacks_app, xcompletes_inj, xbacks_inj.
    unfold owed_w, R. rewrite Erp, Einb, Erep.
    assert (P : Permutation (owed_main w ++ ents_idx (wq w))
                  (completes (flat_map we_sig evs) ++ owed_main w' ++ ents_idx (wq w'))) by (rewrite Eow; reflexivity).
    permc_with P.
  - rewrite Esig, Hp'. apply (xchan_ok_snoc 2 3 L (XComp (snd cur))); [rewrite <- Hk2; exact Ch|reflexivity|left; lia|lia].
  - intros Hin. destruct (Nd Hin) as (Nr & _). rewrite Esig. intros Hi. apply in_app_or in Hi.
    destruct Hi as [Hi|[F|[]]]; [exact (Nr Hi)|discriminate].
  - intros Hin. destruct (Nc Hin) as (Nr & _). rewrite Esig. intros Hi. apply in_app_or in Hi.
    destruct Hi as [Hi|[F|[]]]; [exact (Nr Hi)|discriminate].
  - intros Hn. destruct (Ac Hn) as (_ & E). rewrite Ep in E. discriminate.
  - left. exact Hp'.
  - rewrite Esig. intros Hi. apply in_app_or in Hi. destruct Hi as [Hi|[F|[]]]; [|discriminate].
    assert (Ch2 : xchan_ok 2 L) by (rewrite <- Hk2; exact Ch). exact (xchan_nofin 2 L Ch2 ltac:(lia) false Hi).
  - rewrite nuns_app, Esig, Einb, Erep. unfold nuns at 2. cbn. lia.
  - exact Nbk.
  - pose proof (inv_phase w I) as E. unfold phase_inv in E. rewrite Ep in E. destruct E as (pre & Epop & Hnm & Er).
    exists (cur, ann nxt). rewrite Eran, Er, Epop, (pairs_snoc pre cur nxt Hnm). split; [|exact Hstop].
    apply in_or_app. right. left. reflexivity.
Qed.

Lemma NIWS_deliver o ws act n L c rest w : NIWS o ws act n L (c :: rest) w -> NIWS o ws act n L rest (deliver w c).
Proof.
  intros [(f & Ef & Mk) Sb Ch Nd Nc Ac Ph Nf St Nbk Ev].
  destruct (deliver_owed2 w c) as (Eo & Ep & Epop & Er & Ecb & Est).
  constructor; rewrite ?Ep.
  - exists f. split; [exact Ef|]. rewrite deliver_marks, <- app_assoc. exact Mk.
  - eapply sub_trans; [|exact Sb]. apply sub_perm. rewrite Eo. unfold R. rewrite Er. cbn [flat_map]. permc.
  - exact Ch.
  - exact Nd.
  - exact Nc.
  - exact Ac.
  - exact Ph.
  - exact Nf.
  - rewrite Est, Er. change (c :: rest) with ([c] ++ rest) in St. rewrite nstc_app in St. lia.
  - exact Nbk.
  - exact Ev.
Qed.

Lemma NIWS_recv o ws act n L dn w :
  Forall good_cmd_ws (winbox w) -> NIWS o ws act n L dn w ->
  let w' := fst (recv_step o w) in
  let evs := snd (recv_step o w) in
  NIWS o ws act n L dn w' /\
  (wph w = PFinishing true -> NIWS o ws act n (L ++ flat_map we_xsig evs) dn w') /\
  Forall (fun e => match e with EUnscheduled _ => True | _ => False end) evs.
Proof.
  intros G [(f & Ef & Mk) Sb Ch Nd Nc Ac Ph Nf St Nbk Ev]. cbv zeta.
  destruct (recv_step_owed2 o w G) as (Hev & Hnone & Ep & Epop & Ecb & P & Ec & Est & Hshr).
  pose proof (recv_step_keeps o w) as (_ & Eran & _).
  set (w' := fst (recv_step o w)) in *. set (evs := snd (recv_step o w)) in *.
  assert (Hsig : flat_map we_xsig evs = [] \/ exists l, flat_map we_xsig evs = [XUns l]).
  { destruct Hev as [->|(Hcb & ->)]; [left; reflexivity|]. rewrite reply_ev_sigs.
    destruct (wreply w) as [l|]; [right; exists l; auto|left; reflexivity]. }
  assert (Huns : forall g, In g (flat_map we_xsig evs) -> exists l, g = XUns l).
  { intros g Hg. destruct Hsig as [E|(l & E)]; rewrite E in Hg; [destruct Hg|]. destruct Hg as [<-|[]]. eauto. }
  assert (Mk' : mark_okb (n_sdsent f) (wmarks w' ++ flat_map cmd_marks dn)).
  { eapply shr_mark_okb; [|exact Mk]. apply shr_app; [exact Hshr|apply shr_refl]. }
  assert (Sb2 : sub (xcompletes (L ++ flat_map we_xsig evs) ++ owed_w w' ++ flat_map cmd_inds dn ++
                     xbacks (L ++ flat_map we_xsig evs) ++ R w') (bkw ws n)).
  { eapply sub_trans; [|exact Sb]. apply sub_perm. rewrite xcompletes_app, xbacks_app, Ec. permc_with P. }
  split; [|split].
  - constructor; rewrite ?Ep; auto.
    + exists f. auto.
    + eapply sub_trans; [|exact Sb2]. rewrite xcompletes_app, xbacks_app, Ec.
      exists (xbacks (flat_map we_xsig evs)). permc.
    + lia.
    + rewrite Eran. exact Ev.
  - intros Hp. constructor; rewrite ?Ep.
    + exists f. auto.
    + exact Sb2.
    + destruct Hsig as [->|(l & ->)]; [rewrite app_nil_r; exact Ch|].
      rewrite Hp in *. cbn [prank] in *. apply xchan_ok_snoc2; [exact Ch|left; cbn; lia|].
      apply Forall_forall. intros h Hh. pose proof (xchan_ok_in _ _ _ Ch Hh) as X. unfold prec in *. cbn [xrank]. lia.
    + intros Hin Hi. apply in_app_or in Hi. destruct Hi as [Hi|Hi]; [exact (Nd Hin Hi)|].
      destruct (Huns _ Hi) as (l & F). discriminate.
    + intros Hin Hi. apply in_app_or in Hi. destruct Hi as [Hi|Hi]; [exact (Nc Hin Hi)|].
      destruct (Huns _ Hi) as (l & F). discriminate.
    + intros Hn. destruct (Ac Hn) as (_ & E). rewrite Hp in E. discriminate.
    + exact Ph.
    + intros Hi. apply in_app_or in Hi. destruct Hi as [Hi|Hi]; [exact (Nf Hi)|].
      destruct (Huns _ Hi) as (l & F). discriminate.
    + rewrite nuns_app. lia.
    + exact Nbk.
    + rewrite Eran. exact Ev.
  - destruct Hev as [->|(_ & ->)]; [constructor|]. destruct (wreply w); repeat constructor.
Qed.

Lemma NIWS_main o ws act n L dn w w' evs :
  NIWS o ws act n L dn w -> main_step o w = Some (w', evs) ->
  NIWS o ws act n (L ++ [XFin true]) dn w' /\ evs = [EFinished true] /\ wph w' = PExited /\
  Permutation (w_tokens_ws w') (w_tokens_ws w).
Proof.
  intros [(f & Ef & Mk) Sb Ch Nd Nc Ac Ph Nf St Nbk Ev] H.
  destruct Ph as [Ph|Ph]; [|exfalso; exact (main_step_not_exited _ _ _ _ H Ph)].
  unfold main_step in H. rewrite Ph in H. inv H.
  split; [|split; [reflexivity|split; [reflexivity|reflexivity]]].
  assert (Eo : owed_w (upd_ph w PExited) = owed_w w).
  { unfold owed_w, owed_main. cbn [upd_ph wph wq wrpend winbox wpopped]. rewrite Ph. reflexivity. }
  constructor; cbn [upd_ph wph].
  - exists f. split; [exact Ef|exact Mk].
  - eapply sub_trans; [|exact Sb]. apply sub_perm. rewrite xcompletes_app, xbacks_app, Eo. cbn. unfold R. cbn [upd_ph wreply].
    rewrite !app_nil_r. reflexivity.
  - rewrite Ph in Ch. cbn [prank] in *. apply (xchan_ok_snoc 3 4 L (XFin true)); [exact Ch|reflexivity|left; lia|lia].
  - intros Hin Hi. apply in_app_or in Hi. destruct Hi as [Hi|[F|[]]]; [exact (Nd Hin Hi)|discriminate].
  - intros Hin Hi. apply in_app_or in Hi. destruct Hi as [Hi|[F|[]]]; [exact (Nc Hin Hi)|discriminate].
  - intros Hn. destruct (Ac Hn) as (_ & E). rewrite Ph in E. discriminate.
  - right. reflexivity.
  - intros Hi. apply in_app_or in Hi. destruct Hi as [Hi|[F|[]]]; [exact (Nf Hi)|discriminate].
  - cbn [upd_ph winbox wreply]. rewrite nuns_app. unfold nuns at 2. cbn. lia.
  - exact Nbk.
  - exact Ev.
Qed.

Lemma NIWS_flags_ext o ws ws' act n L dn w :
  (forall f, aget n (ws_nt ws) = Some f -> exists f', aget n (ws_nt ws') = Some f' /\ n_sdsent f' = n_sdsent f) ->
  ws_n2p ws' = ws_n2p ws -> ws_n2c ws' = ws_n2c ws -> ws_steal ws' = ws_steal ws ->
  NIWS o ws act n L dn w -> NIWS o ws' act n L dn w.
Proof.
  intros Hf Ep Ec Es [(f & Ef & Mk) Sb Ch Nd Nc Ac Ph Nf St Nbk Ev]. constructor; auto.
  - destruct (Hf f Ef) as (f' & Ef' & Esd). exists f'. rewrite Esd. auto.
  - unfold bkw in *. rewrite Ep. exact Sb.
  - unfold ws_nodes. rewrite Ep. exact Nd.
  - rewrite Ec. exact Nc.
  - rewrite Es. exact St.
  - unfold bkw in *. rewrite Ep. exact Nbk.
Qed.

Lemma bookmid_sub ev n b L' A B :
  NoDup b ->
  sub (xcompletes (ev_xsigs_for n ev ++ L') ++ A ++ xbacks (ev_xsigs_for n ev ++ L') ++ B) b ->
  sub (xcompletes L' ++ A ++ xbacks L' ++ B) (bookmidw ev n b).
Proof.
  intros ND P. unfold ev_xsigs_for, bookmidw in *.
  destruct ev as [n0|n0 ids|n0 key fl|n0 i|n0 i|n0 i k oc|n0 i ms|n0 ixs| |n0|n0 sk|n0]; cbn [ev_xsig] in P;
    try exact P;
    try (destruct (Nat.eqb n0 n); exact P).
  - rewrite (Nat.eqb_sym n n0). destruct (Nat.eqb n0 n); [|exact P].
    cbn [app xcompletes xbacks flat_map] in P. fold (xcompletes L') in P. fold (xbacks L') in P.
    destruct P as (y & Py). cbn [app] in Py.
    assert (Hin : In i b) by (eapply Permutation_in; [exact Py|left; reflexivity]).
    destruct (remove_first_in i b Hin) as (b' & Eb). rewrite Eb. apply remove_first_perm in Eb.
    exists y. apply (Permutation_cons_inv (a := i)). etransitivity; [exact Py|apply Permutation_sym; exact Eb].
  - rewrite (Nat.eqb_sym n n0). destruct (Nat.eqb n0 n); [|exact P].
    cbn [app xcompletes xbacks flat_map] in P. fold (xcompletes L') in P. fold (xbacks L') in P.
    destruct P as (y & Py).
    assert (P2 : Permutation b (ixs ++ ((xcompletes L' ++ A ++ xbacks L' ++ B) ++ y))).
    { rewrite <- Py. unfold xcompletes, xbacks. permc. }
    destruct (nodup_perm_disj _ _ _ ND P2) as (Hd & _ & _).
    exists y. apply Permutation_sym. exact (filter_withdraw _ _ _ P2 Hd).
Qed.

Lemma NIWS_ctl N collf o ev d ws d' ws' outs n L' dn w :
  LEFFW N collf ev d ws d' ws' outs -> NoDup (bkw ws' n) ->
  NIWS o ws (d_active d) n (ev_xsigs_for n ev ++ L') dn w ->
  NIWS o ws' (d_active d') n L' (dn ++ cmds_to n outs) w.
Proof.
  intros E ND' [(f & Ef & Mk) Sb Ch Nd Nc Ac Ph Nf St Nbk Ev].
  assert (Hsub : forall g, In g L' -> In g (ev_xsigs_for n ev ++ L')) by (intros g Hg; apply in_or_app; right; exact Hg).
  assert (Ch' : xchan_ok (prank (wph w)) L').
  { unfold ev_xsigs_for in Ch. destruct (ev_xsig ev) as [[m g]|]; [|exact Ch].
    destruct (Nat.eqb m n); [|exact Ch]. eapply xchan_ok_tail. exact Ch. }
  constructor.
  - pose proof (lw_nt _ _ _ _ _ _ _ _ E n) as Rr. rewrite Ef in Rr.
    destruct (aget n (ws_nt ws')) as [f'|] eqn:Ef'; [|destruct Rr]. cbn in Rr.
    exists f'. split; [reflexivity|]. rewrite flat_map_app, app_assoc. eapply NRW_mark_okb; eauto.
  - rewrite (lw_bk _ _ _ _ _ _ _ _ E n), flat_map_app.
    assert (P1 : sub (xcompletes (ev_xsigs_for n ev ++ L') ++ (owed_w w ++ flat_map cmd_inds dn) ++
                      xbacks (ev_xsigs_for n ev ++ L') ++ R w) (bkw ws n)).
    { eapply sub_trans; [|exact Sb]. apply sub_perm. permc. }
    pose proof (bookmid_sub ev n _ L' _ _ Nbk P1) as P2.
    eapply sub_trans; [|apply sub_app; [exact P2|apply sub_refl]]. apply sub_perm. permc.
  - exact Ch'.
  - intros Hin. destruct (lw_nodes _ _ _ _ _ _ _ _ E n Hin) as [Hold|Hev].
    + intros Hi. apply (Nd Hold). apply Hsub. exact Hi.
    + unfold ev_xsigs_for in Ch. rewrite Hev, Nat.eqb_refl in Ch. cbn [app] in Ch.
      exact (proj1 (xchan_ok_ready_head _ _ Ch)).
  - intros Hin. destruct (lw_n2c _ _ _ _ _ _ _ _ E n Hin) as [Hold|Hev].
    + intros Hi. apply (Nc Hold). apply Hsub. exact Hi.
    + unfold ev_xsigs_for in Ch. rewrite Hev, Nat.eqb_refl in Ch. cbn [app] in Ch.
      exact (proj1 (xchan_ok_cf_head _ _ Ch)).
  - intros Hn. destruct (in_dec Nat.eq_dec n (d_active d)) as [Hin|Hni].
    + destruct (lw_act _ _ _ _ _ _ _ _ E n Hin) as [X|(b & Hev)]; [contradiction|].
      unfold ev_xsigs_for in Ch. rewrite Hev, Nat.eqb_refl in Ch. cbn [app] in Ch.
      destruct (xchan_ok_fin_head _ _ _ Ch) as (A & B). split; [exact A|apply prank_4; exact B].
    + destruct (Ac Hni) as (A & B). split; [|exact B]. apply app_eq_nil in A. tauto.
  - exact Ph.
  - intros Hi. apply Nf. apply Hsub. exact Hi.
  - rewrite nuns_app, nuns_ev in St. rewrite nstc_app. pose proof (lw_steal _ _ _ _ _ _ _ _ E n). lia.
  - exact ND'.
  - exact Ev.
Qed.

(* ====================================================================================== *)
(* Part D.2: the system invariant CInvG *)
(* ====================================================================================== *)

(* ====================================================================================== *)
(* applying the controller's outputs                                                       *)
(* ====================================================================================== *)
Lemma apply_outs_effw outs : forall s,
  y_dead s = [] -> Forall good_out_ws outs ->
  y_d (apply_outs s outs) = y_d s /\ y_evq (apply_outs s outs) = y_evq s /\
  y_up (apply_outs s outs) = y_up s /\ y_w (apply_outs s outs) = y_w s /\
  y_dead (apply_outs s outs) = y_dead s /\ y_result (apply_outs s outs) = y_result s /\
  forall k, alist_get [] k (y_down (apply_outs s outs)) = alist_get [] k (y_down s) ++ cmds_to k outs.
Proof.
  induction outs as [|x outs IH]; intros s Hd Hg.
  - cbn. repeat split; auto. intros k. rewrite app_nil_r. reflexivity.
  - inversion Hg as [|x' r' Gx Gr]; subst.
    destruct x as [h|n cm| |].
    + destruct h; try (cbn [apply_outs]; destruct (IH s Hd Gr) as (A1 & A2 & A3 & A4 & A5 & A6 & A7);
                       repeat split; auto; fail).
      cbn in Gx. contradiction.
    + cbn [apply_outs]. replace (mem_nat n (y_dead s)) with false by (rewrite Hd; reflexivity).
      set (s1 := {| y_d := y_d s; y_evq := y_evq s;
                    y_down := aset n (alist_get [] n (y_down s) ++ [cm]) (y_down s);
                    y_up := y_up s; y_w := y_w s; y_dead := y_dead s; y_result := y_result s |}).
      destruct (IH s1 Hd Gr) as (A1 & A2 & A3 & A4 & A5 & A6 & A7).
      repeat split; auto. intros k. rewrite A7. subst s1. cbn [y_down cmds_to flat_map cmd_to].
      destruct (Nat.eqb n k) eqn:E.
      * apply Nat.eqb_eq in E. subst k. rewrite FifoProofs.alist_get_aset_eq, <- app_assoc. reflexivity.
      * apply Nat.eqb_neq in E. rewrite FifoProofs.alist_get_aset_neq by congruence. reflexivity.
    + cbn [apply_outs]. destruct (IH s Hd Gr) as (A1 & A2 & A3 & A4 & A5 & A6 & A7). repeat split; auto.
    + cbn [apply_outs]. destruct (IH s Hd Gr) as (A1 & A2 & A3 & A4 & A5 & A6 & A7). repeat split; auto.
Qed.

Lemma nodes_ws_apply s s1 outs :
  y_w s1 = y_w s -> y_up s1 = y_up s ->
  (forall k, alist_get [] k (y_down s1) = alist_get [] k (y_down s) ++ cmds_to k outs) ->
  Permutation (nodes_ws s1)
    (nodes_ws s ++ flat_map (fun k => flat_map cmd_inds (cmds_to k outs)) (akeys (y_w s))).
Proof.
  intros Ew Eu Hd. unfold nodes_ws. rewrite Ew. rewrite <- flat_map_app_perm. apply flat_map_perm_pointwise.
  intros k _. unfold node_tokens_ws. rewrite Ew, Eu, Hd, flat_map_app. permc.
Qed.

Lemma sent_permw keys outs :
  NoDup keys -> (forall k, ~ In k keys -> cmds_to k outs = []) -> Forall good_out_ws outs ->
  Permutation (flat_map (fun k => flat_map cmd_inds (cmds_to k outs)) keys) (sent_inds outs).
Proof.
  intros ND. induction outs as [|x outs IH]; intros Hk Hg.
  - cbn. rewrite flat_map_nil_in; [reflexivity|]. intros k _. reflexivity.
  - inversion Hg as [|x' r' Gx Gr]; subst.
    assert (Hk' : forall k, ~ In k keys -> cmds_to k outs = []).
    { intros k Hn. specialize (Hk k Hn). cbn [cmds_to flat_map] in Hk. apply app_eq_nil in Hk. tauto. }
    specialize (IH Hk' Gr).
    assert (E : forall k, flat_map cmd_inds (cmds_to k (x :: outs)) =
                          flat_map cmd_inds (cmd_to k x) ++ flat_map cmd_inds (cmds_to k outs)).
    { intros k. cbn [cmds_to flat_map]. apply flat_map_app. }
    rewrite (flat_map_ext_in _ _ keys (fun k _ => E k)).
    rewrite flat_map_app_perm. unfold sent_inds. cbn [flat_map]. fold (sent_inds outs).
    apply Permutation_app; [|exact IH].
    destruct x as [h|m cm| |]; try (rewrite flat_map_nil_in; [reflexivity|]; intros k _; reflexivity).
    destruct (in_dec Nat.eq_dec m keys) as [Hin|Hni].
    + assert (E2 : forall k, flat_map cmd_inds (cmd_to k (OSend m cm)) = if Nat.eqb m k then cmd_inds cm else []).
      { intros k. cbn [cmd_to]. destruct (Nat.eqb m k); cbn; [apply app_nil_r|reflexivity]. }
      rewrite (flat_map_ext_in _ _ keys (fun k _ => E2 k)).
      rewrite (flat_map_single m (cmd_inds cm) keys ND Hin).
      destruct (run_inds_good_ws _ _ Gx) as (Er & _). rewrite Er. reflexivity.
    + exfalso. specialize (Hk m Hni). cbn [cmds_to flat_map cmd_to] in Hk. rewrite Nat.eqb_refl in Hk. discriminate.
Qed.

Lemma up_xsig_nil_inds m : up_xsig m = [] -> up_inds m = [].
Proof. destruct m as [e| | | | | | |]; try reflexivity. destruct e; try reflexivity. discriminate. Qed.

Lemma up_xsigs_nil_inds l : flat_map up_xsig l = [] -> flat_map up_inds l = [].
Proof.
  induction l as [|m l IH]; [reflexivity|]. cbn [flat_map]. intros H. apply app_eq_nil in H. destruct H as (H1 & H2).
  rewrite (up_xsig_nil_inds m H1), (IH H2). reflexivity.
Qed.

(* ====================================================================================== *)
(* what the controller still hears of a node                                               *)
(* ====================================================================================== *)
Definition ndown (ws : wsstate) (n : nat) : bool :=
  match aget n (ws_nt ws) with Some f => n_down f | None => false end.
Definition hsigs (ws : wsstate) (s : sys) (n : nat) : list xsig :=
  evq_xsigs n (y_evq s) ++ hup (ndown ws n) (alist_get [] n (y_up s)).
(* nothing that worker n sends from now on will be heard *)
Definition closed (ws : wsstate) (s : sys) (n : nat) : Prop :=
  ndown ws n = true \/ hasfin (flat_map up_xsig (alist_get [] n (y_up s))) = true.

Lemma cutfin_nofin l : hasfin l = false -> cutfin l = l.
Proof. intros H. rewrite <- (app_nil_r l) at 1. rewrite cutfin_app, H. cbn. apply app_nil_r. Qed.

Lemma hasfin_cutfin l : hasfin l = true -> exists b, In (XFin b) (cutfin l).
Proof.
  induction l as [|g l IH]; cbn; [discriminate|]. destruct (is_fin_x g) eqn:E.
  - intros _. destruct g; try discriminate. exists stop. left. reflexivity.
  - cbn. intros H. destruct (IH H) as (b & Hb). exists b. right. exact Hb.
Qed.

Lemma hasfin_app a b : hasfin (a ++ b) = hasfin a || hasfin b.
Proof. apply existsb_app. Qed.

(* ====================================================================================== *)
(* the system invariant                                                                    *)
(* ====================================================================================== *)
Definition no_stop (c : config) : Prop := forall n i, stops_after (c_oracle c n) i = false.

Section SysW.
Variable c : config.
Notation N := (c_numnodes c).
Hypothesis Hnc : forall n i, c_crash_in c n i = false.
Hypothesis Hng : no_garbled c.
Hypothesis Hne : forall k, ~ In ""%string (c_coll c k).

Definition ok_ev3w (ev : cevent) : Prop :=
  match ev with
  | QInternalError _ => False
  | QFinished _ SKKbd => False
  | QCollFinish n ids => ids = c_coll c n
  | _ => True
  end /\
  match ev_xsig ev with Some (m, _) => m < N | None => True end.
Definition ok_up3w (n : nat) (m : upmsg) : Prop :=
  match m with UCollFinish ids => ids = c_coll c n | _ => True end.

(* P n: worker n's own session has stopped *)
Definition NInvG (P : nat -> bool) (s : sys) (ws : wsstate) (n : nat) (w : wst) : Prop :=
  if P n
  then NIWS (c_oracle c n) ws (d_active (y_d s)) n (hsigs ws s n) (alist_get [] n (y_down s)) w
  else NIW ws (d_active (y_d s)) n (xsigs s n) (alist_get [] n (y_down s)) w.

Notation DJWc := (DJW N (c_coll c)).
Notation LEFFWc := (LEFFW N (c_coll c)).

Record CInvG (P : nat -> bool) (s : sys) : Prop := {
  cw_sinv : SInvW s;
  cw_keys : akeys (y_w s) = seq 0 N;
  cw_dj : exists ws, DJWc (y_d s) ws /\ forall n w, aget n (y_w s) = Some w -> NInvG P s ws n w;
  cw_evq : Forall ok_ev3w (y_evq s);
  cw_up : forall n, Forall (ok_up3w n) (alist_get [] n (y_up s)) /\ (N <= n -> alist_get [] n (y_up s) = []);
  cw_down : forall n, N <= n -> alist_get [] n (y_down s) = [];
  cw_act : y_result s = None -> d_active (y_d s) <> [];
  cw_res : forall e, y_result s <> Some (RError e);
  (* conservation, as long as no worker's session has stopped *)
  cw_perm : (forall n, P n = false) -> forall ws coll, d_sched (y_d s) = StW ws -> ws_coll ws = Some coll ->
            Permutation (ws_pending ws ++ wires_ws s) (seq 0 (length coll));
  cw_fin : y_result s = Some RFinished ->
           d_session_finished (y_d s) = true /\ d_shouldstop (y_d s) = false;
  cw_dn : forall ws n f w, d_sched (y_d s) = StW ws -> aget n (ws_nt ws) = Some f -> n_down f = true ->
          aget n (y_w s) = Some w ->
          wph w = PExited /\ (P n = false -> flat_map up_xsig (alist_get [] n (y_up s)) = []);
  cw_cl : forall ws n w, d_sched (y_d s) = StW ws -> P n = true -> aget n (y_w s) = Some w ->
          wph w = PExited -> closed ws s n;
  cw_evfin : forall ws n b, d_sched (y_d s) = StW ws -> In (XFin b) (evq_xsigs n (y_evq s)) -> ndown ws n = true;
  cw_stop : forall n, P n = true -> In n (d_active (y_d s)) \/ d_shouldstop (y_d s) = true;
  cw_pout : forall n, N <= n -> P n = false;
}.

(* the controller's receiver thread: never raises for a known node; queues the signal it read, or
   drops the message when the node is down *)
Lemma pfr_effw n m d ws f d' o r :
  d_sched d = StW ws -> aget n (ws_nt ws) = Some f -> ok_up m -> ok_up3w n m -> n < N ->
  process_from_remote n m d = (d', o, r) ->
  o = [] /\ exists evs ws', r = Ok evs /\ d_sched d' = StW ws' /\
    (n_down f = true -> evs = []) /\
    (n_down f = false -> (forall k, evq_xsigs k evs = if Nat.eqb n k then up_xsig m else []) /\
                         flat_map ev_inds evs = up_inds m) /\
    (forall k, k <> n -> evq_xsigs k evs = []) /\
    Forall ok_ev3w evs /\
    d_shuttingdown d' = d_shuttingdown d /\ d_shouldstop d' = d_shouldstop d /\ d_active d' = d_active d /\
    ws_n2p ws' = ws_n2p ws /\ ws_n2c ws' = ws_n2c ws /\ ws_pending ws' = ws_pending ws /\ ws_coll ws' = ws_coll ws /\
    ws_steal ws' = ws_steal ws /\ ws_numnodes ws' = ws_numnodes ws /\
    (forall k, k <> n -> aget k (ws_nt ws') = aget k (ws_nt ws)) /\
    (exists f', aget n (ws_nt ws') = Some f' /\ n_sdsent f' = n_sdsent f /\ n_closed f' = n_closed f /\
                n_spec f' = n_spec f /\ (n_down f = true -> n_down f' = true) /\
                (n_down f' = true -> n_down f = true \/ exists b, m = UEv (EFinished b)) /\
                (forall b, In (XFin b) (up_xsig m) -> n_down f' = true)).
Proof.
  intros Els Ef Hm Hm3 HnN H.
  assert (Ent : d_nt d = ws_nt ws) by (unfold d_nt; rewrite Els; reflexivity).
  unfold process_from_remote in H. rewrite mbind_get, Ent, Ef in H. cbn [of_opt] in H. rewrite mbind_ret in H.
  set (GOAL := o = [] /\ exists evs ws', r = Ok evs /\ d_sched d' = StW ws' /\
    (n_down f = true -> evs = []) /\
    (n_down f = false -> (forall k, evq_xsigs k evs = if Nat.eqb n k then up_xsig m else []) /\
                         flat_map ev_inds evs = up_inds m) /\
    (forall k, k <> n -> evq_xsigs k evs = []) /\
    Forall ok_ev3w evs /\
    d_shuttingdown d' = d_shuttingdown d /\ d_shouldstop d' = d_shouldstop d /\ d_active d' = d_active d /\
    ws_n2p ws' = ws_n2p ws /\ ws_n2c ws' = ws_n2c ws /\ ws_pending ws' = ws_pending ws /\ ws_coll ws' = ws_coll ws /\
    ws_steal ws' = ws_steal ws /\ ws_numnodes ws' = ws_numnodes ws /\
    (forall k, k <> n -> aget k (ws_nt ws') = aget k (ws_nt ws)) /\
    (exists f', aget n (ws_nt ws') = Some f' /\ n_sdsent f' = n_sdsent f /\ n_closed f' = n_closed f /\
                n_spec f' = n_spec f /\ (n_down f = true -> n_down f' = true) /\
                (n_down f' = true -> n_down f = true \/ exists b, m = UEv (EFinished b)) /\
                (forall b, In (XFin b) (up_xsig m) -> n_down f' = true))).
  assert (OTHER : forall evs, (forall k, evq_xsigs k evs = if Nat.eqb n k then up_xsig m else []) ->
                  forall k, k <> n -> evq_xsigs k evs = []).
  { intros evs Hs k Hk. rewrite Hs. destruct (Nat.eqb n k) eqn:E; [apply Nat.eqb_eq in E; congruence|reflexivity]. }
  destruct (n_down f) eqn:Edn.
  { assert (H' : (d, @nil out, Ok (@nil cevent)) = (d', o, r)).
    { destruct m as [e|ids|sk|i ms|dec| | |]; exact H. }
    inv H'. split; [reflexivity|]. exists [], ws. split; [reflexivity|]. split; [exact Els|].
    split; [reflexivity|]. split; [discriminate|]. split; [reflexivity|]. split; [constructor|].
    do 9 (split; [reflexivity|]). split; [intros; reflexivity|].
    exists f. split; [exact Ef|]. do 3 (split; [reflexivity|]). split; [auto|]. split; [auto|]. intros b _. exact Edn. }
  assert (SAME : forall evs, (d, @nil out, Ok evs) = (d', o, r) ->
            (forall k, evq_xsigs k evs = if Nat.eqb n k then up_xsig m else []) ->
            flat_map ev_inds evs = up_inds m -> Forall ok_ev3w evs ->
            (forall b, ~ In (XFin b) (up_xsig m)) -> GOAL).
  { intros evs E Hs Hi Hok Hnf. inv E. split; [reflexivity|]. exists evs, ws.
    split; [reflexivity|]. split; [exact Els|]. split; [discriminate|]. split; [auto|]. split; [apply OTHER; exact Hs|].
    split; [exact Hok|]. do 9 (split; [reflexivity|]). split; [intros; reflexivity|].
    exists f. split; [exact Ef|]. do 3 (split; [reflexivity|]). split; [intros X; congruence|]. split; [intros X; left; congruence|].
    intros b Hb. exfalso. exact (Hnf b Hb). }
  assert (DOWN : forall evs, (d_set_nt d (aset n (down_flag f) (ws_nt ws)), @nil out, Ok evs) = (d', o, r) ->
            (exists b, m = UEv (EFinished b)) ->
            (forall k, evq_xsigs k evs = if Nat.eqb n k then up_xsig m else []) ->
            flat_map ev_inds evs = up_inds m -> Forall ok_ev3w evs -> GOAL).
  { intros evs E Hfin Hs Hi Hok. inv E. split; [reflexivity|]. exists evs, (ws_set_nt ws (aset n (down_flag f) (ws_nt ws))).
    split; [reflexivity|]. split; [unfold d_set_nt; rewrite Els; reflexivity|].
    split; [discriminate|]. split; [auto|]. split; [apply OTHER; exact Hs|]. split; [exact Hok|].
    do 9 (split; [reflexivity|]).
    split.
    - intros k Hk. cbn [ws_nt ws_set_nt]. rewrite LoadProofs.aget_aset.
      destruct (Nat.eqb k n) eqn:E; [|reflexivity]. apply Nat.eqb_eq in E. contradiction.
    - exists (down_flag f). cbn [ws_nt ws_set_nt]. rewrite StealProofs.aget_aset_eq.
      split; [reflexivity|]. cbn. repeat split; auto. }
  assert (SG : forall (g : xsig) k, (if Nat.eqb n k then [g] else []) ++ [] = if Nat.eqb n k then [g] else []).
  { intros g k. destruct (Nat.eqb n k); reflexivity. }
  assert (SN : forall k, @nil xsig = if Nat.eqb n k then [] else []) by (intros k; destruct (Nat.eqb n k); reflexivity).
  assert (OK1 : forall ev, match ev with QInternalError _ | QFinished _ SKKbd => False
                                       | QCollFinish n0 ids0 => ids0 = c_coll c n0 | _ => True end ->
                match ev_xsig ev with Some (m0, _) => m0 < N | None => True end -> Forall ok_ev3w [ev]).
  { intros ev A B. constructor; [split; assumption|constructor]. }
  assert (NF0 : forall b, ~ In (XFin b) (@nil xsig)) by (intros b []).
  destruct m as [e|ids|sk|i ms|dec| | |]; cbn [ok_up] in Hm; try contradiction.
  - destruct e as [| |ck cf| |li|ri rk roc|fi|ci|ux|stopreq]; cbn [ok_up3w] in Hm3; unfold ret in H.
    + eapply SAME; [exact H| |reflexivity|apply OK1; cbn; auto|]. { intros k0. cbn. apply SG. } intros b [F|[]]; discriminate.
    + eapply SAME; [exact H| |reflexivity|constructor|exact NF0]. intros k0. cbn. apply SN.
    + eapply SAME; [exact H| |reflexivity|apply OK1; cbn; auto|exact NF0]. intros k0. cbn. apply SN.
    + eapply SAME; [exact H| |reflexivity|constructor|exact NF0]. intros k0. cbn. apply SN.
    + eapply SAME; [exact H| |reflexivity|apply OK1; cbn; auto|exact NF0]. intros k0. cbn. apply SN.
    + eapply SAME; [exact H| |reflexivity|apply OK1; cbn; auto|exact NF0]. intros k0. cbn. apply SN.
    + eapply SAME; [exact H| |reflexivity|apply OK1; cbn; auto|exact NF0]. intros k0. cbn. apply SN.
    + eapply SAME; [exact H| |reflexivity|apply OK1; cbn; auto|]. { intros k0. cbn. apply SG. } intros b [F|[]]; discriminate.
    + eapply SAME; [exact H| |cbn; apply app_nil_r|apply OK1; cbn; auto|]. { intros k0. cbn. apply SG. } intros b [F|[]]; discriminate.
    + rewrite mbind_put in H. unfold ret in H.
      eapply DOWN; [exact H|eexists; reflexivity| |reflexivity|apply OK1; destruct stopreq; cbn; auto].
      intros k0. cbn. destruct stopreq; apply SG.
  - unfold ret in H. eapply SAME; [exact H| |reflexivity|apply OK1; cbn; auto|]. { intros k0. cbn. apply SG. } intros b [F|[]]; discriminate.
  - unfold ret in H. eapply SAME; [exact H| |reflexivity|apply OK1; cbn; auto|]. { intros k0. cbn. apply SG. } intros b [F|[]]; discriminate.
Qed.

Lemma xsigs_ext s s' n :
  y_evq s' = y_evq s -> alist_get [] n (y_up s') = alist_get [] n (y_up s) -> xsigs s' n = xsigs s n.
Proof. intros E1 E2. unfold xsigs. rewrite E1, E2. reflexivity. Qed.

Lemma worker_knownw s n : akeys (y_w s) = seq 0 N -> n < N -> exists w, aget n (y_w s) = Some w.
Proof.
  intros Ek Hn. destruct (aget n (y_w s)) as [w|] eqn:E; [eauto|]. exfalso.
  apply aget_none_notin in E. apply E. rewrite Ek. apply in_seq. lia.
Qed.

Lemma worker_ltw s n w : akeys (y_w s) = seq 0 N -> aget n (y_w s) = Some w -> n < N.
Proof. intros Ek E. apply aget_some_in in E. rewrite Ek in E. apply in_seq in E. lia. Qed.

Lemma not_errd_sinvw s s' :
  SInvW s' \/ (y_w s' = y_w s /\ Errd s') -> (forall e, y_result s' <> Some (RError e)) -> SInvW s'.
Proof. intros [H|(_ & (e & He))] Hn; [exact H|]. exfalso. exact (Hn e He). Qed.

(* ---- a worker step that pushes events onto its wire ---- *)
Lemma cinv_pushw P P' s n0 w0 w' evs :
  CInvG P s -> aget n0 (y_w s) = Some w0 ->
  let s' := push_up (set_w s n0 w') n0 (map (up_of_wevent c n0) evs) in
  SInvW s' ->
  (forall n, n <> n0 -> P' n = P n) -> (P n0 = true -> P' n0 = true) ->
  (forall ws, d_sched (y_d s) = StW ws -> NInvG P s ws n0 w0 -> NInvG P' s' ws n0 w') ->
  Permutation (w_tokens_ws w' ++ flat_map wev_inds evs) (w_tokens_ws w0) ->
  (wph w0 = PExited -> wph w' = PExited /\ (P n0 = false -> flat_map we_xsig evs = [])) ->
  (forall ws, d_sched (y_d s) = StW ws -> P' n0 = true -> wph w' = PExited -> closed ws s' n0) ->
  (P' n0 = true -> In n0 (d_active (y_d s)) \/ d_shouldstop (y_d s) = true) ->
  CInvG P' s'.
Proof.
  intros [Inv Ek (ws & DJd & NIs) Eq Eu Edn Ea Er Epm Efin Edw Ecl Eef Est Epo] Ew s' Inv' HP HP0 Hni Hperm Hex Hcl Hst.
  assert (HnN : n0 < N) by (eapply worker_ltw; eauto).
  pose proof DJd as ([Els _ _ _ _ _] & _).
  assert (Sgx : forall n, n <> n0 -> xsigs s' n = xsigs s n).
  { intros n Hn. unfold xsigs, s'. cbn [push_up set_w y_evq y_up]. rewrite FifoProofs.alist_get_aset_neq by exact Hn. reflexivity. }
  assert (Sgh : forall wsx n, n <> n0 -> hsigs wsx s' n = hsigs wsx s n).
  { intros wsx n Hn. unfold hsigs, s'. cbn [push_up set_w y_evq y_up]. rewrite FifoProofs.alist_get_aset_neq by exact Hn. reflexivity. }
  constructor.
  - exact Inv'.
  - unfold s'. cbn [push_up set_w y_w]. rewrite akeys_aset_in; [exact Ek|]. eapply aget_some_in; eauto.
  - exists ws. split; [exact DJd|]. intros n w Hw.
    destruct (Nat.eq_dec n n0) as [->|Hn].
    + unfold s' in Hw. cbn [push_up set_w y_w] in Hw. rewrite FifoProofs.aget_aset_eq in Hw. inv Hw.
      apply Hni; [exact Els|]. apply NIs. exact Ew.
    + unfold s' in Hw. cbn [push_up set_w y_w] in Hw. rewrite FifoProofs.aget_aset_neq in Hw by exact Hn.
      pose proof (NIs n w Hw) as X. unfold NInvG in *. rewrite (HP n Hn), (Sgx n Hn), (Sgh ws n Hn).
      unfold s'. cbn [push_up set_w y_d y_down]. exact X.
  - exact Eq.
  - intros n. unfold s'. cbn [push_up set_w y_up]. destruct (Nat.eq_dec n n0) as [->|Hn].
    + rewrite FifoProofs.alist_get_aset_eq. split; [|intros; lia].
      apply Forall_app. split; [apply Eu|]. apply Forall_forall. intros m Hm. apply in_map_iff in Hm.
      destruct Hm as (e & <- & He). destruct e; cbn; auto. destruct oc; cbn; auto.
    + rewrite FifoProofs.alist_get_aset_neq by exact Hn. apply Eu.
  - exact Edn.
  - exact Ea.
  - exact Er.
  - intros HP' ws1 coll Els1 Ec1.
    assert (HPn : forall n, P n = false).
    { intros n. destruct (Nat.eq_dec n n0) as [->|Hn]; [|rewrite <- (HP n Hn); apply HP'].
      destruct (P n0) eqn:E; [|reflexivity]. specialize (HP' n0). rewrite (HP0 eq_refl) in HP'. discriminate. }
    unfold s'. cbn [push_up set_w y_d]. rewrite <- (Epm HPn ws1 coll Els1 Ec1).
    apply Permutation_app_head. unfold wires_ws. apply Permutation_app; [|reflexivity].
    unfold nodes_ws. cbn [push_up set_w y_w]. rewrite akeys_aset_in by (eapply aget_some_in; eauto).
    apply perm_flat_map_pointwise. intros k _. unfold node_tokens_ws. cbn [push_up set_w y_w y_down y_up].
    destruct (Nat.eq_dec k n0) as [->|Hk].
    + rewrite FifoProofs.aget_aset_eq, Ew, FifoProofs.alist_get_aset_eq, flat_map_app, up_inds_map. permc_with Hperm.
    + rewrite FifoProofs.aget_aset_neq, FifoProofs.alist_get_aset_neq by exact Hk. reflexivity.
  - exact Efin.
  - intros ws1 n f w Els1 Ef Hd Hw. unfold s' in Hw, Els1 |- *. cbn [push_up set_w y_w y_d y_up] in Hw, Els1 |- *.
    destruct (Nat.eq_dec n n0) as [->|Hn].
    + rewrite FifoProofs.aget_aset_eq in Hw. inv Hw. destruct (Edw ws1 n0 f w0 Els1 Ef Hd Ew) as (X1 & X2).
      destruct (Hex X1) as (Y1 & Y2). split; [exact Y1|]. intros HP'.
      assert (HPn : P n0 = false) by (destruct (P n0) eqn:E; [rewrite (HP0 eq_refl) in HP'; discriminate|reflexivity]).
      rewrite FifoProofs.alist_get_aset_eq, flat_map_app, up_xsigs_of_wevents, (X2 HPn), (Y2 HPn). reflexivity.
    + rewrite FifoProofs.aget_aset_neq in Hw by exact Hn. rewrite FifoProofs.alist_get_aset_neq by exact Hn.
      rewrite (HP n Hn). exact (Edw ws1 n f w Els1 Ef Hd Hw).
  - intros ws1 n w Els1 Hp Hw Hph. unfold s' in Hw, Els1. cbn [push_up set_w y_w y_d] in Hw, Els1.
    destruct (Nat.eq_dec n n0) as [->|Hn].
    + rewrite FifoProofs.aget_aset_eq in Hw. inv Hw. apply Hcl; assumption.
    + rewrite FifoProofs.aget_aset_neq in Hw by exact Hn. rewrite (HP n Hn) in Hp.
      destruct (Ecl ws1 n w Els1 Hp Hw Hph) as [X|X]; [left; exact X|right].
      unfold s'. cbn [push_up set_w y_up]. rewrite FifoProofs.alist_get_aset_neq by exact Hn. exact X.
  - intros ws1 n b Els1 Hi. exact (Eef ws1 n b Els1 Hi).
  - intros n Hp. unfold s'. cbn [push_up set_w y_d]. destruct (Nat.eq_dec n n0) as [->|Hn]; [exact (Hst Hp)|].
    rewrite (HP n Hn) in Hp. exact (Est n Hp).
  - intros n Hn. rewrite (HP n); [exact (Epo n Hn)|lia].
Qed.

(* ---- the preconditions of the handlers follow from the invariant ---- *)
Lemma xsigs_head s ev q n :
  y_evq s = ev :: q -> xsigs s n = ev_xsigs_for n ev ++ (evq_xsigs n q ++ flat_map up_xsig (alist_get [] n (y_up s))).
Proof. intros E. unfold xsigs. rewrite E. cbn [evq_xsigs flat_map]. rewrite <- app_assoc. reflexivity. Qed.

Lemma hsigs_head ws s ev q n :
  y_evq s = ev :: q ->
  hsigs ws s n = ev_xsigs_for n ev ++ (evq_xsigs n q ++ hup (ndown ws n) (alist_get [] n (y_up s))).
Proof. intros E. unfold hsigs. rewrite E. cbn [evq_xsigs flat_map]. rewrite <- app_assoc. reflexivity. Qed.

Lemma pre_from_invw P s ws ev q :
  akeys (y_w s) = seq 0 N -> DJWc (y_d s) ws ->
  (forall n w, aget n (y_w s) = Some w -> NInvG P s ws n w) ->
  y_evq s = ev :: q -> ok_ev ev -> ok_ev3w ev -> PREW N (c_coll c) ev (y_d s) ws.
Proof.
  intros Ek DJd NIs Eq Hok (Hok3 & Hnode).
  assert (NODE : forall n g, ev_xsig ev = Some (n, g) ->
            exists w L, aget n (y_w s) = Some w /\
              (NIW ws (d_active (y_d s)) n (g :: L) (alist_get [] n (y_down s)) w \/
               NIWS (c_oracle c n) ws (d_active (y_d s)) n (g :: L) (alist_get [] n (y_down s)) w)).
  { intros n g Eg. rewrite Eg in Hnode. destruct (worker_knownw s n Ek Hnode) as (w & Ew).
    exists w. pose proof (NIs n w Ew) as X. unfold NInvG in X. destruct (P n).
    - eexists. split; [exact Ew|]. right.
      rewrite (hsigs_head ws s ev q n Eq) in X. unfold ev_xsigs_for in X. rewrite Eg, Nat.eqb_refl in X. exact X.
    - eexists. split; [exact Ew|]. left.
      rewrite (xsigs_head s ev q n Eq) in X. unfold ev_xsigs_for in X. rewrite Eg, Nat.eqb_refl in X. exact X. }
  assert (ACT : forall n g, ev_xsig ev = Some (n, g) -> In n (d_active (y_d s))).
  { intros n g Eg. destruct (NODE n g Eg) as (w & L & _ & [X|X]);
      (destruct (in_dec Nat.eq_dec n (d_active (y_d s))) as [Hin|Hni]; [exact Hin|]).
    - destruct (nw_act _ _ _ _ _ _ X Hni) as (F & _). discriminate.
    - destruct (sw_act _ _ _ _ _ _ _ X Hni) as (F & _). discriminate. }
  destruct ev as [n|n ids|n key fl|n i|n i|n i k oc|n i ms|n ixs| |n|n sk|n]; cbn [PREW]; cbn in Hok, Hok3; try contradiction; auto.
  - destruct (NODE n XReady eq_refl) as (w & L & Ew & X). cbn in Hnode. split; [exact Hnode|].
    intros _. split; [|exact (ACT n XReady eq_refl)].
    intros Hin. destruct X as [X|X].
    + destruct (nw_nodes _ _ _ _ _ _ X Hin) as (F & _). apply F. left. reflexivity.
    + apply (sw_nodes _ _ _ _ _ _ _ X Hin). left. reflexivity.
  - destruct (NODE n XCF eq_refl) as (w & L & Ew & X). cbn in Hnode. split; [exact Hnode|].
    split; [|exact Hok3].
    intros Hin. destruct X as [X|X].
    + destruct (nw_n2c _ _ _ _ _ _ X Hin) as (F & _). apply F. left. reflexivity.
    + apply (sw_n2c _ _ _ _ _ _ _ X Hin). left. reflexivity.
  - destruct (NODE n (XComp i) eq_refl) as (w & L & Ew & [X|X]).
    + pose proof (nw_coupled _ _ _ _ _ _ X) as Cp. cbn [xcompletes flat_map app] in Cp.
      eapply Permutation_in; [apply Permutation_sym; exact Cp|]. left. reflexivity.
    + pose proof (sw_sub _ _ _ _ _ _ _ X) as Sb. cbn [xcompletes flat_map app] in Sb.
      eapply sub_in; [exact Sb|]. left. reflexivity.
  - destruct (NODE n (XUns ixs) eq_refl) as (w & L & Ew & X).
    assert (Hle : 1 <= cnt (ws_steal ws) n).
    { destruct X as [X|X].
      - pose proof (nw_steal _ _ _ _ _ _ X) as St. unfold nuns in St. cbn [filter is_uns length] in St. lia.
      - pose proof (sw_stle _ _ _ _ _ _ _ X) as St. unfold nuns in St. cbn [filter is_uns length] in St. lia. }
    split; [pose proof (cnt_le1 (ws_steal ws) n); apply cnt_pos; lia|].
    assert (Sb : sub (xcompletes (XUns ixs :: L) ++ owed_w w ++ flat_map cmd_inds (alist_get [] n (y_down s)) ++
                      xbacks (XUns ixs :: L) ++ R w) (bkw ws n)).
    { destruct X as [X|X]; [apply sub_perm; apply Permutation_sym; exact (nw_coupled _ _ _ _ _ _ X)|exact (sw_sub _ _ _ _ _ _ _ X)]. }
    destruct Sb as (y & Py). cbn [xcompletes xbacks flat_map app] in Py.
    eexists. rewrite <- Py. unfold xcompletes, xbacks. rewrite <- !app_assoc.
    match goal with |- Permutation (?a ++ ?b ++ ?cc ++ ixs ++ ?dd) _ =>
      instantiate (1 := a ++ b ++ cc ++ dd) end. permc.
  - destruct sk; try contradiction.
    + destruct (NODE n (XFin false) eq_refl) as (w & L & Ew & [X|X]).
      * destruct (NIW_finished_empty _ _ _ _ _ _ X) as (Eb & Hf & Hst).
        split; [exact (ACT n _ eq_refl)|]. split; [|split; [exact Hf|exact Hst]].
        intros Hin. apply LoadProofs.aget_In_keys in Hin. unfold bkw, alist_get in Eb.
        destruct (aget n (ws_n2p ws)) as [b|]; [congruence|contradiction].
      * exfalso. apply (sw_nofalse _ _ _ _ _ _ _ X). left. reflexivity.
    + exact (ACT n _ eq_refl).
Qed.

(* ---- one iteration of the controller loop ---- *)
Lemma ndown_leff ev d ws d' ws' outs k : LEFFWc ev d ws d' ws' outs -> ndown ws' k = ndown ws k.
Proof.
  intros LE. pose proof (lw_nt _ _ _ _ _ _ _ _ LE k) as R0. unfold ndown.
  destruct (aget k (ws_nt ws)) as [f|], (aget k (ws_nt ws')) as [f'|]; cbn in R0; try contradiction; [|reflexivity].
  destruct (NRW_fields _ _ _ R0) as (_ & B & _). exact B.
Qed.

Lemma ctl_corew P s ev q d' outs ws ws' rr :
  CInvG P s -> y_evq s = ev :: q -> DJWc (y_d s) ws -> WI ws ->
  (forall n w, aget n (y_w s) = Some w -> NInvG P s ws n w) ->
  LEFFWc ev (y_d s) ws d' ws' outs -> Forall good_out_ws outs -> WT ws ws' outs (ev_inds ev) ->
  SInvW (set_result (apply_outs (set_d (set_evq s q) d') outs) rr) ->
  (forall e, rr <> Some (RError e)) -> (rr = None -> d_active d' <> []) ->
  (rr = Some RFinished -> d_session_finished d' = true /\ d_shouldstop d' = false) ->
  CInvG P (set_result (apply_outs (set_d (set_evq s q) d') outs) rr).
Proof.
  intros [Inv Ek _ Eq Eu Edn Ea Er Epm _ Edw Ecl Eef Est Epo] Eevq DJd Iw NIs LE Go HWT Inv' Hrr Hact Hfin.
  assert (Hd : y_dead (set_d (set_evq s q) d') = []) by (cbn; apply Inv).
  destruct (apply_outs_effw outs _ Hd Go) as (A1 & A2 & A3 & A4 & A5 & A6 & A7).
  cbn [set_d set_evq y_d y_evq y_up y_w y_dead y_result y_down] in A1, A2, A3, A4, A5, A6, A7.
  pose proof DJd as ([Els J _ _ _ _] & _).
  assert (Els' : d_sched d' = StW ws') by (destruct (lw_dj _ _ _ _ _ _ _ _ LE) as ([E1 _ _ _ _ _] & _); exact E1).
  constructor; cbn [set_result y_d y_evq y_up y_w y_dead y_result y_down].
  - exact Inv'.
  - rewrite A4. exact Ek.
  - exists ws'. rewrite A1, A4. split; [apply (lw_dj _ _ _ _ _ _ _ _ LE)|].
    intros n w Hw. pose proof (NIs n w Hw) as X. unfold NInvG in *. cbn [set_result y_d y_down]. rewrite A1, A7.
    assert (ND' : NoDup (bkw ws' n)).
    { apply bkw_nodup. destruct (lw_dj _ _ _ _ _ _ _ _ LE) as ([_ J' _ _ _ _] & _). apply (wj_nd _ _ _ J'). }
    destruct (P n).
    + assert (Es : hsigs ws' (set_result (apply_outs (set_d (set_evq s q) d') outs) rr) n
                   = evq_xsigs n q ++ hup (ndown ws n) (alist_get [] n (y_up s))).
      { unfold hsigs. cbn [set_result y_evq y_up]. rewrite A2, A3, (ndown_leff _ _ _ _ _ _ n LE). reflexivity. }
      rewrite Es. eapply NIWS_ctl; [exact LE|exact ND'|]. rewrite <- (hsigs_head ws s ev q n Eevq). exact X.
    + assert (Es : xsigs (set_result (apply_outs (set_d (set_evq s q) d') outs) rr) n
                   = evq_xsigs n q ++ flat_map up_xsig (alist_get [] n (y_up s))).
      { unfold xsigs. cbn [set_result y_evq y_up]. rewrite A2, A3. reflexivity. }
      rewrite Es. eapply NIW_ctl; [exact LE|apply bkw_nodup; apply (wj_nd _ _ _ J)|exact ND'|].
      rewrite <- (xsigs_head s ev q n Eevq). exact X.
  - rewrite A2. rewrite Eevq in Eq. inversion Eq; assumption.
  - rewrite A3. exact Eu.
  - intros n Hn. rewrite A7, (Edn n Hn). cbn [app].
    pose proof (lw_nt _ _ _ _ _ _ _ _ LE n) as R0.
    destruct (aget n (ws_nt ws)) as [f|] eqn:Ef.
    + exfalso. assert (X : n < N) by (apply (wj_ntk _ _ _ J n); congruence). lia.
    + destruct (aget n (ws_nt ws')); [destruct R0|exact R0].
  - rewrite A1. exact Hact.
  - exact Hrr.
  - intros HPn ws1 coll Els1 Ec1. rewrite A1 in Els1.
    assert (ws1 = ws') by congruence. subst ws1.
    assert (CK : forall k, ~ In k (akeys (y_w s)) -> cmds_to k outs = []).
    { intros k Hk. rewrite Ek in Hk. pose proof (lw_nt _ _ _ _ _ _ _ _ LE k) as R0.
      destruct (aget k (ws_nt ws)) as [f|] eqn:Ef.
      - exfalso. apply Hk. apply in_seq. assert (X : k < N) by (apply (wj_ntk _ _ _ J k); congruence). lia.
      - destruct (aget k (ws_nt ws')); [destruct R0|exact R0]. }
    assert (W : Permutation (nodes_ws (set_result (apply_outs (set_d (set_evq s q) d') outs) rr))
                            (nodes_ws s ++ sent_inds outs)).
    { rewrite <- (sent_permw (akeys (y_w s)) outs (sw_keys _ Inv) CK Go).
      apply nodes_ws_apply; cbn [set_result y_w y_up y_down]; [exact A4|exact A3|exact A7]. }
    assert (Eq2 : evq_inds (set_result (apply_outs (set_d (set_evq s q) d') outs) rr) = flat_map ev_inds q).
    { unfold evq_inds. cbn [set_result y_evq]. rewrite A2. reflexivity. }
    unfold wires_ws. rewrite Eq2.
    destruct HWT as (T1 & T2 & T3). specialize (T3 coll Ec1). unfold vpw in T3 at 2. rewrite Ec1 in T3.
    destruct (ws_coll ws) as [c0|] eqn:Ec0.
    + assert (c0 = coll) by (specialize (T1 c0 eq_refl); congruence). subst c0.
      pose proof (Epm HPn ws coll Els Ec0) as P0. unfold wires_ws, evq_inds in P0. rewrite Eevq in P0. cbn [flat_map] in P0.
      unfold vpw in T3. rewrite Ec0 in T3.
      rewrite <- P0. rewrite W.
      apply (proj2 (Permutation_count_occ Nat.eq_dec _ _)). intros x.
      pose proof (proj1 (Permutation_count_occ Nat.eq_dec _ _) T3 x) as T3x.
      repeat first [rewrite count_occ_app in T3x | rewrite count_occ_app]. lia.
    + destruct Inv as [_ _ (wsx & Elsx & _ & (_ & K2 & _)) _ _ _ _ _].
      assert (wsx = ws) by congruence. subst wsx. pose proof (K2 Ec0) as Z. unfold wires_ws in Z.
      apply app_eq_nil in Z. destruct Z as (Z1 & Z2). unfold evq_inds in Z2. rewrite Eevq in Z2. cbn [flat_map] in Z2.
      apply app_eq_nil in Z2. destruct Z2 as (Z2 & Z3).
      unfold vpw in T3. rewrite Ec0, Z2, app_nil_r in T3. rewrite W, Z1, Z3. cbn [app]. rewrite app_nil_r.
      rewrite T3. apply Permutation_app_comm.
  - rewrite A1. exact Hfin.
  - intros ws1 n f' w Els1 Ef' Hdw Hw. rewrite A1 in Els1. rewrite A4 in Hw. rewrite A3.
    assert (ws1 = ws') by congruence. subst ws1.
    destruct (NRWo_open _ _ _ _ (lw_nt _ _ _ _ _ _ _ _ LE n) Ef') as (f & Ef & R0).
    destruct (NRW_fields _ _ _ R0) as (_ & B & _).
    apply (Edw ws n f w Els Ef); [congruence|exact Hw].
  - intros ws1 n w Els1 Hp Hw Hph. rewrite A1 in Els1. rewrite A4 in Hw.
    assert (ws1 = ws') by congruence. subst ws1.
    unfold closed. cbn [set_result y_up]. rewrite A3, (ndown_leff _ _ _ _ _ _ n LE). exact (Ecl ws n w Els Hp Hw Hph).
  - intros ws1 n b Els1 Hi. rewrite A1 in Els1. rewrite A2 in Hi.
    assert (ws1 = ws') by congruence. subst ws1. rewrite (ndown_leff _ _ _ _ _ _ n LE).
    apply (Eef ws n b Els). rewrite Eevq. cbn [evq_xsigs flat_map]. apply in_or_app. right. exact Hi.
  - intros n Hp. rewrite A1. destruct (Est n Hp) as [Hin|Hss].
    + destruct (lw_act _ _ _ _ _ _ _ _ LE n Hin) as [X|(b & Hev)]; [left; exact X|right].
      assert (HnN : n < N).
      { destruct (Nat.lt_ge_cases n N) as [X|X]; [exact X|]. rewrite (Epo n X) in Hp. discriminate. }
      destruct (worker_knownw s n Ek HnN) as (w & Ew). pose proof (NIs n w Ew) as X. unfold NInvG in X. rewrite Hp in X.
      rewrite (hsigs_head ws s ev q n Eevq) in X. unfold ev_xsigs_for in X. rewrite Hev, Nat.eqb_refl in X.
      destruct b.
      * exact (lw_stop _ _ _ _ _ _ _ _ LE n Hev).
      * exfalso. apply (sw_nofalse _ _ _ _ _ _ _ X). left. reflexivity.
    + right. exact (lw_ss _ _ _ _ _ _ _ _ LE Hss).
  - exact Epo.
Qed.

(* ---- the initial state ---- *)
Lemma CInvW_init : c_mode c = MSteal -> 0 < N -> CInvG (fun _ => false) (sys_init c).
Proof.
  intros Hm Hpos. constructor.
  - apply SInvW_init. exact Hm.
  - cbn [sys_init y_w]. apply (akeys_map_seq (fun _ => w_init)).
  - cbn [sys_init y_d d_sched]. rewrite Hm. cbn [s_init s_set_nt].
    eexists. split.
    + split.
      * constructor; [reflexivity| | | | |].
        -- constructor; cbn [ws_set_nt ws_init ws_numnodes ws_nt ws_nodes ws_n2p ws_n2c ws_pending ws_coll ws_steal akeys map].
           ++ reflexivity.
           ++ apply aget_init_nt.
           ++ intros n [].
           ++ constructor.
           ++ intros n [].
           ++ constructor.
           ++ intros F. exfalso. apply F. reflexivity.
           ++ split; [intros k ids []|]. intros X _ C0. exfalso.
              unfold ws_collection_is_completed in C0. cbn [ws_set_nt ws_init ws_numnodes ws_n2c length] in C0.
              apply Nat.leb_le in C0. lia.
           ++ intros v F. discriminate.
           ++ constructor.
           ++ reflexivity.
        -- cbn. intros _ _ n [].
        -- cbn [ws_set_nt ws_init ws_nt]. intros _ (n & f & Ef & Hs). rewrite (aget_init_nt_sd c n f Ef) in Hs. discriminate.
        -- cbn. discriminate.
        -- cbn. discriminate.
      * cbn. discriminate.
    + intros n w Ew. cbn [sys_init y_w] in Ew. pose proof (aget_some_in _ _ _ Ew) as Hk.
      rewrite (akeys_map_seq (fun _ => w_init)) in Hk. apply in_seq in Hk.
      apply aget_map_const in Ew. subst w.
      assert (Esg : xsigs (sys_init c) n = []).
      { unfold xsigs. cbn [sys_init y_evq y_up]. rewrite alist_get_map_nil. reflexivity. }
      unfold NInvG. rewrite Esg. cbn [sys_init y_down y_d d_active]. rewrite alist_get_map_nil.
      constructor; cbn [ws_set_nt ws_init ws_nt ws_nodes ws_n2p ws_n2c ws_steal akeys map w_init wph wcb prank].
      * destruct (aget n (init_nt c)) as [f|] eqn:Ef.
        -- exists f. split; [reflexivity|]. cbn. apply mark_okb_nil.
        -- exfalso. apply (proj2 (aget_init_nt c n)); [lia|exact Ef].
      * reflexivity.
      * apply xchan_ok_nil.
      * intros [].
      * intros [].
      * intros F. exfalso. apply F. apply in_seq. lia.
      * intros [F|(b & F)]; discriminate.
      * discriminate.
      * exact I.
      * discriminate.
      * reflexivity.
      * constructor.
      * reflexivity.
  - constructor.
  - intros n. cbn [sys_init y_up]. rewrite alist_get_map_nil. split; [constructor|reflexivity].
  - intros n _. cbn [sys_init y_down]. apply alist_get_map_nil.
  - intros _. cbn [sys_init y_d d_active]. destruct N; [lia|]. cbn. discriminate.
  - intros e. cbn. discriminate.
  - intros _ ws coll Els Ec. cbn [sys_init y_d d_sched] in Els. rewrite Hm in Els. cbn [s_init s_set_nt] in Els.
    inv Els. discriminate.
  - cbn. discriminate.
  - intros ws n f w Els Ef Hd _. cbn [sys_init y_d d_sched] in Els. rewrite Hm in Els. cbn [s_init s_set_nt] in Els.
    inv Els. cbn [ws_set_nt ws_nt] in Ef. rewrite (aget_init_nt_dn c n f Ef) in Hd. discriminate.
  - discriminate.
  - intros ws n b _ [].
  - discriminate.
  - reflexivity.
Qed.

End SysW.

(* ====================================================================================== *)
(* Part D.3: every step keeps the invariant *)
(* ====================================================================================== *)

Lemma LJW_same N collf ws ws' :
  LJW N collf ws -> ws_numnodes ws' = ws_numnodes ws ->
  (forall n, aget n (ws_nt ws') <> None <-> aget n (ws_nt ws) <> None) ->
  ws_n2p ws' = ws_n2p ws -> ws_n2c ws' = ws_n2c ws -> ws_coll ws' = ws_coll ws ->
  ws_steal ws' = ws_steal ws -> ws_pending ws' = ws_pending ws -> LJW N collf ws'.
Proof.
  intros J Km Kt Kp Kn Kc Ks Kq. constructor.
  - rewrite Km. apply J.
  - intros n. rewrite Kt. apply J.
  - unfold ws_nodes. rewrite Kp. apply J.
  - unfold ws_nodes. rewrite Kp. apply J.
  - rewrite Kn. apply J.
  - rewrite Kn. apply J.
  - unfold ws_collection_is_completed. rewrite Kc, Km, Kn. apply J.
  - apply (LGW_ext _ ws ws' (wj_lg _ _ _ J) Kn Kc Km).
  - rewrite Ks. unfold ws_nodes. rewrite Kp. apply J.
  - unfold StealProofs.tokens, StealProofs.books. rewrite Kq, Kp. apply J.
  - rewrite Kc. unfold StealProofs.books. rewrite Kp. apply J.
Qed.

Lemma phase_eq_dec_stop (p : phase) : p = PFinishing true \/ p <> PFinishing true.
Proof. destruct p as [| | | | | | |[|]|]; try (right; discriminate). left. reflexivity. Qed.

Lemma uns_nofin evs :
  Forall (fun e => match e with EUnscheduled _ => True | _ => False end) evs -> hasfin (flat_map we_xsig evs) = false.
Proof.
  induction 1 as [|e evs He _ IH]; [reflexivity|]. cbn [flat_map]. rewrite hasfin_app, IH, orb_false_r.
  destruct e; try contradiction. reflexivity.
Qed.

Lemma nofin_hasfin l : (forall b, ~ In (XFin b) l) -> hasfin l = false.
Proof.
  intros H. destruct (hasfin l) eqn:E; [|reflexivity]. apply hasfin_in in E. destruct E as (b & Hb). exfalso. exact (H b Hb).
Qed.

Section StepW.
Variable c : config.
Notation N := (c_numnodes c).
Hypothesis Hnc : forall n i, c_crash_in c n i = false.
Hypothesis Hng : no_garbled c.
Hypothesis Hne : forall k, ~ In ""%string (c_coll c k).
Notation CInvGc := (CInvG c).
Notation DJWc := (DJW N (c_coll c)).

(* what is heard of n0 after it has pushed events onto its wire *)
Lemma hsigs_push_open ws s n0 w' evs :
  ndown ws n0 = false -> hasfin (flat_map up_xsig (alist_get [] n0 (y_up s))) = false ->
  hasfin (flat_map we_xsig evs) = false \/ length (flat_map we_xsig evs) <= 1 ->
  hsigs ws (push_up (set_w s n0 w') n0 (map (up_of_wevent c n0) evs)) n0 =
  evq_xsigs n0 (y_evq s) ++ flat_map up_xsig (alist_get [] n0 (y_up s)) ++ flat_map we_xsig evs.
Proof.
  intros Hd Hf Hn. unfold hsigs, hup. cbn [push_up set_w y_evq y_up]. rewrite Hd, FifoProofs.alist_get_aset_eq.
  rewrite flat_map_app, up_xsigs_of_wevents, cutfin_app, Hf. f_equal. f_equal.
  destruct Hn as [Hn|Hn]; [apply cutfin_nofin; exact Hn|apply cutfin_small; exact Hn].
Qed.

Lemma hsigs_push_closed ws s n0 w' evs :
  closed ws s n0 -> hsigs ws (push_up (set_w s n0 w') n0 (map (up_of_wevent c n0) evs)) n0 = hsigs ws s n0.
Proof.
  intros [Hd|Hf]; unfold hsigs, hup; cbn [push_up set_w y_evq y_up]; [rewrite Hd; reflexivity|].
  destruct (ndown ws n0); [reflexivity|]. rewrite FifoProofs.alist_get_aset_eq, flat_map_app, cutfin_app, Hf. reflexivity.
Qed.

Lemma hsigs_open ws s n0 :
  ndown ws n0 = false -> hasfin (flat_map up_xsig (alist_get [] n0 (y_up s))) = false -> hsigs ws s n0 = xsigs s n0.
Proof. intros Hd Hf. unfold hsigs, xsigs, hup. rewrite Hd, (cutfin_nofin _ Hf). reflexivity. Qed.

Lemma step_cinvw P s l s' o w :
  no_crash_label l -> CInvGc P s -> sys_step c s l = Some (s', o, w) -> exists P', CInvGc P' s'.
Proof.
  intros Hl CI H.
  pose proof (step_sinvw c s l s' o w Hnc Hng Hne Hl (cw_sinv _ _ _ CI) H) as HS.
  pose proof CI as [Inv Ek (ws & DJd & NIs) Eq Eu Edn Ea Er Epm Efn Edw Ecl Eef Est Epo].
  pose proof Inv as [A B (ws0 & Els0 & Iw & T) D E E' F G].
  pose proof DJd as (J0 & Jss). pose proof J0 as [Els J Jb Jq Jg Jf].
  assert (ws0 = ws) by congruence. subst ws0.
  (* a node that is not down, with the main thread still in its loop or on the stop exit, has not yet said "finished" *)
  assert (OPEN : forall n0 w0, aget n0 (y_w s) = Some w0 -> wph w0 <> PExited -> prank (wph w0) <= 3 ->
            ndown ws n0 = false /\ hasfin (flat_map up_xsig (alist_get [] n0 (y_up s))) = false).
  { intros n0 w0 Ew Hnex0 Hk.
    assert (Hd : ndown ws n0 = false).
    { unfold ndown. destruct (aget n0 (ws_nt ws)) as [f|] eqn:Ef; [|reflexivity]. destruct (n_down f) eqn:Ed; [|reflexivity].
      destruct (Edw ws n0 f w0 Els Ef Ed Ew) as (X & _). contradiction. }
    split; [exact Hd|]. apply nofin_hasfin. intros b Hb.
    pose proof (NIs n0 w0 Ew) as X. unfold NInvG in X. destruct (P n0).
    - assert (Hin : In (XFin b) (hsigs ws s n0)).
      { unfold hsigs, hup. rewrite Hd. apply in_or_app. right.
        destruct (hasfin_cutfin _ (proj2 (hasfin_in _) (ex_intro _ b Hb))) as (b' & Hb').
        pose proof (sw_chan _ _ _ _ _ _ _ X) as Ch. exfalso.
        refine (xchan_nofin _ _ Ch Hk b' _). unfold hsigs, hup. rewrite Hd. apply in_or_app. right. exact Hb'. }
      exact (xchan_nofin _ _ (sw_chan _ _ _ _ _ _ _ X) Hk b Hin).
    - refine (xchan_nofin _ _ (nw_chan _ _ _ _ _ _ X) Hk b _). unfold xsigs. apply in_or_app. right. exact Hb. }
  unfold sys_step in H. destruct (y_result s) eqn:Eres; [discriminate|].
  destruct l as [n0|n0|n0|n0| |n0]; [| | | | |contradiction].
  - (* LDeliver *)
    replace (mem_nat n0 (y_dead s)) with false in H by (rewrite A; reflexivity).
    destruct (aget n0 (y_down s)) as [[|cmd rest]|] eqn:Ed; try discriminate.
    destruct (aget n0 (y_w s)) as [w0|] eqn:Ew; try discriminate.
    fin3 H s' o w. exists P.
    apply not_errd_sinvw in HS; [|intros e; cbn; discriminate].
    constructor; cbn [y_d y_evq y_down y_up y_w y_dead y_result].
    + exact HS.
    + rewrite akeys_aset_in; [exact Ek|]. eapply aget_some_in; eauto.
    + exists ws. split; [exact DJd|]. intros n w Hw. pose proof (fun w1 => NIs n w1) as X. unfold NInvG in *.
      unfold xsigs, hsigs. cbn [y_d y_down y_evq y_up]. fold (xsigs s n). fold (hsigs ws s n).
      destruct (Nat.eq_dec n n0) as [->|Hn].
      * rewrite FifoProofs.aget_aset_eq in Hw. inv Hw. rewrite FifoProofs.alist_get_aset_eq.
        specialize (X w0 Ew). rewrite (alist_get_some [] _ _ _ Ed) in X.
        destruct (P n0); [apply NIWS_deliver|apply NIW_deliver]; exact X.
      * rewrite FifoProofs.aget_aset_neq in Hw by exact Hn. rewrite FifoProofs.alist_get_aset_neq by exact Hn. apply X. exact Hw.
    + exact Eq.
    + exact Eu.
    + intros k Hk. destruct (Nat.eq_dec k n0) as [->|Hkn].
      * exfalso. pose proof (worker_ltw c s n0 w0 Ek Ew). lia.
      * rewrite FifoProofs.alist_get_aset_neq by exact Hkn. apply Edn. exact Hk.
    + exact Ea.
    + intros e. discriminate.
    + intros HPn ws1 coll Els1 Ec1. rewrite <- (Epm HPn ws1 coll Els1 Ec1). apply Permutation_app_head.
      unfold wires_ws. apply Permutation_app; [|reflexivity]. unfold nodes_ws. cbn [y_w].
      rewrite akeys_aset_in by (eapply aget_some_in; eauto).
      apply perm_flat_map_pointwise. intros k _. unfold node_tokens_ws. cbn [y_w y_down y_up].
      destruct (Nat.eq_dec k n0) as [->|Hk].
      * rewrite FifoProofs.aget_aset_eq, Ew, FifoProofs.alist_get_aset_eq, (alist_get_some [] _ _ _ Ed).
        cbn [flat_map]. pose proof (deliver_tokens_ws w0 cmd) as P0. permc_with P0.
      * rewrite FifoProofs.aget_aset_neq, FifoProofs.alist_get_aset_neq by exact Hk. reflexivity.
    + discriminate.
    + intros ws1 n f w Els1 Ef Hd Hw. destruct (Nat.eq_dec n n0) as [->|Hn].
      * rewrite FifoProofs.aget_aset_eq in Hw. inv Hw. destruct (Edw ws1 n0 f w0 Els1 Ef Hd Ew) as (X1 & X2).
        split; [|exact X2]. destruct (deliver_owed2 w0 cmd) as (_ & Ep & _). rewrite Ep. exact X1.
      * rewrite FifoProofs.aget_aset_neq in Hw by exact Hn. exact (Edw ws1 n f w Els1 Ef Hd Hw).
    + intros ws1 n w Els1 Hp Hw Hph. unfold closed. cbn [y_up]. destruct (Nat.eq_dec n n0) as [->|Hn].
      * rewrite FifoProofs.aget_aset_eq in Hw. inv Hw. destruct (deliver_owed2 w0 cmd) as (_ & Ep & _). rewrite Ep in Hph.
        exact (Ecl ws1 n0 w0 Els1 Hp Ew Hph).
      * rewrite FifoProofs.aget_aset_neq in Hw by exact Hn. exact (Ecl ws1 n w Els1 Hp Hw Hph).
    + exact Eef.
    + exact Est.
    + exact Epo.
  - (* LRecvW *)
    replace (mem_nat n0 (y_dead s)) with false in H by (rewrite A; reflexivity).
    destruct (aget n0 (y_w s)) as [w0|] eqn:Ew; try discriminate.
    destruct (negb (wcb w0)); [discriminate|].
    destruct (recv_step (c_oracle c n0) w0) as [w' evs] eqn:Es. fin3 H s' o w. exists P.
    destruct (G _ _ Ew) as (Iw0 & Gw & Sw & NGw).
    pose proof (recv_step_keeps (c_oracle c n0) w0) as (_ & _ & Eph). rewrite Es in Eph. cbn [fst] in Eph.
    assert (HSI : SInvW (push_up (set_w s n0 w') n0 (map (up_of_wevent c n0) evs))).
    { apply not_errd_sinvw in HS; [exact HS|]. intros e. cbn. rewrite ?Eres. discriminate. }
    pose proof (recv_step_tokens_ws (c_oracle c n0) w0 Gw) as (Ptok & _). rewrite Es in Ptok. cbn [fst snd] in Ptok.
    apply (cinv_pushw c P P s n0 w0 w' evs CI Ew HSI); auto.
    + (* the node's own invariant *)
      intros ws1 Els1 X1. assert (ws1 = ws) by congruence. subst ws1. unfold NInvG in *.
      cbn [push_up set_w y_d y_down].
      destruct (P n0) eqn:EP.
      * destruct (NIWS_recv (c_oracle c n0) _ _ _ _ _ _ Gw X1) as (Xa & Xb & Huns).
        rewrite Es in Xa, Xb, Huns. cbn [fst snd] in Xa, Xb, Huns.
        destruct (sw_ph _ _ _ _ _ _ _ X1) as [Hp|Hp].
        -- destruct (OPEN n0 w0 Ew ltac:(rewrite Hp; discriminate) ltac:(rewrite Hp; cbn; lia)) as (Hd & Hf).
           rewrite (hsigs_push_open ws s n0 w' evs Hd Hf (or_introl (uns_nofin evs Huns))).
           rewrite app_assoc. fold (xsigs s n0). rewrite <- (hsigs_open ws s n0 Hd Hf). exact (Xb Hp).
        -- rewrite (hsigs_push_closed ws s n0 w' evs (Ecl ws n0 w0 Els EP Ew Hp)). exact Xa.
      * destruct (NIW_recv (c_oracle c n0) _ _ _ _ _ _ Gw X1) as (X & _ & _).
        rewrite Es in X. cbn [fst snd] in X.
        assert (Exs : xsigs (push_up (set_w s n0 w') n0 (map (up_of_wevent c n0) evs)) n0 = xsigs s n0 ++ flat_map we_xsig evs).
        { unfold xsigs. cbn [push_up set_w y_evq y_up]. rewrite FifoProofs.alist_get_aset_eq, flat_map_app, up_xsigs_of_wevents, app_assoc. reflexivity. }
        rewrite Exs. exact X.
    + intros Hp. rewrite Eph. split; [exact Hp|]. intros EP.
      pose proof (NIs n0 w0 Ew) as X. unfold NInvG in X. rewrite EP in X.
      destruct (NIW_recv (c_oracle c n0) _ _ _ _ _ _ Gw X) as (_ & _ & Hex). rewrite Es in Hex. cbn [snd] in Hex.
      rewrite (Hex Hp). reflexivity.
    + intros ws1 Els1 EP Hp. assert (ws1 = ws) by congruence. subst ws1. rewrite Eph in Hp.
      destruct (Ecl ws n0 w0 Els EP Ew Hp) as [X|X]; [left; exact X|right].
      cbn [push_up set_w y_up]. rewrite FifoProofs.alist_get_aset_eq, flat_map_app, hasfin_app, X. reflexivity.
  - (* LMain *)
    replace (mem_nat n0 (y_dead s)) with false in H by (rewrite A; reflexivity).
    destruct (aget n0 (y_w s)) as [w0|] eqn:Ew; try discriminate.
    assert (Hd : dies_now c n0 w0 = false).
    { unfold dies_now. destruct (wph w0); auto. }
    rewrite Hd in H.
    destruct (main_step (c_oracle c n0) w0) as [[w' evs]|] eqn:Es; [|discriminate]. fin3 H s' o w.
    destruct (G _ _ Ew) as (Iw0 & Gw & Sw & NGw).
    pose proof (main_step_not_exited _ _ _ _ Es) as Hnex.
    assert (HSI : SInvW (push_up (set_w s n0 w') n0 (map (up_of_wevent c n0) evs))).
    { apply not_errd_sinvw in HS; [exact HS|]. intros e. cbn. rewrite ?Eres. discriminate. }
    assert (Exs : xsigs (push_up (set_w s n0 w') n0 (map (up_of_wevent c n0) evs)) n0 = xsigs s n0 ++ flat_map we_xsig evs).
    { unfold xsigs. cbn [push_up set_w y_evq y_up]. rewrite FifoProofs.alist_get_aset_eq, flat_map_app, up_xsigs_of_wevents, app_assoc. reflexivity. }
    pose proof (NIs n0 w0 Ew) as X0. unfold NInvG in X0.
    destruct (P n0) eqn:EP.
    + (* a stopped worker says "finished" *)
      exists P.
      destruct (NIWS_main _ _ _ _ _ _ _ _ _ X0 Es) as (X & -> & Hp' & Ptok).
      assert (Hp0 : wph w0 = PFinishing true) by (destruct (sw_ph _ _ _ _ _ _ _ X0) as [Y|Y]; [exact Y|contradiction]).
      destruct (OPEN n0 w0 Ew Hnex ltac:(rewrite Hp0; cbn; lia)) as (Hdn & Hf).
      apply (cinv_pushw c P P s n0 w0 w' [EFinished true] CI Ew HSI); auto.
      * intros ws1 Els1 _. assert (ws1 = ws) by congruence. subst ws1. unfold NInvG. rewrite EP.
        cbn [push_up set_w y_d y_down].
        rewrite (hsigs_push_open ws s n0 w' [EFinished true] Hdn Hf (or_intror (le_n 1))).
        rewrite app_assoc. fold (xsigs s n0). rewrite <- (hsigs_open ws s n0 Hdn Hf). exact X.
      * cbn [flat_map wev_inds app]. rewrite app_nil_r. exact Ptok.
      * intros Hp. contradiction.
      * intros ws1 Els1 _ _. right. cbn [push_up set_w y_up].
        rewrite FifoProofs.alist_get_aset_eq, flat_map_app, hasfin_app. cbn. apply orb_true_r.
    + destruct (phase_eq_dec_stop (wph w')) as [Hstop|Hnstop].
      * (* the worker's own session stops *)
        exists (fun n => if Nat.eqb n n0 then true else P n).
        destruct (NIW_main_stop _ _ _ _ _ _ _ _ _ Iw0 X0 Es Hstop) as (X & Hok & Hnf).
        assert (Hk2 : prank (wph w0) <= 3).
        { destruct (main_step_enter_stop _ _ _ _ Es Hstop) as (cur & nxt & Ep & _). rewrite Ep. cbn. lia. }
        destruct (OPEN n0 w0 Ew Hnex Hk2) as (Hdn & Hf).
        destruct (main_step_tokens_ws _ _ _ _ Sw Es) as (Ptok & _).
        apply (cinv_pushw c P (fun n => if Nat.eqb n n0 then true else P n) s n0 w0 w' evs CI Ew HSI); auto.
        -- intros n Hn. apply Nat.eqb_neq in Hn. rewrite Hn. reflexivity.
        -- intros _. rewrite Nat.eqb_refl. reflexivity.
        -- intros ws1 Els1 _. assert (ws1 = ws) by congruence. subst ws1. unfold NInvG. rewrite Nat.eqb_refl.
           cbn [push_up set_w y_d y_down].
           rewrite (hsigs_push_open ws s n0 w' evs Hdn Hf (or_introl (nofin_hasfin _ Hnf))).
           rewrite app_assoc. fold (xsigs s n0). exact X.
        -- intros Hp. contradiction.
        -- intros ws1 Els1 _ Hp. rewrite Hstop in Hp. discriminate.
        -- intros _. left. destruct (in_dec Nat.eq_dec n0 (d_active (y_d s))) as [Hin|Hni]; [exact Hin|].
           destruct (nw_act _ _ _ _ _ _ X0 Hni) as (_ & Y). contradiction.
      * exists P.
        destruct (NIW_main _ _ _ _ _ _ _ _ _ Hnstop Iw0 X0 Es) as (X & Hok & Hnf).
        apply (cinv_pushw c P P s n0 w0 w' evs CI Ew HSI); auto.
        -- intros ws1 Els1 _. assert (ws1 = ws) by congruence. subst ws1. unfold NInvG. rewrite EP.
           cbn [push_up set_w y_d y_down]. rewrite Exs. exact X.
        -- exact (proj1 (main_step_tokens_ws _ _ _ _ Sw Es)).
        -- intros Hp. contradiction.
        -- intros ws1 Els1 F0. congruence.
  - (* LRecv *)
    destruct (aget n0 (y_up s)) as [[|m rest]|] eqn:Eup; try discriminate.
    cbn [y_d] in H.
    destruct (process_from_remote n0 m (y_d s)) as [[d' outs] r] eqn:Ep.
    pose proof (E n0) as En. rewrite (alist_get_some [] _ _ _ Eup) in En.
    inversion En as [|m1 r1 Gm Gr]; subst.
    destruct (Eu n0) as (Eu1 & Eu2). rewrite (alist_get_some [] _ _ _ Eup) in Eu1, Eu2.
    inversion Eu1 as [|m2 r2 Gm3 Gr3]; subst.
    assert (HnN : n0 < N).
    { destruct (Nat.lt_ge_cases n0 N) as [X|X]; [exact X|]. specialize (Eu2 X). discriminate. }
    destruct (aget n0 (ws_nt ws)) as [f|] eqn:Ef.
    2:{ exfalso. apply (proj2 (wj_ntk _ _ _ J n0)); [exact HnN|exact Ef]. }
    destruct (worker_knownw c s n0 Ek HnN) as (wn & Ewn).
    destruct (pfr_effw c _ _ _ _ _ _ _ _ Els Ef Gm Gm3 HnN Ep)
      as (-> & evs & ws' & -> & Els' & Hdrop & Hheard & Hother & Hok3 & S1 & S2 & S3 & P1 & P2 & P3 & P4 & P5 & P6 & P8 &
          (f' & Ef' & Fsd & Fcl & Fsp & Fdn & Fdn' & Ffin)).
    cbn [apply_outs] in H. unfold close_if_dead in H. cbn [set_evq set_d y_dead] in H.
    replace (mem_nat n0 (y_dead s)) with false in H by (rewrite A; reflexivity).
    fin3 H s' o w. exists P.
    apply not_errd_sinvw in HS; [|intros e; cbn; discriminate].
    assert (Eups : flat_map up_xsig (alist_get [] n0 (y_up s)) = up_xsig m ++ flat_map up_xsig rest).
    { rewrite (alist_get_some [] _ _ _ Eup). reflexivity. }
    assert (FL : forall k g, aget k (ws_nt ws) = Some g -> exists g', aget k (ws_nt ws') = Some g' /\ n_sdsent g' = n_sdsent g).
    { intros k g Eg. destruct (Nat.eq_dec k n0) as [->|Hk].
      - exists f'. split; [exact Ef'|]. congruence.
      - exists g. rewrite (P8 k Hk). auto. }
    assert (FL' : forall k g', aget k (ws_nt ws') = Some g' ->
                  exists g, aget k (ws_nt ws) = Some g /\ n_sdsent g' = n_sdsent g /\ (n_down g = true -> n_down g' = true)).
    { intros k g' Eg. destruct (Nat.eq_dec k n0) as [->|Hk].
      - exists f. split; [exact Ef|]. assert (g' = f') by congruence. subst g'. auto.
      - exists g'. rewrite <- (P8 k Hk). auto. }
    assert (KT : forall k, aget k (ws_nt ws') <> None <-> aget k (ws_nt ws) <> None).
    { intros k. destruct (Nat.eq_dec k n0) as [->|Hk]; [rewrite Ef, Ef'; split; intros; discriminate|rewrite (P8 k Hk); reflexivity]. }
    assert (Hup : incl (ws_up ws') (ws_up ws)).
    { apply ws_up_mono; [rewrite P1; reflexivity|exact P2|].
      intros k g' Eg Hs. destruct (FL' k g' Eg) as (g & Eg0 & Es0 & Ed0). exists g. split; [exact Eg0|].
      unfold shutting_down in *. apply orb_false_iff in Hs. destruct Hs as (H1 & H2).
      rewrite <- Es0, H2. destruct (n_down g) eqn:Edg; [rewrite (Ed0 eq_refl) in H1; discriminate|reflexivity]. }
    assert (Ecomp : ws_collection_is_completed ws' = ws_collection_is_completed ws).
    { unfold ws_collection_is_completed. rewrite P6, P2. reflexivity. }
    assert (ND0 : ndown ws n0 = n_down f) by (unfold ndown; rewrite Ef; reflexivity).
    assert (ND0' : ndown ws' n0 = n_down f') by (unfold ndown; rewrite Ef'; reflexivity).
    assert (NDk : forall k, k <> n0 -> ndown ws' k = ndown ws k) by (intros k Hk; unfold ndown; rewrite (P8 k Hk); reflexivity).
    assert (NDmono : forall k, ndown ws k = true -> ndown ws' k = true).
    { intros k Hk. destruct (Nat.eq_dec k n0) as [->|Hkn]; [rewrite ND0'; apply Fdn; rewrite <- ND0; exact Hk|rewrite (NDk k Hkn); exact Hk]. }
    (* what is heard of every node is unchanged *)
    assert (HS1 : forall k, evq_xsigs k (y_evq s ++ evs) ++ hup (ndown ws' k) (alist_get [] k (aset n0 rest (y_up s)))
                            = hsigs ws s k).
    { intros k. unfold hsigs. rewrite evq_xsigs_app. destruct (Nat.eq_dec k n0) as [->|Hk].
      - rewrite FifoProofs.alist_get_aset_eq, ND0, ND0'. unfold hup at 2. rewrite Eups.
        destruct (n_down f) eqn:Edf.
        + rewrite (Hdrop eq_refl), (Fdn eq_refl). cbn. rewrite app_nil_r. reflexivity.
        + destruct (Hheard eq_refl) as (Hsig & _). rewrite Hsig, Nat.eqb_refl.
          destruct (n_down f') eqn:Edf'.
          * destruct (Fdn' eq_refl) as [X|(b & ->)]; [discriminate|]. cbn. rewrite <- app_assoc. reflexivity.
          * assert (Hnf : hasfin (up_xsig m) = false).
            { apply nofin_hasfin. intros b Hb. specialize (Ffin b Hb). congruence. }
            unfold hup. rewrite cutfin_app, Hnf, <- app_assoc. reflexivity.
      - rewrite (Hother k Hk), app_nil_r, FifoProofs.alist_get_aset_neq by exact Hk. rewrite (NDk k Hk). reflexivity. }
    constructor; cbn [set_evq set_d y_d y_evq y_down y_up y_w y_dead y_result].
    + exact HS.
    + exact Ek.
    + exists ws'. split.
      * split; [|rewrite S1, S2; exact Jss]. constructor.
        -- exact Els'.
        -- apply (LJW_same N (c_coll c) ws ws' J P6 KT P1 P2 P4 P5 P3).
        -- rewrite S1, S2, S3. unfold ws_nodes. rewrite P1. exact Jb.
        -- rewrite S1. intros Hsd (k & g' & Eg' & Hs). destruct (FL' k g' Eg') as (g & Eg & Es0 & _).
           assert (Hsome : some_sd ws) by (exists k, g; split; [exact Eg|congruence]).
           destruct (Jq Hsd Hsome) as (Cc & Q1 & Q2 & Q3). rewrite Ecomp. split; [exact Cc|].
           split; [congruence|]. split; [congruence|]. intros k0 Hk0. unfold ws_len. rewrite P1. apply Q3. apply Hup. exact Hk0.
        -- rewrite S1, S2, Ecomp, P3, P5. exact Jg.
        -- rewrite S1. intros Hsd. specialize (Jf Hsd). destruct (ws_up ws') as [|k l]; [reflexivity|].
           exfalso. specialize (Hup k (or_introl eq_refl)). rewrite Jf in Hup. exact Hup.
      * intros n w Hw. pose proof (NIs n w Hw) as X. unfold NInvG in *. unfold xsigs, hsigs.
        cbn [set_evq set_d y_d y_down y_evq y_up]. rewrite S3. destruct (P n) eqn:EP.
        -- rewrite HS1. apply (NIWS_flags_ext _ ws ws'); [intros g Eg; apply FL; exact Eg|exact P1|exact P2|exact P5|exact X].
        -- assert (Esg : evq_xsigs n (y_evq s ++ evs) ++ flat_map up_xsig (alist_get [] n (aset n0 rest (y_up s))) = xsigs s n).
           { unfold xsigs. rewrite evq_xsigs_app. destruct (Nat.eq_dec n n0) as [->|Hn].
             - rewrite FifoProofs.alist_get_aset_eq, Eups. destruct (n_down f) eqn:Edf.
               + rewrite (Hdrop eq_refl). destruct (Edw ws n0 f wn Els Ef Edf Ewn) as (_ & X2). specialize (X2 EP).
                 rewrite Eups in X2. apply app_eq_nil in X2. destruct X2 as (-> & ->). cbn. rewrite app_nil_r. reflexivity.
               + destruct (Hheard eq_refl) as (Hsig & _). rewrite Hsig, Nat.eqb_refl, <- app_assoc. reflexivity.
             - rewrite (Hother n Hn), app_nil_r, FifoProofs.alist_get_aset_neq by exact Hn. reflexivity. }
           rewrite Esg. apply (NIW_flags_ext ws ws'); [intros g Eg; apply FL; exact Eg|exact P1|exact P2|exact P5|exact X].
    + apply Forall_app. split; [exact Eq|exact Hok3].
    + intros k. destruct (Nat.eq_dec k n0) as [->|Hk].
      * rewrite FifoProofs.alist_get_aset_eq. split; [exact Gr3|intros; lia].
      * rewrite FifoProofs.alist_get_aset_neq by exact Hk. apply Eu.
    + exact Edn.
    + rewrite S3. exact Ea.
    + intros e. discriminate.
    + intros HPn ws1 coll Els1 Ec1. assert (ws1 = ws') by congruence. subst ws1.
      rewrite P3. rewrite P4 in Ec1. rewrite <- (Epm HPn ws coll Els Ec1). apply Permutation_app_head.
      assert (Hin : In n0 (akeys (y_w s))) by (eapply aget_some_in; eauto).
      assert (Hinds : flat_map ev_inds evs = up_inds m).
      { destruct (n_down f) eqn:Edf; [|exact (proj2 (Hheard eq_refl))].
        rewrite (Hdrop eq_refl). destruct (Edw ws n0 f wn Els Ef Edf Ewn) as (_ & X2). specialize (X2 (HPn n0)).
        rewrite Eups in X2. apply app_eq_nil in X2. destruct X2 as (X2 & _). rewrite (up_xsig_nil_inds m X2). reflexivity. }
      match goal with |- Permutation (wires_ws ?s1) _ => set (s1' := s1) end.
      assert (Hn : Permutation (nodes_ws s) (up_inds m ++ nodes_ws s1')).
      { unfold nodes_ws. change (y_w s1') with (y_w s).
        apply (perm_flat_map_one _ _ n0); [exact B|exact Hin| |].
        - intros k Hk. unfold node_tokens_ws. subst s1'. cbn [set_evq set_d y_w y_down y_up].
          rewrite FifoProofs.alist_get_aset_neq by exact Hk. reflexivity.
        - unfold node_tokens_ws. subst s1'. cbn [set_evq set_d y_w y_down y_up].
          rewrite FifoProofs.alist_get_aset_eq, (alist_get_some [] _ _ _ Eup). cbn [flat_map]. permc. }
      unfold wires_ws, evq_inds. change (y_evq s1') with (y_evq s ++ evs).
      rewrite flat_map_app, Hinds. permc_with Hn.
    + discriminate.
    + intros ws1 n f1 w Els1 Ef1 Hd Hw. assert (ws1 = ws') by congruence. subst ws1.
      destruct (Nat.eq_dec n n0) as [->|Hn].
      * rewrite FifoProofs.alist_get_aset_eq. assert (w = wn) by congruence. subst w.
        assert (f1 = f') by congruence. subst f1.
        destruct (Fdn' Hd) as [Hd0|(b & ->)].
        -- destruct (Edw ws n0 f wn Els Ef Hd0 Ewn) as (X & Y). split; [exact X|]. intros EP. specialize (Y EP).
           rewrite Eups in Y. apply app_eq_nil in Y. tauto.
        -- pose proof (NIs n0 wn Ewn) as X. unfold NInvG in X. destruct (P n0) eqn:EP.
           ++ split; [|discriminate].
              destruct (n_down f) eqn:Edf; [exact (proj1 (Edw ws n0 f wn Els Ef Edf Ewn))|].
              pose proof (sw_chan _ _ _ _ _ _ _ X) as Ch.
              assert (Hin : In (XFin b) (hsigs ws s n0)).
              { unfold hsigs, hup. rewrite ND0, Eups. apply in_or_app. right. cbn. left. reflexivity. }
              pose proof (xchan_ok_in _ _ _ Ch Hin) as Hp. apply prank_4. unfold prec in Hp. cbn in Hp. lia.
           ++ pose proof (nw_chan _ _ _ _ _ _ X) as Ch. unfold xsigs in Ch.
              rewrite (alist_get_some [] _ _ _ Eup) in Ch. cbn [flat_map up_xsig we_xsig app] in Ch.
              destruct (xchan_ok_fin_mid _ _ _ _ Ch) as (X1 & Y). split; [apply prank_4; exact Y|]. intros _. exact X1.
      * rewrite FifoProofs.alist_get_aset_neq by exact Hn. rewrite (P8 n Hn) in Ef1. exact (Edw ws n f1 w Els Ef1 Hd Hw).
    + intros ws1 n w Els1 EP Hw Hph. assert (ws1 = ws') by congruence. subst ws1. unfold closed. cbn [set_evq set_d y_up].
      destruct (Ecl ws n w Els EP Hw Hph) as [X|X]; [left; apply NDmono; exact X|].
      destruct (Nat.eq_dec n n0) as [->|Hn].
      * rewrite FifoProofs.alist_get_aset_eq. rewrite Eups, hasfin_app in X. apply orb_true_iff in X. destruct X as [X|X]; [left|right; exact X].
        apply hasfin_in in X. destruct X as (b & Hb). rewrite ND0'. exact (Ffin b Hb).
      * right. rewrite FifoProofs.alist_get_aset_neq by exact Hn. exact X.
    + intros ws1 n b Els1 Hi. assert (ws1 = ws') by congruence. subst ws1.
      rewrite evq_xsigs_app in Hi. apply in_app_or in Hi. destruct Hi as [Hi|Hi]; [apply NDmono; exact (Eef ws n b Els Hi)|].
      destruct (Nat.eq_dec n n0) as [->|Hn]; [|rewrite (Hother n Hn) in Hi; destruct Hi].
      rewrite ND0'. destruct (n_down f) eqn:Edf; [apply Fdn; reflexivity|].
      destruct (Hheard eq_refl) as (Hsig & _). rewrite Hsig, Nat.eqb_refl in Hi. exact (Ffin b Hi).
    + intros n EP. rewrite S3, S2. exact (Est n EP).
    + exact Epo.
  - (* LCtl *)
    specialize (Ea eq_refl).
    destruct (d_active (y_d s)) as [|a0 ar] eqn:Eact; [contradiction|].
    destruct (y_evq s) as [|ev q] eqn:Eevq; [discriminate|].
    inversion D as [|ev1 q1 Gev Gq]; subst. inversion Eq as [|ev2 q2 Gev3 Gq3]; subst.
    destruct (d_loop_once ev (y_d s)) as [[d' outs] r] eqn:El.
    assert (Hpre : PREW N (c_coll c) ev (y_d s) ws).
    { eapply pre_from_invw; eauto. }
    assert (Hact : d_active (y_d s) <> []) by (rewrite Eact; discriminate).
    destruct (loop_once_okw N (c_coll c) ev (y_d s) ws d' outs r DJd Iw Hact Hpre El) as (-> & ws' & LE).
    destruct (okw_loop_once ev (y_d s) Gev _ _ _ El ws Els Iw) as (ws2 & Els2 & _ & HWT & Go).
    assert (ws2 = ws').
    { destruct (lw_dj _ _ _ _ _ _ _ _ LE) as ([E1 _ _ _ _ _] & _). congruence. }
    subst ws2. exists P.
    set (s1 := apply_outs (set_d (set_evq s q) d') outs) in *.
    assert (CORE : forall rr, SInvW (set_result s1 rr) -> (forall e, rr <> Some (RError e)) ->
                   (rr = None -> d_active d' <> []) ->
                   (rr = Some RFinished -> d_session_finished d' = true /\ d_shouldstop d' = false) ->
                   CInvGc P (set_result s1 rr)).
    { intros rr Hi Hr Ha Hf. unfold s1. eapply ctl_corew; eauto. }
    destruct (d_session_finished d') eqn:Efin.
    + fin3 H s' o w. apply CORE.
      * apply not_errd_sinvw in HS; [exact HS|]. intros e. cbn. destruct (d_shouldstop d'); discriminate.
      * intros e. destruct (d_shouldstop d'); discriminate.
      * destruct (d_shouldstop d'); discriminate.
      * destruct (d_shouldstop d'); [discriminate|]. intros _. split; reflexivity.
    + destruct (d_active d') as [|b0 br] eqn:Eact'.
      * exfalso. pose proof (lw_fin _ _ _ _ _ _ _ _ LE) as Hf. rewrite Eact' in Hf. specialize (Hf eq_refl).
        unfold d_session_finished in Efin. rewrite Hf, Eact' in Efin. discriminate.
      * fin3 H s' o w.
        assert (Er1 : y_result s1 = None).
        { unfold s1. destruct (apply_outs_effw outs (set_d (set_evq s q) d')) as (_ & _ & _ & _ & _ & R0 & _); [apply A|exact Go|].
          rewrite R0. cbn. exact Eres. }
        rewrite <- (set_result_same s1 None Er1). apply CORE.
        -- rewrite (set_result_same s1 None Er1). apply not_errd_sinvw in HS; [exact HS|]. intros e. rewrite Er1. discriminate.
        -- intros e. discriminate.
        -- intros _. discriminate.
        -- discriminate.
Qed.

Lemma cinvw_run ls :
  c_mode c = MSteal -> 0 < N -> Forall no_crash_label ls -> exists P, CInvGc P (sys_run c ls).
Proof.
  intros Hm Hpos Hls. unfold sys_run.
  assert (G : forall s, (exists P, CInvGc P s) ->
     exists P, CInvGc P (fold_left (fun s l => match sys_step c s l with Some (s', _, _) => s' | None => s end) ls s)).
  { induction Hls as [|l ls Hl Hls IH]; intros s Hs; cbn [fold_left]; [exact Hs|].
    apply IH. destruct (sys_step c s l) as [[[s' o] w]|] eqn:E; [|exact Hs].
    destruct Hs as (P & Hs). eapply step_cinvw; eauto. }
  apply G. exists (fun _ => false). apply CInvW_init; assumption.
Qed.

End StepW.

(* ====================================================================================== *)
(* Part D.4: the theorems *)
(* ====================================================================================== *)

(* the ordered form: the book of n with the indices that are on their way back struck out is, IN
   ORDER, what the worker side still owes for n *)
Definition CoupledOrd (s : sys) : Prop := forall n, filter (notin (backw s n)) (bookw s n) = owedw s n.

(* worker n's own session has not stopped: it has started no test after which its session stops *)
Definition unstopped (c : config) (s : sys) (n : nat) : Prop :=
  forall w, aget n (y_w s) = Some w -> forall r, In r (wran w) -> stops_after (c_oracle c n) (snd (fst r)) = false.

Lemma no_stop_unstopped c s n : no_stop c -> unstopped c s n.
Proof. intros H w _ r _. apply H. Qed.

Lemma evq_xsigs_outw c n q :
  Forall (ok_ev3w c) q -> c_numnodes c <= n -> evq_xsigs n q = [].
Proof.
  intros Hq Hn. induction Hq as [|ev q (_ & Hev) Hq IH]; [reflexivity|].
  cbn [evq_xsigs flat_map]. fold (evq_xsigs n q). rewrite IH, app_nil_r.
  unfold ev_xsigs_for. destruct (ev_xsig ev) as [[m g]|]; [|reflexivity].
  destruct (Nat.eqb m n) eqn:E; [|reflexivity]. apply Nat.eqb_eq in E. lia.
Qed.

(* the flag of the invariant is false for a node whose session has not stopped *)
Lemma unstopped_normal c P s n : CInvG c P s -> unstopped c s n -> P n = false.
Proof.
  intros [Inv Ek (ws & _ & NIs) _ _ _ _ _ _ _ _ _ _ _ Epo] Hu. destruct (P n) eqn:EP; [|reflexivity]. exfalso.
  assert (HnN : n < c_numnodes c).
  { destruct (Nat.lt_ge_cases n (c_numnodes c)) as [X|X]; [exact X|]. rewrite (Epo n X) in EP. discriminate. }
  destruct (worker_knownw c s n Ek HnN) as (w & Ew). pose proof (NIs n w Ew) as X. unfold NInvG in X. rewrite EP in X.
  destruct (sw_ev _ _ _ _ _ _ _ X) as (r & Hr & Hs). rewrite (Hu w Ew r Hr) in Hs. discriminate.
Qed.

(* a node without a worker: everything is empty *)
Lemma outside_empty c P s n :
  CInvG c P s -> aget n (y_w s) = None ->
  bookw s n = [] /\ xsigs s n = [] /\ alist_get [] n (y_down s) = [] /\ cnt (steal_of s) n = 0.
Proof.
  intros [Inv Ek (ws & (J0 & _) & NIs) Eq Eu Edn _ _ _ _ _ _ _ _ _] Ew.
  assert (Hn : c_numnodes c <= n).
  { destruct (Nat.lt_ge_cases n (c_numnodes c)) as [X|X]; [|exact X]. exfalso.
    destruct (worker_knownw c s n Ek X) as (w & F). congruence. }
  unfold bookw, steal_of. rewrite (wd_sched _ _ _ _ J0). split; [|split; [|split]].
  - apply alist_get_none. apply LoadProofs.aget_none_keys. intros Hin.
    pose proof (wj_nodes _ _ _ (wd_lj _ _ _ _ J0) n Hin). lia.
  - unfold xsigs. rewrite (evq_xsigs_outw _ _ _ Eq Hn), (proj2 (Eu n) Hn). reflexivity.
  - exact (Edn n Hn).
  - destruct (ws_steal ws) as [v|] eqn:Es; [|reflexivity]. cbn.
    destruct (Nat.eqb v n) eqn:E; [|reflexivity]. apply Nat.eqb_eq in E. subst v. exfalso.
    pose proof (wj_nodes _ _ _ (wd_lj _ _ _ _ J0) n (wj_st _ _ _ (wd_lj _ _ _ _ J0) n Es)). lia.
Qed.

Lemma cinvg_node c P s n w :
  CInvG c P s -> P n = false -> aget n (y_w s) = Some w ->
  exists ws, d_sched (y_d s) = StW ws /\
             NIW ws (d_active (y_d s)) n (xsigs s n) (alist_get [] n (y_down s)) w.
Proof.
  intros [_ _ (ws & (J0 & _) & NIs) _ _ _ _ _ _ _ _ _ _ _ _] EP Ew. exists ws. split; [exact (wd_sched _ _ _ _ J0)|].
  pose proof (NIs n w Ew) as X. unfold NInvG in X. rewrite EP in X. exact X.
Qed.

Lemma cinvg_coupled_node c P s n : CInvG c P s -> P n = false -> Permutation (bookw s n) (owedw s n ++ backw s n).
Proof.
  intros CI EP. unfold owedw, backw. destruct (aget n (y_w s)) as [w|] eqn:Ew.
  - destruct (cinvg_node c P s n w CI EP Ew) as (ws & Els & X). unfold bookw. rewrite Els.
    pose proof (nw_coupled _ _ _ _ _ _ X) as Cp. unfold bkw in Cp. rewrite Cp. unfold R. permc.
  - destruct (outside_empty c P s n CI Ew) as (-> & -> & -> & _). reflexivity.
Qed.

Lemma cinvg_ordered_node c P s n :
  CInvG c P s -> P n = false -> filter (notin (backw s n)) (bookw s n) = owedw s n.
Proof.
  intros CI EP. unfold owedw, backw. destruct (aget n (y_w s)) as [w|] eqn:Ew.
  - destruct (cinvg_node c P s n w CI EP Ew) as (ws & Els & X). unfold bookw. rewrite Els.
    pose proof (nw_ord _ _ _ _ _ _ X) as Od. unfold bkw in Od. rewrite <- Od.
    apply filter_notin_ext. intros i. unfold R. rewrite !in_app_iff. tauto.
  - destruct (outside_empty c P s n CI Ew) as (-> & -> & -> & _). reflexivity.
Qed.

Lemma cinvg_stealone_node c P s n : CInvG c P s -> P n = false -> stealreq s n = cnt (steal_of s) n.
Proof.
  intros CI EP. unfold stealreq. destruct (aget n (y_w s)) as [w|] eqn:Ew.
  - destruct (cinvg_node c P s n w CI EP Ew) as (ws & Els & X). unfold steal_of. rewrite Els.
    pose proof (nw_steal _ _ _ _ _ _ X) as St. lia.
  - destruct (outside_empty c P s n CI Ew) as (_ & -> & -> & ->). reflexivity.
Qed.

Section MainW.
  Variable c : config.
  Variable ls : list label.
  Hypothesis Hmode : c_mode c = MSteal.
  Hypothesis Hnocrash : forall n i, c_crash_in c n i = false.
  Hypothesis Hnogarbled : no_garbled c.
  Hypothesis Hids : forall n, ~ In ""%string (c_coll c n).
  Hypothesis Hsched : Forall no_crash_label ls.
  Hypothesis Hnodes : 0 < c_numnodes c.

  Lemma run_cinvg : exists P, CInvG c P (sys_run c ls).
  Proof. apply cinvw_run; assumption. Qed.

  (* ---- Goal 2: the controller never raises -- stop requests of the workers' sessions included ---- *)
  Theorem controller_never_raises_ws : forall e, y_result (sys_run c ls) <> Some (RError e).
  Proof. destruct run_cinvg as (P & CI). exact (cw_res _ _ _ CI). Qed.

  Theorem run_sinvw_always : SInvW (sys_run c ls).
  Proof. destruct run_cinvg as (P & CI). exact (cw_sinv _ _ _ CI). Qed.

  (* c01_ws_places_nodup and its companions without the not_errored hypothesis *)
  Theorem c01_ws_places_nodup_always : NoDup (places_ws (sys_run c ls)).
  Proof. apply sinvw_places_nodup. exact run_sinvw_always. Qed.

  Theorem c01_ws_started_not_withdrawn_always : forall i,
    In i (started (sys_run c ls)) ->
    ~ In i (pool_ws (sys_run c ls)) /\ ~ In i (back_ws (sys_run c ls)).
  Proof. intros i Hi. apply sinvw_started_stay; [exact run_sinvw_always|exact Hi]. Qed.

  Theorem c01_ws_started_are_collected_always : forall i,
    In i (started (sys_run c ls)) ->
    exists wss coll, d_sched (y_d (sys_run c ls)) = StW wss /\ ws_coll wss = Some coll /\ i < length coll.
  Proof.
    apply c01_ws_started_are_collected; try assumption. exact controller_never_raises_ws.
  Qed.

  (* ---- Goal 1, node by node: for every node whose own session has not stopped ---- *)
  Theorem coupling_node_ws : forall n, unstopped c (sys_run c ls) n ->
    Permutation (bookw (sys_run c ls) n) (owedw (sys_run c ls) n ++ backw (sys_run c ls) n).
  Proof.
    intros n Hu. destruct run_cinvg as (P & CI). apply (cinvg_coupled_node c P); [exact CI|].
    eapply unstopped_normal; eauto.
  Qed.

  Theorem coupling_ordered_node_ws : forall n, unstopped c (sys_run c ls) n ->
    filter (notin (backw (sys_run c ls) n)) (bookw (sys_run c ls) n) = owedw (sys_run c ls) n.
  Proof.
    intros n Hu. destruct run_cinvg as (P & CI). apply (cinvg_ordered_node c P); [exact CI|].
    eapply unstopped_normal; eauto.
  Qed.

  Theorem steal_request_node_ws : forall n, unstopped c (sys_run c ls) n ->
    stealreq (sys_run c ls) n = cnt (steal_of (sys_run c ls)) n.
  Proof.
    intros n Hu. destruct run_cinvg as (P & CI). apply (cinvg_stealone_node c P); [exact CI|].
    eapply unstopped_normal; eauto.
  Qed.

  (* a steal request names the tail of the victim's book (as it is when the request is sent) and leaves
     the victim at least two tests: for every step of the system from a reachable state, every CSteal
     among the controller's outputs *)
  Theorem steal_names_tail : forall l s' o w,
    no_crash_label l -> sys_step c (sys_run c ls) l = Some (s', o, w) ->
    forall v ixs, In (OSend v (CSteal ixs)) o ->
    exists keep, bookw s' v = keep ++ ixs /\ 2 <= length keep /\ ixs <> [].
  Proof.
    intros l s' o w Hl H v ixs Hin. destruct run_cinvg as (P & CI). set (s := sys_run c ls) in *.
    pose proof CI as [Inv Ek (ws & DJd & NIs) Eq Eu Edn Ea Er Epm Efn Edw Ecl Eef Est Epo].
    pose proof Inv as [A B (ws0 & Els0 & Iw & T) D E E' F G].
    pose proof DJd as (J0 & Jss). pose proof J0 as [Els J Jb Jq Jg Jf].
    assert (ws0 = ws) by congruence. subst ws0.
    unfold sys_step in H. destruct (y_result s) eqn:Eres; [discriminate|].
    destruct l as [n0|n0|n0|n0| |n0]; [| | | | |contradiction].
    - replace (mem_nat n0 (y_dead s)) with false in H by (rewrite A; reflexivity).
      destruct (aget n0 (y_down s)) as [[|cmd rest]|]; try discriminate.
      destruct (aget n0 (y_w s)); try discriminate. inv H. destruct Hin.
    - replace (mem_nat n0 (y_dead s)) with false in H by (rewrite A; reflexivity).
      destruct (aget n0 (y_w s)) as [w0|]; try discriminate. destruct (negb (wcb w0)); [discriminate|].
      destruct (recv_step (c_oracle c n0) w0). inv H. destruct Hin.
    - replace (mem_nat n0 (y_dead s)) with false in H by (rewrite A; reflexivity).
      destruct (aget n0 (y_w s)) as [w0|]; try discriminate.
      destruct (dies_now c n0 w0); [inv H; destruct Hin|].
      destruct (main_step (c_oracle c n0) w0) as [[w' evs]|]; [|discriminate]. inv H. destruct Hin.
    - destruct (aget n0 (y_up s)) as [[|m rest]|] eqn:Eup; try discriminate. cbn [y_d] in H.
      destruct (process_from_remote n0 m (y_d s)) as [[d' outs] r] eqn:Ep.
      pose proof (E n0) as En. rewrite (alist_get_some [] _ _ _ Eup) in En. inversion En as [|m1 r1 Gm Gr]; subst.
      destruct (pfr_ws _ _ _ _ _ _ Gm Ep) as (-> & _).
      destruct r; inv H; destruct Hin.
    - specialize (Ea eq_refl).
      destruct (d_active (y_d s)) as [|a0 ar] eqn:Eact; [contradiction|].
      destruct (y_evq s) as [|ev q] eqn:Eevq; [discriminate|].
      inversion D as [|ev1 q1 Gev Gq]; subst. inversion Eq as [|ev2 q2 Gev3 Gq3]; subst.
      destruct (d_loop_once ev (y_d s)) as [[d' outs] r] eqn:El.
      assert (Hpre : PREW (c_numnodes c) (c_coll c) ev (y_d s) ws) by (eapply pre_from_invw; eauto).
      assert (Hact : d_active (y_d s) <> []) by (rewrite Eact; discriminate).
      destruct (loop_once_okw _ (c_coll c) ev (y_d s) ws d' outs r DJd Iw Hact Hpre El) as (-> & ws' & LE).
      destruct (okw_loop_once ev (y_d s) Gev _ _ _ El ws Els Iw) as (ws2 & Els2 & _ & _ & Go).
      assert (Hd : y_dead (set_d (set_evq s q) d') = []) by (cbn; exact A).
      destruct (apply_outs_effw outs _ Hd Go) as (A1 & _).
      assert (Hbook : forall rr, bookw (set_result (apply_outs (set_d (set_evq s q) d') outs) rr) v = bkw ws' v).
      { intros rr. unfold bookw. cbn [set_result y_d]. rewrite A1. cbn [set_d y_d].
        destruct (lw_dj _ _ _ _ _ _ _ _ LE) as ([E1 _ _ _ _ _] & _). rewrite E1. reflexivity. }
      assert (Hout : In (OSend v (CSteal ixs)) outs ->
                     exists keep, bkw ws' v = keep ++ ixs /\ 2 <= length keep /\ ixs <> []).
      { intros X. exact (lw_tail _ _ _ _ _ _ _ _ LE v ixs X). }
      destruct (d_session_finished d') eqn:Efin.
      + inv H. rewrite Hbook. apply Hout. exact Hin.
      + destruct (d_active d') as [|b0 br] eqn:Eact'.
        * exfalso. pose proof (lw_fin _ _ _ _ _ _ _ _ LE) as Hf. rewrite Eact' in Hf. specialize (Hf eq_refl).
          unfold d_session_finished in Efin. rewrite Hf, Eact' in Efin. discriminate.
        * inv H.
          match goal with |- exists keep, bookw ?st v = _ /\ _ =>
            change (bookw st v) with (bookw (set_result st None) v) end.
          rewrite Hbook. apply Hout. exact Hin.
  Qed.

  (* ---- the same for all nodes at once, when no worker's own session asks to stop ---- *)
  Hypothesis Hnostop : no_stop c.

  Lemma run_cinvw : exists P, CInvG c P (sys_run c ls) /\ forall n, P n = false.
  Proof.
    destruct run_cinvg as (P & CI). exists P. split; [exact CI|]. intros n.
    eapply unstopped_normal; [exact CI|]. apply no_stop_unstopped. exact Hnostop.
  Qed.

  (* Goal 1: the book coupling with withdrawals, in every reachable state *)
  Theorem coupling_invariant_ws : CoupledW (sys_run c ls).
  Proof. intros n. apply coupling_node_ws. apply no_stop_unstopped. exact Hnostop. Qed.

  (* Goal 1, in order *)
  Theorem coupling_ordered_ws : CoupledOrd (sys_run c ls).
  Proof. intros n. apply coupling_ordered_node_ws. apply no_stop_unstopped. exact Hnostop. Qed.

  (* what is on its way back is still in the victim's book *)
  Corollary back_in_book : forall n i, In i (backw (sys_run c ls) n) -> In i (bookw (sys_run c ls) n).
  Proof.
    intros n i Hi. eapply Permutation_in; [apply Permutation_sym; apply coupling_invariant_ws|].
    apply in_or_app. right. exact Hi.
  Qed.

  (* at most one steal request is outstanding, and it is in flight exactly on the node the
     scheduler's marker names: as a CSteal command on the wire down or in the inbox, as a computed
     reply, as an `unscheduled` message on the wire up or as an `unscheduled` event *)
  Theorem steal_request_unique : StealOne (sys_run c ls).
  Proof. intros n. apply steal_request_node_ws. apply no_stop_unstopped. exact Hnostop. Qed.
End MainW.

Print Assumptions coupling_invariant_ws.
Print Assumptions coupling_ordered_ws.
Print Assumptions coupling_node_ws.
Print Assumptions steal_request_unique.
Print Assumptions controller_never_raises_ws.
Print Assumptions c01_ws_places_nodup_always.
Print Assumptions steal_names_tail.
Check controller_never_raises_ws.
Check c01_ws_places_nodup_always.
Check c01_ws_started_not_withdrawn_always.
Check c01_ws_started_are_collected_always.
Check coupling_node_ws.
Check coupling_ordered_node_ws.
Check steal_request_node_ws.
Check steal_names_tail.
Check coupling_invariant_ws.
Check coupling_ordered_ws.
Check back_in_book.
Check steal_request_unique.
