(* RequeueCountSteal.v -- property C15 for --dist worksteal: "when a plugin re-queues a crashed test from the
   crash-handling hook, that test is executed again exactly once per re-queue", with ARBITRARY worker crashes
   (LCrash labels, c_crash_in), replacement workers, withdrawals (steal requests) in flight, ANY plugin budget
   c_requeue c, any schedule.  The worksteal analogue of RequeueCount.v (--dist load).

   Hypotheses of all main theorems: c_mode c = MSteal, no_garbled c, 0 < c_numnodes c,
   forall k, NoDup (c_coll c k) (test ids are distinct: this gives rq_ok c, the hypothesis of the system invariant
   XW of CrashStealTheorems.v, and mark_test_pending re-queues the crashed index itself).  Nothing else (workers
   may collect different lists; strict or lazy channels; any restart budget; --maxfail; stop requests).

   Proved (Parts E-G, all closed under the global context):
   (1) steal_requeue_at_most_once_per_requeue : count_occ (started s) i <= 1 + requeued_countw i
       steal_requeue_budget, steal_requeue_total_starts : |requeued| + d_requeue = c_requeue c;
         |started| <= |coll| + c_requeue c
       steal_requeue_of_crash_report : what requeued_in_runw counts -- a controller turn that emits a crash report
         for id t (index i) while d_requeue > 0 appends i to requeued_in_runw and decrements d_requeue
       steal_requeue_at_most_once_nodup : #started i + #final crash reports of i <= 1 + #crash reports of i
   (2) steal_requeue_conservation : pool_ws ++ holdingsw ++ crashed_in_runw ~ seq 0 |coll| ++ requeued_in_runw
       steal_requeue_same_index, steal_requeue_conservation_nodup :
         crashed ~ requeued ++ crashed_for_good  and  pool ++ holdings ++ crashed_for_good ~ seq 0 |coll|
   (3) steal_requeue_exact_at_finished_end : at y_result = Some RFinished,
         pool_ws ++ started ++ crashed_unstarted ~ seq 0 |coll| ++ requeued
       steal_requeue_exactly_once_per_requeue : per index i < |coll|
         #started i + #crash reports of i without start + #pool i = 1 + #re-queues of i
       steal_crashed_running_or_unstarted : crashed ~ crashed_running ++ crashed_unstarted

   Architecture.  The system invariant XW of CrashStealTheorems.v (every reachable state, any budget when ids are
   distinct) carries the book coupling.  CrashStealTokens.v's token/order invariant TS needs d_requeue = 0 (field
   ts_rq feeds loop_factsx); it is redone here as TSR with a ghost list rq of re-queued indices:
     Part A  check_schedule run twice in one handler (remove_node, then mark_test_pending): the token law with the
             re-queued index (TOKLAWR), the append guard GUARD and "requests name tails" STAIL compose
             (facts_of_check2: a book is only appended to, a victim of a request keeps >= 2 tests so the second
             check_schedule does not touch its book);
     Part B  loop_factsxR: one controller iteration for ANY budget -- budget 0: loop_factsx; errordown with
             re-queueing: try_block_factsR / hf_errordownR; every other handler is independent of d_requeue
             (RI, RequeueCount.v Part A) so loop_factsx is reused through d_set_requeue d 0;
     Part C  TSR and its preservation by every label (the proofs of CrashStealTokens.v Part D re-run for the new
             record; only the controller turn tr_ctl_core changes the ghosts), whole runs (tr_run), TSR_init;
     Part D  accounts of one reachable state; Part E-G the theorems; then non-vacuity examples. *)
From XV Require Import Base Worker Ctl SchedLoad SchedSteal SchedScope SchedEach Sched DSession System
  NoHook DSessionProofs WorkerProofs StealProofs LoadProofs FifoProofs ExactlyOnce Coupling ExactlyOnceSteal
  CouplingSteal CompletenessSteal CrashCoupling CrashTheorems CrashTokens CrashSteal CrashStealTheorems
  CrashStealTokens SystemCorollariesRequeue SystemCorollariesColl RequeueCount.
From XV Require ShutdownOnce.
From Coq Require Import Permutation Lia.
Open Scope nat_scope.

(* ====================================================================================== *)
(* Part A: check_schedule run twice in one handler                                          *)
(* ====================================================================================== *)
(* check_schedule only sets "shutdown sent" flags: a node that has not been told afterwards had not been told before *)
Lemma check_sdsent_back s s' o r m f :
  ws_check_schedule s = (s', o, r) -> aget m (ws_nt s') = Some f -> n_sdsent f = false ->
  exists f0, aget m (ws_nt s) = Some f0 /\ n_sdsent f0 = false.
Proof.
  intros H Ef Hf. destruct (check_TWv _ _ _ _ H) as (_ & (vo & T & _) & _).
  pose proof (tw_nt _ _ _ T m) as R0. rewrite Ef in R0.
  destruct (aget m (ws_nt s)) as [f0|]; cbn in R0; [|contradiction].
  exists f0. split; [reflexivity|]. destruct (NRW_fields _ _ _ R0) as (_ & _ & _ & D & _).
  destruct (n_sdsent f0) eqn:E0; [|reflexivity]. rewrite (proj2 D (or_introl eq_refl)) in Hf. discriminate.
Qed.

(* tokens: pool ++ books lose evtokx and get rq back *)
Definition TOKLAWR (ev : cevent) (rq : list nat) (ws ws' : wsstate) : Prop :=
  (forall c, ws_coll ws = Some c ->
     ws_coll ws' = Some c /\ Permutation (wtokens ws' ++ evtokx ev ws) (rq ++ wtokens ws)) /\
  (ws_coll ws = None ->
     rq = [] /\ (ws_coll ws' = None \/ exists c, ws_coll ws' = Some c /\ Permutation (wtokens ws') (seq 0 (length c)))).

Definition HFXR (ev : cevent) (rq : list nat) (ws ws' : wsstate) (o : list out) : Prop :=
  TOKLAWR ev rq ws ws' /\ GUARD ev ws ws' /\ STAIL ws' o.

Lemma HFXR_of_HFX ev ws ws' o : HFX ev ws ws' o -> HFXR ev [] ws ws' o.
Proof.
  intros ((T1 & T2) & G & S). split; [|split; assumption]. split.
  - intros c Hc. exact (T1 c Hc).
  - intros Hc. split; [reflexivity|exact (T2 Hc)].
Qed.

Lemma HFXR_ext ev rq ws ws1 ws2 pre o post :
  same_books ws1 ws2 -> nost pre -> nost post -> HFXR ev rq ws ws1 o -> HFXR ev rq ws ws2 (pre ++ o ++ post).
Proof.
  intros SB Hpre Hpost ((T1 & T2) & G & S). pose proof SB as (E1 & E2 & E3). split; [|split].
  - split.
    + intros c Hc. destruct (T1 c Hc) as (A & B). rewrite E3, (same_books_tokens _ _ SB). auto.
    + intros Hc. rewrite E3, (same_books_tokens _ _ SB). auto.
  - intros m Hm. rewrite (same_books_bkw _ _ m SB) in Hm. exact (G m Hm).
  - intros v ixs Hin. rewrite (same_books_bkw _ _ v SB).
    apply in_app_or in Hin. destruct Hin as [Hin|Hin]; [exfalso; exact (nost_no_steal _ _ _ Hpre Hin)|].
    apply in_app_or in Hin. destruct Hin as [Hin|Hin]; [exact (S v ixs Hin)|].
    exfalso. exact (nost_no_steal _ _ _ Hpost Hin).
Qed.

(* the errordown handler when a plugin re-queues the crash item: a silent update [mid] (the node is removed,
   the head i of its book is taken out), check_schedule, then i is put at the FRONT of the pool and
   check_schedule runs a second time *)
Lemma facts_of_check2 ev ws i mid ws2 o3 r3 ws3 o4 r4 pre post :
  ws_check_schedule mid = (ws2, o3, r3) ->
  ws_check_schedule (ws_set_pending ws2 (i :: ws_pending ws2)) = (ws3, o4, r4) ->
  (forall m f, aget m (ws_nt mid) = Some f -> n_sdsent f = false ->
     exists f0, aget m (ws_nt ws) = Some f0 /\ n_sdsent f0 = false) ->
  (forall m, bkw mid m = bookmidx ev m (bkw ws m)) ->
  (exists c, ws_coll ws = Some c /\ ws_coll mid = Some c) ->
  evtokx ev ws = [i] -> Permutation (wtokens mid ++ [i]) (wtokens ws) ->
  nost pre -> nost post ->
  HFXR ev [i] ws ws3 (o3 ++ pre ++ o4 ++ post).
Proof.
  intros H1 H2 Ent Hbk (c & Ec & Ecm) Eev Ptm Hpre Hpost.
  set (mid2 := ws_set_pending ws2 (i :: ws_pending ws2)) in *.
  pose proof (proj1 (W5_conservation _ _ _ _ H1)) as Pt1.
  pose proof (proj1 (W5_conservation _ _ _ _ H2)) as Pt2.
  destruct (check_frame _ _ _ _ H1) as (_ & Kc1 & _).
  destruct (check_frame _ _ _ _ H2) as (_ & Kc2 & _).
  assert (B2 : forall m, bkw mid2 m = bkw ws2 m) by reflexivity.
  assert (LEQ : forall a b : list nat, {a = b} + {a <> b}) by (apply list_eq_dec; apply Nat.eq_dec).
  split; [|split].
  - split.
    + intros c0 Hc0. assert (c0 = c) by congruence. subst c0. split.
      * rewrite Kc2. change (ws_coll mid2) with (ws_coll ws2). rewrite Kc1. exact Ecm.
      * assert (Em2 : wtokens mid2 = i :: wtokens ws2) by reflexivity.
        rewrite Eev, Pt2, Em2, Pt1, <- Ptm. permc.
    + intros F. congruence.
  - intros m Hm. rewrite <- (Hbk m) in Hm |- *.
    destruct (LEQ (bkw ws2 m) (bkw mid m)) as [E|Hne].
    + rewrite <- E, <- (B2 m) in Hm |- *.
      destruct (check_guard _ _ _ _ m H2 Hm) as (A & f & Ef & Hf). split; [exact A|].
      change (ws_nt mid2) with (ws_nt ws2) in Ef.
      destruct (check_sdsent_back _ _ _ _ m f H1 Ef Hf) as (f1 & Ef1 & Hf1). exact (Ent m f1 Ef1 Hf1).
    + destruct (check_guard _ _ _ _ m H1 Hne) as (A & f & Ef & Hf). split; [exact A|]. exact (Ent m f Ef Hf).
  - intros v ixs Hin. apply in_app_or in Hin. destruct Hin as [Hin|Hin].
    + destruct (check_tail _ _ _ _ H1 v ixs Hin) as (keep & Eb & Hk & Hi).
      exists keep. split; [|auto].
      destruct (LEQ (bkw ws3 v) (bkw mid2 v)) as [E|Hne]; [rewrite E, B2; exact Eb|].
      destruct (check_guard _ _ _ _ v H2 Hne) as (A & _). rewrite B2, Eb, app_length in A. lia.
    + apply in_app_or in Hin. destruct Hin as [Hin|Hin]; [exfalso; exact (nost_no_steal _ _ _ Hpre Hin)|].
      apply in_app_or in Hin. destruct Hin as [Hin|Hin]; [exact (check_tail _ _ _ _ H2 v ixs Hin)|].
      exfalso. exact (nost_no_steal _ _ _ Hpost Hin).
Qed.

(* ====================================================================================== *)
(* Part B: one iteration of the controller loop, for ANY re-queue budget                    *)
(* ====================================================================================== *)
(* what the handler of ev puts back into the pool when a plugin re-queues the crash item: the FIRST index
   that carries the id of the crash item (the crash item itself when ids are distinct) *)
Definition rq_ofw (d : dstate) (ws : wsstate) (ev : cevent) : list nat :=
  match d_requeue d, ev with
  | S _, QErrorDown n => flat_map (first_idx (ws_coll ws)) (firstn 1 (bkw ws n))
  | _, _ => []
  end.

Section CtlFR.
Variable N : nat.
Variable collf : nat -> list string.
Hypothesis HN : 0 < N.
Notation DJXc := (DJX N collf).
Notation LJXc := (LJX N collf).
Notation PREXc := (PREX collf).

Lemma try_block_factsR n d ws d1 o1 r :
  DJX0 N collf d ws -> try_block n d = (d1, o1, r) ->
  exists ws1, d_sched d1 = StW ws1 /\ HFXR (QErrorDown n) (rq_ofw d ws (QErrorDown n)) ws ws1 o1 /\
    d_requeue d = d_requeue d1 + length (rq_ofw d ws (QErrorDown n)).
Proof.
  intros DJ0 H.
  destruct (d_requeue d) as [|k] eqn:Erq.
  { destruct (try_block_facts N collf HN n d ws d1 o1 r DJ0 Erq H) as (ws1 & E1 & F1).
    destruct (try_block_effx N collf HN _ _ _ _ _ _ DJ0 H) as (_ & wsa & voa & rqa & -> & _ & _ & Trq & _).
    exists ws1. split; [exact E1|]. unfold rq_ofw. rewrite Erq. split; [apply HFXR_of_HFX; exact F1|].
    cbn. rewrite (Trq Erq). reflexivity. }
  pose proof DJ0 as [Els J AL RQ JB K2]. unfold try_block in H.
  rewrite (sched_op_runx _ d ws Els) in H. cbn [s_step] in H.
  destruct (ws_remove_node n ws) as [[ws2 o2] r2] eqn:Er. cbn [lift] in H.
  assert (BMID : forall rest m, bkw (rn_mid n ws rest) m = bookmidx (QErrorDown n) m (bkw ws m)).
  { intros rest m. rewrite (rn_mid_bkw _ _ _ n ws rest m J). reflexivity. }
  unfold rq_ofw. rewrite Erq.
  destruct (aget n (ws_n2p ws)) as [[|i rest]|] eqn:Eb.
  - (* empty book *)
    rewrite (W7_eq_idle n ws Eb) in Er. set (mid := rn_mid n ws []) in *.
    destruct (ws_check_schedule mid) as [[ws1 o3] r3] eqn:Em.
    pose proof (W10_check_schedule_never_raises _ _ _ _ Em) as ->. injection Er as <- <- <-. inv H.
    exists ws1. split; [reflexivity|]. rewrite (bkw_some ws n _ Eb). cbn [firstn flat_map length].
    split; [|cbn [d_requeue d_set_sched]; lia]. apply HFXR_of_HFX.
    eapply facts_of_check; [exact Em|intros m f Ef Hf; exists f; auto|apply BMID|].
    apply TOKLAW_same; [cbn [evtokx]; rewrite (bkw_some ws n _ Eb); reflexivity|reflexivity|].
    pose proof (rn_mid_tokens N HN n ws [] [] [] Eb eq_refl) as P. rewrite app_nil_r in P. exact P.
  - (* the head of the book is the crash item; it is re-queued *)
    assert (Hit : In i (wtokens ws)).
    { unfold StealProofs.tokens. apply in_or_app. right. apply (in_bkw_books ws n i). rewrite (bkw_some ws n _ Eb). left. reflexivity. }
    assert (EXc : exists X, ws_coll ws = Some X).
    { destruct (ws_coll ws) as [X|] eqn:E; [eauto|]. rewrite (xj_b0 _ _ _ _ J E) in Hit. destruct Hit. }
    destruct EXc as (X & Ecoll).
    assert (Hi : i < length X) by (apply (xj_valid _ _ _ _ J X Ecoll); exact Hit).
    destruct (nth_error X i) as [item|] eqn:Enth; [|apply nth_error_None in Enth; lia].
    assert (NDX : NoDup X).
    { destruct RQ as [F|RQ]; [rewrite Erq in F; discriminate|]. destruct (xj_cin _ _ _ _ J X Ecoll) as (k0 & ->). apply RQ. }
    pose proof (CrashSteal.index_of_str_nth X NDX i item Enth) as Eidx.
    rewrite (W7_eq n ws i rest X item Eb Ecoll Enth) in Er. set (mid := rn_mid n ws rest) in *.
    destruct (ws_check_schedule mid) as [[ws1 o3] r3] eqn:Em.
    pose proof (W10_check_schedule_never_raises _ _ _ _ Em) as ->. injection Er as <- <- <-. cbn [lift] in H.
    destruct (check_frame _ _ _ _ Em) as (_ & Kc1 & _).
    assert (Ec1 : ws_coll ws1 = Some X) by (rewrite Kc1; exact Ecoll).
    unfold d_handle_crashitem, hook in H. rewrite mbind_emit, mbind_get in H. cbn [d_requeue d_set_sched] in H.
    rewrite Erq in H. unfold mbind, put in H.
    rewrite (sched_op_runx _ (d_set_requeue (d_set_sched d (StW ws1)) k) ws1 eq_refl) in H. cbn [s_step] in H.
    destruct (ws_mark_test_pending item ws1) as [[ws3 o4] r4] eqn:Emp. cbn [lift] in H.
    unfold ws_mark_test_pending in Emp. rewrite mbind_get, Ec1 in Emp. cbn [of_opt] in Emp.
    rewrite mbind_ret, Eidx in Emp. cbn [of_opt] in Emp. rewrite mbind_ret, mbind_put in Emp.
    pose proof (W10_check_schedule_never_raises _ _ _ _ Emp) as ->.
    unfold no_str, ret, emit in H. cbn [app] in H. inv H.
    exists ws3. split; [reflexivity|].
    rewrite (bkw_some ws n _ Eb). cbn [firstn flat_map]. unfold first_idx. rewrite Ecoll, Enth, Eidx. cbn [app length].
    split; [|cbn [d_requeue d_set_sched d_set_requeue]; lia].
    rewrite app_nil_r.
    change (OHook (HCrashItem item n) :: o4 ++ [OHook (HCrashReport item n)])
      with ([OHook (HCrashItem item n)] ++ o4 ++ [OHook (HCrashReport item n)]).
    apply (facts_of_check2 (QErrorDown n) ws i mid ws1 o3 (Ok tt) ws3 o4 (Ok tt) _ _ Em Emp).
    + intros m f Ef Hf. exists f. auto.
    + apply BMID.
    + exists X. split; [exact Ecoll|exact Ecoll].
    + cbn [evtokx]. rewrite (bkw_some ws n _ Eb). reflexivity.
    + exact (rn_mid_tokens N HN n ws (i :: rest) [i] rest Eb eq_refl).
    + apply nost_quiet. reflexivity.
    + apply nost_quiet. reflexivity.
  - (* not scheduled (never became ready): KeyError, swallowed *)
    rewrite (ws_remove_node_unknownx n ws Eb) in Er. injection Er as <- <- <-. cbn [lift] in H. inv H.
    exists ws. split; [reflexivity|]. rewrite (bkw_none ws n Eb). cbn [firstn flat_map length].
    split; [|cbn [d_requeue d_set_sched]; lia]. apply HFXR_of_HFX.
    apply facts_of_silent; [|apply TOKLAW_same; [cbn [evtokx]; rewrite (bkw_none ws n Eb); reflexivity|reflexivity|reflexivity]|apply nost_nil].
    intros m. cbn [bookmidx]. destruct (Nat.eqb m n) eqn:E; [|reflexivity].
    apply Nat.eqb_eq in E. subst m. apply bkw_none. exact Eb.
Qed.

Lemma hf_errordownR n d ws d1 o1 r :
  DJXc d ws -> PREXc (QErrorDown n) d ws ->
  d_handle (QErrorDown n) d = (d1, o1, r) ->
  exists ws1, d_sched d1 = StW ws1 /\ HFXR (QErrorDown n) (rq_ofw d ws (QErrorDown n)) ws ws1 o1.
Proof.
  intros (J0 & _) Hina H. cbn [PREX] in Hina. pose proof J0 as [Els J AL RQ JB K2].
  cbn [d_handle] in H. rewrite errordown_unfold in H.
  apply LoadProofs.mbind_inv in H. destruct H as [(e & Hh & _)|(d0 & o0 & [] & oR & Hh & E & ->)]; [rewrite hook_run in Hh; discriminate|].
  rewrite hook_run in Hh. injection Hh as <- <-. rename d1 into dx.
  apply LoadProofs.mbind_inv in E. destruct E as [(e & Ht & ->)|(da & oa & [] & ob & Ht & E & ->)].
  { destruct (try_block_effx N collf HN _ _ _ _ _ _ J0 Ht) as (F & _). discriminate. }
  destruct (try_block_factsR _ _ _ _ _ _ J0 Ht) as (wsa' & Ewsa & FA & _).
  destruct (try_block_effx N collf HN _ _ _ _ _ _ J0 Ht) as (_ & wsa & voa & rqa & -> & -> & Ja & Trq & Tnt & Tbk & Tst & Tnodes & Tn2c & Tcr).
  cbn [d_sched d_set_requeue d_set_sched] in Ewsa. injection Ewsa as <-.
  assert (HnG : n < d_next_gw d) by (apply AL; exact Hina).
  assert (Efn : exists fn, aget n (ws_nt wsa) = Some fn).
  { destruct (aget n (ws_nt wsa)) as [fn|] eqn:Ef; [eauto|]. exfalso. apply (proj2 (xj_ntk _ _ _ _ Ja n) HnG). exact Ef. }
  destruct Efn as (fn & Efn).
  rewrite mbind_get in E. cbv zeta in E. rewrite mbind_put in E.
  set (da := d_set_requeue (d_set_sched d (StW wsa)) rqa) in *.
  set (db := d_set_failed_nodes da (d_failed_nodes da + 1)%Z) in *.
  assert (FIN : forall ws2 post, same_books wsa ws2 -> nost post ->
            HFXR (QErrorDown n) (rq_ofw d ws (QErrorDown n)) ws ws2 ([OHook (HNodeDown n true)] ++ vfilter (ws_nt ws) voa ++ post)).
  { intros ws2 post SB NP. apply (HFXR_ext _ _ ws wsa ws2); [exact SB|apply nost_quiet; reflexivity|exact NP|exact FA]. }
  assert (DEC :
    (exists m0, d_max_restart d = Some m0 /\
     ((hook (HSummary (m0 =? 0)%Z) ;;; d_triggershutdown) ;;; d_active_remove n) db = (dx, ob, r)) \/
    ((((d2 <- get ;; put (d_set_shuttingdown d2 false)) ;;; d_clone_node n) ;;; d_active_remove n) db = (dx, ob, r))).
  { pose proof E as E'.
    clear E. change (d_max_restart da) with (d_max_restart d) in E'. change (d_failed_nodes da) with (d_failed_nodes d) in E'.
    destruct (d_max_restart d) as [m0|] eqn:Emr.
    - destruct (m0 <? d_failed_nodes d + 1)%Z eqn:Elt.
      + left. exists m0. split; [reflexivity|]. exact E'.
      + right. exact E'.
    - right. exact E'. }
  clear E. destruct DEC as [(m0 & Emr & E)|E].
  - (* the budget is used up: the session shuts down *)
    apply LoadProofs.mbind_inv in E. destruct E as [(e & Hg & ->)|(dc & oc & [] & od & Hg & E2 & ->)].
    { exfalso. apply LoadProofs.mbind_inv in Hg.
      destruct Hg as [(e' & Hh & _)|(d0 & o0 & [] & oR & Hh & Hg & _)]; [rewrite hook_run in Hh; discriminate|].
      rewrite hook_run in Hh. injection Hh as <- <-.
      destruct (trigger_effx N collf _ db wsa _ _ _ eq_refl Ja Hg) as (F & _). discriminate. }
    apply LoadProofs.mbind_inv in Hg.
    destruct Hg as [(e' & Hh & _)|(d0 & o0 & [] & oR & Hh & Hg & ->)]; [rewrite hook_run in Hh; discriminate|].
    rewrite hook_run in Hh. injection Hh as <- <-.
    destruct (trigger_effx N collf _ db wsa _ _ _ eq_refl Ja Hg) as (_ & ws2 & vo2 & -> & T2 & -> & F2 & _).
    assert (Hin2 : In n (d_active (d_withw db true ws2))) by exact Hina.
    rewrite (active_remove_run n _ Hin2) in E2. inv E2. rewrite app_nil_r.
    exists ws2. split; [reflexivity|].
    change (OHook (HNodeDown n true) :: vfilter (ws_nt ws) voa ++ OHook (HSummary (m0 =? 0)%Z) :: vfilter (ws_nt wsa) vo2)
      with ([OHook (HNodeDown n true)] ++ vfilter (ws_nt ws) voa ++ (OHook (HSummary (m0 =? 0)%Z) :: vfilter (ws_nt wsa) vo2)).
    apply FIN; [apply nt_only_same_books; exact F2|].
    apply nost_hook. apply nost_vfilter. apply (nost_TW _ _ _ T2). destruct F2 as (_ & _ & _ & F4 & _). exact F4.
  - (* within the budget: a replacement worker is started *)
    assert (CL : ((d2 <- get ;; put (d_set_shuttingdown d2 false)) ;;; d_clone_node n) db =
                 (d_set_active (d_set_next_gw (d_set_sched (d_set_shuttingdown db false)
                     (StW (ws_set_nt wsa (aset (d_next_gw d) (mkfresh (n_spec fn)) (ws_nt wsa))))) (S (d_next_gw d)))
                    (d_active d ++ [d_next_gw d]),
                  [OHook (HSpawn (d_next_gw d) (n_spec fn))], Ok tt)).
    { unfold mbind at 1. rewrite mbind_get. unfold put.
      rewrite (clone_runx n (d_set_shuttingdown db false) wsa fn eq_refl Efn). reflexivity. }
    apply LoadProofs.mbind_inv in E. destruct E as [(e & Hg & ->)|(dc & oc & [] & od & Hg & E2 & ->)].
    { rewrite CL in Hg. discriminate. }
    rewrite CL in Hg. injection Hg as <- <-. clear CL.
    match type of E2 with d_active_remove n ?D = _ => set (dc := D) in * end.
    assert (Hin2 : In n (d_active dc)) by (unfold dc; cbn [d_active d_set_active]; apply in_or_app; left; exact Hina).
    rewrite (active_remove_run n _ Hin2) in E2. inv E2. rewrite app_nil_r.
    eexists. split; [reflexivity|].
    change (OHook (HNodeDown n true) :: vfilter (ws_nt ws) voa ++ [OHook (HSpawn (d_next_gw d) (n_spec fn))])
      with ([OHook (HNodeDown n true)] ++ vfilter (ws_nt ws) voa ++ [OHook (HSpawn (d_next_gw d) (n_spec fn))]).
    apply FIN; [unfold same_books; wsproj; auto|apply nost_quiet; reflexivity].
Qed.

(* every re-queue consumes one unit of the plugin's budget *)
Lemma errordown_requeueR n d ws d1 o1 r :
  DJX0 N collf d ws -> d_worker_errordown n d = (d1, o1, r) ->
  d_requeue d = d_requeue d1 + length (rq_ofw d ws (QErrorDown n)).
Proof.
  intros J0 H. rewrite errordown_unfold2 in H.
  apply LoadProofs.mbind_inv in H. destruct H as [(e & Hh & _)|(d0 & o0 & [] & oR & Hh & E & ->)]; [rewrite hook_run in Hh; discriminate|].
  rewrite hook_run in Hh. injection Hh as <- <-.
  apply LoadProofs.mbind_inv in E. destruct E as [(e & Ht & ->)|(da & oa & [] & ob & Ht & E & ->)].
  - destruct (try_block_factsR _ _ _ _ _ _ J0 Ht) as (_ & _ & _ & R). exact R.
  - destruct (try_block_factsR _ _ _ _ _ _ J0 Ht) as (_ & _ & _ & R).
    rewrite (RI_requeue_same _ _ _ _ _ (RI_errordown_tail n) E). exact R.
Qed.

Lemma DJX_requeue0 d ws : DJXc d ws -> DJXc (d_set_requeue d 0) ws.
Proof.
  intros ([Els J AL RQ JB K2] & A & B). split; [|split; [exact A|exact B]].
  constructor; try assumption. left. reflexivity.
Qed.

(* ---- one iteration of the controller loop, any budget ---- *)
Theorem loop_factsxR ev d ws d' o r :
  DJXc d ws -> PREXc ev d ws ->
  d_loop_once ev d = (d', o, r) ->
  exists ws', d_sched d' = StW ws' /\ HFXR ev (rq_ofw d ws ev) ws ws' o /\
    d_requeue d = d_requeue d' + length (rq_ofw d ws ev).
Proof.
  intros DJd Hpre H.
  destruct (d_requeue d) as [|k] eqn:Erq.
  { destruct (loop_factsx N collf HN ev d ws d' o r DJd Hpre Erq H) as (ws' & E' & F').
    exists ws'. split; [exact E'|]. unfold rq_ofw. rewrite Erq. split; [apply HFXR_of_HFX; exact F'|].
    rewrite (loop_once_requeue0 _ _ _ _ _ H Erq). reflexivity. }
  destruct (classic_errd ev) as [(n & ->)|Hne].
  - (* errordown: the crash item may be re-queued *)
    rewrite loop_once_unfold in H. pose proof DJd as (DJ0 & _). pose proof DJ0 as [Els J AL RQ JB K2].
    apply LoadProofs.mbind_inv in H. destruct H as [(e & H1 & ->)|(d1 & o1 & a & o2 & H1 & H2 & ->)].
    + destruct (hf_errordownR _ _ _ _ _ _ DJd Hpre H1) as (ws1 & E1 & F1). exists ws1. split; [exact E1|]. split; [exact F1|].
      rewrite <- Erq. exact (errordown_requeueR n d ws d' o (Err e) DJ0 H1).
    + destruct (hf_errordownR _ _ _ _ _ _ DJd Hpre H1) as (ws1 & E1 & F1).
      destruct (loop_rest_quiet N collf _ _ _ _ _ E1 H2) as (ws2 & E2 & SB & NS).
      exists ws2. split; [exact E2|]. split.
      * replace (o1 ++ o2) with ([] ++ o1 ++ o2) by reflexivity.
        apply (HFXR_ext _ _ ws ws1 ws2 [] o1 o2 SB nost_nil NS F1).
      * rewrite <- Erq, (RI_requeue_same _ _ _ _ _ RI_loop_rest H2). exact (errordown_requeueR n d ws d1 o1 (Ok a) DJ0 H1).
  - (* any other event: the handler does not look at the budget *)
    assert (Hk : forall n, ev <> QFinished n SKKbd).
    { intros n ->. cbn in Hpre. exact Hpre. }
    pose proof (RI_loop_once ev Hne Hk d 0) as E0. rewrite H in E0. cbn [rqlift] in E0.
    pose proof (RI_requeue_same _ _ _ _ _ (RI_loop_once ev Hne Hk) H) as Rq.
    assert (Hpre0 : PREXc ev (d_set_requeue d 0) ws) by (destruct ev; exact Hpre).
    destruct (loop_factsx N collf HN ev _ ws _ o r (DJX_requeue0 d ws DJd) Hpre0 eq_refl E0) as (ws' & E' & F').
    exists ws'. split; [exact E'|].
    assert (Z : rq_ofw d ws ev = []) by (unfold rq_ofw; rewrite Erq; destruct ev; try reflexivity; exfalso; eapply Hne; reflexivity).
    rewrite Z. split; [apply HFXR_of_HFX; exact F'|]. cbn [length]. rewrite Rq, Erq. lia.
Qed.

End CtlFR.

(* ====================================================================================== *)
(* Part C: the system invariant TS of CrashStealTokens.v, redone with a ghost list of re-queued indices  *)
(* ====================================================================================== *)
(* the index put back into the pool by the controller turn taken in state s: the crash item, when the
   plugin still re-queues (the FIRST index carrying its id) *)
Definition rq_idxw (s : sys) : list nat :=
  match d_requeue (y_d s) with 0 => [] | S _ => flat_map (first_idx (the_collw s)) (crash_idxw s LCtl) end.

Lemma rq_ofw_idx s ws ev q : y_evq s = ev :: q -> d_sched (y_d s) = StW ws -> rq_ofw (y_d s) ws ev = rq_idxw s.
Proof.
  intros Eq Els. unfold rq_ofw, rq_idxw, crash_idxw, the_collw. rewrite Eq, Els.
  destruct (d_requeue (y_d s)); [reflexivity|]. destruct ev; reflexivity.
Qed.

Section TokWR.
Variable c : config.
Notation N := (c_numnodes c).
Notation X0 := (c_coll c).
Notation OR := (c_oracle c).
Hypothesis Hng : no_garbled c.
Hypothesis Hpos : 0 < N.
(* the plugin's budget at the start *)
Variable BUD : nat.

(* lemmas of CrashStealTokens.v, Section TokW, under the names they have there *)
Let regime_alx := CrashStealTokens.regime_alx c.
Let xw_ws := CrashStealTokens.xw_ws c.
Let xsigs_push := CrashStealTokens.xsigs_push c.
Let node_wx2 := CrashStealTokens.node_wx2 c.
Let crash_d := CrashStealTokens.crash_d c.
Let mortal_heard := CrashStealTokens.mortal_heard c Hpos.
Let ctl_node_ord := CrashStealTokens.ctl_node_ord c Hpos.
Let errd_node_quiet := CrashStealTokens.errd_node_quiet c.
Let firstn1_prefix := CrashStealTokens.firstn1_prefix c Hpos.
Let running_len := CrashStealTokens.running_len c Hpos.
Let xw_sched := CrashStealTokens.xw_sched c.

(* cr: the indices reported as crashed so far; rq: the indices put back into the pool by the plugin so far;
   H: the completions handled so far, with their node (all ghosts) *)
Record TSR (s : sys) (H : list (nat * nat)) (cr rq : list nat) : Prop := {
  tr_keys : NoDup (akeys (y_w s));
  tr_rq : d_requeue (y_d s) + length rq = BUD;
  tr_hw : forall p, In p H -> aget (fst p) (y_w s) <> None;
  tr_tok : forall ws, d_sched (y_d s) = StW ws ->
           match ws_coll ws with
           | None => H = [] /\ cr = [] /\ rq = []
           | Some coll => Permutation (wtokens ws ++ map snd H ++ cr) (seq 0 (length coll) ++ rq)
           end;
  tr_done : forall n w, aget n (y_w s) = Some w ->
            Permutation (done_w w) (hn n H ++ xcompletes (hsx s n));
  tr_dh : sub (DHx s) cr;
  tr_ord : forall ws n w, d_sched (y_d s) = StW ws -> aget n (y_w s) = Some w -> ORDN s ws n w;
}.

(* a step of an alive worker (or of its transport): the controller's accounts are not touched *)
Lemma TSR_worker s s' n0 w0 w' H cr rq :
  TSR s H cr rq ->
  aget n0 (y_w s) = Some w0 -> mem_nat n0 (y_dead s) = false ->
  y_w s' = aset n0 w' (y_w s) -> y_d s' = y_d s -> y_dead s' = y_dead s -> y_evq s' = y_evq s ->
  (forall k, k <> n0 -> alist_get [] k (y_up s') = alist_get [] k (y_up s) /\
                        alist_get [] k (y_down s') = alist_get [] k (y_down s)) ->
  Permutation (done_w w') (hn n0 H ++ xcompletes (hsx s' n0)) ->
  (forall ws, d_sched (y_d s) = StW ws -> ORDN s' ws n0 w') ->
  TSR s' H cr rq.
Proof.
  intros [K Rq Hw Tk Dn Dh Or] Ew Hd Ey Ed Edd Eq Eoth Hdone Hord.
  assert (Ek : akeys (y_w s') = akeys (y_w s)) by (rewrite Ey; apply FifoProofs.akeys_aset_in; eapply FifoProofs.aget_some_in; eauto).
  constructor.
  - rewrite Ek. exact K.
  - rewrite Ed. exact Rq.
  - intros p Hp. rewrite Ey. apply aget_aset_some. apply Hw. exact Hp.
  - rewrite Ed. exact Tk.
  - intros n w Hn. rewrite Ey, LoadProofs.aget_aset in Hn. destruct (Nat.eqb n n0) eqn:E.
    + apply Nat.eqb_eq in E. subst n. injection Hn as <-. exact Hdone.
    + apply Nat.eqb_neq in E. rewrite (hsx_ext s s' n (f_equal (mem_nat n) Edd) (f_equal d_sched Ed) Eq (proj1 (Eoth n E))). apply Dn. exact Hn.
  - assert (E : DHx s' = DHx s).
    { unfold DHx. rewrite Ey.
      rewrite (fmkv_ext (fun k w => if gone s' k then running w else []) (fun k w => if gone s k then running w else [])).
      - apply (fmkv_aset_same _ n0 w' w0); [exact Ew|]. unfold gone. rewrite Hd. reflexivity.
      - intros k v _. unfold gone. rewrite Edd, Ed. reflexivity. }
    rewrite E. exact Dh.
  - intros ws n w Els Hn. rewrite Ed in Els. rewrite Ey, LoadProofs.aget_aset in Hn. destruct (Nat.eqb n n0) eqn:E.
    + apply Nat.eqb_eq in E. subst n. injection Hn as <-. apply Hord. exact Els.
    + apply Nat.eqb_neq in E. destruct (Eoth n E) as (E1 & E2).
      apply (ORDN_ext s s' ws ws n w (f_equal (mem_nat n) Edd) (f_equal d_active Ed)); auto.
      apply xsigs_ext; assumption.
Qed.

(* ---- LDeliver ---- *)
Lemma tr_deliver s n0 cmd rest w0 rr H cr rq :
  TSR s H cr rq -> mem_nat n0 (y_dead s) = false ->
  aget n0 (y_down s) = Some (cmd :: rest) -> aget n0 (y_w s) = Some w0 ->
  TSR {| y_d := y_d s; y_evq := y_evq s; y_down := aset n0 rest (y_down s); y_up := y_up s;
        y_w := aset n0 (deliver w0 cmd) (y_w s); y_dead := y_dead s; y_result := rr |} H cr rq.
Proof.
  intros T Hd Edn Ew. pose proof T as [K Rq Hw Tk Dn Dh Or].
  destruct (deliver_owed2 w0 cmd) as (_ & Ep & Epop & Er & _ & _).
  match goal with |- TSR ?x _ _ _ => set (s' := x) end.
  apply (TSR_worker s s' n0 w0 (deliver w0 cmd) H cr rq T Ew Hd); try reflexivity.
  - intros k Hk. split; [reflexivity|]. unfold s'. cbn [y_down]. apply FifoProofs.alist_get_aset_neq. exact Hk.
  - rewrite (done_ext w0 (deliver w0 cmd) Ep Epop), (hsx_ext s s' n0); try reflexivity. apply Dn. exact Ew.
  - intros ws Els. pose proof (Or ws n0 w0 Els Ew) as O. unfold ORDN in *. change (y_dead s') with (y_dead s). rewrite Hd in *.
    rewrite (in_regime_ext w0 (deliver w0 cmd) Ep). intros Hr. destruct (O Hr) as (S1 & K1 & F1).
    assert (Eb : backs s' n0 (deliver w0 cmd) = backs s n0 w0).
    { unfold backs, R. rewrite Er. reflexivity. }
    split; [|split].
    + unfold SUFx. rewrite Eb. exact S1.
    + unfold Kx. rewrite Eb. exact K1.
    + intros pre T0 post E. apply (F1 pre T0 post).
      unfold s' in E. cbn [y_down deliver upd_recv winbox] in E. rewrite FifoProofs.alist_get_aset_eq, <- app_assoc in E.
      rewrite (alist_get_some [] _ _ _ Edn). exact E.
Qed.

(* ---- LRecvW ---- *)
Lemma tr_recvw s n0 w0 w' evs H cr rq :
  XW c s -> TSR s H cr rq -> mem_nat n0 (y_dead s) = false -> aget n0 (y_w s) = Some w0 -> wcb w0 = true ->
  recv_step (OR n0) w0 = (w', evs) ->
  TSR (push_up (set_w s n0 w') n0 (map (up_of_wevent c n0) evs)) H cr rq.
Proof.
  intros X T Hd Ew Ecb Es. pose proof T as [K Rq Hw Tk Dn Dh Or].
  destruct (w_dj _ _ X) as (ws & P & DJd & NIs & _). pose proof DJd as ([Els _ _ _ _ _] & _).
  pose proof (NIs n0 w0 Ew) as NI. pose proof NI as (Iw & Gw & _ & _).
  pose proof (recv_step_owed2 (OR n0) w0 Gw) as RS. rewrite Es in RS. cbn [fst snd] in RS.
  destruct RS as (_ & _ & Ep & Epop & _ & _ & Exc & _).
  match goal with |- TSR ?x _ _ _ => set (s' := x) end.
  apply (TSR_worker s s' n0 w0 w' H cr rq T Ew Hd); try reflexivity.
  - intros k Hk. split; [|reflexivity]. unfold s'. cbn [push_up set_w y_up]. apply FifoProofs.alist_get_aset_neq. exact Hk.
  - rewrite (done_ext w0 w' Ep Epop). rewrite (Dn n0 w0 Ew). apply Permutation_app_head.
    unfold hsx. change (y_dead s') with (y_dead s). rewrite Hd. unfold hsigs_of. change (y_d s') with (y_d s). rewrite Els.
    unfold hsigs. rewrite !xcompletes_app. change (y_evq s') with (y_evq s). apply Permutation_app_head.
    unfold s'. cbn [push_up set_w y_up]. rewrite FifoProofs.alist_get_aset_eq.
    rewrite xcompletes_hup_app; [reflexivity|]. rewrite up_xsigs_of_wevents. exact Exc.
  - intros ws' Els'. assert (ws' = ws) by congruence. subst ws'.
    pose proof (Or ws n0 w0 Els Ew) as O. unfold ORDN in *. change (y_dead s') with (y_dead s). rewrite Hd in *.
    rewrite (in_regime_ext w0 w' Ep). intros Hr. destruct (O Hr) as (S1 & K1 & F1).
    destruct (regime_alx _ _ _ _ _ NI Hd Hr) as (_ & _ & AX). pose proof (ax_ni _ _ _ _ AX) as D1.
    pose proof (nw_steal _ _ _ _ _ _ D1) as St. pose proof (cnt_le1 (ws_steal ws) n0) as Cle.
    pose proof (recv_step_shape (OR n0) w0 Gw Ecb) as SH. rewrite Es in SH. cbn [fst snd] in SH.
    destruct SH as (Eevs & [(cs & EA & NA & RA & IA)|(sk & T0 & Erp & EB & Isk & Nsk & Erp' & Eq' & Er')]).
    + (* no withdrawal request executed *)
      assert (Eb : backs s' n0 w' = backs s n0 w0).
      { unfold backs, s'. rewrite xsigs_push, xbacks_app, Eevs, reply_ev_backs. unfold R. rewrite RA. cbn [reply_inds].
        rewrite app_nil_r. reflexivity. }
      split; [|split].
      * unfold SUFx. rewrite Eb. exact S1.
      * unfold Kx. rewrite Eb. exact K1.
      * intros pre T1 post E. change (alist_get [] n0 (y_down s')) with (alist_get [] n0 (y_down s)) in E.
        assert (E0 : winbox w0 ++ alist_get [] n0 (y_down s) = (cs ++ pre) ++ CSteal T1 :: post).
        { rewrite EA, <- !app_assoc, E. reflexivity. }
        destruct (F1 _ _ _ E0) as (Tne & Imp). split; [exact Tne|]. intros Hin. apply Imp.
        intros i Hi. specialize (Hin i Hi). rewrite fm_cmd_app. rewrite !in_app_iff in *.
        destruct Hin as [Hq|[Hq|Hq]].
        -- assert (X1 : In i (ents_idx (wq w') ++ item_inds (wrpend w'))) by (apply in_or_app; left; exact Hq).
           apply IA in X1. rewrite !in_app_iff in X1. tauto.
        -- assert (X1 : In i (ents_idx (wq w') ++ item_inds (wrpend w'))) by (apply in_or_app; right; exact Hq).
           apply IA in X1. rewrite !in_app_iff in X1. tauto.
        -- tauto.
    + (* the request that heads the inbox is executed *)
      assert (Hn : nstc (winbox w0) = S (nstc (winbox w'))).
      { rewrite EB, nstc_app, Nsk. unfold nstc. cbn [filter is_steal length]. reflexivity. }
      assert (Z1 : nstc (alist_get [] n0 (y_down s)) = 0) by lia.
      assert (Z2 : nstc (winbox w') = 0) by lia.
      assert (Z3 : nrep (wreply w0) = 0) by lia.
      assert (Z4 : nuns (xsigs s n0) = 0) by lia.
      assert (Er0 : wreply w0 = None) by (destruct (wreply w0); [discriminate|reflexivity]).
      rewrite Er0 in Eevs. cbn [reply_ev] in Eevs. subst evs.
      destruct (steal_q (wq w0) T0) as [q' st] eqn:Esq. cbn [fst snd] in Eq', Er'.
      assert (Eb : backs s' n0 w' = ents_idx st).
      { unfold backs, s'. rewrite xsigs_push. cbn [flat_map]. rewrite app_nil_r, (nuns_zero_xbacks _ Z4).
        unfold R. rewrite Er'. reflexivity. }
      assert (E0 : winbox w0 ++ alist_get [] n0 (y_down s) = sk ++ CSteal T0 :: (winbox w' ++ alist_get [] n0 (y_down s))).
      { rewrite EB, <- app_assoc. reflexivity. }
      destruct (F1 _ _ _ E0) as (Tne & Imp).
      assert (FL' : FLx s' ws n0 w').
      { intros pre T1 post E. exfalso. change (alist_get [] n0 (y_down s')) with (alist_get [] n0 (y_down s)) in E.
        pose proof (nstc_has_steal pre T1 post) as X1. rewrite <- E, nstc_app in X1. lia. }
      destruct st as [|e0 st0].
      * split; [|split; [|exact FL']].
        -- exists (bkw ws n0), []. rewrite Eb, app_nil_r. split; [reflexivity|constructor].
        -- intros F. rewrite Eb in F. exfalso. apply F. reflexivity.
      * destruct (niw_queue_nodup _ _ _ _ _ _ D1) as (_ & NDq).
        assert (Hne : e0 :: st0 <> []) by discriminate.
        destruct (steal_success_exact _ _ _ _ NDq Esq Hne) as (Hiff & _).
        pose proof (steal_q_tokens _ _ _ _ Esq) as Pq.
        assert (Hincl : incl T0 (ents_idx (wq w0) ++ item_inds (wrpend w0) ++ flat_map cmd_inds sk)).
        { intros i Hi. apply in_or_app. left. eapply Permutation_in; [apply Permutation_sym; exact Pq|].
          apply in_or_app. right. apply Hiff. exact Hi. }
        destruct (Imp Hincl) as (A & Ane & Ebk).
        assert (NDb : NoDup (bkw ws n0)) by exact (nw_nd _ _ _ _ _ _ D1).
        assert (PT : Permutation T0 (ents_idx (e0 :: st0))).
        { apply NoDup_Permutation.
          - rewrite Ebk in NDb. apply WorkerProofs.nodup_app_r in NDb. exact NDb.
          - apply (Permutation_NoDup Pq) in NDq. apply WorkerProofs.nodup_app_r in NDq. exact NDq.
          - exact Hiff. }
        split; [|split; [|exact FL']].
        -- exists A, T0. rewrite Eb. split; [exact Ebk|exact PT].
        -- intros _. left. rewrite Eb, <- (Permutation_length PT), Ebk, app_length.
           destruct A; [contradiction|cbn; lia].
Qed.

(* ---- LMain (the worker does not die) ---- *)
Lemma tr_main s n0 w0 w' evs H cr rq :
  XW c s -> TSR s H cr rq -> mem_nat n0 (y_dead s) = false -> aget n0 (y_w s) = Some w0 ->
  main_step (OR n0) w0 = Some (w', evs) ->
  TSR (push_up (set_w s n0 w') n0 (map (up_of_wevent c n0) evs)) H cr rq.
Proof.
  intros X T Hd Ew Es. pose proof T as [K Rq Hw Tk Dn Dh Or].
  destruct (w_dj _ _ X) as (ws & P & DJd & NIs & _). pose proof DJd as ([Els _ _ _ _ _] & _).
  pose proof (NIs n0 w0 Ew) as NI. pose proof NI as (Iw & Gw & _ & DD). rewrite Hd in DD.
  pose proof (node_wx2 _ _ _ _ _ NI Hd) as Wx.
  destruct (main_step_rank2 _ _ _ _ Wx Es) as (Hok & Hrank).
  pose proof (main_step_done2 _ _ _ _ Iw Wx Es) as Hdone.
  destruct (main_step_frame _ _ _ _ Es) as (Erp & Einb & Erep & _).
  assert (Exs : flat_map we_xsig evs = map inj (flat_map we_sig evs)) by (apply we_xsigs_inj; exact Hok).
  match goal with |- TSR ?x _ _ _ => set (s' := x) end.
  apply (TSR_worker s s' n0 w0 w' H cr rq T Ew Hd); try reflexivity.
  - intros k Hk. split; [|reflexivity]. unfold s'. cbn [push_up set_w y_up]. apply FifoProofs.alist_get_aset_neq. exact Hk.
  - rewrite Hdone, (Dn n0 w0 Ew), <- app_assoc. apply Permutation_app_head.
    unfold hsx. change (y_dead s') with (y_dead s). rewrite Hd. unfold hsigs_of. change (y_d s') with (y_d s). rewrite Els.
    unfold hsigs. rewrite !xcompletes_app, <- app_assoc. change (y_evq s') with (y_evq s). apply Permutation_app_head.
    unfold s'. cbn [push_up set_w y_up]. rewrite FifoProofs.alist_get_aset_eq.
    destruct (completes (flat_map we_sig evs)) as [|i l] eqn:Ecomp.
    + rewrite app_nil_r, xcompletes_hup_app; [reflexivity|]. rewrite up_xsigs_of_wevents, Exs, xcompletes_inj. exact Ecomp.
    + (* a completion is emitted: the node is heard *)
      destruct Hrank as [(E0 & _)|(g & Eg & Hsr & _ & _)]; [rewrite E0 in Ecomp; discriminate|].
      rewrite Eg in Ecomp. destruct g as [| |j|]; try discriminate Ecomp. cbn in Ecomp. injection Ecomp as Ei El.
      subst i l. cbn in Hsr.
      assert (Hph : wph w0 <> PExited /\ wph w0 <> PFinishing true).
      { split; intros F; rewrite F in Hsr; discriminate. }
      destruct (P n0) eqn:EP.
      { exfalso. destruct DD as [D1 _ _ _ _ _ _]. destruct (sw_ph _ _ _ _ _ _ _ D1) as [E|E]; tauto. }
      destruct DD as [D1 _ _ _ _ D6].
      assert (Hnd : ndown ws n0 = false).
      { unfold ndown. destruct (aget n0 (ws_nt ws)) as [f|] eqn:Ef; [|reflexivity]. destruct (n_down f) eqn:Edf; [|reflexivity].
        exfalso. destruct (D6 f eq_refl Edf) as (_ & F). tauto. }
      assert (Hnf : hasfin (flat_map up_xsig (alist_get [] n0 (y_up s))) = false).
      { destruct (hasfin _) eqn:Ef; [|reflexivity]. exfalso. apply hasfin_in in Ef. destruct Ef as (b & Hb).
        pose proof (nw_chan _ _ _ _ _ _ D1) as Ch.
        assert (Hin : In (XFin b) (xsigs s n0)) by (unfold xsigs; apply in_or_app; right; exact Hb).
        pose proof (xchan_ok_in _ _ _ Ch Hin) as Hp. unfold prec in Hp. cbn in Hp. lia. }
      rewrite Hnd. unfold hup. rewrite flat_map_app, up_xsigs_of_wevents, Exs, Eg, cutfin_app, Hnf, (cutfin_nofin _ Hnf).
      cbn [map inj]. rewrite (cutfin_small [XComp j]) by (cbn; lia). rewrite xcompletes_app. reflexivity.
  - intros ws' Els'. assert (ws' = ws) by congruence. subst ws'.
    pose proof (Or ws n0 w0 Els Ew) as O. unfold ORDN in *. change (y_dead s') with (y_dead s). rewrite Hd in *.
    intros Hr'. pose proof (main_step_regime _ _ _ _ Es Hr') as Hr. destruct (O Hr) as (S1 & K1 & F1).
    assert (Eb : backs s' n0 w' = backs s n0 w0).
    { unfold backs, s'. rewrite xsigs_push, xbacks_app, Exs, xbacks_inj, app_nil_r. unfold R. rewrite Erep. reflexivity. }
    split; [|split].
    + unfold SUFx. rewrite Eb. exact S1.
    + unfold Kx. rewrite Eb. exact K1.
    + intros pre T1 post E. change (alist_get [] n0 (y_down s')) with (alist_get [] n0 (y_down s)) in E.
      rewrite Einb in E. destruct (F1 _ _ _ E) as (Tne & Imp). split; [exact Tne|]. intros Hin. apply Imp.
      intros i Hi. specialize (Hin i Hi). rewrite Erp in Hin. rewrite !in_app_iff in *.
      destruct Hin as [Hq|Hq]; [left; exact (main_step_q_incl _ _ _ _ Es i Hq)|right; exact Hq].
Qed.

(* ---- a worker dies (LCrash, or on entering a crashing test) ---- *)
Lemma tr_crash s n0 w0 H cr rq :
  XW c s -> TSR s H cr rq -> mem_nat n0 (y_dead s) = false -> aget n0 (y_w s) = Some w0 -> wph w0 <> PExited ->
  TSR (crash_worker c s n0) H cr rq.
Proof.
  intros X T Hd Ew Hph. pose proof T as [K Rq Hw Tk Dn Dh Or].
  destruct (w_dj _ _ X) as (ws & P & DJd & NIs & _). pose proof DJd as ([Els _ _ _ _ _] & _).
  pose proof (NIs n0 w0 Ew) as NI.
  destruct (mortal_heard _ _ _ _ _ NI Hd Hph) as (Hheard & Hact).
  destruct (crash_d s n0 ws Els) as (ws' & Els' & Ec' & Eb' & Et' & Esd' & End' & Ea' & Er').
  set (s' := crash_worker c s n0) in *.
  assert (DEAD : forall k, mem_nat k (y_dead s') = Nat.eqb k n0 || mem_nat k (y_dead s)) by (intros k; reflexivity).
  assert (XS : forall k, xsigs s' k = xsigs s k).
  { intros k. unfold xsigs, s', crash_worker. cbn [y_evq y_up]. destruct (Nat.eq_dec k n0) as [->|Hk].
    - rewrite FifoProofs.alist_get_aset_eq, flat_map_app. cbn. rewrite app_nil_r. reflexivity.
    - rewrite FifoProofs.alist_get_aset_neq by exact Hk. reflexivity. }
  assert (UPK : forall k, k <> n0 -> alist_get [] k (y_up s') = alist_get [] k (y_up s)).
  { intros k Hk. unfold s', crash_worker. cbn [y_up]. apply FifoProofs.alist_get_aset_neq. exact Hk. }
  assert (DNK : forall k, k <> n0 -> alist_get [] k (y_down s') = alist_get [] k (y_down s)).
  { intros k Hk. unfold s', crash_worker. cbn [y_down]. apply FifoProofs.alist_get_aset_neq. exact Hk. }
  assert (GONE : forall k, gone s' k = gone s k).
  { intros k. unfold gone. rewrite DEAD, Ea'. destruct (Nat.eqb k n0) eqn:E; [|reflexivity].
    apply Nat.eqb_eq in E. subst k. rewrite Hd. apply mem_nat_In in Hact. rewrite Hact. reflexivity. }
  constructor.
  - exact K.
  - rewrite Er'. exact Rq.
  - exact Hw.
  - intros ws1 E1. assert (ws1 = ws') by congruence. subst ws1. rewrite Ec', Et'. exact (Tk ws Els).
  - intros k w Hk. change (y_w s') with (y_w s) in Hk. rewrite (Dn k w Hk). apply Permutation_app_head.
    unfold hsx. rewrite DEAD. destruct (Nat.eqb k n0) eqn:E.
    + apply Nat.eqb_eq in E. subst k. cbn [orb]. rewrite Hd, XS. unfold hsigs_of. rewrite Els, Hheard. reflexivity.
    + cbn [orb]. apply Nat.eqb_neq in E. destruct (mem_nat k (y_dead s)); [rewrite XS; reflexivity|].
      unfold hsigs_of. rewrite Els, Els'. rewrite (hsigs_view ws ws' s s' k (End' k) eq_refl (UPK k E)). reflexivity.
  - unfold DHx. change (y_w s') with (y_w s).
    rewrite (fmkv_ext (fun k w => if gone s' k then running w else []) (fun k w => if gone s k then running w else []));
      [exact Dh|]. intros k v _. rewrite GONE. reflexivity.
  - intros ws1 k w E1 Hk. assert (ws1 = ws') by congruence. subst ws1. change (y_w s') with (y_w s) in Hk.
    destruct (Nat.eq_dec k n0) as [->|Hne].
    + (* the worker that has just died: the test it was running heads the rest of its book *)
      assert (w = w0) by congruence. subst w. unfold ORDN. rewrite DEAD, Nat.eqb_refl. cbn [orb]. intros _ Hrun.
      assert (Hr : in_regime w0 = true).
      { unfold running in Hrun. unfold in_regime. destruct (wph w0); try reflexivity; exfalso; apply Hrun; reflexivity. }
      pose proof (Or ws n0 w0 Els Ew) as O. unfold ORDN in O. rewrite Hd in O. destruct (O Hr) as ((U & V & Ebk & PV) & _ & _).
      destruct (regime_alx _ _ _ _ _ NI Hd Hr) as (_ & _ & AX). pose proof (ax_ni _ _ _ _ AX) as D1.
      pose proof (suf_front _ _ _ _ _ (nw_nd _ _ _ _ _ _ D1) Ebk PV (nw_ord _ _ _ _ _ _ D1)) as EU.
      destruct (running_owed w0) as (y & Ey).
      rewrite XS, Eb'. exists (y ++ flat_map cmd_inds (alist_get [] n0 (y_down s)) ++ V). split.
      * rewrite Ebk, EU, Ey, <- !app_assoc. reflexivity.
      * exists (y ++ flat_map cmd_inds (alist_get [] n0 (y_down s)) ++ R w0). rewrite PV. unfold backs. permc.
    + apply (ORDN_ext s s' ws ws' k w); auto.
      rewrite DEAD. apply Nat.eqb_neq in Hne. rewrite Hne. reflexivity.
Qed.

(* ---- steps that change at most node flags other than "shutdown sent" and "down" ---- *)
Lemma TSR_flagchange s s' ws ws' H cr rq :
  TSR s H cr rq ->
  y_w s' = y_w s -> y_dead s' = y_dead s -> y_evq s' = y_evq s -> y_up s' = y_up s -> y_down s' = y_down s ->
  d_active (y_d s') = d_active (y_d s) -> d_requeue (y_d s') = d_requeue (y_d s) ->
  d_sched (y_d s) = StW ws -> d_sched (y_d s') = StW ws' ->
  ws_coll ws' = ws_coll ws -> (forall k, bkw ws' k = bkw ws k) -> wtokens ws' = wtokens ws ->
  (forall k, sdsent_of ws' k = sdsent_of ws k) -> (forall k, ndown ws' k = ndown ws k) ->
  TSR s' H cr rq.
Proof.
  intros [K Rq Hw Tk Dn Dh Or] Ew Ed Eq Eu Edn Ea Er Els Els' Ec Eb Et Esd End.
  assert (XS : forall k, xsigs s' k = xsigs s k) by (intros k; unfold xsigs; rewrite Eq, Eu; reflexivity).
  constructor.
  - rewrite Ew. exact K.
  - rewrite Er. exact Rq.
  - rewrite Ew. exact Hw.
  - intros ws1 E1. assert (ws1 = ws') by congruence. subst ws1. rewrite Ec, Et. exact (Tk ws Els).
  - intros k w Hk. rewrite Ew in Hk. rewrite (Dn k w Hk). apply Permutation_app_head.
    unfold hsx. rewrite Ed, XS. destruct (mem_nat k (y_dead s)); [reflexivity|].
    unfold hsigs_of. rewrite Els, Els'.
    rewrite (hsigs_view ws ws' s s' k (End k) Eq (f_equal (alist_get [] k) Eu)). reflexivity.
  - unfold DHx. rewrite Ew.
    rewrite (fmkv_ext (fun k w => if gone s' k then running w else []) (fun k w => if gone s k then running w else []));
      [exact Dh|]. intros k v _. unfold gone. rewrite Ed, Ea. reflexivity.
  - intros ws1 k w E1 Hk. assert (ws1 = ws') by congruence. subst ws1. rewrite Ew in Hk.
    apply (ORDN_ext s s' ws ws' k w); auto; [rewrite Ed; reflexivity|rewrite Edn; reflexivity].
Qed.

Lemma tr_close_if_dead s n ws H cr rq :
  TSR s H cr rq -> d_sched (y_d s) = StW ws -> TSR (close_if_dead s n) H cr rq.
Proof.
  intros T Els. unfold close_if_dead. destruct (mem_nat n (y_dead s)); [|exact T].
  destruct (aget n (d_nt (y_d s))) as [f|] eqn:Ef; [|exact T]. destruct (n_down f) eqn:Edf; [|exact T].
  assert (Ef' : aget n (ws_nt ws) = Some f) by (unfold d_nt in Ef; rewrite Els in Ef; exact Ef).
  set (f' := {| n_spec := n_spec f; n_down := true; n_sdsent := n_sdsent f; n_closed := true |}).
  destruct (upd_flag_view ws n f') as (_ & _ & A3 & A4 & A5 & A6 & A7 & _).
  apply (TSR_flagchange s _ ws (upd_flagw ws n f') H cr rq T); try reflexivity; auto.
  - apply d_set_nt_schedw. exact Els.
  - exact (A6 f Ef' eq_refl).
  - apply (A7 f Ef'). cbn. symmetry. exact Edf.
Qed.

(* ---- LRecv: the controller's receiver thread reads one message ---- *)
Lemma tr_recv s n0 m rest d' outs r rr H cr rq :
  XW c s -> TSR s H cr rq -> aget n0 (y_up s) = Some (m :: rest) ->
  process_from_remote n0 m (y_d s) = (d', outs, r) ->
  outs = [] /\ exists evs, r = Ok evs /\
  TSR (close_if_dead (set_evq (set_d {| y_d := y_d s; y_evq := y_evq s; y_down := y_down s; y_up := aset n0 rest (y_up s);
                        y_w := y_w s; y_dead := y_dead s; y_result := rr |} d') (y_evq s ++ evs)) n0) H cr rq.
Proof.
  intros X T Eup Ep. pose proof T as [K Rq Hw Tk Dn Dh Or].
  pose proof X as [Lo Hi (ws & P & DJd & NIs & Pout) Eq Eu Ea Er Edead].
  pose proof DJd as ([Els J _ _ _ _] & _).
  pose proof (alist_get_some [] _ _ _ Eup) as Eup'.
  assert (HnG : n0 < d_next_gw (y_d s)).
  { destruct (Nat.lt_ge_cases n0 (d_next_gw (y_d s))) as [H0|H0]; [exact H0|].
    destruct (Hi n0 H0) as (_ & F & _). rewrite Eup' in F. discriminate. }
  destruct (aget n0 (y_w s)) as [w0|] eqn:Ew; [|exfalso; exact (Lo n0 HnG Ew)].
  destruct (aget n0 (ws_nt ws)) as [f|] eqn:Ef; [|exfalso; apply (proj2 (xj_ntk _ _ _ _ J n0) HnG); exact Ef].
  pose proof (NIs n0 w0 Ew) as NI. destruct NI as (A0 & B0 & C0 & D0).
  pose proof (Eu n0) as En. rewrite Eup' in En. inversion En as [|m1 r1 Gm Gr]; subst.
  destruct (pfr_effx X0 _ _ _ _ _ _ _ _ _ Els Ef Gm HnG Ep) as (-> & evs & -> & Hd' & Hdrop & Hsig & Hok & Hend & Hnoend).
  split; [reflexivity|]. exists evs. split; [reflexivity|].
  match goal with |- TSR (close_if_dead ?x _) _ _ _ => set (sA := x) end.
  assert (Ent : d_nt (y_d s) = ws_nt ws) by (unfold d_nt; rewrite Els; reflexivity).
  (* the controller's state afterwards *)
  assert (DX : exists wsA, d_sched d' = StW wsA /\ ws_coll wsA = ws_coll ws /\ (forall k, bkw wsA k = bkw ws k) /\
             wtokens wsA = wtokens ws /\ (forall k, sdsent_of wsA k = sdsent_of ws k) /\
             (forall k, k <> n0 -> ndown wsA k = ndown ws k) /\
             d_active d' = d_active (y_d s) /\ d_requeue d' = d_requeue (y_d s) /\
             ((d' = y_d s /\ wsA = ws) \/
              (ndown wsA n0 = true /\ n_down f = false /\ (m = UEnd \/ exists b, m = UEv (EFinished b))))).
  { destruct Hd' as [->|(-> & Hf & Hm)].
    - exists ws. repeat (split; [auto; fail|]). left. auto.
    - exists (upd_flagw ws n0 (down_flag' f)).
      destruct (upd_flag_view ws n0 (down_flag' f)) as (_ & _ & A3 & A4 & A5 & A6 & _ & A8).
      split; [apply d_set_nt_schedw; exact Els|]. split; [exact A3|]. split; [exact A4|]. split; [exact A5|].
      split; [exact (A6 f Ef eq_refl)|]. split; [exact A8|]. split; [reflexivity|]. split; [reflexivity|].
      right. split; [|auto]. unfold ndown. rewrite aget_upd_flagw, Nat.eqb_refl. reflexivity. }
  destruct DX as (wsA & ElsA & EcA & EbA & EtA & EsdA & EndA & Eact & Erq & DCASE).
  assert (ND0 : ndown ws n0 = n_down f) by (unfold ndown; rewrite Ef; reflexivity).
  assert (SIGK : forall k, k <> n0 -> evq_xsigs k evs = []).
  { intros k Hk. destruct (n_down f) eqn:Edn.
    - destruct (Hdrop eq_refl) as (-> & _). reflexivity.
    - rewrite (Hsig eq_refl k). apply Nat.eqb_neq in Hk. rewrite Nat.eqb_sym, Hk. reflexivity. }
  assert (XSK : forall k, k <> n0 -> xsigs sA k = xsigs s k).
  { intros k Hk. unfold xsigs, sA. cbn [set_evq set_d y_evq y_up]. rewrite evq_xsigs_app, (SIGK k Hk), app_nil_r.
    rewrite FifoProofs.alist_get_aset_neq by exact Hk. reflexivity. }
  assert (HSK : forall k, k <> n0 -> hsigs wsA sA k = hsigs ws s k).
  { intros k Hk. unfold hsigs, sA. cbn [set_evq set_d y_evq y_up]. rewrite evq_xsigs_app, (SIGK k Hk), app_nil_r, (EndA k Hk).
    rewrite FifoProofs.alist_get_aset_neq by exact Hk. reflexivity. }
  assert (HEARD : n_down f = false -> xsigs sA n0 = xsigs s n0).
  { intros Edn. unfold xsigs, sA. cbn [set_evq set_d y_evq y_up].
    rewrite FifoProofs.alist_get_aset_eq, evq_xsigs_app, (Hsig Edn), Nat.eqb_refl, Eup'. cbn [flat_map]. rewrite <- app_assoc. reflexivity. }
  (* what is heard of n0 *)
  assert (XSN : mem_nat n0 (y_dead s) = true \/ in_regime w0 = true -> xsigs sA n0 = xsigs s n0).
  { intros [Hdd|Hr].
    - rewrite Hdd in D0. destruct D0 as [_ D2 _ _].
      destruct D2 as [pre g X1 X2 X3 X4 X5 X6 X7|q1 q2 X1 _ _ _ _ _ _|X1 _ _ _ _]; try congruence.
      apply HEARD. congruence.
    - assert (Hc : {mem_nat n0 (y_dead s) = true} + {mem_nat n0 (y_dead s) = false})
        by (destruct (mem_nat n0 (y_dead s)); auto).
      destruct Hc as [Hdd|Hdd].
      + rewrite Hdd in D0. destruct D0 as [_ D2 _ _].
        destruct D2 as [pre g X1 X2 X3 X4 X5 X6 X7|q1 q2 X1 _ _ _ _ _ _|X1 _ _ _ _]; try congruence.
        apply HEARD. congruence.
      + destruct (regime_alx P s ws n0 w0 (conj A0 (conj B0 (conj C0 D0))) Hdd Hr) as (_ & _ & AX).
        destruct (n_down f) eqn:Edn; [|apply HEARD; reflexivity].
        destruct (ax_down _ _ _ _ AX f Ef Edn) as (Y1 & _). destruct (Hdrop eq_refl) as (-> & _).
        rewrite Eup' in Y1. cbn [flat_map] in Y1. apply app_eq_nil in Y1. destruct Y1 as (Y1 & Y2).
        unfold xsigs, sA. cbn [set_evq set_d y_evq y_up]. rewrite FifoProofs.alist_get_aset_eq, app_nil_r, Eup'.
        cbn [flat_map]. rewrite Y1, Y2. reflexivity. }
  assert (HSN : mem_nat n0 (y_dead s) = false -> hsigs wsA sA n0 = hsigs ws s n0).
  { intros Hdd. rewrite Hdd in D0.
    assert (Hne : m <> UEnd).
    { intros ->. destruct (P n0).
      - destruct D0 as [_ _ D3 _ _ _ _]. rewrite Eup' in D3. apply D3. left. reflexivity.
      - destruct D0 as [_ _ D3 _ _ _]. rewrite Eup' in D3. apply D3. left. reflexivity. }
    unfold hsigs, sA. cbn [set_evq set_d y_evq y_up]. rewrite evq_xsigs_app, FifoProofs.alist_get_aset_eq, ND0, Eup'.
    destruct (n_down f) eqn:Edf.
    - destruct (Hdrop eq_refl) as (-> & Ed'). destruct DCASE as [(_ & ->)|(_ & F & _)]; [|discriminate].
      rewrite ND0. cbn. rewrite app_nil_r. reflexivity.
    - rewrite (Hsig eq_refl), Nat.eqb_refl, <- app_assoc. f_equal.
      destruct DCASE as [(Ed' & ->)|(Hdown & _ & [->|(b & ->)])]; [| contradiction |].
      + rewrite ND0. unfold hup. cbn [flat_map].
        assert (Hnf : hasfin (up_xsig m) = false).
        { apply nofin_hasfin. intros b Hb. destruct (up_xsig_fin m b Hb) as (b' & ->).
          pose proof (pfr_fin_down _ _ _ _ _ _ _ _ Els Ef Edf Ep) as Ex. rewrite Ed' in Ex.
          assert (Xq : aget n0 (d_nt (d_set_nt (y_d s) (aset n0 (down_flag' f) (d_nt (y_d s))))) = Some (down_flag' f)).
          { rewrite d_nt_set. apply FifoProofs.aget_aset_eq. }
          rewrite <- Ex, Ent, Ef in Xq. injection Xq as Xq. apply (f_equal n_down) in Xq. cbn in Xq. congruence. }
        rewrite cutfin_app, Hnf. reflexivity.
      + rewrite Hdown. cbn. reflexivity. }
  assert (TA : TSR sA H cr rq).
  { constructor.
    - exact K.
    - unfold sA. cbn [set_evq set_d y_d]. rewrite Erq. exact Rq.
    - exact Hw.
    - intros ws1 E1. unfold sA in E1. cbn [set_evq set_d y_d] in E1. assert (ws1 = wsA) by congruence. subst ws1.
      rewrite EcA, EtA. exact (Tk ws Els).
    - intros k w Hk. change (y_w sA) with (y_w s) in Hk. rewrite (Dn k w Hk). apply Permutation_app_head.
      unfold hsx. change (y_dead sA) with (y_dead s). unfold hsigs_of. change (y_d sA) with d'. rewrite Els, ElsA.
      destruct (Nat.eq_dec k n0) as [->|Hne].
      + destruct (mem_nat n0 (y_dead s)) eqn:Hdd; [rewrite (XSN (or_introl eq_refl))|rewrite (HSN eq_refl)]; reflexivity.
      + rewrite (XSK k Hne), (HSK k Hne). reflexivity.
    - unfold DHx. change (y_w sA) with (y_w s).
      rewrite (fmkv_ext (fun k w => if gone sA k then running w else []) (fun k w => if gone s k then running w else []));
        [exact Dh|]. intros k v _. unfold gone. change (y_dead sA) with (y_dead s). change (y_d sA) with d'. rewrite Eact. reflexivity.
    - intros ws1 k w E1 Hk. unfold sA in E1. cbn [set_evq set_d y_d] in E1. assert (ws1 = wsA) by congruence. subst ws1.
      change (y_w sA) with (y_w s) in Hk.
      assert (EXT : xsigs sA k = xsigs s k -> ORDN sA wsA k w).
      { intros E. apply (ORDN_ext s sA ws wsA k w); auto. }
      destruct (Nat.eq_dec k n0) as [->|Hne]; [|apply EXT; apply XSK; exact Hne].
      assert (w = w0) by congruence. subst w.
      destruct (mem_nat n0 (y_dead s)) eqn:Hdd; [apply EXT; apply XSN; left; reflexivity|].
      destruct (in_regime w0) eqn:Hr; [apply EXT; apply XSN; right; reflexivity|].
      unfold ORDN. change (y_dead sA) with (y_dead s). rewrite Hdd, Hr. discriminate. }
  apply (tr_close_if_dead sA n0 wsA H cr rq TA). exact ElsA.
Qed.

Lemma tr_ctl_core s ev q d' outs r ws H cr rq :
  XW c s -> TSR s H cr rq -> y_result s = None -> y_evq s = ev :: q ->
  d_loop_once ev (y_d s) = (d', outs, r) -> d_sched (y_d s) = StW ws ->
  TSR (apply_outs (set_d (set_evq s q) d') outs) (H ++ evH ev) (cr ++ evcr ev ws) (rq ++ rq_ofw (y_d s) ws ev).
Proof.
  intros X T Eres Eevq El Els0. pose proof T as [K Rq Hw Tk Dn Dh Or].
  pose proof X as [Lo Hi (ws0 & P & DJd & NIs & Pout) Eq Eu Ea Er Edead].
  specialize (Ea Eres).
  pose proof DJd as ([Els J AL _ _ _] & _). assert (ws0 = ws) by congruence. subst ws0.
  pose proof (pre_from_invx c Hpos P s ws ev q X DJd NIs Eevq) as Hpre.
  destruct (loop_once_okx N X0 Hpos ev _ ws d' outs r DJd Hpre El) as (-> & ws' & vo & Eo & E & DJ2 & _ & _).
  destruct (loop_factsxR N X0 Hpos ev _ ws d' outs _ DJd Hpre El) as (ws'' & Els'' & ((TOK1 & TOK2) & GRD & STL) & RQ').
  pose proof DJ2 as ([Els2 J2 _ _ _ _] & _). assert (ws'' = ws') by congruence. subst ws''.
  pose proof (loop_once_step _ _ _ _ _ El) as (_ & _ & _ & SP).
  set (G := d_next_gw (y_d s)) in *.
  assert (SPW : (d_next_gw d' = G /\ forall id sp, ~ In (OHook (HSpawn id sp)) outs) \/
                (d_next_gw d' = S G /\ (exists sp, In (OHook (HSpawn G sp)) outs) /\
                 forall id sp, In (OHook (HSpawn id sp)) outs -> id = G)).
  { destruct SP as [(C0 & G0)|(C1 & G1 & _ & _ & sp & SPx)].
    - left. split; [exact G0|]. intros id sp Hin. pose proof (count_zero_notin _ _ _ C0 Hin) as F. discriminate.
    - right. split; [exact G1|]. split.
      + destruct (count_pos_in _ _ C1) as (x & Hx & Fx). exists sp. rewrite <- (SPx x Hx Fx). exact Hx.
      + intros id sp' Hin. specialize (SPx _ Hin eq_refl). inv SPx. reflexivity. }
  assert (SPID : forall id sp, In (OHook (HSpawn id sp)) outs -> id = G).
  { intros id sp Hin. destruct SPW as [(_ & F)|(_ & _ & B)]; [exfalso; exact (F _ _ Hin)|eapply B; eauto]. }
  assert (OUTG : forall m, G <= m -> cmds_to m outs = []).
  { intros m Hm. rewrite Eo, cmds_to_vfilter, (hx_out _ _ _ _ _ _ _ _ E m Hm). destruct (closedb (ws_nt ws) m); reflexivity. }
  set (sA := set_d (set_evq s q) d').
  set (s1 := apply_outs sA outs).
  destruct (apply_outs_frame outs sA) as (F1 & F2 & F3). cbn [sA set_d set_evq y_evq y_d y_dead] in F1, F2, F3.
  fold s1 in F1, F2, F3.
  assert (UP : forall k, alist_get [] k (y_up s1) = alist_get [] k (y_up s)).
  { intros k. unfold s1. rewrite apply_outs_up; [reflexivity|]. intros id sp Hin. rewrite (SPID _ _ Hin).
    cbn [sA set_d set_evq y_up]. apply (Hi G). unfold G. lia. }
  assert (DOWN : forall k, alist_get [] k (y_down s1) =
            if mem_nat k (y_dead s) then alist_get [] k (y_down s) else alist_get [] k (y_down s) ++ cmds_to k outs).
  { intros k. unfold s1. rewrite apply_outs_down; [reflexivity|]. intros id sp Hin. rewrite (SPID _ _ Hin).
    split; [apply OUTG; lia|]. cbn [sA set_d set_evq y_down]. apply (Hi G). unfold G. lia. }
  assert (YW : y_w s1 = if existsb is_spawn outs then aset G w_init (y_w s) else y_w s).
  { unfold s1. rewrite (apply_outs_yw_G G outs sA SPID). reflexivity. }
  assert (GN : aget G (y_w s) = None) by (apply (Hi G); unfold G; lia).
  assert (SIGS : forall k, xsigs s k = ev_xsigs_for k ev ++ xsigs s1 k).
  { intros k. rewrite (xsigs_headx s ev q k Eevq). unfold xsigs. rewrite F1, UP. reflexivity. }
  assert (NDW : forall k, k < G -> ndown ws' k = ndown ws k).
  { intros k Hk. pose proof (hx_nt _ _ _ _ _ _ _ _ E k Hk) as R0. unfold ndown.
    destruct (aget k (ws_nt ws)) as [f|], (aget k (ws_nt ws')) as [f'|]; cbn in R0; try contradiction; [|reflexivity].
    destruct (NRW_fields _ _ _ R0) as (_ & B & _). exact B. }
  assert (SDM : forall k, k < G -> sdsent_of ws k = true -> sdsent_of ws' k = true).
  { intros k Hk. pose proof (hx_nt _ _ _ _ _ _ _ _ E k Hk) as R0. unfold sdsent_of.
    destruct (aget k (ws_nt ws)) as [f|], (aget k (ws_nt ws')) as [f'|]; cbn in R0; try contradiction; [|discriminate].
    destruct (NRW_fields _ _ _ R0) as (_ & _ & _ & D & _). intros Hs. apply D. left. exact Hs. }
  assert (HSIGS : forall k, k < G -> hsigs ws s k = ev_xsigs_for k ev ++ hsigs ws' s1 k).
  { intros k Hk. rewrite (hsigs_head ws s ev q k Eevq). unfold hsigs. rewrite F1, UP, (NDW k Hk). reflexivity. }
  assert (EVOK : ok_evw X0 G ev).
  { pose proof Eq as Eq'. rewrite Forall_forall in Eq'. apply Eq'. rewrite Eevq. left. reflexivity. }
  assert (WLT : forall k w, aget k (y_w s) = Some w -> k < G).
  { intros k w Hk. destruct (Nat.lt_ge_cases k G) as [Hlt|Hge]; [exact Hlt|]. destruct (Hi k Hge) as (F & _). congruence. }
  assert (HSX : forall k w, aget k (y_w s) = Some w -> xcompletes (hsx s k) = xcompletes (ev_xsigs_for k ev) ++ xcompletes (hsx s1 k)).
  { intros k w Hk. unfold hsx. rewrite F3. destruct (mem_nat k (y_dead s)).
    - rewrite (SIGS k), xcompletes_app. reflexivity.
    - unfold hsigs_of. rewrite F2, Els, Els2, (HSIGS k (WLT k w Hk)), xcompletes_app. reflexivity. }
  assert (SG1 : xsigs s1 G = []).
  { assert (Z : xsigs s G = []).
    { unfold xsigs. destruct (Hi G (le_n _)) as (_ & UG & _). rewrite UG. cbn. rewrite app_nil_r. apply (evq_xsigs_fresh c Hpos). exact Eq. }
    pose proof (SIGS G) as Z2. rewrite Z in Z2. symmetry in Z2. apply app_eq_nil in Z2. tauto. }
  assert (DEADG : mem_nat G (y_dead s) = false).
  { apply mem_nat_false. intros Hin. specialize (Edead _ Hin). fold G in Edead. lia. }
  (* who is gone *)
  assert (GONE : forall k w, In (k, w) (y_w s) -> (forall n, ev = QErrorDown n -> k <> n) -> gone s1 k = gone s k).
  { intros k w Hin Hne. unfold gone. rewrite F3, F2. destruct (mem_nat k (y_dead s)) eqn:Hd; [|reflexivity]. cbn [andb]. f_equal.
    pose proof (aget_in_amap k w (y_w s) K Hin) as Ew.
    destruct (NIs k w Ew) as (_ & _ & _ & DD0). rewrite Hd in DD0. destruct DD0 as [D1 _ _ _].
    destruct (mem_nat k (d_active (y_d s))) eqn:Ha.
    - apply mem_nat_In in Ha. destruct (hx_act _ _ _ _ _ _ _ _ E k Ha) as [Y|[(b & Y)|Y]].
      + apply mem_nat_In. exact Y.
      + exfalso. apply (NDX_nofin _ _ _ _ b D1). rewrite (SIGS k). apply in_or_app. left.
        unfold ev_xsigs_for. rewrite Y, Nat.eqb_refl. left. reflexivity.
      + exfalso. exact (Hne k Y eq_refl).
    - apply mem_nat_false in Ha. apply mem_nat_false. intros Y.
      destruct (hx_actb _ _ _ _ _ _ _ _ E k Y) as [Z|(Z & _)]; [contradiction|].
      fold G in Z. subst k. congruence. }
  assert (DH1 : sub (fmkv (fun k w => if gone s1 k then running w else []) (y_w s)) (cr ++ evcr ev ws)).
  { destruct (classic_errd ev) as [(n & ->)|Hne].
    - assert (HnG : n < G) by (destruct EVOK as (_ & Hn); exact Hn).
      destruct (aget n (y_w s)) as [wn|] eqn:Ewn; [|exfalso; exact (Lo n HnG Ewn)].
      destruct (errd_node_quiet P s ws n q wn (NIs n wn Ewn) Eevq) as (Hdn & Han & XS0).
      destruct (hx_err _ _ _ _ _ _ _ _ E n eq_refl) as (_ & Hna').
      assert (G1 : gone s1 n = true).
      { unfold gone. rewrite F3, F2, Hdn. apply mem_nat_false in Hna'. rewrite Hna'. reflexivity. }
      assert (G0 : gone s n = false).
      { unfold gone. rewrite Hdn. apply mem_nat_In in Han. rewrite Han. reflexivity. }
      assert (RUN : sub (running wn) (firstn 1 (bkw ws n))).
      { destruct (running wn) as [|c0 rr] eqn:Erun; [exists (firstn 1 (bkw ws n)); reflexivity|].
        pose proof (Or ws n wn Els Ewn) as O. unfold ORDN in O. rewrite Hdn in O.
        destruct (O Han) as (Z & EZ & _); [rewrite Erun; discriminate|].
        rewrite XS0 in EZ. cbn [xcompletes flat_map app] in EZ. rewrite EZ, <- Erun. apply firstn1_prefix. apply running_len. }
      destruct (aset_split n wn wn (y_w s) Ewn) as (pre & post & Em & _).
      assert (NDm : NoDup (akeys (y_w s))) by exact K.
      unfold DHx in Dh. rewrite Em in Dh |- *. unfold fmkv in Dh |- *. rewrite !flat_map_app in Dh |- *.
      cbn [flat_map fst snd] in Dh |- *. rewrite G1. rewrite G0 in Dh. cbn [app] in Dh.
      assert (EXT : forall part, (forall x, In x part -> In x (y_w s) /\ fst x <> n) ->
                flat_map (fun p => if gone s1 (fst p) then running (snd p) else []) part =
                flat_map (fun p => if gone s (fst p) then running (snd p) else []) part).
      { intros part Hp. apply fm_ext_in. intros [k w] Hin. destruct (Hp _ Hin) as (A1 & A2). cbn [fst snd] in *.
        rewrite (GONE k w A1); [reflexivity|]. intros n0 E0. injection E0 as <-. exact A2. }
      assert (PRE : forall x, In x pre -> In x (y_w s) /\ fst x <> n).
      { intros x Hx. split; [rewrite Em; apply in_or_app; left; exact Hx|].
        intros F. rewrite Em in NDm. unfold akeys in NDm. rewrite map_app in NDm. cbn [map fst] in NDm.
        apply NoDup_remove_2 in NDm. apply NDm. apply in_or_app. left. rewrite <- F. apply in_map. exact Hx. }
      assert (POST : forall x, In x post -> In x (y_w s) /\ fst x <> n).
      { intros x Hx. split; [rewrite Em; apply in_or_app; right; right; exact Hx|].
        intros F. rewrite Em in NDm. unfold akeys in NDm. rewrite map_app in NDm. cbn [map fst] in NDm.
        apply NoDup_remove_2 in NDm. apply NDm. apply in_or_app. right. rewrite <- F. apply in_map. exact Hx. }
      rewrite (EXT pre PRE), (EXT post POST). cbn [evcr].
      destruct Dh as (x & Px). destruct RUN as (y & Py).
      exists (x ++ y). rewrite <- Px, <- Py. permc.
    - rewrite (fmkv_ext _ (fun k w => if gone s k then running w else [])).
      + fold (DHx s). eapply sub_trans; [exact Dh|]. apply sub_app_l.
      + intros k w Hin. rewrite (GONE k w Hin); [reflexivity|]. intros n E0. exfalso. exact (Hne n E0). }
  (* the order of the books, node by node *)
  assert (ORD1 : forall k w, aget k (y_w s) = Some w -> ORDN s1 ws' k w).
  { intros k w Hk. pose proof (WLT k w Hk) as Hlt. pose proof (NIs k w Hk) as NI.
    pose proof (Or ws k w Els Hk) as O. unfold ORDN in *. rewrite F3, F2.
    pose proof (hx_bk _ _ _ _ _ _ _ _ E k) as HBK.
    assert (NDb : NoDup (bkw ws k)) by (apply bkw_nodup; apply (xj_nd _ _ _ _ J)).
    destruct (mem_nat k (y_dead s)) eqn:Hdd.
    - (* dead, errordown still to come *)
      intros Hact' Hrun.
      assert (Hact : In k (d_active (y_d s))).
      { destruct (hx_actb _ _ _ _ _ _ _ _ E k Hact') as [Y|(Y & _)]; [exact Y|]. fold G in Y. lia. }
      assert (HNE : forall j, ev = QErrorDown j -> j <> k).
      { intros j -> ->. destruct (hx_err _ _ _ _ _ _ _ _ E k eq_refl) as (_ & F). contradiction. }
      destruct (O Hact Hrun) as (Z & EZ & SZ).
      destruct NI as (_ & _ & _ & DD). rewrite Hdd in DD. destruct DD as [_ D2 _ _].
      rewrite (bookmidx_eq ev k _ HNE) in HBK.
      rewrite (SIGS k) in EZ, SZ. rewrite HBK.
      set (Xk := flat_map cmd_inds (cmds_to k vo)).
      destruct (ev_cases k ev) as [(i & ms & ->)|[(ixs & ->)|(BM & XC & XB & _ & _)]].
      + assert (EL : ev_xsigs_for k (QComplete k i ms) = [XComp i]) by (unfold ev_xsigs_for; cbn [ev_xsig]; rewrite Nat.eqb_refl; reflexivity).
        rewrite EL in EZ, SZ. cbn [app xcompletes xbacks flat_map] in EZ, SZ. fold (xcompletes (xsigs s1 k)) in EZ. fold (xbacks (xsigs s1 k)) in SZ.
        exists (Z ++ Xk). split.
        * cbn [bookmidw]. rewrite Nat.eqb_refl, EZ. cbn [remove_first]. rewrite Nat.eqb_refl, <- !app_assoc. reflexivity.
        * eapply sub_trans; [exact SZ|apply sub_app_l].
      + assert (EL : ev_xsigs_for k (QUnscheduled k ixs) = [XUns ixs]) by (unfold ev_xsigs_for; cbn [ev_xsig]; rewrite Nat.eqb_refl; reflexivity).
        rewrite EL in EZ, SZ. cbn [app xcompletes xbacks flat_map] in EZ, SZ. fold (xcompletes (xsigs s1 k)) in EZ. fold (xbacks (xsigs s1 k)) in SZ.
        destruct SZ as (y & Py).
        assert (NDZ : NoDup ((xcompletes (xsigs s1 k) ++ running w) ++ Z)) by (rewrite <- app_assoc, <- EZ; exact NDb).
        assert (DISJ : forall j, In j (xcompletes (xsigs s1 k) ++ running w) -> ~ In j ixs).
        { intros j Hj Hx. apply (WorkerProofs.nodup_app_disj _ _ j NDZ Hj).
          eapply Permutation_in; [exact Py|]. apply in_or_app. left. apply in_or_app. left. exact Hx. }
        assert (PZ : Permutation Z (ixs ++ (xbacks (xsigs s1 k) ++ y))) by (rewrite <- Py; permc).
        assert (NDZ2 : NoDup Z) by (apply WorkerProofs.nodup_app_r in NDZ; exact NDZ).
        destruct (nodup_perm_disj ixs _ Z NDZ2 PZ) as (Hdisj & _ & _).
        pose proof (filter_withdraw ixs _ Z PZ Hdisj) as Pfil.
        exists (filter (notin ixs) Z ++ Xk). split.
        * cbn [bookmidw]. rewrite Nat.eqb_refl, EZ. change (fun i : nat => negb (mem_nat i ixs)) with (notin ixs).
          rewrite app_assoc, filter_app, (filter_notin_id ixs _ DISJ), <- !app_assoc. reflexivity.
        * eapply sub_trans; [|apply sub_app_l]. exists y. unfold notin. rewrite Pfil. reflexivity.
      + rewrite (BM (bkw ws k)). rewrite xcompletes_app, XC in EZ. rewrite xbacks_app, XB in SZ. cbn [app] in EZ, SZ.
        exists (Z ++ Xk). split; [rewrite EZ, <- !app_assoc; reflexivity|eapply sub_trans; [exact SZ|apply sub_app_l]].
    - (* alive *)
      intros Hr. destruct (O Hr) as (S1 & K1 & FL1).
      destruct (regime_alx _ _ _ _ _ NI Hdd Hr) as (Iw & _ & AX). pose proof (ax_ni _ _ _ _ AX) as D1.
      assert (Hq : no_errd k (y_evq s)) by (destruct AX as [_ _ _ D4 _ _]; exact D4).
      rewrite Eevq in Hq. destruct (no_errd_cons_inv _ _ _ Hq) as (Hev & _).
      assert (HNE : forall j, ev = QErrorDown j -> j <> k) by (apply is_errd_false; exact Hev).
      assert (CM : cmds_to k outs = cmds_to k vo) by (rewrite Eo, cmds_to_vfilter, (ax_open _ _ _ _ AX); reflexivity).
      rewrite (bookmidx_eq ev k _ HNE) in HBK.
      rewrite (SIGS k) in D1.
      assert (HST : cnt (ws_steal ws) k + nstc (cmds_to k vo) = cnt (ws_steal ws') k + unsev ev k).
      { apply (hx_steal _ _ _ _ _ _ _ _ E k). intros F. exact (HNE k F eq_refl). }
      assert (GRDk : bkw ws' k <> bookmidw ev k (bkw ws k) -> length (bookmidw ev k (bkw ws k)) < 2 /\ sdsent_of ws k = false).
      { intros Hne. rewrite <- (bookmidx_eq ev k _ HNE) in Hne |- *. destruct (GRD k Hne) as (A & f & Ef & Hf).
        split; [exact A|]. unfold sdsent_of. rewrite Ef. exact Hf. }
      assert (STLk : forall T0, In (CSteal T0) (cmds_to k vo) -> exists keep, bkw ws' k = keep ++ T0 /\ 2 <= length keep /\ T0 <> []).
      { intros T0 Hin. rewrite <- CM in Hin. apply (STL k T0). unfold cmds_to in Hin. apply in_flat_map in Hin.
        destruct Hin as (x & Hx & Hc). destruct x as [h|m0 c0| |]; cbn in Hc; try contradiction.
        destruct (Nat.eqb m0 k) eqn:Em; [|contradiction]. apply Nat.eqb_eq in Em. subst m0. destruct Hc as [->|[]]. exact Hx. }
      assert (DONEk : Permutation (done_w w) (hn k H ++ xcompletes (ev_xsigs_for k ev ++ xsigs s1 k))).
      { rewrite (Dn k w Hk). apply Permutation_app_head. unfold hsx. rewrite Hdd. unfold hsigs_of. rewrite Els.
        rewrite (ALX_hsigs _ _ _ _ AX), (SIGS k). reflexivity. }
      unfold SUFx, Kx, FLx, backs in *. rewrite (SIGS k) in S1, K1. rewrite DOWN, Hdd, CM.
      exact (ctl_node_ord ws ws' _ k ev (xsigs s1 k) _ (cmds_to k vo) w (hn k H) Iw D1 HBK HST GRDk STLk (SDM k Hlt) DONEk S1 K1 FL1). }
  constructor.
  - rewrite YW. destruct (existsb is_spawn outs); [apply akeys_aset_nodup|]; exact K.
  - rewrite F2, app_length. lia.
  - intros p Hp. apply in_app_or in Hp.
    assert (OLD : aget (fst p) (y_w s) <> None -> aget (fst p) (y_w s1) <> None).
    { intros Hn. rewrite YW. destruct (existsb is_spawn outs); [apply aget_aset_some|]; exact Hn. }
    apply OLD. destruct Hp as [Hp|Hp]; [exact (Hw p Hp)|].
    destruct ev; cbn [evH] in Hp; try contradiction. destruct Hp as [<-|[]]. cbn [fst].
    apply Lo. destruct EVOK as (_ & Hn). exact Hn.
  - rewrite F2. intros ws1 E1. assert (ws1 = ws') by congruence. subst ws1.
    pose proof (Tk ws Els) as Tks. destruct (ws_coll ws) as [coll|] eqn:Ec.
    + destruct (TOK1 coll eq_refl) as (Ec' & Pt). rewrite Ec'.
      transitivity ((wtokens ws' ++ evtokx ev ws) ++ map snd H ++ cr); [rewrite map_app, evtokx_split; permc|]. rewrite Pt.
      transitivity (rq_ofw (y_d s) ws ev ++ (wtokens ws ++ map snd H ++ cr)); [permc|]. rewrite Tks. permc.
    + destruct Tks as (-> & -> & ->).
      assert (B0 : forall m, bkw ws m = []) by (intros m; apply (ljx_nocoll_bkw N X0 _ ws m J Ec)).
      assert (EH0 : evH ev = []).
      { destruct ev; try reflexivity. cbn [PREX] in Hpre. rewrite B0 in Hpre. destruct Hpre. }
      assert (ET0 : evcr ev ws = []).
      { destruct ev; try reflexivity; cbn [evcr]. rewrite B0. reflexivity. }
      destruct (TOK2 eq_refl) as (RQ0 & TOK2'). rewrite EH0, ET0, RQ0. cbn [app].
      destruct TOK2' as [Ec'|(c1 & Ec' & Pt)]; rewrite Ec'; [auto|]. cbn [map app]. rewrite !app_nil_r. exact Pt.
  - intros k w Hk. rewrite YW in Hk. rewrite hn_app, hn_evH.
    assert (OLDK : aget k (y_w s) = Some w ->
              Permutation (done_w w) ((hn k H ++ xcompletes (ev_xsigs_for k ev)) ++ xcompletes (hsx s1 k))).
    { intros Hk0. rewrite (Dn k w Hk0), (HSX k w Hk0), app_assoc. reflexivity. }
    destruct (existsb is_spawn outs); [|exact (OLDK Hk)].
    rewrite LoadProofs.aget_aset in Hk. destruct (Nat.eqb k G) eqn:EkG; [|exact (OLDK Hk)].
    apply Nat.eqb_eq in EkG. subst k. injection Hk as <-.
    assert (HG : hn G H = []).
    { apply hn_none. intros p Hp Ep. apply (Hw p Hp). rewrite Ep. exact GN. }
    assert (EG : ev_xsigs_for G ev = []).
    { unfold ev_xsigs_for. destruct (ev_xsig ev) as [[m g]|] eqn:Eg; [|reflexivity].
      destruct (Nat.eqb m G) eqn:Em; [|reflexivity]. apply Nat.eqb_eq in Em. subst m. exfalso.
      destruct EVOK as (_ & Hn). destruct ev; cbn in Eg; try discriminate Eg; injection Eg as E1 _; cbn in Hn; lia. }
    rewrite HG, EG. cbn [app xcompletes flat_map]. unfold hsx. rewrite F3, DEADG. unfold hsigs_of. rewrite F2, Els2.
    unfold hsigs. rewrite F1, UP.
    assert (Z1 : evq_xsigs G q = []).
    { apply (evq_xsigs_fresh c Hpos). rewrite Eevq in Eq. inversion Eq; assumption. }
    destruct (Hi G (le_n _)) as (_ & UG & _). rewrite Z1, UG. unfold hup. destruct (ndown ws' G); reflexivity.
  - unfold DHx. rewrite YW. destruct (existsb is_spawn outs); [|exact DH1].
    rewrite (fmkv_new _ G w_init _ GN).
    assert (GG : gone s1 G = false) by (unfold gone; rewrite F3, DEADG; reflexivity).
    rewrite GG, app_nil_r. exact DH1.
  - rewrite F2. intros ws1 k w E1 Hk. assert (ws1 = ws') by congruence. subst ws1. rewrite YW in Hk.
    destruct (existsb is_spawn outs) eqn:Esp; [|exact (ORD1 k w Hk)].
    rewrite LoadProofs.aget_aset in Hk. destruct (Nat.eqb k G) eqn:EkG; [|exact (ORD1 k w Hk)].
    apply Nat.eqb_eq in EkG. subst k. injection Hk as <-.
    (* the replacement worker that has just been started *)
    unfold ORDN. rewrite F3, DEADG. intros _.
    assert (BKG : bkw ws' G = []).
    { destruct (hx_gw _ _ _ _ _ _ _ _ E) as [Y|(_ & _ & _ & Hnn & _)].
      - exfalso. destruct SPW as [(_ & Fno)|(A & _ & _)]; [|fold G in Y; lia].
        apply existsb_exists in Esp. destruct Esp as (x & Hx & Fx). destruct x as [h| | |]; try discriminate. destruct h; try discriminate.
        exact (Fno _ _ Hx).
      - apply bkw_none. apply LoadProofs.aget_none_keys. exact Hnn. }
    assert (BG : backs s1 G w_init = []) by (unfold backs; rewrite SG1; reflexivity).
    split; [|split].
    + exists [], []. rewrite BKG, BG. split; [reflexivity|constructor].
    + intros F. rewrite BG in F. exfalso. apply F. reflexivity.
    + intros pre T0 post E0. exfalso. rewrite DOWN, DEADG in E0. destruct (Hi G (le_n _)) as (_ & _ & DG).
      rewrite DG, (OUTG G (le_n _)) in E0. cbn in E0. destruct pre; discriminate E0.
Qed.

(* ---- states that differ at most in the result and in controller fields nothing above looks at ---- *)
Lemma TSR_VE s0 s ws H cr rq : VE s0 s -> d_sched (y_d s0) = StW ws -> TSR s0 H cr rq -> TSR s H cr rq.
Proof.
  intros (A1 & A2 & A3 & A4 & A5 & A6 & A7 & A8) Els T.
  apply (TSR_flagchange s0 s ws ws H cr rq T); auto. rewrite A6. exact Els.
Qed.

Lemma step_tr_ctl s s' o w H cr rq :
  XW c s -> TSR s H cr rq -> sys_step c s LCtl = Some (s', o, w) ->
  exists H', TSR s' H' (cr ++ crash_idxw s LCtl) (rq ++ rq_idxw s).
Proof.
  intros X T HS. pose proof X as [Lo Hi (ws & P & DJd & NIs & Pout) Eq Eu Ea Er Edead].
  pose proof DJd as ([Els _ _ _ _ _] & _).
  unfold sys_step in HS. destruct (y_result s) eqn:Eres; [discriminate|].
  specialize (Ea eq_refl).
  destruct (d_active (y_d s)) as [|a0 ar] eqn:Eact; [contradiction|].
  destruct (y_evq s) as [|ev q] eqn:Eevq; [discriminate|].
  destruct (d_loop_once ev (y_d s)) as [[d' outs] r] eqn:El.
  pose proof (tr_ctl_core s ev q d' outs r ws H cr rq X T Eres Eevq El Els) as CORE.
  rewrite (rq_ofw_idx s ws ev q Eevq Els) in CORE.
  destruct (step_ctl_corex c Hpos s ev q d' outs r X Eres Eevq El) as (-> & Hfin & XC).
  set (s1 := apply_outs (set_d (set_evq s q) d') outs) in *.
  exists (H ++ evH ev). unfold crash_idxw. rewrite Eevq, Els.
  assert (XR : XW c (set_result s1 (Some RFinished))) by (apply XC; [intros e; discriminate|discriminate]).
  destruct (xw_sched _ XR) as (ws1 & Els1). cbn [set_result y_d] in Els1.
  assert (RES : forall rr, TSR (set_result s1 rr) (H ++ evH ev) (cr ++ evcr ev ws) (rq ++ rq_idxw s)).
  { intros rr. apply (TSR_VE s1 _ ws1); [unfold VE; cbn [set_result y_w y_dead y_evq y_up y_down y_d]; auto 10|exact Els1|exact CORE]. }
  destruct (d_session_finished d') eqn:Efin.
  - injection HS as <- _ _. apply RES.
  - destruct (d_active d') as [|b0 br] eqn:Eact'.
    + assert (Hsd : d_shuttingdown d' = false).
      { unfold d_session_finished in Efin. rewrite Eact', andb_true_r in Efin. exact Efin. }
      destruct (w_dj _ _ XR) as (ws2 & P2 & DJ2 & _).
      destruct (apply_outs_frame outs (set_d (set_evq s q) d')) as (F1 & F2 & F3). cbn [set_d set_evq y_evq y_d y_dead] in F1, F2, F3.
      cbn [set_result y_d] in DJ2. fold s1 in F2. rewrite F2 in DJ2.
      destruct DJ2 as ([Els2 _ _ _ Jb2 _] & _ & Jss2).
      assert (Hss : d_shouldstop d' = false).
      { apply not_true_false. intros F. rewrite (Jss2 F) in Hsd. discriminate. }
      assert (Hnn : s_nodes (d_sched d') = []).
      { rewrite Els2. cbn [s_nodes]. specialize (Jb2 Hss). rewrite Eact' in Jb2.
        destruct (ws_nodes ws2) as [|k rr]; [reflexivity|]. exfalso. apply (Jb2 k). left. reflexivity. }
      rewrite (trigger_no_nodes d' Hsd Hnn) in HS. cbn [apply_outs] in HS. injection HS as <- _ _.
      apply (TSR_VE s1 _ ws1); [|exact Els1|exact CORE].
      unfold VE. cbn [set_result set_d y_w y_dead y_evq y_up y_down y_d d_set_shuttingdown d_sched d_active d_requeue].
      rewrite F2. repeat split; reflexivity.
    + injection HS as <- _ _. exact CORE.
Qed.

Lemma step_tr s l s' o w H cr rq :
  XW c s -> TSR s H cr rq -> sys_step c s l = Some (s', o, w) ->
  exists H', TSR s' H' (cr ++ crash_idxw s l) (rq ++ match l with LCtl => rq_idxw s | _ => [] end).
Proof.
  intros X T HS. destruct l as [n0|n0|n0|n0| |n0]; [| | | |eapply step_tr_ctl; eauto|];
    exists H; cbn [crash_idxw]; rewrite !app_nil_r; unfold sys_step in HS; (destruct (y_result s) eqn:Eres; [discriminate|]).
  - (* LDeliver *)
    destruct (mem_nat n0 (y_dead s)) eqn:Hd; [discriminate|].
    destruct (aget n0 (y_down s)) as [[|cmd rest]|] eqn:Ed; try discriminate.
    destruct (aget n0 (y_w s)) as [w0|] eqn:Ew; try discriminate. inv HS.
    eapply tr_deliver; eauto.
  - (* LRecvW *)
    destruct (mem_nat n0 (y_dead s)) eqn:Hd; [discriminate|].
    destruct (aget n0 (y_w s)) as [w0|] eqn:Ew; try discriminate.
    destruct (negb (wcb w0)) eqn:Ecb; [discriminate|]. apply negb_false_iff in Ecb.
    destruct (recv_step (c_oracle c n0) w0) as [w' evs] eqn:Es. inv HS.
    eapply tr_recvw; eauto.
  - (* LMain *)
    destruct (mem_nat n0 (y_dead s)) eqn:Hd; [discriminate|].
    destruct (aget n0 (y_w s)) as [w0|] eqn:Ew; try discriminate.
    destruct (dies_now c n0 w0) eqn:Edie.
    + inv HS. apply (tr_crash s n0 w0 H cr rq X T Hd Ew). unfold dies_now in Edie. destruct (wph w0); discriminate.
    + destruct (main_step (c_oracle c n0) w0) as [[w' evs]|] eqn:Es; [|discriminate]. inv HS.
      eapply tr_main; eauto.
  - (* LRecv *)
    destruct (aget n0 (y_up s)) as [[|m rest]|] eqn:Eup; try discriminate.
    cbn [y_d] in HS.
    destruct (process_from_remote n0 m (y_d s)) as [[d' outs] r] eqn:Ep.
    destruct (tr_recv s n0 m rest d' outs r None H cr rq X T Eup Ep) as (-> & evs & -> & TR).
    cbn [apply_outs] in HS. inv HS. exact TR.
  - (* LCrash *)
    destruct (mem_nat n0 (y_dead s)) eqn:Hd; [discriminate|].
    destruct (aget n0 (y_w s)) as [w0|] eqn:Ew; try discriminate.
    destruct (wph w0) eqn:Eph; try discriminate; inv HS; apply (tr_crash s n0 w0 H cr rq X T Hd Ew); rewrite Eph; discriminate.
Qed.

(* ---- whole runs ---- *)
(* the indices put back into the pool by the plugin along a run, in order *)
Fixpoint requeuedw (s : sys) (ls : list label) : list nat :=
  match ls with
  | [] => []
  | l :: r =>
      match sys_step c s l with
      | Some (s', _, _) => (match l with LCtl => rq_idxw s | _ => [] end) ++ requeuedw s' r
      | None => requeuedw s r
      end
  end.

Lemma tr_run ls : forall s cr rq H,
  XW c s \/ ErrStW c s -> TSR s H cr rq ->
  (XW c (run_fromw c s ls) \/ ErrStW c (run_fromw c s ls)) /\
  exists H', TSR (run_fromw c s ls) H' (cr ++ crashedw c s ls) (rq ++ requeuedw s ls).
Proof.
  induction ls as [|l ls IH]; intros s cr rq H G T.
  - cbn. split; [exact G|]. exists H. rewrite !app_nil_r. exact T.
  - cbn [run_fromw fold_left crashedw requeuedw]. fold (run_fromw c). destruct (sys_step c s l) as [[[s' o] w]|] eqn:E.
    + destruct G as [X|(R0 & _)]; [|unfold sys_step in E; rewrite R0 in E; discriminate].
      destruct (step_tr s l s' o w H cr rq X T E) as (H1 & T1).
      pose proof (step_xw c Hng Hpos s l s' o w X E) as G1.
      destruct (IH s' _ _ H1 G1 T1) as (G2 & H2 & T2). split; [exact G2|]. exists H2. rewrite !app_assoc. exact T2.
    + apply (IH s cr rq H); assumption.
Qed.

Lemma requeuedw_app ls1 : forall s ls2, requeuedw s (ls1 ++ ls2) = requeuedw s ls1 ++ requeuedw (run_fromw c s ls1) ls2.
Proof.
  induction ls1 as [|l ls1 IH]; intros s ls2; [reflexivity|]. cbn [app requeuedw run_fromw fold_left]. fold (run_fromw c).
  destruct (sys_step c s l) as [[[s' o] w]|]; [rewrite IH, app_assoc; reflexivity|apply IH].
Qed.

(* ====================================================================================== *)
(* Part D: consequences of the accounts, for one reachable state                            *)
(* ====================================================================================== *)

(* one worker: what it has started is handled, or in its book, or its crash item; the completions
   still heard are in its book *)
Lemma node_accountr P s ws n w H cr rq :
  TSR s H cr rq -> d_sched (y_d s) = StW ws -> aget n (y_w s) = Some w -> NodeInvW OR P s ws n w ->
  sub (done_w w ++ running w) (hn n H ++ bkw ws n ++ (if gone s n then running w else [])) /\
  sub (xcompletes (hsx s n)) (bkw ws n).
Proof.
  intros [K Rq Hw Tk Dn Dh Or] Els Ew NI. pose proof (Dn n w Ew) as PD. pose proof (Or ws n w Els Ew) as O.
  destruct NI as (Iw & _ & _ & D). unfold hsx in *. unfold ORDN in O. unfold gone.
  assert (Hc : {mem_nat n (y_dead s) = true} + {mem_nat n (y_dead s) = false}) by (destruct (mem_nat n (y_dead s)); auto).
  destruct Hc as [Hd|Hd]; rewrite Hd in *.
  - destruct D as [_ D2 _ _].
    assert (ACT : forall st, In n (d_active (y_d s)) -> NDXcpl st ws n (xsigs s n) w ->
      sub (done_w w ++ running w) (hn n H ++ bkw ws n ++ (if true && negb (mem_nat n (d_active (y_d s))) then running w else [])) /\
      sub (xcompletes (xsigs s n)) (bkw ws n)).
    { intros st Hact (Sb & _ & _). pose proof Hact as Hact'. apply mem_nat_In in Hact'. rewrite Hact'. cbn [negb andb]. rewrite app_nil_r.
      assert (S2 : sub (xcompletes (xsigs s n)) (bkw ws n)) by (eapply sub_trans; [apply sub_app_l|exact Sb]).
      split; [|exact S2].
      apply (sub_perm_l _ ((hn n H ++ xcompletes (xsigs s n)) ++ running w)); [apply Permutation_app_tail; exact PD|].
      rewrite <- app_assoc. apply sub_app; [apply sub_refl|].
      destruct (running w) as [|c0 rr] eqn:Erun; [rewrite app_nil_r; exact S2|].
      assert (Hrn : c0 :: rr <> []) by discriminate. unfold PREFx in O. rewrite Erun in O.
      destruct (O Hact Hrn) as (Z & EZ & _). rewrite EZ, app_assoc. apply sub_app_l. }
    destruct D2 as [pre f X1 X2 X3 X4 X5 X6 X7|q1 q2 X1 X2 X3 X4 X5 X6 X7|X1 X2 X3 X4 X5].
    + exact (ACT _ X6 X7).
    + exact (ACT _ X6 X7).
    + apply mem_nat_false in X4. rewrite X4. cbn [negb andb]. rewrite (xsigs_nil_done s n X1 X3) in *.
      cbn [xcompletes flat_map] in *. rewrite app_nil_r in PD. split; [|exists (bkw ws n); reflexivity].
      apply (sub_perm_l _ (hn n H ++ running w)); [apply Permutation_app_tail; exact PD|].
      apply sub_app; [apply sub_refl|apply sub_app_r].
  - cbn [andb]. rewrite app_nil_r. unfold hsigs_of in *. rewrite Els in *. destruct (P n).
    + destruct D as [D1 _ _ _ _ _ _]. pose proof (sw_sub _ _ _ _ _ _ _ D1) as Sb.
      assert (S2 : sub (xcompletes (hsigs ws s n)) (bkw ws n)) by (eapply sub_trans; [apply sub_app_l|exact Sb]).
      assert (Er : running w = []).
      { unfold running. destruct (sw_ph _ _ _ _ _ _ _ D1) as [E0|E0]; rewrite E0; reflexivity. }
      split; [|exact S2]. rewrite Er, app_nil_r. apply (sub_perm_l _ _ _ PD). apply sub_app; [apply sub_refl|exact S2].
    + pose proof (ALX_hsigs _ _ _ _ D) as EH. rewrite EH in *. destruct D as [D1 _ _ _ _ _].
      pose proof (nw_coupled _ _ _ _ _ _ D1) as Cp. destruct (running_owed w) as (y & Ey).
      split.
      * apply (sub_perm_l _ ((hn n H ++ xcompletes (xsigs s n)) ++ running w)); [apply Permutation_app_tail; exact PD|].
        rewrite <- app_assoc. apply sub_app; [apply sub_refl|]. apply (sub_perm_r _ _ _ Cp).
        rewrite Ey, <- !app_assoc, app_assoc. apply sub_app_l.
      * apply (sub_perm_r _ _ _ Cp). apply sub_app_l.
Qed.

(* the books, node by node, summed over all worker ids *)
Lemma books_by_keysr s ws :
  XW c s -> NoDup (akeys (y_w s)) -> d_sched (y_d s) = StW ws ->
  Permutation (flat_map (bkw ws) (akeys (y_w s))) (wbooks ws).
Proof.
  intros X K Els. pose proof X as [Lo _ _ _ _ _ _ _]. destruct (xw_ws s ws X Els) as (P & ([_ J _ _ _ _] & _) & _).
  assert (E1 : wbooks ws = flat_map (bkw ws) (ws_nodes ws)).
  { unfold StealProofs.books, ws_nodes.
    pose proof (flat_map_keys_vals (fun v : list nat => v) (ws_n2p ws) (xj_wf _ _ _ _ J)) as FK. cbn beta in FK.
    transitivity (flat_map (fun p : nat * list nat => snd p) (ws_n2p ws)); [reflexivity|]. rewrite <- FK.
    apply flat_map_ext_in. intros k _. unfold bkw, alist_get. destruct (aget k (ws_n2p ws)); reflexivity. }
  rewrite E1. apply fm_superset_r; [exact (xj_wf _ _ _ _ J)|exact K| |].
  - intros k Hk. apply LoadProofs.aget_In_keys. apply Lo. exact (xj_nodes _ _ _ _ J k Hk).
  - intros k _ Hk. apply bkw_none. apply LoadProofs.aget_none_keys. exact Hk.
Qed.

(* what was started is accounted for: handled, or in a book, or reported as crashed *)
Lemma started_sub_wr s ws H cr rq :
  XW c s -> TSR s H cr rq -> d_sched (y_d s) = StW ws -> sub (started s) (map snd H ++ wbooks ws ++ cr).
Proof.
  intros X T Els. pose proof T as [K Rq Hw Tk Dn Dh Or]. destruct (xw_ws s ws X Els) as (P & _ & NIs).
  assert (S1 : sub (started s) (fmkv (fun k w => hn k H ++ bkw ws k ++ (if gone s k then running w else [])) (y_w s))).
  { unfold started. apply (sub_fmkv (fun _ w => map (fun r => snd (fst r)) (wran w))). intros k w Hin.
    pose proof (worker_in s k w K Hin) as Ew. pose proof (NIs k w Ew) as NI. pose proof NI as (Iw & _).
    rewrite (wran_done_running w Iw). exact (proj1 (node_accountr P s ws k w H cr rq T Els Ew NI)). }
  eapply sub_trans; [exact S1|].
  eapply sub_perm_l; [apply fmkv_app_perm_r|]. apply sub_app.
  - rewrite (fmkv_keyfun (fun k => hn k H)). apply hn_sum. exact K.
  - eapply sub_perm_l; [apply fmkv_app_perm_r|]. apply sub_app.
    + rewrite (fmkv_keyfun (bkw ws)). apply sub_perm. apply books_by_keysr; assumption.
    + exact Dh.
Qed.

(* what was started sits inside collection ++ re-queued *)
Lemma started_bound_wr s H cr rq :
  XW c s -> TSR s H cr rq ->
  sub (started s) (match the_collw s with Some coll => seq 0 (length coll) | None => [] end ++ rq).
Proof.
  intros X T. destruct (xw_sched s X) as (ws & Els). pose proof (started_sub_wr s ws H cr rq X T Els) as S1.
  pose proof (tr_tok _ _ _ _ T ws Els) as Tk. unfold the_collw. rewrite Els. destruct (ws_coll ws) as [coll|] eqn:Ec.
  - eapply sub_trans; [exact S1|].
    exists (ws_pending ws). rewrite <- Tk. unfold StealProofs.tokens. permc.
  - destruct Tk as (-> & -> & ->). destruct (xw_ws s ws X Els) as (P & ([_ J _ _ _ _] & _) & _).
    pose proof (xj_b0 _ _ _ _ J Ec) as T0. unfold StealProofs.tokens in T0. apply app_eq_nil in T0. destruct T0 as (_ & B0).
    rewrite B0 in S1. exact S1.
Qed.

(* token conservation *)
Lemma conservation_wr s H cr rq coll :
  XW c s -> TSR s H cr rq -> the_collw s = Some coll ->
  Permutation (pool_ws s ++ holdingsw s ++ cr) (seq 0 (length coll) ++ rq).
Proof.
  intros X T Ec. destruct (xw_sched s X) as (ws & Els). pose proof T as [K Rq Hw Tk Dn Dh Or].
  destruct (xw_ws s ws X Els) as (P & ([_ J _ _ _ _] & _) & NIs).
  unfold the_collw in Ec. rewrite Els in Ec. pose proof (Tk ws Els) as Tks. rewrite Ec in Tks.
  unfold pool_ws, holdingsw. rewrite Els. rewrite <- Tks. unfold StealProofs.tokens.
  assert (PH : Permutation (fmkv (fun k w => done_w w ++ restw s ws k) (y_w s)) (map snd H ++ wbooks ws)).
  { transitivity (fmkv (fun k w => hn k H ++ bkw ws k) (y_w s)).
    - unfold fmkv. apply perm_flat_map_in. intros [k w] Hin. cbn [fst snd].
      pose proof (worker_in s k w K Hin) as Ew. pose proof (NIs k w Ew) as NI.
      destruct (node_accountr P s ws k w H cr rq T Els Ew NI) as (_ & Sb).
      assert (NDb : NoDup (bkw ws k)) by (apply bkw_nodup; apply (xj_nd _ _ _ _ J)).
      rewrite (Dn k w Ew), <- app_assoc. apply Permutation_app_head. symmetry. apply sub_split; assumption.
    - rewrite fmkv_app_perm_r. apply Permutation_app.
      + rewrite (fmkv_keyfun (fun k => hn k H)). apply hn_sum_exact; [exact K|].
        intros p Hp. apply LoadProofs.aget_In_keys. apply Hw. exact Hp.
      + rewrite (fmkv_keyfun (bkw ws)). apply books_by_keysr; assumption. }
  rewrite PH. permc.
Qed.

(* ---- the initial state ---- *)
Hypothesis Hmode : c_mode c = MSteal.
Hypothesis HB : BUD = c_requeue c.

Lemma TSR_init : TSR (sys_init c) [] [] [].
Proof.
  assert (ES : d_sched (y_d (sys_init c)) = StW (ws_init (init_nt c) N)).
  { cbn [sys_init y_d d_sched]. rewrite Hmode. reflexivity. }
  assert (XS : forall n, xsigs (sys_init c) n = []).
  { intros n. unfold xsigs. cbn [sys_init y_evq y_up]. rewrite alist_get_map_nil. reflexivity. }
  constructor.
  - cbn [sys_init y_w]. rewrite (akeys_map_seq (fun _ => w_init)). apply seq_NoDup.
  - cbn. rewrite HB. lia.
  - intros p [].
  - intros ws Els. rewrite ES in Els. injection Els as <-. cbn [ws_init ws_coll]. auto.
  - intros n w Hn. cbn [sys_init y_w] in Hn. apply aget_map_const in Hn. subst w.
    unfold hsx. cbn [sys_init y_dead mem_nat existsb]. unfold hsigs_of. rewrite ES. unfold hsigs.
    cbn [sys_init y_evq y_up]. rewrite alist_get_map_nil. cbn. unfold hup. destruct (ndown _ n); reflexivity.
  - unfold DHx. cbn [sys_init y_w]. rewrite (fmkv_const_nil _ w_init); [apply sub_refl|].
    intros k. unfold gone. cbn [sys_init y_dead mem_nat existsb andb]. reflexivity.
  - intros ws n w Els Hn. rewrite ES in Els. injection Els as <-. cbn [sys_init y_w] in Hn. apply aget_map_const in Hn. subst w.
    unfold ORDN. cbn [sys_init y_dead mem_nat existsb]. intros _.
    assert (BK : bkw (ws_init (init_nt c) N) n = []) by reflexivity.
    assert (BS : backs (sys_init c) n w_init = []) by (unfold backs; rewrite XS; reflexivity).
    split; [|split].
    + exists [], []. rewrite BK, BS. split; [reflexivity|constructor].
    + intros F. rewrite BS in F. exfalso. apply F. reflexivity.
    + intros pre T0 post E0. exfalso. cbn [sys_init y_down w_init winbox app] in E0. rewrite alist_get_map_nil in E0.
      destruct pre; discriminate E0.
Qed.



End TokWR.

(* ====================================================================================== *)
(* Part E: the theorems (C15 for --dist worksteal)                                          *)
(* ====================================================================================== *)
Section ReqMainW.
  Variable c : config.
  Variable ls : list label.
  Hypothesis Hmode : c_mode c = MSteal.
  Hypothesis Hnogarbled : no_garbled c.
  Hypothesis Hnodes : 0 < c_numnodes c.
  (* test ids are distinct: mark_test_pending re-queues the crashed index itself *)
  Hypothesis Hnodup : forall k, NoDup (c_coll c k).

  (* the indices the plugin put back into the pool during the run, in the order of the re-queues: one
     entry for every controller turn that reported a crash item while d_requeue was positive (the
     turn consumes one unit of d_requeue and calls mark_test_pending) *)
  Definition requeued_in_runw : list nat := requeuedw c (sys_init c) ls.
  (* how often index i was re-queued *)
  Definition requeued_countw (i : nat) : nat := count_occ Nat.eq_dec requeued_in_runw i.

  Lemma run_witness_wr :
    exists s0 H, XW c s0 /\ VE s0 (sys_run c ls) /\
                 TSR (c_requeue c) s0 H (crashed_in_runw c ls) requeued_in_runw.
  Proof.
    assert (Hrq : rq_ok c) by (right; exact Hnodup).
    destruct (tr_run c Hnogarbled Hnodes (c_requeue c) ls (sys_init c) [] [] [])
      as (G & H & T); [left; apply XW_init; assumption|apply TSR_init; auto|].
    change (run_fromw c (sys_init c) ls) with (sys_run c ls) in G, T. cbn [app] in T.
    fold (crashed_in_runw c ls) in T. fold requeued_in_runw in T.
    destruct G as [X|(_ & _ & s0 & X0 & V)].
    - exists (sys_run c ls), H. split; [exact X|]. split; [apply VE_refl|exact T].
    - exists s0, H. split; [exact X0|]. split; [exact V|].
      destruct (CrashStealTokens.xw_sched c s0 X0) as (ws & E0).
      apply (TSR_VE (c_requeue c) (sys_run c ls) s0 ws); [apply VE_sym; exact V| |exact T].
      destruct V as (_ & _ & _ & _ & _ & A6 & _). rewrite A6. exact E0.
  Qed.

  (* C15 (1): AT MOST ONCE PER RE-QUEUE.  Every index is started at most once, plus once for every time
     it was re-queued -- whatever the crashes, the schedule, the withdrawals in flight and the plugin's budget. *)
  Theorem steal_requeue_at_most_once_per_requeue : forall i,
    count_occ Nat.eq_dec (started (sys_run c ls)) i <= 1 + requeued_countw i.
  Proof.
    intros i. destruct run_witness_wr as (s0 & H & X0 & V & T). rewrite (started_VE s0 _ V).
    pose proof (started_bound_wr c Hnodes (c_requeue c) s0 H _ _ X0 T) as S1.
    apply (sub_count _ _ i) in S1. rewrite count_occ_app in S1. unfold requeued_countw.
    assert (Z : count_occ Nat.eq_dec (match the_collw s0 with Some coll => seq 0 (length coll) | None => [] end) i <= 1).
    { destruct (the_collw s0) as [coll|]; [|cbn; lia]. rewrite count_occ_seq. destruct (i <? length coll); lia. }
    lia.
  Qed.

  (* the plugin's budget: every re-queue consumes one unit of d_requeue *)
  Theorem steal_requeue_budget :
    length requeued_in_runw + d_requeue (y_d (sys_run c ls)) = c_requeue c.
  Proof.
    destruct run_witness_wr as (s0 & H & X0 & V & T). pose proof (tr_rq _ _ _ _ _ T) as Bg.
    destruct V as (_ & _ & _ & _ & _ & _ & _ & A8). rewrite A8. lia.
  Qed.

  (* in particular: the total number of starts is at most the size of the collection plus the budget *)
  Corollary steal_requeue_total_starts :
    length (started (sys_run c ls)) <=
    match the_collw (sys_run c ls) with Some coll => length coll | None => 0 end + c_requeue c.
  Proof.
    destruct run_witness_wr as (s0 & H & X0 & V & T). rewrite (started_VE s0 _ V), (the_collw_VE s0 _ V).
    pose proof (started_bound_wr c Hnodes (c_requeue c) s0 H _ _ X0 T) as S1. apply sub_length in S1.
    rewrite app_length in S1. pose proof (tr_rq _ _ _ _ _ T) as Bg.
    assert (Z : length (match the_collw s0 with Some coll => seq 0 (length coll) | None => [] end) =
                match the_collw s0 with Some coll => length coll | None => 0 end).
    { destruct (the_collw s0); [apply seq_length|reflexivity]. }
    lia.
  Qed.

  (* C15 (2): CONSERVATION WITH RE-QUEUEING.  Once the collection is fixed: the pool, the holdings of
     all workers (completed tests ++ rest of the book, see restw / restw_alive of CrashStealTokens.v) and
     the crash reports together are the positions of the collection PLUS one more copy of an index for
     every time it was re-queued. *)
  Theorem steal_requeue_conservation : forall coll,
    the_collw (sys_run c ls) = Some coll ->
    Permutation (pool_ws (sys_run c ls) ++ holdingsw (sys_run c ls) ++ crashed_in_runw c ls)
                (seq 0 (length coll) ++ requeued_in_runw).
  Proof.
    intros coll Ec. destruct run_witness_wr as (s0 & H & X0 & V & T).
    rewrite (pool_ws_VE s0 _ V), (holdingsw_VE s0 _ V). apply (conservation_wr c Hnodes (c_requeue c) s0 H); [exact X0|exact T|].
    rewrite <- (the_collw_VE s0 _ V). exact Ec.
  Qed.
End ReqMainW.


(* ====================================================================================== *)
(* Part F: what requeued_in_runw counts; the re-queued index IS the crashed index           *)
(* ====================================================================================== *)
Section CtlStepW.
Variable c : config.
Hypothesis Hpos : 0 < c_numnodes c.

(* the state after a controller turn is, up to the result and the shutting-down flag, the state after the
   handler's outputs have been applied *)
Lemma ctl_VEw s s' o w :
  XW c s -> sys_step c s LCtl = Some (s', o, w) ->
  exists ev q d' outs r, y_result s = None /\ y_evq s = ev :: q /\ d_loop_once ev (y_d s) = (d', outs, r) /\
    VE (apply_outs (set_d (set_evq s q) d') outs) s' /\ incl o outs.
Proof.
  intros X HS. pose proof X as [Lo Hi (ws & P & DJd & NIs & Pout) Eq Eu Ea Er Edead].
  unfold sys_step in HS. destruct (y_result s) eqn:Eres; [discriminate|].
  specialize (Ea eq_refl).
  destruct (d_active (y_d s)) as [|a0 ar] eqn:Eact; [contradiction|].
  destruct (y_evq s) as [|ev q] eqn:Eevq; [discriminate|].
  destruct (d_loop_once ev (y_d s)) as [[d' outs] r] eqn:El.
  exists ev, q, d', outs, r. split; [first [reflexivity|exact Eres]|]. split; [first [reflexivity|exact Eevq]|]. split; [first [reflexivity|exact El]|].
  destruct (step_ctl_corex c Hpos s ev q d' outs r X Eres Eevq El) as (-> & Hfin & XC).
  set (s1 := apply_outs (set_d (set_evq s q) d') outs) in *.
  assert (XR : XW c (set_result s1 (Some RFinished))) by (apply XC; [intros e; discriminate|discriminate]).
  assert (RES : forall rr, VE s1 (set_result s1 rr)).
  { intros rr. unfold VE; cbn [set_result y_w y_dead y_evq y_up y_down y_d]; auto 10. }
  destruct (d_session_finished d') eqn:Efin.
  - injection HS as <- <- _. split; [apply RES|apply incl_refl].
  - destruct (d_active d') as [|b0 br] eqn:Eact'.
    + assert (Hsd : d_shuttingdown d' = false).
      { unfold d_session_finished in Efin. rewrite Eact', andb_true_r in Efin. exact Efin. }
      destruct (w_dj _ _ XR) as (ws2 & P2 & DJ2 & _).
      destruct (apply_outs_frame outs (set_d (set_evq s q) d')) as (F1 & F2 & F3). cbn [set_d set_evq y_evq y_d y_dead] in F1, F2, F3.
      cbn [set_result y_d] in DJ2. fold s1 in F2. rewrite F2 in DJ2.
      destruct DJ2 as ([Els2 _ _ _ Jb2 _] & _ & Jss2).
      assert (Hss : d_shouldstop d' = false).
      { apply not_true_false. intros F. rewrite (Jss2 F) in Hsd. discriminate. }
      assert (Hnn : s_nodes (d_sched d') = []).
      { rewrite Els2. cbn [s_nodes]. specialize (Jb2 Hss). rewrite Eact' in Jb2.
        destruct (ws_nodes ws2) as [|k rr]; [reflexivity|]. exfalso. apply (Jb2 k). left. reflexivity. }
      rewrite (trigger_no_nodes d' Hsd Hnn) in HS. cbn [apply_outs] in HS. injection HS as <- <- _.
      split; [|rewrite app_nil_r; apply incl_refl].
      unfold VE. cbn [set_result set_d y_w y_dead y_evq y_up y_down y_d d_set_shuttingdown d_sched d_active d_requeue].
      rewrite F2. repeat split; reflexivity.
    + injection HS as <- <- _. split; [apply VE_refl|apply incl_refl].
Qed.

Hypothesis Hnodup : forall k, NoDup (c_coll c k).

(* one controller turn: a crash report (index i, id t) made while the plugin still re-queues puts index i back
   into the pool and consumes one unit of the budget *)
Lemma requeue_of_crash_report_xw s s' o w t k :
  XW c s -> sys_step c s LCtl = Some (s', o, w) -> In (OHook (HCrashReport t k)) o ->
  0 < d_requeue (y_d s) ->
  exists coll i, the_collw s = Some coll /\ crash_idxw s LCtl = [i] /\ nth_error coll i = Some t /\
    index_of_str t coll = Some i /\ rq_idxw s = [i] /\ d_requeue (y_d s) = S (d_requeue (y_d s')).
Proof.
  intros X HS Hin Hq. destruct (ctl_VEw s s' o w X HS) as (ev & q & d' & outs & r & Eres & Eevq & El & V & Io).
  apply Io in Hin.
  destruct (ctl_crash_reportx c Hpos s ev q d' outs r t k X Eres Eevq El Hin)
    as (-> & _ & wk & i & rest & coll & Ewk & Ebk & Ec & Enth & _).
  pose proof X as [Lo Hi (ws & P & DJd & NIs & Pout) Eq Eu Ea Er Edead]. specialize (Ea Eres).
  pose proof DJd as ([Els J _ _ _ _] & _).
  assert (CI : crash_idxw s LCtl = [i]).
  { unfold crash_idxw. rewrite Eevq, Els. cbn [evcr]. unfold bookw in Ebk. rewrite Els in Ebk. fold (bkw ws k) in Ebk. rewrite Ebk. reflexivity. }
  assert (NDc : NoDup coll).
  { unfold the_collw in Ec. rewrite Els in Ec. destruct (xj_cin _ _ _ _ J coll Ec) as (k0 & ->). apply Hnodup. }
  pose proof (CrashSteal.index_of_str_nth coll NDc i t Enth) as Ei.
  assert (RI1 : rq_idxw s = [i]).
  { unfold rq_idxw. destruct (d_requeue (y_d s)); [lia|]. rewrite CI. cbn [flat_map]. unfold first_idx. rewrite Ec, Enth, Ei. reflexivity. }
  exists coll, i. split; [exact Ec|]. split; [exact CI|]. split; [exact Enth|]. split; [exact Ei|]. split; [exact RI1|].
  pose proof (pre_from_invx c Hpos P s ws (QErrorDown k) q X DJd NIs Eevq) as Hpre.
  destruct (loop_factsxR _ _ Hpos (QErrorDown k) _ ws d' outs r DJd Hpre El) as (ws' & _ & _ & Rq').
  rewrite (rq_ofw_idx s ws _ q Eevq Els), RI1 in Rq'. cbn [length] in Rq'.
  destruct V as (_ & _ & _ & _ & _ & _ & _ & A8). rewrite A8.
  destruct (apply_outs_frame outs (set_d (set_evq s q) d')) as (_ & F2 & _). cbn [set_d set_evq y_d] in F2. rewrite F2. lia.
Qed.

(* the crash report of a controller turn is re-queued (same index) when the plugin still re-queues, and final
   when its budget is used up *)
Definition kept_idxw (s : sys) : list nat :=
  match d_requeue (y_d s) with 0 => crash_idxw s LCtl | S _ => [] end.

Lemma crash_splitw s : XW c s -> rq_idxw s ++ kept_idxw s = crash_idxw s LCtl.
Proof.
  intros X. unfold rq_idxw, kept_idxw. destruct (d_requeue (y_d s)) as [|k]; [reflexivity|]. rewrite app_nil_r.
  pose proof X as [_ _ (ws & P & ([Els J _ _ _ _] & _) & _) _ _ _ _ _].
  unfold crash_idxw, the_collw. rewrite Els. destruct (y_evq s) as [|[| | | | | | | | | | |n] q]; try reflexivity.
  cbn [evcr]. destruct (bkw ws n) as [|i rest] eqn:Eb; [reflexivity|]. cbn [firstn flat_map]. rewrite app_nil_r.
  assert (Hit : In i (wtokens ws)).
  { unfold StealProofs.tokens. apply in_or_app. right. apply (in_bkw_books ws n i). rewrite Eb. left. reflexivity. }
  destruct (ws_coll ws) as [X0|] eqn:Ecoll; [|rewrite (xj_b0 _ _ _ _ J Ecoll) in Hit; destruct Hit].
  assert (Hi : i < length X0) by (apply (xj_valid _ _ _ _ J X0 Ecoll); exact Hit).
  unfold first_idx.
  destruct (nth_error X0 i) as [t|] eqn:Enth; [|apply nth_error_None in Enth; lia].
  assert (NDc : NoDup X0) by (destruct (xj_cin _ _ _ _ J X0 Ecoll) as (k0 & ->); apply Hnodup).
  rewrite (CrashSteal.index_of_str_nth X0 NDc i t Enth). reflexivity.
Qed.
End CtlStepW.

Fixpoint keptw (c : config) (s : sys) (ls : list label) : list nat :=
  match ls with
  | [] => []
  | l :: r =>
      match sys_step c s l with
      | Some (s', _, _) => (match l with LCtl => kept_idxw s | _ => [] end) ++ keptw c s' r
      | None => keptw c s r
      end
  end.

Section SameIndexW.
  Variable c : config.
  Hypothesis Hmode : c_mode c = MSteal.
  Hypothesis Hnogarbled : no_garbled c.
  Hypothesis Hnodes : 0 < c_numnodes c.
  Hypothesis Hnodup : forall k, NoDup (c_coll c k).

  Lemma run_fromw_app s ls1 ls2 : run_fromw c s (ls1 ++ ls2) = run_fromw c (run_fromw c s ls1) ls2.
  Proof. unfold run_fromw. apply fold_left_app. Qed.

  Lemma crashed_split_runw ls : forall ls0,
    Permutation (crashedw c (sys_run c ls0) ls) (requeuedw c (sys_run c ls0) ls ++ keptw c (sys_run c ls0) ls).
  Proof.
    assert (Hrq : rq_ok c) by (right; exact Hnodup).
    induction ls as [|l ls IH]; intros ls0; [reflexivity|]. cbn [crashedw requeuedw keptw].
    destruct (sys_step c (sys_run c ls0) l) as [[[s' o] w]|] eqn:E; [|apply IH].
    assert (Es' : s' = sys_run c (ls0 ++ [l])).
    { change (sys_run c (ls0 ++ [l])) with (run_fromw c (sys_init c) (ls0 ++ [l])). rewrite run_fromw_app.
      change (run_fromw c (sys_init c) ls0) with (sys_run c ls0). cbn [run_fromw fold_left]. rewrite E. reflexivity. }
    rewrite Es'. specialize (IH (ls0 ++ [l])).
    destruct l; cbn [app crash_idxw]; try exact IH.
    destruct (xw_run c Hmode Hnogarbled Hnodes Hrq ls0) as [X1|(R & _)].
    - change (match y_evq (sys_run c ls0) with
              | [] => []
              | ev :: _ => match d_sched (y_d (sys_run c ls0)) with StW ws => evcr ev ws | _ => [] end
              end) with (crash_idxw (sys_run c ls0) LCtl).
      rewrite <- (crash_splitw c Hnodes Hnodup _ X1). rewrite IH. permc.
    - unfold sys_step in E. rewrite R in E. discriminate.
  Qed.

  Variable ls : list label.
  (* the crash reports that were final (not re-queued), in the order of the reports *)
  Definition crashed_for_goodw : list nat := keptw c (sys_init c) ls.

  (* the crash reports are the re-queued ones (same index) and the final ones *)
  Theorem steal_requeue_same_index :
    Permutation (crashed_in_runw c ls) (requeued_in_runw c ls ++ crashed_for_goodw).
  Proof. exact (crashed_split_runw ls []). Qed.

  (* C15 (2), the form of the brief: pool ++ holdings ++ crashed-and-not-requeued is the collection *)
  Theorem steal_requeue_conservation_nodup : forall coll,
    the_collw (sys_run c ls) = Some coll ->
    Permutation (pool_ws (sys_run c ls) ++ holdingsw (sys_run c ls) ++ crashed_for_goodw) (seq 0 (length coll)).
  Proof.
    intros coll Ec. pose proof (steal_requeue_conservation c ls Hmode Hnogarbled Hnodes Hnodup coll Ec) as PC.
    rewrite steal_requeue_same_index in PC.
    apply (Permutation_app_inv_l (requeued_in_runw c ls)).
    transitivity (pool_ws (sys_run c ls) ++ holdingsw (sys_run c ls) ++ requeued_in_runw c ls ++ crashed_for_goodw); [permc|].
    rewrite PC. permc.
  Qed.

  (* C15 (1) in terms of crash reports: a test is started at most once plus once per re-queued crash report OF THAT TEST *)
  Theorem steal_requeue_at_most_once_nodup : forall i,
    count_occ Nat.eq_dec (started (sys_run c ls)) i + count_occ Nat.eq_dec crashed_for_goodw i <=
    1 + count_occ Nat.eq_dec (crashed_in_runw c ls) i.
  Proof.
    intros i. pose proof (steal_requeue_at_most_once_per_requeue c ls Hmode Hnogarbled Hnodes Hnodup i) as H1.
    unfold requeued_countw in H1.
    rewrite (proj1 (Permutation_count_occ Nat.eq_dec _ _) steal_requeue_same_index i), count_occ_app. lia.
  Qed.

  (* what requeued_in_runw counts: a controller turn at the end of any run prefix that emits a crash report for
     id t while d_requeue > 0 appends the index of t to requeued_in_runw and decrements d_requeue *)
  Theorem steal_requeue_of_crash_report : forall s' o w t k,
    sys_step c (sys_run c ls) LCtl = Some (s', o, w) -> In (OHook (HCrashReport t k)) o ->
    0 < d_requeue (y_d (sys_run c ls)) ->
    exists coll i, the_collw (sys_run c ls) = Some coll /\ crash_idxw (sys_run c ls) LCtl = [i] /\ nth_error coll i = Some t /\
      index_of_str t coll = Some i /\ rq_idxw (sys_run c ls) = [i] /\
      d_requeue (y_d (sys_run c ls)) = S (d_requeue (y_d s')) /\
      requeued_in_runw c (ls ++ [LCtl]) = requeued_in_runw c ls ++ [i].
  Proof.
    intros s' o w t k HS Hin Hq.
    assert (Hrq : rq_ok c) by (right; exact Hnodup).
    assert (X : XW c (sys_run c ls)).
    { destruct (xw_run c Hmode Hnogarbled Hnodes Hrq ls) as [X|(R & _)]; [exact X|]. unfold sys_step in HS. rewrite R in HS. discriminate. }
    destruct (requeue_of_crash_report_xw c Hnodes Hnodup _ s' o w t k X HS Hin Hq) as (coll & i & A1 & A2 & A3 & A4 & A5 & A6).
    exists coll, i. repeat (split; [assumption|]).
    unfold requeued_in_runw. rewrite (requeuedw_app c). change (run_fromw c (sys_init c) ls) with (sys_run c ls).
    cbn [requeuedw]. rewrite HS, A5. reflexivity.
  Qed.
End SameIndexW.


(* ====================================================================================== *)
(* Part G: the exact account at a finished end (C15 (3))                                    *)
(* ====================================================================================== *)
(* DHx s (CrashStealTokens.v): the tests that were running on workers whose death has been handled *)
(* the test the dead worker was running, for the controller turn that handles its errordown in state s *)
Definition crash_run_idxw (s : sys) : list nat :=
  match y_evq s with
  | QErrorDown n :: _ => match aget n (y_w s) with Some w => running w | None => [] end
  | _ => []
  end.
(* crash reports for a test that had NOT been started by the dead worker: the worker held it, or it was still on
   the wire, or it had been withdrawn from it and the reply was lost; it had not entered pytest_runtest_protocol *)
Definition crash_unstarted_idxw (s : sys) : list nat :=
  match crash_run_idxw s with [] => crash_idxw s LCtl | _ => [] end.

Lemma DHx_ext s s' :
  y_w s' = y_w s -> (forall k w, In (k, w) (y_w s) -> gone s' k = gone s k) -> DHx s' = DHx s.
Proof. intros Ew Hg. unfold DHx. rewrite Ew. apply fmkv_ext. intros k w Hin. rewrite (Hg k w Hin). reflexivity. Qed.

Lemma DHx_worker s s' n0 w0 w' :
  aget n0 (y_w s) = Some w0 -> mem_nat n0 (y_dead s) = false ->
  y_w s' = aset n0 w' (y_w s) -> y_d s' = y_d s -> y_dead s' = y_dead s -> DHx s' = DHx s.
Proof.
  intros Ew Hd Ey Ed Edd. unfold DHx. rewrite Ey.
  rewrite (fmkv_ext (fun k w => if gone s' k then running w else []) (fun k w => if gone s k then running w else [])).
  - apply (fmkv_aset_same _ n0 w' w0); [exact Ew|]. unfold gone. rewrite Hd. reflexivity.
  - intros k v _. unfold gone. rewrite Edd, Ed. reflexivity.
Qed.

Lemma DHx_VE s0 s : VE s0 s -> DHx s = DHx s0.
Proof.
  intros (A1 & A2 & _ & _ & _ & _ & A7 & _). apply DHx_ext; [exact A1|]. intros k w _. unfold gone. rewrite A2, A7. reflexivity.
Qed.

Section RunAccW.
Variable c : config.
Notation N := (c_numnodes c).
Notation X0 := (c_coll c).
Notation OR := (c_oracle c).
Hypothesis Hng : no_garbled c.
Hypothesis Hpos : 0 < N.
Let errd_node_quiet := CrashStealTokens.errd_node_quiet c.

Lemma step_dhx_nonctl s l s' o w :
  l <> LCtl -> XW c s -> sys_step c s l = Some (s', o, w) -> DHx s' = DHx s.
Proof.
  intros Hl X HS. pose proof X as [Lo Hi (ws & P & DJd & NIs & Pout) Eq Eu Ea Er Edead].
  pose proof DJd as ([Els J _ _ _ _] & _).
  unfold sys_step in HS. destruct (y_result s) eqn:Eres; [discriminate|].
  assert (CRASH : forall n0 w0, mem_nat n0 (y_dead s) = false -> aget n0 (y_w s) = Some w0 -> wph w0 <> PExited ->
            DHx (crash_worker c s n0) = DHx s).
  { intros n0 w0 Hd Ew Hph.
    destruct (CrashStealTokens.mortal_heard c Hpos _ _ _ _ _ (NIs n0 w0 Ew) Hd Hph) as (_ & Hact).
    destruct (CrashStealTokens.crash_d c s n0 ws Els) as (ws' & _ & _ & _ & _ & _ & _ & Ea' & _).
    apply DHx_ext; [reflexivity|].
    intros k wk _. unfold gone. change (y_dead (crash_worker c s n0)) with (n0 :: y_dead s).
    rewrite Ea', mem_nat_cons. destruct (Nat.eqb k n0) eqn:E; [|reflexivity].
    apply Nat.eqb_eq in E. subst k. rewrite Hd. apply mem_nat_In in Hact. rewrite Hact. reflexivity. }
  destruct l as [n0|n0|n0|n0| |n0]; [| | | |contradiction|].
  - destruct (mem_nat n0 (y_dead s)) eqn:Hd; [discriminate|].
    destruct (aget n0 (y_down s)) as [[|cmd rest]|] eqn:Ed; try discriminate.
    destruct (aget n0 (y_w s)) as [w0|] eqn:Ew; try discriminate. inv HS.
    eapply (DHx_worker s _ n0 w0 (deliver w0 cmd)); eauto; reflexivity.
  - destruct (mem_nat n0 (y_dead s)) eqn:Hd; [discriminate|].
    destruct (aget n0 (y_w s)) as [w0|] eqn:Ew; try discriminate.
    destruct (negb (wcb w0)); [discriminate|].
    destruct (recv_step (c_oracle c n0) w0) as [w' evs] eqn:Es. inv HS.
    eapply (DHx_worker s _ n0 w0 w'); eauto; reflexivity.
  - destruct (mem_nat n0 (y_dead s)) eqn:Hd; [discriminate|].
    destruct (aget n0 (y_w s)) as [w0|] eqn:Ew; try discriminate.
    destruct (dies_now c n0 w0) eqn:Edie.
    + inv HS. apply (CRASH n0 w0 Hd Ew). unfold dies_now in Edie. destruct (wph w0); discriminate.
    + destruct (main_step (c_oracle c n0) w0) as [[w' evs]|] eqn:Es; [|discriminate]. inv HS.
      eapply (DHx_worker s _ n0 w0 w'); eauto; reflexivity.
  - destruct (aget n0 (y_up s)) as [[|m rest]|] eqn:Eup; try discriminate.
    cbn [y_d] in HS.
    destruct (process_from_remote n0 m (y_d s)) as [[d' outs] r] eqn:Ep.
    pose proof (alist_get_some [] _ _ _ Eup) as Eup'.
    assert (HnG : n0 < d_next_gw (y_d s)).
    { destruct (Nat.lt_ge_cases n0 (d_next_gw (y_d s))) as [H0|H0]; [exact H0|].
      destruct (Hi n0 H0) as (_ & F & _). rewrite Eup' in F. discriminate. }
    destruct (aget n0 (ws_nt ws)) as [f|] eqn:Ef; [|exfalso; apply (proj2 (xj_ntk _ _ _ _ J n0) HnG); exact Ef].
    pose proof (Eu n0) as En. rewrite Eup' in En. inversion En as [|m1 r1 Gm Gr]; subst.
    destruct (pfr_effx X0 _ _ _ _ _ _ _ _ _ Els Ef Gm HnG Ep) as (-> & evs & -> & Hd' & _).
    cbn [apply_outs] in HS. inv HS.
    assert (Eact : d_active d' = d_active (y_d s)) by (destruct Hd' as [->|(-> & _)]; reflexivity).
    match goal with |- DHx (close_if_dead ?sa n0) = _ => set (sA := sa) end.
    destruct (close_if_dead_view sA n0) as ((_ & V2 & _) & E1 & E2 & _).
    apply DHx_ext; [exact E1|]. intros k wk _. unfold gone. rewrite E2, V2. unfold sA. cbn [set_evq set_d y_d y_dead]. rewrite Eact. reflexivity.
  - destruct (mem_nat n0 (y_dead s)) eqn:Hd; [discriminate|].
    destruct (aget n0 (y_w s)) as [w0|] eqn:Ew; try discriminate.
    destruct (wph w0) eqn:Eph; try discriminate; inv HS; apply (CRASH n0 w0 Hd Ew); rewrite Eph; discriminate.
Qed.

(* the controller's turn: exactly the node whose errordown is handled becomes "gone" *)
Lemma step_dhx_core s ev q d' outs r ws :
  XW c s -> NoDup (akeys (y_w s)) -> y_result s = None -> y_evq s = ev :: q ->
  d_loop_once ev (y_d s) = (d', outs, r) -> d_sched (y_d s) = StW ws ->
  Permutation (DHx (apply_outs (set_d (set_evq s q) d') outs)) (DHx s ++ crash_run_idxw s).
Proof.
  intros X K Eres Eevq El Els0.
  pose proof X as [Lo Hi (ws0 & P & DJd & NIs & Pout) Eq Eu Ea Er Edead].
  specialize (Ea Eres).
  pose proof DJd as ([Els J AL _ _ _] & _). assert (ws0 = ws) by congruence. subst ws0.
  pose proof (pre_from_invx c Hpos P s ws ev q X DJd NIs Eevq) as Hpre.
  destruct (loop_once_okx N X0 Hpos ev _ ws d' outs r DJd Hpre El) as (-> & ws' & vo & Eo & E & DJ2 & _ & _).
  pose proof DJ2 as ([Els2 J2 _ _ _ _] & _).
  pose proof (loop_once_step _ _ _ _ _ El) as (_ & _ & _ & SP).
  set (G := d_next_gw (y_d s)) in *.
  assert (SPW : (d_next_gw d' = G /\ forall id sp, ~ In (OHook (HSpawn id sp)) outs) \/
                (d_next_gw d' = S G /\ (exists sp, In (OHook (HSpawn G sp)) outs) /\
                 forall id sp, In (OHook (HSpawn id sp)) outs -> id = G)).
  { destruct SP as [(C0 & G0)|(C1 & G1 & _ & _ & sp & SPx)].
    - left. split; [exact G0|]. intros id sp Hin. pose proof (count_zero_notin _ _ _ C0 Hin) as F. discriminate.
    - right. split; [exact G1|]. split.
      + destruct (count_pos_in _ _ C1) as (x & Hx & Fx). exists sp. rewrite <- (SPx x Hx Fx). exact Hx.
      + intros id sp' Hin. specialize (SPx _ Hin eq_refl). inv SPx. reflexivity. }
  assert (SPID : forall id sp, In (OHook (HSpawn id sp)) outs -> id = G).
  { intros id sp Hin. destruct SPW as [(_ & F)|(_ & _ & B)]; [exfalso; exact (F _ _ Hin)|eapply B; eauto]. }
  assert (OUTG : forall m, G <= m -> cmds_to m outs = []).
  { intros m Hm. rewrite Eo, cmds_to_vfilter, (hx_out _ _ _ _ _ _ _ _ E m Hm). destruct (closedb (ws_nt ws) m); reflexivity. }
  set (sA := set_d (set_evq s q) d').
  set (s1 := apply_outs sA outs).
  destruct (apply_outs_frame outs sA) as (F1 & F2 & F3). cbn [sA set_d set_evq y_evq y_d y_dead] in F1, F2, F3.
  fold s1 in F1, F2, F3.
  assert (UP : forall k, alist_get [] k (y_up s1) = alist_get [] k (y_up s)).
  { intros k. unfold s1. rewrite apply_outs_up; [reflexivity|]. intros id sp Hin. rewrite (SPID _ _ Hin).
    cbn [sA set_d set_evq y_up]. apply (Hi G). unfold G. lia. }
  assert (DOWN : forall k, alist_get [] k (y_down s1) =
            if mem_nat k (y_dead s) then alist_get [] k (y_down s) else alist_get [] k (y_down s) ++ cmds_to k outs).
  { intros k. unfold s1. rewrite apply_outs_down; [reflexivity|]. intros id sp Hin. rewrite (SPID _ _ Hin).
    split; [apply OUTG; lia|]. cbn [sA set_d set_evq y_down]. apply (Hi G). unfold G. lia. }
  assert (YW : y_w s1 = if existsb is_spawn outs then aset G w_init (y_w s) else y_w s).
  { unfold s1. rewrite (apply_outs_yw_G G outs sA SPID). reflexivity. }
  assert (GN : aget G (y_w s) = None) by (apply (Hi G); unfold G; lia).
  assert (SIGS : forall k, xsigs s k = ev_xsigs_for k ev ++ xsigs s1 k).
  { intros k. rewrite (xsigs_headx s ev q k Eevq). unfold xsigs. rewrite F1, UP. reflexivity. }
  assert (NDW : forall k, k < G -> ndown ws' k = ndown ws k).
  { intros k Hk. pose proof (hx_nt _ _ _ _ _ _ _ _ E k Hk) as R0. unfold ndown.
    destruct (aget k (ws_nt ws)) as [f|], (aget k (ws_nt ws')) as [f'|]; cbn in R0; try contradiction; [|reflexivity].
    destruct (NRW_fields _ _ _ R0) as (_ & B & _). exact B. }
  assert (SDM : forall k, k < G -> sdsent_of ws k = true -> sdsent_of ws' k = true).
  { intros k Hk. pose proof (hx_nt _ _ _ _ _ _ _ _ E k Hk) as R0. unfold sdsent_of.
    destruct (aget k (ws_nt ws)) as [f|], (aget k (ws_nt ws')) as [f'|]; cbn in R0; try contradiction; [|discriminate].
    destruct (NRW_fields _ _ _ R0) as (_ & _ & _ & D & _). intros Hs. apply D. left. exact Hs. }
  assert (HSIGS : forall k, k < G -> hsigs ws s k = ev_xsigs_for k ev ++ hsigs ws' s1 k).
  { intros k Hk. rewrite (hsigs_head ws s ev q k Eevq). unfold hsigs. rewrite F1, UP, (NDW k Hk). reflexivity. }
  assert (EVOK : ok_evw X0 G ev).
  { pose proof Eq as Eq'. rewrite Forall_forall in Eq'. apply Eq'. rewrite Eevq. left. reflexivity. }
  assert (WLT : forall k w, aget k (y_w s) = Some w -> k < G).
  { intros k w Hk. destruct (Nat.lt_ge_cases k G) as [Hlt|Hge]; [exact Hlt|]. destruct (Hi k Hge) as (F & _). congruence. }
  assert (HSX : forall k w, aget k (y_w s) = Some w -> xcompletes (hsx s k) = xcompletes (ev_xsigs_for k ev) ++ xcompletes (hsx s1 k)).
  { intros k w Hk. unfold hsx. rewrite F3. destruct (mem_nat k (y_dead s)).
    - rewrite (SIGS k), xcompletes_app. reflexivity.
    - unfold hsigs_of. rewrite F2, Els, Els2, (HSIGS k (WLT k w Hk)), xcompletes_app. reflexivity. }
  assert (SG1 : xsigs s1 G = []).
  { assert (Z : xsigs s G = []).
    { unfold xsigs. destruct (Hi G (le_n _)) as (_ & UG & _). rewrite UG. cbn. rewrite app_nil_r. apply (evq_xsigs_fresh c Hpos). exact Eq. }
    pose proof (SIGS G) as Z2. rewrite Z in Z2. symmetry in Z2. apply app_eq_nil in Z2. tauto. }
  assert (DEADG : mem_nat G (y_dead s) = false).
  { apply mem_nat_false. intros Hin. specialize (Edead _ Hin). fold G in Edead. lia. }
  (* who is gone *)
  assert (GONE : forall k w, In (k, w) (y_w s) -> (forall n, ev = QErrorDown n -> k <> n) -> gone s1 k = gone s k).
  { intros k w Hin Hne. unfold gone. rewrite F3, F2. destruct (mem_nat k (y_dead s)) eqn:Hd; [|reflexivity]. cbn [andb]. f_equal.
    pose proof (aget_in_amap k w (y_w s) K Hin) as Ew.
    destruct (NIs k w Ew) as (_ & _ & _ & DD0). rewrite Hd in DD0. destruct DD0 as [D1 _ _ _].
    destruct (mem_nat k (d_active (y_d s))) eqn:Ha.
    - apply mem_nat_In in Ha. destruct (hx_act _ _ _ _ _ _ _ _ E k Ha) as [Y|[(b & Y)|Y]].
      + apply mem_nat_In. exact Y.
      + exfalso. apply (NDX_nofin _ _ _ _ b D1). rewrite (SIGS k). apply in_or_app. left.
        unfold ev_xsigs_for. rewrite Y, Nat.eqb_refl. left. reflexivity.
      + exfalso. exact (Hne k Y eq_refl).
    - apply mem_nat_false in Ha. apply mem_nat_false. intros Y.
      destruct (hx_actb _ _ _ _ _ _ _ _ E k Y) as [Z|(Z & _)]; [contradiction|].
      fold G in Z. subst k. congruence. }
  assert (R1 : Permutation (fmkv (fun k w => if gone s1 k then running w else []) (y_w s)) (DHx s ++ crash_run_idxw s)).
  { unfold crash_run_idxw. rewrite Eevq. destruct (classic_errd ev) as [(n & ->)|Hne].
    - assert (HnG : n < G) by (destruct EVOK as (_ & Hn); exact Hn).
      destruct (aget n (y_w s)) as [wn|] eqn:Ewn; [|exfalso; exact (Lo n HnG Ewn)].
      destruct (errd_node_quiet P s ws n q wn (NIs n wn Ewn) Eevq) as (Hdn & Han & XS0).
      destruct (hx_err _ _ _ _ _ _ _ _ E n eq_refl) as (_ & Hna').
      assert (G1 : gone s1 n = true).
      { unfold gone. rewrite F3, F2, Hdn. apply mem_nat_false in Hna'. rewrite Hna'. reflexivity. }
      assert (G0 : gone s n = false).
      { unfold gone. rewrite Hdn. apply mem_nat_In in Han. rewrite Han. reflexivity. }
      destruct (aset_split n wn wn (y_w s) Ewn) as (pre & post & Em & _).
      assert (NDm : NoDup (akeys (y_w s))) by exact K.
      unfold DHx. rewrite Em. unfold fmkv. rewrite !flat_map_app.
      cbn [flat_map fst snd]. rewrite G1, G0. cbn [app].
      assert (EXT : forall part, (forall x, In x part -> In x (y_w s) /\ fst x <> n) ->
                flat_map (fun p => if gone s1 (fst p) then running (snd p) else []) part =
                flat_map (fun p => if gone s (fst p) then running (snd p) else []) part).
      { intros part Hp. apply fm_ext_in. intros [k w] Hin. destruct (Hp _ Hin) as (A1 & A2). cbn [fst snd] in *.
        rewrite (GONE k w A1); [reflexivity|]. intros n0 E0. injection E0 as <-. exact A2. }
      assert (PRE : forall x, In x pre -> In x (y_w s) /\ fst x <> n).
      { intros x Hx. split; [rewrite Em; apply in_or_app; left; exact Hx|].
        intros F. rewrite Em in NDm. unfold akeys in NDm. rewrite map_app in NDm. cbn [map fst] in NDm.
        apply NoDup_remove_2 in NDm. apply NDm. apply in_or_app. left. rewrite <- F. apply in_map. exact Hx. }
      assert (POST : forall x, In x post -> In x (y_w s) /\ fst x <> n).
      { intros x Hx. split; [rewrite Em; apply in_or_app; right; right; exact Hx|].
        intros F. rewrite Em in NDm. unfold akeys in NDm. rewrite map_app in NDm. cbn [map fst] in NDm.
        apply NoDup_remove_2 in NDm. apply NDm. apply in_or_app. right. rewrite <- F. apply in_map. exact Hx. }
      rewrite (EXT pre PRE), (EXT post POST). permc.
    - rewrite (fmkv_ext _ (fun k w => if gone s k then running w else [])).
      + fold (DHx s). destruct ev; try (rewrite app_nil_r; reflexivity). exfalso. eapply Hne. reflexivity.
      + intros k w Hin. rewrite (GONE k w Hin); [reflexivity|]. intros n E0. exfalso. exact (Hne n E0). }
  unfold DHx at 1. fold s1. rewrite YW. destruct (existsb is_spawn outs); [|exact R1].
  rewrite (fmkv_new _ G w_init _ GN).
  assert (Z : (if gone s1 G then running w_init else []) = []) by (destruct (gone s1 G); reflexivity).
  rewrite Z, app_nil_r. exact R1.
Qed.
End RunAccW.


(* whole runs: the crash reports of tests that were running / that had not been started *)
Fixpoint crashed_runningw (c : config) (s : sys) (ls : list label) : list nat :=
  match ls with
  | [] => []
  | l :: r =>
      match sys_step c s l with
      | Some (s', _, _) => (match l with LCtl => crash_run_idxw s | _ => [] end) ++ crashed_runningw c s' r
      | None => crashed_runningw c s r
      end
  end.
Fixpoint crashed_unstartedw (c : config) (s : sys) (ls : list label) : list nat :=
  match ls with
  | [] => []
  | l :: r =>
      match sys_step c s l with
      | Some (s', _, _) => (match l with LCtl => crash_unstarted_idxw s | _ => [] end) ++ crashed_unstartedw c s' r
      | None => crashed_unstartedw c s r
      end
  end.

Section ExactW.
Variable c : config.
Notation N := (c_numnodes c).
Notation X0 := (c_coll c).
Notation OR := (c_oracle c).
Hypothesis Hng : no_garbled c.
Hypothesis Hpos : 0 < N.
Variable BUD : nat.

(* a running test is the crash item: the order invariant ORDN (the running test heads the dead node's book) *)
Lemma crash_run_is_crashw s n q H cr rq :
  XW c s -> TSR BUD s H cr rq -> y_evq s = QErrorDown n :: q ->
  forall x, crash_run_idxw s = [x] -> crash_idxw s LCtl = [x].
Proof.
  intros X T Eevq x Hx. unfold crash_run_idxw in Hx. rewrite Eevq in Hx.
  destruct (aget n (y_w s)) as [wn|] eqn:Ewn; [|discriminate].
  destruct (CrashStealTokens.xw_sched c s X) as (ws & Els).
  destruct (CrashStealTokens.xw_ws c s ws X Els) as (P & _ & NIs).
  destruct (CrashStealTokens.errd_node_quiet c P s ws n q wn (NIs n wn Ewn) Eevq) as (Hdn & Han & XS0).
  pose proof (tr_ord _ _ _ _ _ T ws n wn Els Ewn) as O. unfold ORDN in O. rewrite Hdn in O.
  destruct (O Han) as (Z & EZ & _); [rewrite Hx; discriminate|].
  rewrite XS0 in EZ. cbn [xcompletes flat_map app] in EZ.
  unfold crash_idxw. rewrite Eevq, Els. cbn [evcr]. rewrite EZ, Hx. reflexivity.
Qed.

(* a crash report is for the test the worker was running, or for a test it had not started *)
Lemma crash_idx_splitw s H cr rq :
  XW c s -> TSR BUD s H cr rq -> crash_idxw s LCtl = crash_run_idxw s ++ crash_unstarted_idxw s.
Proof.
  intros X T. unfold crash_unstarted_idxw. destruct (crash_run_idxw s) as [|x [|y l]] eqn:E; [reflexivity| |].
  - rewrite app_nil_r. pose proof E as E'. unfold crash_run_idxw in E'.
    destruct (y_evq s) as [|[| | | | | | | | | | |n] q] eqn:Eevq; try discriminate.
    exact (crash_run_is_crashw s n q H cr rq X T Eevq x E).
  - exfalso. unfold crash_run_idxw in E. destruct (y_evq s) as [|[| | | | | | | | | | |n] q]; try discriminate.
    destruct (aget n (y_w s)) as [wn|]; [|discriminate]. unfold running in E. destruct (wph wn); discriminate.
Qed.

Lemma step_dhx_ctl s s' o w :
  XW c s -> NoDup (akeys (y_w s)) -> sys_step c s LCtl = Some (s', o, w) ->
  Permutation (DHx s') (DHx s ++ crash_run_idxw s).
Proof.
  intros X K HS. destruct (ctl_VEw c Hpos s s' o w X HS) as (ev & q & d' & outs & r & Eres & Eevq & El & V & _).
  destruct (CrashStealTokens.xw_sched c s X) as (ws & Els).
  rewrite (DHx_VE _ _ V). exact (step_dhx_core c Hpos s ev q d' outs r ws X K Eres Eevq El Els).
Qed.

Lemma run_accw ls : forall s cr rq H rn,
  XW c s \/ ErrStW c s -> TSR BUD s H cr rq -> Permutation (DHx s) rn ->
  Permutation (DHx (run_fromw c s ls)) (rn ++ crashed_runningw c s ls) /\
  Permutation (crashedw c s ls) (crashed_runningw c s ls ++ crashed_unstartedw c s ls).
Proof.
  induction ls as [|l ls IH]; intros s cr rq H rn G T PR.
  - cbn. rewrite app_nil_r. split; [exact PR|reflexivity].
  - cbn [run_fromw fold_left crashedw crashed_runningw crashed_unstartedw]. fold (run_fromw c).
    destruct (sys_step c s l) as [[[s' o] w]|] eqn:E; [|apply (IH s cr rq H rn); assumption].
    destruct G as [X|(R & _)]; [|unfold sys_step in E; rewrite R in E; discriminate].
    destruct (step_tr c Hpos BUD s l s' o w H cr rq X T E) as (H1 & T1).
    pose proof (step_xw c Hng Hpos s l s' o w X E) as G1.
    assert (PR1 : Permutation (DHx s') (rn ++ match l with LCtl => crash_run_idxw s | _ => [] end)).
    { assert (NC : l <> LCtl -> DHx s' = DHx s) by (intros Hl; exact (step_dhx_nonctl c Hpos s l s' o w Hl X E)).
      destruct l; try (rewrite app_nil_r, NC; [exact PR|discriminate]).
      rewrite (step_dhx_ctl s s' o w X (tr_keys _ _ _ _ _ T) E), PR. reflexivity. }
    destruct (IH s' _ _ H1 _ G1 T1 PR1) as (A1 & A2). split.
    + rewrite A1, app_assoc. reflexivity.
    + destruct l; cbn [app crash_idxw]; try exact A2.
      change (match y_evq s with
              | [] => []
              | ev :: _ => match d_sched (y_d s) with StW ws => evcr ev ws | _ => [] end
              end) with (crash_idxw s LCtl).
      rewrite (crash_idx_splitw s H cr rq X T), A2. permc.
Qed.

(* the account when no node is active and no stop was requested *)
Lemma finished_endw s H cr rq rn coll :
  XW c s -> TSR BUD s H cr rq -> Permutation (DHx s) rn ->
  d_active (y_d s) = [] -> d_shouldstop (y_d s) = false -> the_collw s = Some coll ->
  Permutation (pool_ws s ++ started s ++ cr) (seq 0 (length coll) ++ rq ++ rn).
Proof.
  intros X T PR Hact Hss Ec. pose proof T as [K Rq Hw Tk Dn Dh Or].
  destruct (CrashStealTokens.xw_sched c s X) as (ws & Els).
  destruct (CrashStealTokens.xw_ws c s ws X Els) as (P & ([_ J _ _ JB _] & _) & NIs).
  (* the scheduler has no node left: every book is empty *)
  assert (N0 : ws_n2p ws = []).
  { specialize (JB Hss). rewrite Hact in JB. unfold ws_nodes, akeys in JB.
    destruct (ws_n2p ws) as [|[k b] m]; [reflexivity|]. exfalso. apply (JB k). left. reflexivity. }
  assert (B0 : forall k, bkw ws k = []) by (intros k; apply bkw_none; rewrite N0; reflexivity).
  assert (BK0 : wbooks ws = []) by (unfold StealProofs.books; rewrite N0; reflexivity).
  (* what was started: completed, or running when the worker died *)
  assert (PS : Permutation (started s) (map snd H ++ DHx s)).
  { change (started s) with (fmkv (fun (_ : nat) (w : wst) => map (fun r => snd (fst r)) (wran w)) (y_w s)).
    rewrite (fmkv_ext (fun _ w => map (fun r => snd (fst r)) (wran w)) (fun k w => done_w w ++ (if gone s k then running w else []))).
    - rewrite (fmkv_app_perm_r (fun _ w => done_w w) (fun k w => if gone s k then running w else [])).
      apply Permutation_app_tail.
      transitivity (fmkv (fun k (_ : wst) => hn k H) (y_w s)).
      + unfold fmkv. apply perm_flat_map_in. intros [k w] Hin. cbn [fst snd].
        pose proof (worker_in s k w K Hin) as Ew. pose proof (NIs k w Ew) as NI.
        destruct (node_accountr c BUD P s ws k w H cr rq T Els Ew NI) as (_ & Sb).
        rewrite B0 in Sb. apply sub_nil_inv in Sb. rewrite (Dn k w Ew), Sb, app_nil_r. reflexivity.
      + rewrite (fmkv_keyfun (fun k => hn k H)). apply hn_sum_exact; [exact K|].
        intros p Hp. apply LoadProofs.aget_In_keys. apply Hw. exact Hp.
    - intros k w Hin. pose proof (worker_in s k w K Hin) as Ew.
      destruct (NIs k w Ew) as (Iw & _ & _ & D0). rewrite (wran_done_running w Iw). f_equal.
      unfold gone. rewrite Hact. cbn [mem_nat existsb negb]. rewrite andb_true_r.
      destruct (mem_nat k (y_dead s)); [reflexivity|].
      assert (Hni : ~ In k (d_active (y_d s))) by (rewrite Hact; intros []).
      unfold running. destruct (P k).
      + destruct D0 as [D1 _ _ _ _ _ _]. destruct (sw_ph _ _ _ _ _ _ _ D1) as [E0|E0]; rewrite E0; reflexivity.
      + destruct D0 as [D1 _ _ _ _ _]. destruct (nw_act _ _ _ _ _ _ D1 Hni) as (_ & Pe). rewrite Pe. reflexivity. }
  unfold the_collw in Ec. rewrite Els in Ec. pose proof (Tk ws Els) as Tks. rewrite Ec in Tks.
  unfold StealProofs.tokens in Tks. rewrite BK0, app_nil_r in Tks.
  unfold pool_ws. rewrite Els, PS, PR.
  transitivity ((ws_pending ws ++ map snd H ++ cr) ++ rn); [permc|]. rewrite Tks. permc.
Qed.
End ExactW.

Section ExactMainW.
  Variable c : config.
  Variable ls : list label.
  Hypothesis Hmode : c_mode c = MSteal.
  Hypothesis Hnogarbled : no_garbled c.
  Hypothesis Hnodes : 0 < c_numnodes c.
  Hypothesis Hnodup : forall k, NoDup (c_coll c k).

  (* the crash reports (in order) for tests the dead worker had not started: it held them in its queue, or
     they were on its wire, or they had been withdrawn from it and the reply never reached the controller;
     it had not entered pytest_runtest_protocol for them *)
  Definition crashed_unstarted_in_runw : list nat := crashed_unstartedw c (sys_init c) ls.
  (* the crash reports for tests that were running when the worker died *)
  Definition crashed_running_in_runw : list nat := crashed_runningw c (sys_init c) ls.

  Lemma dhx_init : Permutation (DHx (sys_init c)) [].
  Proof.
    unfold DHx. cbn [sys_init y_w]. rewrite (fmkv_const_nil _ w_init); [reflexivity|].
    intros k. destruct (gone (sys_init c) k); reflexivity.
  Qed.

  Theorem steal_crashed_running_or_unstarted :
    Permutation (crashed_in_runw c ls) (crashed_running_in_runw ++ crashed_unstarted_in_runw).
  Proof.
    assert (Hrq : rq_ok c) by (right; exact Hnodup).
    destruct (run_accw c Hnogarbled Hnodes (c_requeue c) ls (sys_init c) [] [] [] []) as (_ & A2);
      [left; apply XW_init; assumption|apply TSR_init; auto|exact dhx_init|exact A2].
  Qed.

  (* C15 (3): THE EXACT ACCOUNT AT A FINISHED END.  When the session has ended as "finished": the tests left
     in the pool (only possible when the restart budget ran out), the tests started (with multiplicity) and
     the crash reports for tests that had not been started together are exactly the collection plus one
     copy of an index per re-queue. *)
  Theorem steal_requeue_exact_at_finished_end : forall coll,
    y_result (sys_run c ls) = Some RFinished -> the_collw (sys_run c ls) = Some coll ->
    Permutation (pool_ws (sys_run c ls) ++ started (sys_run c ls) ++ crashed_unstarted_in_runw)
                (seq 0 (length coll) ++ requeued_in_runw c ls).
  Proof.
    intros coll HR Ec.
    assert (Hrq : rq_ok c) by (right; exact Hnodup).
    assert (X0 : XW c (sys_init c) \/ ErrStW c (sys_init c)) by (left; apply XW_init; assumption).
    assert (T0 : TSR (c_requeue c) (sys_init c) [] [] []) by (apply TSR_init; auto).
    destruct (run_accw c Hnogarbled Hnodes (c_requeue c) ls (sys_init c) [] [] [] [] X0 T0 dhx_init) as (A1 & A2).
    destruct (tr_run c Hnogarbled Hnodes (c_requeue c) ls (sys_init c) [] [] [] X0 T0) as (G & H & T).
    change (run_fromw c (sys_init c) ls) with (sys_run c ls) in *. cbn [app] in *.
    destruct G as [X|(R & _)]; [|rewrite R in HR; discriminate].
    destruct (finished_run c ls (sys_init c)) as (Hact & Hss); [intros F; cbn in F; discriminate|exact HR|].
    change (run_from c (sys_init c) ls) with (sys_run c ls) in *.
    pose proof (finished_endw c Hnodes (c_requeue c) (sys_run c ls) H _ _ _ coll X T A1 Hact Hss Ec) as PF.
    fold (crashed_in_runw c ls) in PF, A2. rewrite A2 in PF.
    apply (Permutation_app_inv_l (crashed_runningw c (sys_init c) ls)).
    transitivity (pool_ws (sys_run c ls) ++ started (sys_run c ls) ++ crashed_runningw c (sys_init c) ls ++ crashed_unstartedw c (sys_init c) ls); [unfold crashed_unstarted_in_runw; permc|].
    rewrite PF. unfold requeued_in_runw. permc.
  Qed.

  (* per index: started exactly once, plus once per re-queue, minus the crash reports it got without having
     been started -- unless it is still in the pool *)
  Corollary steal_requeue_exactly_once_per_requeue : forall coll i,
    y_result (sys_run c ls) = Some RFinished -> the_collw (sys_run c ls) = Some coll -> i < length coll ->
    count_occ Nat.eq_dec (started (sys_run c ls)) i + count_occ Nat.eq_dec crashed_unstarted_in_runw i +
    count_occ Nat.eq_dec (pool_ws (sys_run c ls)) i = 1 + requeued_countw c ls i.
  Proof.
    intros coll i HR Ec Hi. pose proof (steal_requeue_exact_at_finished_end coll HR Ec) as P.
    pose proof (proj1 (Permutation_count_occ Nat.eq_dec _ _) P i) as E. rewrite !count_occ_app, count_occ_seq in E.
    apply Nat.ltb_lt in Hi. rewrite Hi in E. unfold requeued_countw. lia.
  Qed.
End ExactMainW.

Check steal_requeue_at_most_once_per_requeue.
Print Assumptions steal_requeue_at_most_once_per_requeue.
Check steal_requeue_budget.
Print Assumptions steal_requeue_budget.
Check steal_requeue_total_starts.
Print Assumptions steal_requeue_total_starts.
Check steal_requeue_conservation.
Print Assumptions steal_requeue_conservation.
Check steal_requeue_same_index.
Print Assumptions steal_requeue_same_index.
Check steal_requeue_conservation_nodup.
Print Assumptions steal_requeue_conservation_nodup.
Check steal_requeue_at_most_once_nodup.
Print Assumptions steal_requeue_at_most_once_nodup.
Check steal_requeue_of_crash_report.
Print Assumptions steal_requeue_of_crash_report.
Check steal_crashed_running_or_unstarted.
Print Assumptions steal_crashed_running_or_unstarted.
Check steal_requeue_exact_at_finished_end.
Print Assumptions steal_requeue_exact_at_finished_end.
Check steal_requeue_exactly_once_per_requeue.
Print Assumptions steal_requeue_exactly_once_per_requeue.

(* ====================================================================================== *)
(* non-vacuity: concrete worksteal sessions with re-queueing, evaluated                     *)
(* ====================================================================================== *)
(* three initial workers, k tests; the plugin re-queues the first rq crash items; mr = restart budget *)
Definition rqw_cfg (rq k : nat) (mr : Z) (crash : nat -> nat -> bool) (names : list string) : config :=
  {| c_mode := MSteal; c_numnodes := 3; c_chunk := None; c_maxfail := 0%Z; c_max_restart := Some mr;
     c_requeue := rq; c_coll := fun _ => names; c_oracle := fun _ => crx_oracle k;
     c_dur := fun _ => 0%Z; c_crash_in := crash; c_strict := false; c_spec := fun _ => 0 |}.
Lemma rqw_hyps rq k mr crash names :
  c_mode (rqw_cfg rq k mr crash names) = MSteal /\ no_garbled (rqw_cfg rq k mr crash names) /\
  0 < c_numnodes (rqw_cfg rq k mr crash names).
Proof.
  split; [reflexivity|]. split; [|cbn; lia].
  intros n i H. cbn in H. destruct H as [H|[]]. discriminate.
Qed.
Lemma crx_names_nodup12 : NoDup (crx_names 12).
Proof.
  vm_compute.
  repeat (constructor; [cbn; intros F; repeat (destruct F as [F|F]; [discriminate|]); exact F|]). constructor.
Qed.
(* one turn of every component, workers 0..6 *)
Definition rqw_round : list label :=
  [LMain 0; LMain 1; LMain 2; LMain 3; LMain 4; LMain 5; LMain 6;
   LRecvW 0; LRecvW 1; LRecvW 2; LRecvW 3; LRecvW 4; LRecvW 5; LRecvW 6;
   LDeliver 0; LDeliver 1; LDeliver 2; LDeliver 3; LDeliver 4; LDeliver 5; LDeliver 6;
   LRecv 0; LRecv 1; LRecv 2; LRecv 3; LRecv 4; LRecv 5; LRecv 6; LCtl].
(* result; pool; holdings; crash reports; re-queued; final crash reports; crash reports of running / of not
   started tests; tests started; budget left *)
Definition rqw_summary (c : config) (ls : list label) :=
  let s := sys_run c ls in
  (y_result s, pool_ws s, holdingsw s, crashed_in_runw c ls, requeued_in_runw c ls, crashed_for_goodw c ls,
   crashed_running_in_runw c ls, crashed_unstarted_in_runw c ls, started s, d_requeue (y_d s)).

(* (a) budget 2; worker 0 is killed from outside while it RUNS test 0, and test 3 kills every worker that
   enters it (before pytest_runtest_protocol is recorded: such a crash item counts as "not started").
   Crash reports 0, 3, 3; the first two are re-queued ([0; 3]); test 0 is started TWICE (= 1 + one
   re-queue); test 3 is never recorded as started: 0 = 1 + 1 re-queue - 2 crash reports without start *)
Definition rqw_sched : list label := rounds 11 rqw_round ++ [LCrash 0] ++ rounds 150 rqw_round.
Definition rqw_cfg_a : config := rqw_cfg 2 12 8%Z (fun _ i => Nat.eqb i 3) (crx_names 12).
Example rqw_ex_two_requeues :
  rqw_summary rqw_cfg_a rqw_sched =
    (Some RFinished, [], [4; 5; 6; 7; 8; 9; 10; 11; 0; 1; 2], [0; 3; 3], [0; 3], [3], [0], [3; 3],
     [0; 4; 5; 6; 7; 8; 9; 10; 11; 0; 1; 2], 0) /\
  (forall i, count_occ Nat.eq_dec (started (sys_run rqw_cfg_a rqw_sched)) i <= 1 + requeued_countw rqw_cfg_a rqw_sched i) /\
  Permutation (pool_ws (sys_run rqw_cfg_a rqw_sched) ++ holdingsw (sys_run rqw_cfg_a rqw_sched) ++ crashed_in_runw rqw_cfg_a rqw_sched)
              (seq 0 12 ++ requeued_in_runw rqw_cfg_a rqw_sched) /\
  Permutation (pool_ws (sys_run rqw_cfg_a rqw_sched) ++ holdingsw (sys_run rqw_cfg_a rqw_sched) ++ crashed_for_goodw rqw_cfg_a rqw_sched)
              (seq 0 12) /\
  Permutation (pool_ws (sys_run rqw_cfg_a rqw_sched) ++ started (sys_run rqw_cfg_a rqw_sched) ++ crashed_unstarted_in_runw rqw_cfg_a rqw_sched)
              (seq 0 12 ++ requeued_in_runw rqw_cfg_a rqw_sched).
Proof.
  destruct (rqw_hyps 2 12 8%Z (fun _ i => Nat.eqb i 3) (crx_names 12)) as (H1 & H2 & H3). fold rqw_cfg_a in H1, H2, H3.
  assert (ND : forall k, NoDup (c_coll rqw_cfg_a k)) by (intros k; exact crx_names_nodup12).
  assert (EC : the_collw (sys_run rqw_cfg_a rqw_sched) = Some (crx_names 12)) by (vm_compute; reflexivity).
  split; [vm_compute; reflexivity|]. split; [|split; [|split]].
  - apply steal_requeue_at_most_once_per_requeue; assumption.
  - apply (steal_requeue_conservation _ _ H1 H2 H3 ND (crx_names 12) EC).
  - apply (steal_requeue_conservation_nodup _ H1 H2 H3 ND _ (crx_names 12) EC).
  - apply (steal_requeue_exact_at_finished_end _ _ H1 H2 H3 ND (crx_names 12)); [vm_compute; reflexivity|exact EC].
Qed.
Print Assumptions rqw_ex_two_requeues.

(* (b) the session of CrashStealTokens.v, example (c): worker 1 has executed a withdrawal request (6 7 have left
   its queue, the reply is computed but never sent), runs test 4 and is killed; the plugin re-queues one crash
   item: test 4 is started twice = 1 + one re-queue; 5 6 7 go back to the pool and are run once *)
Example rqw_ex_withdrawal_in_flight :
  let ls := xt_errordown_next ++ [LCtl] ++ rounds 70 xs_rr4 in
  rqw_summary xt_cfg_requeue ls =
    (Some RFinished, [], [0; 1; 2; 3; 5; 8; 9; 10; 11; 4; 6; 7], [4], [4], [], [4], [],
     [0; 1; 2; 3; 5; 4; 8; 9; 10; 11; 4; 6; 7], 0) /\
  (forall i, count_occ Nat.eq_dec (started (sys_run xt_cfg_requeue ls)) i <= 1 + requeued_countw xt_cfg_requeue ls i) /\
  Permutation (pool_ws (sys_run xt_cfg_requeue ls) ++ started (sys_run xt_cfg_requeue ls) ++ crashed_unstarted_in_runw xt_cfg_requeue ls)
              (seq 0 12 ++ requeued_in_runw xt_cfg_requeue ls).
Proof.
  cbv zeta.
  assert (H1 : c_mode xt_cfg_requeue = MSteal) by reflexivity.
  assert (H2 : no_garbled xt_cfg_requeue) by (intros n i H; cbn in H; destruct H as [H|[]]; discriminate).
  assert (H3 : 0 < c_numnodes xt_cfg_requeue) by (cbn; lia).
  assert (ND : forall k, NoDup (c_coll xt_cfg_requeue k)).
  { intros k. cbn.
    repeat (constructor; [cbn; intros F; repeat (destruct F as [F|F]; [discriminate|]); exact F|]). constructor. }
  split; [vm_compute; reflexivity|]. split.
  - apply steal_requeue_at_most_once_per_requeue; assumption.
  - apply (steal_requeue_exact_at_finished_end _ _ H1 H2 H3 ND (c_coll xt_cfg_requeue 0)); vm_compute; reflexivity.
Qed.

(* (c) THE POOL AT A FINISHED END: restart budget 0; worker 0 is killed while it runs test 0; the controller
   stops replacing workers and shuts down (the stop flag is NOT set: the session ends as "finished"); the
   re-queued test 0 and the tests nobody took stay in the pool -- the term pool_ws of the exact account *)
Definition rqw_cfg_c : config := rqw_cfg 1 12 0%Z (fun _ _ => false) (crx_names 12).
Example rqw_ex_pool_left :
  let s := sys_run rqw_cfg_c rqw_sched in
  (y_result s, pool_ws s, started s, crashed_in_runw rqw_cfg_c rqw_sched, requeued_in_runw rqw_cfg_c rqw_sched,
   crashed_unstarted_in_runw rqw_cfg_c rqw_sched) =
  (Some RFinished, [0; 1; 2; 3], [0; 4; 5; 6; 7; 8; 9; 10; 11], [0], [0], []) /\
  Permutation (pool_ws s ++ started s ++ crashed_unstarted_in_runw rqw_cfg_c rqw_sched)
              (seq 0 12 ++ requeued_in_runw rqw_cfg_c rqw_sched).
Proof.
  cbv zeta. destruct (rqw_hyps 1 12 0%Z (fun _ _ => false) (crx_names 12)) as (H1 & H2 & H3). fold rqw_cfg_c in H1, H2, H3.
  assert (ND : forall k, NoDup (c_coll rqw_cfg_c k)) by (intros k; exact crx_names_nodup12).
  split; [vm_compute; reflexivity|].
  apply (steal_requeue_exact_at_finished_end _ _ H1 H2 H3 ND (crx_names 12)); vm_compute; reflexivity.
Qed.

(* (d) DUPLICATE TEST IDS (outside the hypotheses: forall k, NoDup (c_coll c k) fails): "b" is carried by the
   indices 1, 3 and 5.  Index 3 kills every worker; the plugin (budget 3) re-queues its id -- mark_test_pending
   puts the FIRST index carrying "b", i.e. 1, back into the pool: index 1 is run twice and index 3 never again.
   requeued_in_runw counts the index that was put back ([0; 1] while the crash reports are [0; 3]); on this run
   statement (1) still holds, the same-index statement does not *)
Definition rqw_cfg_d : config := rqw_cfg 3 6 8%Z (fun _ i => Nat.eqb i 3) ["a"; "b"; "a"; "b"; "c"; "b"]%string.
Definition rqw_sched_d : list label := rounds 10 rqw_round ++ [LCrash 0] ++ rounds 150 rqw_round.
Example rqw_ex_duplicate_ids :
  rqw_summary rqw_cfg_d rqw_sched_d =
    (Some RFinished, [], [2; 4; 5; 0; 1; 1], [0; 3], [0; 1], [], [], [0; 3], [2; 4; 5; 0; 1; 1], 1) /\
  ~ Permutation (crashed_in_runw rqw_cfg_d rqw_sched_d) (requeued_in_runw rqw_cfg_d rqw_sched_d ++ crashed_for_goodw rqw_cfg_d rqw_sched_d).
Proof.
  split; [vm_compute; reflexivity|].
  assert (E4 : crashed_in_runw rqw_cfg_d rqw_sched_d = [0; 3]) by (vm_compute; reflexivity).
  assert (E5 : requeued_in_runw rqw_cfg_d rqw_sched_d = [0; 1]) by (vm_compute; reflexivity).
  assert (E6 : crashed_for_goodw rqw_cfg_d rqw_sched_d = []) by (vm_compute; reflexivity).
  rewrite E4, E5, E6. intros P.
  assert (Hin : In 3 ([0; 1] ++ [])) by (eapply Permutation_in; [exact P|cbn; auto]). cbn in Hin. intuition discriminate.
Qed.
