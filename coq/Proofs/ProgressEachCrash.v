(* ProgressEachCrash.v -- property C02 for --dist each WITH worker failure, in the region where all
   workers (replacements included) collect the same list: no stand-off.

   For c_mode c = MEach, EVERY schedule (LCrash labels anywhere, workers dying inside tests, any
   restart budget, strict channels or not), if every worker collects the same list, the test oracle of
   every worker enumerates that list, no report is undecodable and no test id is empty, then in every
   reachable state in which the session has not ended some component can make a useful non-crash move
   (theorem c02_each_crash_no_deadlock_useful).  With disagreeing collections the statement is false:
   ProgressEach.each_stuck_witness / each_stuck_witness2.

   The proof does NOT go through "the controller never raises": a controller exception ends the
   session (y_result <> None), so only the Ok-effects of the handlers are analysed, and the book of a
   node is only bounded (by what is still in flight towards / owed by its worker), not described exactly.

   Organisation: part A counting; part B the invariant XPI (live nodes LNI, controller GCI); part C a
   state satisfying XPI is not quiescent; part D steps of the workers, the wires and the controller's
   receiver thread; part E one iteration of the controller loop (Ok-effects of the each scheduler and of
   DSession, errordown / restart / _clone_node included); part F the theorems.
   Uses the scheduler lemmas of CrashEach.v parts A-B (virtual outputs for closed channels). *)
From XV Require Import Base Worker Ctl SchedLoad SchedSteal SchedScope SchedEach Sched DSession System
  NoHook DSessionProofs WorkerProofs LoadProofs FifoProofs ExactlyOnce Coupling Completeness Progress Termination
  CrashCoupling EachSystem CrashEach ProgressEach.
From XV Require LivenessLaws.
From Coq Require Import Permutation.
Open Scope nat_scope.

(* ====================================================================================== *)
(* A. counting                                                                             *)
(* ====================================================================================== *)
Lemma sumf_pos_ex (f : nat -> nat) l : 1 <= sumf f l -> exists x, In x l /\ 1 <= f x.
Proof.
  induction l as [|a l IH]; [cbn; lia|]. rewrite sumf_cons. intros H.
  destruct (f a) as [|k] eqn:E.
  - destruct (IH ltac:(lia)) as (x & Hx & Fx). exists x. split; [right; exact Hx|exact Fx].
  - exists a. split; [left; reflexivity|lia].
Qed.

Lemma sumf_in_ge (f : nat -> nat) l x : In x l -> f x <= sumf f l.
Proof. apply sumf_in_le. Qed.

Lemma sumf_seq_S (f : nat -> nat) g : sumf f (seq 0 (S g)) = sumf f (seq 0 g) + f g.
Proof. rewrite seq_S, sumf_app, sumf_cons, sumf_nil. cbn. lia. Qed.

(* ====================================================================================== *)
(* B. the invariant                                                                        *)
(* ====================================================================================== *)
Definition cinds0 (K : nat) (cm : cmd) : list nat := item_inds (citems K cm).
(* what is in flight towards / owed by the worker of a node: completions not yet handled, what the
   worker holds, queues or is unpacking, and the commands on its wire *)
Definition rhsN (K : nat) (L : list sig) (w : wst) (dn : list cmd) : nat :=
  length (completes L) + length (owedE K w) + length (flat_map (cinds0 K) dn).

Definition specb (es : estate) (sg n : nat) : bool :=
  match aget n (e_nt es) with Some f => Nat.eqb (n_spec f) sg | None => false end.
Definition sdb (es : estate) (n : nat) : bool :=
  match aget n (e_nt es) with Some f => n_sdsent f | None => false end.
(* a dead node whose remainder waits in _removed2pending / a node that can still inherit one *)
Definition indR (es : estate) (sg n : nat) : nat :=
  if ahas n (e_removed es) && specb es sg n then 1 else 0.
Definition indP (act : list nat) (es : estate) (sg n : nat) : nat :=
  if mem_nat n act && negb (ahas n (e_n2c es)) && negb (sdb es n) && specb es sg n then 1 else 0.

Definition exhausted (d : dstate) : bool :=
  match d_max_restart d with Some m => (m <? d_failed_nodes d)%Z | None => false end.

Definition node_of (ev : cevent) : option nat :=
  match ev with
  | QReady n | QCollFinish n _ | QCollectReport n _ _ | QLogStart n _ | QLogFinish n _ | QReport n _ _ _
  | QComplete n _ _ | QUnscheduled n _ | QInternalError n | QFinished n _ | QErrorDown n => Some n
  | QWarning => None
  end.
Definition downb (es : estate) (n : nat) : bool :=
  match aget n (e_nt es) with Some f => n_down f | None => false end.

Definition is_fin_ev (n : nat) (ev : cevent) : bool :=
  match ev with QFinished m _ => Nat.eqb m n | QErrorDown m => Nat.eqb m n | _ => false end.

(* the event that takes a node out of the active set is the last event of that node on the queue *)
Fixpoint finlast (es : estate) (q : list cevent) : Prop :=
  match q with
  | [] => True
  | ev :: r => (forall n, is_fin_ev n ev = true ->
                  (forall ev', In ev' r -> node_of ev' <> Some n) /\ downb es n = true) /\ finlast es r
  end.

Section CrashSys.
Variable c : config.
Notation N := (c_numnodes c).
Definition coll0 : list string := c_coll c 0.
Definition K0 : nat := length coll0.

(* ---- a live node ---- *)
Record LNI (es : estate) (act : list nat) (gd : Prop) (n : nat) (f : nctl) (L Lup : list sig) (dn : list cmd)
           (w : wst) : Prop := {
  ln_w : WInv w /\ nogarb w;
  ln_wx : WX w;
  ln_cb : CB w;
  ln_chan : chan_ok (prank (wph w)) L;
  ln_cmds : Forall ecmd (winbox w) /\ Forall ecmd dn;
  ln_open : n_closed f = false;
  ln_mark : n_sdsent f = true <-> In Mark (wstr K0 w ++ flat_map (citems K0) dn);
  ln_ready : In n act -> wph w <> PBoot -> wph w <> PExited ->
             In SgReady L \/ In n (e_nodes es) \/ n_sdsent f = true;
  ln_cf : gd -> In n act -> 2 <= prank (wph w) -> wph w <> PExited ->
          In SgCF L \/ In n (akeys (e_n2c es)) \/ n_sdsent f = true;
  ln_fin : wph w = PExited -> In n act -> exists b, In (SgFin b) L;
  ln_book : length (bkE es n) <= rhsN K0 L w dn;
  ln_fresh : ~ In n (e_started es) -> rhsN K0 L w dn = 0;
  ln_down : n_down f = true -> Lup = [] /\ wph w = PExited;
  ln_fm : In (SgFin false) L \/ wph w = PFinishing false -> markpopped w;
  ln_started : In n (e_started es) -> ~ In SgCF L /\ 2 <= prank (wph w);
  ln_n2c : In n (akeys (e_n2c es)) -> ~ In SgCF L /\ 2 <= prank (wph w);
  ln_nodes : In n (e_nodes es) -> ~ In SgReady L /\ wph w <> PBoot;
  ln_act : ~ In n act -> L = [] /\ wph w = PExited;
}.

(* ---- the events and messages that occur ---- *)
Definition ok_evX (gw : nat) (ev : cevent) : Prop :=
  match ev with
  | QUnscheduled _ _ | QInternalError _ | QFinished _ SKKbd => False
  | QCollFinish n ids => ids = coll0
  | _ => True
  end /\
  match ev with
  | QErrorDown n => n < gw
  | _ => match ev_sig ev with Some (m, _) => m < gw | None => True end
  end.
Definition ok_upX (m : upmsg) : Prop :=
  match m with
  | UEv e => ok_wev e
  | UCollFinish ids => ids = coll0
  | UComplete _ _ => True
  | UEnd => True
  | _ => False
  end.

(* ---- the controller and the global bookkeeping ---- *)
Record GCI (gd pss : Prop) (s : sys) (es : estate) : Prop := {
  g_sched : d_sched (y_d s) = StE es;
  g_ntk : forall n, aget n (e_nt es) <> None <-> n < d_next_gw (y_d s);
  g_wk : forall n, aget n (y_w s) <> None <-> n < d_next_gw (y_d s);
  g_act : forall n, In n (d_active (y_d s)) -> n < d_next_gw (y_d s);
  g_actnd : NoDup (d_active (y_d s));
  g_dead : forall n, In n (y_dead s) -> n < d_next_gw (y_d s);
  g_nodes : forall n, In n (e_nodes es) -> n < d_next_gw (y_d s);
  g_nodesnd : NoDup (e_nodes es);
  g_n2c : forall n ids, In (n, ids) (e_n2c es) -> ids = coll0 /\ n < d_next_gw (y_d s);
  g_n2cnd : NoDup (akeys (e_n2c es));
  g_st : forall n, In n (e_started es) -> n < d_next_gw (y_d s);
  g_num : e_numnodes es = N;
  g_nc : e_completed es = false ->
         length (e_n2c es) < N /\ e_removed es = [] /\ e_started es = [] /\ forall n, bkE es n = [];
  g_rem : forall n rest, In (n, rest) (e_removed es) ->
          rest <> [] /\ n < d_next_gw (y_d s) /\ aget n (e_n2c es) <> None;
  g_remnd : NoDup (akeys (e_removed es));
  g_bkst : forall n, In n (e_nodes es) -> bkE es n <> [] -> In n (akeys (e_n2c es));
  g_b : gd -> d_shouldstop (y_d s) = false -> incl (e_nodes es) (d_active (y_d s));
  g_ss : pss;
  g_p : gd -> forall n f, aget n (e_nt es) = Some f -> n_sdsent f = true ->
        e_completed es = true;
  g_tf : gd -> e_tests_finished es = false;
  g_sdall : d_shuttingdown (y_d s) = true -> forall m, In m (e_nodes es) -> sd_in (e_nt es) m;
  g_cnt : gd -> e_completed es = false -> N <= length (d_active (y_d s));
  g_why : d_shuttingdown (y_d s) = true ->
          d_shouldstop (y_d s) = true \/ exhausted (y_d s) = true \/ e_tests_finished es = true;
  g_inh : gd -> forall sg,
          sumf (indR es sg) (seq 0 (d_next_gw (y_d s))) <=
          sumf (indP (d_active (y_d s)) es sg) (seq 0 (d_next_gw (y_d s)));
  (* a node marked down is on its way out of the active set *)
  g_down : forall n f, aget n (e_nt es) = Some f -> n_down f = true -> In n (d_active (y_d s)) ->
           exists ev, In ev (y_evq s) /\ is_fin_ev n ev = true;
  (* the end marker of a dead worker is on its wire until the receiver thread has marked it down *)
  g_end : forall n f, In n (y_dead s) -> aget n (e_nt es) = Some f -> n_down f = false ->
          In UEnd (alist_get [] n (y_up s));
  g_uend : forall n, In UEnd (alist_get [] n (y_up s)) -> In n (y_dead s);
  g_errd : forall k, In (QErrorDown k) (y_evq s) -> In k (y_dead s);
  g_finlive : forall k b, In k (y_dead s) -> ~ In (SgFin b) (sigs s k);
  g_q : finlast es (y_evq s);
  g_gone : forall n, n < d_next_gw (y_d s) -> ~ In n (d_active (y_d s)) ->
           (forall ev, In ev (y_evq s) -> node_of ev <> Some n) /\ downb es n = true;
  g_evq : Forall (ok_evX (d_next_gw (y_d s))) (y_evq s);
  g_up : forall n, Forall ok_upX (alist_get [] n (y_up s)) /\
                   (d_next_gw (y_d s) <= n -> alist_get [] n (y_up s) = []);
  g_dn : forall n, d_next_gw (y_d s) <= n -> alist_get [] n (y_down s) = [];
  g_live : forall n w f, ~ In n (y_dead s) -> aget n (y_w s) = Some w -> aget n (e_nt es) = Some f ->
           LNI es (d_active (y_d s)) gd n f (sigs s n)
               (flat_map up_sig (alist_get [] n (y_up s))) (alist_get [] n (y_down s)) w;
}.

Definition gdF (s : sys) : Prop := d_shuttingdown (y_d s) = false.
Definition pssF (s : sys) : Prop := d_shouldstop (y_d s) = true -> d_shuttingdown (y_d s) = true.
Definition XPI (s : sys) : Prop := exists es, GCI (gdF s) (pssF s) s es.

(* ====================================================================================== *)
(* C. a state satisfying the invariant is not quiescent                                    *)
(* ====================================================================================== *)
(* a useful enabled move of node n's side, dead workers included (only the controller's receiver
   thread can still move for them) *)
Definition xnode_label (s : sys) (n : nat) : option label :=
  match aget n (y_up s) with
  | Some (_ :: _) => Some (LRecv n)
  | _ =>
      if mem_nat n (y_dead s) then None else
      match aget n (y_w s) with
      | None => None
      | Some w =>
          match aget n (y_down s) with
          | Some (_ :: _) => Some (LDeliver n)
          | _ => if recv_busy w then Some (LRecvW n)
                 else if dies_now c n w then Some (LMain n)
                 else match main_step (c_oracle c n) w with Some _ => Some (LMain n) | None => None end
          end
      end
  end.

Lemma xnode_label_ok s n l : y_result s = None -> xnode_label s n = Some l -> Good_label c s l.
Proof.
  intros Hr H. unfold xnode_label in H.
  assert (UP : forall m rest, aget n (y_up s) = Some (m :: rest) -> Good_label c s (LRecv n)).
  { intros m rest Eu. split; [exact Logic.I|]. split; [reflexivity|].
    unfold sys_step. rewrite Hr, Eu. cbn [y_d].
    destruct (process_from_remote n m (y_d s)) as [[d' outs] r]. destruct r; discriminate. }
  assert (REST : (if mem_nat n (y_dead s) then None else
      match aget n (y_w s) with
      | None => None
      | Some w =>
          match aget n (y_down s) with
          | Some (_ :: _) => Some (LDeliver n)
          | _ => if recv_busy w then Some (LRecvW n)
                 else if dies_now c n w then Some (LMain n)
                 else match main_step (c_oracle c n) w with Some _ => Some (LMain n) | None => None end
          end
      end) = Some l -> Good_label c s l).
  { clear H. intros H. destruct (mem_nat n (y_dead s)) eqn:Hd; [discriminate|].
    destruct (aget n (y_w s)) as [w|] eqn:Ew; [|discriminate].
    assert (W : (if recv_busy w then Some (LRecvW n)
                 else if dies_now c n w then Some (LMain n)
                 else match main_step (c_oracle c n) w with Some _ => Some (LMain n) | None => None end) = Some l ->
                Good_label c s l).
    { clear H. intros H. destruct (recv_busy w) eqn:Eb.
      - inv H. split; [exact Logic.I|]. split; [cbn; rewrite Ew; exact Eb|].
        unfold sys_step. rewrite Hr, Hd, Ew.
        unfold recv_busy in Eb. apply andb_true_iff in Eb. destruct Eb as (Ecb & _). rewrite Ecb. cbn [negb].
        destruct (recv_step (c_oracle c n) w). discriminate.
      - destruct (dies_now c n w) eqn:Edn.
        + inv H. split; [exact Logic.I|]. split; [reflexivity|].
          unfold sys_step. rewrite Hr, Hd, Ew, Edn. discriminate.
        + destruct (main_step (c_oracle c n) w) as [[w' evs]|] eqn:Em; [|discriminate]. inv H.
          split; [exact Logic.I|]. split; [reflexivity|].
          unfold sys_step. rewrite Hr, Hd, Ew, Edn, Em. discriminate. }
    destruct (aget n (y_down s)) as [[|cm rest]|] eqn:Ed; try (apply W; exact H).
    inv H. split; [exact Logic.I|]. split; [reflexivity|].
    unfold sys_step. rewrite Hr, Hd, Ed, Ew. discriminate. }
  destruct (aget n (y_up s)) as [[|m rest]|] eqn:Eu; try (apply REST; exact H).
  inv H. eapply UP; eauto.
Qed.

Lemma xnode_label_none s n :
  xnode_label s n = None ->
  alist_get [] n (y_up s) = [] /\
  (mem_nat n (y_dead s) = false -> forall w, aget n (y_w s) = Some w ->
     alist_get [] n (y_down s) = [] /\ recv_busy w = false /\ main_step (c_oracle c n) w = None).
Proof.
  intros H. unfold xnode_label, alist_get in *.
  destruct (aget n (y_up s)) as [[|m rest]|]; try discriminate;
  (split; [reflexivity|]); intros Hd w Ew; rewrite Hd, Ew in H;
  destruct (aget n (y_down s)) as [[|cm r]|]; try discriminate;
  destruct (recv_busy w); try discriminate;
  destruct (dies_now c n w); try discriminate;
  destruct (main_step (c_oracle c n) w); try discriminate; auto.
Qed.

Fixpoint xfind_label (s : sys) (ns : list nat) : option label :=
  match ns with
  | [] => None
  | n :: r => match xnode_label s n with Some l => Some l | None => xfind_label s r end
  end.

Lemma xfind_label_some s ns l : xfind_label s ns = Some l -> exists n, xnode_label s n = Some l.
Proof.
  induction ns as [|n r IH]; cbn; [discriminate|].
  destruct (xnode_label s n) eqn:E; [intros H; inv H; eauto|exact IH].
Qed.

Lemma xfind_label_none s ns : xfind_label s ns = None -> forall n, In n ns -> xnode_label s n = None.
Proof.
  induction ns as [|k r IH]; cbn; [intros _ n []|].
  destruct (xnode_label s k) eqn:E; [discriminate|]. intros H n [<-|Hn]; [exact E|apply IH; assumption].
Qed.

Lemma ahas_true_in {V} n (m : amap V) : ahas n m = true -> In n (akeys m).
Proof. unfold ahas. intros H. apply ea_keys_get. destruct (aget n m); [discriminate|discriminate H]. Qed.

Lemma ahas_false_notin {V} n (m : amap V) : ahas n m = false -> ~ In n (akeys m).
Proof. unfold ahas. intros H Hin. apply ea_keys_get in Hin. destruct (aget n m); [discriminate|contradiction]. Qed.

Lemma in_ahas {V} n (m : amap V) : In n (akeys m) -> ahas n m = true.
Proof. unfold ahas. intros H. apply ea_keys_get in H. destruct (aget n m); [reflexivity|contradiction]. Qed.

Lemma quiescent_falseX s es :
  GCI (gdF s) (pssF s) s es -> y_result s = None -> y_evq s = [] -> d_active (y_d s) <> [] ->
  (forall n, n < d_next_gw (y_d s) -> xnode_label s n = None) -> False.
Proof.
  intros G Hres Hevq Hact HQ. pose proof G as [Els Gnt Gwk Gact Gand Gdead Gnodes Gnnd Gn2c Gn2cnd Gst Gnum Gnc Grem
    Gremnd Gbkst Gb Gss Gp Gtf Gsd Gcnt Gwhy Ginh Gdown Gend Guend Gerrd Gfinl Gq Ggone Gevq Gup Gdn Glive].
  set (gw := d_next_gw (y_d s)) in *.
  assert (UP : forall n, n < gw -> alist_get [] n (y_up s) = []).
  { intros n Hn. exact (proj1 (xnode_label_none s n (HQ n Hn))). }
  assert (SG : forall n, n < gw -> sigs s n = []).
  { intros n Hn. unfold sigs. rewrite Hevq, (UP n Hn). reflexivity. }
  (* an active node: alive, its worker waits at an empty queue with nothing received that it has not
     taken; it has collected, was not told to shut down, is registered, holds at most one test *)
  assert (ACT : forall n, In n (d_active (y_d s)) -> exists w f, aget n (y_w s) = Some w /\ aget n (e_nt es) = Some f /\
            ~ In n (y_dead s) /\ wph w <> PExited /\ 2 <= prank (wph w) /\ n_sdsent f = false /\ n_down f = false /\
            In n (e_nodes es) /\ length (bkE es n) <= 1).
  { intros n Hna. pose proof (Gact n Hna) as Hn.
    destruct (aget n (y_w s)) as [w|] eqn:Ew0; [|exfalso; apply (proj2 (Gwk n) Hn); exact Ew0].
    destruct (aget n (e_nt es)) as [f|] eqn:Ef; [|exfalso; apply (proj2 (Gnt n) Hn); exact Ef].
    exists w, f. split; [reflexivity|]. split; [reflexivity|].
    assert (Hlive : ~ In n (y_dead s)).
    { intros Hd. destruct (n_down f) eqn:Edn.
      - destruct (Gdown n f Ef Edn Hna) as (ev & Hin & _). rewrite Hevq in Hin. destruct Hin.
      - pose proof (Gend n f Hd Ef Edn) as X. rewrite (UP n Hn) in X. destruct X. }
    pose proof (Glive n w f Hlive Ew0 Ef) as X. rewrite (SG n Hn), (UP n Hn) in X.
    destruct (proj2 (xnode_label_none s n (HQ n Hn)) (proj2 (mem_nat_false _ _) Hlive) w Ew0) as (Hd & Hb & Hm).
    rewrite Hd in X.
    assert (Hnx : wph w <> PExited).
    { intros Ex. destruct (ln_fin _ _ _ _ _ _ _ _ _ X Ex Hna) as (b & []). }
    apply LivenessLaws.V6_main_step_blocked in Hm.
    destruct (ln_w _ _ _ _ _ _ _ _ _ X) as (Iw & _). pose proof (inv_phase w Iw) as PI. unfold phase_inv in PI.
    assert (BL : wq w = [] /\ wcb w = true /\ 2 <= prank (wph w) /\ wph w <> PBoot /\
                 ~ In Mark (map snd (wpopped w)) /\ length (owed_main w) <= 1).
    { destruct Hm as [(Ep & Eq0 & Ecb)|[(cur & Ep & Eq0)|Ep]]; [| |contradiction].
      - rewrite Ep in PI. destruct PI as (Epop & _). rewrite Epop. unfold owed_main. rewrite Ep. cbn.
        repeat split; auto; try lia; try discriminate.
      - pose proof (ln_cb _ _ _ _ _ _ _ _ _ X) as Cb. unfold CB in Cb. rewrite Ep in Cb, PI.
        destruct PI as (pre & Epop & Hnm & _). unfold owed_main. rewrite Ep, Epop. cbn [prank length].
        repeat split; auto; try lia; try discriminate.
        intros Hin. apply in_map_iff in Hin. destruct Hin as (e & Ee & Hin). apply in_app_or in Hin.
        destruct Hin as [Hin|[<-|[]]].
        + specialize (Hnm e Hin). unfold is_idx in Hnm. rewrite Ee in Hnm. discriminate.
        + discriminate Ee. }
    destruct BL as (Eq0 & Ecb & Hr & Hnb & Hnm & Hom).
    unfold recv_busy in Hb. rewrite Ecb in Hb. cbn [andb] in Hb. apply negb_false_iff in Hb.
    destruct (wrpend w) eqn:Erp; [|discriminate]. destruct (winbox w) eqn:Eib; [|discriminate].
    assert (Er0 : wrest K0 w = []) by (unfold wrest; rewrite Eq0, Erp, Eib; reflexivity).
    assert (Hsf : n_sdsent f = false).
    { destruct (n_sdsent f) eqn:Es; [|reflexivity]. exfalso. apply Hnm.
      assert (Y : In Mark (wstr K0 w ++ flat_map (citems K0) []))
        by first [exact (proj1 (ln_mark _ _ _ _ _ _ _ _ _ X) Es)|exact (proj1 (ln_mark _ _ _ _ _ _ _ _ _ X) eq_refl)].
      unfold wstr in Y. rewrite Er0 in Y. cbn [flat_map] in Y. rewrite !app_nil_r in Y. exact Y. }
    assert (Hdf : n_down f = false).
    { destruct (n_down f) eqn:Ed0; [|reflexivity]. exfalso. apply Hnx.
      first [exact (proj2 (ln_down _ _ _ _ _ _ _ _ _ X Ed0))|exact (proj2 (ln_down _ _ _ _ _ _ _ _ _ X eq_refl))]. }
    split; [exact Hlive|]. split; [exact Hnx|]. split; [exact Hr|]. split; [exact Hsf|]. split; [exact Hdf|].
    split.
    - destruct (ln_ready _ _ _ _ _ _ _ _ _ X Hna Hnb Hnx) as [[]|[Hin|Hs1]]; [exact Hin|congruence].
    - pose proof (ln_book _ _ _ _ _ _ _ _ _ X) as Bk. unfold rhsN in Bk. cbn [completes flat_map length] in Bk.
      unfold owedE in Bk. rewrite Er0 in Bk. cbn [item_inds] in Bk. rewrite app_nil_r in Bk. lia. }
  destruct (d_active (y_d s)) as [|a ar] eqn:Eact; [contradiction|].
  assert (Hacta : In a (a :: ar)) by (left; reflexivity).
  destruct (ACT a Hacta) as (wa & fa & Ewa & Efa & Hla & Hnxa & Hra & Hsfa & Hdfa & Hina & Hbka).
  assert (Hcase : d_shuttingdown (y_d s) = true \/ d_shuttingdown (y_d s) = false)
    by (destruct (d_shuttingdown (y_d s)); auto).
  destruct Hcase as [Esd|Esd].
  - destruct (Gsd Esd a Hina) as (f' & Ef' & Hs'). rewrite Efa in Ef'. inv Ef'.
    unfold shutting_down in Hs'. rewrite Hsfa, Hdfa in Hs'. discriminate.
  - assert (Hss : d_shouldstop (y_d s) = false).
    { destruct (d_shouldstop (y_d s)) eqn:E1; [|reflexivity]. rewrite (Gss E1) in Esd. discriminate. }
    (* every active node has its collection recorded *)
    assert (AC : forall n, In n (a :: ar) -> In n (akeys (e_n2c es))).
    { intros n Hn. destruct (ACT n Hn) as (w & f & Ew0 & Ef & Hl & Hnx & Hr & Hsf & Hdf & Hin & _).
      pose proof (Gact n Hn) as HnG.
      pose proof (Glive n w f Hl Ew0 Ef) as X. rewrite (SG n HnG) in X.
      destruct (ln_cf _ _ _ _ _ _ _ _ _ X Esd Hn Hr Hnx) as [[]|[Y|Y]]; [exact Y|congruence]. }
    pose proof (Gtf Esd) as Htf. unfold e_tests_finished in Htf.
    destruct (e_completed es) eqn:Ec.
    + cbn [andb] in Htf.
      assert (Hcase : e_removed es = [] \/ exists d rest rm, e_removed es = (d, rest) :: rm).
      { destruct (e_removed es) as [|[d rest] rm]; [left; reflexivity|right; eauto]. }
      destruct Hcase as [Erm|(d & rest & rm & Erm)].
      * (* somebody holds >= 2 tests *)
        rewrite Erm in Htf. cbn [andb] in Htf. destruct (forallb_false_ex _ _ Htf) as ([k b] & Hin & Hf). cbn [snd] in Hf.
        apply Nat.ltb_ge in Hf.
        assert (Hk : In k (e_nodes es)).
        { unfold e_nodes, akeys. change k with (fst (k, b)). apply in_map. exact Hin. }
        pose proof (Gb Esd Hss k Hk) as Hka.
        destruct (ACT k Hka) as (_ & _ & _ & _ & _ & _ & _ & _ & _ & _ & Hbk).
        unfold bkE, alist_get in Hbk. rewrite (ea_in_aget _ _ _ Gnnd Hin) in Hbk. lia.
      * (* a remainder waits for a replacement: one is active and has not reported its collection *)
        assert (Hrin : In (d, rest) (e_removed es)) by (rewrite Erm; left; reflexivity).
        destruct (Grem d rest Hrin) as (_ & HdG & _).
        destruct (aget d (e_nt es)) as [fd|] eqn:Efd; [|exfalso; apply (proj2 (Gnt d) HdG); exact Efd].
        set (sg := n_spec fd).
        assert (HR : 1 <= sumf (indR es sg) (seq 0 gw)).
        { assert (X : indR es sg d = 1).
          { unfold indR, specb. rewrite Efd. unfold sg. rewrite Nat.eqb_refl.
            rewrite (in_ahas d (e_removed es)); [reflexivity|].
            rewrite Erm. left. reflexivity. }
          rewrite <- X. apply sumf_in_ge. apply in_seq. lia. }
        pose proof (Ginh Esd sg) as Hle. fold gw in Hle.
        destruct (sumf_pos_ex _ _ (Nat.le_trans _ _ _ HR Hle)) as (r & _ & Hr1).
        unfold indP in Hr1.
        destruct (mem_nat r (a :: ar)) eqn:E1; cbn [andb] in Hr1; [|lia].
        destruct (ahas r (e_n2c es)) eqn:E2; cbn [andb negb] in Hr1; [lia|].
        apply mem_nat_In in E1. apply (ahas_false_notin _ _ E2). apply AC. exact E1.
    + destruct (Gnc eq_refl) as (Hlen & _).
      pose proof (Gcnt Esd eq_refl) as Hn. cbn [length] in Hn.
      assert (Hinc : incl (a :: ar) (akeys (e_n2c es))) by (intros n Hn'; apply AC; exact Hn').
      pose proof (NoDup_incl_length Gand Hinc) as Hl. cbn [length] in Hl. rewrite ea_keys_length in Hl. lia.
Qed.

(* in every state satisfying the invariant in which the session has not ended, a useful move exists *)
Theorem progressX s : XPI s -> y_result s = None -> exists l, Good_label c s l.
Proof.
  intros (es & G) Hres.
  assert (CTL : d_active (y_d s) = [] \/ y_evq s <> [] -> Good_label c s LCtl).
  { intros H. split; [exact Logic.I|]. split; [reflexivity|].
    unfold sys_step. rewrite Hres.
    destruct (d_active (y_d s)) as [|a ar].
    - destruct (d_no_active (y_d s)) as [[d' outs] r]. discriminate.
    - destruct H as [H|H]; [discriminate|]. destruct (y_evq s) as [|ev q]; [congruence|].
      destruct (d_loop_once ev (y_d s)) as [[d' outs] r]. destruct r; [|discriminate].
      destruct (d_session_finished d'); [discriminate|].
      destruct (d_active d'); [|discriminate].
      destruct (d_no_active d') as [[d2 outs2] r2]. discriminate. }
  destruct (y_evq s) as [|ev q] eqn:Eevq; [|exists LCtl; apply CTL; right; discriminate].
  destruct (d_active (y_d s)) as [|a ar] eqn:Eact; [exists LCtl; apply CTL; left; reflexivity|].
  destruct (xfind_label s (seq 0 (d_next_gw (y_d s)))) as [l|] eqn:Ef.
  - destruct (xfind_label_some _ _ _ Ef) as (n & Hn). exists l. eapply xnode_label_ok; eauto.
  - exfalso. apply (quiescent_falseX s es G Hres Eevq); [rewrite Eact; discriminate|].
    intros n Hn. apply (xfind_label_none _ _ Ef). apply in_seq. lia.
Qed.

End CrashSys.

(* ====================================================================================== *)
(* D. steps of the workers, the wires and the controller's receiver thread                 *)
(* ====================================================================================== *)
Section CrashStep.
Variable c : config.
Notation N := (c_numnodes c).
Notation K := (K0 c).
Hypothesis SAME : forall n, c_coll c n = coll0 c.
Hypothesis COH : forall n, ncollected (c_oracle c n) = K.
Hypothesis Hng : no_garbled c.
Hypothesis Hnoempty : ~ In ""%string (coll0 c).

Lemma cinds0_items dn : flat_map (cinds0 K) dn = item_inds (flat_map (citems K) dn).
Proof. induction dn as [|cm dn IH]; [reflexivity|]. cbn [flat_map]. rewrite item_inds_app, <- IH. reflexivity. Qed.

(* ---- D.1 one live node, worker side ---- *)
Lemma LNI_deliver es act (gd : Prop) n f L Lup cm rest w :
  LNI c es act gd n f L Lup (cm :: rest) w -> LNI c es act gd n f L Lup rest (deliver w cm).
Proof.
  intros [(Iw & NG) Wx Cb Ch (G1 & G2) Op Mk Rd Cf Fn Bk Fr Dn Fm St Nc Nd Ac].
  destruct (deliver_each K w cm) as (Er & Ep & Epop & Erep & _ & Einb).
  inversion G2 as [|c' r' Gc Gr]; subst.
  assert (Erhs : rhsN K L (deliver w cm) rest = rhsN K L w (cm :: rest)).
  { unfold rhsN, owedE. rewrite Er, item_inds_app, (owed_main_ext w _ Ep Epop). cbn [flat_map]. unfold cinds0 at 2.
    rewrite !app_length. lia. }
  constructor; rewrite ?Ep.
  - split; [apply upd_recv_inv; exact Iw|]. apply (nogarb_ph _ w); [exact Ep|exact NG].
  - destruct Wx as (X1 & X2). split; [rewrite Erep; exact X1|rewrite Ep; exact X2].
  - apply CB_deliver. exact Cb.
  - exact Ch.
  - split; [|exact Gr]. rewrite Einb. apply Forall_app. split; [exact G1|constructor; [exact Gc|constructor]].
  - exact Op.
  - unfold wstr in *. rewrite Epop, Er, <- !app_assoc. cbn [flat_map] in Mk. rewrite <- !app_assoc in Mk. exact Mk.
  - exact Rd.
  - exact Cf.
  - exact Fn.
  - rewrite Erhs. exact Bk.
  - rewrite Erhs. exact Fr.
  - exact Dn.
  - unfold markpopped in *. rewrite Epop. exact Fm.
  - exact St.
  - exact Nc.
  - exact Nd.
  - exact Ac.
Qed.

Lemma LNI_recv es act (gd : Prop) n f L Lup dn w :
  LNI c es act gd n f L Lup dn w ->
  snd (recv_step (c_oracle c n) w) = [] /\ LNI c es act gd n f L Lup dn (fst (recv_step (c_oracle c n) w)).
Proof.
  intros [(Iw & NG) (X1 & X2) Cb Ch (G1 & G2) Op Mk Rd Cf Fn Bk Fr Dn Fm St Nc Nd Ac].
  destruct (recv_step_x (c_oracle c n) w G1 X1) as (Ev & Er & Ep & Epop & Erep & _ & Ginb). rewrite COH in Er.
  split; [exact Ev|].
  assert (Erhs : rhsN K L (fst (recv_step (c_oracle c n) w)) dn = rhsN K L w dn).
  { unfold rhsN, owedE. rewrite Er, (owed_main_ext w _ Ep Epop). reflexivity. }
  destruct (recv_step (c_oracle c n) w) as [w' evs] eqn:Es. cbn [fst snd] in *.
  constructor; rewrite ?Ep.
  - split; [pose proof (recv_step_inv (c_oracle c n) w Iw) as Y; rewrite Es in Y; exact Y|].
    destruct (recv_step_nogarb _ _ _ _ Es NG) as (Y & _). exact Y.
  - split; [exact Erep|rewrite Ep; exact X2].
  - pose proof (CB_recv (c_oracle c n) w Cb) as Y. rewrite Es in Y. exact Y.
  - exact Ch.
  - split; [exact Ginb|exact G2].
  - exact Op.
  - unfold wstr in *. rewrite Epop, Er. exact Mk.
  - exact Rd.
  - exact Cf.
  - exact Fn.
  - rewrite Erhs. exact Bk.
  - rewrite Erhs. exact Fr.
  - exact Dn.
  - unfold markpopped in *. rewrite Epop. exact Fm.
  - exact St.
  - exact Nc.
  - exact Nd.
  - exact Ac.
Qed.

Lemma LNI_main es act (gd : Prop) n f L Lup dn w w' evs :
  LNI c es act gd n f L Lup dn w -> main_step (c_oracle c n) w = Some (w', evs) ->
  LNI c es act gd n f (L ++ flat_map we_sig evs) (Lup ++ flat_map we_sig evs) dn w' /\
  Forall ok_wev evs /\ Forall (fun e => is_garbled e = false) evs.
Proof.
  intros [(Iw & NG) Wx Cb Ch (G1 & G2) Op Mk Rd Cf Fn Bk Fr Dn Fm St Nc Nd Ac] H.
  destruct (main_step_frame_e K _ _ _ _ H) as (Erp & Einb & Erep & Estr).
  pose proof (main_step_owedE K _ _ _ _ Iw Wx H) as Eow.
  destruct (main_step_rank _ _ _ _ Wx H) as (Hok & Hrank).
  pose proof (main_step_not_exited _ _ _ _ H) as Hne.
  destruct (main_step_nogarb _ _ _ _ (Hng n) H NG) as (NGw & NGe).
  destruct (main_step_boot _ _ _ _ Wx H) as (Bt1 & Bt2 & Bt3).
  split; [|split; [exact Hok|exact NGe]].
  assert (Hmono : prank (wph w) <= prank (wph w')) by (destruct Hrank as [(_ & X)|(g & _ & _ & _ & X)]; exact X).
  assert (Hold : forall g, In g L -> srank g < 3).
  { intros g Hg. pose proof (chan_ok_in _ _ _ Ch Hg) as Hp.
    destruct (Nat.lt_ge_cases (srank g) 3) as [X|X]; [exact X|]. exfalso.
    pose proof (srank_le3 g). unfold prec in Hp. assert (Hp4 : 4 <= prank (wph w)) by lia.
    apply prank_4 in Hp4. contradiction. }
  assert (Hnew : forall g, In g (flat_map we_sig evs) -> srank g = prank (wph w)).
  { intros g Hg. destruct Hrank as [(E0 & _)|(g0 & E0 & Eg & _)]; rewrite E0 in Hg; [destruct Hg|].
    destruct Hg as [<-|[]]. exact Eg. }
  assert (Erhs : rhsN K (L ++ flat_map we_sig evs) w' dn = rhsN K L w dn).
  { unfold rhsN. rewrite completes_app, Eow, !app_length. lia. }
  constructor.
  - split; [eapply main_step_inv; eauto|exact NGw].
  - eapply main_step_WX; eauto.
  - eapply CB_main; eauto.
  - destruct Hrank as [(-> & X)|(g & -> & Eg & Hp & X)].
    + rewrite app_nil_r. eapply chan_ok_mono; eauto.
    + eapply chan_ok_snoc; eauto. rewrite <- Eg. exact Hp.
  - rewrite Einb. split; assumption.
  - exact Op.
  - rewrite Estr. exact Mk.
  - intros Hact _ _. destruct (phase_eq_dec_boot (wph w)) as [Eb|Eb].
    + left. apply in_or_app. right. apply Bt1. exact Eb.
    + destruct (Rd Hact Eb Hne) as [X1|X1]; [left; apply in_or_app; left; exact X1|right; exact X1].
  - intros Hsd Hact Hr _. destruct (main_step_cf _ _ _ _ H Hr) as [Hr0|Hin].
    + destruct (Cf Hsd Hact Hr0 Hne) as [X1|X1]; [left; apply in_or_app; left; exact X1|right; exact X1].
    + left. apply in_or_app. right. exact Hin.
  - intros Hex _. destruct (main_step_exit _ _ _ _ H Hex) as (b & Hb). exists b. apply in_or_app. right. exact Hb.
  - rewrite Erhs. exact Bk.
  - rewrite Erhs. exact Fr.
  - intros Hd. exfalso. apply Hne. exact (proj2 (Dn Hd)).
  - intros [Hi|Hp].
    + apply in_app_or in Hi. destruct Hi as [Hi|Hi].
      * specialize (Hold _ Hi). cbn in Hold. lia.
      * pose proof (main_step_emits_fin _ _ _ _ _ Wx H Hi) as Ep.
        unfold markpopped in *. rewrite (main_step_in_fin _ _ _ _ _ H Ep). apply Fm. right. exact Ep.
    + eapply main_step_enter_fin; eauto. intros E.
      rewrite (main_step_from_fin _ _ _ _ _ H E) in Hp. discriminate.
  - intros Hin. destruct (St Hin) as (A & B). split; [|lia].
    intros Hi. apply in_app_or in Hi. destruct Hi as [Hi|Hi]; [exact (A Hi)|].
    apply Hnew in Hi. cbn in Hi. lia.
  - intros Hin. destruct (Nc Hin) as (A & B). split; [|lia].
    intros Hi. apply in_app_or in Hi. destruct Hi as [Hi|Hi]; [exact (A Hi)|].
    apply Hnew in Hi. cbn in Hi. lia.
  - intros Hin. destruct (Nd Hin) as (Nr & Nb). split.
    + intros Hi. apply in_app_or in Hi. destruct Hi as [Hi|Hi]; [exact (Nr Hi)|].
      apply Hnew in Hi. cbn in Hi. symmetry in Hi. apply prank_0 in Hi. contradiction.
    + exact Bt3.
  - intros Hn. destruct (Ac Hn) as (_ & E). contradiction.
Qed.

(* ---- D.2 a step that only touches the worker and the wires of one live node ---- *)
Lemma up_ok_of_wevents n evs :
  Forall ok_wev evs -> Forall (fun e => is_garbled e = false) evs ->
  Forall (ok_upX c) (map (up_of_wevent c n) evs).
Proof.
  intros H1 H2. apply Forall_forall. intros m Hm. apply in_map_iff in Hm. destruct Hm as (e & <- & He).
  rewrite Forall_forall in H1, H2. specialize (H1 e He). specialize (H2 e He).
  destruct e as [| | | | |i k oc| | | |]; cbn in *; auto; try (apply SAME). destruct oc; cbn in *; auto. discriminate.
Qed.

Lemma no_end_of_wevents n evs : ~ In UEnd (map (up_of_wevent c n) evs).
Proof.
  intros H. apply in_map_iff in H. destruct H as (e & E & _). destruct e; try discriminate. destruct oc; discriminate.
Qed.

Lemma gci_node_step gd pss s s' es n0 w' dn' ms :
  GCI c gd pss s es -> ~ In n0 (y_dead s) -> aget n0 (y_w s) <> None ->
  y_d s' = y_d s -> y_evq s' = y_evq s -> y_dead s' = y_dead s ->
  (forall n, aget n (y_w s') = if Nat.eqb n n0 then Some w' else aget n (y_w s)) ->
  (forall n, alist_get [] n (y_up s') =
             if Nat.eqb n n0 then alist_get [] n0 (y_up s) ++ ms else alist_get [] n (y_up s)) ->
  (forall n, alist_get [] n (y_down s') = if Nat.eqb n n0 then dn' else alist_get [] n (y_down s)) ->
  Forall (ok_upX c) ms -> ~ In UEnd ms ->
  (forall f, aget n0 (e_nt es) = Some f ->
     LNI c es (d_active (y_d s)) gd n0 f (sigs s n0 ++ flat_map up_sig ms)
         (flat_map up_sig (alist_get [] n0 (y_up s)) ++ flat_map up_sig ms) dn' w') ->
  GCI c gd pss s' es.
Proof.
  intros G Hlive Hw0 Ed Eq Edd Ew Eu Edn Hms Hnoend HL.
  pose proof G as [Els Gnt Gwk Gact Gand Gdead Gnodes Gnnd Gn2c Gn2cnd Gst Gnum Gnc Grem
    Gremnd Gbkst Gb Gss Gp Gtf Gsd Gcnt Gwhy Ginh Gdown Gend Guend Gerrd Gfinl Gq Ggone Gevq Gup Gdn Glive].
  assert (Hn0 : n0 < d_next_gw (y_d s)) by (apply Gwk; exact Hw0).
  assert (Sg : forall n, sigs s' n = if Nat.eqb n n0 then sigs s n0 ++ flat_map up_sig ms else sigs s n).
  { intros n. unfold sigs. rewrite Eq, Eu. destruct (Nat.eqb n n0) eqn:E; [|reflexivity].
    apply Nat.eqb_eq in E. subst n. rewrite flat_map_app, app_assoc. reflexivity. }
  constructor; rewrite ?Ed, ?Eq, ?Edd; auto.
  - intros n. rewrite Ew. destruct (Nat.eqb n n0) eqn:E; [|apply Gwk].
    apply Nat.eqb_eq in E. subst n. split; [auto|discriminate].
  - intros n f Hd Ef Hdn. rewrite Eu. destruct (Nat.eqb n n0) eqn:E; [|eapply Gend; eauto].
    apply Nat.eqb_eq in E. subst n. contradiction.
  - intros n. rewrite Eu. destruct (Nat.eqb n n0) eqn:E; [|apply Guend].
    apply Nat.eqb_eq in E. subst n. intros Hin. apply in_app_or in Hin. destruct Hin as [Hin|Hin]; [apply Guend; exact Hin|contradiction].
  - intros k b Hk. rewrite Sg. destruct (Nat.eqb k n0) eqn:E; [|apply Gfinl; exact Hk].
    apply Nat.eqb_eq in E. subst k. contradiction.
  - intros n. rewrite Eu. destruct (Nat.eqb n n0) eqn:E; [|apply Gup].
    apply Nat.eqb_eq in E. subst n. split; [apply Forall_app; split; [apply Gup|exact Hms]|intros; lia].
  - intros n Hn. rewrite Edn. destruct (Nat.eqb n n0) eqn:E; [|apply Gdn; exact Hn].
    apply Nat.eqb_eq in E. subst n. lia.
  - intros n w f Hl Hw Ef. rewrite Sg, Eu, Edn. rewrite Ew in Hw. destruct (Nat.eqb n n0) eqn:E.
    + apply Nat.eqb_eq in E. subst n. inv Hw. rewrite flat_map_app. apply HL. exact Ef.
    + apply Glive; assumption.
Qed.

Lemma alist_get_aset_if {V} (dflt : V) n k v m :
  alist_get dflt n (aset k v m) = if Nat.eqb n k then v else alist_get dflt n m.
Proof.
  destruct (Nat.eqb n k) eqn:E.
  - apply Nat.eqb_eq in E. subst n. apply ea_alist_get_set_eq.
  - apply Nat.eqb_neq in E. apply ea_alist_get_set_neq. exact E.
Qed.

Lemma alist_get_same_if {V} (dflt : V) n k m :
  alist_get dflt n m = if Nat.eqb n k then alist_get dflt k m else alist_get dflt n m.
Proof. destruct (Nat.eqb n k) eqn:E; [apply Nat.eqb_eq in E; subst; reflexivity|reflexivity]. Qed.

Lemma step_xpi_deliver s n0 s' o w :
  XPI c s -> sys_step c s (LDeliver n0) = Some (s', o, w) -> XPI c s'.
Proof.
  intros (es & G) H. unfold sys_step in H. destruct (y_result s) eqn:Eres; [discriminate|].
  destruct (mem_nat n0 (y_dead s)) eqn:Hd; [discriminate|]. apply mem_nat_false in Hd.
  destruct (aget n0 (y_down s)) as [[|cmd rest]|] eqn:Edw0; try discriminate.
  destruct (aget n0 (y_w s)) as [w0|] eqn:Ew0; try discriminate.
  fin3 H s' o w. exists es.
  apply (gci_node_step (gdF s) (pssF s) s _ es n0 (deliver w0 cmd) rest []); auto; cbn [y_d y_evq y_dead y_w y_up y_down].
  - congruence.
  - intros n. apply ea_get_set.
  - intros n. rewrite app_nil_r. apply alist_get_same_if.
  - intros n. apply alist_get_aset_if.
  - intros f Ef. cbn [flat_map]. rewrite !app_nil_r. apply LNI_deliver.
    pose proof (g_live _ _ _ _ _ G n0 w0 f Hd Ew0 Ef) as X. rewrite (ea_alist_get_some [] _ _ _ Edw0) in X. exact X.
Qed.

Lemma step_xpi_recvw s n0 s' o w :
  XPI c s -> sys_step c s (LRecvW n0) = Some (s', o, w) -> XPI c s'.
Proof.
  intros (es & G) H. unfold sys_step in H. destruct (y_result s) eqn:Eres; [discriminate|].
  destruct (mem_nat n0 (y_dead s)) eqn:Hd; [discriminate|]. apply mem_nat_false in Hd.
  destruct (aget n0 (y_w s)) as [w0|] eqn:Ew0; try discriminate.
  destruct (negb (wcb w0)); [discriminate|].
  destruct (recv_step (c_oracle c n0) w0) as [w' evs] eqn:Es. fin3 H s' o w. exists es.
  assert (Hn0 : n0 < d_next_gw (y_d s)) by (apply (g_wk _ _ _ _ _ G); congruence).
  destruct (aget n0 (e_nt es)) as [f|] eqn:Ef; [|exfalso; apply (proj2 (g_ntk _ _ _ _ _ G n0) Hn0); exact Ef].
  destruct (LNI_recv _ _ _ _ _ _ _ _ _ (g_live _ _ _ _ _ G n0 w0 f Hd Ew0 Ef)) as (Ev & X).
  rewrite Es in Ev, X. cbn [fst snd] in Ev, X. subst evs.
  apply (gci_node_step (gdF s) (pssF s) s _ es n0 w' (alist_get [] n0 (y_down s)) []); auto;
    cbn [push_up set_w map y_d y_evq y_dead y_w y_up y_down].
  - congruence.
  - intros n. apply ea_get_set.
  - intros n. apply alist_get_aset_if.
  - intros n. apply alist_get_same_if.
  - intros f' Ef'. assert (f' = f) by congruence. subst f'. cbn [flat_map]. rewrite !app_nil_r. exact X.
Qed.

Lemma step_xpi_main s n0 w0 w' evs :
  XPI c s -> y_result s = None -> ~ In n0 (y_dead s) -> aget n0 (y_w s) = Some w0 ->
  main_step (c_oracle c n0) w0 = Some (w', evs) ->
  XPI c (push_up (set_w s n0 w') n0 (map (up_of_wevent c n0) evs)).
Proof.
  intros (es & G) Eres Hd Ew0 Es. exists es.
  assert (Hn0 : n0 < d_next_gw (y_d s)) by (apply (g_wk _ _ _ _ _ G); congruence).
  destruct (aget n0 (e_nt es)) as [f|] eqn:Ef; [|exfalso; apply (proj2 (g_ntk _ _ _ _ _ G n0) Hn0); exact Ef].
  destruct (LNI_main _ _ _ _ _ _ _ _ _ _ _ (g_live _ _ _ _ _ G n0 w0 f Hd Ew0 Ef) Es) as (X & Hok & Hng').
  apply (gci_node_step (gdF s) (pssF s) s _ es n0 w' (alist_get [] n0 (y_down s)) (map (up_of_wevent c n0) evs)); auto;
    cbn [push_up set_w y_d y_evq y_dead y_w y_up y_down].
  - congruence.
  - intros n. apply ea_get_set.
  - intros n. apply alist_get_aset_if.
  - intros n. apply alist_get_same_if.
  - apply up_ok_of_wevents; assumption.
  - apply no_end_of_wevents.
  - intros f' Ef'. assert (f' = f) by congruence. subst f'. rewrite up_sigs_of_wevents. exact X.
Qed.

(* ---- D.3 changes of the node table that leave spec and shutdown-sent alone ---- *)
Definition ntsame (es es' : estate) : Prop :=
  ekeep es es' /\
  forall k, match aget k (e_nt es), aget k (e_nt es') with
            | Some f, Some f' => n_spec f' = n_spec f /\ n_sdsent f' = n_sdsent f /\ (n_down f = true -> n_down f' = true)
            | None, None => True
            | _, _ => False
            end.

Lemma ntsame_refl es : ntsame es es.
Proof. split; [unfold ekeep; auto 10|]. intros k. destruct (aget k (e_nt es)); auto. Qed.

Lemma ntsame_set es n f f' :
  aget n (e_nt es) = Some f -> n_spec f' = n_spec f -> n_sdsent f' = n_sdsent f -> (n_down f = true -> n_down f' = true) ->
  ntsame es (e_set_nt es (aset n f' (e_nt es))).
Proof.
  intros Ef A B C. split; [unfold ekeep; cbn; auto 10|]. intros k. cbn [e_set_nt e_nt]. rewrite ea_get_set.
  destruct (Nat.eqb k n) eqn:E.
  - apply Nat.eqb_eq in E. subst k. rewrite Ef. auto.
  - destruct (aget k (e_nt es)); auto.
Qed.

Lemma ntsame_facts es es' :
  ntsame es es' ->
  e_nodes es' = e_nodes es /\ (forall n, bkE es' n = bkE es n) /\
  (forall sg n, specb es' sg n = specb es sg n) /\ (forall n, sdb es' n = sdb es n) /\
  e_tests_finished es' = e_tests_finished es /\
  (forall m, sd_in (e_nt es) m -> sd_in (e_nt es') m) /\
  (forall n, aget n (e_nt es') <> None <-> aget n (e_nt es) <> None).
Proof.
  intros ((K1 & K2 & K3 & K4 & K5 & K6) & F).
  split; [unfold e_nodes; rewrite K1; reflexivity|].
  split; [intros n; unfold bkE; rewrite K1; reflexivity|].
  split.
  { intros sg n. unfold specb. specialize (F n). destruct (aget n (e_nt es)) as [f|], (aget n (e_nt es')) as [f'|]; try tauto;
      try (destruct F as (A & _); rewrite A; reflexivity). }
  split.
  { intros n. unfold sdb. specialize (F n). destruct (aget n (e_nt es)) as [f|], (aget n (e_nt es')) as [f'|]; try tauto;
      try (destruct F as (_ & A & _); exact A). }
  split; [unfold e_tests_finished; rewrite K1, K4, K5; reflexivity|].
  split.
  { intros m (f & Ef & Hs). specialize (F m). rewrite Ef in F. destruct (aget m (e_nt es')) as [f'|] eqn:Ef'; [|destruct F].
    destruct F as (_ & A & B). exists f'. split; [exact Ef'|]. unfold shutting_down in *. rewrite A.
    destruct (n_down f); [rewrite (B eq_refl); reflexivity|]. cbn [orb] in Hs. rewrite Hs. apply orb_true_r. }
  intros n. specialize (F n). destruct (aget n (e_nt es)) as [f|], (aget n (e_nt es')) as [f'|]; try tauto;
    split; intros; discriminate.
Qed.

Lemma ntsame_ind es es' act : ntsame es es' ->
  (forall sg n, indR es' sg n = indR es sg n) /\ (forall sg n, indP act es' sg n = indP act es sg n).
Proof.
  intros H. destruct (ntsame_facts _ _ H) as (_ & _ & S1 & S2 & _).
  destruct H as ((K1 & K2 & K3 & K4 & K5 & K6) & _).
  split; intros sg n; unfold indR, indP; rewrite ?K2, ?K4, ?S1, ?S2; reflexivity.
Qed.

Lemma LNI_flags es es' act (gd : Prop) n f f' L Lup Lup' dn w :
  ntsame es es' -> n_sdsent f' = n_sdsent f -> n_closed f' = n_closed f ->
  (n_down f' = true -> Lup' = [] /\ wph w = PExited) ->
  LNI c es act gd n f L Lup dn w -> LNI c es' act gd n f' L Lup' dn w.
Proof.
  intros NS Es Ec Hd [A1 A2 A3 A4 A5 A6 A7 A8 A9 A10 A11 A12 A13 A14 A15 A16 A17 A18].
  destruct (ntsame_facts _ _ NS) as (En & Eb & _). destruct NS as ((K1 & K2 & K3 & K4 & K5 & K6) & _).
  constructor; rewrite ?En, ?Eb, ?K2, ?K3, ?Es, ?Ec; auto.
Qed.

Lemma ntsame_downb es es' n : ntsame es es' -> downb es n = true -> downb es' n = true.
Proof.
  intros (_ & F) H. unfold downb in *. specialize (F n).
  destruct (aget n (e_nt es)) as [f|]; [|discriminate]. destruct (aget n (e_nt es')) as [f'|]; [|destruct F].
  destruct F as (_ & _ & X). apply X. exact H.
Qed.

Lemma finlast_mono es es' q : (forall n, downb es n = true -> downb es' n = true) -> finlast es q -> finlast es' q.
Proof.
  intros Hd. induction q as [|ev r IH]; [auto|]. cbn [finlast]. intros (A & B). split; [|apply IH; exact B].
  intros n Hn. destruct (A n Hn) as (X & Y). split; [exact X|apply Hd; exact Y].
Qed.

Lemma finlast_snoc es q e :
  finlast es q -> (forall ev n, In ev q -> is_fin_ev n ev = true -> node_of e <> Some n) ->
  (forall n, is_fin_ev n e = true -> downb es n = true) -> finlast es (q ++ [e]).
Proof.
  induction q as [|ev r IH]; intros F H1 H2.
  - cbn. split; [|exact Logic.I]. intros n Hn. split; [intros ev' []|apply H2; exact Hn].
  - cbn [app finlast] in *. destruct F as (A & B). split.
    + intros n Hn. destruct (A n Hn) as (X & Y). split; [|exact Y].
      intros ev' Hin. apply in_app_or in Hin. destruct Hin as [Hin|[<-|[]]]; [apply X; exact Hin|].
      apply (H1 ev n); [left; reflexivity|exact Hn].
    + apply IH; [exact B| |exact H2]. intros ev0 n Hin. apply H1. right. exact Hin.
Qed.

(* the part of the invariant that only looks at the controller state *)
Lemma gci_flags gd pss s s' es es' :
  GCI c gd pss s es -> ntsame es es' -> d_sched (y_d s') = StE es' ->
  d_shuttingdown (y_d s') = d_shuttingdown (y_d s) -> d_shouldstop (y_d s') = d_shouldstop (y_d s) ->
  d_active (y_d s') = d_active (y_d s) -> d_next_gw (y_d s') = d_next_gw (y_d s) ->
  d_failed_nodes (y_d s') = d_failed_nodes (y_d s) -> d_max_restart (y_d s') = d_max_restart (y_d s) ->
  (forall n, aget n (y_w s') <> None <-> aget n (y_w s) <> None) ->
  (forall n, In n (y_dead s') -> n < d_next_gw (y_d s)) ->
  (forall n f, aget n (e_nt es') = Some f -> n_down f = true -> In n (d_active (y_d s)) ->
           exists ev, In ev (y_evq s') /\ is_fin_ev n ev = true) ->
  (forall n f, In n (y_dead s') -> aget n (e_nt es') = Some f -> n_down f = false ->
          In UEnd (alist_get [] n (y_up s'))) ->
  (forall n, In UEnd (alist_get [] n (y_up s')) -> In n (y_dead s')) ->
  (forall k, In (QErrorDown k) (y_evq s') -> In k (y_dead s')) ->
  (forall k b, In k (y_dead s') -> ~ In (SgFin b) (sigs s' k)) ->
  finlast es' (y_evq s') ->
  (forall n, n < d_next_gw (y_d s) -> ~ In n (d_active (y_d s)) ->
           (forall ev, In ev (y_evq s') -> node_of ev <> Some n) /\ downb es' n = true) ->
  Forall (ok_evX c (d_next_gw (y_d s))) (y_evq s') ->
  (forall n, Forall (ok_upX c) (alist_get [] n (y_up s')) /\
             (d_next_gw (y_d s) <= n -> alist_get [] n (y_up s') = [])) ->
  (forall n, d_next_gw (y_d s) <= n -> alist_get [] n (y_down s') = []) ->
  (forall n w f, ~ In n (y_dead s') -> aget n (y_w s') = Some w -> aget n (e_nt es') = Some f ->
           LNI c es' (d_active (y_d s)) gd n f (sigs s' n)
               (flat_map up_sig (alist_get [] n (y_up s'))) (alist_get [] n (y_down s')) w) ->
  GCI c gd pss s' es'.
Proof.
  intros G NS Els' S1 S2 S3 S4 S5 S6 Hwk Hdead Hdown Hend Huend Herrd Hfinl Hq Hgone Hevq Hup Hdn Hlive.
  pose proof G as [Els Gnt Gwk Gact Gand Gdead Gnodes Gnnd Gn2c Gn2cnd Gst Gnum Gnc Grem
    Gremnd Gbkst Gb Gss Gp Gtf Gsd Gcnt Gwhy Ginh Gdown Gend Guend Gerrd Gfinl Gq Ggone Gevq Gup Gdn Glive].
  destruct (ntsame_facts _ _ NS) as (En & Eb & Sp & Sd & Etf & Sdin & Ek).
  destruct (ntsame_ind _ _ (d_active (y_d s)) NS) as (IR & IP).
  pose proof NS as ((K1 & K2 & K3 & K4 & K5 & K6) & F).
  assert (Eex : exhausted (y_d s') = exhausted (y_d s)) by (unfold exhausted; rewrite S5, S6; reflexivity).
  constructor; rewrite ?S1, ?S2, ?S3, ?S4, ?Eex, ?En, ?K2, ?K3, ?K4, ?K5, ?K6, ?Etf; auto.
  - intros n. rewrite Ek. apply Gnt.
  - intros n. rewrite Hwk. apply Gwk.
  - intros E. destruct (Gnc E) as (A & B & C0 & D). repeat split; auto. intros n. rewrite Eb. apply D.
  - intros n Hn. rewrite Eb. apply Gbkst. exact Hn.
  - intros Hs n f' Ef' Hsd. specialize (F n). rewrite Ef' in F. destruct (aget n (e_nt es)) as [f|] eqn:Ef; [|destruct F].
    destruct F as (_ & A & _). apply (Gp Hs n f Ef). congruence.
  - intros Hs sg. rewrite (sumf_ext_in _ _ _ (fun n _ => IR sg n)), (sumf_ext_in _ _ _ (fun n _ => IP sg n)). apply Ginh. exact Hs.
Qed.

(* ---- D.4 a worker dies ---- *)
Definition clf (f : nctl) : nctl :=
  {| n_spec := n_spec f; n_down := n_down f; n_sdsent := n_sdsent f; n_closed := true |}.

Lemma d_sched_set_ntE d es v : d_sched d = StE es -> d_sched (d_set_nt d v) = StE (e_set_nt es v).
Proof. intros E. unfold d_set_nt. cbn [d_sched d_set_sched]. rewrite E. reflexivity. Qed.

Lemma step_xpi_crash s n w0 :
  XPI c s -> ~ In n (y_dead s) -> aget n (y_w s) = Some w0 -> wph w0 <> PExited -> XPI c (crash_worker c s n).
Proof.
  intros (es & G) Hd Ew0 Hnex.
  pose proof G as [Els Gnt Gwk Gact Gand Gdead Gnodes Gnnd Gn2c Gn2cnd Gst Gnum Gnc Grem
    Gremnd Gbkst Gb Gss Gp Gtf Gsd Gcnt Gwhy Ginh Gdown Gend Guend Gerrd Gfinl Gq Ggone Gevq Gup Gdn Glive].
  assert (Hn : n < d_next_gw (y_d s)) by (apply Gwk; congruence).
  destruct (aget n (e_nt es)) as [f|] eqn:Ef; [|exfalso; apply (proj2 (Gnt n) Hn); exact Ef].
  set (es' := if c_strict c then e_set_nt es (aset n (clf f) (e_nt es)) else es).
  assert (NS : ntsame es es').
  { unfold es'. destruct (c_strict c); [|apply ntsame_refl]. apply (ntsame_set es n f); auto. }
  assert (Ent : d_nt (y_d s) = e_nt es) by (unfold d_nt; rewrite Els; reflexivity).
  assert (Ed' : exists d', y_d (crash_worker c s n) = d' /\ d_sched d' = StE es' /\
            d_shuttingdown d' = d_shuttingdown (y_d s) /\ d_shouldstop d' = d_shouldstop (y_d s) /\
            d_active d' = d_active (y_d s) /\ d_next_gw d' = d_next_gw (y_d s) /\
            d_failed_nodes d' = d_failed_nodes (y_d s) /\ d_max_restart d' = d_max_restart (y_d s)).
  { unfold crash_worker, es'. cbn [y_d]. rewrite Ent, Ef. destruct (c_strict c).
    - eexists. split; [reflexivity|]. split; [apply d_sched_set_ntE; exact Els|]. repeat split.
    - exists (y_d s). repeat split; auto. }
  destruct Ed' as (d' & Ed' & Els' & S1 & S2 & S3 & S4 & S5 & S6).
  assert (NT : forall k, k <> n -> aget k (e_nt es') = aget k (e_nt es)).
  { intros k Hk. unfold es'. destruct (c_strict c); [|reflexivity]. cbn [e_set_nt e_nt]. apply ea_get_set_neq. exact Hk. }
  assert (NTn : exists f', aget n (e_nt es') = Some f' /\ n_down f' = n_down f).
  { unfold es'. destruct (c_strict c); [|exists f; auto]. cbn [e_set_nt e_nt]. rewrite ea_get_set_eq. eexists. split; reflexivity. }
  exists es'.
  assert (EG : gdF (crash_worker c s n) = gdF s /\ pssF (crash_worker c s n) = pssF s).
  { unfold gdF, pssF. rewrite Ed', S1, S2. split; reflexivity. }
  destruct EG as (EG1 & EG2). rewrite EG1, EG2.
  apply (gci_flags (gdF s) (pssF s) s _ es es' G NS); rewrite ?Ed'; auto;
    unfold crash_worker; cbn [y_w y_dead y_evq y_up y_down].
  - intros k. reflexivity.
  - intros k [<-|Hk]; [exact Hn|apply Gdead; exact Hk].
  - intros k f' Ef' Hdn Hact. destruct (Nat.eq_dec k n) as [->|Hk].
    + destruct NTn as (f2 & Ef2 & Edn2). assert (f2 = f') by congruence. subst f2.
      apply (Gdown n f Ef); [congruence|exact Hact].
    + rewrite (NT k Hk) in Ef'. eapply Gdown; eauto.
  - intros k f' [<-|Hk] Ef' Hdn.
    + rewrite ea_alist_get_set_eq. apply in_or_app. right. left. reflexivity.
    + assert (Hkn : k <> n) by (intros ->; contradiction).
      rewrite ea_alist_get_set_neq by exact Hkn. rewrite (NT k Hkn) in Ef'. eapply Gend; eauto.
  - intros k. rewrite alist_get_aset_if. destruct (Nat.eqb k n) eqn:E.
    + apply Nat.eqb_eq in E. subst k. intros _. left. reflexivity.
    + intros Hin. right. apply Guend. exact Hin.
  - intros k Hk. right. apply Gerrd. exact Hk.
  - intros k b Hk. unfold sigs. cbn [y_evq y_up]. rewrite alist_get_aset_if.
    destruct (Nat.eqb k n) eqn:E.
    + apply Nat.eqb_eq in E. subst k. rewrite flat_map_app. cbn [flat_map up_sig app]. rewrite app_nil_r.
      fold (sigs s n). intros Hin.
      pose proof (ln_chan _ _ _ _ _ _ _ _ _ _ (Glive n w0 f Hd Ew0 Ef)) as Ch.
      pose proof (chan_ok_in _ _ _ Ch Hin) as Hp. unfold prec in Hp. cbn [srank] in Hp.
      apply Hnex. apply prank_4. lia.
    + destruct Hk as [<-|Hk]; [rewrite Nat.eqb_refl in E; discriminate|]. fold (sigs s k). apply Gfinl. exact Hk.
  - apply (finlast_mono es es'); [intros k; apply ntsame_downb; exact NS|exact Gq].
  - intros k Hk Hna. destruct (Ggone k Hk Hna) as (A & B). split; [exact A|apply (ntsame_downb es es'); assumption].
  - intros k. rewrite alist_get_aset_if. destruct (Nat.eqb k n) eqn:E; [|apply Gup].
    apply Nat.eqb_eq in E. subst k. split; [|intros; lia].
    apply Forall_app. split; [apply Gup|]. constructor; [exact Logic.I|constructor].
  - intros k Hk. rewrite alist_get_aset_if. destruct (Nat.eqb k n) eqn:E; [reflexivity|apply Gdn; exact Hk].
  - intros k w f' Hl Hw Ef'. assert (Hkn : k <> n) by (intros ->; apply Hl; left; reflexivity).
    assert (Hl0 : ~ In k (y_dead s)) by (intros X; apply Hl; right; exact X).
    rewrite (NT k Hkn) in Ef'.
    unfold sigs. cbn [y_evq y_up]. rewrite !ea_alist_get_set_neq by exact Hkn. fold (sigs s k).
    apply (LNI_flags es es' _ _ k f' f' _ (flat_map up_sig (alist_get [] k (y_up s)))); auto;
      try (apply Glive; assumption);
      try (intros Hdn; exact (ln_down _ _ _ _ _ _ _ _ _ _ (Glive k w f' Hl0 Hw Ef') Hdn)).
Qed.

(* ---- D.5 the controller's receiver thread ---- *)
Definition pfr_evs (n : nat) (m : upmsg) : list cevent :=
  match m with
  | UEv EReady => [QReady n]
  | UEv (ECollReport k fl) => [QCollectReport n k fl]
  | UEv (ELogStart i) => [QLogStart n i]
  | UEv (EReport i k oc) => [QReport n i k oc]
  | UEv (ELogFinish i) => [QLogFinish n i]
  | UEv (EComplete i) => [QComplete n i 0%Z]
  | UEv (EUnscheduled ixs) => [QUnscheduled n ixs]
  | UEv (EFinished s) => [QFinished n (if s then SKStop else SKNone)]
  | UEv _ => []
  | UCollFinish ids => [QCollFinish n ids]
  | UComplete i ms => [QComplete n i ms]
  | UEnd => [QErrorDown n]
  | _ => []
  end.
Definition sets_down (m : upmsg) : bool :=
  match m with UEnd | UEv (EFinished _) => true | _ => false end.

Lemma pfr_run_down n m d f :
  aget n (d_nt d) = Some f -> n_down f = true -> process_from_remote n m d = (d, [], Ok []).
Proof.
  intros Ef Hd. unfold process_from_remote, mbind, get, of_opt, ret. rewrite Ef. cbn beta iota zeta.
  rewrite Hd. destruct m as [e|ids|sk|i ms|dec| | |]; reflexivity.
Qed.

Lemma pfr_run_up n m d f :
  aget n (d_nt d) = Some f -> n_down f = false -> ok_upX c m ->
  process_from_remote n m d =
    ((if sets_down m then d_set_nt d (aset n (dflag f) (d_nt d)) else d), [], Ok (pfr_evs n m)).
Proof.
  intros Ef Hd Hm. unfold process_from_remote, mbind, get, of_opt, ret, put. rewrite Ef. cbn beta iota zeta.
  rewrite Hd. destruct m as [e|ids|sk|i ms|dec| | |]; cbn [ok_upX] in Hm; try contradiction; try reflexivity.
  destruct e; try reflexivity.
Qed.

Lemma pfr_evs_sigs n m k : ok_upX c m -> evq_sigs k (pfr_evs n m) = if Nat.eqb n k then up_sig m else [].
Proof.
  intros Hm. destruct m as [e|ids|sk|i ms|dec| | |]; cbn [ok_upX] in Hm; try contradiction;
    try (destruct e as [| | | | | | | | |sr]; cbn [ok_wev] in Hm; try contradiction; try destruct sr);
    cbn; destruct (Nat.eqb n k); reflexivity.
Qed.

Lemma pfr_evs_ok n m gw : n < gw -> ok_upX c m -> Forall (ok_evX c gw) (pfr_evs n m).
Proof.
  intros Hn Hm. destruct m as [e|ids|sk|i ms|dec| | |]; cbn [ok_upX] in Hm; try contradiction;
    try (destruct e as [| | | | | | | | |sr]; cbn [ok_wev] in Hm; try contradiction; try destruct sr);
    cbn [pfr_evs]; repeat constructor; cbn; auto.
Qed.

Lemma pfr_evs_fin n m : sets_down m = true -> exists ev, In ev (pfr_evs n m) /\ is_fin_ev n ev = true.
Proof.
  destruct m as [e|ids|sk|i ms|dec| | |]; try discriminate; [destruct e; try discriminate|]; intros _;
    eexists; (split; [left; reflexivity|]); cbn; apply Nat.eqb_refl.
Qed.

Lemma pfr_evs_errd n m k : In (QErrorDown k) (pfr_evs n m) -> m = UEnd /\ k = n.
Proof.
  destruct m as [e|ids|sk|i ms|dec| | |]; cbn; try tauto; try (intros [H|[]]; discriminate H).
  - destruct e; cbn; try tauto; intros [H|[]]; discriminate H.
  - intros [H|[]]. inv H. auto.
Qed.

Lemma pfr_evs_shape n m :
  pfr_evs n m = [] \/ exists e, pfr_evs n m = [e] /\ node_of e = Some n /\
                               (forall k, is_fin_ev k e = true -> k = n /\ sets_down m = true).
Proof.
  destruct m as [e|ids|sk|i ms|dec| | |]; cbn [pfr_evs]; try (left; reflexivity);
    try (destruct e; try (left; reflexivity));
    right; eexists; (split; [reflexivity|]); (split; [reflexivity|]); intros k0 Hk; cbn in Hk; try discriminate;
    apply Nat.eqb_eq in Hk; subst; auto.
Qed.

Lemma finlast_in es q ev n : finlast es q -> In ev q -> is_fin_ev n ev = true -> downb es n = true.
Proof.
  induction q as [|e r IH]; [intros _ []|]. cbn [finlast]. intros (A & B) [<-|Hin] Hf.
  - exact (proj2 (A n Hf)).
  - apply IH; assumption.
Qed.

Lemma step_xpi_recv s n0 s' o w :
  XPI c s -> sys_step c s (LRecv n0) = Some (s', o, w) -> XPI c s'.
Proof.
  intros (es & G) H.
  pose proof G as [Els Gnt Gwk Gact Gand Gdead Gnodes Gnnd Gn2c Gn2cnd Gst Gnum Gnc Grem
    Gremnd Gbkst Gb Gss Gp Gtf Gsd Gcnt Gwhy Ginh Gdown Gend Guend Gerrd Gfinl Gq Ggone Gevq Gup Gdn Glive].
  unfold sys_step in H. destruct (y_result s) eqn:Eres; [discriminate|].
  destruct (aget n0 (y_up s)) as [[|m rest]|] eqn:Eup; try discriminate.
  cbn [y_d] in H.
  pose proof (ea_alist_get_some [] _ _ _ Eup) as Eup'.
  destruct (Gup n0) as (Gu1 & Gu2). rewrite Eup' in Gu1, Gu2.
  inversion Gu1 as [|m2 r2 Hm Hrest]; subst.
  assert (Hn0 : n0 < d_next_gw (y_d s)).
  { destruct (Nat.lt_ge_cases n0 (d_next_gw (y_d s))) as [X|X]; [exact X|]. specialize (Gu2 X). discriminate. }
  destruct (aget n0 (e_nt es)) as [f|] eqn:Ef; [|exfalso; apply (proj2 (Gnt n0) Hn0); exact Ef].
  assert (Ent : d_nt (y_d s) = e_nt es) by (unfold d_nt; rewrite Els; reflexivity).
  (* the effect of the receiver thread: the events queued and whether the node is marked down *)
  set (dn_new := negb (n_down f) && sets_down m).
  set (evs := if n_down f then [] else pfr_evs n0 m).
  set (f1 := if dn_new then dflag f else f).
  assert (Ep : process_from_remote n0 m (y_d s) =
               ((if dn_new then d_set_nt (y_d s) (aset n0 (dflag f) (e_nt es)) else y_d s), [], Ok evs)).
  { unfold dn_new, evs. destruct (n_down f) eqn:Edn.
    - cbn [negb andb]. apply (pfr_run_down n0 m (y_d s) f); [rewrite Ent; exact Ef|exact Edn].
    - cbn [negb andb]. rewrite <- Ent. apply pfr_run_up; [rewrite Ent; exact Ef|exact Edn|exact Hm]. }
  rewrite Ep in H. cbn [apply_outs] in H. fin3 H s' o w.
  (* the final flags of n0: close_if_dead closes the channel of a dead node that is marked down *)
  set (f2 := if mem_nat n0 (y_dead s) && n_down f1 then
               {| n_spec := n_spec f1; n_down := true; n_sdsent := n_sdsent f1; n_closed := true |} else f1).
  set (es' := e_set_nt es (aset n0 f2 (e_nt es))).
  assert (Ef12 : n_spec f2 = n_spec f /\ n_sdsent f2 = n_sdsent f /\ (n_down f = true -> n_down f2 = true) /\
                 (n_down f2 = true -> n_down f = true \/ dn_new = true) /\
                 (~ In n0 (y_dead s) -> n_closed f2 = n_closed f)).
  { unfold f2, f1, dn_new.
    destruct (n_down f) eqn:E3; destruct (sets_down m) eqn:E4; destruct (mem_nat n0 (y_dead s)) eqn:E2;
      cbn [negb andb dflag n_spec n_sdsent n_down n_closed]; rewrite ?E3; cbn [negb andb dflag n_spec n_sdsent n_down n_closed];
      (split; [reflexivity|]); (split; [reflexivity|]);
      (split; [first [solve [auto]|intros Z; discriminate Z]|]);
      (split; [first [solve [auto]|intros Z; discriminate Z|intros _; left; reflexivity|intros _; right; reflexivity]|]);
      intros X; try reflexivity; exfalso; apply X; apply mem_nat_In; exact E2. }
  destruct Ef12 as (F1 & F2 & F3 & F4 & F5).
  assert (NS : ntsame es es') by (unfold es'; apply (ntsame_set es n0 f f2); auto).
  match goal with |- XPI c ?x => set (s2 := x) end.
  assert (SH : y_evq s2 = y_evq s ++ evs /\ y_up s2 = aset n0 rest (y_up s) /\ y_down s2 = y_down s /\
               y_w s2 = y_w s /\ y_dead s2 = y_dead s /\ d_sched (y_d s2) = StE es' /\
               d_shuttingdown (y_d s2) = d_shuttingdown (y_d s) /\ d_shouldstop (y_d s2) = d_shouldstop (y_d s) /\
               d_active (y_d s2) = d_active (y_d s) /\ d_next_gw (y_d s2) = d_next_gw (y_d s) /\
               d_failed_nodes (y_d s2) = d_failed_nodes (y_d s) /\ d_max_restart (y_d s2) = d_max_restart (y_d s)).
  { unfold s2, close_if_dead, es', f2, f1. cbn [set_evq set_d y_dead y_d].
    destruct dn_new eqn:E1.
    - assert (Ent' : d_nt (d_set_nt (y_d s) (aset n0 (dflag f) (e_nt es))) = aset n0 (dflag f) (e_nt es)) by apply LivenessLaws.d_nt_set.
      destruct (mem_nat n0 (y_dead s)) eqn:E2; cbn [andb].
      + rewrite Ent', ea_get_set_eq. cbn [dflag n_down n_spec n_sdsent n_closed set_d set_evq y_evq y_up y_down y_w y_dead y_d].
        repeat split; try reflexivity.
        rewrite (d_sched_set_ntE _ _ _ (d_sched_set_ntE _ _ _ Els)). cbn [e_set_nt e_nt].
        f_equal. unfold e_set_nt. cbn. f_equal.
        clear. induction (e_nt es) as [|[k v] l IH]; cbn; [rewrite Nat.eqb_refl; reflexivity|].
        destruct (Nat.eqb n0 k) eqn:E; cbn; rewrite ?E, ?Nat.eqb_refl; [reflexivity|]. rewrite IH. reflexivity.
      + cbn [set_d set_evq y_evq y_up y_down y_w y_dead y_d]. repeat split; try reflexivity.
        apply d_sched_set_ntE. exact Els.
    - assert (Esame : e_set_nt es (aset n0 f (e_nt es)) = es).
      { destruct es as [nt nn n2c n2p st rm cp]. unfold e_set_nt. cbn in *. f_equal.
        clear -Ef. induction nt as [|[k v] l IH]; cbn in *; [discriminate|].
        destruct (Nat.eqb n0 k) eqn:E; [apply Nat.eqb_eq in E; subst; inv Ef; reflexivity|]. rewrite IH by exact Ef. reflexivity. }
      destruct (mem_nat n0 (y_dead s)) eqn:E2; cbn [andb].
      + rewrite Ent, Ef. destruct (n_down f) eqn:E3.
        * cbn [set_d set_evq y_evq y_up y_down y_w y_dead y_d]. repeat split; try reflexivity.
          rewrite (d_sched_set_ntE _ _ _ Els). reflexivity.
        * cbn [set_d set_evq y_evq y_up y_down y_w y_dead y_d]. repeat split; try reflexivity.
          rewrite Esame. exact Els.
      + cbn [set_d set_evq y_evq y_up y_down y_w y_dead y_d]. repeat split; try reflexivity.
        rewrite Esame. exact Els. }
  destruct SH as (Q1 & Q2 & Q3 & Q4 & Q5 & Q6 & Q7 & Q8 & Q9 & Q10 & Q11 & Q12).
  assert (NT : forall k, k <> n0 -> aget k (e_nt es') = aget k (e_nt es)).
  { intros k Hk. unfold es'. cbn [e_set_nt e_nt]. apply ea_get_set_neq. exact Hk. }
  assert (NTn : aget n0 (e_nt es') = Some f2) by (unfold es'; cbn [e_set_nt e_nt]; apply ea_get_set_eq).
  assert (UPk : forall k, alist_get [] k (y_up s2) = if Nat.eqb k n0 then rest else alist_get [] k (y_up s)).
  { intros k. rewrite Q2. apply alist_get_aset_if. }
  exists es'.
  assert (EG : gdF s2 = gdF s /\ pssF s2 = pssF s).
  { unfold gdF, pssF. rewrite Q7, Q8. split; reflexivity. }
  destruct EG as (EG1 & EG2). rewrite EG1, EG2.
  apply (gci_flags (gdF s) (pssF s) s s2 es es' G NS); rewrite ?Q1, ?Q3, ?Q4, ?Q5; auto.
  - intros k. reflexivity.
  - intros k f' Ef' Hdn Hact. destruct (Nat.eq_dec k n0) as [->|Hk].
    + rewrite NTn in Ef'. inv Ef'. destruct (F4 Hdn) as [Hold|Hnew].
      * destruct (Gdown n0 f Ef Hold Hact) as (ev & Hin & Hf). exists ev. split; [apply in_or_app; left; exact Hin|exact Hf].
      * unfold dn_new in Hnew. apply andb_true_iff in Hnew. destruct Hnew as (Hnd & Hsd). apply negb_true_iff in Hnd.
        destruct (pfr_evs_fin n0 m Hsd) as (ev & Hin & Hf). exists ev. split; [|exact Hf].
        apply in_or_app. right. unfold evs. rewrite Hnd. exact Hin.
    + rewrite (NT k Hk) in Ef'. destruct (Gdown k f' Ef' Hdn Hact) as (ev & Hin & Hf).
      exists ev. split; [apply in_or_app; left; exact Hin|exact Hf].
  - intros k f' Hk Ef' Hdn. rewrite UPk. destruct (Nat.eqb k n0) eqn:E.
    + apply Nat.eqb_eq in E. subst k. rewrite NTn in Ef'. inv Ef'.
      assert (Hdf : n_down f = false) by (destruct (n_down f) eqn:E3; [rewrite (F3 eq_refl) in Hdn; discriminate|reflexivity]).
      pose proof (Gend n0 f Hk Ef Hdf) as X. rewrite Eup' in X. destruct X as [X|X]; [|exact X].
      exfalso. subst m. unfold f2, f1, dn_new in Hdn. rewrite Hdf in Hdn. cbn [negb andb sets_down dflag n_down] in Hdn.
      destruct (mem_nat n0 (y_dead s) && true); cbn in Hdn; discriminate.
    + apply Nat.eqb_neq in E. rewrite (NT k E) in Ef'. eapply Gend; eauto.
  - intros k. rewrite UPk. destruct (Nat.eqb k n0) eqn:E; [|apply Guend].
    apply Nat.eqb_eq in E. subst k. intros Hin. apply Guend. rewrite Eup'. right. exact Hin.
  - intros k Hk. apply in_app_or in Hk. destruct Hk as [Hk|Hk]; [apply Gerrd; exact Hk|].
    unfold evs in Hk. destruct (n_down f); [destruct Hk|].
    destruct (pfr_evs_errd _ _ _ Hk) as (-> & ->). apply Guend. rewrite Eup'. left. reflexivity.
  - intros k b Hk Hin. apply (Gfinl k b Hk). unfold sigs in *. rewrite Q1, UPk, evq_sigs_app in Hin.
    destruct (Nat.eqb k n0) eqn:E.
    + apply Nat.eqb_eq in E. subst k. rewrite Eup'. cbn [flat_map].
      apply in_app_or in Hin. destruct Hin as [Hin|Hin].
      * apply in_app_or in Hin. destruct Hin as [Hin|Hin]; [apply in_or_app; left; exact Hin|].
        apply in_or_app. right. apply in_or_app. left.
        unfold evs in Hin. destruct (n_down f); [destruct Hin|].
        rewrite (pfr_evs_sigs n0 m n0 Hm), Nat.eqb_refl in Hin. exact Hin.
      * apply in_or_app. right. apply in_or_app. right. exact Hin.
    + apply in_app_or in Hin. destruct Hin as [Hin|Hin]; [|apply in_or_app; right; exact Hin].
      apply in_app_or in Hin. destruct Hin as [Hin|Hin]; [apply in_or_app; left; exact Hin|].
      exfalso. unfold evs in Hin. destruct (n_down f); [destruct Hin|].
      rewrite (pfr_evs_sigs n0 m k Hm) in Hin. apply Nat.eqb_neq in E.
      assert (E' : Nat.eqb n0 k = false) by (apply Nat.eqb_neq; congruence). rewrite E' in Hin. destruct Hin.
  - (* the queue: a fin event stays the last event of its node *)
    assert (Hdb : forall k, downb es k = true -> downb es' k = true) by (intros k; apply ntsame_downb; exact NS).
    assert (Edb : downb es n0 = n_down f) by (unfold downb; rewrite Ef; reflexivity).
    unfold evs. destruct (n_down f) eqn:Edn; [rewrite app_nil_r; apply (finlast_mono es es' _ Hdb Gq)|].
    destruct (pfr_evs_shape n0 m) as [->|(e & -> & Hnode & Hfin)]; [rewrite app_nil_r; apply (finlast_mono es es' _ Hdb Gq)|].
    apply finlast_snoc; [apply (finlast_mono es es' _ Hdb Gq)| |].
    + intros ev k Hin Hf. rewrite Hnode. intros E. injection E as E. subst k.
      pose proof (finlast_in es _ ev n0 Gq Hin Hf) as X. rewrite Edb in X. discriminate.
    + intros k Hf. destruct (Hfin k Hf) as (-> & Hsd). unfold downb. rewrite NTn.
      unfold f2, f1, dn_new. rewrite ?Edn, Hsd. cbn [negb andb dflag n_down].
      destruct (mem_nat n0 (y_dead s) && true); reflexivity.
  - intros k Hk Hna. destruct (Ggone k Hk Hna) as (A & B). split; [|apply (ntsame_downb es es'); assumption].
    intros ev Hin. apply in_app_or in Hin. destruct Hin as [Hin|Hin]; [apply A; exact Hin|].
    unfold evs in Hin. destruct (n_down f) eqn:Edn; [destruct Hin|].
    destruct (pfr_evs_shape n0 m) as [E|(e & E & Hnode & _)]; rewrite E in Hin; [destruct Hin|].
    destruct Hin as [<-|[]]. rewrite Hnode. intros X. injection X as X. subst k.
    unfold downb in B. rewrite Ef in B. congruence.
  - apply Forall_app. split; [exact Gevq|]. unfold evs. destruct (n_down f); [constructor|].
    apply pfr_evs_ok; assumption.
  - intros k. rewrite UPk. destruct (Nat.eqb k n0) eqn:E; [|apply Gup].
    split; [exact Hrest|intros; apply Nat.eqb_eq in E; lia].
  - intros k w1 f' Hl Hw Ef'.
    assert (Esg : sigs s2 k = sigs s k /\
                  (k = n0 -> flat_map up_sig (alist_get [] n0 (y_up s)) = up_sig m ++ flat_map up_sig rest)).
    { split; [|intros ->; rewrite Eup'; reflexivity].
      unfold sigs. rewrite Q1, UPk, evq_sigs_app.
      destruct (Nat.eqb k n0) eqn:E.
      - apply Nat.eqb_eq in E. subst k. rewrite Eup'. cbn [flat_map]. unfold evs.
        destruct (n_down f) eqn:Edn.
        + cbn [evq_sigs flat_map]. rewrite app_nil_r.
          destruct (ln_down _ _ _ _ _ _ _ _ _ _ (Glive n0 w1 f Hl Hw Ef) Edn) as (X & _).
          rewrite Eup' in X. cbn [flat_map] in X. apply app_eq_nil in X. destruct X as (X1 & X2). rewrite X1. reflexivity.
        + rewrite (pfr_evs_sigs n0 m n0 Hm), Nat.eqb_refl, <- app_assoc. reflexivity.
      - unfold evs. destruct (n_down f); cbn [evq_sigs flat_map]; [rewrite app_nil_r; reflexivity|].
        rewrite (pfr_evs_sigs n0 m k Hm). apply Nat.eqb_neq in E.
        assert (E' : Nat.eqb n0 k = false) by (apply Nat.eqb_neq; congruence). rewrite E', app_nil_r. reflexivity. }
    destruct Esg as (Esg & Eupn). rewrite Esg, UPk.
    destruct (Nat.eqb k n0) eqn:E.
    + apply Nat.eqb_eq in E. subst k. rewrite NTn in Ef'. inv Ef'.
      pose proof (Glive n0 w1 f Hl Hw Ef) as X.
      apply (LNI_flags es es' _ _ n0 f f2 _ (flat_map up_sig (alist_get [] n0 (y_up s)))); auto.
      intros Hdn. destruct (F4 Hdn) as [Hold|Hnew].
      * destruct (ln_down _ _ _ _ _ _ _ _ _ _ X Hold) as (Y1 & Y2). split; [|exact Y2].
        rewrite (Eupn eq_refl) in Y1. apply app_eq_nil in Y1. tauto.
      * unfold dn_new in Hnew. apply andb_true_iff in Hnew. destruct Hnew as (_ & Hsd).
        destruct m as [e|ids|sk|i ms|dec| | |]; try discriminate.
        -- destruct e; try discriminate.
           pose proof (ln_chan _ _ _ _ _ _ _ _ _ _ X) as Ch. unfold sigs in Ch. rewrite Eup' in Ch.
           cbn [flat_map up_sig we_sig app] in Ch.
           destruct (chan_ok_fin_mid _ _ _ _ Ch) as (Y1 & Y2). split; [exact Y1|apply prank_4; exact Y2].
        -- exfalso. apply Hl. apply Guend. rewrite Eup'. left. reflexivity.
    + apply Nat.eqb_neq in E. rewrite (NT k E) in Ef'.
      pose proof (Glive k w1 f' Hl Hw Ef') as X.
      apply (LNI_flags es es' _ _ k f' f' _ (flat_map up_sig (alist_get [] k (y_up s)))); auto.
      intros Hdn. exact (ln_down _ _ _ _ _ _ _ _ _ _ X Hdn).
Qed.

(* ====================================================================================== *)
(* E. one iteration of the controller loop                                                 *)
(* ====================================================================================== *)

(* ---- E.0 applying the controller's outputs (sends to dead workers are lost, spawns) ---- *)
Lemma apply_outs_frame outs : forall s,
  y_d (apply_outs s outs) = y_d s /\ y_evq (apply_outs s outs) = y_evq s /\
  y_dead (apply_outs s outs) = y_dead s /\ y_result (apply_outs s outs) = y_result s.
Proof.
  induction outs as [|x outs IH]; intros s; [cbn; auto|].
  destruct x as [h|n cm| |]; cbn [apply_outs].
  - destruct h; try apply IH. destruct (IH {| y_d := y_d s; y_evq := y_evq s; y_down := aset newid [] (y_down s);
      y_up := aset newid [] (y_up s); y_w := aset newid w_init (y_w s); y_dead := y_dead s; y_result := y_result s |})
      as (A & B & C0 & D). cbn in *. auto.
  - destruct (mem_nat n (y_dead s)); [apply IH|].
    destruct (IH {| y_d := y_d s; y_evq := y_evq s; y_down := aset n (alist_get [] n (y_down s) ++ [cm]) (y_down s);
      y_up := y_up s; y_w := y_w s; y_dead := y_dead s; y_result := y_result s |}) as (A & B & C0 & D). cbn in *. auto.
  - apply IH.
  - apply IH.
Qed.

Lemma apply_outs_old outs : forall s k,
  ~ In k (spawn_ids outs) ->
  aget k (y_w (apply_outs s outs)) = aget k (y_w s) /\
  alist_get [] k (y_up (apply_outs s outs)) = alist_get [] k (y_up s) /\
  alist_get [] k (y_down (apply_outs s outs)) =
    if mem_nat k (y_dead s) then alist_get [] k (y_down s) else alist_get [] k (y_down s) ++ cmds_to k outs.
Proof.
  induction outs as [|x outs IH]; intros s k Hk.
  - cbn. rewrite app_nil_r. destruct (mem_nat k (y_dead s)); auto.
  - destruct x as [h|n cm| |]; cbn [apply_outs].
    + destruct h; try (apply IH; exact Hk).
      cbn [spawn_ids] in Hk. assert (Hkn : k <> newid) by (intros ->; apply Hk; left; reflexivity).
      assert (Hk' : ~ In k (spawn_ids outs)) by (intros X; apply Hk; right; exact X).
      destruct (IH {| y_d := y_d s; y_evq := y_evq s; y_down := aset newid [] (y_down s);
        y_up := aset newid [] (y_up s); y_w := aset newid w_init (y_w s); y_dead := y_dead s; y_result := y_result s |} k Hk')
        as (A & B & C0). cbn [y_w y_up y_down y_dead] in A, B, C0.
      rewrite ea_get_set_neq in A by exact Hkn. rewrite ea_alist_get_set_neq in B by exact Hkn.
      rewrite !ea_alist_get_set_neq in C0 by exact Hkn.
      rewrite A, B, C0. auto.
    + cbn [spawn_ids] in Hk. destruct (mem_nat n (y_dead s)) eqn:Hd.
      * destruct (IH s k Hk) as (A & B & C0). rewrite A, B, C0. split; [reflexivity|]. split; [reflexivity|].
        destruct (mem_nat k (y_dead s)) eqn:Hdk; [reflexivity|]. cbn [cmds_to flat_map cmd_to].
        destruct (Nat.eqb n k) eqn:E; [apply Nat.eqb_eq in E; subst; congruence|reflexivity].
      * destruct (IH {| y_d := y_d s; y_evq := y_evq s; y_down := aset n (alist_get [] n (y_down s) ++ [cm]) (y_down s);
          y_up := y_up s; y_w := y_w s; y_dead := y_dead s; y_result := y_result s |} k Hk) as (A & B & C0).
        cbn [y_w y_up y_down y_dead] in A, B, C0. rewrite A, B, C0. split; [reflexivity|]. split; [reflexivity|].
        cbn [cmds_to flat_map cmd_to]. rewrite alist_get_aset_if.
        destruct (Nat.eqb k n) eqn:E.
        -- apply Nat.eqb_eq in E. subst k. rewrite Hd, Nat.eqb_refl, <- app_assoc. reflexivity.
        -- assert (E' : Nat.eqb n k = false) by (apply Nat.eqb_neq; apply Nat.eqb_neq in E; congruence). rewrite E'. reflexivity.
    + apply IH. exact Hk.
    + apply IH. exact Hk.
Qed.

Lemma apply_outs_new outs : forall s id,
  In id (spawn_ids outs) -> cmds_to id outs = [] ->
  aget id (y_w (apply_outs s outs)) = Some w_init /\
  alist_get [] id (y_up (apply_outs s outs)) = [] /\ alist_get [] id (y_down (apply_outs s outs)) = [].
Proof.
  induction outs as [|x outs IH]; intros s id Hin Hc; [destruct Hin|].
  assert (Hc' : cmds_to id outs = []).
  { unfold cmds_to in *. cbn [flat_map] in Hc. apply app_eq_nil in Hc. tauto. }
  destruct x as [h|n cm| |]; cbn [apply_outs].
  - destruct h; try (apply IH; [exact Hin|exact Hc']).
    cbn [spawn_ids] in Hin.
    destruct (in_dec Nat.eq_dec id (spawn_ids outs)) as [Hi|Hni]; [apply IH; assumption|].
    destruct Hin as [->|Hin]; [|contradiction].
    destruct (apply_outs_old outs {| y_d := y_d s; y_evq := y_evq s; y_down := aset id [] (y_down s);
        y_up := aset id [] (y_up s); y_w := aset id w_init (y_w s); y_dead := y_dead s; y_result := y_result s |} id Hni)
      as (A & B & C0). cbn [y_w y_up y_down y_dead] in A, B, C0.
    rewrite ea_get_set_eq in A. rewrite ea_alist_get_set_eq in B. rewrite !ea_alist_get_set_eq in C0. rewrite A, B, C0, Hc'.
    split; [reflexivity|]. split; [reflexivity|]. destruct (mem_nat id (y_dead s)); reflexivity.
  - cbn [spawn_ids] in Hin. destruct (mem_nat n (y_dead s)); apply IH; assumption.
  - apply IH; assumption.
  - apply IH; assumption.
Qed.

Lemma apply_outs_set_d outs : forall s d, apply_outs (set_d s d) outs = set_d (apply_outs s outs) d.
Proof.
  induction outs as [|x outs IH]; intros s d; [reflexivity|].
  destruct x as [h|n cm| |]; cbn [apply_outs]; try apply IH.
  - destruct h; try apply IH. cbn [set_d y_d y_evq y_down y_up y_w y_dead y_result]. rewrite <- IH. reflexivity.
  - cbn [set_d y_d y_evq y_down y_up y_w y_dead y_result]. destruct (mem_nat n (y_dead s)); [apply IH|]. rewrite <- IH. reflexivity.
Qed.

Lemma apply_outs_app a : forall b s, apply_outs s (a ++ b) = apply_outs (apply_outs s a) b.
Proof.
  induction a as [|x a IH]; intros b s; [reflexivity|].
  destruct x as [h|n cm| |]; cbn [apply_outs app]; try apply IH. destruct h; apply IH.
Qed.

(* ---- E.1 the controller-only part of the invariant ---- *)
Record CJ (gd pss gtf : Prop) (d : dstate) (es : estate) : Prop := {
  cj_sched : d_sched d = StE es;
  cj_ntk : forall n, aget n (e_nt es) <> None <-> n < d_next_gw d;
  cj_act : forall n, In n (d_active d) -> n < d_next_gw d;
  cj_actnd : NoDup (d_active d);
  cj_nodes : forall n, In n (e_nodes es) -> n < d_next_gw d;
  cj_nodesnd : NoDup (e_nodes es);
  cj_n2c : forall n ids, In (n, ids) (e_n2c es) -> ids = coll0 c /\ n < d_next_gw d;
  cj_n2cnd : NoDup (akeys (e_n2c es));
  cj_st : forall n, In n (e_started es) -> n < d_next_gw d;
  cj_num : e_numnodes es = N;
  cj_nc : e_completed es = false ->
          length (e_n2c es) < N /\ e_removed es = [] /\ e_started es = [] /\ forall n, bkE es n = [];
  cj_rem : forall n rest, In (n, rest) (e_removed es) ->
           rest <> [] /\ n < d_next_gw d /\ aget n (e_n2c es) <> None;
  cj_remnd : NoDup (akeys (e_removed es));
  cj_bkst : forall n, In n (e_nodes es) -> bkE es n <> [] -> In n (akeys (e_n2c es));
  cj_b : gd -> d_shouldstop d = false -> incl (e_nodes es) (d_active d);
  cj_ss : pss;
  cj_p : gd -> forall n f, aget n (e_nt es) = Some f -> n_sdsent f = true -> e_completed es = true;
  cj_tf : gtf -> e_tests_finished es = false;
  cj_sdall : d_shuttingdown d = true -> forall m, In m (e_nodes es) -> sd_in (e_nt es) m;
  cj_cnt : gd -> e_completed es = false -> N <= length (d_active d);
  cj_why : d_shuttingdown d = true ->
           d_shouldstop d = true \/ exhausted d = true \/ e_tests_finished es = true;
  cj_inh : gd -> forall sg,
           sumf (indR es sg) (seq 0 (d_next_gw d)) <= sumf (indP (d_active d) es sg) (seq 0 (d_next_gw d));
}.

Lemma cj_weaken (gd pss gtf gd' pss' gtf' : Prop) d es :
  (gd' -> gd) -> pss' -> (gtf' -> e_tests_finished es = false) -> CJ gd pss gtf d es -> CJ gd' pss' gtf' d es.
Proof.
  intros Hg Hp Ht [A1 A2 A3 A4 A5 A6 A7 A8 A9 A10 A11 A12 A13 A14 A15 A16 A17 A18 A19 A20 A21 A22].
  constructor; auto; intros X; try (specialize (Hg X)); eauto.
Qed.

Lemma gci_cj gd pss s es : GCI c gd pss s es -> CJ gd pss gd (y_d s) es.
Proof.
  intros [Els Gnt Gwk Gact Gand Gdead Gnodes Gnnd Gn2c Gn2cnd Gst Gnum Gnc Grem
    Gremnd Gbkst Gb Gss Gp Gtf Gsd Gcnt Gwhy Ginh Gdown Gend Guend Gerrd Gfinl Gq Ggone Gevq Gup Gdn Glive].
  constructor; auto.
Qed.

(* the guard of the middle of an iteration: what "not shutting down" will mean once loop_rest has run *)
Definition gdM (d : dstate) (es : estate) : Prop :=
  d_shuttingdown d = false /\ d_shouldstop d = false /\ e_tests_finished es = false.

(* ---- E.2 triggershutdown and the end of an iteration ---- *)
Lemma trigger_x d es d' o r :
  d_sched d = StE es -> (forall n, In n (e_nodes es) -> aget n (e_nt es) <> None) ->
  d_triggershutdown d = (d', o, r) ->
  r = Ok tt /\ exists es' vo, d' = d_withE d true es' /\ o = vfilter (e_nt es) vo /\ SDx es es' vo /\
    (d_shuttingdown d = true -> es' = es /\ vo = []) /\
    (forall m, cmds_to m vo <> [] -> In m (e_nodes es)) /\
    (d_shuttingdown d = false -> forall m, In m (e_nodes es) -> sd_in (e_nt es') m).
Proof.
  intros Els Hk H. pose proof H as H0. unfold d_triggershutdown in H. unfold mbind at 1, get in H.
  destruct (d_shuttingdown d) eqn:Esd.
  - unfold ret in H. injection H as <- <- <-. split; [reflexivity|]. exists es, [].
    split. { rewrite <- Esd. symmetry. apply d_withE_same. exact Els. }
    split; [reflexivity|]. split; [apply SDx_refl|]. split; [auto|]. split; [|discriminate].
    intros m F. exfalso. apply F. reflexivity.
  - unfold mbind, put in H.
    rewrite (mfor_liftE d_node_shutdown (fun n => node_shutdown e_nt e_set_nt n) _ d_node_shutdown_liftE
               (d_set_shuttingdown d true) es) in H by exact Els.
    rewrite Els in H. cbn [s_nodes] in H.
    destruct (shutdown_sweep_x (e_nodes es) es Hk) as (es2 & vo & Em & S & C0).
    rewrite Em in H. cbn [liftE app] in H. inv H.
    split; [reflexivity|]. exists es2, vo. split; [reflexivity|]. split; [reflexivity|]. split; [exact S|].
    split; [discriminate|]. split; [exact C0|].
    intros _ m Hm. destruct (LivenessLaws.d_triggershutdown_spec _ _ _ H0) as (_ & _ & B & _).
    specialize (B Esd m). rewrite Els in B. cbn [s_nodes] in B. specialize (B Hm).
    unfold d_nt in B. cbn in B. exact B.
Qed.

Lemma SDx_sd_in es es' vo m : SDx es es' vo -> sd_in (e_nt es) m -> sd_in (e_nt es') m.
Proof.
  intros S (f & Ef & Hs). destruct (SDo_fwd _ _ _ _ (sdx_nt _ _ _ S m) Ef) as (f' & Ef' & _ & A & _ & B & _).
  exists f'. split; [exact Ef'|]. unfold shutting_down in *. rewrite A.
  destruct (n_down f); [reflexivity|]. cbn [orb] in *. apply B. exact Hs.
Qed.

Lemma SDx_ind es es' vo (act : list nat) : SDx es es' vo ->
  (forall sg n, specb es' sg n = specb es sg n) /\ (forall n, bkE es' n = bkE es n) /\ e_nodes es' = e_nodes es /\
  e_tests_finished es' = e_tests_finished es /\ (forall sg n, indR es' sg n = indR es sg n) /\
  (forall n, aget n (e_nt es') <> None <-> aget n (e_nt es) <> None).
Proof.
  intros S. destruct (sdx_keep _ _ _ S) as (K1 & K2 & K3 & K4 & K5 & K6).
  assert (Sp : forall sg n, specb es' sg n = specb es sg n).
  { intros sg n. unfold specb. pose proof (sdx_nt _ _ _ S n) as R.
    destruct (aget n (e_nt es)) as [f|] eqn:Ef.
    - destruct (SDo_fwd _ _ _ _ R eq_refl) as (f' & -> & A & _). rewrite A. reflexivity.
    - destruct (aget n (e_nt es')); [destruct R|reflexivity]. }
  split; [exact Sp|]. split; [intros n; unfold bkE; rewrite K1; reflexivity|].
  split; [unfold e_nodes; rewrite K1; reflexivity|].
  split; [unfold e_tests_finished; rewrite K1, K4, K5; reflexivity|].
  split; [intros sg n; unfold indR; rewrite K4, Sp; reflexivity|].
  intros n. apply (SDo_keys _ _ _ (sdx_nt _ _ _ S n)).
Qed.

Lemma loop_rest_cj d1 es1 d' o2 :
  CJ (gdM d1 es1) True (gdM d1 es1) d1 es1 -> loop_rest d1 = (d', o2, Ok tt) ->
  exists es' vo, o2 = vfilter (e_nt es1) vo /\ SDx es1 es' vo /\
    (forall m, cmds_to m vo <> [] -> In m (e_nodes es1)) /\
    d' = d_withE d1 (d_shuttingdown d1 || e_tests_finished es1 || d_shouldstop d1) es' /\
    (d_shuttingdown d' = false -> gdM d1 es1 /\ vo = [] /\ es' = es1) /\
    CJ (d_shuttingdown d' = false) (d_shouldstop d' = true -> d_shuttingdown d' = true) (d_shuttingdown d' = false) d' es'.
Proof.
  intros J H. pose proof J as [Els Jnt Jact Jand Jnodes Jnnd Jn2c Jn2cnd Jst Jnum Jnc Jrem Jremnd Jbkst
    Jb _ Jp Jtf Jsd Jcnt Jwhy Jinh].
  assert (Hk : forall n, In n (e_nodes es1) -> aget n (e_nt es1) <> None).
  { intros n Hn. apply Jnt. apply Jnodes. exact Hn. }
  unfold loop_rest in H.
  apply LoadProofs.mbind_inv in H. destruct H as [(e & H1 & F)|(dm & o1 & a & o3 & H1 & H2 & ->)]; [discriminate|].
  unfold mbind at 1, get in H1. rewrite Els in H1. cbn [s_tests_finished] in H1.
  unfold mbind at 1, get in H2.
  (* the final state after a (possible) sweep *)
  assert (SWEEP : forall es' vo, SDx es1 es' vo -> (forall m, In m (e_nodes es1) -> sd_in (e_nt es') m) ->
            e_tests_finished es1 = true \/ d_shouldstop d1 = true ->
            CJ (d_shuttingdown (d_withE d1 true es') = false)
               (d_shouldstop (d_withE d1 true es') = true -> d_shuttingdown (d_withE d1 true es') = true)
               (d_shuttingdown (d_withE d1 true es') = false)
               (d_withE d1 true es') es').
  { intros es' vo S ALL Hwhy. destruct (SDx_ind _ _ _ (d_active d1) S) as (Sp & Eb & En & Etf & IR & Ek).
    destruct (sdx_keep _ _ _ S) as (K1 & K2 & K3 & K4 & K5 & K6).
    constructor; cbn [d_withE d_sched d_set_sched d_set_shuttingdown d_shuttingdown d_shouldstop d_active d_next_gw];
      rewrite ?En, ?K2, ?K3, ?K4, ?K5, ?K6, ?Etf; auto; try discriminate.
    - intros n. rewrite Ek. apply Jnt.
    - intros E. destruct (Jnc E) as (A & B & C0 & D). repeat split; auto. intros n. rewrite Eb. apply D.
    - intros n Hn. rewrite Eb. apply Jbkst. exact Hn.
    - intros _. destruct Hwhy as [X|X]; auto. }
  destruct (e_tests_finished es1) eqn:Etf.
  - destruct (d_triggershutdown d1) as [[dx ox] rx] eqn:Et.
    destruct (trigger_x _ _ _ _ _ Els Hk Et) as (-> & es2 & vo & -> & -> & S1 & N1 & C1 & A1). inv H1.
    assert (Z : forall b : bool, (if b then d_triggershutdown else ret tt) (d_withE d1 true es2)
                = (d_withE d1 true es2, [], Ok tt)).
    { intros [|]; [|reflexivity]. unfold d_triggershutdown, mbind, get. reflexivity. }
    rewrite Z in H2. inv H2. rewrite app_nil_r, orb_true_r. cbn [orb].
    exists es2, vo. split; [reflexivity|]. split; [exact S1|]. split; [exact C1|]. split; [reflexivity|].
    split; [cbn; discriminate|].
    destruct (d_shuttingdown d1) eqn:Esd.
    + destruct (N1 eq_refl) as (-> & ->). apply (SWEEP es1 []); [apply SDx_refl| |left; reflexivity].
      intros m Hm. apply Jsd; [reflexivity|exact Hm].
    + apply (SWEEP es2 vo S1); [apply A1; reflexivity|left; reflexivity].
  - unfold ret in H1. inv H1. cbn [app]. rewrite orb_false_r.
    destruct (d_shouldstop dm) eqn:Ess.
    + destruct (d_triggershutdown dm) as [[dx ox] rx] eqn:Et.
      destruct (trigger_x _ _ _ _ _ Els Hk Et) as (-> & es2 & vo & -> & -> & S1 & N1 & C1 & A1). inv H2.
      rewrite orb_true_r. exists es2, vo. split; [reflexivity|]. split; [exact S1|]. split; [exact C1|].
      split; [reflexivity|]. split; [cbn; discriminate|].
      destruct (d_shuttingdown dm) eqn:Esd.
      * destruct (N1 eq_refl) as (-> & ->). apply (SWEEP es1 []); [apply SDx_refl| |right; reflexivity].
        intros m Hm. apply Jsd; [reflexivity|exact Hm].
      * apply (SWEEP es2 vo S1); [apply A1; reflexivity|right; reflexivity].
    + unfold ret in H2. inv H2. rewrite orb_false_r. exists es1, [].
      split; [reflexivity|]. split; [apply SDx_refl|]. split; [intros m F; exfalso; apply F; reflexivity|].
      split; [symmetry; apply d_withE_same; exact Els|].
      split.
      * intros Hsd. split; [|auto]. unfold gdM. auto.
      * apply (cj_weaken (gdM d' es1) True (gdM d' es1)); [| | |exact J].
        -- intros Hsd. unfold gdM. auto.
        -- intros F. congruence.
        -- intros _. exact Etf.
Qed.

(* ---- E.3 one live node across a controller step ---- *)
Lemma mark_items_ecmd cs : Forall ecmd cs -> (In Mark (flat_map (citems K) cs) <-> In CShutdown cs).
Proof.
  induction 1 as [|cm cs Hc _ IH]; [cbn; tauto|]. cbn [flat_map]. rewrite in_app_iff, IH. cbn [In].
  destruct cm as [l| | | |]; try contradiction; cbn [citems].
  - split; [intros [X|X]; [apply in_map_iff in X; destruct X as (x & F & _); discriminate|auto]|intros [X|X]; [discriminate|auto]].
  - split; [intros [X|X]; [apply in_map_iff in X; destruct X as (x & F & _); discriminate|auto]|intros [X|X]; [discriminate|auto]].
  - split; [intros _; left; reflexivity|intros _; left; left; reflexivity].
Qed.

Lemma ev_sigs_for_cases k ev : ev_sigs_for k ev = [] \/ exists g, ev_sigs_for k ev = [g] /\ ev_sig ev = Some (k, g).
Proof.
  unfold ev_sigs_for. destruct (ev_sig ev) as [[m g]|]; [|left; reflexivity].
  destruct (Nat.eqb m k) eqn:E; [|left; reflexivity]. apply Nat.eqb_eq in E. subst. right. eauto.
Qed.

Lemma LNI_ctl es es1 act act1 (gd gd1 : Prop) k f f1 ev L' Lup dn cs w :
  LNI c es act gd k f (ev_sigs_for k ev ++ L') Lup dn w ->
  (gd1 -> gd) ->
  n_down f1 = n_down f -> n_closed f1 = n_closed f ->
  (n_sdsent f1 = true <-> n_sdsent f = true \/ In CShutdown cs) ->
  Forall ecmd cs ->
  length (bkE es1 k) + length (completes (ev_sigs_for k ev)) <= length (bkE es k) + length (flat_map (cinds0 K) cs) ->
  (~ In k (e_started es1) -> ~ In k (e_started es) /\ flat_map (cinds0 K) cs = []) ->
  (In k (e_started es1) -> In k (e_started es) \/ (exists ids, ev = QCollFinish k ids) \/ In k (akeys (e_n2c es))) ->
  (In k (e_nodes es1) -> In k (e_nodes es) \/ ev = QReady k) ->
  (In k (e_nodes es) -> In k (e_nodes es1) \/ is_fin_ev k ev = true) ->
  (ev = QReady k -> In k (e_nodes es1) \/ n_sdsent f1 = true \/ n_down f = true) ->
  (In k (akeys (e_n2c es1)) -> In k (akeys (e_n2c es)) \/ exists ids, ev = QCollFinish k ids) ->
  (gd1 -> In k (akeys (e_n2c es)) -> In k (akeys (e_n2c es1))) ->
  (forall ids, ev = QCollFinish k ids -> gd1 -> In k (e_nodes es) ->
     In k (akeys (e_n2c es1)) \/ n_sdsent f1 = true \/ n_down f = true) ->
  (In k act1 -> In k act) -> (is_fin_ev k ev = true -> ~ In k act1) ->
  (In k act -> In k act1 \/ is_fin_ev k ev = true) -> ev <> QErrorDown k ->
  LNI c es1 act1 gd1 k f1 L' Lup (dn ++ cs) w.
Proof.
  intros [(Iw & NG) Wx Cb Ch (G1 & G2) Op Mk Rd Cf Fn Bk Fr Dn Fm St Nc Nd Ac]
    Hgd Fd Fc Fs Hcs Hbk Hfr Hnst Hnod Hkeep Hrdy Hn2c Hn2ck Hcf Hact Hfin Hact' Hnerr.
  assert (Hsub : forall g, In g L' -> In g (ev_sigs_for k ev ++ L')) by (intros g Hg; apply in_or_app; right; exact Hg).
  assert (Ch' : chan_ok (prank (wph w)) L').
  { destruct (ev_sigs_for_cases k ev) as [E|(g & E & _)]; rewrite E in Ch; [exact Ch|]. eapply chan_ok_tail. exact Ch. }
  assert (Hs1 : n_sdsent f = true -> n_sdsent f1 = true) by (intros X; apply Fs; left; exact X).
  assert (Erhs : rhsN K L' w (dn ++ cs) + length (completes (ev_sigs_for k ev)) =
                 rhsN K (ev_sigs_for k ev ++ L') w dn + length (flat_map (cinds0 K) cs)).
  { unfold rhsN. rewrite completes_app, flat_map_app, !app_length. lia. }
  constructor.
  - split; assumption.
  - exact Wx.
  - exact Cb.
  - exact Ch'.
  - split; [exact G1|apply Forall_app; split; assumption].
  - rewrite Fc. exact Op.
  - rewrite flat_map_app, app_assoc, in_app_iff, (mark_items_ecmd cs Hcs), <- Mk. exact Fs.
  - intros Ha Hnb Hnx. specialize (Hact Ha).
    destruct (Rd Hact Hnb Hnx) as [Hi|[Hi|Hi]].
    + apply in_app_or in Hi. destruct Hi as [Hi|Hi]; [|left; exact Hi].
      apply ev_sigs_for_in, ev_sig_ready in Hi.
      destruct (Hrdy Hi) as [Y|[Y|Y]]; [right; left; exact Y|right; right; exact Y|].
      exfalso. apply Hnx. exact (proj2 (Dn Y)).
    + destruct (Hkeep Hi) as [Y|Y]; [right; left; exact Y|]. exfalso. exact (Hfin Y Ha).
    + right. right. apply Hs1. exact Hi.
  - intros Hg1 Ha Hr Hnx. specialize (Hact Ha). pose proof (Hgd Hg1) as Hg.
    destruct (Cf Hg Hact Hr Hnx) as [Hi|[Hi|Hi]].
    + apply in_app_or in Hi. destruct Hi as [Hi|Hi]; [|left; exact Hi].
      apply ev_sigs_for_in in Hi. pose proof Hi as Hev. apply ev_sig_cf in Hi. destruct Hi as (ids & ->).
      rewrite (ev_sigs_for_self _ _ _ Hev) in *. cbn [app] in *.
      assert (Hnb : wph w <> PBoot) by (intros Eb; rewrite Eb in Hr; cbn in Hr; lia).
      destruct (Rd Hact Hnb Hnx) as [[Y|Y]|[Y|Y]].
      * discriminate.
      * exfalso. destruct (chan_ok_cf_head' _ _ Ch) as (Fa & _). exact (Fa Y).
      * destruct (Hcf ids eq_refl Hg1 Y) as [Z|[Z|Z]]; [right; left; exact Z|right; right; exact Z|].
        exfalso. apply Hnx. exact (proj2 (Dn Z)).
      * right. right. apply Hs1. exact Y.
    + right. left. apply Hn2ck; assumption.
    + right. right. apply Hs1. exact Hi.
  - intros Hex Ha. specialize (Hact Ha).
    destruct (Fn Hex Hact) as (b & Hi). apply in_app_or in Hi. destruct Hi as [Hi|Hi]; [|exists b; exact Hi].
    exfalso. apply ev_sigs_for_in in Hi. apply (Hfin) in Ha; [exact Ha|].
    destruct ev; cbn in Hi; try discriminate. inv Hi. cbn. apply Nat.eqb_refl.
  - lia.
  - intros Hns. destruct (Hfr Hns) as (A & B). specialize (Fr A). rewrite B in Erhs. cbn [length] in Erhs. lia.
  - rewrite Fd. exact Dn.
  - intros [Hi|Hp]; apply Fm; [left; apply Hsub; exact Hi|right; exact Hp].
  - intros Hin. destruct (Hnst Hin) as [Y|[(ids & ->)|Y]].
    + destruct (St Y) as (A & B). split; [|exact B]. intros Hi. apply A. apply Hsub. exact Hi.
    + rewrite (ev_sigs_for_self k (QCollFinish k ids) SgCF eq_refl) in Ch. cbn [app] in Ch.
      destruct (chan_ok_cf_head' _ _ Ch) as (_ & A & B). auto.
    + destruct (Nc Y) as (A & B). split; [|exact B]. intros Hi. apply A. apply Hsub. exact Hi.
  - intros Hin. destruct (Hn2c Hin) as [Y|(ids & ->)].
    + destruct (Nc Y) as (A & B). split; [|exact B]. intros Hi. apply A. apply Hsub. exact Hi.
    + rewrite (ev_sigs_for_self k (QCollFinish k ids) SgCF eq_refl) in Ch. cbn [app] in Ch.
      destruct (chan_ok_cf_head' _ _ Ch) as (_ & A & B). auto.
  - intros Hin. destruct (Hnod Hin) as [Y| ->].
    + destruct (Nd Y) as (A & B). split; [|exact B]. intros Hi. apply A. apply Hsub. exact Hi.
    + rewrite (ev_sigs_for_self k (QReady k) SgReady eq_refl) in Ch. cbn [app] in Ch.
      destruct (chan_ok_ready_head _ _ Ch) as (A & B). split; [exact A|].
      intros Ep. rewrite Ep in B. cbn in B. lia.
  - intros Hn. destruct (in_dec Nat.eq_dec k act) as [Hin|Hni].
    + destruct (Hact' Hin) as [X|X]; [contradiction|].
      destruct (ev_sigs_for_cases k ev) as [E|(g & E & Eg)].
      * exfalso. destruct ev; cbn in X; try discriminate; apply Nat.eqb_eq in X; subst.
        -- unfold ev_sigs_for in E. cbn in E. rewrite Nat.eqb_refl in E. discriminate.
        -- apply Hnerr. reflexivity.
      * rewrite E in Ch. cbn [app] in Ch.
        destruct ev; cbn in X; try discriminate; apply Nat.eqb_eq in X; subst; cbn in Eg; try discriminate; inv Eg.
        destruct (chan_ok_fin_head _ _ _ Ch) as (A & B). split; [exact A|apply prank_4; exact B].
    + destruct (Ac Hni) as (A & B). split; [|exact B]. apply app_eq_nil in A. tauto.
Qed.

(* ---- E.4 rebuilding the invariant after a controller step ---- *)
Lemma ok_evX_mono gw gw' ev : gw <= gw' -> ok_evX c gw ev -> ok_evX c gw' ev.
Proof.
  intros H (A & B). split; [exact A|]. destruct ev; cbn in *; try lia; auto.
Qed.

Lemma evq_sigs_incl k (q q' : list cevent) g : incl q' q -> In g (evq_sigs k q') -> In g (evq_sigs k q).
Proof.
  intros Hi Hg. unfold evq_sigs in *. apply in_flat_map in Hg. destruct Hg as (ev & Hev & Hg).
  apply in_flat_map. exists ev. split; [apply Hi; exact Hev|exact Hg].
Qed.

Definition fresh_nd (sp : nat) : nctl := {| n_spec := sp; n_down := false; n_sdsent := false; n_closed := false |}.

Lemma LNI_fresh es act (gd : Prop) k sp :
  ~ In k (e_nodes es) -> ~ In k (akeys (e_n2c es)) -> ~ In k (e_started es) -> In k act ->
  LNI c es act gd k (fresh_nd sp) [] [] [] w_init.
Proof.
  intros H1 H2 H3 H4.
  assert (Eb : bkE es k = []).
  { unfold bkE. apply ea_alist_get_none. apply ea_get_none. exact H1. }
  constructor; cbn [fresh_nd n_closed n_sdsent n_down w_init wph prank winbox].
  - split; [apply winv_init|exact Logic.I].
  - apply WX_init.
  - apply CB_init.
  - apply chan_ok_nil.
  - split; constructor.
  - reflexivity.
  - split; [discriminate|]. intros [].
  - intros _ F. exfalso. apply F. reflexivity.
  - intros _ _ F. lia.
  - discriminate.
  - rewrite Eb. cbn. lia.
  - intros _. reflexivity.
  - discriminate.
  - intros [[]|F]; discriminate.
  - contradiction.
  - contradiction.
  - contradiction.
  - contradiction.
Qed.

Lemma gci_ctl (gd0 pss0 gd1 pss1 : Prop) s es evq' d1 es1 o :
  GCI c gd0 pss0 s es -> (evq' = y_evq s \/ exists ev, y_evq s = ev :: evq') ->
  (forall n, In n (d_active (y_d s)) -> ~ In n (d_active d1) -> exists ev, y_evq s = ev :: evq' /\ is_fin_ev n ev = true) ->
  CJ gd1 pss1 gd1 d1 es1 ->
  ((d_next_gw d1 = d_next_gw (y_d s) /\ spawn_ids o = []) \/
   (d_next_gw d1 = S (d_next_gw (y_d s)) /\ spawn_ids o = [d_next_gw (y_d s)] /\
    (exists sp, aget (d_next_gw (y_d s)) (e_nt es1) = Some (fresh_nd sp)) /\
    ~ In (d_next_gw (y_d s)) (e_nodes es1) /\ ~ In (d_next_gw (y_d s)) (akeys (e_n2c es1)) /\
    ~ In (d_next_gw (y_d s)) (e_started es1) /\ In (d_next_gw (y_d s)) (d_active d1))) ->
  (forall n, d_next_gw (y_d s) <= n -> cmds_to n o = []) ->
  (forall n f, aget n (e_nt es) = Some f -> exists f1, aget n (e_nt es1) = Some f1 /\ n_down f1 = n_down f) ->
  (forall n f1, aget n (e_nt es1) = Some f1 -> n_down f1 = true -> In n (d_active d1) ->
           exists ev', In ev' evq' /\ is_fin_ev n ev' = true) ->
  (forall k w f f1, ~ In k (y_dead s) -> aget k (y_w s) = Some w -> aget k (e_nt es) = Some f ->
     aget k (e_nt es1) = Some f1 ->
     LNI c es1 (d_active d1) gd1 k f1 (evq_sigs k evq' ++ flat_map up_sig (alist_get [] k (y_up s)))
         (flat_map up_sig (alist_get [] k (y_up s))) (alist_get [] k (y_down s) ++ cmds_to k o) w) ->
  GCI c gd1 pss1 (apply_outs (set_d (set_evq s evq') d1) o) es1.
Proof.
  intros G Hsub Hleft J Hgw Hcmd Hfl Hdown Hlive.
  pose proof G as [Els Gnt Gwk Gact Gand Gdead Gnodes Gnnd Gn2c Gn2cnd Gst Gnum Gnc Grem
    Gremnd Gbkst Gb Gss Gp Gtf Gsd Gcnt Gwhy Ginh Gdown Gend Guend Gerrd Gfinl Gq Ggone Gevq Gup Gdn Glive].
  assert (Hincl : incl evq' (y_evq s)).
  { destruct Hsub as [->|(ev0 & ->)]; intros x Hx; [exact Hx|right; exact Hx]. }
  assert (Hdb : forall n, downb es n = true -> downb es1 n = true).
  { intros n. unfold downb. destruct (aget n (e_nt es)) as [f|] eqn:Ef; [|discriminate].
    destruct (Hfl n f Ef) as (f1 & -> & ->). auto. }
  assert (Hq' : finlast es1 evq').
  { apply (finlast_mono es es1 _ Hdb). destruct Hsub as [->|(ev0 & E)]; [exact Gq|]. rewrite E in Gq. exact (proj2 Gq). }
  pose proof J as [Els1 Jnt Jact Jand Jnodes Jnnd Jn2c Jn2cnd Jst Jnum Jnc Jrem Jremnd Jbkst
    Jb Jss Jp Jtf Jsd Jcnt Jwhy Jinh].
  set (gw := d_next_gw (y_d s)) in *.
  set (s' := apply_outs (set_d (set_evq s evq') d1) o).
  destruct (apply_outs_frame o (set_d (set_evq s evq') d1)) as (F1 & F2 & F3 & F4).
  cbn [set_d set_evq y_d y_evq y_dead y_result] in F1, F2, F3, F4. fold s' in F1, F2, F3, F4.
  assert (Hgw1 : gw <= d_next_gw d1) by (destruct Hgw as [(A & _)|(A & _)]; rewrite A; lia).
  assert (OLD : forall k, k <> gw \/ spawn_ids o = [] ->
            aget k (y_w s') = aget k (y_w s) /\ alist_get [] k (y_up s') = alist_get [] k (y_up s) /\
            alist_get [] k (y_down s') = if mem_nat k (y_dead s) then alist_get [] k (y_down s)
                                         else alist_get [] k (y_down s) ++ cmds_to k o).
  { intros k Hk. apply (apply_outs_old o (set_d (set_evq s evq') d1) k).
    destruct Hgw as [(_ & B)|(_ & B & _)]; rewrite B; [intros []|]. intros [X|[]].
    destruct Hk as [Hk|Hk]; [congruence|rewrite B in Hk; discriminate Hk]. }
  assert (OLDlt : forall k, k < gw -> k <> gw \/ spawn_ids o = []) by (intros k Hk; left; lia).
  assert (SGd : forall k b, In (SgFin b) (evq_sigs k evq' ++ flat_map up_sig (alist_get [] k (y_up s))) ->
                            In (SgFin b) (sigs s k)).
  { intros k b Hin. unfold sigs. apply in_app_or in Hin. apply in_or_app.
    destruct Hin as [Hin|Hin]; [left; eapply evq_sigs_incl; eauto|right; exact Hin]. }
  constructor; rewrite ?F1, ?F2, ?F3; auto.
  - (* workers *)
    intros n. destruct Hgw as [(A & B)|(A & B & _)].
    + destruct (OLD n (or_intror B)) as (X & _). rewrite X, A. apply Gwk.
    + destruct (Nat.eq_dec n gw) as [->|Hn].
      * destruct (apply_outs_new o (set_d (set_evq s evq') d1) gw) as (X & _); [rewrite B; left; reflexivity|apply Hcmd; lia|].
        fold s' in X. rewrite X, A. split; [intros _; lia|discriminate].
      * destruct (OLD n (or_introl Hn)) as (X & _). rewrite X, A. rewrite Gwk. fold gw. lia.
  - intros n Hn. specialize (Gdead n Hn). fold gw in Gdead. lia.
  - (* end markers *)
    intros n f1 Hd Ef1 Hdn. pose proof (Gdead n Hd) as Hn. fold gw in Hn.
    destruct (OLD n (OLDlt n Hn)) as (_ & X & _). rewrite X.
    destruct (aget n (e_nt es)) as [f|] eqn:Ef; [|exfalso; apply (proj2 (Gnt n) Hn); exact Ef].
    destruct (Hfl n f Ef) as (f1' & Ef1' & Ed). assert (f1' = f1) by congruence. subst f1'.
    apply (Gend n f Hd Ef). congruence.
  - intros n Hin. destruct (Nat.lt_ge_cases n gw) as [Hn|Hn].
    + destruct (OLD n (OLDlt n Hn)) as (_ & X & _). rewrite X in Hin. apply Guend. exact Hin.
    + exfalso. destruct Hgw as [(A & B)|(A & B & _)].
      * destruct (OLD n (or_intror B)) as (_ & X & _). rewrite X, (proj2 (Gup n) Hn) in Hin. destruct Hin.
      * destruct (Nat.eq_dec n gw) as [->|Hne].
        -- destruct (apply_outs_new o (set_d (set_evq s evq') d1) gw) as (_ & X & _); [rewrite B; left; reflexivity|apply Hcmd; lia|].
           fold s' in X. rewrite X in Hin. destruct Hin.
        -- destruct (OLD n (or_introl Hne)) as (_ & X & _). rewrite X, (proj2 (Gup n) Hn) in Hin. destruct Hin.
  - intros k b Hk Hin. pose proof (Gdead k Hk) as Hn. fold gw in Hn.
    apply (Gfinl k b Hk). apply SGd. unfold sigs in Hin. rewrite F2 in Hin.
    destruct (OLD k (OLDlt k Hn)) as (_ & X & _). rewrite X in Hin. exact Hin.
  - (* nodes that have left the active set *)
    intros n Hn Hna.
    destruct (in_dec Nat.eq_dec n (d_active (y_d s))) as [Hin|Hni].
    + destruct (Hleft n Hin Hna) as (ev0 & E & Hf). rewrite E in Gq. destruct (proj1 Gq n Hf) as (A & B).
      split; [exact A|apply Hdb; exact B].
    + assert (Hlt : n < gw).
      { destruct Hgw as [(A & _)|(A & _ & _ & _ & _ & _ & N4)]; [rewrite A in Hn; exact Hn|].
        destruct (Nat.eq_dec n gw) as [->|Hne]; [contradiction|]. rewrite A in Hn. lia. }
      destruct (Ggone n Hlt Hni) as (A & B). split; [|apply Hdb; exact B].
      intros ev' Hev. apply A. apply Hincl. exact Hev.
  - apply Forall_forall. intros ev' Hev. rewrite Forall_forall in Gevq.
    apply (ok_evX_mono gw); [exact Hgw1|]. apply Gevq. apply Hincl. exact Hev.
  - intros n. destruct (Nat.lt_ge_cases n gw) as [Hn|Hn].
    + destruct (OLD n (OLDlt n Hn)) as (_ & X & _). rewrite X. split; [apply Gup|]. intros; lia.
    + destruct Hgw as [(A & B)|(A & B & _)].
      * destruct (OLD n (or_intror B)) as (_ & X & _). rewrite X, (proj2 (Gup n) Hn). split; [constructor|reflexivity].
      * destruct (Nat.eq_dec n gw) as [->|Hne].
        -- destruct (apply_outs_new o (set_d (set_evq s evq') d1) gw) as (_ & X & _); [rewrite B; left; reflexivity|apply Hcmd; lia|].
           fold s' in X. rewrite X. split; [constructor|reflexivity].
        -- destruct (OLD n (or_introl Hne)) as (_ & X & _). rewrite X, (proj2 (Gup n) Hn). split; [constructor|reflexivity].
  - intros n Hn. assert (Hn0 : gw <= n) by lia.
    assert (Hne : n <> gw \/ spawn_ids o = []).
    { destruct Hgw as [(A & B)|(A & B & _)]; [right; exact B|left; rewrite A in Hn; lia]. }
    destruct (OLD n Hne) as (_ & _ & X). rewrite X, (Gdn n Hn0), (Hcmd n Hn0). destruct (mem_nat n (y_dead s)); reflexivity.
  - (* live nodes *)
    intros k w f1 Hl Hw Ef1. unfold sigs. rewrite F2.
    destruct (Nat.lt_ge_cases k gw) as [Hk|Hk].
    + destruct (OLD k (OLDlt k Hk)) as (X1 & X2 & X3). rewrite X1 in Hw. rewrite X2, X3.
      replace (mem_nat k (y_dead s)) with false by (symmetry; apply mem_nat_false; exact Hl).
      destruct (aget k (e_nt es)) as [f|] eqn:Ef; [|exfalso; apply (proj2 (Gnt k) Hk); exact Ef].
      eapply Hlive; eauto.
    + destruct Hgw as [(A & B)|(A & B & (sp & Esp) & N1 & N2 & N3 & N4)].
      * exfalso. destruct (OLD k (or_intror B)) as (X1 & _). rewrite X1 in Hw.
        assert (X : k < gw) by (apply Gwk; congruence). lia.
      * destruct (Nat.eq_dec k gw) as [->|Hne].
        -- destruct (apply_outs_new o (set_d (set_evq s evq') d1) gw) as (X1 & X2 & X3); [rewrite B; left; reflexivity|apply Hcmd; lia|].
           fold s' in X1, X2, X3. rewrite X1 in Hw. injection Hw as <-. rewrite X2, X3. rewrite Esp in Ef1. injection Ef1 as <-.
           assert (Eq0 : evq_sigs gw evq' = []).
           { destruct (evq_sigs gw evq') as [|g r] eqn:E; [reflexivity|]. exfalso.
             assert (Hg : In g (evq_sigs gw (y_evq s))) by (eapply evq_sigs_incl; eauto; rewrite E; left; reflexivity).
             unfold evq_sigs in Hg. apply in_flat_map in Hg. destruct Hg as (ev' & Hev & Hg).
             apply ev_sigs_for_in in Hg. rewrite Forall_forall in Gevq. destruct (Gevq ev' Hev) as (_ & Hlt).
             fold gw in Hlt. destruct ev'; cbn in Hg; try discriminate; injection Hg as E1 E2; subst n; cbn in Hlt; lia. }
           rewrite Eq0. cbn [flat_map app]. apply LNI_fresh; assumption.
        -- exfalso. destruct (OLD k (or_introl Hne)) as (X1 & _). rewrite X1 in Hw.
           assert (X : k < gw) by (apply Gwk; congruence). lia.
Qed.

(* ---- E.5 the end of an iteration: the shutdown sweep of loop_rest ---- *)
Lemma set_evq_same s : set_evq s (y_evq s) = s.
Proof. destruct s; reflexivity. Qed.

Lemma cmds_to_vf nt n vo f : aget n nt = Some f -> n_closed f = false -> cmds_to n (vfilter nt vo) = cmds_to n vo.
Proof. intros Ef Hc. rewrite cmds_to_vfilter. unfold closedb. rewrite Ef, Hc. reflexivity. Qed.

Lemma cmds_to_vf_none nt n vo : aget n nt = None -> cmds_to n vo = [] -> cmds_to n (vfilter nt vo) = [].
Proof. intros Ef Hc. rewrite cmds_to_vfilter. unfold closedb. rewrite Ef, Hc. reflexivity. Qed.

Lemma cmds_to_vf_incl nt n vo : cmds_to n vo = [] -> cmds_to n (vfilter nt vo) = [].
Proof. intros Hc. rewrite cmds_to_vfilter, Hc. destruct (closedb nt n); reflexivity. Qed.

Lemma is_sd_out_spawn vo : Forall is_sd_out vo -> spawn_ids vo = [].
Proof. induction 1 as [|x vo Hx _ IH]; [reflexivity|]. destruct x as [h|n cm| |]; try contradiction. cbn. exact IH. Qed.

Lemma spawn_ids_vfilter nt vo : spawn_ids vo = [] -> spawn_ids (vfilter nt vo) = [].
Proof.
  induction vo as [|x vo IH]; [reflexivity|]. cbn [vfilter filter]. fold (vfilter nt vo).
  destruct x as [h|n cm| |]; cbn [vkeep spawn_ids].
  - destruct h; cbn [spawn_ids]; try exact IH. discriminate.
  - intros H. destruct (negb (closedb nt n)); cbn [spawn_ids]; apply IH; exact H.
  - exact IH.
  - exact IH.
Qed.

Lemma gci_rest m es1 d' o2 :
  GCI c (gdM (y_d m) es1) True m es1 -> loop_rest (y_d m) = (d', o2, Ok tt) ->
  exists es', GCI c (d_shuttingdown d' = false) (d_shouldstop d' = true -> d_shuttingdown d' = true)
                  (apply_outs (set_d m d') o2) es'.
Proof.
  intros G H. pose proof (gci_cj _ _ _ _ G) as J.
  destruct (loop_rest_cj _ _ _ _ J H) as (es' & vo & -> & S & Cn & Ed' & Hsame & J').
  exists es'.
  pose proof G as [Els Gnt Gwk Gact Gand Gdead Gnodes Gnnd Gn2c Gn2cnd Gst Gnum Gnc Grem
    Gremnd Gbkst Gb Gss Gp Gtf Gsd Gcnt Gwhy Ginh Gdown Gend Guend Gerrd Gfinl Gq Ggone Gevq Gup Gdn Glive].
  assert (Eact : d_active d' = d_active (y_d m) /\ d_next_gw d' = d_next_gw (y_d m)).
  { rewrite Ed'. cbn. auto. }
  destruct Eact as (Ea & Eg).
  destruct (SDx_ind _ _ _ (d_active d') S) as (Sp & Eb & En & Etf & IR & Ek).
  destruct (sdx_keep _ _ _ S) as (K1 & K2 & K3 & K4 & K5 & K6).
  rewrite <- (set_evq_same m) at 1.
  apply (gci_ctl (gdM (y_d m) es1) True _ _ m es1 (y_evq m) d' es' _ G); auto.
  - intros n Hin Hna. rewrite Ea in Hna. contradiction.
  - left. split; [exact Eg|]. apply spawn_ids_vfilter. apply is_sd_out_spawn. apply (sdx_outs _ _ _ S).
  - intros n Hn. apply cmds_to_vf_incl.
    destruct (cmds_to n vo) as [|x r] eqn:E; [reflexivity|]. exfalso.
    assert (X : In n (e_nodes es1)) by (apply Cn; rewrite E; discriminate). specialize (Gnodes n X). lia.
  - intros n f Ef. destruct (SDo_fwd _ _ _ _ (sdx_nt _ _ _ S n) Ef) as (f1 & Ef1 & _ & A & _). exists f1. auto.
  - intros n f1 Ef1 Hdn Hact. rewrite Ea in Hact.
    pose proof (sdx_nt _ _ _ S n) as R. destruct (aget n (e_nt es1)) as [f|] eqn:Ef.
    + destruct (SDo_fwd _ _ _ _ R eq_refl) as (f1' & Ef1' & _ & A & _). assert (f1' = f1) by congruence. subst f1'.
      apply (Gdown n f Ef); [congruence|exact Hact].
    + rewrite Ef1 in R. destruct R.
  - intros k w f f1 Hl Hw Ef Ef1.
    pose proof (Glive k w f Hl Hw Ef) as X.
    destruct (SDo_fwd _ _ _ _ (sdx_nt _ _ _ S k) Ef) as (f1' & Ef1' & A1 & A2 & A3 & A4 & A5).
    assert (f1' = f1) by congruence. subst f1'.
    pose proof (ln_open _ _ _ _ _ _ _ _ _ _ X) as Hop.
    rewrite (cmds_to_vf _ _ _ _ Ef Hop).
    assert (Ecs : (cmds_to k vo = [] /\ f1 = f) \/
                  (cmds_to k vo = [CShutdown] /\ n_sdsent f = false /\ n_down f = false /\ f1 = sdm f)) by exact A5.
    rewrite Ea.
    apply (LNI_ctl es1 es' (d_active (y_d m)) (d_active (y_d m)) (gdM (y_d m) es1) _ k f f1 QWarning
             (sigs m k) _ _ (cmds_to k vo) w); rewrite ?En, ?K2, ?K3, ?Eb; auto; cbn [ev_sigs_for ev_sig app completes length].
    + intros Hsd. exact (proj1 (Hsame Hsd)).
    + destruct Ecs as [(-> & ->)|(-> & H1 & H2 & ->)]; cbn; [tauto|]. split; [auto|reflexivity].
    + destruct Ecs as [(-> & _)|(-> & _)]; repeat constructor.
    + destruct Ecs as [(-> & _)|(-> & _)]; cbn; lia.
    + intros Hn. split; [exact Hn|]. destruct Ecs as [(-> & _)|(-> & _)]; reflexivity.
    + intros E. discriminate.
    + intros ids E. discriminate.
    + intros E. discriminate.
    + discriminate.
Qed.

(* ---- E.6 the handlers ---- *)
Lemma LNI_untouched es es1 act act1 (gd gd1 : Prop) k f ev L' Lup dn w :
  LNI c es act gd k f (ev_sigs_for k ev ++ L') Lup dn w -> ev_sigs_for k ev = [] -> ev <> QErrorDown k ->
  (gd1 -> gd) ->
  length (bkE es1 k) <= length (bkE es k) ->
  (In k (e_started es1) <-> In k (e_started es)) -> (In k (e_nodes es1) <-> In k (e_nodes es)) ->
  (In k (akeys (e_n2c es1)) <-> In k (akeys (e_n2c es))) -> (In k act1 <-> In k act) ->
  LNI c es1 act1 gd1 k f L' Lup (dn ++ []) w.
Proof.
  intros X E0 Hne Hgd Hbk Hst Hnd Hnc Hact.
  assert (NF : is_fin_ev k ev = true -> False).
  { intros Hf. destruct ev; cbn in Hf; try discriminate; apply Nat.eqb_eq in Hf; subst.
    - unfold ev_sigs_for in E0. cbn in E0. rewrite Nat.eqb_refl in E0. discriminate.
    - apply Hne. reflexivity. }
  assert (NR : ev <> QReady k).
  { intros ->. unfold ev_sigs_for in E0. cbn in E0. rewrite Nat.eqb_refl in E0. discriminate. }
  assert (NC : forall ids, ev <> QCollFinish k ids).
  { intros ids ->. unfold ev_sigs_for in E0. cbn in E0. rewrite Nat.eqb_refl in E0. discriminate. }
  apply (LNI_ctl es es1 act act1 gd gd1 k f f ev L' Lup dn [] w X); auto; rewrite ?E0; cbn [completes length flat_map In];
    try tauto; try lia.
  intros ids H. exfalso. exact (NC ids H).
Qed.

Lemma spawn_ids_quiet o : Forall quiet_out o -> spawn_ids o = [].
Proof.
  induction 1 as [|x o (Hx & _) _ IH]; [reflexivity|]. destruct x as [h|n cm| |]; try exact IH.
  destruct h; try exact IH. discriminate.
Qed.

Lemma cj_same (gd pss gd1 : Prop) d d1 es :
  CJ gd pss gd d es -> d_sched d1 = d_sched d -> d_shuttingdown d1 = d_shuttingdown d -> d_active d1 = d_active d ->
  same_budget d d1 -> (d_shouldstop d = true -> d_shouldstop d1 = true) -> (gd1 -> gd) -> CJ gd1 True gd1 d1 es.
Proof.
  intros [Els Jnt Jact Jand Jnodes Jnnd Jn2c Jn2cnd Jst Jnum Jnc Jrem Jremnd Jbkst Jb Jss Jp Jtf Jsd Jcnt Jwhy Jinh]
    S1 S2 S3 (B1 & B2 & B3) S4 Hg.
  assert (Eex : exhausted d1 = exhausted d) by (unfold exhausted; rewrite B1, B2; reflexivity).
  constructor; rewrite ?S1, ?S2, ?S3, ?B3, ?Eex; auto.
  - intros X Hss. apply (Jb (Hg X)). destruct (d_shouldstop d) eqn:E; [|reflexivity]. rewrite (S4 eq_refl) in Hss. discriminate.
  - intros X. eapply Jp; eauto.
  - intros Hsd. destruct (Jwhy Hsd) as [Y|[Y|Y]]; auto.
Qed.

Lemma gci_handle_quiet s es ev q d1 o1 :
  GCI c (gdF s) (pssF s) s es -> y_evq s = ev :: q ->
  match ev with
  | QLogStart _ _ | QLogFinish _ _ | QWarning | QReport _ _ _ _ | QCollectReport _ _ _ => True
  | _ => False
  end ->
  d_handle ev (y_d s) = (d1, o1, Ok tt) ->
  exists es1, GCI c (gdM d1 es1) True (apply_outs (set_d (set_evq s q) d1) o1) es1.
Proof.
  intros G Eevq Hq H. exists es.
  destruct (handle_quiet ev _ _ _ _ Hq H) as (_ & (S1 & S2 & S3 & S4) & Hc).
  assert (Hde : death_event ev = false) by (destruct ev; try contradiction; reflexivity).
  destruct (quiet_handle ev Hde _ _ _ _ H) as (SB & Qo).
  pose proof (gci_cj _ _ _ _ G) as J. pose proof (cj_sched _ _ _ _ _ J) as Els.
  assert (Hgd : gdM d1 es -> gdF s) by (intros (A & _); unfold gdF; congruence).
  assert (Esig : forall k, ev_sigs_for k ev = []) by (intros k; destruct ev; try contradiction; reflexivity).
  assert (Hne : forall k, ev <> QErrorDown k) by (intros k; destruct ev; try contradiction; discriminate).
  pose proof (g_ntk _ _ _ _ _ G) as Gnt. pose proof (g_down _ _ _ _ _ G) as Gdown. pose proof (g_live _ _ _ _ _ G) as Glive.
  apply (gci_ctl (gdF s) (pssF s) (gdM d1 es) True s es q d1 es o1 G).
  - right. exists ev. exact Eevq.
  - intros n Hin Hna. rewrite S3 in Hna. contradiction.
  - apply (cj_same (gdF s) (pssF s) _ (y_d s)); auto.
  - left. split; [apply SB|apply spawn_ids_quiet; exact Qo].
  - intros n _. apply Hc.
  - intros n f Ef. exists f. auto.
  - intros n f1 Ef1 Hdn Hact. rewrite S3 in Hact. destruct (Gdown n f1 Ef1 Hdn Hact) as (ev' & Hin & Hf).
    rewrite Eevq in Hin. destruct Hin as [<-|Hin]; [|exists ev'; auto].
    exfalso. destruct ev; try contradiction; discriminate.
  - intros k w f f1 Hl Hw Ef Ef1. assert (f1 = f) by congruence. subst f1. rewrite Hc, S3.
    pose proof (Glive k w f Hl Hw Ef) as X. rewrite (sigs_head s ev q k Eevq) in X.
    apply (LNI_untouched es es (d_active (y_d s)) (d_active (y_d s)) (gdF s) _ k f ev); auto; try tauto.
Qed.

(* a shutdown sweep while the session is shutting down *)
Lemma cj_sdx (gd pss gd1 : Prop) d es es1 vo :
  CJ gd pss gd d es -> SDx es es1 vo -> d_shuttingdown d = true -> (gd1 -> False) ->
  CJ gd1 True gd1 (d_set_sched d (StE es1)) es1.
Proof.
  intros [Els Jnt Jact Jand Jnodes Jnnd Jn2c Jn2cnd Jst Jnum Jnc Jrem Jremnd Jbkst Jb Jss Jp Jtf Jsd Jcnt Jwhy Jinh]
    S Hsd Hg.
  destruct (SDx_ind _ _ _ (d_active d) S) as (Sp & Eb & En & Etf & IR & Ek).
  destruct (sdx_keep _ _ _ S) as (K1 & K2 & K3 & K4 & K5 & K6).
  constructor; cbn [d_sched d_set_sched d_shuttingdown d_shouldstop d_active d_next_gw];
    rewrite ?En, ?K2, ?K3, ?K4, ?K5, ?K6, ?Etf; auto; try (intros X; exfalso; exact (Hg X)).
  - intros n. rewrite Ek. apply Jnt.
  - intros E. destruct (Jnc E) as (A & B & C0 & D). repeat split; auto. intros n. rewrite Eb. apply D.
  - intros n Hn. rewrite Eb. apply Jbkst. exact Hn.
  - intros Hs m Hm. apply (SDx_sd_in _ _ _ _ S). apply Jsd; assumption.
Qed.

Lemma e_add_node_inv n es es' o r :
  e_add_node n es = (es', o, Ok r) -> aget n (e_n2p es) = None /\ es' = e_set_n2p es (aset n [] (e_n2p es)) /\ o = [].
Proof.
  unfold e_add_node, mbind, get, massert, ahas, put, ret, raise.
  destruct (aget n (e_n2p es)) eqn:E; cbn; intros H; inv H. auto.
Qed.

Lemma forallb_aset_new {V} (f : nat * V -> bool) n v (l : amap V) :
  aget n l = None -> forallb f (aset n v l) = forallb f l && f (n, v).
Proof.
  induction l as [|[k x] l IH]; intros E.
  - cbn. rewrite andb_true_r. reflexivity.
  - cbn [aget] in E. cbn [aset]. destruct (Nat.eqb n k) eqn:E1; [discriminate|].
    cbn [forallb]. rewrite (IH E), andb_assoc. reflexivity.
Qed.

Lemma tf_add_empty es n :
  aget n (e_n2p es) = None -> e_tests_finished (e_set_n2p es (aset n [] (e_n2p es))) = e_tests_finished es.
Proof.
  intros E. unfold e_tests_finished. cbn [e_completed e_removed e_n2p e_set_n2p].
  rewrite (forallb_aset_new _ n [] _ E). cbn. rewrite andb_true_r. reflexivity.
Qed.

Lemma gci_handle_ready s es n q d1 o1 :
  GCI c (gdF s) (pssF s) s es -> y_evq s = QReady n :: q ->
  d_handle (QReady n) (y_d s) = (d1, o1, Ok tt) ->
  exists es1, GCI c (gdM d1 es1) True (apply_outs (set_d (set_evq s q) d1) o1) es1.
Proof.
  intros G Eevq H.
  pose proof (gci_cj _ _ _ _ G) as J. pose proof (cj_sched _ _ _ _ _ J) as Els.
  pose proof (g_ntk _ _ _ _ _ G) as Gnt. pose proof (g_down _ _ _ _ _ G) as Gdown. pose proof (g_live _ _ _ _ _ G) as Glive.
  assert (HnG : n < d_next_gw (y_d s)).
  { pose proof (g_evq _ _ _ _ _ G) as Gevq. rewrite Eevq in Gevq. inversion Gevq as [|x l (_ & X) _]; subst. exact X. }
  destruct (aget n (e_nt es)) as [f|] eqn:Ef; [|exfalso; apply (proj2 (Gnt n) HnG); exact Ef].
  assert (Hna : In n (d_active (y_d s))).
  { destruct (in_dec Nat.eq_dec n (d_active (y_d s))) as [X|X]; [exact X|]. exfalso.
    destruct (g_gone _ _ _ _ _ G n HnG X) as (A & _). apply (A (QReady n)); [rewrite Eevq; left; reflexivity|reflexivity]. }
  assert (DOWN : forall d' es', d_active d' = d_active (y_d s) ->
            (forall k f1, aget k (e_nt es') = Some f1 -> exists f0, aget k (e_nt es) = Some f0 /\ n_down f1 = n_down f0) ->
            forall k f1, aget k (e_nt es') = Some f1 -> n_down f1 = true -> In k (d_active d') ->
            exists ev', In ev' q /\ is_fin_ev k ev' = true).
  { intros d' es' Ea Hfl k f1 Ef1 Hdn Hact. rewrite Ea in Hact. destruct (Hfl k f1 Ef1) as (f0 & Ef0 & E).
    destruct (Gdown k f0 Ef0) as (ev' & Hin & Hf); [congruence|exact Hact|].
    rewrite Eevq in Hin. destruct Hin as [<-|Hin]; [discriminate Hf|]. exists ev'. auto. }
  cbn [d_handle] in H. unfold hook in H. rewrite mbind_emit, mbind_get in H.
  destruct (d_shuttingdown (y_d s)) eqn:Esd.
  - (* shutting down: the node is told to shut down *)
    rewrite (d_node_shutdown_liftE n _ es Els) in H.
    assert (Hk : aget n (e_nt es) <> None) by congruence.
    destruct (node_shutdown_SDx n es Hk) as (es1 & vo & En & S & C0).
    pose proof (LivenessLaws.g_node_shutdown_post estate e_nt e_set_nt (fun _ _ => eq_refl) _ _ _ _ En) as (SDn & _).
    rewrite En in H. cbn [liftE] in H. inv H. exists es1.
    destruct (sdx_keep _ _ _ S) as (K1 & K2 & K3 & K4 & K5 & K6).
    destruct (SDx_ind _ _ _ (d_active (y_d s)) S) as (Sp & Eb & Enod & Etf & IR & Ek).
    assert (NG : gdM (d_set_sched (y_d s) (StE es1)) es1 -> False).
    { intros (A & _). cbn in A. congruence. }
    apply (gci_ctl (gdF s) (pssF s) _ True s es q _ es1 _ G).
    + right. eexists. exact Eevq.
    + intros k Hin Hnk. contradiction.
    + apply (cj_sdx (gdF s) (pssF s) _ _ es es1 vo J S Esd NG).
    + left. split; [reflexivity|]. cbn [spawn_ids]. apply spawn_ids_vfilter. apply is_sd_out_spawn. apply (sdx_outs _ _ _ S).
    + intros k Hk'. change (cmds_to k (OHook (HNodeReady n) :: vfilter (e_nt es) vo)) with (cmds_to k (vfilter (e_nt es) vo)).
      apply cmds_to_vf_incl. destruct (cmds_to k vo) eqn:E; [reflexivity|]. exfalso.
      assert (k = n) by (apply C0; rewrite E; discriminate). subst k. lia.
    + intros k f0 Ef0. destruct (SDo_fwd _ _ _ _ (sdx_nt _ _ _ S k) Ef0) as (f1 & Ef1 & _ & A & _). exists f1. auto.
    + apply DOWN; [reflexivity|]. intros k f1 Ef1. pose proof (sdx_nt _ _ _ S k) as R.
      destruct (aget k (e_nt es)) as [f0|] eqn:Ef0; [|rewrite Ef1 in R; destruct R].
      destruct (SDo_fwd _ _ _ _ R eq_refl) as (f1' & Ef1' & _ & A & _). exists f0. split; [reflexivity|congruence].
    + intros k w f0 f1 Hl Hw Ef0 Ef1. cbn [d_active d_set_sched].
      change (cmds_to k (OHook (HNodeReady n) :: vfilter (e_nt es) vo)) with (cmds_to k (vfilter (e_nt es) vo)).
      pose proof (Glive k w f0 Hl Hw Ef0) as X. rewrite (sigs_head s _ q k Eevq) in X.
      rewrite (cmds_to_vf _ _ _ _ Ef0 (ln_open _ _ _ _ _ _ _ _ _ _ X)).
      destruct (SDo_fwd _ _ _ _ (sdx_nt _ _ _ S k) Ef0) as (f1' & Ef1' & A1 & A2 & A3 & A4 & A5).
      assert (f1' = f1) by congruence. subst f1'.
      apply (LNI_ctl es es1 (d_active (y_d s)) (d_active (y_d s)) (gdF s) _ k f0 f1 (QReady n) _ _ _ (cmds_to k vo) w X);
        rewrite ?Enod, ?K2, ?K3, ?Eb; auto; try tauto.
      * destruct A5 as [(-> & ->)|(-> & H1 & H2 & ->)]; cbn; [tauto|]. split; [auto|reflexivity].
      * destruct A5 as [(-> & _)|(-> & _)]; repeat constructor.
      * unfold ev_sigs_for. cbn [ev_sig]. destruct (Nat.eqb n k); cbn; lia.
      * intros Hn. split; [exact Hn|]. destruct A5 as [(-> & _)|(-> & _)]; reflexivity.
      * intros E. injection E as E. subst k. destruct SDn as (fx & Efx & Hsx). assert (fx = f1) by congruence. subst fx.
        unfold shutting_down in Hsx. rewrite A2 in Hsx. apply orb_true_iff in Hsx. destruct Hsx; auto.
      * cbn. discriminate.
      * discriminate.
  - (* the node joins the scheduler with an empty book *)
    unfold mbind at 1 in H. rewrite (sched_op_runE _ _ es Els) in H. cbn [s_step] in H.
    destruct (e_add_node n es) as [[es1 o2] r2] eqn:Ea. cbn [lift] in H.
    destruct r2 as [u|e]; [|inv H]. destruct (e_add_node_inv _ _ _ _ _ Ea) as (Enew & -> & ->).
    unfold no_str, ret in H. inv H. eexists.
    set (es1 := e_set_n2p es (aset n [] (e_n2p es))).
    set (d1 := d_set_sched (y_d s) (StE es1)).
    assert (Hnew : ~ In n (e_nodes es)) by (apply ea_get_none; exact Enew).
    assert (Ek : forall m, In m (e_nodes es1) <-> m = n \/ In m (e_nodes es)).
    { intros m. unfold e_nodes, es1. cbn [e_n2p e_set_n2p]. apply ea_keys_set. }
    assert (Ebk : forall m, bkE es1 m = bkE es m).
    { intros m. unfold bkE, es1. cbn [e_n2p e_set_n2p]. destruct (Nat.eq_dec m n) as [->|Hm].
      - rewrite ea_alist_get_set_eq. symmetry. apply ea_alist_get_none. exact Enew.
      - apply ea_alist_get_set_neq. exact Hm. }
    assert (Etf : e_tests_finished es1 = e_tests_finished es) by (apply tf_add_empty; exact Enew).
    assert (Hgd : gdM d1 es1 -> gdF s) by (intros (A & _); exact Esd).
    apply (gci_ctl (gdF s) (pssF s) _ True s es q d1 es1 _ G).
    + right. eexists. exact Eevq.
    + intros k Hin Hnk. contradiction.
    + pose proof J as [_ Jnt Jact Jand Jnodes Jnnd Jn2c Jn2cnd Jst Jnum Jnc Jrem Jremnd Jbkst Jb Jss Jp Jtf Jsd Jcnt Jwhy Jinh].
      constructor; cbn [d1 d_sched d_set_sched d_shuttingdown d_shouldstop d_active d_next_gw]; auto.
      * intros m Hm. apply Ek in Hm. destruct Hm as [->|Hm]; [exact HnG|apply Jnodes; exact Hm].
      * unfold e_nodes, es1. cbn [e_n2p e_set_n2p]. apply ea_keys_set_nodup. exact Jnnd.
      * intros C0. destruct (Jnc C0) as (A & B & C1 & D). repeat split; auto. intros m. rewrite Ebk. apply D.
      * intros m Hm Hb. rewrite Ebk in Hb. apply Ek in Hm. destruct Hm as [->|Hm].
        -- exfalso. apply Hb. unfold bkE. apply ea_alist_get_none. exact Enew.
        -- apply Jbkst; assumption.
      * intros X Hss m Hm. apply Ek in Hm. destruct Hm as [->|Hm]; [exact Hna|apply (Jb (Hgd X) Hss); exact Hm].
      * intros X. apply Jp. exact (Hgd X).
      * intros (_ & _ & X). exact X.
      * intros X. rewrite Esd in X. discriminate.
      * intros X. rewrite Esd in X. discriminate.
      * intros X. apply Jinh. exact (Hgd X).
    + left. split; reflexivity.
    + intros k _. reflexivity.
    + intros k f0 Ef0. exists f0. auto.
    + apply (DOWN d1 es1); [reflexivity|]. intros k f1 Ef1. exists f1. auto.
    + intros k w f0 f1 Hl Hw Ef0 Ef1. assert (f1 = f0) by (cbn in Ef1; congruence). subst f1.
      cbn [d1 d_active d_set_sched cmds_to flat_map cmd_to app].
      pose proof (Glive k w f0 Hl Hw Ef0) as X. rewrite (sigs_head s _ q k Eevq) in X.
      destruct (Nat.eq_dec k n) as [->|Hkn].
      * apply (LNI_ctl es es1 (d_active (y_d s)) (d_active (y_d s)) (gdF s) _ n f0 f0 (QReady n) _ _ _ [] w X);
          rewrite ?Ebk; auto; cbn [completes ev_sigs_for ev_sig flat_map length In]; try tauto;
          try (constructor; fail); try (rewrite Nat.eqb_refl; cbn; lia);
          try (intros _; left; apply Ek; left; reflexivity);
          try (intros ? E; discriminate E); try (intros E; discriminate E); try discriminate.
      * assert (E0 : ev_sigs_for k (QReady n) = []).
        { unfold ev_sigs_for. cbn. destruct (Nat.eqb n k) eqn:E; [apply Nat.eqb_eq in E; congruence|reflexivity]. }
        apply (LNI_untouched es es1 (d_active (y_d s)) (d_active (y_d s)) (gdF s) _ k f0 (QReady n)); auto; try tauto.
        -- discriminate.
        -- rewrite Ebk. lia.
        -- rewrite Ek. split; [intros [F|F]; [congruence|exact F]|auto].
Qed.

Lemma forallb_aset {V} (f : nat * V -> bool) n v (l : amap V) :
  forallb f l = true -> f (n, v) = true -> forallb f (aset n v l) = true.
Proof.
  intros H1 H2. apply forallb_forall. intros [k x] Hin. apply ea_in_set in Hin.
  destruct Hin as [(-> & ->)|Hin]; [exact H2|]. rewrite forallb_forall in H1. apply H1. exact Hin.
Qed.

Lemma remove_first_length i l l' : remove_first i l = Some l' -> length l = S (length l').
Proof.
  revert l'. induction l as [|y r IH]; intros l' H; [discriminate|]. cbn in H.
  destruct (Nat.eqb i y); [inv H; reflexivity|].
  destruct (remove_first i r) as [r'|] eqn:E; [|discriminate]. inv H. cbn. rewrite (IH r' eq_refl). reflexivity.
Qed.

Lemma e_complete_inv n i es es' o r :
  e_mark_test_complete n i es = (es', o, Ok r) ->
  exists cur cur', aget n (e_n2p es) = Some cur /\ remove_first i cur = Some cur' /\
    es' = e_set_n2p es (aset n cur' (e_n2p es)) /\ o = [].
Proof.
  unfold e_mark_test_complete, mbind, get, of_opt, put, ret, raise.
  destruct (aget n (e_n2p es)) as [cur|] eqn:E; cbn; [|intros H; inv H].
  destruct (remove_first i cur) as [cur'|] eqn:E'; cbn; intros H; inv H. eauto 10.
Qed.

Lemma gci_handle_complete s es n i ms q d1 o1 :
  GCI c (gdF s) (pssF s) s es -> y_evq s = QComplete n i ms :: q ->
  d_handle (QComplete n i ms) (y_d s) = (d1, o1, Ok tt) ->
  exists es1, GCI c (gdM d1 es1) True (apply_outs (set_d (set_evq s q) d1) o1) es1.
Proof.
  intros G Eevq H.
  pose proof (gci_cj _ _ _ _ G) as J. pose proof (cj_sched _ _ _ _ _ J) as Els.
  pose proof (g_down _ _ _ _ _ G) as Gdown. pose proof (g_live _ _ _ _ _ G) as Glive.
  cbn [d_handle] in H. unfold mbind at 1 in H. rewrite (sched_op_runE _ _ es Els) in H. cbn [s_step] in H.
  destruct (e_mark_test_complete n i es) as [[es1 o2] r2] eqn:Em. cbn [lift] in H.
  destruct r2 as [u|e]; [|inv H]. destruct (e_complete_inv _ _ _ _ _ _ Em) as (cur & cur' & Ecur & Erf & -> & ->).
  unfold no_str, ret in H. inv H. eexists.
  set (es1 := e_set_n2p es (aset n cur' (e_n2p es))).
  set (d1 := d_set_sched (y_d s) (StE es1)).
  pose proof (remove_first_length _ _ _ Erf) as Elen.
  assert (Hin : In n (e_nodes es)) by (apply ea_keys_get; congruence).
  assert (Ekeys : e_nodes es1 = e_nodes es).
  { unfold e_nodes, es1. cbn [e_n2p e_set_n2p]. apply ea_keys_set_in. exact Hin. }
  assert (Ebn : bkE es n = cur) by (unfold bkE, alist_get; rewrite Ecur; reflexivity).
  assert (Ebn1 : bkE es1 n = cur') by (unfold bkE, es1; cbn [e_n2p e_set_n2p]; apply ea_alist_get_set_eq).
  assert (Ebk : forall m, m <> n -> bkE es1 m = bkE es m).
  { intros m Hm. unfold bkE, es1. cbn [e_n2p e_set_n2p]. apply ea_alist_get_set_neq. exact Hm. }
  assert (Hgd : gdM d1 es1 -> gdF s) by (intros (A & _); exact A).
  apply (gci_ctl (gdF s) (pssF s) _ True s es q d1 es1 _ G).
  - right. eexists. exact Eevq.
  - intros k Hk Hnk. contradiction.
  - pose proof J as [_ Jnt Jact Jand Jnodes Jnnd Jn2c Jn2cnd Jst Jnum Jnc Jrem Jremnd Jbkst Jb Jss Jp Jtf Jsd Jcnt Jwhy Jinh].
    constructor; cbn [d1 d_sched d_set_sched d_shuttingdown d_shouldstop d_active d_next_gw]; rewrite ?Ekeys; auto.
    + intros C0. exfalso. destruct (Jnc C0) as (_ & _ & _ & D). rewrite (D n) in Ebn. subst cur. discriminate.
    + intros m Hm Hb. destruct (Nat.eq_dec m n) as [->|Hmn].
      * apply Jbkst; [exact Hm|]. rewrite Ebn. intros ->. discriminate.
      * rewrite (Ebk m Hmn) in Hb. apply Jbkst; assumption.
    + intros X. apply Jp. exact (Hgd X).
    + intros (_ & _ & X). exact X.
    + intros X. destruct (Jwhy X) as [Y|[Y|Y]]; auto. right. right.
      unfold e_tests_finished in *. cbn [es1 e_completed e_removed e_n2p e_set_n2p].
      apply andb_true_iff in Y. destruct Y as (Y1 & Y2). rewrite Y1. cbn [andb].
      apply forallb_aset; [exact Y2|]. cbn [snd].
      rewrite forallb_forall in Y2. pose proof (Y2 (n, cur) (ea_aget_in _ _ _ Ecur)) as Y3. cbn [snd] in Y3.
      apply Nat.ltb_lt. apply Nat.ltb_lt in Y3. lia.
    + intros X. apply Jinh. exact (Hgd X).
  - left. split; reflexivity.
  - intros k _. reflexivity.
  - intros k f0 Ef0. exists f0. auto.
  - intros k f1 Ef1 Hdn Hact. destruct (Gdown k f1 Ef1 Hdn Hact) as (ev' & Hi & Hf).
    rewrite Eevq in Hi. destruct Hi as [<-|Hi]; [discriminate Hf|]. exists ev'. auto.
  - intros k w f0 f1 Hl Hw Ef0 Ef1. assert (f1 = f0) by (cbn in Ef1; congruence). subst f1.
    cbn [d1 d_active d_set_sched cmds_to flat_map cmd_to app].
    pose proof (Glive k w f0 Hl Hw Ef0) as X. rewrite (sigs_head s _ q k Eevq) in X.
    destruct (Nat.eq_dec k n) as [->|Hkn].
    + apply (LNI_ctl es es1 (d_active (y_d s)) (d_active (y_d s)) (gdF s) _ n f0 f0 (QComplete n i ms) _ _ _ [] w X);
        rewrite ?Ekeys, ?Ebn, ?Ebn1; auto; cbn [completes ev_sigs_for ev_sig flat_map length In]; try tauto;
        try (constructor; fail); try (rewrite Nat.eqb_refl; cbn; lia);
        try (intros ? E; discriminate E); try (intros E; discriminate E); try discriminate.
    + assert (E0 : ev_sigs_for k (QComplete n i ms) = []).
      { unfold ev_sigs_for. cbn. destruct (Nat.eqb n k) eqn:E; [apply Nat.eqb_eq in E; congruence|reflexivity]. }
      apply (LNI_untouched es es1 (d_active (y_d s)) (d_active (y_d s)) (gdF s) _ k f0 (QComplete n i ms)); auto;
        rewrite ?Ekeys; try tauto; try discriminate.
      rewrite (Ebk k Hkn). lia.
Qed.

(* ---- remove_node, every outcome ---- *)
Definition es_rm0 (n : nat) (es : estate) : estate :=
  let s0 := e_set_n2p es (adel n (e_n2p es)) in
  if e_completed es then s0 else e_set_n2c s0 (adel n (e_n2c es)).

Lemma e_remove_inv n es es' o r :
  e_remove_node n es = (es', o, r) ->
  o = [] /\
  ((aget n (e_n2p es) = None /\ r = Err EKey /\ es' = es) \/
   (aget n (e_n2p es) = Some [] /\ r = Ok None /\ es' = es_rm0 n es) \/
   (exists i rest, aget n (e_n2p es) = Some (i :: rest) /\
      ((aget n (e_n2c (es_rm0 n es)) = None /\ r = Err EKey /\ es' = es_rm0 n es) \/
       (exists coll, aget n (e_n2c (es_rm0 n es)) = Some coll /\
          ((nth_error coll i = None /\ r = Err EIndex /\ es' = es_rm0 n es) \/
           (exists crash, nth_error coll i = Some crash /\ r = Ok (Some crash) /\
              es' = match rest with [] => es_rm0 n es
                    | _ => e_set_removed (es_rm0 n es) (aset n rest (e_removed es)) end)))))).
Proof.
  intros H. unfold e_remove_node, mbind, get, put, of_opt, ret, raise in H. unfold es_rm0.
  destruct (aget n (e_n2p es)) as [pend|] eqn:Ep; cbn in H.
  2:{ inv H. split; [reflexivity|]. left. auto. }
  destruct (e_completed es) eqn:Ec; cbn in H.
  - destruct pend as [|i rest]; cbn in H.
    + inv H. split; [reflexivity|]. right. left. auto.
    + cbn [e_n2c e_set_n2p]. destruct (aget n (e_n2c es)) as [coll|] eqn:Ecl; cbn in H.
      2:{ inv H. split; [reflexivity|]. right. right. exists i, rest. split; [reflexivity|]. left. auto. }
      destruct (nth_error coll i) as [crash|] eqn:En; cbn in H.
      2:{ inv H. split; [reflexivity|]. right. right. exists i, rest. split; [reflexivity|]. right.
          exists coll. split; [reflexivity|]. left. auto. }
      destruct rest as [|j rest]; cbn in H; inv H; (split; [reflexivity|]); right; right;
        eexists; eexists; (split; [reflexivity|]); right; exists coll; (split; [reflexivity|]); right;
        exists crash; auto.
  - destruct pend as [|i rest]; cbn in H.
    + inv H. split; [reflexivity|]. right. left. auto.
    + cbn [e_n2c e_set_n2c e_set_n2p]. destruct (aget n (adel n (e_n2c es))) as [coll|] eqn:Ecl; cbn in H.
      2:{ inv H. split; [reflexivity|]. right. right. exists i, rest. split; [reflexivity|]. left. auto. }
      destruct (nth_error coll i) as [crash|] eqn:En; cbn in H.
      2:{ inv H. split; [reflexivity|]. right. right. exists i, rest. split; [reflexivity|]. right.
          exists coll. split; [reflexivity|]. left. auto. }
      destruct rest as [|j rest]; cbn in H; inv H; (split; [reflexivity|]); right; right;
        eexists; eexists; (split; [reflexivity|]); right; exists coll; (split; [reflexivity|]); right;
        exists crash; auto.
Qed.

Lemma adel_keys_iff {V} n (m : amap V) k : NoDup (akeys m) -> (In k (akeys (adel n m)) <-> In k (akeys m) /\ k <> n).
Proof.
  intros ND. split.
  - intros H. split; [eapply ea_keys_del; eauto|]. intros ->. exact (ea_keys_del_not _ _ ND H).
  - intros (H & Hne). apply in_akeys_adel_neq; assumption.
Qed.

Lemma filter_neq_length n l : NoDup l -> In n l -> S (length (filter (fun m => negb (Nat.eqb m n)) l)) = length l.
Proof.
  induction l as [|a l IH]; intros ND Hin; [destruct Hin|]. inversion ND as [|x xs Hni ND']; subst. cbn [filter].
  destruct (Nat.eqb a n) eqn:E; cbn [negb].
  - apply Nat.eqb_eq in E. subst a. cbn [length]. f_equal.
    clear -Hni. induction l as [|b l IH]; [reflexivity|]. cbn [filter].
    destruct (Nat.eqb b n) eqn:E; [apply Nat.eqb_eq in E; subst; exfalso; apply Hni; left; reflexivity|].
    cbn. f_equal. apply IH. intros X. apply Hni. right. exact X.
  - cbn [length]. f_equal. apply IH; [exact ND'|]. destruct Hin as [->|Hin]; [rewrite Nat.eqb_refl in E; discriminate|exact Hin].
Qed.

Lemma NoDup_filter_neq n l : NoDup l -> NoDup (filter (fun m => negb (Nat.eqb m n)) l).
Proof. apply NoDup_filter. Qed.

(* an idle node leaves the scheduler *)
Lemma rm0_facts es n :
  NoDup (e_nodes es) -> NoDup (akeys (e_n2c es)) -> aget n (e_n2p es) = Some [] ->
  let es1 := es_rm0 n es in
  e_nt es1 = e_nt es /\ e_removed es1 = e_removed es /\ e_started es1 = e_started es /\
  e_completed es1 = e_completed es /\ e_numnodes es1 = e_numnodes es /\
  (forall m, In m (e_nodes es1) <-> In m (e_nodes es) /\ m <> n) /\ NoDup (e_nodes es1) /\
  (forall m, bkE es1 m = bkE es m) /\
  (e_completed es = true -> e_n2c es1 = e_n2c es) /\
  (forall m, In m (akeys (e_n2c es1)) -> In m (akeys (e_n2c es))) /\
  (forall m, m <> n -> In m (akeys (e_n2c es)) -> In m (akeys (e_n2c es1))) /\
  NoDup (akeys (e_n2c es1)) /\ (forall x, In x (e_n2c es1) -> In x (e_n2c es)) /\
  length (e_n2c es1) <= length (e_n2c es) /\
  (e_tests_finished es = true -> e_tests_finished es1 = true).
Proof.
  intros ND1 ND2 Hb. cbv zeta. unfold es_rm0.
  assert (BK : forall m, alist_get [] m (adel n (e_n2p es)) = bkE es m).
  { intros m. unfold bkE. destruct (Nat.eq_dec m n) as [->|Hm].
    - rewrite (ea_alist_get_none [] n _ (ea_get_del_eq n _ ND1)). unfold alist_get. rewrite Hb. reflexivity.
    - unfold alist_get. rewrite ea_get_del_neq by exact Hm. reflexivity. }
  assert (TF : forallb (fun p : nat * list nat => length (snd p) <? 2) (e_n2p es) = true ->
               forallb (fun p : nat * list nat => length (snd p) <? 2) (adel n (e_n2p es)) = true).
  { intros H. apply forallb_forall. intros x Hx. rewrite forallb_forall in H. apply H. eapply ea_in_del; eauto. }
  destruct (e_completed es) eqn:C0;
    cbn [e_nt e_removed e_started e_completed e_numnodes e_n2p e_n2c e_set_n2p e_set_n2c e_nodes bkE];
    (split; [reflexivity|]); (split; [reflexivity|]); (split; [reflexivity|]); (split; [first [reflexivity|exact C0]|]);
    (split; [reflexivity|]); (split; [intros m; apply adel_keys_iff; exact ND1|]);
    (split; [apply ea_keys_del_nodup; exact ND1|]); (split; [exact BK|]).
  - split; [auto|]. split; [auto|]. split; [auto|]. split; [exact ND2|]. split; [auto|]. split; [lia|].
    unfold e_tests_finished. cbn [e_completed e_removed e_n2p e_set_n2p]. rewrite C0. intros H.
    apply andb_true_iff in H. destruct H as (H1 & H2). rewrite H1. apply TF. exact H2.
  - split; [discriminate|]. split; [intros m; apply ea_keys_del|].
    split; [intros m Hm Hin; apply in_akeys_adel_neq; assumption|].
    split; [apply ea_keys_del_nodup; exact ND2|]. split; [intros x; apply ea_in_del|]. split; [apply ea_length_del|].
    unfold e_tests_finished. cbn [e_completed e_removed e_n2p e_set_n2p e_set_n2c]. rewrite C0. discriminate.
Qed.

Lemma sumf_ext_seq (f g : nat -> nat) n : (forall k, k < n -> f k = g k) -> sumf f (seq 0 n) = sumf g (seq 0 n).
Proof. intros H. apply sumf_ext_in. intros k Hk. apply H. apply in_seq in Hk. lia. Qed.

Lemma gci_handle_finished s es n sk q d1 o1 :
  GCI c (gdF s) (pssF s) s es -> y_evq s = QFinished n sk :: q ->
  d_handle (QFinished n sk) (y_d s) = (d1, o1, Ok tt) ->
  exists es1, GCI c (gdM d1 es1) True (apply_outs (set_d (set_evq s q) d1) o1) es1.
Proof.
  intros G Eevq H.
  pose proof (gci_cj _ _ _ _ G) as J. pose proof (cj_sched _ _ _ _ _ J) as Els.
  pose proof (g_ntk _ _ _ _ _ G) as Gnt. pose proof (g_down _ _ _ _ _ G) as Gdown. pose proof (g_live _ _ _ _ _ G) as Glive.
  pose proof J as [_ Jnt Jact Jand Jnodes Jnnd Jn2c Jn2cnd Jst Jnum Jnc Jrem Jremnd Jbkst Jb Jss Jp Jtf Jsd Jcnt Jwhy Jinh].
  assert (Hok : sk <> SKKbd /\ n < d_next_gw (y_d s)).
  { pose proof (g_evq _ _ _ _ _ G) as Gevq. rewrite Eevq in Gevq. inversion Gevq as [|x l (A & B) _]; subst.
    split; [intros ->; exact A|exact B]. }
  destruct Hok as (Hsk & HnG).
  destruct (aget n (e_nt es)) as [f|] eqn:Ef; [|exfalso; apply (proj2 (Gnt n) HnG); exact Ef].
  assert (Hna : In n (d_active (y_d s))).
  { destruct (in_dec Nat.eq_dec n (d_active (y_d s))) as [X|X]; [exact X|]. exfalso.
    destruct (g_gone _ _ _ _ _ G n HnG X) as (A & _). apply (A (QFinished n sk)); [rewrite Eevq; left; reflexivity|reflexivity]. }
  set (b := match sk with SKNone => false | _ => true end).
  assert (Hsig : ev_sig (QFinished n sk) = Some (n, SgFin b)) by reflexivity.
  (* the worker of n is alive and has exited; without a stop request it was told to shut down *)
  assert (Hlive : ~ In n (y_dead s)).
  { intros Hd. apply (g_finlive _ _ _ _ _ G n b Hd). rewrite (sigs_head s _ q n Eevq), (ev_sigs_for_self _ _ _ Hsig). left. reflexivity. }
  destruct (aget n (y_w s)) as [wn|] eqn:Ewn; [|exfalso; apply (proj2 (g_wk _ _ _ _ _ G n) HnG); exact Ewn].
  pose proof (Glive n wn f Hlive Ewn Ef) as Xn. rewrite (sigs_head s _ q n Eevq), (ev_sigs_for_self _ _ _ Hsig) in Xn. cbn [app] in Xn.
  assert (Hsd : sk = SKNone -> n_sdsent f = true).
  { intros ->. apply (ln_mark _ _ _ _ _ _ _ _ _ _ Xn). apply in_or_app. left.
    destruct (ln_fm _ _ _ _ _ _ _ _ _ _ Xn (or_introl (or_introl eq_refl))) as (pre & t & Ep).
    unfold wstr. rewrite Ep, map_app. apply in_or_app. left. apply in_or_app. right. left. reflexivity. }
  assert (DOWN : forall es', (forall k f1, aget k (e_nt es') = Some f1 -> aget k (e_nt es) = Some f1) ->
            forall k f1, aget k (e_nt es') = Some f1 -> n_down f1 = true ->
            In k (filter (fun m => negb (Nat.eqb m n)) (d_active (y_d s))) ->
            exists ev', In ev' q /\ is_fin_ev k ev' = true).
  { intros es' Hfl k f1 Ef1 Hdn Hact. apply in_filter_neq in Hact. destruct Hact as (Hact & Hkn).
    destruct (Gdown k f1 (Hfl k f1 Ef1) Hdn Hact) as (ev' & Hin & Hf).
    rewrite Eevq in Hin. destruct Hin as [<-|Hin]; [|exists ev'; auto].
    exfalso. cbn in Hf. apply Nat.eqb_eq in Hf. congruence. }
  assert (LEFT : forall k, In k (d_active (y_d s)) -> ~ In k (filter (fun m => negb (Nat.eqb m n)) (d_active (y_d s))) ->
            exists ev, y_evq s = ev :: q /\ is_fin_ev k ev = true).
  { intros k Hk Hnk. exists (QFinished n sk). split; [exact Eevq|]. cbn.
    destruct (Nat.eq_dec k n) as [->|Hkn]; [apply Nat.eqb_refl|]. exfalso. apply Hnk. apply in_filter_neq. auto. }
  cbn [d_handle] in H. unfold d_worker_workerfinished, hook in H. rewrite mbind_emit in H.
  destruct sk; [| |congruence].
  - (* no stop request: the node leaves the scheduler *)
    specialize (Hsd eq_refl).
    assert (Hcomp : gdF s -> e_completed es = true) by (intros X; exact (Jp X n f Ef Hsd)).
    rewrite mbind_get in H. rewrite Els in H. cbn [s_nodes] in H.
    assert (STEP : exists es1,
      ((if mem_nat n (e_nodes es)
        then r0 <- d_sched_op (SRemove n);; massert match r0 with Some s0 => (s0 =? "")%string | None => true end
        else ret tt) (y_d s)) = (d_set_sched (y_d s) (StE es1), [], Ok tt) /\
      ((~ In n (e_nodes es) /\ es1 = es) \/ (aget n (e_n2p es) = Some [] /\ es1 = es_rm0 n es))).
    { destruct (mem_nat n (e_nodes es)) eqn:Em.
      - apply mem_nat_In in Em.
        unfold mbind at 1 in H. unfold mbind at 1 in H. rewrite (sched_op_runE _ _ es Els) in H. cbn [s_step] in H.
        destruct (e_remove_node n es) as [[es1 o2] r2] eqn:Er. cbn [lift] in H.
        destruct (e_remove_inv _ _ _ _ _ Er) as (-> & [(A & -> & ->)|[(A & -> & ->)|(i & rest & A & B)]]).
        + inv H.
        + exists (es_rm0 n es). split; [|right; auto].
          unfold mbind. rewrite (sched_op_runE _ _ es Els). cbn [s_step]. rewrite Er. cbn [lift massert]. reflexivity.
        + exfalso. destruct B as [(_ & -> & ->)|(coll & Ec & [(_ & -> & ->)|(crash & En & -> & ->)])]; try (inv H; fail).
          cbn [massert] in H.
          assert (Hcr : crash <> ""%string).
          { intros ->. apply Hnoempty. apply nth_error_In in En.
            assert (Ecl : coll = coll0 c).
            { unfold es_rm0 in Ec. destruct (e_completed es); cbn [e_n2c e_set_n2c e_set_n2p] in Ec.
              - apply ea_aget_in in Ec. exact (proj1 (Jn2c _ _ Ec)).
              - apply ea_aget_in in Ec. apply ea_in_del in Ec. exact (proj1 (Jn2c _ _ Ec)). }
            rewrite <- Ecl. exact En. }
          apply String.eqb_neq in Hcr. rewrite Hcr in H. cbn in H. inv H.
      - apply mem_nat_false in Em. exists es. split; [rewrite d_set_sched_same by exact Els; reflexivity|left; auto]. }
    destruct STEP as (es1 & Erun & Hes1).
    unfold mbind at 1 in H. rewrite Erun in H.
    rewrite (active_remove_run n (d_set_sched (y_d s) (StE es1)) Hna) in H. inv H. exists es1.
    set (act1 := filter (fun m => negb (Nat.eqb m n)) (d_active (y_d s))).
    set (d1 := d_set_active (d_set_sched (y_d s) (StE es1)) act1).
    (* the facts about es1 that both cases share *)
    assert (FX : e_nt es1 = e_nt es /\ e_removed es1 = e_removed es /\ e_started es1 = e_started es /\
                 e_completed es1 = e_completed es /\ e_numnodes es1 = e_numnodes es /\
                 (forall m, In m (e_nodes es1) <-> In m (e_nodes es) /\ m <> n) /\ NoDup (e_nodes es1) /\
                 (forall m, bkE es1 m = bkE es m) /\
                 (e_completed es = true -> e_n2c es1 = e_n2c es) /\
                 (forall m, In m (akeys (e_n2c es1)) -> In m (akeys (e_n2c es))) /\
                 (forall m, m <> n -> In m (akeys (e_n2c es)) -> In m (akeys (e_n2c es1))) /\
                 NoDup (akeys (e_n2c es1)) /\ (forall x, In x (e_n2c es1) -> In x (e_n2c es)) /\
                 length (e_n2c es1) <= length (e_n2c es) /\
                 (e_tests_finished es = true -> e_tests_finished es1 = true)).
    { destruct Hes1 as [(Hni & ->)|(Hb & ->)].
      - do 5 (split; [reflexivity|]).
        split; [intros m; split; [intros Hm; split; [exact Hm|intros ->; contradiction]|intros (A & _); exact A]|].
        split; [exact Jnnd|]. split; [reflexivity|]. split; [reflexivity|]. split; [auto|]. split; [auto|].
        split; [exact Jn2cnd|]. split; [auto|]. split; [lia|auto].
      - apply rm0_facts; assumption. }
    destruct FX as (Fnt & Frm & Fst & Fcomp & Fnum & Fnodes & Fnnd & Fbk & Fcb & Fn2c & Fn2ck & Fn2cnd & Fent & Flen & Ftf).
    assert (Hgd : gdM d1 es1 -> gdF s) by (intros (A & _); exact A).
    apply (gci_ctl (gdF s) (pssF s) _ True s es q d1 es1 _ G).
    + right. eexists. exact Eevq.
    + exact LEFT.
    + constructor; cbn [d1 d_sched d_set_sched d_set_active d_shuttingdown d_shouldstop d_active d_next_gw];
        rewrite ?Fnt, ?Frm, ?Fst, ?Fcomp, ?Fnum.
      * reflexivity.
      * exact Jnt.
      * intros m Hm. apply in_filter_neq in Hm. apply Jact. tauto.
      * apply NoDup_filter_neq. exact Jand.
      * intros m Hm. apply Jnodes. apply Fnodes. exact Hm.
      * exact Fnnd.
      * intros m ids Hin. apply Jn2c. apply Fent. exact Hin.
      * exact Fn2cnd.
      * exact Jst.
      * exact Jnum.
      * intros C0. destruct (Jnc C0) as (A & B & C1 & D). split; [lia|]. repeat split; auto. intros m. rewrite Fbk. apply D.
      * intros m rest Hin. destruct (Jrem m rest Hin) as (A & B & C0). split; [exact A|]. split; [exact B|].
        assert (Hc : e_completed es = true).
        { destruct (e_completed es) eqn:C1; [reflexivity|]. destruct (Jnc eq_refl) as (_ & X & _). rewrite X in Hin. destruct Hin. }
        rewrite (Fcb Hc). exact C0.
      * exact Jremnd.
      * intros m Hm Hb. rewrite Fbk in Hb. apply Fnodes in Hm. destruct Hm as (Hm & Hmn).
        apply Fn2ck; [exact Hmn|]. exact (Jbkst m Hm Hb).
      * intros X Hss m Hm. apply Fnodes in Hm. destruct Hm as (Hm & Hmn). apply in_filter_neq. split; [|exact Hmn].
        apply (Jb (Hgd X) Hss). exact Hm.
      * exact Logic.I.
      * intros X. apply Jp. exact (Hgd X).
      * intros (_ & _ & X). exact X.
      * intros X m Hm. apply Fnodes in Hm. apply Jsd; tauto.
      * intros X C0. rewrite (Hcomp (Hgd X)) in C0. discriminate.
      * intros X. destruct (Jwhy X) as [Y|[Y|Y]]; auto.
      * intros X sg. pose proof (Jinh (Hgd X) sg) as Y.
        rewrite (sumf_ext_seq (indR es1 sg) (indR es sg)), (sumf_ext_seq (indP act1 es1 sg) (indP (d_active (y_d s)) es sg)); [exact Y| |].
        -- intros k _. unfold indP, sdb, specb. rewrite Fnt, (Fcb (Hcomp (Hgd X))).
           destruct (Nat.eq_dec k n) as [->|Hkn].
           ++ rewrite Ef, Hsd. cbn [negb]. rewrite !andb_false_r. reflexivity.
           ++ replace (mem_nat k act1) with (mem_nat k (d_active (y_d s))); [reflexivity|].
              destruct (mem_nat k (d_active (y_d s))) eqn:E1; symmetry.
              ** apply mem_nat_In. apply in_filter_neq. split; [apply mem_nat_In; exact E1|exact Hkn].
              ** apply mem_nat_false. intros Y0. apply in_filter_neq in Y0. apply mem_nat_false in E1. tauto.
        -- intros k _. unfold indR, specb. rewrite Frm, Fnt. reflexivity.
    + left. split; reflexivity.
    + intros k _. reflexivity.
    + intros k f0 Ef0. exists f0. rewrite Fnt. auto.
    + apply (DOWN es1). intros k f1. rewrite Fnt. auto.
    + intros k w f0 f1 Hl Hw Ef0 Ef1. assert (f1 = f0) by (rewrite Fnt in Ef1; congruence). subst f1.
      cbn [d1 d_active d_set_active d_set_sched cmds_to flat_map cmd_to app].
      pose proof (Glive k w f0 Hl Hw Ef0) as X. rewrite (sigs_head s _ q k Eevq) in X.
      destruct (Nat.eq_dec k n) as [->|Hkn].
      * apply (LNI_ctl es es1 (d_active (y_d s)) act1 (gdF s) _ n f0 f0 (QFinished n SKNone) _ _ _ [] w X);
          rewrite ?Fbk, ?Fst; auto; cbn [completes ev_sigs_for ev_sig flat_map length In is_fin_ev]; try tauto;
          try (constructor; fail); try (rewrite ?Nat.eqb_refl; cbn; lia);
          try (intros ? E; discriminate E); try (intros E; discriminate E); try discriminate.
        -- intros Hm. left. apply Fnodes. exact Hm.
        -- intros X0 Hm. rewrite (Fcb (Hcomp (Hgd X0))). exact Hm.
        -- intros _ Hm. apply in_filter_neq in Hm. destruct Hm as (_ & F). apply F. reflexivity.
      * assert (E0 : ev_sigs_for k (QFinished n SKNone) = []).
        { unfold ev_sigs_for. cbn. destruct (Nat.eqb n k) eqn:E; [apply Nat.eqb_eq in E; congruence|reflexivity]. }
        apply (LNI_untouched es es1 (d_active (y_d s)) act1 (gdF s) _ k f0 (QFinished n SKNone)); auto; try discriminate.
        -- rewrite Fbk. lia.
        -- rewrite Fst. tauto.
        -- rewrite Fnodes. tauto.
        -- split; [apply Fn2c|apply Fn2ck; exact Hkn].
        -- unfold act1. rewrite in_filter_neq. tauto.
  - (* a stop request *)
    assert (STEP : exists d2, (d0 <- get;; (if d_shouldstop d0 then ret tt else put (d_set_shouldstop d0 true))) (y_d s) = (d2, [], Ok tt) /\
              d_sched d2 = d_sched (y_d s) /\ d_shuttingdown d2 = d_shuttingdown (y_d s) /\ d_active d2 = d_active (y_d s) /\
              d_shouldstop d2 = true /\ same_budget (y_d s) d2).
    { rewrite mbind_get. destruct (d_shouldstop (y_d s)) eqn:Ess.
      - exists (y_d s). repeat split; auto.
      - eexists. split; [reflexivity|]. repeat split; auto. }
    destruct STEP as (d2 & Erun & S1 & S2 & S3 & S4 & (B1 & B2 & B3)).
    unfold mbind at 1 in H. rewrite Erun in H.
    assert (Hina : In n (d_active d2)) by (rewrite S3; exact Hna).
    rewrite (active_remove_run n d2 Hina) in H. inv H. exists es.
    set (act1 := filter (fun m => negb (Nat.eqb m n)) (d_active d2)).
    assert (NG : gdM (d_set_active d2 act1) es -> False).
    { intros (_ & A & _). cbn in A. congruence. }
    assert (Eex : exhausted (d_set_active d2 act1) = exhausted (y_d s)) by (unfold exhausted; cbn; rewrite B1, B2; reflexivity).
    apply (gci_ctl (gdF s) (pssF s) _ True s es q _ es _ G).
    + right. eexists. exact Eevq.
    + cbn [d_active d_set_active]. unfold act1. rewrite S3. exact LEFT.
    + constructor; rewrite ?Eex; cbn [d_sched d_set_active d_shuttingdown d_shouldstop d_active d_next_gw];
        rewrite ?S1, ?S2, ?B3; auto; try (intros X; exfalso; exact (NG X)).
      * unfold act1. rewrite S3. intros m Hm. apply in_filter_neq in Hm. apply Jact. tauto.
      * unfold act1. rewrite S3. apply NoDup_filter_neq. exact Jand.
    + left. split; [cbn; exact B3|reflexivity].
    + intros k _. reflexivity.
    + intros k f0 Ef0. exists f0. auto.
    + cbn [d_active d_set_active]. unfold act1. rewrite S3. apply (DOWN es). auto.
    + intros k w f0 f1 Hl Hw Ef0 Ef1. assert (f1 = f0) by congruence. subst f1.
      cbn [d_active d_set_active cmds_to flat_map cmd_to app]. unfold act1. rewrite S3.
      pose proof (Glive k w f0 Hl Hw Ef0) as X. rewrite (sigs_head s _ q k Eevq) in X.
      destruct (Nat.eq_dec k n) as [->|Hkn].
      * apply (LNI_ctl es es (d_active (y_d s)) _ (gdF s) _ n f0 f0 (QFinished n SKStop) _ _ _ [] w X);
          auto; cbn [completes ev_sigs_for ev_sig flat_map length In is_fin_ev]; try tauto;
          try (constructor; fail); try (rewrite ?Nat.eqb_refl; cbn; lia);
          try (intros ? E; discriminate E); try (intros E; discriminate E); try discriminate.
        intros _ Hm. apply in_filter_neq in Hm. destruct Hm as (_ & F). apply F. reflexivity.
      * assert (E0 : ev_sigs_for k (QFinished n SKStop) = []).
        { unfold ev_sigs_for. cbn. destruct (Nat.eqb n k) eqn:E; [apply Nat.eqb_eq in E; congruence|reflexivity]. }
        apply (LNI_untouched es es (d_active (y_d s)) _ (gdF s) _ k f0 (QFinished n SKStop)); auto; try discriminate; try tauto;
          try (intros Y; exfalso; exact (NG Y)).
        rewrite in_filter_neq. tauto.
Qed.

(* ---- errordown: the try block (remove_node / KeyError / handle_crashitem) ---- *)
Definition RM (n : nat) (es es2 : estate) : Prop :=
  (aget n (e_n2p es) = None /\ es2 = es) \/
  (aget n (e_n2p es) = Some [] /\ es2 = es_rm0 n es) \/
  (exists i rest, aget n (e_n2p es) = Some (i :: rest) /\ e_completed es = true /\ aget n (e_n2c es) <> None /\
     es2 = match rest with [] => es_rm0 n es | _ => e_set_removed (es_rm0 n es) (aset n rest (e_removed es)) end).

Lemma crashitem_x item n d es d' o :
  d_sched d = StE es -> d_handle_crashitem item n d = (d', o, Ok tt) ->
  d' = d /\ spawn_ids o = [] /\ (forall k, cmds_to k o = []).
Proof.
  intros Els H. unfold d_handle_crashitem, hook, mbind, emit, get, put, ret in H.
  destruct (d_requeue d) as [|k] eqn:Erq.
  - inv H. repeat split; auto.
  - exfalso. unfold d_sched_op in H. cbn [d_sched d_set_requeue] in H. rewrite Els in H. cbn in H. inv H.
Qed.

Lemma try_block_x n d es d2 o2 :
  d_sched d = StE es ->
  (forall i rest, aget n (e_n2p es) = Some (i :: rest) -> e_completed es = true /\ aget n (e_n2c es) <> None) ->
  try_block n d = (d2, o2, Ok tt) ->
  exists es2, d2 = d_set_sched d (StE es2) /\ spawn_ids o2 = [] /\ (forall k, cmds_to k o2 = []) /\ RM n es es2.
Proof.
  intros Els Hbusy H. unfold try_block in H. rewrite (sched_op_runE _ _ es Els) in H. cbn [s_step] in H.
  destruct (e_remove_node n es) as [[es2 o] r] eqn:Er. cbn [lift] in H.
  destruct (e_remove_inv _ _ _ _ _ Er) as (-> & [(A & -> & ->)|[(A & -> & ->)|(i & rest & A & B)]]).
  - inv H. exists es. repeat split; auto. left. auto.
  - inv H. exists (es_rm0 n es). repeat split; auto. right. left. auto.
  - destruct (Hbusy i rest A) as (Hc & Hn2c).
    assert (En2c : e_n2c (es_rm0 n es) = e_n2c es) by (unfold es_rm0; rewrite Hc; reflexivity).
    rewrite En2c in B.
    destruct B as [(F & _)|(coll & Ec & [(_ & -> & ->)|(crash & En & -> & ->)])]; [contradiction|inv H|].
    set (es2 := match rest with [] => es_rm0 n es | _ => e_set_removed (es_rm0 n es) (aset n rest (e_removed es)) end) in *.
    destruct (d_handle_crashitem crash n (d_set_sched d (StE es2))) as [[dx ox] rx] eqn:Eci. inv H.
    assert (Els2 : d_sched (d_set_sched d (StE es2)) = StE es2) by reflexivity.
    destruct (crashitem_x _ _ _ es2 _ _ Els2 Eci) as (-> & S1 & S2).
    exists es2. split; [reflexivity|]. split; [exact S1|]. split; [exact S2|].
    right. right. exists i, rest. split; [exact A|]. split; [exact Hc|]. split; [exact Hn2c|reflexivity].
Qed.

(* ---- errordown, the whole handler (Ok outcomes) ---- *)
Definition exh1 (d : dstate) : bool :=
  match d_max_restart d with Some m => (m <? d_failed_nodes d + 1)%Z | None => false end.

Lemma errordown_x n d es fn d1 o1 :
  d_sched d = StE es -> aget n (e_nt es) = Some fn -> In n (d_active d) ->
  (forall i rest, aget n (e_n2p es) = Some (i :: rest) -> e_completed es = true /\ aget n (e_n2c es) <> None) ->
  (forall m, In m (e_nodes es) -> aget m (e_nt es) <> None) ->
  d_worker_errordown n d = (d1, o1, Ok tt) ->
  exists es2 hooks, spawn_ids hooks = [] /\ (forall k, cmds_to k hooks = []) /\ RM n es es2 /\
    d_shouldstop d1 = d_shouldstop d /\ d_max_restart d1 = d_max_restart d /\
    d_failed_nodes d1 = (d_failed_nodes d + 1)%Z /\
    ((exh1 d = true /\ exists es3 vo, SDx es2 es3 vo /\
        (forall m, cmds_to m vo <> [] -> In m (e_nodes es2)) /\
        (d_shuttingdown d = false -> forall m, In m (e_nodes es2) -> sd_in (e_nt es3) m) /\
        (d_shuttingdown d = true -> es3 = es2 /\ vo = []) /\
        d_sched d1 = StE es3 /\ d_shuttingdown d1 = true /\ d_next_gw d1 = d_next_gw d /\
        d_active d1 = filter (fun m => negb (Nat.eqb m n)) (d_active d) /\
        o1 = hooks ++ vfilter (e_nt es2) vo) \/
     (exh1 d = false /\
        d_sched d1 = StE (e_set_nt es2 (aset (d_next_gw d) (fresh_nd (n_spec fn)) (e_nt es2))) /\
        d_shuttingdown d1 = false /\ d_next_gw d1 = S (d_next_gw d) /\
        d_active d1 = filter (fun m => negb (Nat.eqb m n)) (d_active d ++ [d_next_gw d]) /\
        o1 = hooks ++ [OHook (HSpawn (d_next_gw d) (n_spec fn))])).
Proof.
  intros Els Efn Hact Hbusy Hk H. rewrite errordown_unfold in H.
  apply LoadProofs.mbind_inv in H. destruct H as [(e & _ & F)|(da & oa & a & ob & Ha & H & ->)]; [discriminate|].
  rewrite hook_run in Ha. injection Ha as <- <- <-.
  apply LoadProofs.mbind_inv in H. destruct H as [(e & _ & F)|(d2 & o2 & a & ob2 & Ht & H & ->)]; [discriminate|].
  destruct a. destruct (try_block_x n d es d2 o2 Els Hbusy Ht) as (es2 & -> & Sp2 & Cm2 & HRM).
  assert (FX2 : e_nt es2 = e_nt es /\ (forall m, In m (e_nodes es2) -> In m (e_nodes es))).
  { assert (X : e_nt (es_rm0 n es) = e_nt es /\ (forall m, In m (e_nodes (es_rm0 n es)) -> In m (e_nodes es))).
    { unfold es_rm0. destruct (e_completed es); cbn [e_nt e_nodes e_n2p e_set_n2p e_set_n2c];
        (split; [reflexivity|intros m Hm; exact (ea_keys_del n _ m Hm)]). }
    destruct HRM as [(_ & ->)|[(_ & ->)|(i & rest & _ & _ & _ & ->)]]; [split; auto|exact X|].
    destruct rest; [exact X|]. exact X. }
  destruct FX2 as (Ent2 & Hnod2).
  rewrite mbind_get, mbind_put in H.
  set (d3 := d_set_failed_nodes (d_set_sched d (StE es2)) (d_failed_nodes (d_set_sched d (StE es2)) + 1)) in *.
  assert (Els3 : d_sched d3 = StE es2) by reflexivity.
  assert (Hk3 : forall m, In m (e_nodes es2) -> aget m (e_nt es2) <> None).
  { intros m Hm. rewrite Ent2. apply Hk. apply Hnod2. exact Hm. }
  apply LoadProofs.mbind_inv in H. destruct H as [(e & _ & F)|(d4 & o4 & a & o5 & Hb & H & ->)]; [discriminate|].
  (* the two branches *)
  assert (BR_A : forall hs, (hook hs;;; d_triggershutdown) d3 = (d4, o4, Ok a) ->
            exists es3 vo, SDx es2 es3 vo /\ (forall m, cmds_to m vo <> [] -> In m (e_nodes es2)) /\
              (d_shuttingdown d = false -> forall m, In m (e_nodes es2) -> sd_in (e_nt es3) m) /\
              (d_shuttingdown d = true -> es3 = es2 /\ vo = []) /\
              d4 = d_withE d3 true es3 /\ o4 = OHook hs :: vfilter (e_nt es2) vo).
  { intros hs Hx. apply LoadProofs.mbind_inv in Hx. destruct Hx as [(e & _ & F)|(dx & ox & ax & oy & Hh & Hx & ->)]; [discriminate|].
    rewrite hook_run in Hh. injection Hh as <- <- <-.
    destruct (trigger_x _ _ _ _ _ Els3 Hk3 Hx) as (_ & es3 & vo & -> & -> & S & N1 & C1 & A1).
    exists es3, vo. split; [exact S|]. split; [exact C1|]. split; [exact A1|]. split; [exact N1|]. split; reflexivity. }
  assert (BR_B : ((d2 <- get;; put (d_set_shuttingdown d2 false));;; d_clone_node n) d3 = (d4, o4, Ok a) ->
            d4 = d_set_active (d_set_next_gw (d_set_sched (d_set_shuttingdown d3 false)
                    (StE (e_set_nt es2 (aset (d_next_gw d) (fresh_nd (n_spec fn)) (e_nt es2))))) (S (d_next_gw d)))
                   (d_active d ++ [d_next_gw d]) /\
            o4 = [OHook (HSpawn (d_next_gw d) (n_spec fn))]).
  { intros Hx. unfold mbind at 1 in Hx. rewrite mbind_get in Hx. unfold put at 1 in Hx.
    unfold d_clone_node in Hx. rewrite mbind_get in Hx.
    assert (Entd : d_nt (d_set_shuttingdown d3 false) = e_nt es2) by reflexivity.
    rewrite Entd, Ent2, Efn in Hx. cbn [of_opt] in Hx. rewrite mbind_ret in Hx.
    unfold mbind at 1 in Hx. unfold d_sched_op in Hx. cbn [d_sched d_set_shuttingdown d3 d_set_failed_nodes d_set_sched s_step s_set_nt s_nt] in Hx.
    rewrite mbind_get, mbind_put in Hx. rewrite hook_run in Hx. cbn [app] in Hx. injection Hx as <- <- <-.
    split; reflexivity. }
  assert (Em : d_max_restart d3 = d_max_restart d) by reflexivity.
  assert (Ef3 : d_failed_nodes d3 = (d_failed_nodes d + 1)%Z) by reflexivity.
  rewrite ?Em, ?Ef3 in Hb. cbn [d_max_restart d_failed_nodes d_set_failed_nodes d_set_sched] in Hb.
  exists es2.
  unfold exh1.
  destruct (d_max_restart d) as [m|] eqn:Emr; [destruct (m <? d_failed_nodes d + 1)%Z eqn:Elt|].
  - destruct (BR_A _ Hb) as (es3 & vo & S & C1 & A1 & N1 & -> & ->).
    assert (Hact4 : In n (d_active (d_withE d3 true es3))) by (cbn; exact Hact).
    rewrite (active_remove_run n _ Hact4) in H. injection H as <- <-.
    exists ([OHook (HNodeDown n true)] ++ o2 ++ [OHook (HSummary (m =? 0)%Z)]).
    split; [rewrite !spawn_ids_app, Sp2; reflexivity|].
    split; [intros k; rewrite !cmds_to_app, Cm2; reflexivity|].
    split; [exact HRM|]. split; [reflexivity|]. split; [cbn; exact Emr|]. split; [reflexivity|].
    left. split; [reflexivity|]. exists es3, vo. split; [exact S|]. split; [exact C1|]. split; [exact A1|].
    split; [exact N1|]. split; [reflexivity|]. split; [reflexivity|]. split; [reflexivity|]. split; [reflexivity|].
    rewrite <- !app_assoc. cbn [app]. rewrite ?app_nil_r. reflexivity.
  - destruct (BR_B Hb) as (-> & ->).
    match type of H with d_active_remove n ?dd = _ => assert (Hact4 : In n (d_active dd)) by (cbn; apply in_or_app; left; exact Hact) end.
    rewrite (active_remove_run n _ Hact4) in H. injection H as <- <-.
    exists ([OHook (HNodeDown n true)] ++ o2).
    split; [rewrite !spawn_ids_app, Sp2; reflexivity|].
    split; [intros k; rewrite !cmds_to_app, Cm2; reflexivity|].
    split; [exact HRM|]. split; [reflexivity|]. split; [cbn; exact Emr|]. split; [reflexivity|].
    right. split; [reflexivity|]. split; [reflexivity|]. split; [reflexivity|]. split; [reflexivity|]. split; [reflexivity|].
    rewrite <- !app_assoc. cbn [app]. rewrite ?app_nil_r. reflexivity.
  - destruct (BR_B Hb) as (-> & ->).
    match type of H with d_active_remove n ?dd = _ => assert (Hact4 : In n (d_active dd)) by (cbn; apply in_or_app; left; exact Hact) end.
    rewrite (active_remove_run n _ Hact4) in H. injection H as <- <-.
    exists ([OHook (HNodeDown n true)] ++ o2).
    split; [rewrite !spawn_ids_app, Sp2; reflexivity|].
    split; [intros k; rewrite !cmds_to_app, Cm2; reflexivity|].
    split; [exact HRM|]. split; [reflexivity|]. split; [cbn; exact Emr|]. split; [reflexivity|].
    right. split; [reflexivity|]. split; [reflexivity|]. split; [reflexivity|]. split; [reflexivity|]. split; [reflexivity|].
    rewrite <- !app_assoc. cbn [app]. rewrite ?app_nil_r. reflexivity.
Qed.

Lemma rm0_tf n es : e_tests_finished es = true -> e_tests_finished (es_rm0 n es) = true.
Proof.
  unfold e_tests_finished, es_rm0. intros H. apply andb_true_iff in H. destruct H as (H1 & H2).
  apply andb_true_iff in H1. destruct H1 as (H0 & H1). rewrite H0. cbn [e_completed e_removed e_n2p e_set_n2p].
  rewrite H0, H1. cbn [andb]. apply forallb_forall. intros x Hx. rewrite forallb_forall in H2. apply H2. eapply ea_in_del; eauto.
Qed.

Lemma RM_facts es es2 n :
  NoDup (e_nodes es) -> NoDup (akeys (e_n2c es)) -> RM n es es2 ->
  e_nt es2 = e_nt es /\ e_started es2 = e_started es /\ e_completed es2 = e_completed es /\
  e_numnodes es2 = e_numnodes es /\
  (forall m, In m (e_nodes es2) <-> In m (e_nodes es) /\ m <> n) /\ NoDup (e_nodes es2) /\
  (forall m, m <> n -> bkE es2 m = bkE es m) /\ bkE es2 n = [] /\
  (e_completed es = true -> e_n2c es2 = e_n2c es) /\
  (forall m, In m (akeys (e_n2c es2)) -> In m (akeys (e_n2c es))) /\
  (forall m, m <> n -> In m (akeys (e_n2c es)) -> In m (akeys (e_n2c es2))) /\
  NoDup (akeys (e_n2c es2)) /\ (forall x, In x (e_n2c es2) -> In x (e_n2c es)) /\
  length (e_n2c es2) <= length (e_n2c es) /\
  (e_removed es2 = e_removed es \/
   (exists i rest, rest <> [] /\ aget n (e_n2p es) = Some (i :: rest) /\ e_completed es = true /\
                   aget n (e_n2c es) <> None /\ e_removed es2 = aset n rest (e_removed es))) /\
  (e_tests_finished es = true -> e_tests_finished es2 = true).
Proof.
  intros ND1 ND2 H.
  assert (R0 : forall pend, aget n (e_n2p es) = Some pend ->
    let es1 := es_rm0 n es in
    e_nt es1 = e_nt es /\ e_started es1 = e_started es /\ e_completed es1 = e_completed es /\
    e_numnodes es1 = e_numnodes es /\
    (forall m, In m (e_nodes es1) <-> In m (e_nodes es) /\ m <> n) /\ NoDup (e_nodes es1) /\
    (forall m, m <> n -> bkE es1 m = bkE es m) /\ bkE es1 n = [] /\
    (e_completed es = true -> e_n2c es1 = e_n2c es) /\
    (forall m, In m (akeys (e_n2c es1)) -> In m (akeys (e_n2c es))) /\
    (forall m, m <> n -> In m (akeys (e_n2c es)) -> In m (akeys (e_n2c es1))) /\
    NoDup (akeys (e_n2c es1)) /\ (forall x, In x (e_n2c es1) -> In x (e_n2c es)) /\
    length (e_n2c es1) <= length (e_n2c es) /\ e_removed es1 = e_removed es).
  { intros pend Hp. cbv zeta. unfold es_rm0.
    assert (BK : forall m, m <> n -> alist_get [] m (adel n (e_n2p es)) = bkE es m).
    { intros m Hm. unfold bkE, alist_get. rewrite ea_get_del_neq by exact Hm. reflexivity. }
    assert (BN : alist_get [] n (adel n (e_n2p es)) = @nil nat).
    { apply ea_alist_get_none. apply ea_get_del_eq. exact ND1. }
    destruct (e_completed es) eqn:C0;
      cbn [e_nt e_removed e_started e_completed e_numnodes e_n2p e_n2c e_set_n2p e_set_n2c e_nodes bkE];
      (split; [reflexivity|]); (split; [reflexivity|]); (split; [first [reflexivity|exact C0]|]);
      (split; [reflexivity|]); (split; [intros m; apply adel_keys_iff; exact ND1|]);
      (split; [apply ea_keys_del_nodup; exact ND1|]); (split; [exact BK|]); (split; [exact BN|]).
    - split; [auto|]. split; [auto|]. split; [auto|]. split; [exact ND2|]. split; [auto|]. split; [lia|reflexivity].
    - split; [discriminate|]. split; [intros m; apply ea_keys_del|].
      split; [intros m Hm Hin; apply in_akeys_adel_neq; assumption|].
      split; [apply ea_keys_del_nodup; exact ND2|]. split; [intros x; apply ea_in_del|]. split; [apply ea_length_del|reflexivity]. }
  destruct H as [(Hn & ->)|[(Hp & ->)|(i & rest & Hp & Hc & Hn2c & ->)]].
  - assert (Hni : ~ In n (e_nodes es)) by (apply ea_get_none; exact Hn).
    do 4 (split; [reflexivity|]).
    split; [intros m; split; [intros Hm; split; [exact Hm|intros ->; contradiction]|intros (A & _); exact A]|].
    split; [exact ND1|]. split; [reflexivity|]. split; [unfold bkE; apply ea_alist_get_none; exact Hn|].
    split; [reflexivity|]. split; [auto|]. split; [auto|]. split; [exact ND2|]. split; [auto|]. split; [lia|].
    split; [left; reflexivity|auto].
  - destruct (R0 [] Hp) as (A1 & A2 & A3 & A4 & A5 & A6 & A7 & A8 & A9 & A10 & A11 & A12 & A13 & A14 & A15).
    repeat (split; [assumption|]). split; [left; exact A15|apply rm0_tf].
  - destruct (R0 (i :: rest) Hp) as (A1 & A2 & A3 & A4 & A5 & A6 & A7 & A8 & A9 & A10 & A11 & A12 & A13 & A14 & A15).
    destruct rest as [|j rest].
    + repeat (split; [assumption|]). split; [left; exact A15|apply rm0_tf].
    + cbn [e_nt e_started e_completed e_numnodes e_nodes e_n2p e_n2c e_removed e_set_removed bkE].
      repeat (split; [assumption|]). split.
      * right. exists i, (j :: rest). split; [discriminate|]. auto.
      * intros Htf. exfalso. unfold e_tests_finished in Htf. apply andb_true_iff in Htf. destruct Htf as (_ & Htf).
        rewrite forallb_forall in Htf. specialize (Htf (n, i :: j :: rest) (ea_aget_in _ _ _ Hp)). cbn in Htf. discriminate.
Qed.

Lemma ahas_eq_iff {V W} k (a : amap V) (b : amap W) : (In k (akeys a) <-> In k (akeys b)) -> ahas k a = ahas k b.
Proof.
  intros H. destruct (ahas k a) eqn:E1, (ahas k b) eqn:E2; try reflexivity.
  - apply ahas_true_in in E1. apply ahas_false_notin in E2. tauto.
  - apply ahas_true_in in E2. apply ahas_false_notin in E1. tauto.
Qed.

Lemma ahas_aset {V} k n (v : V) m : ahas k (aset n v m) = if Nat.eqb k n then true else ahas k m.
Proof. unfold ahas. rewrite ea_get_set. destruct (Nat.eqb k n); reflexivity. Qed.

Lemma mem_nat_eq_iff k a b : (In k a <-> In k b) -> mem_nat k a = mem_nat k b.
Proof.
  intros H. destruct (mem_nat k a) eqn:E1, (mem_nat k b) eqn:E2; try reflexivity.
  - apply mem_nat_In in E1. apply mem_nat_false in E2. tauto.
  - apply mem_nat_In in E2. apply mem_nat_false in E1. tauto.
Qed.

Lemma inh_step (fR fP gR gP : nat -> nat) gw n :
  sumf fR (seq 0 gw) <= sumf fP (seq 0 gw) -> n < gw ->
  (forall k, k < gw -> k <> n -> gR k = fR k) -> (forall k, k < gw -> k <> n -> gP k = fP k) ->
  gP n = 0 -> gR gw = 0 -> gR n + fP n <= gP gw + fR n ->
  sumf gR (seq 0 (S gw)) <= sumf gP (seq 0 (S gw)).
Proof.
  intros H Hn HR HP E1 E2 E3. rewrite !sumf_seq_S.
  assert (Hin : In n (seq 0 gw)) by (apply in_seq; lia).
  pose proof (sumf_change_one fR gR (seq 0 gw) n (seq_NoDup gw 0) Hin) as XR.
  pose proof (sumf_change_one fP gP (seq 0 gw) n (seq_NoDup gw 0) Hin) as XP.
  assert (YR : sumf gR (seq 0 gw) + fR n = sumf fR (seq 0 gw) + gR n).
  { apply XR. intros k Hk Hkn. apply HR; [apply in_seq in Hk; lia|exact Hkn]. }
  assert (YP : sumf gP (seq 0 gw) + fP n = sumf fP (seq 0 gw) + gP n).
  { apply XP. intros k Hk Hkn. apply HP; [apply in_seq in Hk; lia|exact Hkn]. }
  lia.
Qed.

Lemma NoDup_snoc (l : list nat) x : NoDup l -> ~ In x l -> NoDup (l ++ [x]).
Proof.
  intros ND Hx. induction l as [|a l IH]; cbn; [constructor; [intros []|constructor]|].
  inversion ND as [|y ys Hni ND']; subst. constructor.
  - intros Hin. apply in_app_or in Hin. destruct Hin as [Hin|[->|[]]]; [contradiction|]. apply Hx. left. reflexivity.
  - apply IH; [exact ND'|]. intros X. apply Hx. right. exact X.
Qed.

Lemma gci_handle_errordown s es n q d1 o1 :
  GCI c (gdF s) (pssF s) s es -> y_evq s = QErrorDown n :: q ->
  d_handle (QErrorDown n) (y_d s) = (d1, o1, Ok tt) ->
  exists es1, GCI c (gdM d1 es1) True (apply_outs (set_d (set_evq s q) d1) o1) es1.
Proof.
  intros G Eevq H. cbn [d_handle] in H.
  pose proof (gci_cj _ _ _ _ G) as J. pose proof (cj_sched _ _ _ _ _ J) as Els.
  pose proof (g_ntk _ _ _ _ _ G) as Gnt. pose proof (g_down _ _ _ _ _ G) as Gdown. pose proof (g_live _ _ _ _ _ G) as Glive.
  pose proof J as [_ Jnt Jact Jand Jnodes Jnnd Jn2c Jn2cnd Jst Jnum Jnc Jrem Jremnd Jbkst Jb Jss Jp Jtf Jsd Jcnt Jwhy Jinh].
  set (gw := d_next_gw (y_d s)) in *.
  assert (HnG : n < gw).
  { pose proof (g_evq _ _ _ _ _ G) as Gevq. rewrite Eevq in Gevq. inversion Gevq as [|x l (_ & X) _]; subst. exact X. }
  destruct (aget n (e_nt es)) as [fn|] eqn:Efn; [|exfalso; apply (proj2 (Gnt n) HnG); exact Efn].
  assert (Hna : In n (d_active (y_d s))).
  { destruct (in_dec Nat.eq_dec n (d_active (y_d s))) as [X|X]; [exact X|]. exfalso.
    destruct (g_gone _ _ _ _ _ G n HnG X) as (A & _). apply (A (QErrorDown n)); [rewrite Eevq; left; reflexivity|reflexivity]. }
  assert (Hdead : In n (y_dead s)) by (apply (g_errd _ _ _ _ _ G); rewrite Eevq; left; reflexivity).
  assert (Hbusy : forall i rest, aget n (e_n2p es) = Some (i :: rest) -> e_completed es = true /\ aget n (e_n2c es) <> None).
  { intros i rest Hp. assert (Hb : bkE es n <> []) by (unfold bkE, alist_get; rewrite Hp; discriminate).
    assert (Hin : In n (e_nodes es)) by (apply ea_keys_get; congruence).
    split; [|apply ea_keys_get; exact (Jbkst n Hin Hb)].
    destruct (e_completed es) eqn:C0; [reflexivity|]. destruct (Jnc eq_refl) as (_ & _ & _ & D). exfalso. apply Hb. apply D. }
  assert (Hk : forall m, In m (e_nodes es) -> aget m (e_nt es) <> None) by (intros m Hm; apply Jnt; apply Jnodes; exact Hm).
  destruct (errordown_x n (y_d s) es fn d1 o1 Els Efn Hna Hbusy Hk H)
    as (es2 & hooks & Sph & Cmh & HRM & Dss & Dmr & Dfl & BR).
  destruct (RM_facts es es2 n Jnnd Jn2cnd HRM)
    as (Fnt & Fst & Fcomp & Fnum & Fnodes & Fnnd & Fbk & Fbn & Fcb & Fn2c & Fn2ck & Fn2cnd & Fent & Flen & Frm & Ftf).
  assert (Hcomp_rm : e_removed es <> [] -> e_completed es = true).
  { intros X. destruct (e_completed es) eqn:C0; [reflexivity|]. destruct (Jnc eq_refl) as (_ & Y & _). contradiction. }
  (* facts shared by both branches, stated for any es3 that agrees with es2 except for the node table *)
  assert (REM : forall m rest, In (m, rest) (e_removed es2) -> rest <> [] /\ m < gw /\ aget m (e_n2c es2) <> None).
  { intros m rest Hin. destruct Frm as [E|(i & rest' & Hne & Hp & Hc & Hn2 & E)]; rewrite E in Hin.
    - destruct (Jrem m rest Hin) as (A & B & C0). split; [exact A|]. split; [exact B|].
      rewrite (Fcb (Hcomp_rm ltac:(intros X; rewrite X in Hin; destruct Hin))). exact C0.
    - rewrite (Fcb Hc). apply ea_in_set in Hin. destruct Hin as [(-> & ->)|Hin]; [auto|].
      destruct (Jrem m rest Hin) as (A & B & C0). auto. }
  assert (REMND : NoDup (akeys (e_removed es2))).
  { destruct Frm as [E|(i & rest' & _ & _ & _ & _ & E)]; rewrite E; [exact Jremnd|apply ea_keys_set_nodup; exact Jremnd]. }
  assert (NC : e_completed es = false ->
               length (e_n2c es2) < N /\ e_removed es2 = [] /\ e_started es = [] /\ forall m, bkE es2 m = []).
  { intros C0. destruct (Jnc C0) as (A & B & C1 & D). split; [lia|]. split.
    - destruct Frm as [E|(i & rest' & _ & _ & Hc & _)]; [congruence|congruence].
    - split; [exact C1|]. intros m. destruct (Nat.eq_dec m n) as [->|Hm]; [exact Fbn|rewrite (Fbk m Hm); apply D]. }
  assert (BKST : forall m, In m (e_nodes es2) -> bkE es2 m <> [] -> In m (akeys (e_n2c es2))).
  { intros m Hm Hb. apply Fnodes in Hm. destruct Hm as (Hm & Hmn). rewrite (Fbk m Hmn) in Hb.
    apply Fn2ck; [exact Hmn|]. exact (Jbkst m Hm Hb). }
  assert (LEFT : forall act1, (forall k, In k act1 <-> In k (d_active (y_d s) ++ [gw]) /\ k <> n) \/
                              (forall k, In k act1 <-> In k (d_active (y_d s)) /\ k <> n) ->
            forall k, In k (d_active (y_d s)) -> ~ In k act1 -> exists ev, y_evq s = ev :: q /\ is_fin_ev k ev = true).
  { intros act1 Hact1 k Hka Hnk. exists (QErrorDown n). split; [exact Eevq|]. cbn.
    destruct (Nat.eq_dec k n) as [->|Hkn]; [apply Nat.eqb_refl|]. exfalso. apply Hnk.
    destruct Hact1 as [X|X]; apply X; (split; [|exact Hkn]); [apply in_or_app; left; exact Hka|exact Hka]. }
  assert (DOWN0 : forall k f1, aget k (e_nt es) = Some f1 -> n_down f1 = true -> In k (d_active (y_d s)) -> k <> n ->
            exists ev', In ev' q /\ is_fin_ev k ev' = true).
  { intros k f1 Ef1 Hdn Hact Hkn. destruct (Gdown k f1 Ef1 Hdn Hact) as (ev' & Hin & Hf).
    rewrite Eevq in Hin. destruct Hin as [<-|Hin]; [|exists ev'; auto].
    exfalso. cbn in Hf. apply Nat.eqb_eq in Hf. congruence. }
  destruct BR as [(Hex & es3 & vo & S & C1 & A1 & N1 & D1 & D2 & D3 & D4 & ->)|(Hex & D1 & D2 & D3 & D4 & ->)].
  - (* the budget is exhausted: the session shuts down *)
    exists es3.
    destruct (SDx_ind _ _ _ (d_active d1) S) as (Sp & Eb & En & Etf & IR & Ek).
    destruct (sdx_keep _ _ _ S) as (K1 & K2 & K3 & K4 & K5 & K6).
    assert (NG : gdM d1 es3 -> False) by (intros (A & _); congruence).
    assert (Eex : exhausted d1 = true).
    { unfold exhausted. rewrite Dmr, Dfl. unfold exh1 in Hex. exact Hex. }
    apply (gci_ctl (gdF s) (pssF s) _ True s es q d1 es3 _ G).
    + right. eexists. exact Eevq.
    + rewrite D4. apply LEFT. right. intros k. apply in_filter_neq.
    + constructor; rewrite ?D2, ?D3, ?D4, ?En, ?K2, ?K3, ?K4, ?K5, ?K6, ?Fst, ?Fcomp, ?Fnum; fold gw.
      * exact D1.
      * intros k. rewrite Ek, Fnt. apply Jnt.
      * intros m Hm. apply in_filter_neq in Hm. apply Jact. tauto.
      * apply NoDup_filter_neq. exact Jand.
      * intros m Hm. apply Jnodes. apply Fnodes. exact Hm.
      * exact Fnnd.
      * intros m ids Hin. apply Jn2c. apply Fent. exact Hin.
      * exact Fn2cnd.
      * exact Jst.
      * exact Jnum.
      * intros C0. destruct (NC C0) as (A & B & C2 & D). repeat split; auto. intros m. rewrite Eb. apply D.
      * exact REM.
      * exact REMND.
      * intros m Hm Hb. rewrite Eb in Hb. apply BKST; assumption.
      * intros X. exfalso. exact (NG X).
      * exact Logic.I.
      * intros X. exfalso. exact (NG X).
      * intros X. exfalso. exact (NG X).
      * intros _ m Hm.
        assert (Hcase : d_shuttingdown (y_d s) = true \/ d_shuttingdown (y_d s) = false) by (destruct (d_shuttingdown (y_d s)); auto).
        destruct Hcase as [Esd|Esd].
        -- destruct (N1 Esd) as (-> & _). apply Fnodes in Hm. rewrite Fnt. apply Jsd; [exact Esd|tauto].
        -- apply A1; [exact Esd|exact Hm].
      * intros X. exfalso. exact (NG X).
      * intros _. right. left. exact Eex.
      * intros X. exfalso. exact (NG X).
    + left. split; [exact D3|]. rewrite spawn_ids_app, Sph. apply spawn_ids_vfilter. apply is_sd_out_spawn. apply (sdx_outs _ _ _ S).
    + intros k Hkg. rewrite cmds_to_app, Cmh. cbn [app]. apply cmds_to_vf_incl.
      destruct (cmds_to k vo) eqn:E; [reflexivity|]. exfalso.
      assert (X : In k (e_nodes es2)) by (apply C1; rewrite E; discriminate). apply Fnodes in X.
      destruct X as (X & _). specialize (Jnodes k X). fold gw in Jnodes. lia.
    + intros k f0 Ef0. rewrite <- Fnt in Ef0. destruct (SDo_fwd _ _ _ _ (sdx_nt _ _ _ S k) Ef0) as (f1 & Ef1 & _ & A & _). exists f1. auto.
    + intros k f1 Ef1 Hdn Hact. rewrite D4 in Hact. apply in_filter_neq in Hact. destruct Hact as (Hact & Hkn).
      pose proof (sdx_nt _ _ _ S k) as R. destruct (aget k (e_nt es2)) as [f0|] eqn:Ef0; [|rewrite Ef1 in R; destruct R].
      destruct (SDo_fwd _ _ _ _ R eq_refl) as (f1' & Ef1' & _ & A & _). assert (f1' = f1) by congruence. subst f1'.
      rewrite Fnt in Ef0. apply (DOWN0 k f0 Ef0); [congruence|exact Hact|exact Hkn].
    + intros k w f0 f1 Hl Hw Ef0 Ef1.
      assert (Hkn : k <> n) by (intros ->; contradiction).
      pose proof (Glive k w f0 Hl Hw Ef0) as X. rewrite (sigs_head s _ q k Eevq) in X.
      rewrite cmds_to_app, Cmh. cbn [app]. rewrite <- Fnt in Ef0.
      rewrite (cmds_to_vf _ _ _ _ Ef0 (ln_open _ _ _ _ _ _ _ _ _ _ X)).
      destruct (SDo_fwd _ _ _ _ (sdx_nt _ _ _ S k) Ef0) as (f1' & Ef1' & A2 & A3 & A4 & A5 & A6).
      assert (f1' = f1) by congruence. subst f1'. rewrite D4.
      apply (LNI_ctl es es3 (d_active (y_d s)) _ (gdF s) _ k f0 f1 (QErrorDown n) _ _ _ (cmds_to k vo) w X);
        rewrite ?En, ?K2, ?K3, ?Eb, ?Fst; auto; cbn [ev_sigs_for ev_sig app completes length is_fin_ev];
        try (intros Y; exfalso; exact (NG Y)).
      * destruct A6 as [(-> & ->)|(-> & H1 & H2 & ->)]; cbn; [tauto|]. split; [auto|reflexivity].
      * destruct A6 as [(-> & _)|(-> & _)]; repeat constructor.
      * rewrite (Fbk k Hkn). destruct A6 as [(-> & _)|(-> & _)]; cbn; lia.
      * intros Hn. split; [exact Hn|]. destruct A6 as [(-> & _)|(-> & _)]; reflexivity.
      * intros Hm. left. apply Fnodes in Hm. tauto.
      * intros Hm. left. apply Fnodes. auto.
      * intros E. discriminate.
      * intros Hm. apply in_filter_neq in Hm. tauto.
      * intros E. apply Nat.eqb_eq in E. congruence.
      * intros Hm. left. apply in_filter_neq. auto.
      * intros E. injection E as E. congruence.
  - (* a replacement worker is started *)
    fold gw in D1, D3, D4.
    set (es3 := e_set_nt es2 (aset gw (fresh_nd (n_spec fn)) (e_nt es2))) in *. exists es3.
    assert (Ent3 : forall k, aget k (e_nt es3) = if Nat.eqb k gw then Some (fresh_nd (n_spec fn)) else aget k (e_nt es)).
    { intros k. unfold es3. cbn [e_nt e_set_nt]. rewrite ea_get_set, Fnt. reflexivity. }
    assert (Hgwn : gw <> n) by lia.
    assert (Hgwa : ~ In gw (d_active (y_d s))) by (intros X; specialize (Jact gw X); fold gw in Jact; lia).
    assert (Hact1 : forall k, In k (d_active d1) <-> In k (d_active (y_d s) ++ [gw]) /\ k <> n) by (intros k; rewrite D4; apply in_filter_neq).
    assert (Eex : exhausted d1 = false).
    { unfold exhausted. rewrite Dmr, Dfl. unfold exh1 in Hex. exact Hex. }
    assert (HG : gdM d1 es3 -> gdF s).
    { intros (A & B & C0). unfold gdF. destruct (d_shuttingdown (y_d s)) eqn:Esd; [|reflexivity]. exfalso.
      destruct (Jwhy eq_refl) as [Y|[Y|Y]].
      - rewrite Dss in B. congruence.
      - unfold exhausted in Y. unfold exh1 in Hex. destruct (d_max_restart (y_d s)) as [m|]; [|discriminate].
        apply Z.ltb_lt in Y. apply Z.ltb_ge in Hex. lia.
      - change (e_tests_finished es3) with (e_tests_finished es2) in C0. rewrite (Ftf Y) in C0. discriminate. }
    apply (gci_ctl (gdF s) (pssF s) _ True s es q d1 es3 _ G).
    + right. eexists. exact Eevq.
    + apply LEFT. left. exact Hact1.
    + constructor; rewrite ?D2, ?D3; fold gw;
        cbn [es3 e_nodes e_n2p e_n2c e_started e_removed e_completed e_numnodes e_set_nt]; rewrite ?Fst, ?Fcomp, ?Fnum.
      * exact D1.
      * intros k. rewrite Ent3. destruct (Nat.eqb k gw) eqn:E.
        -- apply Nat.eqb_eq in E. subst k. split; [intros _; lia|discriminate].
        -- apply Nat.eqb_neq in E. rewrite Jnt. fold gw. lia.
      * intros m Hm. apply Hact1 in Hm. destruct Hm as (Hm & _). apply in_app_or in Hm.
        destruct Hm as [Hm|[<-|[]]]; [specialize (Jact m Hm); fold gw in Jact; lia|lia].
      * rewrite D4. apply NoDup_filter_neq. apply NoDup_snoc; assumption.
      * intros m Hm. apply Fnodes in Hm. destruct Hm as (Hm & _). specialize (Jnodes m Hm). fold gw in Jnodes. lia.
      * exact Fnnd.
      * intros m ids Hin. destruct (Jn2c m ids (Fent _ Hin)) as (A & B). fold gw in B. split; [exact A|lia].
      * exact Fn2cnd.
      * intros m Hm. specialize (Jst m Hm). fold gw in Jst. lia.
      * exact Jnum.
      * intros C0. destruct (NC C0) as (A & B & C2 & D). repeat split; auto.
      * intros m rest Hin. destruct (REM m rest Hin) as (A & B & C0). split; [exact A|]. split; [lia|exact C0].
      * exact REMND.
      * intros m Hm Hb. apply BKST; assumption.
      * intros X Hss m Hm. apply Fnodes in Hm. destruct Hm as (Hm & Hmn). apply Hact1. split; [|exact Hmn].
        apply in_or_app. left. apply (Jb (HG X)); [rewrite <- Dss; exact Hss|exact Hm].
      * exact Logic.I.
      * intros X k f0 Ef0 Hs. rewrite Ent3 in Ef0. destruct (Nat.eqb k gw); [inv Ef0; discriminate Hs|].
        exact (Jp (HG X) k f0 Ef0 Hs).
      * intros (_ & _ & X). exact X.
      * intros X. congruence.
      * intros X C0. pose proof (Jcnt (HG X) C0) as Y. rewrite D4.
        assert (Hin : In n (d_active (y_d s) ++ [gw])) by (apply in_or_app; left; exact Hna).
        pose proof (filter_neq_length n _ (NoDup_snoc _ _ Jand Hgwa) Hin) as Z. rewrite app_length in Z. cbn [length] in Z. lia.
      * intros X. congruence.
      * intros X sg.
        apply (inh_step (indR es sg) (indP (d_active (y_d s)) es sg) _ _ gw n (Jinh (HG X) sg) HnG).
        -- intros k Hkg Hkn. unfold indR, specb. rewrite Ent3.
           replace (Nat.eqb k gw) with false by (symmetry; apply Nat.eqb_neq; lia).
           cbn [es3 e_removed e_set_nt].
           destruct Frm as [E|(i & rest' & _ & _ & _ & _ & E)]; rewrite E; [reflexivity|].
           rewrite ahas_aset. replace (Nat.eqb k n) with false by (symmetry; apply Nat.eqb_neq; exact Hkn). reflexivity.
        -- intros k Hkg Hkn. unfold indP, sdb, specb. rewrite Ent3.
           replace (Nat.eqb k gw) with false by (symmetry; apply Nat.eqb_neq; lia).
           cbn [es3 e_n2c e_set_nt].
           rewrite (mem_nat_eq_iff k (d_active d1) (d_active (y_d s))).
           2:{ rewrite Hact1, in_app_iff. cbn [In]. split; [intros ([A|[A|[]]] & _); [exact A|lia]|intros A; split; [left; exact A|exact Hkn]]. }
           rewrite (ahas_eq_iff k (e_n2c es2) (e_n2c es)); [reflexivity|].
           split; [apply Fn2c|apply Fn2ck; exact Hkn].
        -- unfold indP. replace (mem_nat n (d_active d1)) with false; [reflexivity|].
           symmetry. apply mem_nat_false. intros Y. apply Hact1 in Y. destruct Y as (_ & Y). apply Y. reflexivity.
        -- unfold indR. cbn [es3 e_removed e_set_nt]. replace (ahas gw (e_removed es2)) with false; [reflexivity|].
           symmetry. destruct (ahas gw (e_removed es2)) eqn:E; [|reflexivity]. exfalso.
           apply ahas_true_in in E. apply ea_keys_get in E.
           destruct (aget gw (e_removed es2)) as [rr|] eqn:E2; [|contradiction]. apply ea_aget_in in E2.
           destruct (REM gw rr E2) as (_ & Y & _). lia.
        -- (* the dead node and its replacement *)
           unfold indR, indP, sdb, specb. rewrite !Ent3, Nat.eqb_refl.
           replace (Nat.eqb n gw) with false by (symmetry; apply Nat.eqb_neq; lia).
           rewrite Efn. cbn [fresh_nd n_spec n_sdsent negb es3 e_removed e_n2c e_set_nt].
           replace (mem_nat gw (d_active d1)) with true.
           2:{ symmetry. apply mem_nat_In. apply Hact1. split; [apply in_or_app; right; left; reflexivity|exact Hgwn]. }
           replace (ahas gw (e_n2c es2)) with false.
           2:{ symmetry. destruct (ahas gw (e_n2c es2)) eqn:E; [|reflexivity]. exfalso. apply ahas_true_in in E.
               apply Fn2c in E. apply ea_keys_get in E. destruct (aget gw (e_n2c es)) as [x|] eqn:E2; [|contradiction].
               apply ea_aget_in in E2. destruct (Jn2c _ _ E2) as (_ & Y). fold gw in Y. lia. }
           cbn [andb negb]. destruct (Nat.eqb (n_spec fn) sg); [|rewrite !andb_false_r; cbn; lia].
           rewrite !andb_true_r.
           destruct Frm as [E|(i & rest' & _ & Hp & _ & Hn2 & E)]; rewrite E.
           ++ destruct (ahas n (e_removed es)); destruct (mem_nat n (d_active (y_d s)) && negb (ahas n (e_n2c es)) && negb (n_sdsent fn)); cbn; lia.
           ++ rewrite ahas_aset, Nat.eqb_refl.
              replace (ahas n (e_n2c es)) with true by (symmetry; unfold ahas; destruct (aget n (e_n2c es)); [reflexivity|contradiction]).
              cbn [negb]. rewrite andb_false_r. cbn [andb]. destruct (ahas n (e_removed es)); cbn; lia.
    + right. split; [exact D3|]. split; [rewrite spawn_ids_app, Sph; reflexivity|].
      split; [exists (n_spec fn); rewrite Ent3, Nat.eqb_refl; reflexivity|].
      split; [cbn [es3 e_nodes e_n2p e_set_nt]; intros X; apply Fnodes in X; destruct X as (X & _); specialize (Jnodes gw X); fold gw in Jnodes; lia|].
      split.
      { cbn [es3 e_n2c e_set_nt]. intros X. apply Fn2c in X. apply ea_keys_get in X.
        destruct (aget gw (e_n2c es)) as [x|] eqn:E2; [|contradiction]. apply ea_aget_in in E2.
        destruct (Jn2c _ _ E2) as (_ & Y). fold gw in Y. lia. }
      split; [cbn [es3 e_started e_set_nt]; rewrite Fst; intros X; specialize (Jst gw X); fold gw in Jst; lia|].
      apply Hact1. split; [apply in_or_app; right; left; reflexivity|exact Hgwn].
    + intros k _. rewrite cmds_to_app, Cmh. reflexivity.
    + intros k f0 Ef0. exists f0. rewrite Ent3.
      assert (X : k < gw) by (apply Jnt; congruence).
      replace (Nat.eqb k gw) with false by (symmetry; apply Nat.eqb_neq; lia). auto.
    + intros k f1 Ef1 Hdn Hact. apply Hact1 in Hact. destruct Hact as (Hact & Hkn). rewrite Ent3 in Ef1.
      destruct (Nat.eqb k gw) eqn:E; [inv Ef1; discriminate Hdn|].
      apply in_app_or in Hact. destruct Hact as [Hact|[<-|[]]]; [|rewrite Nat.eqb_refl in E; discriminate].
      exact (DOWN0 k f1 Ef1 Hdn Hact Hkn).
    + intros k w f0 f1 Hl Hw Ef0 Ef1.
      assert (Hkn : k <> n) by (intros ->; contradiction).
      assert (Hkg : k < gw) by (apply Jnt; congruence).
      rewrite Ent3 in Ef1. replace (Nat.eqb k gw) with false in Ef1 by (symmetry; apply Nat.eqb_neq; lia).
      assert (f1 = f0) by congruence. subst f1.
      pose proof (Glive k w f0 Hl Hw Ef0) as X. rewrite (sigs_head s _ q k Eevq) in X.
      rewrite cmds_to_app, Cmh. cbn [app cmds_to flat_map cmd_to].
      assert (E1 : bkE es3 k = bkE es k) by (change (bkE es3 k) with (bkE es2 k); apply Fbk; exact Hkn).
      assert (E2 : e_started es3 = e_started es) by exact Fst.
      assert (E3 : e_nodes es3 = e_nodes es2) by reflexivity.
      assert (E4 : e_n2c es3 = e_n2c es2) by reflexivity.
      apply (LNI_untouched es es3 (d_active (y_d s)) (d_active d1) (gdF s) _ k f0 (QErrorDown n)); auto;
        rewrite ?E1, ?E2, ?E3, ?E4; try tauto; try lia.
      * intros E. injection E as E. congruence.
      * rewrite Fnodes. tauto.
      * split; [apply Fn2c|apply Fn2ck; exact Hkn].
      * rewrite Hact1, in_app_iff. cbn [In]. split; [intros ([A|[A|[]]] & _); [exact A|lia]|intros A; split; [left; exact A|exact Hkn]].
Qed.

(* ---- schedule(): what the sweep does to one node ---- *)
Lemma cinds0_runall : flat_map (cinds0 K) [CRunAll] = seq 0 K.
Proof. unfold cinds0. cbn [flat_map citems]. rewrite item_inds_map_idx, app_nil_r. reflexivity. Qed.

Lemma SC1_node esp es' m cs fp :
  SC1 esp es' m cs -> aget m (e_nt esp) = Some fp ->
  (forall coll, aget m (e_n2c esp) = Some coll -> length coll = K) ->
  (forall k, In k (e_started esp) -> In k (e_started es')) ->
  exists f', aget m (e_nt es') = Some f' /\ n_spec f' = n_spec fp /\ n_down f' = n_down fp /\ n_closed f' = n_closed fp /\
    (n_sdsent f' = true <-> n_sdsent fp = true \/ In CShutdown cs) /\ Forall ecmd cs /\
    length (bkE es' m) <= length (bkE esp m) + length (flat_map (cinds0 K) cs) /\
    (~ In m (e_started es') -> ~ In m (e_started esp) /\ flat_map (cinds0 K) cs = []) /\
    (In m (e_started es') -> In m (e_started esp) \/ aget m (e_n2c esp) <> None \/ bkE esp m <> []) /\
    (bkE es' m <> [] -> bkE esp m <> [] \/ aget m (e_n2c esp) <> None) /\
    (n_sdsent f' = n_sdsent fp \/ aget m (e_n2c esp) <> None).
Proof.
  intros H Ef HK Hmono.
  destruct H as [(Hst & E1 & E2 & -> & E3)|[(Hns & Ep & Hs' & coll & f & Ec & Ef0 & Ep' & Hfl)|(Hns & Hs' & pend & Hne & Ep & Ep' & E2 & ->)]].
  - exists fp. rewrite E2. split; [exact Ef|]. do 3 (split; [reflexivity|]).
    split; [cbn; tauto|]. split; [constructor|].
    assert (Eb : bkE es' m = bkE esp m) by (unfold bkE, alist_get; rewrite E1; reflexivity).
    rewrite Eb. cbn [flat_map length]. split; [lia|]. split; [intros X; split; [rewrite <- E3; exact X|reflexivity]|].
    split; [intros X; left; apply E3; exact X|]. split; [auto|left; reflexivity].
  - assert (f = fp) by congruence. subst f. specialize (HK coll Ec).
    assert (Eb : bkE es' m = seq 0 K) by (unfold bkE, alist_get; rewrite Ep', HK; reflexivity).
    assert (Eb0 : bkE esp m = []) by (unfold bkE, alist_get; rewrite Ep; reflexivity).
    destruct Hfl as [(Hds & Ef' & ->)|(Hds & Ef' & ->)].
    + exists fp. split; [exact Ef'|]. do 3 (split; [reflexivity|]).
      split; [cbn; intuition discriminate|]. split; [repeat constructor|].
      rewrite Eb, Eb0, cinds0_runall, !seq_length. split; [cbn; lia|].
      split; [intros X; contradiction|]. split; [intros _; right; left; congruence|].
      split; [intros _; right; congruence|left; reflexivity].
    + exists (sdm fp). split; [exact Ef'|]. do 3 (split; [reflexivity|]).
      split; [cbn; split; [intros _; right; right; left; reflexivity|reflexivity]|]. split; [repeat constructor|].
      change [CRunAll; CShutdown] with ([CRunAll] ++ [CShutdown]). rewrite flat_map_app, cinds0_runall, Eb, Eb0, app_length, !seq_length.
      split; [cbn; lia|]. split; [intros X; contradiction|]. split; [intros _; right; left; congruence|].
      split; [intros _; right; congruence|right; congruence].
  - exists fp. rewrite E2. split; [exact Ef|]. do 3 (split; [reflexivity|]).
    split; [cbn; intuition discriminate|]. split; [repeat constructor|].
    assert (Eb : bkE es' m = pend) by (unfold bkE, alist_get; rewrite Ep'; reflexivity).
    assert (Eb0 : bkE esp m = pend) by (unfold bkE, alist_get; rewrite Ep; reflexivity).
    rewrite Eb, Eb0. unfold cinds0. cbn [flat_map citems]. rewrite item_inds_map_idx, app_nil_r.
    split; [lia|]. split; [intros X; contradiction|]. split; [intros _; right; right; exact Hne|].
    split; [auto|left; reflexivity].
Qed.

(* ---- schedule(): the controller-only invariant after the sweep ---- *)
Lemma cj_sweep (gd pss gtf : Prop) d esp :
  CJ gd pss gtf d esp -> d_shuttingdown d = false -> e_completed esp = true ->
  let es' := fst (sweep (e_nodes esp) esp) in
  (gdM (d_set_sched d (StE es')) es' -> gd) ->
  CJ (gdM (d_set_sched d (StE es')) es') True (gdM (d_set_sched d (StE es')) es') (d_set_sched d (StE es')) es'.
Proof.
  intros [Els Jnt Jact Jand Jnodes Jnnd Jn2c Jn2cnd Jst Jnum Jnc Jrem Jremnd Jbkst Jb Jss Jp Jtf Jsd Jcnt Jwhy Jinh]
    Hsd Hcomp es' Hg.
  assert (Hk : forall m, In m (e_nodes esp) -> In m (akeys (e_n2p esp))) by (intros m Hm; exact Hm).
  assert (Hn : forall m, In m (e_nodes esp) -> aget m (e_nt esp) <> None) by (intros m Hm; apply Jnt; apply Jnodes; exact Hm).
  destruct (sweep_spec (e_nodes esp) esp Jnnd Hk Hn) as (_ & (K1 & K2 & K3 & K4 & K5 & K6 & K7 & K8) & SC & UN & _).
  fold es' in K1, K2, K3, K4, K5, K6, K7, K8, SC, UN.
  assert (HK : forall m coll, aget m (e_n2c esp) = Some coll -> length coll = K).
  { intros m coll E. apply ea_aget_in in E. destruct (Jn2c _ _ E) as (-> & _). reflexivity. }
  assert (NODE : forall m fp, aget m (e_nt esp) = Some fp ->
            exists f', aget m (e_nt es') = Some f' /\ n_spec f' = n_spec fp /\
              (n_sdsent f' = n_sdsent fp \/ aget m (e_n2c esp) <> None)).
  { intros m fp Ef. destruct (in_dec Nat.eq_dec m (e_nodes esp)) as [Hin|Hni].
    - destruct (SC1_node _ _ _ _ fp (SC m Hin) Ef (HK m) K8) as (f' & A1 & A2 & _ & _ & _ & _ & _ & _ & _ & _ & A11).
      exists f'. auto.
    - destruct (UN m Hni) as ((_ & E & _) & _). exists fp. rewrite E. auto. }
  assert (Enod : e_nodes es' = e_nodes esp) by exact K5.
  constructor; cbn [d_sched d_set_sched d_shuttingdown d_shouldstop d_active d_next_gw];
    rewrite ?Enod, ?K1, ?K2, ?K3, ?K4.
  - reflexivity.
  - intros m. rewrite K6. apply Jnt.
  - exact Jact.
  - exact Jand.
  - exact Jnodes.
  - exact Jnnd.
  - exact Jn2c.
  - exact Jn2cnd.
  - intros m Hm. destruct (in_dec Nat.eq_dec m (e_nodes esp)) as [Hin|Hni]; [apply Jnodes; exact Hin|].
    destruct (UN m Hni) as ((_ & _ & E) & _). apply Jst. apply E. exact Hm.
  - exact Jnum.
  - intros C0. congruence.
  - exact Jrem.
  - exact Jremnd.
  - intros m Hm Hb.
    destruct (aget m (e_nt esp)) as [fp|] eqn:Ef; [|exfalso; exact (Hn m Hm Ef)].
    destruct (SC1_node _ _ _ _ fp (SC m Hm) Ef (HK m) K8) as (f' & _ & _ & _ & _ & _ & _ & _ & _ & _ & A10 & _).
    destruct (A10 Hb) as [X|X]; [apply Jbkst; assumption|apply ea_keys_get; exact X].
  - intros X. apply Jb. exact (Hg X).
  - exact Logic.I.
  - intros _ m f _ _. exact Hcomp.
  - intros (_ & _ & X). exact X.
  - intros X. congruence.
  - intros _ C0. congruence.
  - intros X. congruence.
  - intros X sg. pose proof (Jinh (Hg X) sg) as Y.
    rewrite (sumf_ext_seq (indR es' sg) (indR esp sg)), (sumf_ext_seq (indP (d_active d) es' sg) (indP (d_active d) esp sg)); [exact Y| |].
    + intros k _. unfold indP, sdb, specb. rewrite K1.
      destruct (aget k (e_nt esp)) as [fp|] eqn:Ef.
      * destruct (NODE k fp Ef) as (f' & -> & A & [B|B]); rewrite A; [rewrite B; reflexivity|].
        unfold ahas. destruct (aget k (e_n2c esp)); [|contradiction]. cbn [negb]. rewrite !andb_false_r. reflexivity.
      * assert (E' : aget k (e_nt es') = None).
        { destruct (aget k (e_nt es')) eqn:E'; [|reflexivity]. exfalso. apply (proj1 (K6 k)); congruence. }
        rewrite E'. reflexivity.
    + intros k _. unfold indR, specb. rewrite K2.
      destruct (aget k (e_nt esp)) as [fp|] eqn:Ef.
      * destruct (NODE k fp Ef) as (f' & -> & A & _). rewrite A. reflexivity.
      * assert (E' : aget k (e_nt es') = None).
        { destruct (aget k (e_nt es')) eqn:E'; [|reflexivity]. exfalso. apply (proj1 (K6 k)); congruence. }
        rewrite E'. reflexivity.
Qed.

(* ---- schedule(): one live node across the sweep ---- *)
Lemma sweep_live (gd gd1 : Prop) esp act k w fp L Lup dn :
  NoDup (e_nodes esp) -> (forall m, In m (e_nodes esp) -> aget m (e_nt esp) <> None) ->
  (forall m coll, aget m (e_n2c esp) = Some coll -> length coll = K) ->
  (forall m, In m (e_nodes esp) -> bkE esp m <> [] -> In m (akeys (e_n2c esp))) ->
  let es' := fst (sweep (e_nodes esp) esp) in let vo := snd (sweep (e_nodes esp) esp) in
  LNI c esp act gd k fp L Lup dn w -> aget k (e_nt esp) = Some fp -> (gd1 -> gd) ->
  exists f', aget k (e_nt es') = Some f' /\ n_down f' = n_down fp /\ LNI c es' act gd1 k f' L Lup (dn ++ cmds_to k vo) w.
Proof.
  intros ND Hn HK Hbkc es' vo X Ef Hg.
  assert (Hk : forall m, In m (e_nodes esp) -> In m (akeys (e_n2p esp))) by (intros m Hm; exact Hm).
  destruct (sweep_spec (e_nodes esp) esp ND Hk Hn) as (_ & (K1 & K2 & K3 & K4 & K5 & K6 & K7 & K8) & SC & UN & _).
  fold es' in K1, K2, K3, K4, K5, K6, K7, K8, SC, UN. fold vo in SC, UN.
  assert (Enod : e_nodes es' = e_nodes esp) by exact K5.
  change L with (ev_sigs_for k QWarning ++ L) in X.
  destruct (in_dec Nat.eq_dec k (e_nodes esp)) as [Hin|Hni].
  - destruct (SC1_node _ _ _ _ fp (SC k Hin) Ef (HK k) K8) as (f' & A1 & A2 & A3 & A4 & A5 & A6 & A7 & A8 & A9 & A10 & A11).
    exists f'. split; [exact A1|]. split; [exact A3|].
    apply (LNI_ctl esp es' act act gd gd1 k fp f' QWarning L Lup dn (cmds_to k vo) w X); rewrite ?Enod, ?K1; auto;
      cbn [ev_sigs_for ev_sig app completes length is_fin_ev]; try tauto; try lia;
      try (intros E; discriminate E); try (intros ? E; discriminate E); try discriminate.
    + unfold completes. cbn [flat_map length]. lia.
    + intros Hs. destruct (A9 Hs) as [Y|[Y|Y]]; [left; exact Y|right; right; apply ea_keys_get; exact Y|].
      right. right. apply Hbkc; assumption.
  - destruct (UN k Hni) as ((U1 & U2 & U3) & Ecs). exists fp. rewrite U2. split; [exact Ef|]. split; [reflexivity|].
    rewrite Ecs.
    assert (Eb : bkE es' k = bkE esp k) by (unfold bkE, alist_get; rewrite U1; reflexivity).
    apply (LNI_ctl esp es' act act gd gd1 k fp fp QWarning L Lup dn [] w X); rewrite ?Enod, ?K1, ?Eb; auto;
      cbn [ev_sigs_for ev_sig app completes length is_fin_ev flat_map In]; try tauto; try lia;
      try (constructor; fail);
      try (intros E; discriminate E); try (intros ? E; discriminate E); try discriminate;
      try (intros Hs; split; [rewrite <- U3; exact Hs|reflexivity]); try (intros Hs; left; apply U3; exact Hs).
Qed.

(* ---- add_node_collection after completion, when all collections agree ---- *)
Lemma e_inherit_x n dead : forall es es' o r sn,
  spec_of es n = Some sn ->
  (forall d p, In (d, p) dead -> spec_of es d <> None /\ aget d (e_n2c es) = Some (coll0 c)) ->
  e_inherit n (coll0 c) dead es = (es', o, r) ->
  r = Ok tt /\ o = [] /\
  (((forall d p, In (d, p) dead -> spec_of es d <> Some sn) /\ es' = es) \/
   (exists d p, In (d, p) dead /\ spec_of es d = Some sn /\ es' = es_inh n d p (coll0 c) es)).
Proof.
  induction dead as [|[d pend] dead IH]; intros es es' o r sn Hn Hd H.
  - cbn in H. unfold ret in H. inv H. split; [reflexivity|]. split; [reflexivity|]. left. split; [intros d p []|reflexivity].
  - cbn [e_inherit] in H. rewrite Coupling.mbind_get in H.
    destruct (Hd d pend (or_introl eq_refl)) as (Hsd & Hcd).
    destruct (spec_of es d) as [sd|] eqn:Esd; [|congruence]. rewrite Hn in H.
    cbn [of_opt] in H. rewrite !Coupling.mbind_ret in H.
    destruct (Nat.eqb sd sn) eqn:Eq.
    + apply Nat.eqb_eq in Eq. subst sd. rewrite Hcd in H. cbn [of_opt] in H. rewrite Coupling.mbind_ret in H.
      rewrite coll_eqb_refl in H. unfold put in H. inv H. split; [reflexivity|]. split; [reflexivity|].
      right. exists d, pend. split; [left; reflexivity|]. split; [exact Esd|reflexivity].
    + destruct (IH es es' o r sn Hn (fun d' p' Hin => Hd d' p' (or_intror Hin)) H) as (Hr & Ho & HH).
      split; [exact Hr|]. split; [exact Ho|].
      destruct HH as [(A & B)|(d' & p' & Hin & X)].
      * left. split; [|exact B]. intros d' p' [E|Hin]; [inv E; rewrite Esd; intros F; inv F; rewrite Nat.eqb_refl in Eq; discriminate|].
        apply (A d' p' Hin).
      * right. exists d', p'. split; [right; exact Hin|exact X].
Qed.

Lemma add_coll_late_x n es fn esp oA rA :
  e_completed es = true -> aget n (e_nt es) = Some fn -> aget n (e_n2p es) <> None ->
  (forall d p, In (d, p) (e_removed es) -> p <> [] /\ spec_of es d <> None /\ aget d (e_n2c es) = Some (coll0 c)) ->
  e_add_node_collection n (coll0 c) es = (esp, oA, rA) ->
  rA = Ok tt /\
  ((exists d p, In (d, p) (e_removed es) /\ p <> [] /\ spec_of es d = Some (n_spec fn) /\
      esp = es_inh n d p (coll0 c) es /\ oA = []) \/
   ((forall d p, In (d, p) (e_removed es) -> spec_of es d <> Some (n_spec fn)) /\
    ((bkE es n <> [] /\ esp = es /\ oA = []) \/
     (bkE es n = [] /\
      ((n_down fn || n_sdsent fn = true /\ esp = e_set_started es (e_started es ++ [n]) /\ oA = []) \/
       (n_down fn || n_sdsent fn = false /\
        esp = e_set_started (e_set_nt es (aset n (sdm fn) (e_nt es))) (e_started es ++ [n]) /\
        oA = vfilter (e_nt es) [OSend n CShutdown])))))).
Proof.
  intros Hc Ef Hp Hrm H. unfold e_add_node_collection in H. rewrite Coupling.mbind_get in H.
  unfold ahas in H. destruct (aget n (e_n2p es)) as [bk|] eqn:Ebk; [|congruence].
  rewrite Hc in H. cbn [massert negb] in H. rewrite Coupling.mbind_ret in H.
  assert (Hn : spec_of es n = Some (n_spec fn)) by (unfold spec_of; rewrite Ef; reflexivity).
  apply LoadProofs.mbind_inv in H. destruct H as [(e & H1 & ->)|(es1 & o1 & a & o2 & H1 & H2 & ->)].
  { exfalso. destruct (e_inherit_x n (e_removed es) es _ _ _ _ Hn (fun d p Hin => proj2 (Hrm d p Hin)) H1) as (F & _). discriminate. }
  destruct (e_inherit_x n (e_removed es) es _ _ _ _ Hn (fun d p Hin => proj2 (Hrm d p Hin)) H1) as (_ & -> & HH).
  rewrite Coupling.mbind_get in H2. cbn [app].
  destruct HH as [(Hno & ->)|(d & pend & Hin & Esp & ->)].
  - rewrite Ebk in H2. cbn [of_opt] in H2. rewrite Coupling.mbind_ret in H2.
    assert (Ebn : bkE es n = bk) by (unfold bkE, alist_get; rewrite Ebk; reflexivity).
    destruct bk as [|b0 bk].
    + unfold mbind at 1 in H2. rewrite (e_node_shutdown_x n es fn Ef) in H2.
      destruct (n_down fn || n_sdsent fn) eqn:E.
      * rewrite Coupling.mbind_get in H2. unfold put in H2. inv H2. split; [reflexivity|]. right. split; [exact Hno|].
        right. split; [exact Ebn|]. left. rewrite ?app_nil_r. auto.
      * rewrite Coupling.mbind_get in H2. unfold put in H2. inv H2. split; [reflexivity|]. right. split; [exact Hno|].
        right. split; [exact Ebn|]. right. rewrite ?app_nil_r. auto.
    + unfold ret in H2. inv H2. split; [reflexivity|]. right. split; [exact Hno|]. left. rewrite Ebn. split; [discriminate|auto].
  - unfold es_inh in H2. cbn [e_n2p e_set_n2c e_set_n2p] in H2. rewrite ea_get_set_eq in H2.
    cbn [of_opt] in H2. rewrite Coupling.mbind_ret in H2.
    destruct (Hrm d pend Hin) as (Hne & _). destruct pend as [|p0 pend]; [congruence|].
    unfold ret in H2. inv H2. split; [reflexivity|]. left. exists d, (p0 :: pend). auto 10.
Qed.

(* ---- collectionfinish: the common tail (schedule() when the collection is complete) ---- *)
Lemma cf_tail s es n q esp vo1 :
  GCI c (gdF s) (pssF s) s es -> y_evq s = QCollFinish n (coll0 c) :: q ->
  d_shuttingdown (y_d s) = false ->
  CJ (gdF s) (pssF s) False (d_set_sched (y_d s) (StE esp)) esp ->
  (forall k f, aget k (e_nt es) = Some f -> exists fp, aget k (e_nt esp) = Some fp /\ n_down fp = n_down f) ->
  spawn_ids vo1 = [] -> (forall k, d_next_gw (y_d s) <= k -> cmds_to k vo1 = []) ->
  let es' := if e_completed esp then fst (sweep (e_nodes esp) esp) else esp in
  let o2 := if e_completed esp then vfilter (e_nt esp) (snd (sweep (e_nodes esp) esp)) else [] in
  (forall k w f f1, ~ In k (y_dead s) -> aget k (y_w s) = Some w -> aget k (e_nt es) = Some f ->
     aget k (e_nt es') = Some f1 ->
     LNI c es' (d_active (y_d s)) (gdM (d_set_sched (y_d s) (StE es')) es') k f1
         (evq_sigs k q ++ flat_map up_sig (alist_get [] k (y_up s)))
         (flat_map up_sig (alist_get [] k (y_up s)))
         (alist_get [] k (y_down s) ++ cmds_to k (vfilter (e_nt es) vo1) ++ cmds_to k o2) w) ->
  GCI c (gdM (d_set_sched (y_d s) (StE es')) es') True
      (apply_outs (set_d (set_evq s q) (d_set_sched (y_d s) (StE es')))
                  (OHook (HCollFinished n) :: vfilter (e_nt es) vo1 ++ o2)) es'.
Proof.
  intros G Eevq Esd Jp Hfl Hsp Hcm es' o2 Hlive.
  pose proof (g_down _ _ _ _ _ G) as Gdown.
  pose proof Jp as [_ Jnt Jact Jand Jnodes Jnnd Jn2c Jn2cnd Jst Jnum Jnc Jrem Jremnd Jbkst Jb Jss Jp0 Jtf Jsd Jcnt Jwhy Jinh].
  cbn [d_next_gw d_set_sched d_active] in Jnt, Jact, Jnodes, Jn2c.
  assert (Hn : forall m, In m (e_nodes esp) -> aget m (e_nt esp) <> None) by (intros m Hm; apply Jnt; apply Jnodes; exact Hm).
  assert (HK : forall m coll, aget m (e_n2c esp) = Some coll -> length coll = K).
  { intros m coll E. apply ea_aget_in in E. destruct (Jn2c _ _ E) as (-> & _). reflexivity. }
  assert (Hgd : gdM (d_set_sched (y_d s) (StE es')) es' -> gdF s) by (intros (A & _); exact A).
  assert (Hk : forall m, In m (e_nodes esp) -> In m (akeys (e_n2p esp))) by (intros m Hm; exact Hm).
  apply (gci_ctl (gdF s) (pssF s) _ True s es q _ es' _ G).
  - right. eexists. exact Eevq.
  - intros k Hin Hnk. contradiction.
  - unfold es'. destruct (e_completed esp) eqn:Hc.
    + exact (cj_sweep (gdF s) (pssF s) False _ esp Jp Esd Hc Hgd).
    + apply (cj_weaken (gdF s) (pssF s) False); [exact Hgd|exact Logic.I|intros (_ & _ & X); exact X|exact Jp].
  - left. split; [reflexivity|]. cbn [spawn_ids]. rewrite spawn_ids_app, (spawn_ids_vfilter _ _ Hsp). cbn [app].
    unfold o2. destruct (e_completed esp); [|reflexivity].
    destruct (sweep_spec (e_nodes esp) esp Jnnd Hk Hn) as (_ & _ & _ & _ & P). apply spawn_ids_vfilter.
    clear -P. induction P as [|x l Hx _ IH]; [reflexivity|]. destruct x as [h|a b| |]; try exact IH. destruct h; try exact IH. discriminate.
  - intros k Hkg. change (cmds_to k (OHook (HCollFinished n) :: vfilter (e_nt es) vo1 ++ o2))
      with (cmds_to k (vfilter (e_nt es) vo1 ++ o2)).
    rewrite cmds_to_app, (cmds_to_vf_incl _ _ _ (Hcm k Hkg)). cbn [app].
    unfold o2. destruct (e_completed esp); [|reflexivity]. apply cmds_to_vf_incl.
    destruct (sweep_spec (e_nodes esp) esp Jnnd Hk Hn) as (_ & _ & _ & UN & _).
    apply UN. intros X. specialize (Jnodes k X). lia.
  - intros k f Ef. destruct (Hfl k f Ef) as (fp & Efp & Ed). unfold es'. destruct (e_completed esp); [|exists fp; auto].
    destruct (sweep_spec (e_nodes esp) esp Jnnd Hk Hn) as (_ & (K1 & K2 & K3 & K4 & K5 & K6 & K7 & K8) & SC & UN & _).
    destruct (in_dec Nat.eq_dec k (e_nodes esp)) as [Hin|Hni].
    + destruct (SC1_node _ _ _ _ fp (SC k Hin) Efp (HK k) K8) as (f' & A1 & _ & A3 & _). exists f'. split; [exact A1|congruence].
    + destruct (UN k Hni) as ((_ & E & _) & _). exists fp. rewrite E. auto.
  - intros k f1 Ef1 Hdn Hact. cbn [d_active d_set_sched] in Hact.
    assert (X : exists f, aget k (e_nt es) = Some f /\ n_down f = true).
    { destruct (aget k (e_nt es)) as [f|] eqn:Ef.
      - exists f. split; [reflexivity|]. destruct (Hfl k f Ef) as (fp & Efp & Ed).
        unfold es' in Ef1. destruct (e_completed esp); [|congruence].
        destruct (sweep_spec (e_nodes esp) esp Jnnd Hk Hn) as (_ & (K1 & K2 & K3 & K4 & K5 & K6 & K7 & K8) & SC & UN & _).
        destruct (in_dec Nat.eq_dec k (e_nodes esp)) as [Hin|Hni].
        + destruct (SC1_node _ _ _ _ fp (SC k Hin) Efp (HK k) K8) as (f' & A1 & _ & A3 & _). congruence.
        + destruct (UN k Hni) as ((_ & E & _) & _). rewrite E in Ef1. congruence.
      - exfalso. assert (Y : k < d_next_gw (y_d s)) by (apply (g_act _ _ _ _ _ G); exact Hact).
        apply (proj2 (g_ntk _ _ _ _ _ G k) Y). exact Ef. }
    destruct X as (f & Ef & Hd). destruct (Gdown k f Ef Hd Hact) as (ev' & Hin & Hf).
    rewrite Eevq in Hin. destruct Hin as [<-|Hin]; [discriminate Hf|]. exists ev'. auto.
  - intros k w f f1 Hl Hw Ef Ef1. cbn [d_active d_set_sched].
    change (cmds_to k (OHook (HCollFinished n) :: vfilter (e_nt es) vo1 ++ o2))
      with (cmds_to k (vfilter (e_nt es) vo1 ++ o2)).
    rewrite cmds_to_app. apply (Hlive k w f f1 Hl Hw Ef Ef1).
Qed.

Lemma cf_live2 (gd gd1 : Prop) esp act k w fp f1 L Lup dn :
  NoDup (e_nodes esp) -> (forall m, In m (e_nodes esp) -> aget m (e_nt esp) <> None) ->
  (forall m coll, aget m (e_n2c esp) = Some coll -> length coll = K) ->
  (forall m, In m (e_nodes esp) -> bkE esp m <> [] -> In m (akeys (e_n2c esp))) ->
  let es' := if e_completed esp then fst (sweep (e_nodes esp) esp) else esp in
  let o2 := if e_completed esp then vfilter (e_nt esp) (snd (sweep (e_nodes esp) esp)) else [] in
  LNI c esp act gd k fp L Lup dn w -> aget k (e_nt esp) = Some fp -> aget k (e_nt es') = Some f1 -> (gd1 -> gd) ->
  LNI c es' act gd1 k f1 L Lup (dn ++ cmds_to k o2) w.
Proof.
  intros ND Hn HK Hbk es' o2 X Efp Ef1 Hg. unfold es', o2 in *. destruct (e_completed esp).
  - destruct (sweep_live gd gd1 esp act k w fp L Lup dn ND Hn HK Hbk X Efp Hg) as (f' & Ef' & _ & Y).
    assert (f' = f1) by congruence. subst f'.
    rewrite (cmds_to_vf _ _ _ _ Efp (ln_open _ _ _ _ _ _ _ _ _ _ X)). exact Y.
  - assert (fp = f1) by congruence. subst fp. cbn [cmds_to flat_map]. rewrite app_nil_r.
    destruct X as [A1 A2 A3 A4 A5 A6 A7 A8 A9 A10 A11 A12 A13 A14 A15 A16 A17 A18].
    constructor; auto.
Qed.

Lemma sd_outs_cmds n vo : Forall is_sd_out vo -> Forall ecmd (cmds_to n vo) /\ flat_map (cinds0 K) (cmds_to n vo) = [].
Proof.
  induction 1 as [|x l Hx _ (IH1 & IH2)]; [split; [constructor|reflexivity]|].
  destruct x as [h|a b| |]; try contradiction. destruct b; try contradiction.
  unfold cmds_to in *. cbn [flat_map cmd_to]. destruct (Nat.eqb a n); cbn [app flat_map].
  - split; [constructor; [exact Logic.I|exact IH1]|]. unfold cinds0 at 1. cbn. exact IH2.
  - split; assumption.
Qed.

(* ---- collectionfinish: a generic add step followed by the common tail ---- *)
Lemma cf_case s es n q esp vo1 fn fnp :
  GCI c (gdF s) (pssF s) s es -> y_evq s = QCollFinish n (coll0 c) :: q ->
  d_shuttingdown (y_d s) = false -> aget n (e_nt es) = Some fn -> In n (e_nodes es) ->
  (* the estate after add_node_collection *)
  e_numnodes esp = e_numnodes es -> e_nodes esp = e_nodes es ->
  (forall m, m <> n -> bkE esp m = bkE es m) ->
  (forall m, m <> n -> (In m (e_started esp) <-> In m (e_started es))) ->
  (forall m ids, In (m, ids) (e_n2c esp) -> ids = coll0 c /\ (In m (akeys (e_n2c es)) \/ m = n)) ->
  (forall m, In m (akeys (e_n2c es)) -> In m (akeys (e_n2c esp))) -> NoDup (akeys (e_n2c esp)) ->
  (forall x, In x (e_removed esp) -> In x (e_removed es)) -> NoDup (akeys (e_removed esp)) ->
  (e_completed es = true -> e_completed esp = true) ->
  (forall m, m <> n -> aget m (e_nt esp) = aget m (e_nt es)) ->
  aget n (e_nt esp) = Some fnp -> n_spec fnp = n_spec fn -> n_down fnp = n_down fn -> n_closed fnp = n_closed fn ->
  (n_sdsent fnp = true <-> n_sdsent fn = true \/ In CShutdown (cmds_to n vo1)) ->
  Forall is_sd_out vo1 -> (forall m, cmds_to m vo1 <> [] -> m = n) ->
  (bkE esp n <> [] -> In n (akeys (e_n2c esp))) ->
  (e_completed esp = false ->
     length (e_n2c esp) < N /\ e_removed esp = [] /\ e_started esp = [] /\ forall m, bkE esp m = []) ->
  (n_sdsent fnp = true -> e_completed esp = true) ->
  (forall sg, sumf (indR es sg) (seq 0 (d_next_gw (y_d s))) <= sumf (indP (d_active (y_d s)) es sg) (seq 0 (d_next_gw (y_d s))) ->
              sumf (indR esp sg) (seq 0 (d_next_gw (y_d s))) <= sumf (indP (d_active (y_d s)) esp sg) (seq 0 (d_next_gw (y_d s)))) ->
  (In n (akeys (e_n2c esp)) \/ n_sdsent fnp = true \/ n_down fn = true \/ bkE es n <> []) ->
  (In n (e_started esp) -> In n (e_started es) \/ bkE esp n = []) ->
  (length (bkE esp n) <= length (bkE es n) \/
   (bkE esp n <> [] /\ e_completed esp = true /\ vo1 = [] /\ (In n (e_started es) -> In n (e_started esp)))) ->
  let es' := if e_completed esp then fst (sweep (e_nodes esp) esp) else esp in
  let o2 := if e_completed esp then vfilter (e_nt esp) (snd (sweep (e_nodes esp) esp)) else [] in
  GCI c (gdM (d_set_sched (y_d s) (StE es')) es') True
      (apply_outs (set_d (set_evq s q) (d_set_sched (y_d s) (StE es')))
                  (OHook (HCollFinished n) :: vfilter (e_nt es) vo1 ++ o2)) es'.
Proof.
  intros G Eevq Esd Efn Hin Enum Enod Hbk Hst Hn2cv Hn2ck Hn2cnd Hrem Hremnd Hcomp Hnt Efnp Fsp Fdn Fcl Fsd
    Hsdo Hcmn Hbkc Hnc Hp Hinh Hcfn Hstn Hbkn es' o2.
  pose proof (gci_cj _ _ _ _ G) as J. pose proof (cj_sched _ _ _ _ _ J) as Els.
  pose proof (g_live _ _ _ _ _ G) as Glive.
  pose proof J as [_ Jnt Jact Jand Jnodes Jnnd Jn2c Jn2cnd Jst Jnum Jnc Jrem Jremnd Jbkst Jb Jss Jp Jtf Jsd Jcnt Jwhy Jinh].
  set (gw := d_next_gw (y_d s)) in *.
  assert (HnG : n < gw) by (apply Jnodes; exact Hin).
  assert (NTK : forall m, aget m (e_nt esp) <> None <-> aget m (e_nt es) <> None).
  { intros m. destruct (Nat.eq_dec m n) as [->|Hm]; [rewrite Efnp, Efn; split; discriminate|rewrite (Hnt m Hm); tauto]. }
  assert (SDIN : forall m, sd_in (e_nt es) m -> sd_in (e_nt esp) m).
  { intros m (f & Ef & Hs). destruct (Nat.eq_dec m n) as [->|Hm].
    - exists fnp. split; [exact Efnp|]. assert (f = fn) by congruence. subst f. unfold shutting_down in *. rewrite Fdn.
      destruct (n_down fn); [reflexivity|]. cbn [orb] in *. apply Fsd. left. exact Hs.
    - exists f. rewrite (Hnt m Hm). auto. }
  assert (SPEC : forall sg m, specb esp sg m = specb es sg m).
  { intros sg m. unfold specb. destruct (Nat.eq_dec m n) as [->|Hm]; [rewrite Efnp, Efn, Fsp; reflexivity|rewrite (Hnt m Hm); reflexivity]. }
  (* the controller-only invariant of the intermediate state *)
  assert (Jp' : CJ (gdF s) (pssF s) False (d_set_sched (y_d s) (StE esp)) esp).
  { constructor; cbn [d_sched d_set_sched d_shuttingdown d_shouldstop d_active d_next_gw]; rewrite ?Enod, ?Enum; fold gw.
    - reflexivity.
    - intros m. rewrite NTK. apply Jnt.
    - exact Jact.
    - exact Jand.
    - exact Jnodes.
    - exact Jnnd.
    - intros m ids Hm. destruct (Hn2cv m ids Hm) as (A & [B|B]); split; auto.
      + apply ea_keys_get in B. destruct (aget m (e_n2c es)) as [x|] eqn:E; [|contradiction]. apply ea_aget_in in E.
        exact (proj2 (Jn2c _ _ E)).
      + subst m. exact HnG.
    - exact Hn2cnd.
    - intros m Hm. destruct (Nat.eq_dec m n) as [->|Hmn]; [exact HnG|]. apply Jst. apply Hst; assumption.
    - exact Jnum.
    - exact Hnc.
    - intros m rest Hm. destruct (Jrem m rest (Hrem _ Hm)) as (A & B & C0). split; [exact A|]. split; [exact B|].
      apply ea_keys_get. apply Hn2ck. apply ea_keys_get. exact C0.
    - exact Hremnd.
    - intros m Hm Hb. destruct (Nat.eq_dec m n) as [->|Hmn]; [apply Hbkc; exact Hb|].
      rewrite (Hbk m Hmn) in Hb. apply Hn2ck. apply Jbkst; assumption.
    - exact Jb.
    - exact Jss.
    - intros X m f Ef Hs. destruct (Nat.eq_dec m n) as [->|Hmn].
      + assert (f = fnp) by congruence. subst f. apply Hp. exact Hs.
      + rewrite (Hnt m Hmn) in Ef. apply Hcomp. exact (Jp X m f Ef Hs).
    - intros [].
    - intros X. unfold gdF in Esd. congruence.
    - intros X C0. apply (Jcnt X). destruct (e_completed es) eqn:E; [rewrite (Hcomp eq_refl) in C0; discriminate|reflexivity].
    - intros X. congruence.
    - intros X sg. apply Hinh. exact (Jinh X sg). }
  apply (cf_tail s es n q esp vo1 G Eevq Esd Jp').
  - intros k f Ef. destruct (Nat.eq_dec k n) as [->|Hk].
    + exists fnp. split; [exact Efnp|]. congruence.
    + exists f. rewrite (Hnt k Hk). auto.
  - apply is_sd_out_spawn. exact Hsdo.
  - intros k Hk. destruct (cmds_to k vo1) eqn:E; [reflexivity|]. exfalso.
    assert (k = n) by (apply Hcmn; rewrite E; discriminate). subst k. lia.
  - (* the live nodes *)
    fold es' o2. intros k w f f1 Hl Hw Ef Ef1.
    pose proof (Glive k w f Hl Hw Ef) as X. rewrite (sigs_head s _ q k Eevq) in X.
    pose proof Jp' as [_ Pnt _ _ Pnodes Pnnd Pn2c _ _ _ _ _ _ Pbkst _ _ _ _ _ _ _ _].
    cbn [d_next_gw d_set_sched] in Pnt, Pnodes, Pn2c.
    assert (Hn' : forall m, In m (e_nodes esp) -> aget m (e_nt esp) <> None) by (intros m Hm; apply Pnt; apply Pnodes; exact Hm).
    assert (HK : forall m coll, aget m (e_n2c esp) = Some coll -> length coll = K).
    { intros m coll E. apply ea_aget_in in E. destruct (Pn2c _ _ E) as (-> & _). reflexivity. }
    assert (Hgd : gdM (d_set_sched (y_d s) (StE es')) es' -> gdF s) by (intros (A & _); exact A).
    destruct (Nat.eq_dec k n) as [->|Hkn].
    + (* the node whose collection arrived *)
      assert (f = fn) by congruence. subst f.
      pose proof X as X0. rewrite (ev_sigs_for_self n (QCollFinish n (coll0 c)) SgCF eq_refl) in X0. cbn [app] in X0.
      assert (Hopen : n_closed fn = false) by exact (ln_open _ _ _ _ _ _ _ _ _ _ X0).
      rewrite (cmds_to_vf _ _ _ _ Efn Hopen).
      assert (Hnst0 : ~ In n (e_started es)).
      { intros Y. destruct (ln_started _ _ _ _ _ _ _ _ _ _ X0 Y) as (A & _). apply A. left. reflexivity. }
      assert (Hb0 : bkE es n = []).
      { pose proof (ln_fresh _ _ _ _ _ _ _ _ _ _ X0 Hnst0) as Y. pose proof (ln_book _ _ _ _ _ _ _ _ _ _ X0) as Z.
        rewrite Y in Z. destruct (bkE es n); [reflexivity|cbn in Z; lia]. }
      assert (Hcf' : In n (akeys (e_n2c esp)) \/ n_sdsent fnp = true \/ n_down fn = true).
      { destruct Hcfn as [Y|[Y|[Y|Y]]]; auto; try contradiction. }
      destruct Hbkn as [Hle|(Hne & Hc & -> & Hstk)].
      * (* two steps: the add step, then the sweep *)
        assert (Y : LNI c esp (d_active (y_d s)) (gdF s) n fnp (evq_sigs n q ++ flat_map up_sig (alist_get [] n (y_up s)))
                      (flat_map up_sig (alist_get [] n (y_up s))) (alist_get [] n (y_down s) ++ cmds_to n vo1) w).
        { apply (LNI_ctl es esp (d_active (y_d s)) (d_active (y_d s)) (gdF s) (gdF s) n fn fnp (QCollFinish n (coll0 c)) _ _ _ (cmds_to n vo1) w X);
            rewrite ?Enod; auto; cbn [ev_sigs_for ev_sig completes flat_map app length is_fin_ev]; try tauto;
            try (intros E; discriminate E); try discriminate.
          - exact (proj1 (sd_outs_cmds n vo1 Hsdo)).
          - rewrite Nat.eqb_refl. cbn [completes flat_map app length]. rewrite Hb0 in *. cbn [length] in *.
            rewrite (proj2 (sd_outs_cmds n vo1 Hsdo)). cbn. lia.
          - intros Hns. split; [exact Hnst0|]. exact (proj2 (sd_outs_cmds n vo1 Hsdo)).
          - intros _. right. left. eexists. reflexivity.
          - intros Hm. apply ea_keys_get in Hm. destruct (aget n (e_n2c esp)) as [x|] eqn:E; [|contradiction].
            apply ea_aget_in in E. destruct (Hn2cv _ _ E) as (_ & [B|B]); [left; exact B|right; eexists; reflexivity]. }
        rewrite (app_assoc (alist_get [] n (y_down s))).
        exact (cf_live2 (gdF s) _ esp _ n w fnp f1 _ _ _ Pnnd Hn' HK Pbkst Y Efnp Ef1 Hgd).
      * (* the node inherits a remainder: the run command goes out in the sweep *)
        cbn [cmds_to flat_map app]. unfold es', o2 in *. rewrite Hc in *.
        assert (Hk0 : forall m, In m (e_nodes esp) -> In m (akeys (e_n2p esp))) by (intros m Hm; exact Hm).
        destruct (sweep_spec (e_nodes esp) esp Pnnd Hk0 Hn') as (_ & (K1 & K2 & K3 & K4 & K5 & K6 & K7 & K8) & SC & UN & _).
        assert (Hinp : In n (e_nodes esp)) by (rewrite Enod; exact Hin).
        assert (Hnsp : ~ In n (e_started esp)).
        { intros Y. destruct (Hstn Y) as [Z|Z]; contradiction. }
        destruct (SC n Hinp) as [(Hst1 & _)|[(_ & Ep0 & _)|(_ & Hs' & pend & Hpne & Ep & Ep' & E2 & Ecs)]].
        -- exfalso. destruct Hst1 as [Z|(Z & _)]; [contradiction|]. apply Hne. unfold bkE, alist_get. rewrite Z. reflexivity.
        -- exfalso. apply Hne. unfold bkE, alist_get. rewrite Ep0. reflexivity.
        -- rewrite E2, Efnp in Ef1. injection Ef1 as <-.
           rewrite (cmds_to_vf _ _ _ _ Efnp (eq_trans Fcl Hopen)), Ecs.
           assert (Ebp : bkE (fst (sweep (e_nodes esp) esp)) n = pend) by (unfold bkE, alist_get; rewrite Ep'; reflexivity).
           assert (Efe : fnp = fn).
           { destruct fnp, fn; cbn in *. f_equal; auto. destruct n_sdsent, n_sdsent0; try reflexivity; exfalso.
             - destruct (proj1 Fsd eq_refl) as [Z|[]]; discriminate.
             - assert (Z : false = true) by (apply Fsd; left; reflexivity). discriminate. }
           subst fnp.
           apply (LNI_ctl es _ (d_active (y_d s)) (d_active (y_d s)) (gdF s) _ n fn fn (QCollFinish n (coll0 c)) _ _ _ [CRun pend] w X);
             rewrite ?K5, ?K1, ?Ebp; try (rewrite Enod; tauto); auto; cbn [ev_sigs_for ev_sig completes flat_map app length is_fin_ev In]; try tauto;
             try (intros E; discriminate E); try discriminate.
           ++ split; [auto|intros [Z|[Z|[]]]; [exact Z|discriminate Z]].
           ++ repeat constructor.
           ++ rewrite Nat.eqb_refl. unfold cinds0. cbn [completes flat_map citems app length]. rewrite item_inds_map_idx, app_nil_r. lia.
           ++ intros _. right. left. eexists. reflexivity.
           ++ intros Hm. left. assert (E5 : e_nodes (fst (sweep (e_nodes esp) esp)) = e_nodes esp) by exact K5.
              rewrite E5, Enod. exact Hm.
           ++ intros Hm. apply ea_keys_get in Hm. destruct (aget n (e_n2c esp)) as [x|] eqn:E; [|contradiction].
              apply ea_aget_in in E. destruct (Hn2cv _ _ E) as (_ & [B|B]); [left; exact B|right; eexists; reflexivity].
    + (* every other node: untouched by the add step *)
      assert (Efp : aget k (e_nt esp) = Some f) by (rewrite (Hnt k Hkn); exact Ef).
      assert (E0 : ev_sigs_for k (QCollFinish n (coll0 c)) = []).
      { unfold ev_sigs_for. cbn. destruct (Nat.eqb n k) eqn:E; [apply Nat.eqb_eq in E; congruence|reflexivity]. }
      assert (Ecs1 : cmds_to k (vfilter (e_nt es) vo1) = []).
      { apply cmds_to_vf_incl. destruct (cmds_to k vo1) eqn:E; [reflexivity|]. exfalso. apply Hkn. apply Hcmn. rewrite E. discriminate. }
      rewrite Ecs1. cbn [app].
      assert (Y : LNI c esp (d_active (y_d s)) (gdF s) k f (evq_sigs k q ++ flat_map up_sig (alist_get [] k (y_up s)))
                    (flat_map up_sig (alist_get [] k (y_up s))) (alist_get [] k (y_down s) ++ []) w).
      { apply (LNI_untouched es esp (d_active (y_d s)) (d_active (y_d s)) (gdF s) (gdF s) k f (QCollFinish n (coll0 c))); auto;
          rewrite ?Enod; try tauto; try discriminate;
          try (rewrite (Hbk k Hkn); lia); try (apply Hst; exact Hkn).
        split; [|apply Hn2ck]. intros Hm. apply ea_keys_get in Hm. destruct (aget k (e_n2c esp)) as [x|] eqn:E; [|contradiction].
        apply ea_aget_in in E. destruct (Hn2cv _ _ E) as (_ & [B|B]); [exact B|congruence]. }
      rewrite app_nil_r in Y.
      exact (cf_live2 (gdF s) _ esp _ k w f f1 _ _ _ Pnnd Hn' HK Pbkst Y Efp Ef1 Hgd).
Qed.

Lemma inh_step2 (fR fP gR gP : nat -> nat) gw d n :
  sumf fR (seq 0 gw) <= sumf fP (seq 0 gw) -> d < gw -> n < gw ->
  (forall k, k < gw -> k <> d -> gR k = fR k) -> (forall k, k < gw -> k <> n -> gP k = fP k) ->
  gR d <= fR d -> fP n + gR d <= gP n + fR d ->
  sumf gR (seq 0 gw) <= sumf gP (seq 0 gw).
Proof.
  intros H Hd Hn HR HP E1 E2.
  assert (Hind : In d (seq 0 gw)) by (apply in_seq; lia). assert (Hinn : In n (seq 0 gw)) by (apply in_seq; lia).
  assert (YR : sumf gR (seq 0 gw) + fR d = sumf fR (seq 0 gw) + gR d).
  { apply (sumf_change_one fR gR (seq 0 gw) d (seq_NoDup gw 0) Hind). intros k Hk Hkn. apply HR; [apply in_seq in Hk; lia|exact Hkn]. }
  assert (YP : sumf gP (seq 0 gw) + fP n = sumf fP (seq 0 gw) + gP n).
  { apply (sumf_change_one fP gP (seq 0 gw) n (seq_NoDup gw 0) Hinn). intros k Hk Hkn. apply HP; [apply in_seq in Hk; lia|exact Hkn]. }
  lia.
Qed.

Lemma indR_zero es sg l : (forall k, indR es sg k = 0) -> sumf (indR es sg) l = 0.
Proof. intros H. induction l as [|a l IH]; [reflexivity|]. rewrite sumf_cons, H, IH. reflexivity. Qed.

Lemma gci_cf_noop s es n q :
  GCI c (gdF s) (pssF s) s es -> y_evq s = QCollFinish n (coll0 c) :: q ->
  (gdF s -> ~ In n (e_nodes es)) ->
  GCI c (gdM (y_d s) es) True (apply_outs (set_d (set_evq s q) (y_d s)) []) es.
Proof.
  intros G Eevq Hno.
  pose proof (gci_cj _ _ _ _ G) as J.
  pose proof (g_down _ _ _ _ _ G) as Gdown. pose proof (g_live _ _ _ _ _ G) as Glive.
  assert (Hgd : gdM (y_d s) es -> gdF s) by (intros (A & _); exact A).
  apply (gci_ctl (gdF s) (pssF s) (gdM (y_d s) es) True s es q (y_d s) es [] G).
  - right. eexists. exact Eevq.
  - intros k Hin Hnk. contradiction.
  - apply (cj_same (gdF s) (pssF s) _ (y_d s)); auto. repeat split.
  - left. split; reflexivity.
  - intros k _. reflexivity.
  - intros k f Ef. exists f. auto.
  - intros k f1 Ef1 Hdn Hact. destruct (Gdown k f1 Ef1 Hdn Hact) as (ev' & Hi & Hf).
    rewrite Eevq in Hi. destruct Hi as [<-|Hi]; [discriminate Hf|]. exists ev'. auto.
  - intros k w f f1 Hl Hw Ef Ef1. assert (f1 = f) by congruence. subst f1. cbn [cmds_to flat_map].
    pose proof (Glive k w f Hl Hw Ef) as X. rewrite (sigs_head s _ q k Eevq) in X.
    destruct (Nat.eq_dec k n) as [->|Hkn].
    + apply (LNI_ctl es es (d_active (y_d s)) (d_active (y_d s)) (gdF s) _ n f f (QCollFinish n (coll0 c)) _ _ _ [] w X);
        auto; cbn [completes ev_sigs_for ev_sig flat_map length In is_fin_ev]; try tauto;
        try (constructor; fail); try (rewrite ?Nat.eqb_refl; cbn; lia);
        try (intros E; discriminate E); try discriminate;
        try (intros _; right; left; eexists; reflexivity);
        try (intros ids _ Y Hin; exfalso; exact (Hno (Hgd Y) Hin)).
    + assert (E0 : ev_sigs_for k (QCollFinish n (coll0 c)) = []).
      { unfold ev_sigs_for. cbn. destruct (Nat.eqb n k) eqn:E; [apply Nat.eqb_eq in E; congruence|reflexivity]. }
      apply (LNI_untouched es es (d_active (y_d s)) (d_active (y_d s)) (gdF s) _ k f (QCollFinish n (coll0 c))); auto;
        try tauto; try discriminate.
Qed.

Lemma sched_after_add d esp :
  e_completed esp = true -> NoDup (e_nodes esp) -> (forall m, In m (e_nodes esp) -> aget m (e_nt esp) <> None) ->
  d_sched_op SSchedule (d_set_sched d (StE esp)) =
    (d_set_sched d (StE (fst (sweep (e_nodes esp) esp))), vfilter (e_nt esp) (snd (sweep (e_nodes esp) esp)), Ok None).
Proof.
  intros Hc ND Hn. assert (E0 : d_sched (d_set_sched d (StE esp)) = StE esp) by reflexivity.
  rewrite (sched_op_runE _ _ esp E0). cbn [s_step]. rewrite (e_schedule_run esp Hc).
  assert (Hk : forall m, In m (e_nodes esp) -> In m (akeys (e_n2p esp))) by (intros m Hm; exact Hm).
  destruct (sweep_spec (e_nodes esp) esp ND Hk Hn) as (Em & _). fold (e_nodes esp). rewrite Em. reflexivity.
Qed.

Lemma gci_handle_collfinish s es n ids q d1 o1 :
  GCI c (gdF s) (pssF s) s es -> y_evq s = QCollFinish n ids :: q ->
  d_handle (QCollFinish n ids) (y_d s) = (d1, o1, Ok tt) ->
  exists es1, GCI c (gdM d1 es1) True (apply_outs (set_d (set_evq s q) d1) o1) es1.
Proof.
  intros G Eevq H.
  pose proof (gci_cj _ _ _ _ G) as J. pose proof (cj_sched _ _ _ _ _ J) as Els.
  pose proof J as [_ Jnt Jact Jand Jnodes Jnnd Jn2c Jn2cnd Jst Jnum Jnc Jrem Jremnd Jbkst Jb Jss Jp Jtf Jsd Jcnt Jwhy Jinh].
  assert (Hok : ids = coll0 c /\ n < d_next_gw (y_d s)).
  { pose proof (g_evq _ _ _ _ _ G) as Gevq. rewrite Eevq in Gevq. inversion Gevq as [|x l (A & B) _]; subst. auto. }
  destruct Hok as (-> & HnG).
  destruct (aget n (e_nt es)) as [fn|] eqn:Efn; [|exfalso; apply (proj2 (Jnt n) HnG); exact Efn].
  cbn [d_handle] in H. rewrite mbind_get in H.
  assert (Hcase : d_shuttingdown (y_d s) = true \/ d_shuttingdown (y_d s) = false) by (destruct (d_shuttingdown (y_d s)); auto).
  destruct Hcase as [Esd|Esd]; rewrite Esd in H.
  { unfold ret in H. inv H. exists es. apply (gci_cf_noop s es n q G Eevq). intros X. unfold gdF in X. congruence. }
  rewrite Els in H. cbn [s_nodes] in H.
  destruct (mem_nat n (e_nodes es)) eqn:Em; cbn [negb] in H.
  2:{ unfold ret in H. inv H. exists es. apply (gci_cf_noop s es n q G Eevq). intros _. apply mem_nat_false. exact Em. }
  apply mem_nat_In in Em.
  assert (Hp : aget n (e_n2p es) <> None) by (apply ea_keys_get; exact Em).
  unfold hook in H. rewrite mbind_emit in H. unfold mbind at 1 in H.
  rewrite (sched_op_runE _ _ es Els) in H. cbn [s_step] in H.
  destruct (e_add_node_collection n (coll0 c) es) as [[esp oA] rA] eqn:Ea. cbn [lift] in H.
  destruct rA as [u|e]; [|inv H]. rewrite mbind_get in H.
  cbn [d_sched d_set_sched s_collection_is_completed] in H.
  (* the generic facts the sub-cases share *)
  assert (FIN : forall vo1 fnp,
    oA = vfilter (e_nt es) vo1 ->
    e_numnodes esp = e_numnodes es -> e_nodes esp = e_nodes es ->
    (forall m, m <> n -> bkE esp m = bkE es m) ->
    (forall m, m <> n -> (In m (e_started esp) <-> In m (e_started es))) ->
    (forall m ids, In (m, ids) (e_n2c esp) -> ids = coll0 c /\ (In m (akeys (e_n2c es)) \/ m = n)) ->
    (forall m, In m (akeys (e_n2c es)) -> In m (akeys (e_n2c esp))) -> NoDup (akeys (e_n2c esp)) ->
    (forall x, In x (e_removed esp) -> In x (e_removed es)) -> NoDup (akeys (e_removed esp)) ->
    (e_completed es = true -> e_completed esp = true) ->
    (forall m, m <> n -> aget m (e_nt esp) = aget m (e_nt es)) ->
    aget n (e_nt esp) = Some fnp -> n_spec fnp = n_spec fn -> n_down fnp = n_down fn -> n_closed fnp = n_closed fn ->
    (n_sdsent fnp = true <-> n_sdsent fn = true \/ In CShutdown (cmds_to n vo1)) ->
    Forall is_sd_out vo1 -> (forall m, cmds_to m vo1 <> [] -> m = n) ->
    (bkE esp n <> [] -> In n (akeys (e_n2c esp))) ->
    (e_completed esp = false ->
       length (e_n2c esp) < N /\ e_removed esp = [] /\ e_started esp = [] /\ forall m, bkE esp m = []) ->
    (n_sdsent fnp = true -> e_completed esp = true) ->
    (forall sg, sumf (indR es sg) (seq 0 (d_next_gw (y_d s))) <= sumf (indP (d_active (y_d s)) es sg) (seq 0 (d_next_gw (y_d s))) ->
                sumf (indR esp sg) (seq 0 (d_next_gw (y_d s))) <= sumf (indP (d_active (y_d s)) esp sg) (seq 0 (d_next_gw (y_d s)))) ->
    (In n (akeys (e_n2c esp)) \/ n_sdsent fnp = true \/ n_down fn = true \/ bkE es n <> []) ->
    (In n (e_started esp) -> In n (e_started es) \/ bkE esp n = []) ->
    (length (bkE esp n) <= length (bkE es n) \/
     (bkE esp n <> [] /\ e_completed esp = true /\ vo1 = [] /\ (In n (e_started es) -> In n (e_started esp)))) ->
    exists es1, GCI c (gdM d1 es1) True (apply_outs (set_d (set_evq s q) d1) o1) es1).
  { intros vo1 fnp -> A1 A2 A3 A4 A5 A6 A7 A8 A9 A10 A11 A12 A13 A14 A15 A16 A17 A18 A19 A20 A21 A22 A23 A24 A25.
    pose proof (cf_case s es n q esp vo1 fn fnp G Eevq Esd Efn Em A1 A2 A3 A4 A5 A6 A7 A8 A9 A10 A11 A12 A13 A14 A15 A16 A17 A18 A19 A20 A21 A22 A23 A24 A25) as R.
    cbv zeta in R.
    destruct (e_completed esp) eqn:Hc.
    - assert (NDp : NoDup (e_nodes esp)) by (rewrite A2; exact Jnnd).
      assert (Hnp : forall m, In m (e_nodes esp) -> aget m (e_nt esp) <> None).
      { intros m Hm. rewrite A2 in Hm. destruct (Nat.eq_dec m n) as [->|Hmn]; [rewrite A12; discriminate|].
        rewrite (A11 m Hmn). apply Jnt. apply Jnodes. exact Hm. }
      unfold mbind at 1 in H. rewrite (sched_after_add _ esp Hc NDp Hnp) in H. unfold ret in H. inv H.
      eexists. rewrite !app_nil_r. exact R.
    - unfold ret in H. inv H. eexists. rewrite !app_nil_r in *. exact R. }
  destruct (e_completed es) eqn:Hces.
  - (* the collection was already complete: a late node *)
    assert (Hrm : forall d p, In (d, p) (e_removed es) -> p <> [] /\ spec_of es d <> None /\ aget d (e_n2c es) = Some (coll0 c)).
    { intros d p Hin. destruct (Jrem d p Hin) as (A & B & C0). split; [exact A|]. split.
      - unfold spec_of. destruct (aget d (e_nt es)) eqn:E; [discriminate|]. exfalso. apply (proj2 (Jnt d) B). exact E.
      - destruct (aget d (e_n2c es)) as [x|] eqn:E; [|contradiction]. pose proof (ea_aget_in _ _ _ E) as E'.
        destruct (Jn2c _ _ E') as (-> & _). reflexivity. }
    destruct (add_coll_late_x n es fn esp oA (Ok u) Hces Efn Hp Hrm Ea)
      as (_ & [(d & p & Hin & Hpne & Hsp & -> & ->)|(Hno & [(Hbne & -> & ->)|(Hb0 & [(Hds & -> & ->)|(Hds & -> & ->)])])]).
    + (* it inherits the remainder of dead node d *)
      destruct (Jrem d p Hin) as (_ & HdG & _).
      assert (Hdn : aget d (e_removed es) = Some p) by (apply ea_in_aget; assumption).
      apply (FIN [] fn); unfold es_inh; cbn [e_numnodes e_nodes e_n2p e_n2c e_started e_removed e_completed e_nt e_set_n2c e_set_n2p e_set_removed bkE];
        auto; try tauto.
      * apply ea_keys_set_in. exact Em.
      * intros m Hm. unfold bkE. cbn [e_n2p e_set_n2c e_set_n2p e_set_removed]. apply ea_alist_get_set_neq. exact Hm.
      * intros m ids0 Hm. apply ea_in_set in Hm. destruct Hm as [(-> & ->)|Hm]; [auto|].
        destruct (Jn2c _ _ Hm) as (A & _). split; [exact A|]. left. unfold akeys. change m with (fst (m, ids0)). apply in_map. exact Hm.
      * intros m Hm. apply ea_keys_set. right. exact Hm.
      * apply ea_keys_set_nodup. exact Jn2cnd.
      * intros x. apply ea_in_del.
      * apply ea_keys_del_nodup. exact Jremnd.
      * cbn. tauto.
      * intros _. apply ea_keys_set. left. reflexivity.
      * intros F. congruence.
      * intros sg Hle.
        assert (Hspd : forall fd, aget d (e_nt es) = Some fd -> n_spec fd = n_spec fn).
        { intros fd Efd. unfold spec_of in Hsp. rewrite Efd in Hsp. congruence. }
        apply (inh_step2 (indR es sg) (indP (d_active (y_d s)) es sg) _ _ _ d n Hle HdG HnG).
        -- intros k _ Hkd. unfold indR. cbn [e_removed e_set_n2c e_set_n2p e_set_removed].
           rewrite (ahas_eq_iff k (adel d (e_removed es)) (e_removed es)); [reflexivity|].
           rewrite (adel_keys_iff d (e_removed es) k Jremnd). tauto.
        -- intros k _ Hkn. unfold indP. cbn [e_n2c e_set_n2c e_set_n2p e_set_removed].
           rewrite ahas_aset. replace (Nat.eqb k n) with false by (symmetry; apply Nat.eqb_neq; exact Hkn). reflexivity.
        -- unfold indR. cbn [e_removed e_set_n2c e_set_n2p e_set_removed].
           replace (ahas d (adel d (e_removed es))) with false; [cbn; lia|].
           symmetry. unfold ahas. rewrite (ea_get_del_eq d _ Jremnd). reflexivity.
        -- unfold indR, indP, sdb, specb. cbn [e_removed e_n2c e_nt e_set_n2c e_set_n2p e_set_removed].
           rewrite ahas_aset, Nat.eqb_refl. cbn [negb]. rewrite andb_false_r. cbn [andb].
           replace (ahas d (adel d (e_removed es))) with false by (symmetry; unfold ahas; rewrite (ea_get_del_eq d _ Jremnd); reflexivity).
           cbn [andb]. rewrite Efn. rewrite (in_ahas d (e_removed es)) by (apply ea_keys_get; congruence).
           destruct (aget d (e_nt es)) as [fd|] eqn:Efd; [rewrite (Hspd fd eq_refl)|exfalso; apply (proj2 (Jnt d) HdG); exact Efd].
           cbn [andb]. destruct (Nat.eqb (n_spec fn) sg); [|rewrite !andb_false_r; lia].
           destruct (mem_nat n (d_active (y_d s)) && negb (ahas n (e_n2c es)) && negb (n_sdsent fn) && true); lia.
      * left. apply ea_keys_set. left. reflexivity.
      * right. split; [unfold bkE; cbn [e_n2p e_set_n2c e_set_n2p e_set_removed]; rewrite ea_alist_get_set_eq; exact Hpne|]. auto.
    + (* nothing to inherit and a non-empty book: nothing happens *)
      apply (FIN [] fn); auto; try tauto.
      * intros m ids0 Hm. destruct (Jn2c _ _ Hm) as (A & _). split; [exact A|]. left.
        unfold akeys. change m with (fst (m, ids0)). apply in_map. exact Hm.
      * cbn. tauto.
      * intros F. congruence.
    + (* nothing to inherit: the node is not needed (it already is shutting down) *)
      apply (FIN [] fn); cbn [e_numnodes e_nodes e_n2p e_n2c e_started e_removed e_completed e_nt e_set_started bkE]; auto; try tauto.
      * intros m Hm. rewrite in_snoc_iff. tauto.
      * intros m ids0 Hm. destruct (Jn2c _ _ Hm) as (A & _). split; [exact A|]. left.
        unfold akeys. change m with (fst (m, ids0)). apply in_map. exact Hm.
      * cbn. tauto.
      * intros F. congruence.
      * apply orb_true_iff in Hds. destruct Hds; auto.
    + (* nothing to inherit: the node is told to shut down *)
      apply orb_false_iff in Hds. destruct Hds as (Hd1 & Hd2).
      apply (FIN [OSend n CShutdown] (sdm fn));
        cbn [e_numnodes e_nodes e_n2p e_n2c e_started e_removed e_completed e_nt e_set_started e_set_nt bkE]; auto; try tauto.
      * intros m Hm. rewrite in_snoc_iff. tauto.
      * intros m ids0 Hm. destruct (Jn2c _ _ Hm) as (A & _). split; [exact A|]. left.
        unfold akeys. change m with (fst (m, ids0)). apply in_map. exact Hm.
      * intros m Hm. apply ea_get_set_neq. exact Hm.
      * apply ea_get_set_eq.
      * rewrite cmds_to_send_eq. cbn. tauto.
      * repeat constructor.
      * intros m F. destruct (Nat.eq_dec m n) as [->|Hm]; [reflexivity|]. rewrite cmds_to_send_neq in F by exact Hm. contradiction.
      * intros F. congruence.
      * intros sg Hle. destruct (Nat.eqb (n_spec fn) sg) eqn:Esg.
        -- rewrite indR_zero; [lia|]. intros k. unfold indR, specb. cbn [e_removed e_nt e_set_started e_set_nt].
           destruct (ahas k (e_removed es)) eqn:Eh; [|reflexivity]. cbn [andb].
           apply ahas_true_in in Eh. apply ea_keys_get in Eh. destruct (aget k (e_removed es)) as [pk|] eqn:Ek; [|contradiction].
           apply ea_aget_in in Ek. pose proof (Hno k pk Ek) as Hns. rewrite ea_get_set.
           destruct (Nat.eqb k n) eqn:Ekn.
           ++ apply Nat.eqb_eq in Ekn. subst k. exfalso. apply Hns. unfold spec_of. rewrite Efn. reflexivity.
           ++ unfold spec_of in Hns. destruct (aget k (e_nt es)) as [fk|]; [|reflexivity].
              destruct (Nat.eqb (n_spec fk) sg) eqn:E2; [|reflexivity]. exfalso. apply Hns.
              apply Nat.eqb_eq in E2. apply Nat.eqb_eq in Esg. congruence.
        -- rewrite (sumf_ext_seq (indR _ sg) (indR es sg)), (sumf_ext_seq (indP _ _ sg) (indP (d_active (y_d s)) es sg)); [exact Hle| |].
           ++ intros k _. unfold indP, sdb, specb. cbn [e_n2c e_nt e_set_started e_set_nt]. rewrite ea_get_set.
              destruct (Nat.eqb k n) eqn:Ekn; [|reflexivity]. apply Nat.eqb_eq in Ekn. subst k. rewrite Efn. cbn [sdm n_spec n_sdsent].
              rewrite Esg, !andb_false_r. reflexivity.
           ++ intros k _. unfold indR, specb. cbn [e_removed e_nt e_set_started e_set_nt]. rewrite ea_get_set.
              destruct (Nat.eqb k n) eqn:Ekn; [|reflexivity]. apply Nat.eqb_eq in Ekn. subst k. rewrite Efn. reflexivity.
  - (* the collection is not complete yet *)
    rewrite (e_add_coll_run n (coll0 c) es Hp Hces) in Ea. inv Ea.
    destruct (Jnc eq_refl) as (Hlen & Hrm0 & Hst0 & Hbk0).
    set (esa := e_set_n2p (e_set_n2c es (aset n (coll0 c) (e_n2c es))) (aset n [] (e_n2p es))).
    assert (Eform : es_addcoll n (coll0 c) es = if e_numnodes esa <=? length (e_n2c esa) then e_set_completed esa true else esa) by reflexivity.
    assert (SH : forall esx, (esx = esa \/ esx = e_set_completed esa true) ->
              e_numnodes esx = e_numnodes es /\ e_nodes esx = e_nodes es /\ (forall m, bkE esx m = []) /\
              e_started esx = e_started es /\ e_n2c esx = aset n (coll0 c) (e_n2c es) /\ e_removed esx = e_removed es /\
              e_nt esx = e_nt es).
    { assert (BK : forall m, alist_get [] m (aset n [] (e_n2p es)) = @nil nat).
      { intros m. destruct (Nat.eq_dec m n) as [->|Hm]; [apply ea_alist_get_set_eq|].
        rewrite ea_alist_get_set_neq by exact Hm. apply Hbk0. }
      intros esx [->| ->]; unfold bkE; cbn [esa e_numnodes e_nodes e_n2p e_n2c e_started e_removed e_nt e_set_completed e_set_n2p e_set_n2c];
        (split; [reflexivity|]); (split; [apply ea_keys_set_in; exact Em|]); (split; [exact BK|]); auto. }
    assert (Hx : es_addcoll n (coll0 c) es = esa \/ es_addcoll n (coll0 c) es = e_set_completed esa true).
    { rewrite Eform. destruct (e_numnodes esa <=? length (e_n2c esa)); auto. }
    destruct (SH _ Hx) as (S1 & S2 & S3 & S4 & S5 & S6 & S7).
    apply (FIN [] fn); rewrite ?S1, ?S2, ?S3, ?S4, ?S5, ?S6, ?S7; auto; try tauto.
    + intros m Hm. rewrite S3, Hbk0. reflexivity.
    + intros m ids0 Hm. apply ea_in_set in Hm. destruct Hm as [(-> & ->)|Hm]; [auto|].
      destruct (Jn2c _ _ Hm) as (A & _). split; [exact A|]. left. unfold akeys. change m with (fst (m, ids0)). apply in_map. exact Hm.
    + intros m Hm. apply ea_keys_set. right. exact Hm.
    + apply ea_keys_set_nodup. exact Jn2cnd.
    + intros F. discriminate F.
    + cbn. tauto.
    + intros C0. split.
      * rewrite Eform in C0. destruct (e_numnodes esa <=? length (e_n2c esa)) eqn:El; [discriminate C0|].
        apply Nat.leb_gt in El. cbn [esa e_numnodes e_n2c e_set_n2p e_set_n2c] in El. rewrite Jnum in El. exact El.
      * split; [exact Hrm0|]. split; [exact Hst0|exact S3].
    + intros Hs. exfalso. pose proof (Jp Esd n fn Efn Hs). congruence.
    + intros sg _. rewrite indR_zero; [lia|]. intros k. unfold indR. rewrite S6, Hrm0. reflexivity.
    + left. apply ea_keys_set. left. reflexivity.
    + left. cbn. lia.
Qed.

(* ---- E.7 every handler, and the whole iteration ---- *)
Lemma gci_handle s es ev q d1 o1 :
  GCI c (gdF s) (pssF s) s es -> y_evq s = ev :: q ->
  d_handle ev (y_d s) = (d1, o1, Ok tt) ->
  exists es1, GCI c (gdM d1 es1) True (apply_outs (set_d (set_evq s q) d1) o1) es1.
Proof.
  intros G Eevq H.
  assert (Hok : ok_evX c (d_next_gw (y_d s)) ev).
  { pose proof (g_evq _ _ _ _ _ G) as Gevq. rewrite Eevq in Gevq. inversion Gevq; assumption. }
  destruct ev as [n|n ids|n key fl|n i|n i|n i k oc|n i ms|n ixs| |n|n sk|n].
  - eapply gci_handle_ready; eauto.
  - eapply gci_handle_collfinish; eauto.
  - eapply gci_handle_quiet; eauto. exact Logic.I.
  - eapply gci_handle_quiet; eauto. exact Logic.I.
  - eapply gci_handle_quiet; eauto. exact Logic.I.
  - eapply gci_handle_quiet; eauto. exact Logic.I.
  - eapply gci_handle_complete; eauto.
  - destruct Hok as ([] & _).
  - eapply gci_handle_quiet; eauto. exact Logic.I.
  - destruct Hok as ([] & _).
  - eapply gci_handle_finished; eauto.
  - eapply gci_handle_errordown; eauto.
Qed.

Lemma step_xpi_ctl s s' o w :
  XPI c s -> sys_step c s LCtl = Some (s', o, w) -> XPI c s' \/ y_result s' <> None.
Proof.
  intros (es & G) H. unfold sys_step in H. destruct (y_result s) eqn:Eres; [discriminate|].
  destruct (d_active (y_d s)) as [|a0 ar] eqn:Eact.
  { destruct (d_no_active (y_d s)) as [[d' outs] r]. inv H. right. cbn. discriminate. }
  destruct (y_evq s) as [|ev q] eqn:Eevq; [discriminate|].
  destruct (d_loop_once ev (y_d s)) as [[d' outs] r] eqn:El.
  destruct r as [u|e]; [|inv H; right; cbn; discriminate]. destruct u.
  destruct (d_session_finished d') eqn:Efin; [inv H; right; cbn; destruct (d_shouldstop d'); discriminate|].
  destruct (d_active d') as [|b0 br] eqn:Eact'.
  { destruct (d_no_active d') as [[d2 outs2] r2]. inv H. right. cbn. discriminate. }
  inv H. left.
  rewrite loop_once_unfold in El.
  apply LoadProofs.mbind_inv in El. destruct El as [(e & _ & F)|(d1 & o1 & a & o2 & H1 & H2 & ->)]; [discriminate|].
  destruct a.
  destruct (gci_handle s es ev q d1 o1 G Eevq H1) as (es1 & G1).
  set (m := apply_outs (set_d (set_evq s q) d1) o1) in *.
  assert (Ed1 : y_d m = d1).
  { unfold m. destruct (apply_outs_frame o1 (set_d (set_evq s q) d1)) as (A & _). exact A. }
  rewrite <- Ed1 in G1, H2.
  destruct (gci_rest m es1 d' o2 G1 H2) as (es' & G').
  assert (Es : apply_outs (set_d m d') o2 = apply_outs (set_d (set_evq s q) d') (o1 ++ o2)).
  { unfold m. rewrite apply_outs_app, !apply_outs_set_d. reflexivity. }
  rewrite Es in G'. exists es'.
  assert (Ed' : y_d (apply_outs (set_d (set_evq s q) d') (o1 ++ o2)) = d').
  { destruct (apply_outs_frame (o1 ++ o2) (set_d (set_evq s q) d')) as (A & _). exact A. }
  unfold gdF, pssF. rewrite Ed'. exact G'.
Qed.

Theorem step_xpi s l s' o w :
  XPI c s -> sys_step c s l = Some (s', o, w) -> XPI c s' \/ y_result s' <> None.
Proof.
  intros X H. destruct l as [n|n|n|n| |n].
  - left. eapply step_xpi_deliver; eauto.
  - left. eapply step_xpi_recvw; eauto.
  - left. unfold sys_step in H. destruct (y_result s) eqn:Eres; [discriminate|].
    destruct (mem_nat n (y_dead s)) eqn:Hd; [discriminate|]. apply mem_nat_false in Hd.
    destruct (aget n (y_w s)) as [w0|] eqn:Ew0; [|discriminate].
    destruct (dies_now c n w0) eqn:Edn.
    + inv H. apply (step_xpi_crash s n w0 X Hd Ew0). unfold dies_now in Edn. destruct (wph w0); try discriminate.
    + destruct (main_step (c_oracle c n) w0) as [[w' evs]|] eqn:Es; [|discriminate]. inv H.
      eapply step_xpi_main; eauto.
  - left. eapply step_xpi_recv; eauto.
  - eapply step_xpi_ctl; eauto.
  - left. unfold sys_step in H. destruct (y_result s) eqn:Eres; [discriminate|].
    destruct (mem_nat n (y_dead s)) eqn:Hd; [discriminate|]. apply mem_nat_false in Hd.
    destruct (aget n (y_w s)) as [w0|] eqn:Ew0; [|discriminate].
    destruct (wph w0) eqn:Eph; try discriminate; inv H; apply (step_xpi_crash s n w0 X Hd Ew0); rewrite Eph; discriminate.
Qed.

End CrashStep.

(* ====================================================================================== *)
(* F. the initial state, every schedule, the theorems                                      *)
(* ====================================================================================== *)
Lemma XPI_init c : c_mode c = MEach -> 0 < c_numnodes c -> XPI c (sys_init c).
Proof.
  intros Hm Hpos. unfold XPI.
  set (es0 := e_set_nt (e_init [] (c_numnodes c)) (init_nt c)). exists es0.
  assert (Esig : forall n, sigs (sys_init c) n = []).
  { intros n. unfold sigs. cbn [sys_init y_evq y_up]. rewrite alist_get_map_nil. reflexivity. }
  assert (IR0 : forall sg l, sumf (indR es0 sg) l = 0) by (intros sg l; apply indR_zero; intros k; reflexivity).
  constructor; unfold gdF, pssF; cbn [sys_init y_d y_evq y_up y_down y_w y_dead d_sched d_shuttingdown d_shouldstop d_active d_next_gw].
  - rewrite Hm. reflexivity.
  - intros n. apply aget_init_nt.
  - intros n. rewrite <- (ea_keys_get n (map (fun k => (k, w_init)) (seq 0 (c_numnodes c)))),
      (akeys_map_seq (fun _ => w_init)). rewrite in_seq. lia.
  - intros n Hn. apply in_seq in Hn. lia.
  - apply seq_NoDup.
  - intros n [].
  - intros n [].
  - constructor.
  - intros n ids [].
  - constructor.
  - intros n [].
  - reflexivity.
  - intros _. cbn. split; [exact Hpos|]. auto.
  - intros n rest [].
  - constructor.
  - intros n [].
  - intros _ _ n [].
  - intros F. exact F.
  - intros _ n f Ef Hs. rewrite (aget_init_nt_sd c n f Ef) in Hs. discriminate.
  - intros _. reflexivity.
  - discriminate.
  - intros _ _. rewrite seq_length. lia.
  - discriminate.
  - intros _ sg. rewrite IR0. lia.
  - intros n f Ef Hd. rewrite (aget_init_nt_dn c n f Ef) in Hd. discriminate.
  - intros n f [].
  - intros n. rewrite alist_get_map_nil. intros [].
  - intros k [].
  - intros k b [].
  - exact Logic.I.
  - intros n Hn Hna. exfalso. apply Hna. apply in_seq. lia.
  - constructor.
  - intros n. rewrite alist_get_map_nil. split; [constructor|reflexivity].
  - intros n _. apply alist_get_map_nil.
  - intros n w f _ Hw Ef. apply aget_map_const in Hw. subst w. rewrite Esig, !alist_get_map_nil. cbn [flat_map].
    assert (Hn : n < c_numnodes c) by (apply aget_init_nt; cbn in Ef; congruence).
    assert (Ef' : f = fresh_nd (n_spec f)).
    { destruct f as [sp dn sd cl]. unfold fresh_nd. cbn. cbn in Ef.
      pose proof (aget_init_nt_sd c n _ Ef) as A. pose proof (aget_init_nt_dn c n _ Ef) as B.
      pose proof (init_nt_open c n _ Ef) as C0. cbn in A, B, C0. subst. reflexivity. }
    rewrite Ef'. apply LNI_fresh; cbn; try (intros []). apply in_seq. lia.
Qed.

Section CrashMain.
  Variable c : config.
  Hypothesis Hmode : c_mode c = MEach.
  Hypothesis Hnogarbled : no_garbled c.
  Hypothesis Hsame : forall n, c_coll c n = c_coll c 0.
  Hypothesis Hcoh : forall n, ncollected (c_oracle c n) = length (c_coll c 0).
  Hypothesis Hids : ~ In ""%string (c_coll c 0).
  Hypothesis Hnodes : 0 < c_numnodes c.

  (* every schedule -- crash labels anywhere, workers dying inside tests, any restart budget *)
  Theorem xpi_run : forall ls, XPI c (sys_run c ls) \/ y_result (sys_run c ls) <> None.
  Proof.
    intros ls. unfold sys_run.
    assert (G : forall s, XPI c s \/ y_result s <> None ->
       let s' := fold_left (fun s l => match sys_step c s l with Some (s', _, _) => s' | None => s end) ls s in
       XPI c s' \/ y_result s' <> None).
    { induction ls as [|l ls IH]; intros s Hs; cbn [fold_left]; [exact Hs|].
      apply IH. destruct (sys_step c s l) as [[[s' o] w]|] eqn:E; [|exact Hs].
      destruct Hs as [Hs|Hs].
      - exact (step_xpi c Hsame Hcoh Hnogarbled Hids s l s' o w Hs E).
      - exfalso. unfold sys_step in E. destruct (y_result s); [discriminate|]. apply Hs. reflexivity. }
    apply G. left. apply XPI_init; assumption.
  Qed.

  (* C02 for --dist each WITH worker failure, all collections equal: no stand-off *)
  Theorem c02_each_crash_no_deadlock_useful : forall ls,
    y_result (sys_run c ls) = None ->
    exists l, no_crash_label l /\ useful (sys_run c ls) l = true /\ sys_step c (sys_run c ls) l <> None.
  Proof.
    intros ls Hres. destruct (xpi_run ls) as [X|X]; [|contradiction].
    exact (progressX c _ X Hres).
  Qed.

  (* the contrapositive, as a characterisation of the recorded stand-off: a state in which the session
     has not ended and no useful non-crash move is enabled is reachable only when some worker
     (replacement or not) collected a different list, or enumerates a different number of tests *)
  Corollary c02_each_crash_no_deadlock : forall ls,
    y_result (sys_run c ls) = None -> exists l, no_crash_label l /\ sys_step c (sys_run c ls) l <> None.
  Proof.
    intros ls Hres. destruct (c02_each_crash_no_deadlock_useful ls Hres) as (l & A & _ & B). exists l. auto.
  Qed.
End CrashMain.

Theorem each_standoff_needs_different_collection c ls :
  c_mode c = MEach -> no_garbled c -> ~ In ""%string (c_coll c 0) -> 0 < c_numnodes c ->
  (forall n, ncollected (c_oracle c n) = length (c_coll c n)) ->
  y_result (sys_run c ls) = None ->
  (forall l, no_crash_label l -> useful (sys_run c ls) l = true -> sys_step c (sys_run c ls) l = None) ->
  ~ (forall n, c_coll c n = c_coll c 0).
Proof.
  intros Hm Hng Hne Hpos Hcoh Hres Hstuck Hsame.
  assert (Hcoh' : forall n, ncollected (c_oracle c n) = length (c_coll c 0)) by (intros n; rewrite Hcoh, Hsame; reflexivity).
  destruct (c02_each_crash_no_deadlock_useful c Hm Hng Hsame Hcoh' Hne Hpos ls Hres) as (l & A & B & C0).
  apply C0. apply Hstuck; assumption.
Qed.

Print Assumptions c02_each_crash_no_deadlock_useful.
Print Assumptions each_standoff_needs_different_collection.
Check c02_each_crash_no_deadlock_useful.
Check c02_each_crash_no_deadlock.
Check each_standoff_needs_different_collection.
Check xpi_run.
Check step_xpi.
Check progressX.

(* ====================================================================================== *)
(* Non-vacuity                                                                             *)
(* ====================================================================================== *)
Open Scope string_scope.
(* ProgressEach.each_crash_cfg with equal collections: two workers, both die on entering test 0,
   budget 4.  After 12 rounds both are dead, replacements 2 and 3 are collecting, and replacement 2 is
   killed from outside on top of that (LCrash): the session has not ended and three useful moves exist *)
Definition ecp_cfg : config := each_crash_cfg (fun _ => ["a"; "b"; "c"]).
Definition ecp_sched : list label := c01_rep 12 each_round4 ++ [LCrash 2].
Example ecp_ex_state :
  let s := sys_run ecp_cfg ecp_sched in
  (y_result s, y_dead s, d_active (y_d s), map (fun p => (fst p, wph (snd p))) (y_w s)) =
    (None, [2; 1; 0], [2; 3],
     [(0, PGot (0, 0) (1, Idx 1)); (1, PGot (0, 0) (1, Idx 1)); (2, PWaitFirst); (3, PColl [])]) /\
  es_moves ecp_cfg 6 s = [LCtl; LRecv 2; LMain 3].
Proof. vm_compute. split; reflexivity. Qed.

Lemma ecp_hyps :
  c_mode ecp_cfg = MEach /\ no_garbled ecp_cfg /\ (forall n, c_coll ecp_cfg n = c_coll ecp_cfg 0) /\
  (forall n, ncollected (c_oracle ecp_cfg n) = length (c_coll ecp_cfg 0)) /\
  ~ In "" (c_coll ecp_cfg 0) /\ 0 < c_numnodes ecp_cfg.
Proof.
  split; [reflexivity|]. split.
  { intros n i H. cbn in H. destruct H as [H|[]]. discriminate. }
  split; [reflexivity|]. split; [reflexivity|]. split; [|cbn; lia].
  cbn. intros [H|[H|[H|[]]]]; discriminate.
Qed.

(* the theorem applies to that state ... *)
Example ecp_ex_theorem_applies :
  let s := sys_run ecp_cfg ecp_sched in
  exists l, no_crash_label l /\ useful s l = true /\ sys_step ecp_cfg s l <> None.
Proof.
  cbv zeta. destruct ecp_hyps as (H1 & H2 & H3 & H4 & H5 & H6).
  apply (c02_each_crash_no_deadlock_useful ecp_cfg H1 H2 H3 H4 H5 H6). vm_compute. reflexivity.
Qed.
Print Assumptions ecp_ex_theorem_applies.

(* ... and to the whole session: the fair schedule ends it as "finished" although three workers died *)
Example ecp_ex_finished :
  let s := sys_run ecp_cfg (ecp_sched ++ c01_rep 60 (each_round4 ++ [LMain 4; LRecvW 4; LDeliver 4; LRecv 4])) in
  (y_result s, y_dead s) = (Some RFinished, [2; 1; 0]).
Proof. vm_compute. reflexivity. Qed.

(* the hypothesis "all collections are equal" cannot be dropped: ProgressEach.each_stuck_witness is a
   reachable state of a configuration that satisfies every other hypothesis, and it is stuck; so, by
   each_standoff_needs_different_collection, its collections differ *)
Example ecp_ex_stuck_needs_difference :
  ~ (forall n, c_coll each_stuck_cfg n = c_coll each_stuck_cfg 0).
Proof.
  apply (each_standoff_needs_different_collection each_stuck_cfg (c01_rep 30 each_round4)).
  - reflexivity.
  - intros n i H. cbn in H. destruct H as [H|[]]. discriminate.
  - cbn. intros [H|[H|[H|[]]]]; discriminate.
  - cbn. lia.
  - intros n. cbn. destruct (Nat.eqb n 3); reflexivity.
  - vm_compute. reflexivity.
  - exact (proj2 each_stuck_witness).
Qed.
Close Scope string_scope.
