(* ScopeCoupling.v -- the book coupling invariant of the scope family of schedulers
   (--dist loadscope / loadfile / loadgroup: mode [MScope kind]) and its consequences: the
   analogue for LoadScopeScheduling of Coupling.v.

   For every scope kind, no worker failure (c_crash_in constantly false, no LCrash label, no
   undecodable report), no empty test id, all workers collecting the same list, and at least one
   worker, in EVERY reachable state of Model/System.v:

   (1) ScCoupled: for every node n the NOT-COMPLETED tests of n's assigned work units
       (assigned_work[n], in unit order, test order) are, IN ORDER,
         completes on the controller's event queue ++ completes on n's wire up
         ++ indices taken by n's main thread whose completion has not been emitted
         ++ n's queue ++ rest of the command being unpacked ++ n's inbox ++ commands on n's wire down
       (theorem sc_coupling_invariant);
   (2) the controller never raises (sc_controller_never_raises);
   (3) conservation (xi_perm; ScopeCompleteness.v): the units still in the work queue and the
       index streams of the workers are a partition of the blocks of the collection.

   Organisation: part A books of work units; part B the scope scheduler (no exception + exact effect
   on books and node flags); part C the controller (DSession) handlers; part D the system invariant,
   its preservation by every step, and the theorems.  The worker-level lemmas and the machinery for
   signals in flight (sigs, chan_ok, NI) are those of Coupling.v: the per-node invariant NI is
   stated over a load-scheduler state, and is used here on the projection [proj cs] of the scope
   scheduler's state (node table, registered collections, and the book of every node). *)
From XV Require Import Base Worker Ctl SchedLoad SchedSteal SchedScope SchedEach Sched DSession System
  NoHook DSessionProofs WorkerProofs LoadProofs FifoProofs ExactlyOnce ScopeProofs Coupling ScopeSystem.
From Coq Require Import Permutation Sorted.
Open Scope nat_scope.

(* ====================================================================================== *)
(* A. the book of a workload                                                               *)
(* ====================================================================================== *)
Lemma filter_neq_notin (i : nat) l : ~ In i l -> filter (fun x => negb (Nat.eqb x i)) l = l.
Proof.
  induction l as [|a l IH]; cbn; intros H; [reflexivity|].
  destruct (Nat.eqb a i) eqn:E.
  - apply Nat.eqb_eq in E. subst a. exfalso. apply H. left. reflexivity.
  - cbn. rewrite IH; [reflexivity|]. intros Hi. apply H. right. exact Hi.
Qed.

Lemma filter_neq_head (i : nat) l : NoDup (i :: l) -> filter (fun x => negb (Nat.eqb x i)) (i :: l) = l.
Proof.
  intros ND. inversion ND as [|x xs Hn _]; subst. cbn. rewrite Nat.eqb_refl. cbn.
  apply filter_neq_notin. exact Hn.
Qed.

Lemma filter_str_notin (id : string) l : ~ In id l -> filter (fun x => negb (String.eqb x id)) l = l.
Proof.
  induction l as [|a l IH]; cbn; intros H; [reflexivity|].
  destruct (String.eqb a id) eqn:E.
  - apply String.eqb_eq in E. subst a. exfalso. apply H. left. reflexivity.
  - cbn. rewrite IH; [reflexivity|]. intros Hi. apply H. right. exact Hi.
Qed.

Lemma undone_in_keys u x : In x (undone u) -> In x (map fst u).
Proof.
  unfold undone. intros H. apply in_map_iff in H. destruct H as (p & <- & Hp).
  apply filter_In in Hp. apply in_map. tauto.
Qed.

(* flagging a test completed removes it from the not-completed tests of its unit *)
Lemma undone_sset_true id u :
  NoDup (map fst u) -> undone (sset id true u) = filter (fun x => negb (String.eqb x id)) (undone u).
Proof.
  induction u as [|[k b] u IH]; intros ND; [reflexivity|].
  cbn [map fst] in ND. inversion ND as [|x xs Hn ND']; subst.
  cbn [sset]. destruct (String.eqb id k) eqn:E.
  - apply String.eqb_eq in E. subst k.
    assert (Hni : ~ In id (undone u)) by (intros Hi; apply Hn; apply undone_in_keys; exact Hi).
    unfold undone. cbn [filter snd negb]. fold (undone u).
    destruct b; cbn [negb map fst filter].
    + fold (undone u). rewrite filter_str_notin by exact Hni. reflexivity.
    + fold (undone u). rewrite String.eqb_refl. cbn [negb]. rewrite filter_str_notin by exact Hni. reflexivity.
  - unfold undone. cbn [filter snd]. fold (undone u). fold (undone (sset id true u)).
    destruct b; cbn [negb map fst filter]; fold (undone u); fold (undone (sset id true u)).
    + apply IH. exact ND'.
    + rewrite String.eqb_sym, E. cbn [negb]. rewrite (IH ND'). reflexivity.
Qed.

Lemma sget_split {V} sc (w : list (string * V)) u :
  sget sc w = Some u -> exists w1 w2, w = w1 ++ (sc, u) :: w2 /\ ~ In sc (map fst w1).
Proof.
  induction w as [|[k v] w IH]; cbn; [discriminate|].
  destruct (String.eqb sc k) eqn:E.
  - apply String.eqb_eq in E. subst k. intros H. inversion H; subst. exists [], w. split; [reflexivity|intros []].
  - intros H. destruct (IH H) as (w1 & w2 & -> & Hn). exists ((k, v) :: w1), w2. split; [reflexivity|].
    cbn [map fst]. intros [Hi|Hi]; [subst k; rewrite String.eqb_refl in E; discriminate|exact (Hn Hi)].
Qed.

Lemma sset_split {V} sc (w1 w2 : list (string * V)) u u' :
  ~ In sc (map fst w1) -> sset sc u' (w1 ++ (sc, u) :: w2) = w1 ++ (sc, u') :: w2.
Proof.
  induction w1 as [|[k v] w1 IH]; cbn; intros Hn.
  - rewrite String.eqb_refl. reflexivity.
  - destruct (String.eqb sc k) eqn:E.
    + apply String.eqb_eq in E. subst k. exfalso. apply Hn. left. reflexivity.
    + rewrite IH; [reflexivity|]. intros Hi. apply Hn. right. exact Hi.
Qed.

Section Books.
  Variable kind : scope_kind.
  Variable coll0 : list string.

  Notation UL := (UL kind coll0).
  Notation pos := (pos_in coll0).

  Definition undone_ixs (u : unit_t) : list nat := map pos (undone u).
  Definition bookw (w : workload) : list nat := flat_map (fun p => undone_ixs (snd p)) w.

  Lemma bookw_app a b : bookw (a ++ b) = bookw a ++ bookw b.
  Proof. apply flat_map_app. Qed.

  Lemma pending_of_book w : pending_of w = length (bookw w).
  Proof.
    induction w as [|[sc u] w IH]; [reflexivity|].
    unfold pending_of, bookw in *. cbn [fold_right flat_map snd]. rewrite app_length, <- IH. f_equal.
    unfold unit_pending, undone_ixs, undone. rewrite !map_length. reflexivity.
  Qed.

  (* a unit of the collection, some of its tests flagged completed *)
  Definition munit (sc : string) (u : unit_t) : Prop :=
    exists u0, In (sc, u0) UL /\ map fst u = map fst u0.

  Lemma munit_UL sc u : In (sc, u) UL -> munit sc u.
  Proof. intros H. exists u. auto. Qed.

  Lemma munit_sset sc u id b : munit sc u -> In id (map fst u) -> munit sc (sset id b u).
  Proof.
    intros (u0 & Hin & E) Hid. exists u0. split; [exact Hin|]. rewrite map_fst_sset.
    destruct (mem_str id (map fst u)) eqn:M; [exact E|].
    exfalso. apply mem_str_false_not_in in M. contradiction.
  Qed.

  Lemma munit_nodup sc u : munit sc u -> NoDup (map fst u).
  Proof.
    intros (u0 & Hin & ->). destruct (UL_unit kind coll0 _ _ Hin) as (-> & _). apply dedup_str_nodup_out.
  Qed.

  Lemma munit_id sc u id : munit sc u -> In id (map fst u) ->
    In id coll0 /\ split_of kind id = sc /\ nth_error coll0 (pos id) = Some id.
  Proof.
    intros (u0 & Hin & E) Hid. rewrite E in Hid. destruct (UL_ids kind coll0 _ _ _ Hin Hid) as (Hc & Hk).
    split; [exact Hc|]. split; [exact Hk|].
    destruct (index_of_str_some id coll0 Hc) as (i & Ei). unfold pos_in. rewrite Ei.
    apply index_of_str_nth. exact Ei.
  Qed.

  Lemma pos_inj a b : nth_error coll0 (pos a) = Some a -> nth_error coll0 (pos b) = Some b -> pos a = pos b -> a = b.
  Proof. intros Ha Hb E. rewrite E in Ha. congruence. Qed.

  Lemma undone_ixs_in sc u i : munit sc u -> In i (undone_ixs u) ->
    exists id, In id (undone u) /\ pos id = i /\ nth_error coll0 i = Some id /\ split_of kind id = sc.
  Proof.
    intros M Hi. unfold undone_ixs in Hi. apply in_map_iff in Hi. destruct Hi as (id & <- & Hid).
    destruct (munit_id sc u id M (undone_in_keys _ _ Hid)) as (_ & Hk & Hn). exists id. auto.
  Qed.

  Lemma undone_ixs_nodup sc u : munit sc u -> NoDup (undone_ixs u).
  Proof.
    intros M. pose proof M as (u0 & Hin & E).
    unfold undone_ixs, undone. rewrite map_map.
    apply (nodup_map_filter (fun p : string * bool => pos (fst p))).
    rewrite <- map_map, E. apply ssorted_nodup.
    exact (block_sorted kind coll0 (sc, u0) Hin).
  Qed.

  (* flagging the test at position i of the collection, in its own unit *)
  Lemma undone_ixs_sset sc u id :
    munit sc u -> nth_error coll0 (pos id) = Some id ->
    undone_ixs (sset id true u) = filter (fun x => negb (Nat.eqb x (pos id))) (undone_ixs u).
  Proof.
    intros M Hid. unfold undone_ixs. rewrite (undone_sset_true id u (munit_nodup _ _ M)).
    assert (G : forall l, (forall x, In x l -> nth_error coll0 (pos x) = Some x) ->
                map pos (filter (fun x => negb (String.eqb x id)) l) =
                filter (fun x => negb (Nat.eqb x (pos id))) (map pos l)).
    { induction l as [|a l IH]; intros Hl; [reflexivity|]. cbn [filter map].
      destruct (String.eqb a id) eqn:E.
      - apply String.eqb_eq in E. subst a. rewrite Nat.eqb_refl. cbn [negb]. apply IH.
        intros x Hx. apply Hl. right. exact Hx.
      - assert (En : Nat.eqb (pos a) (pos id) = false).
        { apply Nat.eqb_neq. intros Ep. apply String.eqb_neq in E. apply E.
          apply pos_inj; [apply Hl; left; reflexivity|exact Hid|exact Ep]. }
        rewrite En. cbn [negb map]. rewrite IH; [reflexivity|]. intros x Hx. apply Hl. right. exact Hx. }
    apply G. intros x Hx. apply (munit_id sc u x M). apply undone_in_keys. exact Hx.
  Qed.

  Definition munits (w : workload) : Prop := forall sc u, In (sc, u) w -> munit sc u.

  Lemma bookw_in w i : In i (bookw w) -> exists sc u, In (sc, u) w /\ In i (undone_ixs u).
  Proof.
    unfold bookw. intros H. apply in_flat_map in H. destruct H as ([sc u] & Hin & Hi). exists sc, u. auto.
  Qed.

  Lemma bookw_nodup w : NoDup (map fst w) -> munits w -> NoDup (bookw w).
  Proof.
    induction w as [|[sc u] w IH]; intros ND M; cbn; [constructor|].
    cbn in ND. inversion ND as [|x xs Hn ND']; subst.
    apply nodup_app_intro.
    - apply (undone_ixs_nodup sc). apply M. left. reflexivity.
    - apply IH; [exact ND'|]. intros sc' u' H. apply M. right. exact H.
    - intros i H1 H2. apply bookw_in in H2. destruct H2 as (sc' & u' & Hin & Hi).
      destruct (undone_ixs_in sc u i (M _ _ (or_introl eq_refl)) H1) as (id1 & _ & _ & N1 & K1).
      destruct (undone_ixs_in sc' u' i (M _ _ (or_intror Hin)) Hi) as (id2 & _ & _ & N2 & K2).
      assert (id1 = id2) by congruence. subst id2. apply Hn. rewrite <- K1, K2.
      change sc' with (fst (sc', u')). apply in_map. exact Hin.
  Qed.

  (* mark_test_complete on the books: the completed index leaves the book *)
  Lemma bookw_complete w i id sc u :
    NoDup (map fst w) -> munits w -> nth_error coll0 i = Some id -> In i (bookw w) ->
    sc = split_of kind id -> sget sc w = Some u ->
    bookw (sset sc (sset id true u) w) = filter (fun x => negb (Nat.eqb x i)) (bookw w) /\
    In id (map fst u).
  Proof.
    intros ND M Hn Hi -> Hu.
    destruct (bookw_in w i Hi) as (sc' & u' & Hin & Hi').
    destruct (undone_ixs_in sc' u' i (M _ _ Hin) Hi') as (id' & Hud & Hp & N' & K').
    assert (id' = id) by congruence. subst id'.
    assert (E : sget sc' w = Some u') by (apply sget_in_nodup; assumption).
    rewrite <- K' in E. rewrite E in Hu. inversion Hu; subst u'. clear Hu.
    split; [|apply undone_in_keys; exact Hud].
    destruct (sget_split _ _ _ E) as (w1 & w2 & -> & Hn1).
    rewrite sset_split by exact Hn1. rewrite !bookw_app. cbn [bookw flat_map snd].
    fold (bookw w2).
    assert (Mu : munit (split_of kind id) u) by (rewrite K'; apply (M _ _ Hin)).
    assert (Hpos : nth_error coll0 (pos id) = Some id) by (rewrite Hp; exact Hn).
    rewrite (undone_ixs_sset _ u id Mu Hpos), Hp.
    rewrite !filter_app.
    pose proof (bookw_nodup _ ND M) as NDb. rewrite !bookw_app in NDb. cbn [bookw flat_map snd] in NDb.
    fold (bookw w2) in NDb.
    assert (H1 : ~ In i (bookw w1)).
    { intros X. eapply WorkerProofs.nodup_app_disj; [exact NDb|exact X|]. apply in_or_app. left. exact Hi'. }
    assert (H2 : ~ In i (bookw w2)).
    { intros X. apply WorkerProofs.nodup_app_r in NDb.
      eapply WorkerProofs.nodup_app_disj; [exact NDb|exact Hi'|exact X]. }
    rewrite (filter_neq_notin i _ H1), (filter_neq_notin i _ H2). reflexivity.
  Qed.

  (* a fresh unit of the collection is booked whole, after the units already there *)
  Lemma bookw_assign w sc u :
    ~ In sc (map fst w) -> all_false u ->
    bookw (sset sc u w) = bookw w ++ map pos (map fst u).
  Proof.
    intros Hn Hf. rewrite sset_fresh by exact Hn. rewrite bookw_app. cbn [bookw flat_map snd].
    rewrite app_nil_r. unfold undone_ixs, undone. rewrite WorkerProofs.filter_all; [reflexivity|].
    intros x Hx. unfold all_false in Hf. rewrite Forall_forall in Hf. rewrite (Hf x Hx). reflexivity.
  Qed.
End Books.

(* ====================================================================================== *)
(* B. the scope scheduler: no exception, and the exact effect on books and node flags       *)
(* ====================================================================================== *)
Lemma node_shutdown_cases_g {St} (nt_of : St -> ntable) (set_nt : St -> ntable -> St) n s s' outs r :
  node_shutdown nt_of set_nt n s = (s', outs, r) ->
  (aget n (nt_of s) = None /\ s' = s /\ outs = [] /\ r = Err EKey) \/
  (exists c, aget n (nt_of s) = Some c /\ shutting_down c = true /\ s' = s /\ outs = [] /\ r = Ok tt) \/
  (exists c, aget n (nt_of s) = Some c /\ shutting_down c = false /\ r = Ok tt /\
     s' = set_nt s (aset n (sd_mark c) (nt_of s)) /\
     outs = if n_closed c then [] else [OSend n CShutdown]).
Proof.
  intros H.
  unfold node_shutdown, node_send, node_flags, mbind, get, put, of_opt, ret, raise, emit in H.
  cbn -[aset aget] in H.
  destruct (aget n (nt_of s)) as [c|] eqn:En; cbn -[aset aget] in H.
  - right. unfold shutting_down. destruct (n_down c || n_sdsent c) eqn:Esd; cbn -[aset aget] in H.
    + inv H. left. exists c. auto.
    + right. exists c. rewrite En in H. cbn -[aset aget] in H.
      destruct (n_closed c) eqn:Ecl; cbn -[aset aget] in H; inv H; unfold sd_mark; rewrite Ecl; auto.
  - inv H. left. auto.
Qed.

Lemma aset_absent {V} n (v : V) m : ~ In n (akeys m) -> aset n v m = m ++ [(n, v)].
Proof.
  induction m as [|[k x] m IH]; cbn; intros H; [reflexivity|].
  destruct (Nat.eqb n k) eqn:E.
  - apply Nat.eqb_eq in E. subst k. exfalso. apply H. left. reflexivity.
  - rewrite IH; [reflexivity|]. intros Hi. apply H. right. exact Hi.
Qed.

Lemma aget_app_notin {V} n (a b : amap V) : ~ In n (akeys a) -> aget n (a ++ b) = aget n b.
Proof.
  induction a as [|[k x] a IH]; cbn; intros H; [reflexivity|].
  destruct (Nat.eqb n k) eqn:E.
  - apply Nat.eqb_eq in E. subst k. exfalso. apply H. left. reflexivity.
  - apply IH. intros Hi. apply H. right. exact Hi.
Qed.

Lemma aget_in_nodup {V} n (v : V) m : NoDup (akeys m) -> In (n, v) m -> aget n m = Some v.
Proof.
  induction m as [|[k x] m IH]; cbn; intros ND H; [contradiction|].
  inversion ND as [|y ys Hn ND']; subst. destruct H as [H|H].
  - inversion H; subst. rewrite Nat.eqb_refl. reflexivity.
  - destruct (Nat.eqb n k) eqn:E; [|apply IH; assumption].
    apply Nat.eqb_eq in E. subst k. exfalso. apply Hn. change n with (fst (n, v)). apply in_map. exact H.
Qed.

Lemma aget_map_snd {V W} (g : V -> W) n (m : amap V) :
  aget n (map (fun p => (fst p, g (snd p))) m) = option_map g (aget n m).
Proof.
  induction m as [|[k x] m IH]; cbn; [reflexivity|]. destruct (Nat.eqb n k); [reflexivity|exact IH].
Qed.

Lemma akeys_map_snd {V W} (g : V -> W) (m : amap V) : akeys (map (fun p => (fst p, g (snd p))) m) = akeys m.
Proof. unfold akeys. rewrite map_map. reflexivity. Qed.

Lemma seq_incl_keys (l : list nat) N : NoDup l -> (forall n, In n l -> n < N) -> N <= length l ->
  forall n, n < N -> In n l.
Proof.
  intros ND Hb Hl n Hn.
  assert (Hi : incl (seq 0 N) l).
  { apply NoDup_length_incl; [exact ND|rewrite seq_length; exact Hl|].
    intros x Hx. apply in_seq. specialize (Hb x Hx). lia. }
  apply Hi. apply in_seq. lia.
Qed.

Section Sched.
  Variable kind : scope_kind.
  Variable coll0 : list string.
  Hypothesis Hne : ~ In ""%string coll0.
  Variable N : nat.

  Notation UL := (UL kind coll0).
  Notation ixs_of := (ixs_of coll0).
  Notation bookw := (bookw coll0).
  Notation munits := (munits kind coll0).
  Notation munit := (munit kind coll0).

  (* the book of node n: the not-completed tests of its assigned work units *)
  Definition bookn (cs : scstate) (n : nat) : list nat :=
    match aget n (sc_assigned cs) with Some w => bookw w | None => [] end.
  (* the keys of all units the scheduler holds *)
  Definition akeys_w (a : amap workload) : list string := flat_map (fun p => map fst (snd p)) a.
  Definition ukeys (cs : scstate) : list string := map fst (sc_wq cs) ++ akeys_w (sc_assigned cs).

  Record SJ (cs : scstate) : Prop := {
    sj_open : all_open (sc_nt cs);
    sj_kind : sc_kind cs = kind;
    sj_num : sc_numnodes cs = N;
    sj_ntk : forall n, aget n (sc_nt cs) <> None <-> n < N;
    sj_nodes : forall n, In n (sc_nodes cs) -> n < N;
    sj_wf : NoDup (sc_nodes cs);
    sj_reg : forall n cl, In (n, cl) (sc_reg cs) -> cl = coll0 /\ n < N;
    sj_regnd : NoDup (akeys (sc_reg cs));
    sj_coll : forall cl, sc_coll cs = Some cl -> cl = coll0 /\ sc_collection_is_completed cs = true;
    sj_none : sc_coll cs = None -> sc_wq cs = [] /\ forall n w, In (n, w) (sc_assigned cs) -> w = [];
    sj_pool : incl (sc_wq cs) UL;
    sj_keys : NoDup (ukeys cs);
    sj_mu : forall n w, In (n, w) (sc_assigned cs) -> munits w;
  }.

  Lemma SJ_CI cs : SJ cs -> CI kind coll0 cs.
  Proof.
    intros [A B C D E F G H I J K L M]. constructor.
    - exact A.
    - exact B.
    - intros n cl Hin. apply (G n cl Hin).
    - intros Hc. apply (J Hc).
    - unfold vpool. destruct (sc_coll cs); [exact K|apply incl_refl].
    - intros n w sc u Hin Hu Hi. destruct (munit_id kind coll0 sc u ""%string (M n w Hin sc u Hu) Hi) as (Hc & _).
      contradiction.
  Qed.

  Lemma completed_all cs n : SJ cs -> sc_collection_is_completed cs = true -> n < N -> In n (akeys (sc_reg cs)).
  Proof.
    intros J Hc Hn. unfold sc_collection_is_completed in Hc. rewrite (sj_num _ J) in Hc. apply Nat.leb_le in Hc.
    apply (seq_incl_keys (akeys (sc_reg cs)) N); [apply J| |rewrite akeys_length; exact Hc|exact Hn].
    intros k Hk. unfold akeys in Hk. apply in_map_iff in Hk. destruct Hk as ([k' cl] & <- & Hin).
    apply (sj_reg _ J k' cl Hin).
  Qed.

  Lemma not_completed cs n : SJ cs -> n < N -> ~ In n (akeys (sc_reg cs)) -> sc_collection_is_completed cs = false.
  Proof.
    intros J Hn Hni. destruct (sc_collection_is_completed cs) eqn:E; [|reflexivity].
    exfalso. apply Hni. eapply completed_all; eauto.
  Qed.

  Lemma reg_get cs n : SJ cs -> In n (akeys (sc_reg cs)) -> aget n (sc_reg cs) = Some coll0.
  Proof.
    intros J Hin. destruct (aget n (sc_reg cs)) as [cl|] eqn:E.
    - apply aget_in in E. destruct (sj_reg _ J n cl E) as (-> & _). reflexivity.
    - apply aget_none_keys in E. contradiction.
  Qed.

  Lemma bookn_none cs n : ~ In n (sc_nodes cs) -> bookn cs n = [].
  Proof. intros H. unfold bookn. apply aget_none_keys in H. unfold sc_nodes in H. rewrite H. reflexivity. Qed.

  Lemma bookn_coll_none cs n : SJ cs -> sc_coll cs = None -> bookn cs n = [].
  Proof.
    intros J Hc. unfold bookn. destruct (aget n (sc_assigned cs)) as [w|] eqn:E; [|reflexivity].
    apply aget_in in E. destruct (sj_none _ J Hc) as (_ & X). rewrite (X n w E). reflexivity.
  Qed.

  (* ---- changes of the node table only ---- *)
  Lemma SJ_set_nt cs v :
    SJ cs -> all_open v -> (forall n, aget n v <> None <-> aget n (sc_nt cs) <> None) -> SJ (sc_set_nt cs v).
  Proof.
    intros [A B C D E F G H I J K L M] Hv Hk. constructor; try assumption.
    intros n. cbn [sc_set_nt sc_nt]. rewrite Hk. apply D.
  Qed.

  Lemma aget_aset_keys {V} n (v : V) m k : aget n m <> None -> (aget k (aset n v m) <> None <-> aget k m <> None).
  Proof.
    intros Hn. rewrite LoadProofs.aget_aset. destruct (Nat.eqb k n) eqn:E; [|tauto].
    apply Nat.eqb_eq in E. subst k. split; intros _; [exact Hn|discriminate].
  Qed.

  (* ---- the effect of a scheduling step on flags and books ---- *)
  Record SE0 (cs cs' : scstate) (o : list out) : Prop := {
    se_nt : forall n, NRo (aget n (sc_nt cs)) (cmds_to n o) (aget n (sc_nt cs'));
    se_bk : forall n, bookn cs' n = bookn cs n ++ flat_map cmd_inds (cmds_to n o);
    se_nodes : sc_nodes cs' = sc_nodes cs;
    se_reg : sc_reg cs' = sc_reg cs;
    se_coll : sc_coll cs' = sc_coll cs;
    se_wq : exists moved, sc_wq cs = moved ++ sc_wq cs';
    se_go : Forall good_out o;
  }.
  Definition sdp (cs' : scstate) (o : list out) : Prop :=
    (exists n, In CShutdown (cmds_to n o)) -> sc_wq cs' = [].
  Definition SE (cs cs' : scstate) (o : list out) : Prop := SE0 cs cs' o /\ SJ cs' /\ sdp cs' o.

  Lemma SE0_refl cs : SE0 cs cs [].
  Proof.
    constructor; try reflexivity.
    - intros n. apply NRo_refl.
    - intros n. cbn. rewrite app_nil_r. reflexivity.
    - exists []. reflexivity.
    - constructor.
  Qed.

  Lemma SE0_trans a b c o1 o2 : SE0 a b o1 -> SE0 b c o2 -> SE0 a c (o1 ++ o2).
  Proof.
    intros [A1 B1 C1 D1 E1 (m1 & F1) G1] [A2 B2 C2 D2 E2 (m2 & F2) G2]. constructor.
    - intros n. rewrite cmds_to_app. eapply NRo_trans; [apply A1|apply A2].
    - intros n. rewrite cmds_to_app, flat_map_app, B2, B1, <- app_assoc. reflexivity.
    - congruence.
    - congruence.
    - congruence.
    - exists (m1 ++ m2). rewrite F1, F2, app_assoc. reflexivity.
    - apply Forall_app. auto.
  Qed.

  Lemma SE_refl cs : SJ cs -> SE cs cs [].
  Proof. intros J. split; [apply SE0_refl|]. split; [exact J|]. intros (n & []). Qed.

  Lemma SE_trans a b c o1 o2 : SE a b o1 -> SE b c o2 -> SE a c (o1 ++ o2).
  Proof.
    intros (T1 & J1 & P1) (T2 & J2 & P2). split; [eapply SE0_trans; eauto|]. split; [exact J2|].
    intros (n & Hin). rewrite cmds_to_app in Hin. apply in_app_or in Hin. destruct Hin as [Hin|Hin].
    - assert (E : sc_wq b = []) by (apply P1; exists n; exact Hin).
      destruct (se_wq _ _ _ T2) as (m2 & D2). rewrite E in D2. symmetry in D2.
      apply app_eq_nil in D2. tauto.
    - apply P2. exists n. exact Hin.
  Qed.

  Lemma SE0_nt_keys cs cs' o n : SE0 cs cs' o -> (aget n (sc_nt cs') <> None <-> aget n (sc_nt cs) <> None).
  Proof.
    intros T. pose proof (se_nt _ _ _ T n) as R.
    destruct (aget n (sc_nt cs)), (aget n (sc_nt cs')); cbn in R; try tauto.
    split; intros; discriminate.
  Qed.

  (* ---- node.shutdown() ---- *)
  Lemma sc_shutdown_eff n cs cs' o r :
    SJ cs -> aget n (sc_nt cs) <> None ->
    node_shutdown sc_nt sc_set_nt n cs = (cs', o, r) ->
    r = Ok tt /\ SE0 cs cs' o /\ SJ cs' /\ sc_wq cs' = sc_wq cs /\ sc_assigned cs' = sc_assigned cs.
  Proof.
    intros J Hn H. apply node_shutdown_cases_g in H.
    destruct H as [(F & _)|[(c & _ & _ & -> & -> & ->)|(c & En & Esd & -> & -> & ->)]].
    - contradiction.
    - split; [reflexivity|]. split; [apply SE0_refl|]. auto.
    - rewrite (sj_open _ J _ _ En). split; [reflexivity|].
      assert (Hs : n_sdsent c = false).
      { unfold shutting_down in Esd. apply orb_false_iff in Esd. tauto. }
      split; [|split; [|split; reflexivity]].
      + constructor; cbn [sc_nt sc_set_nt sc_reg sc_coll sc_wq]; try reflexivity.
        * intros m. rewrite LoadProofs.aget_aset. destruct (Nat.eqb m n) eqn:E.
          -- apply Nat.eqb_eq in E. subst m. rewrite cmds_to_one_eq, En. cbn. apply NR_sd; [exact Hs|constructor].
          -- apply Nat.eqb_neq in E. rewrite cmds_to_one_neq by exact E. apply NRo_refl.
        * intros m. unfold bookn. cbn [sc_assigned sc_set_nt]. destruct (Nat.eq_dec m n) as [->|Hm].
          -- rewrite cmds_to_one_eq. cbn. rewrite app_nil_r. reflexivity.
          -- rewrite cmds_to_one_neq by exact Hm. cbn. rewrite app_nil_r. reflexivity.
        * exists []. reflexivity.
        * repeat constructor.
      + apply SJ_set_nt; [exact J| |].
        * apply all_open_aset; [apply J|]. cbn. exact (sj_open _ J _ _ En).
        * intros k. apply aget_aset_keys. congruence.
  Qed.

  Lemma sc_shutdown_SE n cs cs' o r :
    SJ cs -> aget n (sc_nt cs) <> None -> sc_wq cs = [] ->
    node_shutdown sc_nt sc_set_nt n cs = (cs', o, r) -> r = Ok tt /\ SE cs cs' o.
  Proof.
    intros J Hn Hw H. destruct (sc_shutdown_eff _ _ _ _ _ J Hn H) as (-> & T & J' & Ew & _).
    split; [reflexivity|]. split; [exact T|]. split; [exact J'|]. intros _. congruence.
  Qed.

  Lemma sc_mfor_shutdown_eff l : forall cs cs' o r,
    SJ cs -> (forall n, In n l -> aget n (sc_nt cs) <> None) ->
    mfor l (fun n => node_shutdown sc_nt sc_set_nt n) cs = (cs', o, r) ->
    r = Ok tt /\ SE0 cs cs' o /\ SJ cs' /\ sc_wq cs' = sc_wq cs /\ sc_assigned cs' = sc_assigned cs.
  Proof.
    induction l as [|n l IH]; intros cs cs' o r J Hl H; cbn [mfor] in H.
    - inv H. split; [reflexivity|]. split; [apply SE0_refl|]. auto.
    - apply LoadProofs.mbind_inv in H. destruct H as [(e & H1 & ->)|(s1 & o1 & a & o2 & H1 & H2 & ->)].
      + destruct (sc_shutdown_eff _ _ _ _ _ J (Hl n (or_introl eq_refl)) H1) as (F & _). discriminate.
      + destruct (sc_shutdown_eff _ _ _ _ _ J (Hl n (or_introl eq_refl)) H1) as (_ & T1 & J1 & W1 & A1).
        destruct (IH s1 cs' o2 r J1) as (-> & T2 & J2 & W2 & A2).
        * intros k Hk. apply (SE0_nt_keys _ _ _ k T1). apply Hl. right. exact Hk.
        * exact H2.
        * split; [reflexivity|]. split; [eapply SE0_trans; eauto|]. split; [exact J2|]. split; congruence.
  Qed.
  (* ---- _assign_work_unit ---- *)
  Lemma akeys_w_app a b : akeys_w (a ++ b) = akeys_w a ++ akeys_w b.
  Proof. apply flat_map_app. Qed.

  Lemma akeys_w_in a n w sc : In (n, w) a -> In sc (map fst w) -> In sc (akeys_w a).
  Proof. intros H1 H2. unfold akeys_w. apply in_flat_map. exists (n, w). auto. Qed.

  Lemma opt_map_index (u : unit_t) :
    all_false u -> (forall id, In id (map fst u) -> In id coll0) ->
    opt_map (fun p => index_of_str (fst p) coll0) (filter (fun p => negb (snd p)) u)
      = Some (map (pos_in coll0) (map fst u)).
  Proof.
    intros Hf Hin. rewrite WorkerProofs.filter_all.
    2:{ intros x Hx. unfold all_false in Hf. rewrite Forall_forall in Hf. rewrite (Hf x Hx). reflexivity. }
    clear Hf. induction u as [|p u IH]; [reflexivity|]. cbn [opt_map map].
    destruct (index_of_str_some (fst p) coll0 (Hin _ (or_introl eq_refl))) as (i & Ei).
    rewrite Ei. rewrite IH by (intros id Hid; apply Hin; right; exact Hid).
    f_equal. f_equal. unfold pos_in. rewrite Ei. reflexivity.
  Qed.

  Definition nosd (o : list out) : Prop := forall m, ~ In CShutdown (cmds_to m o).

  Lemma nosd_app a b : nosd a -> nosd b -> nosd (a ++ b).
  Proof. intros Ha Hb m Hi. rewrite cmds_to_app in Hi. apply in_app_or in Hi. destruct Hi; [eapply Ha|eapply Hb]; eauto. Qed.

  Lemma nosd_sdp cs' o : nosd o -> sdp cs' o.
  Proof. intros H (n & Hn). exfalso. exact (H n Hn). Qed.

  Lemma assign_eff n cs cs' o r :
    SJ cs -> sc_wq cs <> [] -> In n (sc_nodes cs) -> In n (akeys (sc_reg cs)) ->
    (exists f, aget n (sc_nt cs) = Some f /\ n_sdsent f = false) ->
    sc_assign_work_unit n cs = (cs', o, r) ->
    r = Ok tt /\ SE0 cs cs' o /\ SJ cs' /\ sc_nt cs' = sc_nt cs /\
    length (sc_wq cs) = S (length (sc_wq cs')) /\ nosd o.
  Proof.
    intros J Hwq Hnode Hreg (f & Ef & Hs) H.
    unfold sc_assign_work_unit in H. rewrite mbind_get_eq in H.
    destruct (sc_wq cs) as [|[scope u] wq'] eqn:Ewq; [contradiction|].
    rewrite mbind_put_eq, mbind_get_eq in H. cbn [sc_reg sc_set_assigned sc_set_wq] in H.
    rewrite (reg_get cs n J Hreg) in H. cbn [of_opt] in H. rewrite mbind_ret_eq in H.
    assert (HUL : In (scope, u) UL) by (apply (sj_pool _ J); rewrite Ewq; left; reflexivity).
    destruct (UL_unit kind coll0 _ _ HUL) as (_ & Hf).
    rewrite opt_map_index in H; [|exact Hf|intros id Hid; apply (UL_ids kind coll0 _ _ _ HUL Hid)].
    cbn [of_opt] in H. rewrite mbind_ret_eq in H.
    apply node_send_cases in H. cbn [sc_nt sc_set_assigned sc_set_wq] in H.
    destruct H as (-> & [(F0 & _)|(f' & Ef' & -> & ->)]); [congruence|].
    assert (f' = f) by congruence. subst f'. rewrite (sj_open _ J _ _ Ef).
    destruct (aget n (sc_assigned cs)) as [cur|] eqn:Ecur.
    2:{ exfalso. apply aget_none_keys in Ecur. contradiction. }
    pose proof (sj_keys _ J) as NDk. unfold ukeys in NDk. rewrite Ewq in NDk. cbn [map fst] in NDk.
    assert (Hfresh : ~ In scope (map fst cur)).
    { intros Hi. inversion NDk as [|x xs Hn _]; subst. apply Hn. apply in_or_app. right.
      eapply akeys_w_in; [apply aget_in; exact Ecur|exact Hi]. }
    assert (Hcoll : sc_coll cs <> None).
    { intros Hc. destruct (sj_none _ J Hc) as (X & _). rewrite Ewq in X. discriminate. }
    destruct (LoadProofs.aget_split _ _ _ _ Ecur) as (pre & post & Ea & Eset & _ & Hnpre).
    split; [reflexivity|]. split; [|split; [|split; [reflexivity|split; [reflexivity|]]]].
    - constructor; cbn [sc_nt sc_set_assigned sc_set_wq sc_reg sc_coll sc_wq sc_assigned]; try reflexivity.
      + intros m. destruct (Nat.eq_dec m n) as [->|Hm].
        * rewrite cmds_to_one_eq, Ef. cbn. apply NR_run; [exact Hs|constructor].
        * rewrite cmds_to_one_neq by exact Hm. apply NRo_refl.
      + intros m. unfold bookn. cbn [sc_assigned sc_set_assigned sc_set_wq].
        destruct (Nat.eq_dec m n) as [->|Hm].
        * rewrite cmds_to_one_eq, aget_aset_eq, Ecur. cbn [flat_map cmd_inds]. rewrite app_nil_r.
          apply bookw_assign; assumption.
        * rewrite cmds_to_one_neq by exact Hm. rewrite aget_aset_neq by exact Hm. cbn. rewrite app_nil_r. reflexivity.
      + unfold sc_nodes. cbn [sc_assigned sc_set_assigned sc_set_wq]. eapply akeys_aset_has; eauto.
      + exists [(scope, u)]. exact Ewq.
      + repeat constructor.
    - pose proof J as [A B C D E F G H I Jn K L M].
      assert (Ek : forall v : workload, akeys (aset n v (sc_assigned cs)) = akeys (sc_assigned cs))
        by (intros v; eapply akeys_aset_has; eauto).
      constructor; cbn [sc_nt sc_set_assigned sc_set_wq sc_reg sc_coll sc_wq sc_assigned sc_kind sc_numnodes];
        try assumption.
      + unfold sc_nodes. cbn [sc_assigned sc_set_assigned sc_set_wq]. intros k. rewrite Ek. apply E.
      + unfold sc_nodes. cbn [sc_assigned sc_set_assigned sc_set_wq]. rewrite Ek. exact F.
      + intros Hc. contradiction.
      + intros x Hx. apply K. rewrite Ewq. right. exact Hx.
      + unfold ukeys. cbn [sc_assigned sc_set_assigned sc_set_wq sc_wq].
        rewrite Eset, sset_fresh by exact Hfresh. rewrite Ea in NDk.
        rewrite !akeys_w_app in NDk |- *.
        change (akeys_w ((n, cur ++ [(scope, u)]) :: post)) with (map fst (cur ++ [(scope, u)]) ++ akeys_w post).
        change (akeys_w ((n, cur) :: post)) with (map fst cur ++ akeys_w post) in NDk.
        rewrite map_app. cbn [map fst].
        eapply Permutation_NoDup; [|exact NDk].
        replace (map fst wq' ++ akeys_w pre ++ ((map fst cur ++ [scope]) ++ akeys_w post))
          with ((map fst wq' ++ akeys_w pre ++ map fst cur) ++ scope :: akeys_w post)
          by (rewrite <- !app_assoc; reflexivity).
        apply Permutation_cons_app. rewrite <- !app_assoc. reflexivity.
      + intros m w Hin. apply in_aset in Hin. destruct Hin as [(-> & ->)|Hin]; [|eapply M; eauto].
        rewrite sset_fresh by exact Hfresh. intros sc' u' Hu. apply in_app_or in Hu.
        destruct Hu as [Hu|[Hu|[]]].
        * apply (M n cur (aget_in _ _ _ Ecur)). exact Hu.
        * inversion Hu; subst. apply munit_UL. exact HUL.
    - intros m Hi. destruct (Nat.eq_dec m n) as [->|Hm].
      + rewrite cmds_to_one_eq in Hi. destruct Hi as [X|[]]. discriminate.
      + rewrite cmds_to_one_neq in Hi by exact Hm. destruct Hi.
  Qed.

  Lemma top_up_eff fuel n : forall cs cs' o r,
    SJ cs -> In n (sc_nodes cs) -> In n (akeys (sc_reg cs)) ->
    (exists f, aget n (sc_nt cs) = Some f /\ n_sdsent f = false) ->
    sc_top_up fuel n cs = (cs', o, r) ->
    r = Ok tt /\ SE0 cs cs' o /\ SJ cs' /\ sc_nt cs' = sc_nt cs /\ nosd o.
  Proof.
    induction fuel as [|fuel IH]; intros cs cs' o r J Hnode Hreg Hf H; cbn [sc_top_up] in H.
    - inv H. split; [reflexivity|]. split; [apply SE0_refl|]. split; [exact J|]. split; [reflexivity|]. intros m [].
    - rewrite mbind_get_eq in H. destruct (sc_wq cs) as [|hd tl] eqn:Ewq.
      + inv H. split; [reflexivity|]. split; [apply SE0_refl|]. split; [exact J|]. split; [reflexivity|]. intros m [].
      + destruct (aget n (sc_assigned cs)) as [w|] eqn:Ew.
        2:{ exfalso. apply aget_none_keys in Ew. contradiction. }
        cbn [of_opt] in H. rewrite mbind_ret_eq in H.
        destruct (pending_of w <? 2).
        2:{ inv H. split; [reflexivity|]. split; [apply SE0_refl|]. split; [exact J|]. split; [reflexivity|]. intros m []. }
        apply LoadProofs.mbind_inv in H. destruct H as [(e & H1 & ->)|(s1 & o1 & a & o2 & H1 & H2 & ->)].
        * assert (Hw : sc_wq cs <> []) by (rewrite Ewq; discriminate).
          destruct (assign_eff _ _ _ _ _ J Hw Hnode Hreg Hf H1) as (F & _). discriminate.
        * assert (Hw : sc_wq cs <> []) by (rewrite Ewq; discriminate).
          destruct (assign_eff _ _ _ _ _ J Hw Hnode Hreg Hf H1) as (_ & T1 & J1 & N1 & _ & S1).
          destruct (IH s1 cs' o2 r J1) as (-> & T2 & J2 & N2 & S2).
          -- rewrite (se_nodes _ _ _ T1). exact Hnode.
          -- rewrite (se_reg _ _ _ T1). exact Hreg.
          -- rewrite N1. exact Hf.
          -- exact H2.
          -- split; [reflexivity|]. split; [eapply SE0_trans; eauto|]. split; [exact J2|].
             split; [congruence|apply nosd_app; assumption].
  Qed.

  Lemma shutting_down_run n (cs : scstate) f :
    aget n (sc_nt cs) = Some f -> node_shutting_down sc_nt n cs = (cs, [], Ok (shutting_down f)).
  Proof.
    intros Ef. unfold node_shutting_down, node_flags, mbind, get, of_opt, ret. rewrite Ef. reflexivity.
  Qed.

  (* ---- _reschedule ---- *)
  Lemma resched_eff n cs cs' o r :
    SJ cs -> aget n (sc_nt cs) <> None -> In n (sc_nodes cs) ->
    sc_reschedule n cs = (cs', o, r) -> r = Ok tt /\ SE cs cs' o.
  Proof.
    intros J Hn Hnode H. unfold sc_reschedule in H.
    destruct (aget n (sc_nt cs)) as [f|] eqn:Ef; [|contradiction].
    rewrite (mbind_step _ _ _ _ _ (shutting_down_run n cs f Ef)) in H.
    destruct (shutting_down f) eqn:Esd.
    { inv H. split; [reflexivity|apply SE_refl; exact J]. }
    rewrite mbind_get_eq in H.
    destruct (sc_wq cs) as [|hd tl] eqn:Ewq.
    { apply sc_shutdown_SE in H; [exact H|exact J|congruence|exact Ewq]. }
    destruct (ahas n (sc_reg cs)) eqn:Ereg; cbn [negb] in H.
    2:{ inv H. split; [reflexivity|apply SE_refl; exact J]. }
    assert (Hreg : In n (akeys (sc_reg cs))).
    { unfold ahas in Ereg. apply aget_In_keys. destruct (aget n (sc_reg cs)); [discriminate|discriminate]. }
    destruct (aget n (sc_assigned cs)) as [w|] eqn:Ew.
    2:{ exfalso. apply aget_none_keys in Ew. contradiction. }
    cbn [of_opt] in H. rewrite mbind_ret_eq in H.
    destruct (2 <? pending_of w).
    { inv H. split; [reflexivity|apply SE_refl; exact J]. }
    assert (Hs : exists f0, aget n (sc_nt cs) = Some f0 /\ n_sdsent f0 = false).
    { exists f. split; [exact Ef|]. unfold shutting_down in Esd. apply orb_false_iff in Esd. tauto. }
    assert (Hw : sc_wq cs <> []) by (rewrite Ewq; discriminate).
    apply LoadProofs.mbind_inv in H. destruct H as [(e & H1 & ->)|(s1 & o1 & a & o2 & H1 & H2 & ->)].
    - destruct (assign_eff _ _ _ _ _ J Hw Hnode Hreg Hs H1) as (F & _). discriminate.
    - destruct (assign_eff _ _ _ _ _ J Hw Hnode Hreg Hs H1) as (_ & T1 & J1 & N1 & _ & S1).
      rewrite mbind_get_eq in H2.
      destruct (top_up_eff (length (sc_wq s1)) n s1 cs' o2 r J1) as (-> & T2 & J2 & N2 & S2).
      + rewrite (se_nodes _ _ _ T1). exact Hnode.
      + rewrite (se_reg _ _ _ T1). exact Hreg.
      + rewrite N1. exact Hs.
      + exact H2.
      + split; [reflexivity|]. split; [eapply SE0_trans; eauto|]. split; [exact J2|].
        apply nosd_sdp. apply nosd_app; assumption.
  Qed.

  Lemma mfor_resched_eff l : forall cs cs' o r,
    SJ cs -> (forall n, In n l -> aget n (sc_nt cs) <> None /\ In n (sc_nodes cs)) ->
    mfor l sc_reschedule cs = (cs', o, r) -> r = Ok tt /\ SE cs cs' o.
  Proof.
    induction l as [|n l IH]; intros cs cs' o r J Hl H; cbn [mfor] in H.
    - inv H. split; [reflexivity|apply SE_refl; exact J].
    - destruct (Hl n (or_introl eq_refl)) as (Hn & Hnode).
      apply LoadProofs.mbind_inv in H. destruct H as [(e & H1 & ->)|(s1 & o1 & a & o2 & H1 & H2 & ->)].
      + destruct (resched_eff _ _ _ _ _ J Hn Hnode H1) as (F & _). discriminate.
      + destruct (resched_eff _ _ _ _ _ J Hn Hnode H1) as (_ & T1).
        destruct (IH s1 cs' o2 r (proj1 (proj2 T1))) as (-> & T2).
        * intros k Hk. destruct (Hl k (or_intror Hk)) as (A & B). split.
          -- apply (SE0_nt_keys _ _ _ k (proj1 T1)). exact A.
          -- rewrite (se_nodes _ _ _ (proj1 T1)). exact B.
        * exact H2.
        * split; [reflexivity|eapply SE_trans; eauto].
  Qed.
  (* ---- small facts about the assigned-work map ---- *)
  Lemma akeys_w_aset_same (a : amap workload) n w w' :
    aget n a = Some w -> map fst w' = map fst w -> akeys_w (aset n w' a) = akeys_w a.
  Proof.
    intros Ea Em. destruct (LoadProofs.aget_split _ _ _ _ Ea) as (pre & post & E & Eset & _ & _).
    rewrite Eset, E, !akeys_w_app. unfold akeys_w at 2 4. cbn [flat_map snd]. rewrite Em. reflexivity.
  Qed.

  Lemma nodup_remove_mid {A} (a b c : list A) : NoDup (a ++ b ++ c) -> NoDup (a ++ c).
  Proof.
    induction a as [|x a IH]; cbn; intros H.
    - eapply WorkerProofs.nodup_app_r; eauto.
    - inversion H as [|y l Hn Hd]; subst. constructor; [|apply IH; exact Hd].
      intros Hi. apply Hn. apply in_app_or in Hi. apply in_or_app. destruct Hi as [Hi|Hi]; [left; exact Hi|].
      right. apply in_or_app. right. exact Hi.
  Qed.

  Lemma workload_keys_nodup cs n w : SJ cs -> In (n, w) (sc_assigned cs) -> NoDup (map fst w).
  Proof.
    intros J Hin. pose proof (sj_keys _ J) as ND. unfold ukeys in ND. apply WorkerProofs.nodup_app_r in ND.
    apply in_split in Hin. destruct Hin as (pre & post & E). rewrite E, akeys_w_app in ND.
    apply WorkerProofs.nodup_app_r in ND. unfold akeys_w in ND. cbn [flat_map snd] in ND.
    eapply nodup_app_l'; eauto.
  Qed.

  Lemma akeys_adel_incl {V} n (m : amap V) k : In k (akeys (adel n m)) -> In k (akeys m).
  Proof.
    unfold akeys. intros H. apply in_map_iff in H. destruct H as (p & <- & Hp). apply in_map.
    eapply in_adel; eauto.
  Qed.

  Lemma akeys_adel_nodup {V} n (m : amap V) : NoDup (akeys m) -> NoDup (akeys (adel n m)).
  Proof.
    induction m as [|[k v] m IH]; cbn; intros H; [constructor|]. inversion H as [|y l Hn Hd]; subst.
    destruct (Nat.eqb n k); [exact Hd|]. cbn. constructor; [|apply IH; exact Hd].
    intros Hi. apply Hn. eapply akeys_adel_incl; eauto.
  Qed.

  Lemma aget_adel_same {V} n (m : amap V) : NoDup (akeys m) -> aget n (adel n m) = None.
  Proof.
    induction m as [|[k v] m IH]; cbn; intros H; [reflexivity|]. inversion H as [|y l Hn Hd]; subst.
    destruct (Nat.eqb n k) eqn:E.
    - apply Nat.eqb_eq in E. subst k. apply aget_none_keys. exact Hn.
    - cbn. rewrite E. apply IH. exact Hd.
  Qed.

  Lemma aget_adel_other {V} n k (m : amap V) : k <> n -> aget k (adel n m) = aget k m.
  Proof.
    intros Hk. induction m as [|[j v] m IH]; cbn; [reflexivity|].
    destruct (Nat.eqb n j) eqn:E.
    - apply Nat.eqb_eq in E. subst j. destruct (Nat.eqb k n) eqn:E2; [apply Nat.eqb_eq in E2; contradiction|reflexivity].
    - cbn. destruct (Nat.eqb k j); [reflexivity|exact IH].
  Qed.

  (* ---- mark_test_complete ---- *)
  Lemma complete_eff n i rest cs cs' o r :
    SJ cs -> bookn cs n = i :: rest ->
    sc_mark_test_complete n i cs = (cs', o, r) ->
    r = Ok tt /\ exists cs1, SE cs1 cs' o /\ sc_nt cs1 = sc_nt cs /\ sc_nodes cs1 = sc_nodes cs /\
      sc_reg cs1 = sc_reg cs /\ sc_coll cs1 = sc_coll cs /\ sc_wq cs1 = sc_wq cs /\
      forall m, bookn cs1 m = if Nat.eqb m n then rest else bookn cs m.
  Proof.
    intros J Hb H. unfold bookn in Hb.
    destruct (aget n (sc_assigned cs)) as [w|] eqn:Ew; [|discriminate].
    assert (Hnode : In n (sc_nodes cs)) by (eapply aget_some_in; eauto).
    assert (HnN : n < N) by (apply (sj_nodes _ J); exact Hnode).
    destruct (sc_coll cs) as [cl|] eqn:Ec.
    2:{ pose proof (bookn_coll_none cs n J Ec) as X. unfold bookn in X. rewrite Ew, Hb in X. discriminate. }
    destruct (sj_coll _ J cl Ec) as (-> & Hcomp).
    pose proof (completed_all cs n J Hcomp HnN) as Hreg.
    pose proof (workload_keys_nodup cs n w J (aget_in _ _ _ Ew)) as NDw.
    pose proof (sj_mu _ J n w (aget_in _ _ _ Ew)) as Mw.
    assert (Hi : In i (bookw w)) by (rewrite Hb; left; reflexivity).
    destruct (bookw_in coll0 w i Hi) as (sc' & u' & Hin & Hi').
    destruct (undone_ixs_in kind coll0 sc' u' i (Mw _ _ Hin) Hi') as (id & Hud & Hp & Hnth & Hk).
    assert (Esg : sget (split_of kind id) w = Some u') by (rewrite Hk; apply sget_in_nodup; assumption).
    destruct (bookw_complete kind coll0 w i id _ u' NDw Mw Hnth Hi eq_refl Esg) as (Ebk & Hidk).
    unfold sc_mark_test_complete in H. rewrite mbind_get_eq in H.
    rewrite (reg_get cs n J Hreg) in H. cbn [of_opt] in H. rewrite mbind_ret_eq in H.
    rewrite Hnth in H. cbn [of_opt] in H. rewrite mbind_ret_eq in H. cbv zeta in H.
    rewrite Ew in H. cbn [of_opt] in H. rewrite mbind_ret_eq in H.
    rewrite (sj_kind _ J), Esg in H. cbn [of_opt] in H. rewrite mbind_ret_eq, mbind_put_eq in H.
    set (w' := sset (split_of kind id) (sset id true u') w) in *.
    set (cs1 := sc_set_assigned cs (aset n w' (sc_assigned cs))) in *.
    assert (Ekw : map fst w' = map fst w).
    { unfold w'. rewrite map_fst_sset. destruct (mem_str _ _) eqn:M; [reflexivity|].
      exfalso. apply mem_str_false_not_in in M. apply M.
      rewrite Hk. change sc' with (fst (sc', u')). apply in_map. exact Hin. }
    assert (Ek : forall v : workload, akeys (aset n v (sc_assigned cs)) = akeys (sc_assigned cs))
      by (intros v; eapply akeys_aset_has; eauto).
    assert (J1 : SJ cs1).
    { pose proof J as [A B C D E F G Hh I Jn K L M]. subst cs1.
      constructor; cbn [sc_nt sc_set_assigned sc_reg sc_coll sc_wq sc_assigned sc_kind sc_numnodes]; try assumption.
      - unfold sc_nodes. cbn [sc_assigned sc_set_assigned]. intros k. rewrite Ek. apply E.
      - unfold sc_nodes. cbn [sc_assigned sc_set_assigned]. rewrite Ek. exact F.
      - rewrite Ec. discriminate.
      - unfold ukeys. cbn [sc_assigned sc_set_assigned sc_wq]. rewrite (akeys_w_aset_same (sc_assigned cs) n w _ Ew); [exact L|exact Ekw].
      - intros m wm Hm. apply in_aset in Hm. destruct Hm as [(-> & ->)|Hm]; [|eapply M; eauto].
        intros sc u Hu. unfold w' in Hu. apply in_sset in Hu. destruct Hu as [(-> & ->)|Hu]; [|apply (Mw _ _ Hu)].
        apply munit_sset; [|exact Hidk]. rewrite Hk. apply (Mw _ _ Hin). }
    assert (Hn1 : aget n (sc_nt cs1) <> None) by (apply (sj_ntk _ J1); exact HnN).
    assert (Hnode1 : In n (sc_nodes cs1)).
    { subst cs1. unfold sc_nodes. cbn [sc_assigned sc_set_assigned]. rewrite Ek. exact Hnode. }
    destruct (resched_eff n cs1 cs' o r J1 Hn1 Hnode1 H) as (-> & T).
    split; [reflexivity|]. exists cs1. split; [exact T|]. subst cs1.
    cbn [sc_nt sc_set_assigned sc_reg sc_coll sc_wq].
    split; [reflexivity|]. split; [unfold sc_nodes; cbn [sc_assigned sc_set_assigned]; apply Ek|].
    split; [reflexivity|]. split; [first [reflexivity|assumption]|]. split; [reflexivity|].
    intros m. unfold bookn. cbn [sc_assigned sc_set_assigned]. destruct (Nat.eqb m n) eqn:E.
    - apply Nat.eqb_eq in E. subst m. rewrite aget_aset_eq. rewrite Ebk, Hb.
      apply filter_neq_head. rewrite <- Hb. apply (bookw_nodup kind coll0); assumption.
    - apply Nat.eqb_neq in E. rewrite aget_aset_neq by exact E. reflexivity.
  Qed.

  (* ---- add_node ---- *)
  Lemma add_node_eff n cs cs' o r :
    SJ cs -> n < N -> ~ In n (sc_nodes cs) ->
    sc_add_node n cs = (cs', o, r) ->
    r = Ok tt /\ o = [] /\ SJ cs' /\ sc_nt cs' = sc_nt cs /\ sc_nodes cs' = sc_nodes cs ++ [n] /\
    sc_reg cs' = sc_reg cs /\ sc_coll cs' = sc_coll cs /\ sc_wq cs' = sc_wq cs /\
    forall m, bookn cs' m = bookn cs m.
  Proof.
    intros J HnN Hni H. unfold sc_add_node in H. rewrite mbind_get_eq in H.
    assert (Ea : aget n (sc_assigned cs) = None) by (apply aget_none_keys; exact Hni).
    unfold ahas in H. rewrite Ea in H. cbn [negb massert] in H. rewrite mbind_ret_eq in H.
    rewrite (aset_absent n [] (sc_assigned cs) Hni) in H. inv H.
    split; [reflexivity|]. split; [reflexivity|].
    assert (Ek : sc_nodes (sc_set_assigned cs (sc_assigned cs ++ [(n, [])])) = sc_nodes cs ++ [n]).
    { unfold sc_nodes. cbn [sc_assigned sc_set_assigned]. rewrite akeys_app. reflexivity. }
    split; [|split; [reflexivity|split; [exact Ek|split; [reflexivity|split; [reflexivity|split; [reflexivity|]]]]]].
    - pose proof J as [A B C D E F G Hh I Jn K L M].
      constructor; cbn [sc_nt sc_set_assigned sc_reg sc_coll sc_wq sc_assigned sc_kind sc_numnodes]; try assumption.
      + intros k Hk. unfold sc_nodes in Hk. cbn [sc_assigned sc_set_assigned] in Hk. rewrite akeys_app in Hk.
        apply in_app_or in Hk. destruct Hk as [Hk|[<-|[]]]; [apply E; exact Hk|exact HnN].
      + unfold sc_nodes. cbn [sc_assigned sc_set_assigned]. rewrite akeys_app. cbn [akeys map fst].
        apply Permutation_NoDup with (l := n :: akeys (sc_assigned cs)); [apply Permutation_cons_append|].
        constructor; assumption.
      + intros Hc. destruct (Jn Hc) as (X & Y). split; [exact X|]. intros k w Hin. apply in_app_or in Hin.
        destruct Hin as [Hin|[Hin|[]]]; [eapply Y; eauto|]. inversion Hin. reflexivity.
      + unfold ukeys. cbn [sc_assigned sc_set_assigned sc_wq]. rewrite akeys_w_app. unfold akeys_w at 2. cbn.
        rewrite app_nil_r. exact L.
      + intros k w Hin. apply in_app_or in Hin. destruct Hin as [Hin|[Hin|[]]]; [eapply M; eauto|].
        inversion Hin; subst. intros sc u [].
    - intros m. unfold bookn. cbn [sc_assigned sc_set_assigned].
      destruct (aget m (sc_assigned cs)) as [w|] eqn:Em.
      + destruct (LoadProofs.aget_split _ _ _ _ Em) as (pre & post & E & _ & _ & Hnp).
        rewrite E, <- app_assoc. rewrite aget_app_notin by exact Hnp. cbn. rewrite Nat.eqb_refl. reflexivity.
      + apply aget_none_keys in Em. rewrite aget_app_notin by exact Em. cbn.
        destruct (Nat.eqb m n); reflexivity.
  Qed.

  (* ---- add_node_collection ---- *)
  Lemma add_coll_eff n cs cs' o r :
    SJ cs -> In n (sc_nodes cs) -> ~ In n (akeys (sc_reg cs)) ->
    sc_add_node_collection n coll0 cs = (cs', o, r) ->
    r = Ok tt /\ o = [] /\ SJ cs' /\ cs' = sc_set_reg cs (sc_reg cs ++ [(n, coll0)]) /\ sc_coll cs = None.
  Proof.
    intros J Hnode Hni H. unfold sc_add_node_collection in H. rewrite mbind_get_eq in H.
    assert (HnN : n < N) by (apply (sj_nodes _ J); exact Hnode).
    assert (Ea : ahas n (sc_assigned cs) = true).
    { unfold ahas. destruct (aget n (sc_assigned cs)) eqn:E; [reflexivity|]. apply aget_none_keys in E. contradiction. }
    rewrite Ea in H. cbn [massert] in H. rewrite mbind_ret_eq in H.
    pose proof (not_completed cs n J HnN Hni) as Hnc. rewrite Hnc in H.
    rewrite (aset_absent n coll0 (sc_reg cs) Hni) in H. inv H.
    assert (Ec : sc_coll cs = None).
    { destruct (sc_coll cs) as [cl|] eqn:Ec; [|reflexivity]. destruct (sj_coll _ J cl Ec) as (_ & X). congruence. }
    split; [reflexivity|]. split; [reflexivity|]. split; [|split; [reflexivity|exact Ec]].
    pose proof J as [A B C D E F G Hh I Jn K L M].
    constructor; cbn [sc_nt sc_set_reg sc_reg sc_coll sc_wq sc_assigned sc_kind sc_numnodes]; try assumption.
    - intros k cl Hin. apply in_app_or in Hin. destruct Hin as [Hin|[Hin|[]]]; [eapply G; eauto|].
      inversion Hin; subst. auto.
    - rewrite akeys_app. cbn [akeys map fst].
      apply Permutation_NoDup with (l := n :: akeys (sc_reg cs)); [apply Permutation_cons_append|].
      constructor; assumption.
    - rewrite Ec. discriminate.
  Qed.

  (* ---- remove_node of a node without pending tests ---- *)
  Lemma remove_idle_eff n cs cs' o r :
    SJ cs -> In n (sc_nodes cs) -> bookn cs n = [] ->
    sc_remove_node n cs = (cs', o, r) ->
    r = Ok None /\ o = [] /\ SJ cs' /\ sc_nt cs' = sc_nt cs /\ sc_assigned cs' = adel n (sc_assigned cs) /\
    sc_coll cs' = sc_coll cs /\ sc_wq cs' = sc_wq cs /\
    (forall k, In k (akeys (sc_reg cs')) -> In k (akeys (sc_reg cs))) /\
    (sc_collection_is_completed cs = true -> sc_reg cs' = sc_reg cs).
  Proof.
    intros J Hnode Hb H. unfold bookn in Hb.
    destruct (aget n (sc_assigned cs)) as [w|] eqn:Ew.
    2:{ exfalso. apply aget_none_keys in Ew. contradiction. }
    unfold sc_remove_node in H. rewrite mbind_get_eq, Ew in H. cbn [of_opt] in H.
    rewrite mbind_ret_eq, mbind_put_eq in H.
    set (sA := sc_set_assigned cs (adel n (sc_assigned cs))) in *.
    set (sB := if sc_collection_is_completed sA then sA else sc_set_reg sA (adel n (sc_reg sA))).
    rewrite mbind_step with (s1 := sB) (a := tt) in H.
    2:{ rewrite mbind_get_eq. subst sB. destruct (sc_collection_is_completed sA); reflexivity. }
    assert (Ep : pending_of w =? 0 = true) by (rewrite (pending_of_book coll0), Hb; reflexivity).
    rewrite Ep in H. inv H.
    split; [reflexivity|]. split; [reflexivity|].
    assert (Ecomp : sc_collection_is_completed sA = sc_collection_is_completed cs) by reflexivity.
    destruct (LoadProofs.aget_split _ _ _ _ Ew) as (pre & post & Ea & _ & Edel & Hnp).
    assert (JA : SJ sA).
    { pose proof J as [A B C D E F G Hh I Jn K L M]. subst sA.
      constructor; cbn [sc_nt sc_set_assigned sc_reg sc_coll sc_wq sc_assigned sc_kind sc_numnodes]; try assumption.
      - intros k Hk. apply E. unfold sc_nodes in *. cbn [sc_assigned sc_set_assigned] in Hk.
        eapply akeys_adel_incl; eauto.
      - unfold sc_nodes. cbn [sc_assigned sc_set_assigned]. apply akeys_adel_nodup. exact F.
      - intros Hc. destruct (Jn Hc) as (X & Y). split; [exact X|]. intros k wk Hin. apply in_adel in Hin. eapply Y; eauto.
      - unfold ukeys in *. cbn [sc_assigned sc_set_assigned sc_wq]. rewrite Edel. rewrite Ea in L.
        rewrite !akeys_w_app in *. change (akeys_w ((n, w) :: post)) with (map fst w ++ akeys_w post) in L.
        rewrite app_assoc. apply nodup_remove_mid with (b := map fst w). rewrite <- app_assoc. exact L.
      - intros k wk Hin. apply in_adel in Hin. eapply M; eauto. }
    assert (JB : SJ sB).
    { subst sB. rewrite Ecomp. destruct (sc_collection_is_completed cs) eqn:Ecc; [exact JA|].
      pose proof JA as [A B C D E F G Hh I Jn K L M].
      constructor; cbn [sc_nt sc_set_reg sc_reg sc_coll sc_wq sc_assigned sc_kind sc_numnodes]; try assumption.
      - intros k cl Hin. apply in_adel in Hin. eapply G; eauto.
      - apply akeys_adel_nodup. exact Hh.
      - intros cl Hc. destruct (I cl Hc) as (_ & X). subst sA. rewrite Ecomp in X. congruence. }
    split; [exact JB|]. subst sB. rewrite Ecomp.
    destruct (sc_collection_is_completed cs); subst sA;
      cbn [sc_nt sc_set_reg sc_set_assigned sc_reg sc_coll sc_wq sc_assigned];
      repeat (split; [reflexivity|]); (split; [|intros X; first [reflexivity|discriminate X]]).
    - auto.
    - intros k Hk. eapply akeys_adel_incl; eauto.
  Qed.
  (* ---- schedule(): surplus nodes are popped and shut down ---- *)
  Lemma SJ_prefix cs a' b : SJ cs -> sc_assigned cs = a' ++ b -> SJ (sc_set_assigned cs a').
  Proof.
    intros [A B C D E F G Hh I Jn K L M] Ea.
    constructor; cbn [sc_nt sc_set_assigned sc_reg sc_coll sc_wq sc_assigned sc_kind sc_numnodes]; try assumption.
    - intros k Hk. apply E. unfold sc_nodes in *. cbn [sc_assigned sc_set_assigned] in Hk.
      rewrite Ea, akeys_app. apply in_or_app. left. exact Hk.
    - unfold sc_nodes in *. cbn [sc_assigned sc_set_assigned]. rewrite Ea, akeys_app in F.
      eapply nodup_app_l'; eauto.
    - intros Hc. destruct (Jn Hc) as (X & Y). split; [exact X|]. intros k w Hin. apply (Y k w).
      rewrite Ea. apply in_or_app. left. exact Hin.
    - unfold ukeys in *. cbn [sc_assigned sc_set_assigned sc_wq]. rewrite Ea, akeys_w_app, app_assoc in L.
      eapply nodup_app_l'; eauto.
    - intros k w Hin. apply (M k w). rewrite Ea. apply in_or_app. left. exact Hin.
  Qed.

  Lemma NR_nil_inv f f' : NR f [] f' -> f' = f.
  Proof. intros H. inversion H. reflexivity. Qed.

  Lemma firstn_snoc_le {A} x (l : list A) p : x <= length l -> firstn x (l ++ [p]) = firstn x l.
  Proof.
    intros Hx. rewrite firstn_app. replace (x - length l) with 0 by lia. cbn. apply app_nil_r.
  Qed.

  Lemma in_firstn {A} x (l : list A) p : In p (firstn x l) -> In p l.
  Proof. intros H. rewrite <- (firstn_skipn x l). apply in_or_app. left. exact H. Qed.

  Lemma pop_extra_eff k : forall cs cs' o r,
    SJ cs -> k <= length (sc_assigned cs) ->
    sc_pop_extra k cs = (cs', o, r) ->
    r = Ok tt /\ SJ cs' /\ sc_assigned cs' = firstn (length (sc_assigned cs) - k) (sc_assigned cs) /\
    sc_reg cs' = sc_reg cs /\ sc_coll cs' = sc_coll cs /\ sc_wq cs' = sc_wq cs /\
    (forall m, NRo (aget m (sc_nt cs)) (cmds_to m o) (aget m (sc_nt cs'))) /\ Forall good_out o /\
    (forall m, In m (sc_nodes cs') -> cmds_to m o = []) /\
    (forall m, flat_map cmd_inds (cmds_to m o) = []) /\ (k = 0 -> o = []).
  Proof.
    induction k as [|k IH]; intros cs cs' o r J Hk H; cbn [sc_pop_extra] in H.
    - inv H. rewrite Nat.sub_0_r, firstn_all. repeat (split; [first [reflexivity|assumption]|]).
      split; [intros m; apply NRo_refl|]. split; [constructor|]. auto.
    - rewrite mbind_get_eq in H.
      destruct (exists_last (l := sc_assigned cs)) as (l' & [n w] & Ea).
      { intros E. rewrite E in Hk. cbn in Hk. lia. }
      rewrite Ea, rev_app_distr in H. cbn [rev app] in H. rewrite mbind_put_eq in H.
      rewrite removelast_last in H.
      set (cs1 := sc_set_assigned cs l') in *.
      assert (J1 : SJ cs1) by (eapply SJ_prefix; eauto).
      assert (Hnode : In n (sc_nodes cs)).
      { unfold sc_nodes. rewrite Ea, akeys_app. apply in_or_app. right. left. reflexivity. }
      assert (Hn1 : aget n (sc_nt cs1) <> None) by (apply (sj_ntk _ J1), (sj_nodes _ J); exact Hnode).
      assert (Hlen : length (sc_assigned cs) = S (length l')).
      { rewrite Ea, app_length. cbn. lia. }
      apply LoadProofs.mbind_inv in H. destruct H as [(e & H1 & ->)|(s1 & o1 & a & o2 & H1 & H2 & ->)].
      + destruct (sc_shutdown_eff _ _ _ _ _ J1 Hn1 H1) as (F & _). discriminate.
      + destruct (sc_shutdown_eff _ _ _ _ _ J1 Hn1 H1) as (_ & T1 & J2 & W1 & A1).
        assert (Hk2 : k <= length (sc_assigned s1)) by (rewrite A1; cbn; lia).
        destruct (IH s1 cs' o2 r J2 Hk2 H2) as (-> & J' & Ea' & Er & Ec & Ew & Hnt & Hgo & Hq & Hi & _).
        split; [reflexivity|]. split; [exact J'|].
        rewrite A1 in Ea'. cbn [cs1 sc_assigned sc_set_assigned] in Ea'.
        split.
        { rewrite Ea', Hlen, Ea. cbn [Nat.sub]. rewrite firstn_snoc_le by lia. reflexivity. }
        split; [rewrite Er, (se_reg _ _ _ T1); reflexivity|].
        split; [rewrite Ec, (se_coll _ _ _ T1); reflexivity|].
        split; [rewrite Ew, W1; reflexivity|].
        split; [intros m; rewrite cmds_to_app; eapply NRo_trans; [apply (se_nt _ _ _ T1)|apply Hnt]|].
        split; [apply Forall_app; split; [apply (se_go _ _ _ T1)|exact Hgo]|].
        assert (Ho1 : forall m, m <> n -> cmds_to m o1 = []).
        { intros m Hm. apply node_shutdown_cases_g in H1.
          destruct H1 as [(_ & _ & -> & _)|[(c & _ & _ & _ & -> & _)|(c & _ & _ & _ & _ & ->)]]; try reflexivity.
          destruct (n_closed c); [reflexivity|]. apply cmds_to_one_neq. exact Hm. }
        assert (Hi1 : forall m, flat_map cmd_inds (cmds_to m o1) = []).
        { intros m. apply node_shutdown_cases_g in H1.
          destruct H1 as [(_ & _ & -> & _)|[(c & _ & _ & _ & -> & _)|(c & _ & _ & _ & _ & ->)]]; try reflexivity.
          destruct (n_closed c); [reflexivity|]. cbn. destruct (Nat.eqb n m); reflexivity. }
        split; [|split; [|discriminate]].
        * intros m Hm. rewrite cmds_to_app, (Hq m Hm), app_nil_r. apply Ho1.
          intros ->. unfold sc_nodes in Hm. rewrite Ea' in Hm.
          pose proof (sj_wf _ J) as ND. unfold sc_nodes in ND. rewrite Ea, akeys_app in ND.
          eapply WorkerProofs.nodup_app_disj; [exact ND| |left; reflexivity].
          unfold akeys in *. apply in_map_iff in Hm. destruct Hm as (p & Ep & Hp). apply in_map_iff. exists p.
          split; [exact Ep|]. eapply in_firstn; eauto.
        * intros m. rewrite cmds_to_app, flat_map_app, Hi1, Hi. reflexivity.
  Qed.

  Lemma mfor_assign_eff l : forall cs cs' o r,
    SJ cs -> length l <= length (sc_wq cs) ->
    (forall n, In n l -> In n (sc_nodes cs) /\ In n (akeys (sc_reg cs)) /\
                         exists f, aget n (sc_nt cs) = Some f /\ n_sdsent f = false) ->
    mfor l sc_assign_work_unit cs = (cs', o, r) ->
    r = Ok tt /\ SE0 cs cs' o /\ SJ cs' /\ sc_nt cs' = sc_nt cs /\
    length (sc_wq cs) = length l + length (sc_wq cs') /\ nosd o.
  Proof.
    induction l as [|n l IH]; intros cs cs' o r J Hlen Hl H; cbn [mfor] in H.
    - inv H. split; [reflexivity|]. split; [apply SE0_refl|]. split; [exact J|]. split; [reflexivity|].
      split; [reflexivity|intros m []].
    - destruct (Hl n (or_introl eq_refl)) as (Hnode & Hreg & Hf).
      assert (Hw : sc_wq cs <> []) by (intros E; rewrite E in Hlen; cbn in Hlen; lia).
      apply LoadProofs.mbind_inv in H. destruct H as [(e & H1 & ->)|(s1 & o1 & a & o2 & H1 & H2 & ->)].
      + destruct (assign_eff _ _ _ _ _ J Hw Hnode Hreg Hf H1) as (F & _). discriminate.
      + destruct (assign_eff _ _ _ _ _ J Hw Hnode Hreg Hf H1) as (_ & T1 & J1 & N1 & L1 & S1).
        destruct (IH s1 cs' o2 r J1) as (-> & T2 & J2 & N2 & L2 & S2).
        * cbn [length] in Hlen. lia.
        * intros k Hk. destruct (Hl k (or_intror Hk)) as (A & B & C).
          rewrite (se_nodes _ _ _ T1), (se_reg _ _ _ T1), N1. auto.
        * exact H2.
        * split; [reflexivity|]. split; [eapply SE0_trans; eauto|]. split; [exact J2|].
          split; [congruence|]. split; [cbn [length]; lia|apply nosd_app; assumption].
  Qed.

  Lemma same_collection_run cs : SJ cs -> sc_reg cs <> [] -> sc_same_collection cs = (cs, [], Ok true).
  Proof.
    intros J Hr. unfold sc_same_collection. rewrite mbind_get_eq.
    destruct (sc_reg cs) as [|[first col] others] eqn:Er; [contradiction|].
    assert (Hc : forall p, In p others -> snd p = col).
    { intros [k cl] Hp. destruct (sj_reg _ J first col) as (-> & _); [rewrite Er; left; reflexivity|].
      destruct (sj_reg _ J k cl) as (-> & _); [rewrite Er; right; exact Hp|]. reflexivity. }
    assert (MF : forall l, (forall p, In p l -> snd p = col) ->
              mfor l (fun p : nat * list string =>
                        if coll_eqb col (snd p) then ret tt else emit (OCollDiff first (fst p))) cs = (cs, [], Ok tt) /\
              forallb (fun p : nat * list string => coll_eqb col (snd p)) l = true).
    { induction l as [|p l IH]; intros Hl; cbn [mfor forallb]; [split; reflexivity|].
      rewrite (Hl p (or_introl eq_refl)), coll_eqb_refl. rewrite mbind_ret_eq. cbn [andb].
      apply IH. intros q Hq. apply Hl. right. exact Hq. }
    destruct (MF others Hc) as (E1 & E2). unfold mbind. rewrite E1, E2. reflexivity.
  Qed.

  Lemma sched_rest_eff cs cs' o r :
    SJ cs -> sc_wq cs <> [] -> (forall m, bookn cs m = []) ->
    (forall n, In n (sc_nodes cs) -> In n (akeys (sc_reg cs))) ->
    (forall n f, aget n (sc_nt cs) = Some f -> n_sdsent f = false) ->
    sched_rest cs = (cs', o, r) ->
    r = Ok tt /\ SJ cs' /\
    (forall m, NRo (aget m (sc_nt cs)) (cmds_to m o) (aget m (sc_nt cs'))) /\
    (forall m, bookn cs' m = bookn cs m ++ flat_map cmd_inds (cmds_to m o)) /\
    incl (sc_nodes cs') (sc_nodes cs) /\ sc_reg cs' = sc_reg cs /\ sc_coll cs' = sc_coll cs /\
    sdp cs' o /\ Forall good_out o.
  Proof.
    intros J Hwq Hbk Hreg Hsd H. unfold sched_rest in H. rewrite mbind_get_eq in H.
    set (k := length (sc_nodes cs) - length (sc_wq cs)) in *.
    assert (Hk : k <= length (sc_assigned cs)).
    { unfold k, sc_nodes. rewrite akeys_length. lia. }
    apply LoadProofs.mbind_inv in H. destruct H as [(e & H1 & ->)|(cs4 & o1 & a1 & o2 & H1 & H2 & ->)].
    { destruct (pop_extra_eff _ _ _ _ _ J Hk H1) as (F & _). discriminate. }
    destruct (pop_extra_eff _ _ _ _ _ J Hk H1) as (_ & J4 & Ea4 & Er4 & Ec4 & Ew4 & Hnt4 & Hgo4 & Hq4 & Hi4 & Hk0).
    rewrite mbind_get_eq in H2.
    assert (Hsub4 : forall m w, In (m, w) (sc_assigned cs4) -> In (m, w) (sc_assigned cs)).
    { intros m w Hin. rewrite Ea4 in Hin. eapply in_firstn; eauto. }
    assert (Hnodes4 : incl (sc_nodes cs4) (sc_nodes cs)).
    { intros m Hm. unfold sc_nodes, akeys in *. apply in_map_iff in Hm. destruct Hm as ([m' w] & <- & Hp).
      change m' with (fst (m', w)). apply in_map. apply Hsub4. exact Hp. }
    assert (Hbk4 : forall m, bookn cs4 m = []).
    { intros m. unfold bookn. destruct (aget m (sc_assigned cs4)) as [w|] eqn:E; [|reflexivity].
      apply aget_in, Hsub4 in E. apply (aget_in_nodup _ _ _ (sj_wf _ J)) in E.
      specialize (Hbk m). unfold bookn in Hbk. rewrite E in Hbk. exact Hbk. }
    assert (Hlen4 : length (sc_nodes cs4) <= length (sc_wq cs4)).
    { unfold sc_nodes. rewrite akeys_length, Ea4, firstn_length, Ew4. unfold k, sc_nodes. rewrite akeys_length. lia. }
    assert (Hpre4 : forall n, In n (sc_nodes cs4) -> In n (sc_nodes cs4) /\ In n (akeys (sc_reg cs4)) /\
                       exists f, aget n (sc_nt cs4) = Some f /\ n_sdsent f = false).
    { intros n Hn. split; [exact Hn|]. split; [rewrite Er4; apply Hreg, Hnodes4; exact Hn|].
      pose proof (Hnt4 n) as R. rewrite (Hq4 n Hn) in R.
      destruct (aget n (sc_nt cs4)) as [f'|] eqn:Ef'.
      - destruct (aget n (sc_nt cs)) as [f|] eqn:Ef; [|destruct R]. cbn in R. apply NR_nil_inv in R. subst f'.
        exists f. split; [reflexivity|]. eapply Hsd; eauto.
      - exfalso. apply (sj_ntk _ J4 n); [|exact Ef']. apply (sj_nodes _ J4). exact Hn. }
    apply LoadProofs.mbind_inv in H2. destruct H2 as [(e & H3 & ->)|(cs5 & o3 & a3 & o4 & H3 & H4 & ->)].
    { destruct (mfor_assign_eff _ _ _ _ _ J4 Hlen4 Hpre4 H3) as (F & _). discriminate. }
    destruct (mfor_assign_eff _ _ _ _ _ J4 Hlen4 Hpre4 H3) as (_ & T5 & J5 & N5 & L5 & S5).
    rewrite mbind_get_eq in H4.
    assert (Hpre5 : forall n, In n (sc_nodes cs5) -> aget n (sc_nt cs5) <> None /\ In n (sc_nodes cs5)).
    { intros n Hn. split; [|exact Hn]. apply (sj_ntk _ J5), (sj_nodes _ J5). exact Hn. }
    apply LoadProofs.mbind_inv in H4. destruct H4 as [(e & H5 & ->)|(cs6 & o5 & a5 & o6 & H5 & H6 & ->)].
    { destruct (mfor_resched_eff _ _ _ _ _ J5 Hpre5 H5) as (F & _). discriminate. }
    destruct (mfor_resched_eff _ _ _ _ _ J5 Hpre5 H5) as (_ & (T6 & J6 & P6)).
    rewrite mbind_get_eq in H6.
    assert (FIN : r = Ok tt /\ SE0 cs6 cs' o6 /\ SJ cs' /\ sc_wq cs' = sc_wq cs6 /\
                  ((exists n, In CShutdown (cmds_to n o6)) -> sc_wq cs6 = [])).
    { destruct (sc_wq cs6) as [|hd tl] eqn:Ew6.
      - destruct (sc_mfor_shutdown_eff (sc_nodes cs6) cs6 cs' o6 r J6) as (-> & T & J' & W & _).
        + intros n Hn. apply (sj_ntk _ J6), (sj_nodes _ J6). exact Hn.
        + exact H6.
        + split; [reflexivity|]. split; [exact T|]. split; [exact J'|]. split; [congruence|]. auto.
      - inv H6. split; [reflexivity|]. split; [apply SE0_refl|]. split; [exact J6|]. split; [exact Ew6|].
        intros (n & []). }
    destruct FIN as (-> & T7 & J7 & W7 & P7).
    pose proof (SE0_trans _ _ _ _ _ T5 (SE0_trans _ _ _ _ _ T6 T7)) as T.
    split; [reflexivity|]. split; [exact J7|].
    split; [intros m; rewrite cmds_to_app; eapply NRo_trans; [apply Hnt4|apply (se_nt _ _ _ T)]|].
    split.
    { intros m. rewrite (se_bk _ _ _ T m), Hbk4, Hbk, (cmds_to_app m o1), flat_map_app, Hi4. reflexivity. }
    split; [rewrite (se_nodes _ _ _ T); exact Hnodes4|].
    split; [rewrite (se_reg _ _ _ T); exact Er4|].
    split; [rewrite (se_coll _ _ _ T); exact Ec4|].
    split; [|apply Forall_app; split; [exact Hgo4|apply (se_go _ _ _ T)]].
    intros (n & Hin). rewrite W7.
    rewrite !cmds_to_app in Hin. apply in_app_or in Hin. destruct Hin as [Hin|Hin].
    - (* a surplus node was popped: every remaining node got one unit, and the queue is empty *)
      assert (k <> 0) by (intros E; rewrite (Hk0 E) in Hin; destruct Hin).
      assert (E5 : sc_wq cs5 = []).
      { apply length_zero_iff_nil. rewrite Ew4 in L5. unfold sc_nodes in L5. rewrite akeys_length, Ea4, firstn_length in L5.
        unfold k, sc_nodes in *. rewrite akeys_length in *. lia. }
      destruct (se_wq _ _ _ T6) as (mv & Emv). rewrite E5 in Emv. symmetry in Emv. apply app_eq_nil in Emv. tauto.
    - apply in_app_or in Hin. destruct Hin as [Hin|Hin]; [exfalso; exact (S5 n Hin)|].
      apply in_app_or in Hin. destruct Hin as [Hin|Hin].
      + apply P6. exists n. exact Hin.
      + apply P7. exists n. exact Hin.
  Qed.

  Lemma schedule_eff cs cs' o r :
    SJ cs -> 0 < N -> sc_collection_is_completed cs = true ->
    (sc_coll cs = None -> forall n f, aget n (sc_nt cs) = Some f -> n_sdsent f = false) ->
    sc_schedule cs = (cs', o, r) ->
    r = Ok tt /\ SJ cs' /\ sc_coll cs' <> None /\
    (forall m, NRo (aget m (sc_nt cs)) (cmds_to m o) (aget m (sc_nt cs'))) /\
    (forall m, bookn cs' m = bookn cs m ++ flat_map cmd_inds (cmds_to m o)) /\
    incl (sc_nodes cs') (sc_nodes cs) /\ sc_reg cs' = sc_reg cs /\
    sdp cs' o /\ Forall good_out o.
  Proof.
    intros J Hpos Hcomp Hsd H. pose proof J as [A B C D E F G Hh I Jn K L M].
    unfold sc_schedule in H. rewrite mbind_get_eq in H. rewrite Hcomp in H. cbn [massert] in H.
    rewrite mbind_ret_eq in H.
    destruct (sc_coll cs) as [cl|] eqn:Ec.
    { destruct (mfor_resched_eff (sc_nodes cs) cs cs' o r J) as (-> & (T & J' & P)).
      - intros n Hn. split; [|exact Hn]. apply D, E. exact Hn.
      - exact H.
      - split; [reflexivity|]. split; [exact J'|]. split; [rewrite (se_coll _ _ _ T), Ec; discriminate|].
        split; [apply T|]. split; [apply T|]. split; [rewrite (se_nodes _ _ _ T); apply incl_refl|].
        split; [apply T|]. split; [exact P|apply T]. }
    assert (Hreg : sc_reg cs <> []).
    { intros Er. unfold sc_collection_is_completed in Hcomp. rewrite Er, C in Hcomp. cbn in Hcomp.
      apply Nat.leb_le in Hcomp. lia. }
    rewrite (mbind_step _ _ _ _ _ (same_collection_run cs J Hreg)) in H. cbn [negb] in H.
    rewrite mbind_get_eq in H.
    destruct (sc_reg cs) as [|[k0 c] others] eqn:Er; [contradiction|]. cbn [of_opt] in H.
    rewrite mbind_ret_eq in H.
    assert (Ec0 : c = coll0) by (apply (G k0 c); left; reflexivity). subst c.
    destruct (Jn eq_refl) as (Ewq & Hempty).
    assert (Hbk : forall m, bookn cs m = []) by (intros m; apply bookn_coll_none; [exact J|exact Ec]).
    assert (Hcase : coll0 = [] \/ exists c0 cr, coll0 = c0 :: cr) by (destruct coll0; eauto).
    destruct Hcase as [Ecoll|(c0 & cr & Ecoll)].
    - rewrite Ecoll in H. rewrite mbind_put_eq in H. inv H. rewrite <- Ecoll. split; [reflexivity|].
      split.
      { constructor; cbn [sc_nt sc_set_coll sc_reg sc_coll sc_wq sc_assigned sc_kind sc_numnodes]; try assumption.
        - rewrite Er. exact G.
        - rewrite Er. exact Hh.
        - intros cl X. inversion X; subst. split; [reflexivity|exact Hcomp].
        - discriminate. }
      split; [cbn; discriminate|].
      split; [intros m; apply NRo_refl|]. split; [intros m; cbn; rewrite app_nil_r; reflexivity|].
      split; [apply incl_refl|]. split; [cbn; rewrite Er; reflexivity|]. split; [intros (n & [])|constructor].
    - rewrite Ecoll in H. rewrite mbind_put_eq, mbind_get_eq, mbind_put_eq in H. rewrite <- Ecoll in H.
      cbn [sc_set_coll sc_wq sc_kind] in H. rewrite Ewq, B in H.
      rewrite wq_update_fresh in H; [|apply (UL_keys_nodup kind coll0)|intros k _ []]. cbn [app] in H.
      match type of H with _ ?st = _ => set (s3 := st) in * end.
      assert (HULne : UL <> []).
      { destruct (build_units_covers kind coll0 c0) as (u & Hu & _); [rewrite Ecoll; left; reflexivity|].
        apply sget_in in Hu. apply (UL_in kind coll0) in Hu. intros E0. rewrite E0 in Hu. destruct Hu. }
      assert (J3 : SJ s3).
      { subst s3. constructor; cbn [sc_set_wq sc_set_coll sc_nt sc_kind sc_reg sc_coll sc_wq sc_assigned sc_numnodes];
          try assumption.
        - rewrite Er. exact G.
        - rewrite Er. exact Hh.
        - intros cl X. inversion X; subst. split; [reflexivity|exact Hcomp].
        - discriminate.
        - apply incl_refl.
        - unfold ukeys. cbn [sc_set_wq sc_set_coll sc_wq sc_assigned].
          assert (Ez : akeys_w (sc_assigned cs) = []).
          { unfold akeys_w. apply flat_map_nil_in. intros [m w] Hin. rewrite (Hempty m w Hin). reflexivity. }
          rewrite Ez, app_nil_r. apply (UL_keys_nodup kind coll0). }
      destruct (sched_rest_eff s3 cs' o r J3) as (-> & J' & Hnt & Hb & Hn & Hr & Hc & P & Go).
      + exact HULne.
      + exact Hbk.
      + intros n Hn. apply (completed_all cs n J Hcomp). apply E. exact Hn.
      + exact (Hsd eq_refl).
      + exact H.
      + split; [reflexivity|]. split; [exact J'|]. split; [rewrite Hc; cbn; discriminate|].
        split; [exact Hnt|]. split; [exact Hb|]. split; [exact Hn|]. split; [rewrite Hr; cbn; rewrite Er; reflexivity|].
        split; [exact P|exact Go].
  Qed.
End Sched.

(* ====================================================================================== *)
(* C. the controller (DSession) in a scope mode                                            *)
(* ====================================================================================== *)
Ltac dprojc := cbn [d_sched d_shuttingdown d_shouldstop d_active d_countfailures d_maxfail d_failed_nodes
  d_max_restart d_collect_seen d_next_gw d_requeue d_set_sched d_set_active d_set_shouldstop
  d_set_shuttingdown d_set_countfailures d_set_collect_seen].

Section CtlC.
  Variable kind : scope_kind.
  Variable coll0 : list string.
  Hypothesis Hne : ~ In ""%string coll0.
  Variable N : nat.
  Hypothesis Hpos : 0 < N.

  Notation SJ := (SJ kind coll0 N).
  Notation SE0 := (SE0 coll0).
  Notation bookn := (bookn coll0).
  Notation sdp := sdp.

  (* the part that holds between the handler and the end of the loop iteration *)
  Record DJ0 (d : dstate) (cs : scstate) : Prop := {
    dj_sched : d_sched d = StC cs;
    dj_sj : SJ cs;
    dj_b : d_shuttingdown d = false -> d_shouldstop d = false -> incl (sc_nodes cs) (d_active d);
    dj_p : d_shuttingdown d = false -> forall n f, aget n (sc_nt cs) = Some f -> n_sdsent f = true ->
           sc_coll cs <> None /\ sc_wq cs = [];
    dj_g4 : d_shuttingdown d = true -> d_shouldstop d = true \/ (sc_coll cs <> None /\ sc_wq cs = []);
    dj_cc : sc_collection_is_completed cs = true -> sc_coll cs <> None;
  }.
  Definition DJ (d : dstate) (cs : scstate) : Prop :=
    DJ0 d cs /\ (d_shouldstop d = true -> d_shuttingdown d = true).

  Definition liftC {A} (d : dstate) (x : scstate * list out * result A) : dstate * list out * result A :=
    let '(cs', o, r) := x in (d_set_sched d (StC cs'), o, r).

  Lemma d_node_shutdown_liftc n d cs :
    d_sched d = StC cs -> d_node_shutdown n d = liftC d (node_shutdown sc_nt sc_set_nt n cs).
  Proof.
    intros Els. destruct d as [sch sd ss cf mf act fn mr cl gw rq]. cbn in Els. subst sch.
    unfold d_node_shutdown, node_shutdown, node_send, node_flags, mbind, get, put, of_opt, ret, raise, emit, liftC,
      d_nt, d_set_nt, d_set_sched.
    cbn [d_sched s_nt s_set_nt d_shuttingdown d_shouldstop d_countfailures d_maxfail d_active d_failed_nodes
         d_max_restart d_collect_seen d_next_gw d_requeue].
    destruct (aget n (sc_nt cs)) as [c|] eqn:En; [|reflexivity].
    destruct (n_down c || n_sdsent c); [reflexivity|].
    cbn [d_sched s_nt s_set_nt]. rewrite En.
    destruct (n_closed c); reflexivity.
  Qed.

  Lemma mfor_liftC {A} (f : A -> D unit) (g : A -> C unit) l :
    (forall x d cs, d_sched d = StC cs -> f x d = liftC d (g x cs)) ->
    forall d cs, d_sched d = StC cs -> mfor l f d = liftC d (mfor l g cs).
  Proof.
    intros Hfg. induction l as [|x l IH]; intros d cs Els.
    - cbn. unfold ret. rewrite d_set_sched_same by exact Els. reflexivity.
    - cbn [mfor]. unfold mbind. rewrite (Hfg x d cs Els).
      destruct (g x cs) as [[cs1 o1] [a|e]]; cbn [liftC]; [|reflexivity].
      rewrite (IH (d_set_sched d (StC cs1)) cs1 eq_refl).
      destruct (mfor l g cs1) as [[cs2 o2] r2]. cbn [liftC]. reflexivity.
  Qed.

  Definition d_withc (d : dstate) (sd : bool) (cs : scstate) : dstate :=
    d_set_sched (d_set_shuttingdown d sd) (StC cs).

  Lemma nodes_knownc cs : SJ cs -> forall n, In n (sc_nodes cs) -> aget n (sc_nt cs) <> None.
  Proof. intros J n Hn. apply (sj_ntk _ _ _ _ J). apply (sj_nodes _ _ _ _ J). exact Hn. Qed.

  (* triggershutdown: every scheduled node is shut down once; nothing else changes *)
  Lemma trigger_effc d cs d' o r :
    d_sched d = StC cs -> SJ cs ->
    d_triggershutdown d = (d', o, r) ->
    r = Ok tt /\ exists cs', d' = d_withc d true cs' /\ SE0 cs cs' o /\ SJ cs' /\
      sc_wq cs' = sc_wq cs /\ sc_assigned cs' = sc_assigned cs /\
      (d_shuttingdown d = true -> cs' = cs /\ o = []).
  Proof.
    intros Els J H. unfold d_triggershutdown in H. unfold mbind at 1, get in H.
    destruct (d_shuttingdown d) eqn:Esd.
    - unfold ret in H. injection H as <- <- <-. split; [reflexivity|]. exists cs.
      split. { unfold d_withc. destruct d; cbn in *; subst; reflexivity. }
      split; [apply SE0_refl|]. auto.
    - unfold mbind, put in H.
      rewrite (mfor_liftC d_node_shutdown (fun n => node_shutdown sc_nt sc_set_nt n) _ d_node_shutdown_liftc
                 (d_set_shuttingdown d true) cs) in H by exact Els.
      rewrite Els in H. cbn [s_nodes] in H.
      destruct (mfor (sc_nodes cs) (fun n => node_shutdown sc_nt sc_set_nt n) cs) as [[cs2 o2] r2] eqn:Em.
      cbn [liftC app] in H. inv H.
      destruct (sc_mfor_shutdown_eff kind coll0 N _ _ _ _ _ J (nodes_knownc cs J) Em) as (-> & T & J' & W & A).
      split; [reflexivity|]. exists cs2. split; [reflexivity|]. split; [exact T|]. split; [exact J'|].
      split; [exact W|]. split; [exact A|]. discriminate.
  Qed.

  (* the end of a loop iteration *)
  Lemma loop_rest_effc d cs d' o r :
    DJ0 d cs ->
    loop_rest d = (d', o, r) ->
    r = Ok tt /\ exists cs',
      d' = d_withc d (d_shuttingdown d || sc_tests_finished cs || d_shouldstop d) cs' /\
      SE0 cs cs' o /\ SJ cs' /\ sc_wq cs' = sc_wq cs /\ sc_assigned cs' = sc_assigned cs /\
      (d_shuttingdown d' = false -> cs' = cs /\ o = []).
  Proof.
    intros [Els J Jb Jp Jg Jc] H. unfold loop_rest in H.
    apply LoadProofs.mbind_inv in H. destruct H as [(e & H1 & ->)|(d1 & o1 & a & o2 & H1 & H2 & ->)].
    - exfalso. unfold mbind at 1, get in H1. rewrite Els in H1. cbn [s_tests_finished] in H1.
      destruct (sc_tests_finished cs).
      + destruct (d_triggershutdown d) as [[dx ox] rx] eqn:Et.
        destruct (trigger_effc _ _ _ _ _ Els J Et) as (-> & _). inv H1.
      + unfold ret in H1. inv H1.
    - unfold mbind at 1, get in H1. rewrite Els in H1. cbn [s_tests_finished] in H1.
      unfold mbind at 1, get in H2.
      destruct (sc_tests_finished cs) eqn:Etf.
      + destruct (d_triggershutdown d) as [[dx ox] rx] eqn:Et.
        destruct (trigger_effc _ _ _ _ _ Els J Et) as (-> & cs1 & -> & T1 & J1 & W1 & A1 & N1). inv H1.
        assert (Z : forall b : bool, (if b then d_triggershutdown else ret tt) (d_withc d true cs1)
                    = (d_withc d true cs1, [], Ok tt)).
        { intros [|]; [|reflexivity]. unfold d_triggershutdown, mbind, get. reflexivity. }
        rewrite Z in H2. inv H2. rewrite app_nil_r, orb_true_r. cbn [orb].
        split; [reflexivity|]. exists cs1. split; [reflexivity|]. split; [exact T1|]. split; [exact J1|].
        split; [exact W1|]. split; [exact A1|]. cbn. discriminate.
      + unfold ret in H1. inv H1. cbn [app]. rewrite orb_false_r.
        destruct (d_shouldstop d1) eqn:Ess.
        * destruct (d_triggershutdown d1) as [[dx ox] rx] eqn:Et.
          destruct (trigger_effc _ _ _ _ _ Els J Et) as (-> & cs1 & -> & T1 & J1 & W1 & A1 & N1). inv H2.
          rewrite orb_true_r. split; [reflexivity|]. exists cs1.
          split; [reflexivity|]. split; [exact T1|]. split; [exact J1|]. split; [exact W1|]. split; [exact A1|].
          cbn. discriminate.
        * unfold ret in H2. inv H2. rewrite orb_false_r. split; [reflexivity|]. exists cs.
          split. { unfold d_withc. destruct d'; cbn in *; subst; reflexivity. }
          split; [apply SE0_refl|]. auto.
  Qed.

  (* ---- the handlers ---- *)
  Record HEFF (ev : cevent) (d : dstate) (cs : scstate) (d1 : dstate) (cs1 : scstate) (o1 : list out) : Prop := {
    he_dj : DJ0 d1 cs1;
    he_nt : forall m, NRo (aget m (sc_nt cs)) (cmds_to m o1) (aget m (sc_nt cs1));
    he_bk : forall m, bookn cs1 m = bookmid ev m (bookn cs m) ++ flat_map cmd_inds (cmds_to m o1);
    he_nodes : forall m, In m (sc_nodes cs1) -> In m (sc_nodes cs) \/ ev_sig ev = Some (m, SgReady);
    he_n2c : forall m, In m (akeys (sc_reg cs1)) -> In m (akeys (sc_reg cs)) \/ ev_sig ev = Some (m, SgCF);
    he_act : forall m, In m (d_active d) -> In m (d_active d1) \/ exists b, ev_sig ev = Some (m, SgFin b);
    he_fin : d_active d1 = [] ->
             d_shuttingdown d1 = true \/ sc_tests_finished cs1 = true \/ d_shouldstop d1 = true;
    he_sd : d_shuttingdown d1 = d_shuttingdown d;
    he_ss : d_shouldstop d = true -> d_shouldstop d1 = true;
    he_stop : forall m, ev_sig ev = Some (m, SgFin true) -> d_shouldstop d1 = true;
  }.

  Definition PRE (ev : cevent) (d : dstate) (cs : scstate) : Prop :=
    match ev with
    | QReady n => n < N /\ (d_shuttingdown d = false -> ~ In n (sc_nodes cs) /\ In n (d_active d))
    | QCollFinish n ids => n < N /\ ~ In n (akeys (sc_reg cs)) /\ ids = coll0
    | QComplete n i _ => exists rest, bookn cs n = i :: rest
    | QFinished n SKNone => In n (d_active d) /\ bookn cs n = [] /\
                            (exists f, aget n (sc_nt cs) = Some f /\ n_sdsent f = true)
    | QFinished n SKStop => In n (d_active d)
    | QFinished _ SKKbd | QUnscheduled _ _ | QInternalError _ | QErrorDown _ => False
    | _ => True
    end.

  Lemma heff_samec ev d cs d1 o1 :
    DJ d cs -> d_active d <> [] -> same_ctl d d1 -> (forall m, cmds_to m o1 = []) ->
    (forall m b, bookmid ev m b = b) -> (forall m b, ev_sig ev <> Some (m, SgFin b)) ->
    HEFF ev d cs d1 cs o1.
  Proof.
    intros ([Els J Jb Jp Jg Jc] & Jss) Hact (S1 & S2 & S3 & S4) Hc Hb Hf. constructor.
    - constructor.
      + rewrite S1. exact Els.
      + exact J.
      + rewrite S2, S3. intros Hsd Hss. apply Jb; [exact Hsd|].
        destruct (d_shouldstop d) eqn:E; [|reflexivity]. rewrite (S4 eq_refl) in Hss. discriminate.
      + rewrite S2. exact Jp.
      + rewrite S2. intros Hsd. destruct (Jg Hsd) as [X|X]; [left; apply S4; exact X|right; exact X].
      + exact Jc.
    - intros m. rewrite Hc. apply NRo_refl.
    - intros m. rewrite Hc, Hb. cbn. rewrite app_nil_r. reflexivity.
    - auto.
    - auto.
    - intros m Hm. left. rewrite S3. exact Hm.
    - rewrite S3. intros F. contradiction.
    - exact S2.
    - exact S4.
    - intros m E. exfalso. exact (Hf _ _ E).
  Qed.

  Lemma sched_op_runc op d cs :
    d_sched d = StC cs ->
    d_sched_op op d = let '(st, o, r) := s_step (StC cs) op in (d_set_sched d st, o, r).
  Proof. intros Els. unfold d_sched_op. rewrite Els. reflexivity. Qed.

  Lemma NRo_sdsent a cmds b f' :
    NRo a cmds b -> b = Some f' -> n_sdsent f' = true ->
    (exists f, a = Some f /\ n_sdsent f = true) \/ In CShutdown cmds.
  Proof.
    intros R Eb Hs. destruct (NRo_open _ _ _ _ R Eb) as (f & Ef & R').
    destruct (NR_fields _ _ _ R') as (_ & _ & _ & D & _). apply D in Hs. destruct Hs as [Hs|Hs]; [left; eauto|right; exact Hs].
  Qed.

  (* ---- workerready ---- *)
  Lemma handle_readyc n d cs d1 o1 r :
    DJ d cs -> d_active d <> [] -> PRE (QReady n) d cs ->
    d_handle (QReady n) d = (d1, o1, r) -> r = Ok tt /\ exists cs1, HEFF (QReady n) d cs d1 cs1 o1.
  Proof.
    intros (J0 & Jss) Hact (HnN & Hpre) H. pose proof J0 as [Els J Jb Jp Jg Jc].
    cbn [d_handle] in H. unfold hook in H. rewrite mbind_emit, mbind_get in H.
    destruct (d_shuttingdown d) eqn:Esd.
    - rewrite (d_node_shutdown_liftc n d cs Els) in H.
      destruct (node_shutdown sc_nt sc_set_nt n cs) as [[cs1 o2] r2] eqn:En. cbn [liftC] in H. inv H.
      assert (Hk : aget n (sc_nt cs) <> None) by (apply (sj_ntk _ _ _ _ J); exact HnN).
      destruct (sc_shutdown_eff kind coll0 N _ _ _ _ _ J Hk En) as (-> & T & J' & W & A).
      split; [reflexivity|]. exists cs1.
      assert (C : forall m, cmds_to m (OHook (HNodeReady n) :: o2) = cmds_to m o2) by reflexivity.
      constructor.
      + constructor; dprojc.
        * reflexivity.
        * exact J'.
        * rewrite Esd. discriminate.
        * rewrite Esd. discriminate.
        * intros _. rewrite (se_coll _ _ _ _ T), W. exact (Jg eq_refl).
        * unfold sc_collection_is_completed. rewrite (se_coll _ _ _ _ T), (se_reg _ _ _ _ T).
          replace (sc_numnodes cs1) with (sc_numnodes cs) by (rewrite (sj_num _ _ _ _ J), (sj_num _ _ _ _ J'); reflexivity).
          exact Jc.
      + intros m. rewrite C. apply (se_nt _ _ _ _ T).
      + intros m. rewrite C. cbn [bookmid]. apply (se_bk _ _ _ _ T).
      + intros m Hm. left. rewrite <- (se_nodes _ _ _ _ T). exact Hm.
      + intros m Hm. left. rewrite <- (se_reg _ _ _ _ T). exact Hm.
      + intros m Hm. left. exact Hm.
      + cbn. intros F. contradiction.
      + reflexivity.
      + cbn. auto.
      + intros m E. discriminate.
    - destruct (Hpre eq_refl) as (Hnew & Hina).
      unfold mbind at 1 in H. rewrite (sched_op_runc _ d cs Els) in H. cbn [s_step] in H.
      destruct (sc_add_node n cs) as [[cs1 o2] r2] eqn:Ea.
      destruct (add_node_eff kind coll0 N _ _ _ _ _ J HnN Hnew Ea) as (-> & -> & J' & Ent & Ek & Er & Ec & Ew & Eb).
      cbn [lift] in H. unfold no_str, ret in H. inv H.
      split; [reflexivity|]. exists cs1. constructor.
      + constructor; dprojc.
        * reflexivity.
        * exact J'.
        * intros _ Hss m Hm. rewrite Ek in Hm. apply in_app_or in Hm.
          destruct Hm as [Hm|[<-|[]]]; [apply (Jb eq_refl Hss); exact Hm|exact Hina].
        * intros _. rewrite Ent, Ec, Ew. exact (Jp eq_refl).
        * rewrite Esd. discriminate.
        * unfold sc_collection_is_completed. rewrite Ec, Er.
          replace (sc_numnodes cs1) with (sc_numnodes cs) by (rewrite (sj_num _ _ _ _ J), (sj_num _ _ _ _ J'); reflexivity).
          exact Jc.
      + intros m. rewrite Ent. apply NRo_refl.
      + intros m. cbn. rewrite app_nil_r. apply Eb.
      + intros m Hm. rewrite Ek in Hm. apply in_app_or in Hm. destruct Hm as [Hm|[<-|[]]]; [left; exact Hm|right; reflexivity].
      + intros m Hm. left. rewrite <- Er. exact Hm.
      + intros m Hm. left. exact Hm.
      + cbn. intros F. contradiction.
      + reflexivity.
      + cbn. auto.
      + intros m E. discriminate.
  Qed.
  Lemma completed_same cs cs' :
    SJ cs -> SJ cs' -> sc_reg cs' = sc_reg cs ->
    sc_collection_is_completed cs' = sc_collection_is_completed cs.
  Proof.
    intros J J' E. unfold sc_collection_is_completed. rewrite E, (sj_num _ _ _ _ J), (sj_num _ _ _ _ J'). reflexivity.
  Qed.

  (* ---- runtest_protocol_complete ---- *)
  Lemma handle_completec n i ms d cs d1 o1 r :
    DJ d cs -> d_active d <> [] -> PRE (QComplete n i ms) d cs ->
    d_handle (QComplete n i ms) d = (d1, o1, r) ->
    r = Ok tt /\ exists cs1, HEFF (QComplete n i ms) d cs d1 cs1 o1.
  Proof.
    intros (J0 & Jss) Hact (rest & Hb) H. pose proof J0 as [Els J Jb Jp Jg Jc].
    cbn [d_handle] in H. unfold mbind at 1 in H. rewrite (sched_op_runc _ d cs Els) in H. cbn [s_step] in H.
    destruct (sc_mark_test_complete n i cs) as [[cs1 o2] r2] eqn:Em. cbn [lift] in H.
    destruct (complete_eff kind coll0 N _ _ _ _ _ _ _ J Hb Em)
      as (-> & cs0 & (T & J' & SDP) & Ent & Ek & Er & Ec & Ew & Eb).
    unfold no_str, ret in H. inv H. rewrite app_nil_r.
    destruct (se_wq _ _ _ _ T) as (moved & Emv). rewrite Ew in Emv.
    assert (Hcoll : sc_coll cs <> None).
    { intros E. rewrite (bookn_coll_none kind coll0 N cs n J E) in Hb. discriminate. }
    assert (Ereg : sc_reg cs1 = sc_reg cs) by (rewrite (se_reg _ _ _ _ T); exact Er).
    assert (Ecoll : sc_coll cs1 = sc_coll cs) by (rewrite (se_coll _ _ _ _ T); exact Ec).
    split; [reflexivity|]. exists cs1. constructor.
    - constructor; dprojc.
      + reflexivity.
      + exact J'.
      + rewrite (se_nodes _ _ _ _ T), Ek. exact Jb.
      + intros Hsd m f' Ef' Hs. rewrite Ecoll. split; [exact Hcoll|].
        pose proof (se_nt _ _ _ _ T m) as R. rewrite Ent in R.
        destruct (NRo_sdsent _ _ _ _ R Ef' Hs) as [(f & Ef & Hs0)|Hs0].
        * destruct (Jp Hsd m f Ef Hs0) as (_ & P). rewrite P in Emv. symmetry in Emv. apply app_eq_nil in Emv. tauto.
        * apply SDP. exists m. exact Hs0.
      + intros Hsd. destruct (Jg Hsd) as [X|(C & P)]; [left; exact X|right]. rewrite Ecoll. split; [exact C|].
        rewrite P in Emv. symmetry in Emv. apply app_eq_nil in Emv. tauto.
      + rewrite (completed_same cs cs1 J J' Ereg), Ecoll. exact Jc.
    - intros m. pose proof (se_nt _ _ _ _ T m) as R. rewrite Ent in R. exact R.
    - intros m. rewrite (se_bk _ _ _ _ T m), Eb. f_equal. cbn [bookmid].
      destruct (Nat.eqb m n) eqn:E; [|reflexivity].
      apply Nat.eqb_eq in E. subst m. rewrite Hb. reflexivity.
    - intros m Hm. left. rewrite (se_nodes _ _ _ _ T), Ek in Hm. exact Hm.
    - intros m Hm. left. rewrite Ereg in Hm. exact Hm.
    - intros m Hm. left. exact Hm.
    - dprojc. intros F. contradiction.
    - reflexivity.
    - dprojc. auto.
    - intros m E. discriminate.
  Qed.

  Lemma akeys_adel_neq {V} n (m : amap V) k : NoDup (akeys m) -> In k (akeys (adel n m)) -> In k (akeys m) /\ k <> n.
  Proof.
    intros ND Hk. split; [eapply akeys_adel_incl; eauto|]. intros ->.
    apply aget_In_keys in Hk. apply Hk. apply aget_adel_same. exact ND.
  Qed.

  (* ---- workerfinished ---- *)
  Lemma handle_finishedc n sk d cs d1 o1 r :
    DJ d cs -> d_active d <> [] -> PRE (QFinished n sk) d cs ->
    d_handle (QFinished n sk) d = (d1, o1, r) ->
    r = Ok tt /\ exists cs1, HEFF (QFinished n sk) d cs d1 cs1 o1.
  Proof.
    intros (J0 & Jss) Hact Hpre H. pose proof J0 as [Els J Jb Jp Jg Jc].
    cbn [d_handle] in H. unfold d_worker_workerfinished, hook in H. rewrite mbind_emit in H.
    destruct sk; cbn [PRE] in Hpre; [| |contradiction].
    - (* no stop request: the node leaves the scheduler with an empty book *)
      destruct Hpre as (Hina & Hbook & (f & Ef & Hsd)).
      rewrite mbind_get in H. rewrite Els in H. cbn [s_nodes] in H.
      assert (STEP : exists cs1,
        ((if mem_nat n (sc_nodes cs)
          then r0 <- d_sched_op (SRemove n);; massert match r0 with Some s0 => (s0 =? "")%string | None => true end
          else ret tt) d) = (d_set_sched d (StC cs1), [], Ok tt) /\
        SJ cs1 /\ sc_nt cs1 = sc_nt cs /\ sc_coll cs1 = sc_coll cs /\ sc_wq cs1 = sc_wq cs /\
        (forall m, bookn cs1 m = bookn cs m) /\
        (forall m, In m (sc_nodes cs1) -> In m (sc_nodes cs) /\ m <> n) /\
        (forall m, In m (akeys (sc_reg cs1)) -> In m (akeys (sc_reg cs))) /\
        (sc_collection_is_completed cs = true -> sc_reg cs1 = sc_reg cs) /\
        (sc_collection_is_completed cs1 = true -> sc_collection_is_completed cs = true)).
      { destruct (mem_nat n (sc_nodes cs)) eqn:Em.
        - apply mem_nat_In in Em.
          destruct (sc_remove_node n cs) as [[cs1 o2] r2] eqn:Er.
          destruct (remove_idle_eff kind coll0 N _ _ _ _ _ J Em Hbook Er) as (-> & -> & J' & Ent & Ea & Ec & Ew & Ek & Ecomp).
          exists cs1. split.
          { unfold mbind. rewrite (sched_op_runc _ d cs Els). cbn [s_step]. rewrite Er. cbn [lift]. reflexivity. }
          split; [exact J'|]. split; [exact Ent|]. split; [exact Ec|]. split; [exact Ew|].
          split.
          { intros m. unfold ScopeCoupling.bookn. rewrite Ea. destruct (Nat.eq_dec m n) as [->|Hm].
            - rewrite (aget_adel_same n _ (sj_wf _ _ _ _ J)). symmetry. exact Hbook.
            - rewrite aget_adel_other by exact Hm. reflexivity. }
          split.
          { intros m Hm. unfold sc_nodes in *. rewrite Ea in Hm. apply akeys_adel_neq; [apply J|exact Hm]. }
          split; [exact Ek|]. split; [exact Ecomp|].
          intros C1. destruct (sc_collection_is_completed cs) eqn:C0; [reflexivity|]. exfalso.
          unfold sc_collection_is_completed in C0, C1.
          rewrite (sj_num _ _ _ _ J) in C0. rewrite (sj_num _ _ _ _ J') in C1.
          apply Nat.leb_le in C1. apply Nat.leb_gt in C0.
          assert (Hl : length (sc_reg cs1) <= length (sc_reg cs)).
          { rewrite <- !akeys_length. apply NoDup_incl_length; [apply J'|exact Ek]. }
          lia.
        - pose proof (proj1 (mem_nat_false _ _) Em) as Em'. exists cs.
          split; [rewrite d_set_sched_same by exact Els; reflexivity|].
          split; [exact J|]. repeat split; auto. intros ->. contradiction. }
      destruct STEP as (cs1 & Erun & J' & Fn & Fc & Fq & Fbk & Fnodes & Fn2c & Fcomp & Fcback).
      unfold mbind at 1 in H. rewrite Erun in H.
      rewrite (active_remove_run n (d_set_sched d (StC cs1)) Hina) in H. inv H.
      split; [reflexivity|]. exists cs1.
      assert (HB : d_shuttingdown d = false -> d_shouldstop d = false ->
                   incl (sc_nodes cs1) (filter (fun m => negb (Nat.eqb m n)) (d_active d))).
      { intros Hs1 Hs2 m Hm. destruct (Fnodes m Hm) as (Hm1 & Hm2). apply in_filter_neq. split; [|exact Hm2].
        apply (Jb Hs1 Hs2). exact Hm1. }
      constructor.
      + constructor; dprojc.
        * reflexivity.
        * exact J'.
        * exact HB.
        * rewrite Fn, Fc, Fq. exact Jp.
        * rewrite Fc, Fq. exact Jg.
        * intros C1. rewrite Fc. apply Jc. apply Fcback. exact C1.
      + intros m. rewrite Fn. apply NRo_refl.
      + intros m. cbn. rewrite app_nil_r. apply Fbk.
      + intros m Hm. left. apply Fnodes. exact Hm.
      + intros m Hm. left. apply Fn2c. exact Hm.
      + intros m Hm. dprojc. destruct (Nat.eq_dec m n) as [->|Hn]; [right; eexists; reflexivity|].
        left. apply in_filter_neq. split; assumption.
      + dprojc. intros Hempty. destruct (d_shuttingdown d) eqn:Esd; [left; reflexivity|].
        destruct (d_shouldstop d) eqn:Ess; [right; right; reflexivity|]. right. left.
        destruct (Jp eq_refl n f Ef Hsd) as (C & P).
        specialize (HB eq_refl eq_refl). rewrite Hempty in HB.
        assert (En : sc_assigned cs1 = []).
        { destruct (sc_assigned cs1) as [|[k v] rest] eqn:E; [reflexivity|]. exfalso.
          apply (HB k). unfold sc_nodes. rewrite E. left. reflexivity. }
        assert (C0 : sc_collection_is_completed cs = true).
        { destruct (sc_coll cs) as [cl|] eqn:Ecl; [|contradiction]. apply (sj_coll _ _ _ _ J cl Ecl). }
        unfold sc_tests_finished. rewrite (completed_same cs cs1 J J' (Fcomp C0)), C0, Fq, P, En. reflexivity.
      + reflexivity.
      + dprojc. auto.
      + intros m E. discriminate.
    - (* stop request *)
      assert (STEP : exists d2, (d0 <- get;; (if d_shouldstop d0 then ret tt else put (d_set_shouldstop d0 true))) d = (d2, [], Ok tt) /\
                d_sched d2 = d_sched d /\ d_shuttingdown d2 = d_shuttingdown d /\ d_active d2 = d_active d /\ d_shouldstop d2 = true).
      { rewrite mbind_get. destruct (d_shouldstop d) eqn:Ess.
        - exists d. auto.
        - eexists. split; [reflexivity|]. auto. }
      destruct STEP as (d2 & Erun & S1 & S2 & S3 & S4).
      unfold mbind at 1 in H. rewrite Erun in H.
      assert (Hina : In n (d_active d2)) by (rewrite S3; exact Hpre).
      rewrite (active_remove_run n d2 Hina) in H. inv H.
      split; [reflexivity|]. exists cs. constructor.
      + constructor; dprojc.
        * rewrite S1. exact Els.
        * exact J.
        * rewrite S4. discriminate.
        * rewrite S2. exact Jp.
        * intros _. left. exact S4.
        * exact Jc.
      + intros m. apply NRo_refl.
      + intros m. cbn. rewrite app_nil_r. reflexivity.
      + auto.
      + auto.
      + intros m Hm. dprojc. destruct (Nat.eq_dec m n) as [->|Hn]; [right; eexists; reflexivity|].
        left. apply in_filter_neq. rewrite S3. split; assumption.
      + dprojc. intros _. right. right. exact S4.
      + dprojc. exact S2.
      + dprojc. intros _. exact S4.
      + intros m _. dprojc. exact S4.
  Qed.

  (* ---- collectionfinish ---- *)
  Lemma handle_collfinishc n ids d cs d1 o1 r :
    DJ d cs -> d_active d <> [] -> PRE (QCollFinish n ids) d cs ->
    d_handle (QCollFinish n ids) d = (d1, o1, r) ->
    r = Ok tt /\ exists cs1, HEFF (QCollFinish n ids) d cs d1 cs1 o1.
  Proof.
    intros DJd Hact (HnN & Hnew & Hids) H. subst ids. pose proof DJd as (J0 & Jss). pose proof J0 as [Els J Jb Jp Jg Jc].
    assert (SAME : forall x, (d, @nil out, x) = (d1, o1, r) -> x = Ok tt ->
                   r = Ok tt /\ exists cs1, HEFF (QCollFinish n coll0) d cs d1 cs1 o1).
    { intros x E Ex. inv E. split; [reflexivity|]. exists cs. apply heff_samec; auto.
      - unfold same_ctl. auto.
      - intros m b E. discriminate. }
    cbn [d_handle] in H. rewrite mbind_get in H.
    destruct (d_shuttingdown d) eqn:Esd; [eapply SAME; [exact H|reflexivity]|].
    rewrite Els in H. cbn [s_nodes] in H.
    destruct (mem_nat n (sc_nodes cs)) eqn:Em; cbn [negb] in H; [|eapply SAME; [exact H|reflexivity]].
    clear SAME. apply mem_nat_In in Em.
    unfold hook in H. rewrite mbind_emit in H. unfold mbind at 1 in H.
    rewrite (sched_op_runc _ d cs Els) in H. cbn [s_step] in H.
    destruct (sc_add_node_collection n coll0 cs) as [[csa oa] ra] eqn:Ea.
    destruct (add_coll_eff kind coll0 N _ _ _ _ _ J Em Hnew Ea) as (-> & -> & Ja & Ecsa & Ecoll).
    cbn [lift] in H. rewrite mbind_get in H. cbn [d_sched d_set_sched s_collection_is_completed app] in H.
    assert (NOSD : forall m f, aget m (sc_nt cs) = Some f -> n_sdsent f = false).
    { intros m f Ef. destruct (n_sdsent f) eqn:E; [|reflexivity].
      destruct (Jp eq_refl m f Ef E) as (C & _). congruence. }
    assert (N2C : forall m, In m (akeys (sc_reg csa)) -> In m (akeys (sc_reg cs)) \/ ev_sig (QCollFinish n coll0) = Some (m, SgCF)).
    { intros m Hm. rewrite Ecsa in Hm. cbn [sc_reg sc_set_reg] in Hm. rewrite akeys_app in Hm. apply in_app_or in Hm.
      destruct Hm as [Hm|[<-|[]]]; [left; exact Hm|right; reflexivity]. }
    assert (Fa : sc_nt csa = sc_nt cs /\ sc_assigned csa = sc_assigned cs /\ sc_coll csa = sc_coll cs /\ sc_wq csa = sc_wq cs)
      by (rewrite Ecsa; auto).
    destruct Fa as (Fnt & Fas & Fco & Fwq).
    assert (Fbk : forall m, bookn csa m = bookn cs m) by (intros m; unfold ScopeCoupling.bookn; rewrite Fas; reflexivity).
    clear Ecsa.
    destruct (sc_collection_is_completed csa) eqn:Eca.
    - (* the last collection: schedule() *)
      unfold mbind at 1 in H. rewrite (sched_op_runc _ (d_set_sched d (StC csa)) csa eq_refl) in H. cbn [s_step] in H.
      destruct (sc_schedule csa) as [[cs1 o2] r2] eqn:Es. cbn [lift] in H.
      assert (Hsd : sc_coll csa = None -> forall m f, aget m (sc_nt csa) = Some f -> n_sdsent f = false).
      { intros _ m f Ef. rewrite Fnt in Ef. eapply NOSD; eauto. }
      destruct (schedule_eff kind coll0 Hne N _ _ _ _ Ja Hpos Eca Hsd Es) as (-> & J1 & Hc1 & Tnt & Tbk & Tk & Treg & Tsdp & _).
      unfold no_str, ret in H. inv H. rewrite app_nil_r.
      assert (C : forall m, cmds_to m (OHook (HCollFinished n) :: o2) = cmds_to m o2) by reflexivity.
      split; [reflexivity|]. exists cs1. constructor.
      + constructor; dprojc.
        * reflexivity.
        * exact J1.
        * intros _ Hss m Hm. apply (Jb eq_refl Hss). apply Tk in Hm. unfold sc_nodes in *. rewrite Fas in Hm. exact Hm.
        * intros _ m f' Ef' Hs. split; [exact Hc1|].
          pose proof (Tnt m) as R. rewrite Fnt in R.
          destruct (NRo_sdsent _ _ _ _ R Ef' Hs) as [(f & Ef & Hs0)|Hs0].
          -- rewrite (NOSD m f Ef) in Hs0. discriminate.
          -- apply Tsdp. exists m. exact Hs0.
        * rewrite Esd. discriminate.
        * intros _. exact Hc1.
      + intros m. rewrite C. pose proof (Tnt m) as R. rewrite Fnt in R. exact R.
      + intros m. rewrite C. cbn [bookmid]. rewrite Tbk, Fbk. reflexivity.
      + intros m Hm. left. apply Tk in Hm. unfold sc_nodes in *. rewrite Fas in Hm. exact Hm.
      + intros m Hm. rewrite Treg in Hm. apply N2C. exact Hm.
      + intros m Hm. left. exact Hm.
      + dprojc. intros F. contradiction.
      + reflexivity.
      + dprojc. auto.
      + intros m E. discriminate.
    - (* not the last one *)
      unfold ret in H. inv H.
      split; [reflexivity|]. exists csa. constructor.
      + constructor; dprojc.
        * reflexivity.
        * exact Ja.
        * intros _ Hss. unfold sc_nodes. rewrite Fas. exact (Jb eq_refl Hss).
        * intros _ m f Ef Hs. rewrite Fnt in Ef. rewrite (NOSD m f Ef) in Hs. discriminate.
        * rewrite Esd. discriminate.
        * rewrite Eca. discriminate.
      + intros m. rewrite Fnt. apply NRo_refl.
      + intros m. cbn. rewrite app_nil_r. apply Fbk.
      + intros m Hm. left. unfold sc_nodes in *. rewrite Fas in Hm. exact Hm.
      + exact N2C.
      + intros m Hm. left. exact Hm.
      + dprojc. intros F. contradiction.
      + reflexivity.
      + dprojc. auto.
      + intros m E. discriminate.
  Qed.

  Theorem handle_effc ev d cs d1 o1 r :
    DJ d cs -> d_active d <> [] -> PRE ev d cs ->
    d_handle ev d = (d1, o1, r) -> r = Ok tt /\ exists cs1, HEFF ev d cs d1 cs1 o1.
  Proof.
    intros DJd Hact Hpre H.
    assert (QUIET : match ev with
                    | QLogStart _ _ | QLogFinish _ _ | QWarning | QReport _ _ _ _ | QCollectReport _ _ _ => True
                    | _ => False end -> r = Ok tt /\ exists cs1, HEFF ev d cs d1 cs1 o1).
    { intros Hq. destruct (handle_quiet ev d d1 o1 r Hq H) as (-> & S & C). split; [reflexivity|]. exists cs.
      apply heff_samec; auto; destruct ev; try contradiction; try reflexivity; intros m b E; discriminate. }
    destruct ev; try (apply QUIET; exact Logic.I); try (cbn in Hpre; contradiction).
    - eapply handle_readyc; eauto.
    - eapply handle_collfinishc; eauto.
    - eapply handle_completec; eauto.
    - eapply handle_finishedc; eauto.
  Qed.

  Record LEFF (ev : cevent) (d : dstate) (cs : scstate) (d' : dstate) (cs' : scstate) (o : list out) : Prop := {
    le_dj : DJ d' cs';
    le_nt : forall m, NRo (aget m (sc_nt cs)) (cmds_to m o) (aget m (sc_nt cs'));
    le_bk : forall m, bookn cs' m = bookmid ev m (bookn cs m) ++ flat_map cmd_inds (cmds_to m o);
    le_nodes : forall m, In m (sc_nodes cs') -> In m (sc_nodes cs) \/ ev_sig ev = Some (m, SgReady);
    le_n2c : forall m, In m (akeys (sc_reg cs')) -> In m (akeys (sc_reg cs)) \/ ev_sig ev = Some (m, SgCF);
    le_act : forall m, In m (d_active d) -> In m (d_active d') \/ exists b, ev_sig ev = Some (m, SgFin b);
    le_fin : d_active d' = [] -> d_shuttingdown d' = true;
    le_ss : d_shouldstop d = true -> d_shouldstop d' = true;
    le_stop : forall m, ev_sig ev = Some (m, SgFin true) -> d_shouldstop d' = true;
    le_sd : d_shuttingdown d = true -> d_shuttingdown d' = true;
  }.

  (* one iteration of the controller loop never raises, and its effect *)
  Theorem loop_once_okc ev d cs d' o r :
    DJ d cs -> d_active d <> [] -> PRE ev d cs ->
    d_loop_once ev d = (d', o, r) -> r = Ok tt /\ exists cs', LEFF ev d cs d' cs' o.
  Proof.
    intros DJd Hact Hpre H. rewrite loop_once_unfold in H.
    apply LoadProofs.mbind_inv in H. destruct H as [(e & H1 & ->)|(d1 & o1 & a & o2 & H1 & H2 & ->)].
    { destruct (handle_effc _ _ _ _ _ _ DJd Hact Hpre H1) as (F & _). discriminate. }
    destruct (handle_effc _ _ _ _ _ _ DJd Hact Hpre H1) as (_ & cs1 & E1).
    pose proof (he_dj _ _ _ _ _ _ E1) as J1.
    destruct (loop_rest_effc _ _ _ _ _ J1 H2) as (-> & cs2 & -> & T & J2 & P & B & Same).
    split; [reflexivity|]. exists cs2.
    assert (SD : d_shuttingdown d1 || sc_tests_finished cs1 || d_shouldstop d1 = false ->
                 d_shuttingdown d1 = false /\ d_shouldstop d1 = false /\ cs2 = cs1 /\ o2 = []).
    { intros E. destruct (Same E) as (-> & ->). apply orb_false_iff in E. destruct E as (E & E3).
      apply orb_false_iff in E. destruct E as (E1' & E2). auto. }
    assert (Ereg : sc_reg cs2 = sc_reg cs1) by apply (se_reg _ _ _ _ T).
    assert (Ecoll : sc_coll cs2 = sc_coll cs1) by apply (se_coll _ _ _ _ T).
    constructor.
    - split.
      + constructor; unfold d_withc; dprojc.
        * reflexivity.
        * exact J2.
        * intros Hsd Hss. destruct (SD Hsd) as (A & B' & -> & _). apply (dj_b _ _ J1 A B').
        * intros Hsd. destruct (SD Hsd) as (A & _ & -> & _). apply (dj_p _ _ J1 A).
        * intros Hsd. destruct (d_shouldstop d1) eqn:Ess; [left; reflexivity|right].
          rewrite Ecoll, P.
          destruct (d_shuttingdown d1) eqn:Esd1.
          -- destruct (dj_g4 _ _ J1 Esd1) as [F|X]; [congruence|exact X].
          -- rewrite orb_false_r in Hsd. cbn [orb] in Hsd. unfold sc_tests_finished in Hsd.
             apply andb_true_iff in Hsd. destruct Hsd as (Hsd & _). apply andb_true_iff in Hsd. destruct Hsd as (C & P0).
             split; [apply (dj_cc _ _ J1); exact C|]. destruct (sc_wq cs1); [reflexivity|discriminate].
        * rewrite (completed_same cs1 cs2 (dj_sj _ _ J1) J2 Ereg), Ecoll. apply (dj_cc _ _ J1).
      + unfold d_withc. dprojc. intros Hss. rewrite Hss. apply orb_true_r.
    - intros m. rewrite cmds_to_app. eapply NRo_trans; [apply (he_nt _ _ _ _ _ _ E1)|apply (se_nt _ _ _ _ T)].
    - intros m. rewrite cmds_to_app, flat_map_app, (se_bk _ _ _ _ T m), (he_bk _ _ _ _ _ _ E1 m), <- app_assoc. reflexivity.
    - intros m Hm. apply (he_nodes _ _ _ _ _ _ E1). rewrite (se_nodes _ _ _ _ T) in Hm. exact Hm.
    - intros m Hm. apply (he_n2c _ _ _ _ _ _ E1). rewrite Ereg in Hm. exact Hm.
    - intros m Hm. exact (he_act _ _ _ _ _ _ E1 m Hm).
    - unfold d_withc. dprojc. intros Hempty.
      destruct (he_fin _ _ _ _ _ _ E1 Hempty) as [X|[X|X]]; rewrite X; rewrite ?orb_true_r, ?orb_true_l; reflexivity.
    - unfold d_withc. dprojc. apply (he_ss _ _ _ _ _ _ E1).
    - unfold d_withc. dprojc. apply (he_stop _ _ _ _ _ _ E1).
    - unfold d_withc. dprojc. intros Hsd. rewrite (he_sd _ _ _ _ _ _ E1), Hsd. reflexivity.
  Qed.
End CtlC.

(* ====================================================================================== *)
(* D. the system invariant                                                                 *)
(* ====================================================================================== *)
(* the scope scheduler's state seen as books: node table, registered collections, and for
   every node the not-completed tests of its assigned work (Coupling.NI is stated over this) *)
Definition proj (coll0 : list string) (cs : scstate) : lstate :=
  {| l_nt := sc_nt cs; l_numnodes := sc_numnodes cs; l_n2c := sc_reg cs;
     l_n2p := map (fun p => (fst p, bookw coll0 (snd p))) (sc_assigned cs);
     l_pending := []; l_coll := sc_coll cs; l_chunk := None |}.

Lemma proj_bk coll0 cs n : bk (proj coll0 cs) n = bookn coll0 cs n.
Proof.
  unfold bk, alist_get, proj, bookn. cbn [l_n2p]. rewrite aget_map_snd.
  destruct (aget n (sc_assigned cs)); reflexivity.
Qed.

Lemma proj_nodes coll0 cs : l_nodes (proj coll0 cs) = sc_nodes cs.
Proof. unfold l_nodes, proj, sc_nodes. cbn [l_n2p]. apply akeys_map_snd. Qed.

(* one iteration of the controller loop, seen from node n *)
Lemma NI_ctlc kind coll0 N ev d cs d' cs' o n L' dn w :
  LEFF kind coll0 N ev d cs d' cs' o ->
  NI (proj coll0 cs) (d_active d) (d_shouldstop d) n (ev_sigs_for n ev ++ L') dn w ->
  NI (proj coll0 cs') (d_active d') (d_shouldstop d') n L' (dn ++ cmds_to n o) w.
Proof.
  intros E [(f & Ef & Mk) Cp Ch Nd Nc Ac Fm Wx Fx].
  assert (Hsub : forall g, In g L' -> In g (ev_sigs_for n ev ++ L')) by (intros g Hg; apply in_or_app; right; exact Hg).
  assert (Ch' : chan_ok (prank (wph w)) L').
  { unfold ev_sigs_for in Ch. destruct (ev_sig ev) as [[m g]|]; [|exact Ch].
    destruct (Nat.eqb m n); [|exact Ch]. eapply chan_ok_tail. exact Ch. }
  rewrite proj_nodes in Nd. cbn [proj l_nt l_n2c] in Ef, Nc. rewrite proj_bk in Cp.
  constructor; rewrite ?proj_nodes; cbn [proj l_nt l_n2c].
  - pose proof (le_nt _ _ _ _ _ _ _ _ _ E n) as R. rewrite Ef in R.
    destruct (aget n (sc_nt cs')) as [f'|] eqn:Ef'; [|destruct R]. cbn in R.
    exists f'. split; [reflexivity|]. rewrite flat_map_app, app_assoc. eapply NR_mark_ok; eauto.
  - rewrite proj_bk. rewrite (le_bk _ _ _ _ _ _ _ _ _ E n), flat_map_app.
    rewrite Cp, bookmid_sigs, <- !app_assoc. reflexivity.
  - exact Ch'.
  - intros Hin. destruct (le_nodes _ _ _ _ _ _ _ _ _ E n Hin) as [Hold|Hev].
    + destruct (Nd Hold) as (A & B). split; [|exact B]. intros Hi. apply A. apply Hsub. exact Hi.
    + unfold ev_sigs_for in Ch. rewrite Hev, Nat.eqb_refl in Ch. cbn [app] in Ch.
      destruct (chan_ok_ready_head _ _ Ch) as (A & B). split; [exact A|].
      intros Ep. rewrite Ep in B. cbn in B. lia.
  - intros Hin. destruct (le_n2c _ _ _ _ _ _ _ _ _ E n Hin) as [Hold|Hev].
    + destruct (Nc Hold) as (A & B). split; [|exact B]. intros Hi. apply A. apply Hsub. exact Hi.
    + unfold ev_sigs_for in Ch. rewrite Hev, Nat.eqb_refl in Ch. cbn [app] in Ch.
      exact (chan_ok_cf_head _ _ Ch).
  - intros Hn. destruct (in_dec Nat.eq_dec n (d_active d)) as [Hin|Hni].
    + destruct (le_act _ _ _ _ _ _ _ _ _ E n Hin) as [X|(b & Hev)]; [contradiction|].
      unfold ev_sigs_for in Ch. rewrite Hev, Nat.eqb_refl in Ch. cbn [app] in Ch.
      destruct (chan_ok_fin_head _ _ _ Ch) as (A & B). split; [exact A|apply prank_4; exact B].
    + destruct (Ac Hni) as (A & B). split; [|exact B]. apply app_eq_nil in A. tauto.
  - intros [Hi|Hp]; apply Fm; [left; apply Hsub; exact Hi|right; exact Hp].
  - exact Wx.
  - intros Hfin. destruct (Fx Hfin) as [X|[X|[X|X]]].
    + left. exact X.
    + right. left. exact X.
    + apply in_app_or in X. destruct X as [X|X].
      * right. right. right. unfold ev_sigs_for in X. destruct (ev_sig ev) as [[m g]|] eqn:Eg; [|destruct X].
        destruct (Nat.eqb m n) eqn:Emn; [|destruct X]. destruct X as [->|[]].
        apply (le_stop _ _ _ _ _ _ _ _ _ E m). exact Eg.
      * right. right. left. exact X.
    + right. right. right. apply (le_ss _ _ _ _ _ _ _ _ _ E). exact X.
Qed.

(* what the controller sends ends up, block by block, in the streams of the nodes *)
Lemma sent_blocks_perm keys outs :
  NoDup keys -> (forall k, ~ In k keys -> cmds_to k outs = []) ->
  Permutation (flat_map (fun n => concat (blocks_to n outs)) keys) (concat (cruns outs)).
Proof.
  intros ND. induction outs as [|x outs IH]; intros Hk.
  - cbn. rewrite flat_map_nil_in; [reflexivity|]. intros k _. reflexivity.
  - assert (Hk' : forall k, ~ In k keys -> cmds_to k outs = []).
    { intros k Hn. specialize (Hk k Hn). cbn [cmds_to flat_map] in Hk. apply app_eq_nil in Hk. tauto. }
    specialize (IH Hk').
    assert (E : forall k, concat (blocks_to k (x :: outs)) = concat (block_to k x) ++ concat (blocks_to k outs)).
    { intros k. unfold blocks_to. cbn [flat_map]. apply concat_app. }
    rewrite (flat_map_ext _ _ E).
    rewrite flat_map_app_perm. unfold cruns. cbn [flat_map]. fold (cruns outs). rewrite concat_app.
    apply Permutation_app; [|exact IH].
    destruct x as [h|m cm| |]; try (rewrite flat_map_nil_in; [reflexivity|]; intros k _; reflexivity).
    destruct cm as [ixs| | | |]; try (rewrite flat_map_nil_in; [reflexivity|]; intros k _; reflexivity).
    destruct (in_dec Nat.eq_dec m keys) as [Hin|Hni].
    + assert (E2 : forall k, concat (block_to k (OSend m (CRun ixs))) = if Nat.eqb m k then ixs else []).
      { intros k. cbn [block_to]. destruct (Nat.eqb m k); cbn; [apply app_nil_r|reflexivity]. }
      rewrite (flat_map_ext _ _ E2). cbn [concat]. rewrite app_nil_r.
      apply (Coupling.flat_map_single m ixs keys ND Hin).
    + exfalso. specialize (Hk m Hni). cbn [cmds_to flat_map cmd_to] in Hk. rewrite Nat.eqb_refl in Hk. discriminate.
Qed.

Lemma stream_ext s s' k :
  aget k (y_w s') = aget k (y_w s) -> alist_get [] k (y_down s') = alist_get [] k (y_down s) ->
  stream s' k = stream s k.
Proof. intros E1 E2. unfold stream. rewrite E1, E2. reflexivity. Qed.

Section SysC.
Variable c : config.
Variable kind : scope_kind.
Notation N := (c_numnodes c).
Notation coll0 := (c_coll c 0).
Hypothesis Hnc : forall n i, c_crash_in c n i = false.
Hypothesis Hng : no_garbled c.
Hypothesis Hne : ~ In ""%string coll0.
Hypothesis Hsame : forall n, c_coll c n = coll0.
Hypothesis Hpos : 0 < N.

Notation SJc := (SJ kind coll0 N).
Notation DJc := (DJ kind coll0 N).
Notation LEFFc := (LEFF kind coll0 N).
Notation ixs_of := (ixs_of coll0).
Notation vpool := (vpool kind coll0).
Notation blocks := (blocks kind coll0).

Definition NInvc (s : sys) (cs : scstate) (n : nat) (w : wst) : Prop :=
  NI (proj coll0 cs) (d_active (y_d s)) (d_shouldstop (y_d s)) n (sigs s n) (alist_get [] n (y_down s)) w.

Record XInv (s : sys) : Prop := {
  xi_cinv : ScopeSystem.CInv kind coll0 s;
  xi_keys : akeys (y_w s) = seq 0 N;
  xi_dj : exists cs, DJc (y_d s) cs /\ forall n w, aget n (y_w s) = Some w -> NInvc s cs n w;
  xi_evq : Forall (ok_ev3 c) (y_evq s);
  xi_up : forall n, Forall (ok_up3 c n) (alist_get [] n (y_up s)) /\ (N <= n -> alist_get [] n (y_up s) = []);
  xi_down : forall n, N <= n -> alist_get [] n (y_down s) = [];
  xi_act : y_result s = None -> d_active (y_d s) <> [];
  xi_res : forall e, y_result s <> Some (RError e);
  (* conservation: the units of the (virtual) work queue and the index streams of the nodes are
     a partition of the blocks of the collection *)
  xi_perm : forall cs, d_sched (y_d s) = StC cs ->
            Permutation (concat (map ixs_of (vpool cs)) ++ flat_map (stream s) (seq 0 N)) (concat blocks);
  xi_fin : y_result s = Some RFinished ->
           d_session_finished (y_d s) = true /\ d_shouldstop (y_d s) = false;
  xi_dn : forall cs n f w, d_sched (y_d s) = StC cs -> aget n (sc_nt cs) = Some f -> n_down f = true ->
          aget n (y_w s) = Some w ->
          flat_map up_sig (alist_get [] n (y_up s)) = [] /\ wph w = PExited;
}.

(* the controller's receiver thread: never raises for a known node; queues the signal it read *)
Lemma pfr_effc n m d cs f d' o r :
  d_sched d = StC cs -> aget n (sc_nt cs) = Some f -> ok_up' coll0 m -> ok_up3 c n m -> n < N ->
  (n_down f = true -> up_sig m = []) ->
  process_from_remote n m d = (d', o, r) ->
  o = [] /\ exists evs cs', r = Ok evs /\ d_sched d' = StC cs' /\
    (forall k, evq_sigs k evs = if Nat.eqb n k then up_sig m else []) /\
    Forall (ok_ev3 c) evs /\
    d_shuttingdown d' = d_shuttingdown d /\ d_shouldstop d' = d_shouldstop d /\ d_active d' = d_active d /\
    (cs' = cs \/ (cs' = sc_set_nt cs (aset n (down_flag f) (sc_nt cs)) /\ exists b, m = UEv (EFinished b))).
Proof.
  intros Els Ef Hm Hm3 HnN Hdn H.
  assert (Ent : d_nt d = sc_nt cs) by (unfold d_nt; rewrite Els; reflexivity).
  unfold process_from_remote in H. rewrite mbind_get, Ent, Ef in H. cbn [of_opt] in H. rewrite mbind_ret in H.
  assert (SAME : forall evs, (d, @nil out, Ok evs) = (d', o, r) ->
            (forall k, evq_sigs k evs = if Nat.eqb n k then up_sig m else []) -> Forall (ok_ev3 c) evs ->
            o = [] /\ exists evs cs', r = Ok evs /\ d_sched d' = StC cs' /\
            (forall k, evq_sigs k evs = if Nat.eqb n k then up_sig m else []) /\
            Forall (ok_ev3 c) evs /\
            d_shuttingdown d' = d_shuttingdown d /\ d_shouldstop d' = d_shouldstop d /\ d_active d' = d_active d /\
            (cs' = cs \/ (cs' = sc_set_nt cs (aset n (down_flag f) (sc_nt cs)) /\ exists b, m = UEv (EFinished b)))).
  { intros evs E Hs Ho. inv E. split; [reflexivity|]. exists evs, cs.
    repeat (split; [first [reflexivity|assumption]|]). left. reflexivity. }
  assert (DOWN : forall evs, (d_set_nt d (aset n (down_flag f) (sc_nt cs)), @nil out, Ok evs) = (d', o, r) ->
            (exists b, m = UEv (EFinished b)) ->
            (forall k, evq_sigs k evs = if Nat.eqb n k then up_sig m else []) -> Forall (ok_ev3 c) evs ->
            o = [] /\ exists evs cs', r = Ok evs /\ d_sched d' = StC cs' /\
            (forall k, evq_sigs k evs = if Nat.eqb n k then up_sig m else []) /\
            Forall (ok_ev3 c) evs /\
            d_shuttingdown d' = d_shuttingdown d /\ d_shouldstop d' = d_shouldstop d /\ d_active d' = d_active d /\
            (cs' = cs \/ (cs' = sc_set_nt cs (aset n (down_flag f) (sc_nt cs)) /\ exists b, m = UEv (EFinished b)))).
  { intros evs E Hfin Hs Ho. inv E. split; [reflexivity|]. exists evs, (sc_set_nt cs (aset n (down_flag f) (sc_nt cs))).
    split; [reflexivity|]. split; [unfold d_set_nt; rewrite Els; reflexivity|].
    split; [exact Hs|]. split; [exact Ho|]. repeat (split; [reflexivity|]). right. split; [reflexivity|exact Hfin]. }
  assert (SG : forall (g : sig) k, (if Nat.eqb n k then [g] else []) ++ [] = if Nat.eqb n k then [g] else []).
  { intros g k. destruct (Nat.eqb n k); reflexivity. }
  assert (SN : forall k, @nil sig = if Nat.eqb n k then [] else []) by (intros k; destruct (Nat.eqb n k); reflexivity).
  assert (OK1 : forall ev, match ev with QUnscheduled _ _ | QInternalError _ => False
                                       | QCollFinish n0 ids0 => ids0 = c_coll c n0 | _ => True end ->
                match ev_sig ev with Some (m0, _) => m0 < N | None => True end -> Forall (ok_ev3 c) [ev]).
  { intros ev A B. constructor; [split; assumption|constructor]. }
  destruct (n_down f) eqn:Edn.
  { assert (H' : (d, @nil out, Ok (@nil cevent)) = (d', o, r)).
    { destruct m as [e|ids|sk|i ms|dec| | |]; exact H. }
    eapply SAME; [exact H'| |constructor].
    intros k. rewrite (Hdn eq_refl). destruct (Nat.eqb n k); reflexivity. }
  destruct m as [e|ids|sk|i ms|dec| | |]; cbn [ok_up'] in Hm; try contradiction.
  - destruct e as [| |ck cf| |li|ri rk roc|fi|ci|ux|stopreq]; cbn [ok_up3 ok_wev] in Hm3; try contradiction; unfold ret in H.
    + eapply SAME; [exact H| |apply OK1; cbn; auto]. intros k0. cbn. apply SG.
    + eapply SAME; [exact H| |constructor]. intros k0. cbn. apply SN.
    + eapply SAME; [exact H| |apply OK1; cbn; auto]. intros k0. cbn. apply SN.
    + eapply SAME; [exact H| |constructor]. intros k0. cbn. apply SN.
    + eapply SAME; [exact H| |apply OK1; cbn; auto]. intros k0. cbn. apply SN.
    + eapply SAME; [exact H| |apply OK1; cbn; auto]. intros k0. cbn. apply SN.
    + eapply SAME; [exact H| |apply OK1; cbn; auto]. intros k0. cbn. apply SN.
    + eapply SAME; [exact H| |apply OK1; cbn; auto]. intros k0. cbn. apply SG.
    + rewrite mbind_put in H. unfold ret in H.
      eapply DOWN; [exact H|eexists; reflexivity| |apply OK1; cbn; auto]. intros k0. cbn. destruct stopreq; apply SG.
  - unfold ret in H. eapply SAME; [exact H| |apply OK1; cbn; auto]. intros k0. cbn. apply SG.
  - unfold ret in H. eapply SAME; [exact H| |apply OK1; cbn; auto]. intros k0. cbn. apply SG.
Qed.

Lemma not_errd_cinv s s' :
  ScopeSystem.CInv kind coll0 s' \/ (y_w s' = y_w s /\ Errd s') -> (forall e, y_result s' <> Some (RError e)) ->
  ScopeSystem.CInv kind coll0 s'.
Proof. intros [H|(_ & (e & He))] Hn; [exact H|]. exfalso. exact (Hn e He). Qed.

(* ---- a worker step that pushes events onto its wire ---- *)
Lemma xinv_push s n0 w0 w' evs :
  XInv s -> aget n0 (y_w s) = Some w0 ->
  ScopeSystem.CInv kind coll0 (push_up (set_w s n0 w') n0 (map (up_of_wevent c n0) evs)) ->
  (forall cs, d_sched (y_d s) = StC cs -> NInvc s cs n0 w0 ->
     NI (proj coll0 cs) (d_active (y_d s)) (d_shouldstop (y_d s)) n0 (sigs s n0 ++ flat_map we_sig evs)
        (alist_get [] n0 (y_down s)) w') ->
  Forall ok_wev evs -> w_stream w' = w_stream w0 ->
  (wph w0 = PExited -> wph w' = PExited /\ flat_map we_sig evs = []) ->
  XInv (push_up (set_w s n0 w') n0 (map (up_of_wevent c n0) evs)).
Proof.
  intros [Inv Ek (cs & DJd & NIs) Eq Eu Edn Ea Er Epm Efin Edw] Ew Inv' Hni Hok Hstr Hex.
  set (s' := push_up (set_w s n0 w') n0 (map (up_of_wevent c n0) evs)).
  assert (HnN : n0 < N) by (eapply worker_lt; eauto).
  assert (Sg : forall n, sigs s' n = if Nat.eqb n n0 then sigs s n0 ++ flat_map we_sig evs else sigs s n).
  { intros n. unfold sigs, s'. cbn [push_up set_w y_evq y_up]. destruct (Nat.eqb n n0) eqn:E.
    - apply Nat.eqb_eq in E. subst n. rewrite alist_get_aset_eq, flat_map_app, up_sigs_of_wevents, app_assoc. reflexivity.
    - apply Nat.eqb_neq in E. rewrite alist_get_aset_neq by exact E. reflexivity. }
  constructor.
  - exact Inv'.
  - unfold s'. cbn [push_up set_w y_w]. rewrite akeys_aset_in; [exact Ek|]. eapply aget_some_in; eauto.
  - exists cs. split; [exact DJd|]. intros n w Hw. unfold NInvc. rewrite Sg.
    unfold s' in Hw |- *. cbn [push_up set_w y_w y_d y_down] in Hw |- *.
    destruct (Nat.eqb n n0) eqn:E.
    + apply Nat.eqb_eq in E. subst n. rewrite aget_aset_eq in Hw. inv Hw. apply Hni; [apply DJd|]. apply NIs. exact Ew.
    + apply Nat.eqb_neq in E. rewrite aget_aset_neq in Hw by exact E. apply NIs. exact Hw.
  - exact Eq.
  - intros n. unfold s'. cbn [push_up set_w y_up]. destruct (Nat.eq_dec n n0) as [->|Hn].
    + rewrite alist_get_aset_eq. split; [|intros; lia].
      apply Forall_app. split; [apply Eu|]. apply Forall_forall. intros m Hm. apply in_map_iff in Hm.
      destruct Hm as (e & <- & He). rewrite Forall_forall in Hok. specialize (Hok e He).
      destruct e; cbn; auto. destruct oc; cbn; auto.
    + rewrite alist_get_aset_neq by exact Hn. apply Eu.
  - exact Edn.
  - exact Ea.
  - exact Er.
  - intros cs1 Els1. unfold s'. cbn [push_up set_w y_d]. rewrite <- (Epm cs1 Els1).
    apply Permutation_app_head. rewrite (flat_map_ext (stream s) (stream (push_up (set_w s n0 w') n0 (map (up_of_wevent c n0) evs))));
      [reflexivity|].
    intros k. unfold stream. cbn [push_up set_w y_w y_down].
    destruct (Nat.eq_dec k n0) as [->|Hk].
    + rewrite aget_aset_eq, Ew, Hstr. reflexivity.
    + rewrite aget_aset_neq by exact Hk. reflexivity.
  - exact Efin.
  - intros cs1 n f w Els1 Ef Hd Hw. unfold s' in Hw, Els1 |- *. cbn [push_up set_w y_w y_d y_up] in Hw, Els1 |- *.
    destruct (Nat.eq_dec n n0) as [->|Hn].
    + rewrite aget_aset_eq in Hw. inv Hw. destruct (Edw cs1 n0 f w0 Els1 Ef Hd Ew) as (X1 & X2).
      destruct (Hex X2) as (Y1 & Y2). split; [|exact Y1].
      rewrite alist_get_aset_eq, flat_map_app, up_sigs_of_wevents, X1, Y2. reflexivity.
    + rewrite aget_aset_neq in Hw by exact Hn. rewrite alist_get_aset_neq by exact Hn.
      exact (Edw cs1 n f w Els1 Ef Hd Hw).
Qed.

(* ---- the preconditions of the handlers follow from the invariant ---- *)
Lemma pre_from_invc s cs ev q :
  akeys (y_w s) = seq 0 N -> DJc (y_d s) cs ->
  (forall n w, aget n (y_w s) = Some w -> NInvc s cs n w) ->
  y_evq s = ev :: q -> ok_ev' coll0 ev -> ok_ev3 c ev -> PRE coll0 N ev (y_d s) cs.
Proof.
  intros Ek DJd NIs Eq Hok (Hok3 & Hnode).
  assert (NODE : forall n g, ev_sig ev = Some (n, g) ->
            exists w L, aget n (y_w s) = Some w /\
              NI (proj coll0 cs) (d_active (y_d s)) (d_shouldstop (y_d s)) n (g :: L) (alist_get [] n (y_down s)) w).
  { intros n g Eg. rewrite Eg in Hnode. destruct (worker_known c s n Ek Hnode) as (w & Ew).
    exists w. eexists. split; [exact Ew|]. pose proof (NIs n w Ew) as X. unfold NInvc in X.
    rewrite (sigs_head s ev q n Eq) in X. unfold ev_sigs_for in X. rewrite Eg, Nat.eqb_refl in X. exact X. }
  assert (ACT : forall n g, ev_sig ev = Some (n, g) -> In n (d_active (y_d s))).
  { intros n g Eg. destruct (NODE n g Eg) as (w & L & _ & X).
    destruct (in_dec Nat.eq_dec n (d_active (y_d s))) as [Hin|Hni]; [exact Hin|].
    destruct (ni_act _ _ _ _ _ _ _ X Hni) as (F & _). discriminate. }
  destruct ev as [n|n ids|n key fl|n i|n i|n i k oc|n i ms|n ixs| |n|n sk|n]; cbn [PRE]; cbn in Hok, Hok3; try contradiction; auto.
  - (* ready *)
    destruct (NODE n SgReady eq_refl) as (w & L & Ew & X). cbn in Hnode. split; [exact Hnode|].
    intros _. split; [|exact (ACT n SgReady eq_refl)].
    intros Hin. rewrite <- (proj_nodes coll0) in Hin.
    destruct (ni_nodes _ _ _ _ _ _ _ X Hin) as (F & _). apply F. left. reflexivity.
  - (* collectionfinish *)
    destruct (NODE n SgCF eq_refl) as (w & L & Ew & X). cbn in Hnode. split; [exact Hnode|].
    split; [|exact Hok].
    intros Hin. destruct (ni_n2c _ _ _ _ _ _ _ X Hin) as (F & _). apply F. left. reflexivity.
  - (* complete *)
    destruct (NODE n (SgComp i) eq_refl) as (w & L & Ew & X).
    pose proof (ni_coupled _ _ _ _ _ _ _ X) as Cp. cbn [completes flat_map app] in Cp.
    rewrite proj_bk in Cp. eexists. exact Cp.
  - (* finished *)
    destruct sk; try contradiction.
    + destruct (NODE n (SgFin false) eq_refl) as (w & L & Ew & X).
      destruct (NI_finished_empty _ _ _ _ _ _ _ X) as (Eb & Hf). rewrite proj_bk in Eb.
      split; [exact (ACT n _ eq_refl)|]. split; [exact Eb|exact Hf].
    + exact (ACT n _ eq_refl).
Qed.
(* ---- one iteration of the controller loop ---- *)
Lemma ctl_corec s ev q d' outs cs cs' rr :
  XInv s -> y_evq s = ev :: q -> DJc (y_d s) cs ->
  (forall n w, aget n (y_w s) = Some w -> NInvc s cs n w) ->
  LEFFc ev (y_d s) cs d' cs' outs -> CTr kind coll0 cs cs' outs ->
  ScopeSystem.CInv kind coll0 (set_result (apply_outs (set_d (set_evq s q) d') outs) rr) ->
  (forall e, rr <> Some (RError e)) -> (rr = None -> d_active d' <> []) ->
  (rr = Some RFinished -> d_session_finished d' = true /\ d_shouldstop d' = false) ->
  XInv (set_result (apply_outs (set_d (set_evq s q) d') outs) rr).
Proof.
  intros [Inv Ek _ Eq Eu Edn Ea Er Epm _ Edw] Eevq DJd NIs LE HCT Inv' Hrr Hact Hfin.
  pose proof HCT as (us & EV1 & EV2 & Go).
  assert (Hd : y_dead (set_d (set_evq s q) d') = []) by (cbn; apply Inv).
  destruct (apply_outs_eff outs _ Hd Go) as (A1 & A2 & A3 & A4 & A5 & A6 & A7).
  destruct (apply_outs_scope outs _ Hd Go) as (_ & _ & _ & _ & _ & _ & A8).
  cbn [set_d set_evq y_d y_evq y_up y_w y_dead y_result y_down] in A1, A2, A3, A4, A5, A6, A7.
  pose proof DJd as ([Els J _ _ _ _] & _).
  assert (Els' : d_sched d' = StC cs') by (destruct (le_dj _ _ _ _ _ _ _ _ _ LE) as ([E1 _ _ _ _ _] & _); exact E1).
  assert (CK : forall k, ~ In k (seq 0 N) -> cmds_to k outs = []).
  { intros k Hk. pose proof (le_nt _ _ _ _ _ _ _ _ _ LE k) as R.
    destruct (aget k (sc_nt cs)) as [f|] eqn:Ef.
    - exfalso. apply Hk. apply in_seq. assert (X : k < N) by (apply (sj_ntk _ _ _ _ J k); congruence). lia.
    - destruct (aget k (sc_nt cs')); [destruct R|exact R]. }
  constructor; cbn [set_result y_d y_evq y_up y_w y_dead y_result y_down].
  - exact Inv'.
  - rewrite A4. exact Ek.
  - exists cs'. rewrite A1, A4. split; [apply (le_dj _ _ _ _ _ _ _ _ _ LE)|].
    intros n w Hw. unfold NInvc. cbn [set_result y_d y_down]. rewrite A1, A7.
    assert (Es : sigs (set_result (apply_outs (set_d (set_evq s q) d') outs) rr) n
                 = evq_sigs n q ++ flat_map up_sig (alist_get [] n (y_up s))).
    { unfold sigs. cbn [set_result y_evq y_up]. rewrite A2, A3. reflexivity. }
    rewrite Es. eapply NI_ctlc; [exact LE|]. rewrite <- (sigs_head s ev q n Eevq). apply NIs. exact Hw.
  - rewrite A2. rewrite Eevq in Eq. inversion Eq; assumption.
  - rewrite A3. exact Eu.
  - intros n Hn. rewrite A7, (Edn n Hn). cbn [app]. apply CK. rewrite in_seq. lia.
  - rewrite A1. exact Hact.
  - exact Hrr.
  - intros cs1 Els1. rewrite A1 in Els1. assert (cs1 = cs') by congruence. subst cs1.
    assert (Hstr : forall n, stream (set_result (apply_outs (set_d (set_evq s q) d') outs) rr) n
                             = stream s n ++ concat (blocks_to n outs)).
    { intros n. transitivity (stream (apply_outs (set_d (set_evq s q) d') outs) n); [reflexivity|].
      rewrite A8. reflexivity. }
    rewrite (flat_map_ext _ _ Hstr). rewrite flat_map_app_perm.
    rewrite (sent_blocks_perm (seq 0 N) outs (seq_NoDup N 0) CK), EV2.
    rewrite <- (Epm cs Els). rewrite EV1, map_app, concat_app.
    set (U := concat (map ixs_of us)). set (V := concat (map ixs_of (vpool cs'))). set (S := flat_map (stream s) (seq 0 N)).
    transitivity ((V ++ S) ++ U); [rewrite app_assoc; reflexivity|]. rewrite <- (app_assoc U V S). apply Permutation_app_comm.
  - rewrite A1. exact Hfin.
  - intros cs1 n f' w Els1 Ef' Hdw Hw. rewrite A1 in Els1. rewrite A4 in Hw. rewrite A3.
    assert (cs1 = cs') by congruence. subst cs1.
    destruct (NRo_open _ _ _ _ (le_nt _ _ _ _ _ _ _ _ _ LE n) Ef') as (f & Ef & R).
    destruct (NR_fields _ _ _ R) as (_ & B & _).
    apply (Edw cs n f w Els Ef); [congruence|exact Hw].
Qed.

(* ---- the initial state ---- *)
Lemma XInv_init : c_mode c = MScope kind -> XInv (sys_init c).
Proof.
  intros Hm. constructor.
  - apply ScopeSystem.CInv_init. exact Hm.
  - cbn [sys_init y_w]. apply (akeys_map_seq (fun _ => w_init)).
  - cbn [sys_init y_d d_sched]. rewrite Hm. cbn [s_init s_set_nt].
    eexists. split.
    + split.
      * constructor; [reflexivity| | | | |].
        -- constructor; cbn [sc_set_nt sc_init sc_numnodes sc_nt sc_kind sc_reg sc_coll sc_wq sc_assigned]; unfold sc_nodes, ukeys;
             cbn [sc_set_nt sc_init sc_assigned sc_wq akeys map app akeys_w flat_map].
           ++ apply init_nt_open.
           ++ reflexivity.
           ++ reflexivity.
           ++ apply aget_init_nt.
           ++ intros n [].
           ++ constructor.
           ++ intros n cl [].
           ++ constructor.
           ++ discriminate.
           ++ intros _. split; [reflexivity|]. intros n w [].
           ++ intros x [].
           ++ constructor.
           ++ intros n w [].
        -- cbn. intros _ _ n [].
        -- cbn [sc_set_nt sc_init sc_nt]. intros _ n f Ef Hs. rewrite (aget_init_nt_sd c n f Ef) in Hs. discriminate.
        -- cbn. discriminate.
        -- unfold sc_collection_is_completed. cbn [sc_set_nt sc_init sc_numnodes sc_reg length]. intros F.
           apply Nat.leb_le in F. lia.
      * cbn. discriminate.
    + intros n w Ew. cbn [sys_init y_w] in Ew. pose proof (aget_some_in _ _ _ Ew) as Hk.
      rewrite (akeys_map_seq (fun _ => w_init)) in Hk. apply in_seq in Hk.
      apply aget_map_const in Ew. subst w.
      assert (Esg : sigs (sys_init c) n = []).
      { unfold sigs. cbn [sys_init y_evq y_up]. rewrite alist_get_map_nil. reflexivity. }
      unfold NInvc. rewrite Esg. cbn [sys_init y_down y_d d_active d_shouldstop]. rewrite alist_get_map_nil.
      constructor; rewrite ?proj_nodes; cbn [proj sc_set_nt sc_init sc_nt sc_reg l_nt l_n2c akeys map w_init wph prank].
      * destruct (aget n (init_nt c)) as [f|] eqn:Ef.
        -- exists f. split; [reflexivity|]. cbn. apply mark_ok_nil.
        -- exfalso. apply (proj2 (aget_init_nt c n)); [lia|exact Ef].
      * reflexivity.
      * apply chan_ok_nil.
      * intros [].
      * intros [].
      * intros F. exfalso. apply F. apply in_seq. lia.
      * intros [[]|F]; discriminate.
      * apply WX_init.
      * intros [F|(b & F)]; discriminate.
  - constructor.
  - intros n. cbn [sys_init y_up]. rewrite alist_get_map_nil. split; [constructor|reflexivity].
  - intros n _. cbn [sys_init y_down]. apply alist_get_map_nil.
  - intros _. cbn [sys_init y_d d_active]. destruct N; [lia|]. cbn. discriminate.
  - intros e. cbn. discriminate.
  - intros cs Els. cbn [sys_init y_d d_sched] in Els. rewrite Hm in Els. cbn [s_init s_set_nt] in Els.
    inv Els. unfold ScopeSystem.vpool. cbn [sc_set_nt sc_init sc_coll].
    rewrite (flat_map_nil_in (stream (sys_init c))); [rewrite app_nil_r; reflexivity|].
    intros k _. apply stream_init.
  - cbn. discriminate.
  - intros cs n f w Els Ef Hd _. cbn [sys_init y_d d_sched] in Els. rewrite Hm in Els. cbn [s_init s_set_nt] in Els.
    inv Els. cbn [sc_set_nt sc_nt] in Ef. rewrite (aget_init_nt_dn c n f Ef) in Hd. discriminate.
Qed.
(* ---- the one-step lemma ---- *)
Lemma step_xinv s l s' o w :
  no_crash_label l -> XInv s -> sys_step c s l = Some (s', o, w) -> XInv s'.
Proof.
  intros Hl XI H.
  pose proof (ScopeSystem.step_cinv kind coll0 Hne c s l s' o w Hnc Hng Hsame Hl (xi_cinv _ XI) H) as HS.
  pose proof XI as [Inv Ek (cs & DJd & NIs) Eq Eu Edn Ea Er Epm Efn Edw].
  pose proof Inv as [A B (cs0 & Bk & Ecs0 & I & St & T) D E F G NG].
  pose proof DJd as (J0 & Jss). pose proof J0 as [Els J Jb Jp Jg Jc].
  assert (cs0 = cs) by congruence. subst cs0.
  unfold sys_step in H. destruct (y_result s) eqn:Eres; [discriminate|].
  destruct l as [n0|n0|n0|n0| |n0]; [| | | | |contradiction].
  - (* LDeliver *)
    replace (mem_nat n0 (y_dead s)) with false in H by (rewrite A; reflexivity).
    destruct (aget n0 (y_down s)) as [[|cmd rest]|] eqn:Ed; try discriminate.
    destruct (aget n0 (y_w s)) as [w0|] eqn:Ew; try discriminate.
    fin3 H s' o w.
    apply not_errd_cinv in HS; [|intros e; cbn; discriminate].
    constructor; cbn [y_d y_evq y_down y_up y_w y_dead y_result].
    + exact HS.
    + rewrite akeys_aset_in; [exact Ek|]. eapply aget_some_in; eauto.
    + exists cs. split; [exact DJd|]. intros n w Hw. unfold NInvc, sigs.
      cbn [y_d y_down y_evq y_up]. fold (sigs s n).
      destruct (Nat.eq_dec n n0) as [->|Hn].
      * rewrite aget_aset_eq in Hw. inv Hw. rewrite alist_get_aset_eq.
        apply NI_deliver. pose proof (NIs n0 w0 Ew) as X. unfold NInvc in X.
        rewrite (alist_get_some [] _ _ _ Ed) in X. exact X.
      * rewrite aget_aset_neq in Hw by exact Hn. rewrite alist_get_aset_neq by exact Hn. apply NIs. exact Hw.
    + exact Eq.
    + exact Eu.
    + intros k Hk. destruct (Nat.eq_dec k n0) as [->|Hkn].
      * exfalso. pose proof (worker_lt c s n0 w0 Ek Ew). lia.
      * rewrite alist_get_aset_neq by exact Hkn. apply Edn. exact Hk.
    + exact Ea.
    + intros e. discriminate.
    + intros cs1 Els1. rewrite <- (Epm cs1 Els1). apply Permutation_app_head.
      match goal with |- Permutation (flat_map (stream ?s1) _) _ =>
        rewrite (flat_map_ext (stream s1) (stream s)); [reflexivity|] end.
      intros k. unfold stream. cbn [y_w y_down]. destruct (Nat.eq_dec k n0) as [->|Hk].
      * rewrite aget_aset_eq, Ew, alist_get_aset_eq, (alist_get_some [] _ _ _ Ed), deliver_stream.
        cbn [flat_map]. rewrite <- app_assoc. reflexivity.
      * rewrite aget_aset_neq, alist_get_aset_neq by exact Hk. reflexivity.
    + discriminate.
    + intros cs1 n f w Els1 Ef Hd Hw. destruct (Nat.eq_dec n n0) as [->|Hn].
      * rewrite aget_aset_eq in Hw. inv Hw. destruct (Edw cs1 n0 f w0 Els1 Ef Hd Ew) as (X1 & X2).
        split; [exact X1|]. destruct (deliver_owed w0 cmd) as (_ & _ & Ep & _). rewrite Ep. exact X2.
      * rewrite aget_aset_neq in Hw by exact Hn. exact (Edw cs1 n f w Els1 Ef Hd Hw).
  - (* LRecvW *)
    replace (mem_nat n0 (y_dead s)) with false in H by (rewrite A; reflexivity).
    destruct (aget n0 (y_w s)) as [w0|] eqn:Ew; try discriminate.
    destruct (negb (wcb w0)); [discriminate|].
    destruct (recv_step (c_oracle c n0) w0) as [w' evs] eqn:Es. fin3 H s' o w.
    destruct (G _ _ Ew) as (Iw & Gw).
    destruct (NI_recv (c_oracle c n0) _ _ _ _ _ _ _ Gw (NIs n0 w0 Ew)) as (Ev & X). rewrite Es in Ev, X. cbn [fst snd] in Ev, X.
    subst evs.
    apply xinv_push with (w0 := w0); auto.
    + apply not_errd_cinv in HS; [exact HS|]. intros e. cbn. rewrite ?Eres. discriminate.
    + intros cs1 Els1 X1. cbn [flat_map]. rewrite app_nil_r.
      assert (cs1 = cs) by congruence. subst cs1. exact X.
    + pose proof (recv_step_stream (c_oracle c n0) w0 Gw) as (P & _). rewrite Es in P. exact P.
    + intros Hex. split; [|reflexivity]. rewrite (proj1 (recv_step_facts _ _ _ _ Es)). exact Hex.
  - (* LMain *)
    replace (mem_nat n0 (y_dead s)) with false in H by (rewrite A; reflexivity).
    destruct (aget n0 (y_w s)) as [w0|] eqn:Ew; try discriminate.
    assert (Hd : dies_now c n0 w0 = false).
    { unfold dies_now. destruct (wph w0); auto. }
    rewrite Hd in H.
    destruct (main_step (c_oracle c n0) w0) as [[w' evs]|] eqn:Es; [|discriminate]. fin3 H s' o w.
    destruct (G _ _ Ew) as (Iw & Gw).
    destruct (NI_main _ _ _ _ _ _ _ _ _ _ Iw (NIs n0 w0 Ew) Es) as (X & Hok).
    apply xinv_push with (w0 := w0); auto.
    + apply not_errd_cinv in HS; [exact HS|]. intros e. cbn. rewrite ?Eres. discriminate.
    + intros cs1 Els1 X1. assert (cs1 = cs) by congruence. subst cs1. exact X.
    + exact (proj1 (main_step_stream _ _ _ _ Es)).
    + intros Hex. exfalso. exact (main_step_not_exited _ _ _ _ Es Hex).
  - (* LRecv *)
    destruct (aget n0 (y_up s)) as [[|m rest]|] eqn:Eup; try discriminate.
    cbn [y_d] in H.
    destruct (process_from_remote n0 m (y_d s)) as [[d' outs] r] eqn:Ep.
    pose proof (E n0) as En. rewrite (alist_get_some [] _ _ _ Eup) in En.
    inversion En as [|m1 r1 Gm Gr]; subst.
    destruct (Eu n0) as (Eu1 & Eu2). rewrite (alist_get_some [] _ _ _ Eup) in Eu1, Eu2.
    inversion Eu1 as [|m2 r2 Gm3 Gr3]; subst.
    assert (HnN : n0 < N).
    { destruct (Nat.lt_ge_cases n0 N) as [X|X]; [exact X|]. specialize (Eu2 X). discriminate. }
    destruct (aget n0 (sc_nt cs)) as [f|] eqn:Ef.
    2:{ exfalso. apply (proj2 (sj_ntk _ _ _ _ J n0)); [exact HnN|exact Ef]. }
    destruct (worker_known c s n0 Ek HnN) as (wn & Ewn).
    assert (Hdn : n_down f = true -> up_sig m = []).
    { intros Hd. destruct (Edw cs n0 f wn Els Ef Hd Ewn) as (X & _).
      rewrite (alist_get_some [] _ _ _ Eup) in X. cbn [flat_map] in X. apply app_eq_nil in X. tauto. }
    destruct (pfr_effc _ _ _ _ _ _ _ _ Els Ef Gm Gm3 HnN Hdn Ep)
      as (-> & evs & cs' & -> & Els' & Hsig & Hok3 & S1 & S2 & S3 & Hcs').
    cbn [apply_outs] in H. unfold close_if_dead in H. cbn [set_evq set_d y_dead] in H.
    replace (mem_nat n0 (y_dead s)) with false in H by (rewrite A; reflexivity).
    fin3 H s' o w.
    apply not_errd_cinv in HS; [|intros e; cbn; discriminate].
    (* the scheduler state changes in the down flag of node n0 only *)
    assert (FX : SJc cs' /\ sc_assigned cs' = sc_assigned cs /\ sc_reg cs' = sc_reg cs /\ sc_coll cs' = sc_coll cs /\
                 sc_wq cs' = sc_wq cs /\ sc_numnodes cs' = sc_numnodes cs /\
                 (forall k g, aget k (sc_nt cs) = Some g -> exists g', aget k (sc_nt cs') = Some g' /\ n_sdsent g' = n_sdsent g) /\
                 (forall k g', aget k (sc_nt cs') = Some g' -> exists g, aget k (sc_nt cs) = Some g /\ n_sdsent g' = n_sdsent g) /\
                 (forall k, k <> n0 -> aget k (sc_nt cs') = aget k (sc_nt cs)) /\
                 (forall f', aget n0 (sc_nt cs') = Some f' -> n_down f' = true ->
                             n_down f = true \/ exists b, m = UEv (EFinished b))).
    { destruct Hcs' as [->|(-> & Hfin)].
      - split; [exact J|]. repeat (split; [reflexivity|]). split; [eauto|]. split; [eauto|]. split; [auto|].
        intros f' Ef' Hd. left. congruence.
      - split.
        { apply SJ_set_nt; [exact J| |].
          - apply all_open_aset; [apply J|]. cbn. exact (sj_open _ _ _ _ J _ _ Ef).
          - intros k. apply aget_aset_keys. congruence. }
        repeat (split; [reflexivity|]). cbn [sc_set_nt sc_nt].
        split; [|split; [|split]].
        + intros k g Eg. rewrite LoadProofs.aget_aset. destruct (Nat.eqb k n0) eqn:E0.
          * apply Nat.eqb_eq in E0. subst k. eexists. split; [reflexivity|]. cbn. congruence.
          * eauto.
        + intros k g' Eg. rewrite LoadProofs.aget_aset in Eg. destruct (Nat.eqb k n0) eqn:E0.
          * apply Nat.eqb_eq in E0. subst k. inv Eg. exists f. split; [exact Ef|reflexivity].
          * eauto.
        + intros k Hk. rewrite LoadProofs.aget_aset. destruct (Nat.eqb k n0) eqn:E0; [|reflexivity].
          apply Nat.eqb_eq in E0. contradiction.
        + intros f' _ _. right. exact Hfin. }
    destruct FX as (J' & P1 & P2 & P4 & P3 & P6 & FL & FL' & P8 & P9).
    constructor; cbn [set_evq set_d y_d y_evq y_down y_up y_w y_dead y_result].
    + exact HS.
    + exact Ek.
    + exists cs'. split.
      * split; [|rewrite S1, S2; exact Jss]. constructor.
        -- exact Els'.
        -- exact J'.
        -- rewrite S1, S2, S3. unfold sc_nodes. rewrite P1. exact Jb.
        -- rewrite S1. intros Hsd k g' Eg' Hs. destruct (FL' k g' Eg') as (g & Eg & Es).
           rewrite P4, P3. apply (Jp Hsd k g Eg). congruence.
        -- rewrite S1, S2, P4, P3. exact Jg.
        -- unfold sc_collection_is_completed. rewrite P6, P2, P4. exact Jc.
      * intros n w Hw. unfold NInvc, sigs. cbn [set_evq set_d y_d y_down y_evq y_up]. rewrite S3, S2.
        assert (Esg : evq_sigs n (y_evq s ++ evs) ++ flat_map up_sig (alist_get [] n (aset n0 rest (y_up s))) = sigs s n).
        { unfold sigs. rewrite evq_sigs_app, Hsig. destruct (Nat.eqb n0 n) eqn:E0.
          - apply Nat.eqb_eq in E0. subst n. rewrite alist_get_aset_eq, (alist_get_some [] _ _ _ Eup).
            cbn [flat_map]. rewrite <- app_assoc. reflexivity.
          - apply Nat.eqb_neq in E0. rewrite alist_get_aset_neq by congruence. rewrite app_nil_r. reflexivity. }
        rewrite Esg. apply (NI_flags_ext (proj coll0 cs) (proj coll0 cs')).
        -- cbn [proj l_nt]. intros g Eg. apply FL. exact Eg.
        -- cbn [proj l_n2p]. rewrite P1. reflexivity.
        -- cbn [proj l_n2c]. exact P2.
        -- apply NIs. exact Hw.
    + apply Forall_app. split; [exact Eq|exact Hok3].
    + intros k. destruct (Nat.eq_dec k n0) as [->|Hk].
      * rewrite alist_get_aset_eq. split; [exact Gr3|intros; lia].
      * rewrite alist_get_aset_neq by exact Hk. apply Eu.
    + exact Edn.
    + rewrite S3. exact Ea.
    + intros e. discriminate.
    + intros cs1 Els1. assert (cs1 = cs') by congruence. subst cs1.
      assert (Ev : vpool cs' = vpool cs) by (unfold ScopeSystem.vpool; rewrite P4, P3; reflexivity).
      rewrite Ev. exact (Epm cs Els).
    + discriminate.
    + intros cs1 n f' w Els1 Ef' Hd Hw. assert (cs1 = cs') by congruence. subst cs1.
      destruct (Nat.eq_dec n n0) as [->|Hn].
      * rewrite alist_get_aset_eq. assert (w = wn) by congruence. subst w.
        destruct (P9 f' Ef' Hd) as [Hd0|(b & ->)].
        -- destruct (Edw cs n0 f wn Els Ef Hd0 Ewn) as (X & Y). split; [|exact Y].
           rewrite (alist_get_some [] _ _ _ Eup) in X. cbn [flat_map] in X. apply app_eq_nil in X. tauto.
        -- pose proof (ni_chan _ _ _ _ _ _ _ (NIs n0 wn Ewn)) as Ch. unfold sigs in Ch.
           rewrite (alist_get_some [] _ _ _ Eup) in Ch. cbn [flat_map up_sig we_sig app] in Ch.
           destruct (chan_ok_fin_mid _ _ _ _ Ch) as (X & Y). split; [exact X|apply prank_4; exact Y].
      * rewrite alist_get_aset_neq by exact Hn. rewrite (P8 n Hn) in Ef'. exact (Edw cs n f' w Els Ef' Hd Hw).
  - (* LCtl *)
    specialize (Ea eq_refl).
    destruct (d_active (y_d s)) as [|a0 ar] eqn:Eact; [contradiction|].
    destruct (y_evq s) as [|ev q] eqn:Eevq; [discriminate|].
    inversion D as [|ev1 q1 Gev Gq]; subst. inversion Eq as [|ev2 q2 Gev3 Gq3]; subst.
    destruct (d_loop_once ev (y_d s)) as [[d' outs] r] eqn:El.
    assert (Hpre : PRE coll0 N ev (y_d s) cs).
    { eapply pre_from_invc; eauto. }
    assert (Hact : d_active (y_d s) <> []) by (rewrite Eact; discriminate).
    destruct (loop_once_okc kind coll0 Hne N Hpos ev (y_d s) cs d' outs r DJd Hact Hpre El) as (-> & cs' & LE).
    destruct (dok_loop_once kind coll0 Hne ev (y_d s) Gev _ _ _ El cs Els I) as (cs2 & Els2 & _ & HCT).
    assert (cs2 = cs').
    { destruct (le_dj _ _ _ _ _ _ _ _ _ LE) as ([E1 _ _ _ _ _] & _). congruence. }
    subst cs2.
    set (s1 := apply_outs (set_d (set_evq s q) d') outs) in *.
    assert (CORE : forall rr, ScopeSystem.CInv kind coll0 (set_result s1 rr) -> (forall e, rr <> Some (RError e)) ->
                   (rr = None -> d_active d' <> []) ->
                   (rr = Some RFinished -> d_session_finished d' = true /\ d_shouldstop d' = false) ->
                   XInv (set_result s1 rr)).
    { intros rr Hi Hr Ha Hf. unfold s1. eapply ctl_corec; eauto. }
    destruct (d_session_finished d') eqn:Efin.
    + fin3 H s' o w. apply CORE.
      * apply not_errd_cinv in HS; [exact HS|]. intros e. cbn. destruct (d_shouldstop d'); discriminate.
      * intros e. destruct (d_shouldstop d'); discriminate.
      * destruct (d_shouldstop d'); discriminate.
      * destruct (d_shouldstop d'); [discriminate|]. intros _. split; reflexivity.
    + destruct (d_active d') as [|b0 br] eqn:Eact'.
      * exfalso. pose proof (le_fin _ _ _ _ _ _ _ _ _ LE) as Hf. rewrite Eact' in Hf. specialize (Hf eq_refl).
        unfold d_session_finished in Efin. rewrite Hf, Eact' in Efin. discriminate.
      * fin3 H s' o w.
        pose proof HCT as (us & _ & _ & Go).
        assert (Er1 : y_result s1 = None).
        { unfold s1. destruct (apply_outs_eff outs (set_d (set_evq s q) d')) as (_ & _ & _ & _ & _ & R & _); [apply A|exact Go|].
          rewrite R. cbn. exact Eres. }
        rewrite <- (set_result_same s1 None Er1). apply CORE.
        -- rewrite (set_result_same s1 None Er1). apply not_errd_cinv in HS; [exact HS|]. intros e. rewrite Er1. discriminate.
        -- intros e. discriminate.
        -- intros _. discriminate.
        -- discriminate.
Qed.

(* ---- every schedule ---- *)
Lemma xinv_run ls :
  c_mode c = MScope kind -> Forall no_crash_label ls -> XInv (sys_run c ls).
Proof.
  intros Hm Hls. unfold sys_run.
  assert (G : forall s, XInv s ->
     XInv (fold_left (fun s l => match sys_step c s l with Some (s', _, _) => s' | None => s end) ls s)).
  { induction Hls as [|l ls Hl Hls IH]; intros s Hs; cbn [fold_left]; [exact Hs|].
    apply IH. destruct (sys_step c s l) as [[[s' o] w]|] eqn:E; [|exact Hs].
    eapply step_xinv; eauto. }
  apply G. apply XInv_init; assumption.
Qed.
End SysC.

(* ====================================================================================== *)
(* D.4 the theorems: coupling of books and owed completions; the controller never raises    *)
(* ====================================================================================== *)
(* the book of node n: the not-completed tests of its assigned work units (unit order, test
   order), as indices into the collection *)
Definition sbook (c : config) (s : sys) (n : nat) : list nat :=
  match d_sched (y_d s) with
  | StC cs => match aget n (sc_assigned cs) with Some w => bookw (c_coll c 0) w | None => [] end
  | _ => []
  end.
(* the controller's book of every node is, in order, what the worker side still owes
   (Coupling.owed: completes on the event queue and the wire up ++ taken and not completed
   ++ queue ++ rest of the current command ++ inbox ++ commands on the wire down) *)
Definition ScCoupled (c : config) (s : sys) : Prop := forall n, sbook c s n = owed s n.

Lemma xinv_coupled c kind s : XInv c kind s -> ScCoupled c s.
Proof.
  intros [Inv Ek (cs & (J0 & _) & NIs) Eq Eu Edn Ea Er _ _ _] n. unfold sbook, owed.
  rewrite (dj_sched _ _ _ _ _ J0). fold (bookn (c_coll c 0) cs n).
  destruct (aget n (y_w s)) as [w|] eqn:Ew.
  - rewrite <- proj_bk. exact (ni_coupled _ _ _ _ _ _ _ (NIs n w Ew)).
  - assert (Hn : c_numnodes c <= n).
    { destruct (Nat.lt_ge_cases n (c_numnodes c)) as [X|X]; [|exact X]. exfalso.
      destruct (worker_known c s n Ek X) as (w & F). congruence. }
    unfold sigs. rewrite (evq_sigs_out _ _ _ Eq Hn), (proj2 (Eu n) Hn), (Edn n Hn). cbn.
    apply bookn_none. intros Hin.
    pose proof (sj_nodes _ _ _ _ (dj_sj _ _ _ _ _ J0) n Hin). lia.
Qed.

(* Hypotheses (those of ScopeSystem.v plus "at least one worker"):
   (H-mode)    c_mode c = MScope kind, for any of the three kinds;
   (H-nocrash) no worker dies: c_crash_in constantly false, no LCrash label;
   (H-garbled) no worker sends an undecodable report;
   (H-ids)     no worker collects a test with the empty node id (inherited from the stream invariant
               ScopeSystem.CInv, which is part of XInv; the lemmas of parts B and C do not use it);
   (H-same)    all workers collect the same list;
   (H-nodes)   0 < c_numnodes c: with no worker the first turn of the controller loop raises
               RuntimeError (ScopeCompleteness.scpl_ex_no_workers).
   No NoDup hypothesis on the collection is needed here: books are lists of positions of FIRST
   occurrences (pos_in), the units being dicts keyed by test id. *)
Section MainC.
  Variable c : config.
  Variable ls : list label.
  Variable kind : scope_kind.
  Hypothesis Hmode : c_mode c = MScope kind.
  Hypothesis Hnocrash : forall n i, c_crash_in c n i = false.
  Hypothesis Hnogarbled : no_garbled c.
  Hypothesis Hids : forall n, ~ In ""%string (c_coll c n).
  Hypothesis Hsame : forall n, c_coll c n = c_coll c 0.
  Hypothesis Hsched : Forall no_crash_label ls.
  Hypothesis Hnodes : 0 < c_numnodes c.

  Lemma run_xinv : XInv c kind (sys_run c ls).
  Proof. apply xinv_run; auto. Qed.

  (* Goal 1: the book coupling invariant, in every reachable state *)
  Theorem sc_coupling_invariant : ScCoupled c (sys_run c ls).
  Proof. apply (xinv_coupled c kind). exact run_xinv. Qed.

  (* Goal 2: the controller never raises *)
  Theorem sc_controller_never_raises : forall e, y_result (sys_run c ls) <> Some (RError e).
  Proof. exact (xi_res _ _ _ run_xinv). Qed.

  (* hence the stream invariant of ScopeSystem.v holds in every reachable state *)
  Theorem sc_run_cinv_always : ScopeSystem.CInv kind (c_coll c 0) (sys_run c ls).
  Proof. exact (xi_cinv _ _ _ run_xinv). Qed.
End MainC.

Print Assumptions sc_coupling_invariant.
Print Assumptions sc_controller_never_raises.
Check sc_coupling_invariant.
Check sc_controller_never_raises.
Check loop_once_okc.
Check step_xinv.
