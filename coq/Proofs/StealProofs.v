(* Proofs about Model/SchedSteal.v: the work-stealing scheduler (C07 and friends).
   Every statement quantifies over every wsstate; nothing is bounded. *)
From XV Require Import Base Worker Ctl SchedLoad SchedSteal.
From Coq Require Import Permutation.
Open Scope nat_scope.

(* ---------- definitions used in the statements ---------- *)
Definition run_inds (o : out) : list nat :=
  match o with OSend _ (CRun ixs) => ixs | _ => [] end.
Definition sent_inds (outs : list out) : list nat := flat_map run_inds outs.
Definition steal_reqs (outs : list out) : list (nat * list nat) :=
  flat_map (fun o => match o with OSend n (CSteal ixs) => [(n, ixs)] | _ => [] end) outs.
Definition books (s : wsstate) : list nat := flat_map snd (ws_n2p s).
Definition tokens (s : wsstate) : list nat := ws_pending s ++ books s.

(* ---------- tactics ---------- *)
Ltac munf :=
  cbv beta iota zeta delta
    [mbind get put of_opt ret raise node_send node_flags emit massert].
Ltac proj :=
  cbn [ws_nt ws_numnodes ws_n2c ws_n2p ws_pending ws_coll ws_steal
       ws_set_nt ws_set_n2c ws_set_n2p ws_set_pending ws_set_coll ws_set_steal] in *.

(* Permutation goals over appended atoms, via occurrence counting *)
Ltac perm_count :=
  repeat match goal with
         | H : Permutation _ _ |- _ => rewrite (Permutation_count_occ Nat.eq_dec) in H
         end;
  rewrite (Permutation_count_occ Nat.eq_dec);
  let x := fresh "x" in
  intro x;
  repeat match goal with
         | H : forall _ : nat, count_occ Nat.eq_dec _ _ = _ |- _ => specialize (H x)
         end;
  cbn [count_occ] in *;
  rewrite ?count_occ_app in *;
  cbn [count_occ] in *;
  repeat match goal with
         | |- context [Nat.eq_dec ?a x] => destruct (Nat.eq_dec a x)
         | H : context [Nat.eq_dec ?a x] |- _ => destruct (Nat.eq_dec a x)
         end;
  try lia.

(* ---------- the monad ---------- *)
Lemma mbind_inv {S A B} (m : M S A) (f : A -> M S B) s s' o r :
  mbind m f s = (s', o, r) ->
  (exists e, m s = (s', o, Err e) /\ r = Err e)
  \/ (exists s1 o1 a o2, m s = (s1, o1, Ok a) /\ f a s1 = (s', o2, r) /\ o = o1 ++ o2).
Proof.
  unfold mbind. destruct (m s) as [[s1 o1] [a|e]].
  - destruct (f a s1) as [[s2 o2] r2] eqn:E. intros H. inversion H; subst.
    right. exists s1, o1, a, o2. auto.
  - intros H. inversion H; subst. left. exists e. auto.
Qed.

(* induction principle for mfor: a state relation that is reflexive, transitive and
   established by each iteration holds over the loop; every output satisfies Q *)
Lemma mfor_ind {S A} (R : S -> S -> Prop) (Q : out -> Prop) (l : list A) (f : A -> M S unit) :
  (forall s, R s s) ->
  (forall a b c, R a b -> R b c -> R a c) ->
  (forall x s s' o r, In x l -> f x s = (s', o, r) -> R s s' /\ Forall Q o) ->
  forall s s' o r, mfor l f s = (s', o, r) -> R s s' /\ Forall Q o.
Proof.
  intros Hr Ht. induction l as [|x l IH]; intros Hf s s' o r H.
  - cbn in H. inversion H; subst. split; [apply Hr | constructor].
  - cbn [mfor] in H. apply mbind_inv in H.
    destruct H as [(e & H & _) | (s1 & o1 & a & o2 & H1 & H2 & ->)].
    + apply (Hf x) in H; [exact H | left; reflexivity].
    + apply (Hf x) in H1; [| left; reflexivity]. destruct H1 as [R1 Q1].
      apply IH in H2; [| intros; eapply Hf; [right|]; eassumption].
      destruct H2 as [R2 Q2]. split; [eapply Ht; eassumption | apply Forall_app; auto].
Qed.

(* ---------- list and association-list facts ---------- *)
Lemma py_take_drop {A} k (l : list A) : py_take k l ++ py_drop k l = l.
Proof. unfold py_take, py_drop. destruct (0 <=? k)%Z; apply firstn_skipn. Qed.

Lemma py_lastn_split {A} k (l : list A) :
  k <= length l ->
  l = firstn (length l - k) l ++ py_lastn k l
  /\ length (firstn (length l - k) l) = length l - k
  /\ length (py_lastn k l) = k.
Proof.
  intros H. unfold py_lastn. split; [symmetry; apply firstn_skipn|].
  rewrite firstn_length, skipn_length. lia.
Qed.

Lemma aget_aset_eq {V} n (v : V) m : aget n (aset n v m) = Some v.
Proof.
  induction m as [|[k x] m IH]; cbn.
  - rewrite Nat.eqb_refl. reflexivity.
  - destruct (Nat.eqb n k) eqn:E; cbn; rewrite E; auto.
Qed.

Lemma aget_aset_neq {V} n k (v : V) m : k <> n -> aget k (aset n v m) = aget k m.
Proof.
  intros Hk. induction m as [|[k' x] m IH]; cbn.
  - apply Nat.eqb_neq in Hk. rewrite Hk. reflexivity.
  - destruct (Nat.eqb n k') eqn:E; cbn.
    + apply Nat.eqb_eq in E. subst k'. apply Nat.eqb_neq in Hk. rewrite Hk. reflexivity.
    + rewrite IH. reflexivity.
Qed.

Lemma aset_same {V} n (c : V) m : aget n m = Some c -> aset n c m = m.
Proof.
  induction m as [|[k x] m IH]; cbn; [discriminate|].
  destruct (Nat.eqb n k) eqn:E; intros H.
  - inversion H; subst. reflexivity.
  - rewrite IH; auto.
Qed.

Lemma akeys_aset {V} n (v c : V) m : aget n m = Some c -> akeys (aset n v m) = akeys m.
Proof.
  induction m as [|[k x] m IH]; cbn; [discriminate|].
  destruct (Nat.eqb n k) eqn:E; intros H; cbn; [reflexivity|].
  f_equal. apply IH. exact H.
Qed.

Lemma aget_keys {V} n (m : amap V) : (exists c, aget n m = Some c) <-> In n (akeys m).
Proof.
  induction m as [|[k x] m IH]; cbn.
  - split; [intros [c H]; discriminate | tauto].
  - destruct (Nat.eqb n k) eqn:E.
    + apply Nat.eqb_eq in E. subst. split; [auto | intros _; eauto].
    + apply Nat.eqb_neq in E. rewrite IH. split; [auto | intros [H|H]; [congruence | exact H]].
Qed.

Lemma ahas_keys {V} n (m : amap V) : ahas n m = true <-> In n (akeys m).
Proof.
  rewrite <- aget_keys. unfold ahas. destruct (aget n m).
  - split; eauto.
  - split; [discriminate | intros [c H]; discriminate].
Qed.

Lemma adel_not_key {V} n (m : amap V) : NoDup (akeys m) -> ~ In n (akeys (adel n m)).
Proof.
  induction m as [|[k x] m IH]; cbn; [tauto|].
  intros H. inversion H; subst. destruct (Nat.eqb n k) eqn:E.
  - apply Nat.eqb_eq in E. subst. assumption.
  - apply Nat.eqb_neq in E. cbn. intros [H'|H']; [congruence | exact (IH H3 H')].
Qed.

Lemma books_adel n cur (m : amap (list nat)) :
  aget n m = Some cur ->
  Permutation (flat_map snd m) (cur ++ flat_map snd (adel n m)).
Proof.
  induction m as [|[k x] m IH]; cbn; [discriminate|].
  destruct (Nat.eqb n k) eqn:E; intros H.
  - inversion H; subst. reflexivity.
  - cbn. specialize (IH H). perm_count.
Qed.

Lemma books_aset n cur new (m : amap (list nat)) :
  aget n m = Some cur ->
  Permutation (flat_map snd (aset n new m)) (new ++ flat_map snd (adel n m)).
Proof.
  induction m as [|[k x] m IH]; cbn; [discriminate|].
  destruct (Nat.eqb n k) eqn:E; intros H; cbn.
  - reflexivity.
  - specialize (IH H). perm_count.
Qed.

Lemma books_aset_app n cur t (m : amap (list nat)) :
  aget n m = Some cur ->
  Permutation (flat_map snd (aset n (cur ++ t) m)) (flat_map snd m ++ t).
Proof.
  intros H. pose proof (books_adel n cur m H). pose proof (books_aset n cur (cur ++ t) m H).
  perm_count.
Qed.

Lemma remove_first_perm x l l' : remove_first x l = Some l' -> Permutation l (x :: l').
Proof.
  revert l'. induction l as [|y l IH]; cbn; intros l' H; [discriminate|].
  destruct (Nat.eqb x y) eqn:E.
  - apply Nat.eqb_eq in E. inversion H; subst. reflexivity.
  - destruct (remove_first x l) as [r|]; [|discriminate]. inversion H; subst.
    specialize (IH r eq_refl). perm_count.
Qed.

Lemma mem_nat_In x l : mem_nat x l = true <-> In x l.
Proof.
  unfold mem_nat. rewrite existsb_exists. split.
  - intros (y & Hy & E). apply Nat.eqb_eq in E. subst. exact Hy.
  - intros H. exists x. split; [exact H | apply Nat.eqb_refl].
Qed.

Lemma filter_nil_mem (l : list nat) : filter (fun i => negb (mem_nat i [])) l = l.
Proof. induction l; cbn; [reflexivity | f_equal; assumption]. Qed.

(* ---------- (W9) nothing happens before the initial distribution ---------- *)
Theorem W9_check_schedule_before_distribution s :
  ws_coll s = None -> ws_check_schedule s = (s, [], Ok tt).
Proof. intros H. unfold ws_check_schedule. munf. rewrite H. reflexivity. Qed.

(* ---------- ws_send_tests in closed form ---------- *)
Definition st_after (n : nat) (num : Z) (s : wsstate) (cur : list nat) : wsstate :=
  ws_set_n2p (ws_set_pending s (py_drop num (ws_pending s)))
             (aset n (cur ++ py_take num (ws_pending s)) (ws_n2p s)).

Lemma send_tests_eq n num s :
  ws_send_tests n num s =
  match py_take num (ws_pending s) with
  | [] => (s, [], Ok tt)
  | _ :: _ =>
      match aget n (ws_n2p s) with
      | None => (ws_set_pending s (py_drop num (ws_pending s)), [], Err EKey)
      | Some cur =>
          match aget n (ws_nt s) with
          | None => (st_after n num s cur, [], Err EKey)
          | Some f => (st_after n num s cur,
                       if n_closed f then [] else [OSend n (CRun (py_take num (ws_pending s)))],
                       Ok tt)
          end
      end
  end.
Proof.
  unfold ws_send_tests, st_after. munf.
  destruct (py_take num (ws_pending s)) eqn:Et; [reflexivity|]. proj.
  destruct (aget n (ws_n2p s)); [|reflexivity]. proj.
  destruct (aget n (ws_nt s)) as [f|]; [|reflexivity].
  destruct (n_closed f); reflexivity.
Qed.

(* everything the later proofs need to know about one ws_send_tests call *)
Lemma send_tests_props n num s s' outs r :
  ws_send_tests n num s = (s', outs, r) ->
  ws_pending s = py_take num (ws_pending s) ++ ws_pending s'
  /\ (r = Ok tt -> Permutation (tokens s') (tokens s))
  /\ Forall (fun o => o = OSend n (CRun (py_take num (ws_pending s)))) outs
  /\ ws_steal s' = ws_steal s /\ ws_nt s' = ws_nt s /\ ws_coll s' = ws_coll s
  /\ ws_n2c s' = ws_n2c s /\ ws_numnodes s' = ws_numnodes s
  /\ akeys (ws_n2p s') = akeys (ws_n2p s)
  /\ (forall c, aget n (ws_nt s) = Some c -> n_closed c = false -> r = Ok tt ->
      sent_inds outs = py_take num (ws_pending s))
  /\ (In n (akeys (ws_n2p s)) -> In n (akeys (ws_nt s)) -> r = Ok tt).
Proof.
  rewrite send_tests_eq. intros H.
  pose proof (py_take_drop num (ws_pending s)) as Htd.
  destruct (py_take num (ws_pending s)) as [|t0 tl] eqn:Et.
  { inversion H; subst. repeat split; auto. }
  destruct (aget n (ws_n2p s)) as [cur|] eqn:Ec.
  2:{ inversion H; subst. proj. repeat split; auto; try discriminate.
      intros Hk. apply aget_keys in Hk. destruct Hk as [c Hc]. congruence. }
  assert (Hperm : Permutation (tokens (st_after n num s cur)) (tokens s)).
  { unfold tokens, books, st_after. proj. rewrite Et.
    pose proof (books_aset_app n cur (t0 :: tl) (ws_n2p s) Ec) as Hp.
    rewrite <- Htd at 2. perm_count. }
  assert (Hkeys : akeys (ws_n2p (st_after n num s cur)) = akeys (ws_n2p s)).
  { unfold st_after. proj. eapply akeys_aset. exact Ec. }
  destruct (aget n (ws_nt s)) as [f|] eqn:Ef.
  2:{ inversion H; subst. unfold st_after in *. proj. repeat split; auto; try discriminate.
      intros _ Hk. apply aget_keys in Hk. destruct Hk as [c Hc]. congruence. }
  inversion H; subst. unfold st_after in *. proj.
  repeat split; auto.
  - destruct (n_closed f); repeat constructor.
  - intros c Hc Hcl _. inversion Hc; subst. rewrite Hcl. unfold sent_inds. cbn [flat_map run_inds]. apply app_nil_r.
Qed.

(* ---------- (W1) ---------- *)
Theorem W1_send_tests n num s s' outs r :
  ws_send_tests n num s = (s', outs, r) ->
  ws_pending s = py_take num (ws_pending s) ++ ws_pending s'
  /\ (r = Ok tt -> Permutation (tokens s') (tokens s))
  /\ Forall (fun o => o = OSend n (CRun (py_take num (ws_pending s)))) outs
  /\ ws_steal s' = ws_steal s /\ ws_nt s' = ws_nt s /\ ws_coll s' = ws_coll s
  /\ (r = Ok tt -> akeys (ws_n2p s') = akeys (ws_n2p s)).
Proof.
  intros H. apply send_tests_props in H.
  destruct H as (H1 & H2 & H3 & H4 & H5 & H6 & _ & _ & H9 & _). repeat split; auto.
Qed.

(* with an open channel exactly the moved indices are sent (once); with a closed
   channel nothing is sent although the indices are booked on the node *)
Theorem W1_send_tests_sent n num s s' outs c :
  ws_send_tests n num s = (s', outs, Ok tt) ->
  aget n (ws_nt s) = Some c ->
  sent_inds outs = if n_closed c then [] else py_take num (ws_pending s).
Proof.
  rewrite send_tests_eq. intros H Hc.
  destruct (py_take num (ws_pending s)) as [|t0 tl] eqn:Et.
  { inversion H; subst. destruct (n_closed c); reflexivity. }
  destruct (aget n (ws_n2p s)); [|discriminate]. rewrite Hc in H.
  inversion H; subst. destruct (n_closed c); unfold sent_inds; cbn [flat_map run_inds]; [reflexivity | apply app_nil_r].
Qed.

(* ---------- ws_distribute ---------- *)
Lemma distribute_cons n rest s :
  ws_distribute (n :: rest) s =
  let '(s1, o1, r1) :=
    ws_send_tests n (zlen (ws_pending s) / Z.of_nat (S (length rest)))%Z s in
  match r1 with
  | Err e => (s1, o1, Err e)
  | Ok _ => let '(s2, o2, r2) := ws_distribute rest s1 in (s2, o1 ++ o2, r2)
  end.
Proof.
  cbn [ws_distribute]. unfold mbind at 1. unfold get. unfold mbind at 1.
  cbn [length]. destruct (ws_send_tests n _ s) as [[s1 o1] [[]|e]]; [|reflexivity].
  destruct (ws_distribute rest s1) as [[s2 o2] r2]. reflexivity.
Qed.

Definition all_open (l : list nat) (s : wsstate) : Prop :=
  forall n, In n l -> exists c, aget n (ws_nt s) = Some c /\ n_closed c = false.
Definition all_known (l : list nat) (s : wsstate) : Prop :=
  forall n, In n l -> In n (akeys (ws_n2p s)) /\ In n (akeys (ws_nt s)).

Definition dist_post (idle : list nat) (s s' : wsstate) (outs : list out) (r : result unit) : Prop :=
  (exists moved, ws_pending s = moved ++ ws_pending s'
                 /\ (all_open idle s -> r = Ok tt -> sent_inds outs = moved))
  /\ (r = Ok tt -> Permutation (tokens s') (tokens s))
  /\ Forall (fun o => exists n ixs, In n idle /\ o = OSend n (CRun ixs)) outs
  /\ ws_steal s' = ws_steal s /\ ws_nt s' = ws_nt s /\ ws_coll s' = ws_coll s
  /\ ws_n2c s' = ws_n2c s /\ ws_numnodes s' = ws_numnodes s
  /\ akeys (ws_n2p s') = akeys (ws_n2p s)
  /\ (all_known idle s -> r = Ok tt).

Lemma dist_post_refl idle s : dist_post idle s s [] (Ok tt).
Proof.
  unfold dist_post. repeat split; auto. exists []. split; auto.
Qed.

Lemma distribute_post idle : forall s s' outs r,
  ws_distribute idle s = (s', outs, r) -> dist_post idle s s' outs r.
Proof.
  induction idle as [|n rest IH]; intros s s' outs r H.
  - cbn in H. inversion H; subst. apply dist_post_refl.
  - rewrite distribute_cons in H.
    destruct (ws_send_tests n _ s) as [[s1 o1] r1] eqn:E1.
    apply send_tests_props in E1.
    destruct E1 as (P1 & P2 & P3 & P4 & P5 & P6 & P7 & P8 & P9 & P10 & P11).
    assert (Ho1 : Forall (fun o => exists m ixs, In m (n :: rest) /\ o = OSend m (CRun ixs)) o1).
    { eapply Forall_impl; [|exact P3]. cbn beta. intros o ->. eexists _, _. split; [left|]; reflexivity. }
    destruct r1 as [[]|e].
    + destruct (ws_distribute rest s1) as [[s2 o2] r2] eqn:E2.
      apply IH in E2. inversion H; subst. clear H.
      destruct E2 as ((mv & Q1 & Q1') & Q2 & Q3 & Q4 & Q5 & Q6 & Q7 & Q8 & Q9 & Q10).
      unfold dist_post. repeat split; try congruence.
      * eexists (_ ++ mv). split.
        { rewrite P1 at 1. rewrite Q1. rewrite app_assoc. reflexivity. }
        intros Hop Hr. unfold sent_inds. rewrite flat_map_app. f_equal.
        { destruct (Hop n (or_introl eq_refl)) as (c & Hc & Hcl). eapply P10; eauto. }
        apply Q1'; [|exact Hr]. intros m Hm. rewrite P5. apply Hop. right. exact Hm.
      * intros Hr. etransitivity; [apply Q2; exact Hr | apply P2; reflexivity].
      * apply Forall_app. split; [exact Ho1|].
        eapply Forall_impl; [|exact Q3]. cbn beta. intros o (m & ixs & Hm & ->).
        eexists _, _. split; [right; exact Hm | reflexivity].
      * intros Hk. apply Q10. intros m Hm. rewrite P9, P5. apply Hk. right. exact Hm.
    + inversion H; subst. clear H. unfold dist_post. repeat split; auto; try discriminate.
      * eexists. split; [exact P1 | discriminate].
      * intros Hk. destruct (Hk n (or_introl eq_refl)) as [K1 K2]. apply P11; assumption.
Qed.

(* ---------- the second half of check_schedule, in closed form ---------- *)
Definition shut_loop (l : list nat) : W unit :=
  mfor l (fun n => node_shutdown ws_nt ws_set_nt n).

Definition steal_res (v k : nat) (s1 : wsstate) : wsstate * list out * result unit :=
  match aget v (ws_n2p s1) with
  | None => (s1, [], Err EKey)
  | Some vp =>
      match aget v (ws_nt s1) with
      | None => (s1, [], Err EKey)
      | Some f => (ws_set_steal s1 (Some v),
                   if n_closed f then [] else [OSend v (CSteal (py_lastn (S k) vp))],
                   Ok tt)
      end
  end.

Definition ws_phase2 (up : list nat) (s1 : wsstate) : wsstate * list out * result unit :=
  match ws_idle s1 up with
  | [] => (s1, [], Ok tt)
  | _ :: _ =>
      match ws_steal s1 with
      | Some _ => (s1, [], Ok tt)
      | None =>
          match first_max s1 up None with
          | None => shut_loop (ws_idle s1 up) s1
          | Some v =>
              match Nat.min (ws_len s1 v / 2) (ws_len s1 v - MIN_PENDING) with
              | 0 => shut_loop (ws_idle s1 up) s1
              | S k => steal_res v k s1
              end
          end
      end
  end.

Lemma check_schedule_eq s :
  ws_check_schedule s =
  match ws_coll s with
  | None => (s, [], Ok tt)
  | Some _ =>
      match ws_idle s (ws_up s) with
      | [] => (s, [], Ok tt)
      | _ :: _ =>
          let '(s1, o1, r1) :=
            match ws_pending s with
            | [] => (s, [], Ok tt)
            | _ :: _ => ws_distribute (ws_idle s (ws_up s)) s
            end in
          match r1 with
          | Err e => (s1, o1, Err e)
          | Ok _ => let '(s2, o2, r2) := ws_phase2 (ws_up s) s1 in (s2, o1 ++ o2, r2)
          end
      end
  end.
Proof.
  unfold ws_check_schedule, ws_phase2, steal_res, shut_loop. munf.
  destruct (ws_coll s); [|reflexivity].
  destruct (ws_idle s (ws_up s)) as [|i0 il] eqn:Ei; [reflexivity|].
  destruct (ws_pending s) as [|p0 pl] eqn:Ep.
  - rewrite Ei.
    destruct (ws_steal s); [reflexivity|].
    destruct (first_max s (ws_up s) None) as [v|].
    2:{ destruct (mfor _ _ s) as [[s2 o2] r2]. reflexivity. }
    destruct (Nat.min _ _).
    { destruct (mfor _ _ s) as [[s2 o2] r2]. reflexivity. }
    destruct (aget v (ws_n2p s)); [|reflexivity].
    destruct (aget v (ws_nt s)) as [f|]; [|reflexivity].
    destruct (n_closed f); reflexivity.
  - destruct (ws_distribute (i0 :: il) s) as [[s1 o1] [[]|e]]; [|reflexivity].
    destruct (ws_idle s1 (ws_up s)) as [|j0 jl]; [reflexivity|].
    destruct (ws_steal s1); [reflexivity|].
    destruct (first_max s1 (ws_up s) None) as [v|].
    2:{ destruct (mfor _ _ s1) as [[s2 o2] r2]. reflexivity. }
    destruct (Nat.min _ _).
    { destruct (mfor _ _ s1) as [[s2 o2] r2]. reflexivity. }
    destruct (aget v (ws_n2p s1)); [|reflexivity].
    destruct (aget v (ws_nt s1)) as [f|]; [|reflexivity].
    destruct (n_closed f); reflexivity.
Qed.

(* ---------- node_shutdown and the shutdown loop ---------- *)
Definition sd_flags (f : nctl) : nctl :=
  {| n_spec := n_spec f; n_down := n_down f; n_sdsent := true; n_closed := n_closed f |}.

Lemma node_shutdown_eq n s :
  node_shutdown ws_nt ws_set_nt n s =
  match aget n (ws_nt s) with
  | None => (s, [], Err EKey)
  | Some f =>
      if n_down f || n_sdsent f then (s, [], Ok tt)
      else (ws_set_nt s (aset n (sd_flags f) (ws_nt s)),
            if n_closed f then [] else [OSend n CShutdown], Ok tt)
  end.
Proof.
  unfold node_shutdown, sd_flags. munf.
  destruct (aget n (ws_nt s)) as [f|] eqn:Ef; [|reflexivity].
  destruct (n_down f || n_sdsent f); [reflexivity|].
  rewrite Ef. destruct (n_closed f); reflexivity.
Qed.

(* only the node table differs, and it keeps its keys *)
Definition nt_only (s s' : wsstate) : Prop :=
  ws_n2p s' = ws_n2p s /\ ws_pending s' = ws_pending s /\ ws_coll s' = ws_coll s
  /\ ws_steal s' = ws_steal s /\ ws_n2c s' = ws_n2c s /\ ws_numnodes s' = ws_numnodes s
  /\ akeys (ws_nt s') = akeys (ws_nt s).

Lemma nt_only_refl s : nt_only s s.
Proof. unfold nt_only. repeat split; reflexivity. Qed.

Lemma nt_only_trans a b c : nt_only a b -> nt_only b c -> nt_only a c.
Proof. unfold nt_only. intuition congruence. Qed.

Lemma shut_loop_frame l s s' o r :
  shut_loop l s = (s', o, r) ->
  nt_only s s' /\ Forall (fun x => exists n, In n l /\ x = OSend n CShutdown) o.
Proof.
  unfold shut_loop. apply mfor_ind.
  - apply nt_only_refl.
  - apply nt_only_trans.
  - intros n t t' o' r' Hn H. rewrite node_shutdown_eq in H.
    destruct (aget n (ws_nt t)) as [f|] eqn:Ef.
    2:{ inversion H; subst. split; [apply nt_only_refl | constructor]. }
    destruct (n_down f || n_sdsent f).
    { inversion H; subst. split; [apply nt_only_refl | constructor]. }
    inversion H; subst. split.
    + unfold nt_only. proj. repeat split; auto. eapply akeys_aset. exact Ef.
    + destruct (n_closed f); repeat constructor. exists n. auto.
Qed.

Lemma shut_loop_ok l : forall s s' o r,
  shut_loop l s = (s', o, r) -> (forall n, In n l -> In n (akeys (ws_nt s))) -> r = Ok tt.
Proof.
  unfold shut_loop. induction l as [|n l IH]; intros s s' o r H Hk.
  - cbn in H. inversion H. reflexivity.
  - cbn [mfor] in H. apply mbind_inv in H.
    destruct H as [(e & H & _) | (s1 & o1 & a & o2 & H1 & H2 & ->)].
    + exfalso. rewrite node_shutdown_eq in H.
      pose proof (Hk n (or_introl eq_refl)) as Hc. apply aget_keys in Hc.
      destruct Hc as [c Hc]. rewrite Hc in H.
      destruct (n_down c || n_sdsent c); discriminate.
    + eapply IH; [exact H2|]. intros m Hm.
      assert (F : nt_only s s1).
      { apply (shut_loop_frame [n] s s1 o1 (Ok a)). unfold shut_loop. cbn [mfor].
        unfold mbind. rewrite H1. cbn. rewrite app_nil_r. destruct a. reflexivity. }
      destruct F as (_ & _ & _ & _ & _ & _ & F). rewrite F. apply Hk. right. exact Hm.
Qed.

(* ---------- ws_up, ws_idle, first_max ---------- *)
Lemma ws_up_spec s n :
  In n (ws_up s) <->
  In n (akeys (ws_n2p s))
  /\ exists c, aget n (ws_nt s) = Some c /\ shutting_down c = false /\ ahas n (ws_n2c s) = true.
Proof.
  unfold ws_up. rewrite filter_In. split; intros [H1 H2]; split; auto.
  - destruct (aget n (ws_nt s)) as [c|]; [|discriminate]. exists c.
    apply andb_true_iff in H2. destruct H2 as [H2 H3]. apply negb_true_iff in H2. auto.
  - destruct H2 as (c & -> & H2 & H3). rewrite H2, H3. reflexivity.
Qed.

Lemma ws_idle_spec s up n : In n (ws_idle s up) <-> In n up /\ ws_len s n < 2.
Proof.
  unfold ws_idle, MIN_PENDING. rewrite filter_In, Nat.ltb_lt. reflexivity.
Qed.

Lemma ws_len_ext s s' n : ws_n2p s' = ws_n2p s -> ws_len s' n = ws_len s n.
Proof. unfold ws_len. intros ->. reflexivity. Qed.

Lemma first_max_in s l : forall best v,
  first_max s l best = Some v -> In v l \/ best = Some v.
Proof.
  induction l as [|n l IH]; cbn [first_max In]; intros best v H; [auto|].
  destruct best as [b|].
  - destruct (ws_len s b <? ws_len s n).
    + apply IH in H. destruct H as [H|H]; [auto | inversion H; auto].
    + apply IH in H. destruct H; auto.
  - apply IH in H. destruct H as [H|H]; [auto | inversion H; auto].
Qed.

(* ---------- inversion of the two halves ---------- *)
Lemma phase2_inv up s1 s' o2 r :
  ws_phase2 up s1 = (s', o2, r) ->
  (s' = s1 /\ o2 = [] /\ r = Ok tt
   /\ (ws_idle s1 up = [] \/ exists m, ws_steal s1 = Some m))
  \/ (ws_steal s1 = None /\ ws_idle s1 up <> [] /\
      exists v k vp f,
        first_max s1 up None = Some v
        /\ Nat.min (ws_len s1 v / 2) (ws_len s1 v - 2) = S k
        /\ aget v (ws_n2p s1) = Some vp /\ aget v (ws_nt s1) = Some f
        /\ s' = ws_set_steal s1 (Some v) /\ r = Ok tt
        /\ o2 = if n_closed f then [] else [OSend v (CSteal (py_lastn (S k) vp))])
  \/ (ws_steal s1 = None /\ ws_idle s1 up <> []
      /\ shut_loop (ws_idle s1 up) s1 = (s', o2, r))
  \/ (s' = s1 /\ o2 = [] /\ r = Err EKey /\
      exists v, first_max s1 up None = Some v
                /\ (aget v (ws_n2p s1) = None \/ aget v (ws_nt s1) = None)).
Proof.
  unfold ws_phase2, steal_res, MIN_PENDING. intros H.
  destruct (ws_idle s1 up) as [|j0 jl] eqn:Ei.
  { inversion H; subst. left. auto. }
  destruct (ws_steal s1) as [m|] eqn:Es.
  { inversion H; subst. left. repeat split; eauto. }
  assert (Hne : j0 :: jl <> []) by discriminate.
  destruct (first_max s1 up None) as [v|] eqn:Ev.
  2:{ right. right. left. auto. }
  destruct (Nat.min _ _) as [|k] eqn:Ek.
  { right. right. left. auto. }
  destruct (aget v (ws_n2p s1)) as [vp|] eqn:Evp.
  2:{ inversion H; subst. right. right. right. repeat split; eauto. }
  destruct (aget v (ws_nt s1)) as [f|] eqn:Ef.
  2:{ inversion H; subst. right. right. right. repeat split; eauto. }
  inversion H; subst. right. left. repeat split; auto.
  exists v, k, vp, f. repeat split; auto.
Qed.

Lemma up_known s : all_known (ws_up s) s.
Proof.
  intros n Hn. apply ws_up_spec in Hn. destruct Hn as (H1 & c & Hc & _).
  split; [exact H1 | apply aget_keys; eauto].
Qed.

Lemma check_inv s s' outs r :
  ws_check_schedule s = (s', outs, r) ->
  (s' = s /\ outs = [] /\ r = Ok tt)
  \/ exists s1 o1 o2,
       ws_coll s <> None
       /\ dist_post (ws_idle s (ws_up s)) s s1 o1 (Ok tt)
       /\ ws_phase2 (ws_up s) s1 = (s', o2, r)
       /\ outs = o1 ++ o2.
Proof.
  rewrite check_schedule_eq. intros H.
  destruct (ws_coll s) as [coll|] eqn:Ec.
  2:{ inversion H; subst. left. auto. }
  destruct (ws_idle s (ws_up s)) as [|i0 il] eqn:Ei.
  { inversion H; subst. left. auto. }
  right.
  destruct (match ws_pending s with [] => (s, [], Ok tt) | _ :: _ => ws_distribute (i0 :: il) s end)
    as [[s1 o1] r1] eqn:E1.
  assert (D : dist_post (i0 :: il) s s1 o1 r1).
  { destruct (ws_pending s).
    - inversion E1; subst. apply dist_post_refl.
    - apply distribute_post. exact E1. }
  assert (R1 : r1 = Ok tt).
  { destruct D as (_ & _ & _ & _ & _ & _ & _ & _ & _ & D). apply D.
    intros n Hn. apply up_known. rewrite <- Ei in Hn. apply ws_idle_spec in Hn. tauto. }
  subst r1.
  destruct (ws_phase2 (ws_up s) s1) as [[s2 o2] r2] eqn:E2.
  inversion H; subst. exists s1, o1, o2.
  split; [discriminate|]. split; [exact D|]. split; [exact E2 | reflexivity].
Qed.

(* ---------- what each kind of output contributes ---------- *)
Lemma steal_reqs_app a b : steal_reqs (a ++ b) = steal_reqs a ++ steal_reqs b.
Proof. apply flat_map_app. Qed.
Lemma sent_inds_app a b : sent_inds (a ++ b) = sent_inds a ++ sent_inds b.
Proof. apply flat_map_app. Qed.

Lemma steal_reqs_run (P : nat -> Prop) o :
  Forall (fun x => exists n ixs, P n /\ x = OSend n (CRun ixs)) o -> steal_reqs o = [].
Proof.
  induction 1 as [|x o (n & ixs & _ & ->) _ IH]; [reflexivity | exact IH].
Qed.

Lemma steal_reqs_shut (P : nat -> Prop) o :
  Forall (fun x => exists n, P n /\ x = OSend n CShutdown) o -> steal_reqs o = [].
Proof.
  induction 1 as [|x o (n & _ & ->) _ IH]; [reflexivity | exact IH].
Qed.

Lemma sent_inds_shut (P : nat -> Prop) o :
  Forall (fun x => exists n, P n /\ x = OSend n CShutdown) o -> sent_inds o = [].
Proof.
  induction 1 as [|x o (n & _ & ->) _ IH]; [reflexivity | exact IH].
Qed.

Lemma tokens_ext s s' :
  ws_pending s' = ws_pending s -> ws_n2p s' = ws_n2p s -> tokens s' = tokens s.
Proof. unfold tokens, books. intros -> ->. reflexivity. Qed.

(* ---------- the complete case analysis of one check_schedule call ---------- *)
Definition steal_out (v k : nat) (vp : list nat) (f : nctl) : list out :=
  if n_closed f then [] else [OSend v (CSteal (py_lastn (S k) vp))].

Lemma check_cases s s' outs r :
  ws_check_schedule s = (s', outs, r) ->
  r = Ok tt /\
  exists s1 o1 o2,
    outs = o1 ++ o2
    /\ dist_post (ws_idle s (ws_up s)) s s1 o1 (Ok tt)
    /\ ((s' = s1 /\ o2 = [])
        \/ (ws_steal s1 = None /\
            exists v k vp f,
              In v (ws_up s)
              /\ Nat.min (length vp / 2) (length vp - 2) = S k
              /\ aget v (ws_n2p s1) = Some vp /\ aget v (ws_nt s) = Some f
              /\ s' = ws_set_steal s1 (Some v) /\ o2 = steal_out v k vp f)
        \/ (ws_steal s1 = None /\ nt_only s1 s'
            /\ Forall (fun x => exists n, In n (ws_idle s1 (ws_up s)) /\ x = OSend n CShutdown) o2)).
Proof.
  intros H. apply check_inv in H.
  destruct H as [(-> & -> & ->) | (s1 & o1 & o2 & Hc & D & H2 & ->)].
  { split; [reflexivity|]. exists s, [], []. split; [reflexivity|].
    split; [apply dist_post_refl | left; auto]. }
  pose proof D as D'.
  destruct D' as (_ & _ & _ & Dsteal & Dnt & _ & _ & _ & Dkeys & _).
  apply phase2_inv in H2.
  destruct H2 as [(-> & -> & -> & _) | [(Hs & _ & v & k & vp & f & Hv & Hk & Hvp & Hf & -> & -> & ->)
                 | [(Hs & _ & Hl) | (-> & -> & -> & v & Hv & Hbad)]]].
  - split; [reflexivity|]. exists s1, o1, []. auto.
  - split; [reflexivity|]. exists s1, o1, (steal_out v k vp f). split; [reflexivity|].
    split; [exact D|]. right. left. split; [exact Hs|]. exists v, k, vp, f.
    apply first_max_in in Hv. destruct Hv as [Hv|Hv]; [|discriminate].
    assert (Hlen : ws_len s1 v = length vp) by (unfold ws_len; rewrite Hvp; reflexivity).
    rewrite Hlen in Hk. rewrite Dnt in Hf. repeat split; auto.
  - pose proof (shut_loop_frame _ _ _ _ _ Hl) as [F Q]. split.
    + eapply shut_loop_ok; [exact Hl|]. intros n Hn. apply ws_idle_spec in Hn.
      destruct Hn as [Hn _]. apply up_known in Hn. rewrite Dnt. tauto.
    + exists s1, o1, o2. split; [reflexivity|]. split; [exact D|]. right. right. auto.
  - exfalso. apply first_max_in in Hv. destruct Hv as [Hv|Hv]; [|discriminate].
    apply up_known in Hv. destruct Hv as [K1 K2].
    rewrite <- Dkeys in K1. rewrite <- Dnt in K2.
    apply aget_keys in K1. apply aget_keys in K2.
    destruct K1 as [c1 K1]. destruct K2 as [c2 K2]. destruct Hbad; congruence.
Qed.

(* ---------- bonus: check_schedule never raises ---------- *)
Theorem W10_check_schedule_never_raises s s' outs r :
  ws_check_schedule s = (s', outs, r) -> r = Ok tt.
Proof. intros H. apply check_cases in H. tauto. Qed.

(* ---------- (W2) at most one steal request outstanding ---------- *)
(* The fourth bullet as originally stated,
     steal_reqs outs = [] -> ws_steal s' = ws_steal s,
   is false: when the victim's channel is closed (n_closed) the command is dropped by
   sendcommand but steal_requested_from_node is still set.  See W2_closed_counterexample. *)
Theorem W2_single_steal s s' outs r :
  ws_check_schedule s = (s', outs, r) ->
  length (steal_reqs outs) <= 1
  /\ (forall m, ws_steal s = Some m -> steal_reqs outs = [] /\ ws_steal s' = Some m)
  /\ (forall v ixs, steal_reqs outs = [(v, ixs)] -> ws_steal s = None /\ ws_steal s' = Some v)
  /\ (steal_reqs outs = [] ->
      ws_steal s' = ws_steal s
      \/ (ws_steal s = None /\
          exists v c, ws_steal s' = Some v /\ In v (ws_up s)
                      /\ aget v (ws_nt s) = Some c /\ n_closed c = true)).
Proof.
  intros H. apply check_cases in H.
  destruct H as (_ & s1 & o1 & o2 & -> & D & H).
  destruct D as (_ & _ & Dout & Dsteal & _).
  rewrite steal_reqs_app, (steal_reqs_run _ _ Dout). cbn [app].
  destruct H as [(-> & ->) | [(Hs & v & k & vp & f & Hv & Hk & Hvp & Hf & -> & ->)
                             | (Hs & F & Q)]].
  - cbn. repeat split; try congruence; auto; try discriminate.
  - rewrite Hs in Dsteal. unfold steal_out. proj. destruct (n_closed f) eqn:Hcl; cbn.
    + repeat split; try congruence; auto; try discriminate.
      intros _. right. split; [auto|]. exists v, f. auto.
    + repeat split; try congruence; auto; try discriminate.
  - rewrite (steal_reqs_shut _ _ Q). destruct F as (_ & _ & _ & Fs & _). cbn.
    repeat split; try congruence; auto; try discriminate. left. congruence.
Qed.

(* with open channels the fourth bullet holds as stated *)
Theorem W2_no_request_no_marker s s' outs r :
  ws_check_schedule s = (s', outs, r) ->
  all_open (ws_up s) s ->
  steal_reqs outs = [] -> ws_steal s' = ws_steal s.
Proof.
  intros H Hop E. apply W2_single_steal in H. destruct H as (_ & _ & _ & H).
  destruct (H E) as [H'|(_ & v & c & _ & Hv & Hc & Hcl)]; [exact H'|].
  destruct (Hop v Hv) as (c' & Hc' & Hcl'). congruence.
Qed.

(* ---------- (W3) only the tail is requested, two tests stay ---------- *)
Theorem W3_steal_tail s s' outs r v ixs :
  ws_check_schedule s = (s', outs, r) ->
  steal_reqs outs = [(v, ixs)] ->
  In v (ws_up s)
  /\ exists book, aget v (ws_n2p s') = Some book
     /\ exists keep, book = keep ++ ixs /\ 2 <= length keep /\ 1 <= length ixs
                     /\ length ixs <= length book / 2.
Proof.
  intros H E. apply check_cases in H.
  destruct H as (_ & s1 & o1 & o2 & -> & D & H).
  destruct D as (_ & _ & Dout & _).
  rewrite steal_reqs_app, (steal_reqs_run _ _ Dout) in E. cbn [app] in E.
  destruct H as [(-> & ->) | [(Hs & v' & k & vp & f & Hv & Hk & Hvp & Hf & -> & ->)
                             | (Hs & F & Q)]].
  - discriminate.
  - unfold steal_out in E. destruct (n_closed f); [discriminate|]. cbn in E.
    inversion E; subst. clear E. split; [exact Hv|]. proj. exists vp. split; [exact Hvp|].
    remember (length vp / 2) as d.
    assert (Hle : S k <= length vp) by lia.
    destruct (py_lastn_split (S k) vp Hle) as (E1 & E2 & E3).
    exists (firstn (length vp - S k) vp). rewrite E2, E3. repeat split; auto; lia.
  - rewrite (steal_reqs_shut _ _ Q) in E. discriminate.
Qed.

(* ---------- (W4) the guard ---------- *)
Definition guard_ok (s s' : wsstate) (o : out) : Prop :=
  match o with
  | OSend n (CRun _) => In n (ws_up s)
  | OSend n (CSteal _) => In n (ws_up s)
  | OSend n CShutdown => In n (ws_up s) /\ ws_len s' n < 2
  | _ => False
  end.

Theorem W4_guard s s' outs r :
  ws_check_schedule s = (s', outs, r) -> Forall (guard_ok s s') outs.
Proof.
  intros H. apply check_cases in H.
  destruct H as (_ & s1 & o1 & o2 & -> & D & H).
  destruct D as (_ & _ & Dout & _).
  apply Forall_app. split.
  - eapply Forall_impl; [|exact Dout]. cbn beta. intros o (n & ixs & Hn & ->). cbn.
    apply ws_idle_spec in Hn. tauto.
  - destruct H as [(-> & ->) | [(Hs & v & k & vp & f & Hv & Hk & Hvp & Hf & -> & ->)
                               | (Hs & F & Q)]].
    + constructor.
    + unfold steal_out. destruct (n_closed f); repeat constructor. exact Hv.
    + eapply Forall_impl; [|exact Q]. cbn beta. intros o (n & Hn & ->). cbn.
      apply ws_idle_spec in Hn. destruct Hn as [Hn Hl]. split; [exact Hn|].
      destruct F as (F & _). rewrite (ws_len_ext s1 s' n F). exact Hl.
Qed.

(* membership of ws_up spelled out: what W4 guarantees about every addressee *)
Corollary W4_guard_flags s s' outs r n c :
  ws_check_schedule s = (s', outs, r) ->
  In (OSend n c) outs ->
  In n (akeys (ws_n2p s))
  /\ exists f, aget n (ws_nt s) = Some f /\ shutting_down f = false
               /\ ahas n (ws_n2c s) = true.
Proof.
  intros H Hin. apply W4_guard in H. rewrite Forall_forall in H. specialize (H _ Hin).
  apply ws_up_spec. destruct c; cbn in H; tauto.
Qed.

(* ---------- (W5) conservation ---------- *)
(* The second half as originally stated,
     ws_pending s = sent_inds outs ++ ws_pending s',
   is false when a receiving node's channel is closed: the indices are booked on the
   node but the run command is dropped.  See W5_closed_counterexample. *)
Theorem W5_conservation s s' outs r :
  ws_check_schedule s = (s', outs, r) ->
  Permutation (tokens s') (tokens s)
  /\ exists moved, ws_pending s = moved ++ ws_pending s'
                   /\ (all_open (ws_up s) s -> sent_inds outs = moved).
Proof.
  intros H. apply check_cases in H.
  destruct H as (_ & s1 & o1 & o2 & -> & D & H).
  destruct D as ((moved & Dm & Dsent) & Dperm & _).
  specialize (Dperm eq_refl).
  assert (Hop : all_open (ws_up s) s -> all_open (ws_idle s (ws_up s)) s).
  { intros Hop n Hn. apply Hop. apply ws_idle_spec in Hn. tauto. }
  assert (T : ws_pending s' = ws_pending s1 /\ ws_n2p s' = ws_n2p s1 /\ sent_inds o2 = []).
  { destruct H as [(-> & ->) | [(Hs & v & k & vp & f & Hv & Hk & Hvp & Hf & -> & ->)
                               | (Hs & F & Q)]].
    - auto.
    - proj. unfold steal_out. destruct (n_closed f); auto.
    - destruct F as (F1 & F2 & _). rewrite (sent_inds_shut _ _ Q). auto. }
  destruct T as (T1 & T2 & T3). rewrite (tokens_ext s1 s' T1 T2). split; [exact Dperm|].
  exists moved. rewrite T1. split; [exact Dm|]. intros Ho.
  rewrite sent_inds_app, T3, app_nil_r. apply Dsent; auto.
Qed.

Corollary W5_conservation_open s s' outs r :
  ws_check_schedule s = (s', outs, r) ->
  all_open (ws_up s) s ->
  ws_pending s = sent_inds outs ++ ws_pending s'.
Proof.
  intros H Ho. apply W5_conservation in H. destruct H as (_ & moved & Hm & Hs).
  rewrite (Hs Ho). exact Hm.
Qed.

(* what check_schedule never touches *)
Lemma check_frame s s' outs r :
  ws_check_schedule s = (s', outs, r) ->
  akeys (ws_n2p s') = akeys (ws_n2p s) /\ ws_coll s' = ws_coll s /\ ws_n2c s' = ws_n2c s
  /\ ws_numnodes s' = ws_numnodes s /\ akeys (ws_nt s') = akeys (ws_nt s).
Proof.
  intros H. apply check_cases in H.
  destruct H as (_ & s1 & o1 & o2 & -> & D & H).
  destruct D as (_ & _ & _ & _ & Dnt & Dcoll & Dn2c & Dnum & Dkeys & _).
  destruct H as [(-> & ->) | [(Hs & v & k & vp & f & Hv & Hk & Hvp & Hf & -> & ->)
                             | (Hs & F & Q)]].
  - rewrite Dnt. auto.
  - proj. rewrite Dnt. auto.
  - destruct F as (F1 & F2 & F3 & F4 & F5 & F6 & F7). repeat split; congruence.
Qed.

(* ---------- (W6) the worker's `unscheduled` reply ---------- *)
Definition rp_mid (n : nat) (ixs : list nat) (s : wsstate) (cur : list nat) : wsstate :=
  ws_set_pending
    (ws_set_n2p (ws_set_steal s None)
                (aset n (filter (fun i => negb (mem_nat i ixs)) cur) (ws_n2p s)))
    (ws_pending s ++ ixs).

(* the reply is only accepted from the node the request is outstanding on *)
Theorem W6_assert n ixs s :
  ws_steal s <> Some n ->
  ws_remove_pending_tests_from_node n ixs s = (s, [], Err EAssert).
Proof.
  intros H. unfold ws_remove_pending_tests_from_node. munf.
  destruct (ws_steal s) as [m|]; [|reflexivity].
  destruct (Nat.eqb m n) eqn:E; [|reflexivity].
  apply Nat.eqb_eq in E. congruence.
Qed.

Theorem W6_requires_marker n ixs s s' outs r :
  ws_remove_pending_tests_from_node n ixs s = (s', outs, r) ->
  r <> Err EAssert -> ws_steal s = Some n.
Proof.
  intros H Hr. destruct (ws_steal s) as [m|] eqn:Es.
  - destruct (Nat.eq_dec m n) as [->|Hne]; [reflexivity|].
    rewrite W6_assert in H by congruence. inversion H; subst. congruence.
  - rewrite W6_assert in H by congruence. inversion H; subst. congruence.
Qed.

Theorem W6_unknown_node n ixs s :
  ws_steal s = Some n -> aget n (ws_n2p s) = None ->
  ws_remove_pending_tests_from_node n ixs s = (ws_set_steal s None, [], Err EKey).
Proof.
  intros Hs Hc. unfold ws_remove_pending_tests_from_node. munf.
  rewrite Hs, Nat.eqb_refl. munf. proj. rewrite Hc. reflexivity.
Qed.

(* the prefix emits nothing and leaves exactly rp_mid; then check_schedule runs *)
Theorem W6_eq n ixs s cur :
  ws_steal s = Some n -> aget n (ws_n2p s) = Some cur ->
  ws_remove_pending_tests_from_node n ixs s = ws_check_schedule (rp_mid n ixs s cur).
Proof.
  intros Hs Hc. unfold ws_remove_pending_tests_from_node, rp_mid. munf.
  rewrite Hs, Nat.eqb_refl. munf. proj. rewrite Hc.
  match goal with |- context [ws_check_schedule ?a] => destruct (ws_check_schedule a) as [[s2 o2] r2] end.
  reflexivity.
Qed.

Theorem W6_mid_state n ixs s cur :
  aget n (ws_n2p s) = Some cur ->
  let s1 := rp_mid n ixs s cur in
  ws_steal s1 = None
  /\ aget n (ws_n2p s1) = Some (filter (fun i => negb (mem_nat i ixs)) cur)
  /\ (forall m, m <> n -> aget m (ws_n2p s1) = aget m (ws_n2p s))
  /\ akeys (ws_n2p s1) = akeys (ws_n2p s)
  /\ ws_pending s1 = ws_pending s ++ ixs
  /\ ws_nt s1 = ws_nt s /\ ws_coll s1 = ws_coll s /\ ws_n2c s1 = ws_n2c s
  /\ ws_numnodes s1 = ws_numnodes s.
Proof.
  intros Hc. unfold rp_mid. proj. repeat split; auto.
  - apply aget_aset_eq.
  - intros m Hm. apply aget_aset_neq. exact Hm.
  - eapply akeys_aset. exact Hc.
Qed.

(* a refused steal (empty reply) only clears the marker *)
Theorem W6_refused n s cur :
  aget n (ws_n2p s) = Some cur -> rp_mid n [] s cur = ws_set_steal s None.
Proof.
  intros Hc. unfold rp_mid. rewrite filter_nil_mem, (aset_same n cur _ Hc), app_nil_r.
  reflexivity.
Qed.

(* the final state: the old marker is gone; a marker is present afterwards only if
   this very call issued (or tried to issue) a new request *)
Theorem W6_final n ixs s s' outs r :
  ws_steal s = Some n -> In n (akeys (ws_n2p s)) ->
  ws_remove_pending_tests_from_node n ixs s = (s', outs, r) ->
  r = Ok tt
  /\ length (steal_reqs outs) <= 1
  /\ (forall v ixs', steal_reqs outs = [(v, ixs')] -> ws_steal s' = Some v)
  /\ (steal_reqs outs = [] ->
      ws_steal s' = None
      \/ exists v c, ws_steal s' = Some v /\ aget v (ws_nt s) = Some c /\ n_closed c = true).
Proof.
  intros Hs Hk H. apply aget_keys in Hk. destruct Hk as [cur Hc].
  rewrite (W6_eq n ixs s cur Hs Hc) in H.
  pose proof (W10_check_schedule_never_raises _ _ _ _ H) as ->.
  apply W2_single_steal in H. destruct H as (H1 & _ & H3 & H4).
  split; [reflexivity|]. split; [exact H1|]. split.
  - intros v ixs' E. apply (H3 v ixs' E).
  - intros E. destruct (H4 E) as [H|(_ & v & c & Hv & _ & Hcv & Hcl)].
    + left. exact H.
    + right. exists v, c. auto.
Qed.

Lemma filter_all_mem (ixs l : list nat) :
  (forall i, In i l -> In i ixs) -> filter (fun i => negb (mem_nat i ixs)) l = [].
Proof.
  induction l as [|a l IH]; cbn; intros H; [reflexivity|].
  assert (Ha : mem_nat a ixs = true) by (apply mem_nat_In; apply H; auto).
  rewrite Ha. cbn. apply IH. intros i Hi. apply H. auto.
Qed.

Lemma filter_tail keep ixs :
  NoDup (keep ++ ixs) -> filter (fun i => negb (mem_nat i ixs)) (keep ++ ixs) = keep.
Proof.
  induction keep as [|a keep IH]; cbn [app]; intros H.
  - apply filter_all_mem. auto.
  - inversion H; subst. cbn.
    assert (Ha : mem_nat a ixs = false).
    { destruct (mem_nat a ixs) eqn:E; [|reflexivity]. apply mem_nat_In in E.
      exfalso. apply H2. apply in_or_app. auto. }
    rewrite Ha. cbn. f_equal. apply IH. exact H3.
Qed.

(* conservation when the reply is the requested tail of a duplicate-free book
   (what W3 requested): the tail moves from the book to the pool *)
Theorem W6_conservation n keep ixs s s' outs r :
  ws_steal s = Some n -> aget n (ws_n2p s) = Some (keep ++ ixs) -> NoDup (keep ++ ixs) ->
  ws_remove_pending_tests_from_node n ixs s = (s', outs, r) ->
  aget n (ws_n2p (rp_mid n ixs s (keep ++ ixs))) = Some keep
  /\ Permutation (tokens s') (tokens s).
Proof.
  intros Hs Hc Hnd H. rewrite (W6_eq n ixs s _ Hs Hc) in H.
  apply W5_conservation in H. destruct H as (Hp & _).
  unfold rp_mid in *. rewrite (filter_tail keep ixs Hnd) in *. proj.
  split; [apply aget_aset_eq|].
  etransitivity; [exact Hp|]. unfold tokens, books. proj.
  pose proof (books_aset n _ keep _ Hc). pose proof (books_adel n _ _ Hc).
  perm_count.
Qed.

(* ---------- (W7) ws_remove_node: the crash path ---------- *)
Definition rn_mid (n : nat) (s : wsstate) (rest : list nat) : wsstate :=
  {| ws_nt := ws_nt s; ws_numnodes := ws_numnodes s;
     ws_n2c := if ws_collection_is_completed s then ws_n2c s else adel n (ws_n2c s);
     ws_n2p := adel n (ws_n2p s);
     ws_pending := ws_pending s ++ rest;
     ws_coll := ws_coll s;
     ws_steal := match ws_steal s with
                 | Some m => if Nat.eqb m n then None else Some m
                 | None => None
                 end |}.

Lemma W7_eq n s i rest coll item :
  aget n (ws_n2p s) = Some (i :: rest) -> ws_coll s = Some coll -> nth_error coll i = Some item ->
  ws_remove_node n s =
  let '(s', o, r) := ws_check_schedule (rn_mid n s rest) in
  (s', o, match r with Ok _ => Ok (Some item) | Err e => Err e end).
Proof.
  intros Hp Hc Hi.
  unfold ws_remove_node, rn_mid, ws_collection_is_completed,
    ws_set_steal, ws_set_pending, ws_set_n2p, ws_set_n2c.
  munf. rewrite Hp. munf. proj.
  destruct (ws_numnodes s <=? length (ws_n2c s)); munf; proj; rewrite ?Hc; munf; rewrite Hi;
    munf; proj; cbn [tl].
  all: destruct (ws_steal s) as [m|]; [destruct (Nat.eqb m n)|]; munf; proj; rewrite ?Hc.
  all: match goal with |- context [ws_check_schedule ?a] =>
         destruct (ws_check_schedule a) as [[s2 o2] [[]|e]] end;
       cbn [app]; rewrite ?app_nil_r; reflexivity.
Qed.

Lemma W7_eq_idle n s :
  aget n (ws_n2p s) = Some [] ->
  ws_remove_node n s =
  let '(s', o, r) := ws_check_schedule (rn_mid n s []) in
  (s', o, match r with Ok _ => Ok None | Err e => Err e end).
Proof.
  intros Hp.
  unfold ws_remove_node, rn_mid, ws_collection_is_completed,
    ws_set_steal, ws_set_pending, ws_set_n2p, ws_set_n2c.
  munf. rewrite Hp. munf. proj.
  destruct (ws_numnodes s <=? length (ws_n2c s)); munf; proj; cbn [tl].
  all: destruct (ws_steal s) as [m|]; [destruct (Nat.eqb m n)|]; munf; proj.
  all: match goal with |- context [ws_check_schedule ?a] =>
         destruct (ws_check_schedule a) as [[s2 o2] [[]|e]] end;
       cbn [app]; rewrite ?app_nil_r; reflexivity.
Qed.

Lemma rn_mid_marker n s rest : ws_steal s = Some n -> ws_steal (rn_mid n s rest) = None.
Proof. intros H. unfold rn_mid. proj. rewrite H, Nat.eqb_refl. reflexivity. Qed.

Lemma rn_mid_marker_other n m s rest :
  ws_steal s = Some m -> m <> n -> ws_steal (rn_mid n s rest) = Some m.
Proof.
  intros H Hm. unfold rn_mid. proj. rewrite H. apply Nat.eqb_neq in Hm. rewrite Hm. reflexivity.
Qed.

(* "n is not a key of ws_n2p s'" needs the keys of the book table to be duplicate-free
   (adel removes the first binding only); see W7_dupkey_counterexample.  Every table
   built by ws_add_node is duplicate-free (keys_nodup_add_node below). *)
Theorem W7_remove_node n s i rest coll item s' outs r :
  aget n (ws_n2p s) = Some (i :: rest) -> ws_coll s = Some coll -> nth_error coll i = Some item ->
  ws_remove_node n s = (s', outs, r) ->
  r = Ok (Some item)
  /\ ws_check_schedule (rn_mid n s rest) = (s', outs, Ok tt)
  /\ (ws_steal s = Some n -> ws_steal (rn_mid n s rest) = None)
  /\ akeys (ws_n2p s') = akeys (adel n (ws_n2p s))
  /\ (NoDup (akeys (ws_n2p s)) -> ~ In n (akeys (ws_n2p s')))
  /\ Permutation (i :: tokens s') (tokens s).
Proof.
  intros Hp Hc Hi H. rewrite (W7_eq n s i rest coll item Hp Hc Hi) in H.
  destruct (ws_check_schedule (rn_mid n s rest)) as [[s2 o2] r2] eqn:E.
  pose proof (W10_check_schedule_never_raises _ _ _ _ E) as ->.
  inversion H; subst. clear H.
  pose proof (check_frame _ _ _ _ E) as (K & _).
  pose proof (W5_conservation _ _ _ _ E) as (P & _).
  split; [reflexivity|]. split; [reflexivity|]. split; [apply rn_mid_marker|].
  split; [exact K|]. split.
  - intros Hnd. rewrite K. unfold rn_mid. proj. apply adel_not_key. exact Hnd.
  - unfold tokens, books, rn_mid in *. proj.
    pose proof (books_adel n _ _ Hp). perm_count.
Qed.

(* ---------- (W8) ws_mark_test_complete ---------- *)
Theorem W8_mark_test_complete n idx s s' outs r :
  ws_mark_test_complete n idx s = (s', outs, r) -> r = Ok tt ->
  Permutation (idx :: tokens s') (tokens s).
Proof.
  unfold ws_mark_test_complete. munf. intros H ->.
  destruct (aget n (ws_n2p s)) as [cur|] eqn:Ec; [|discriminate]. revert H. munf.
  destruct (remove_first idx cur) as [cur'|] eqn:Er; [|discriminate]. munf.
  match goal with |- context [ws_check_schedule ?a] =>
    destruct (ws_check_schedule a) as [[s2 o2] r2] eqn:E end.
  intros H. inversion H; subst. clear H.
  apply W5_conservation in E. destruct E as (P & _).
  unfold tokens, books in *. proj.
  pose proof (books_aset n _ cur' _ Ec). pose proof (books_adel n _ _ Ec).
  pose proof (remove_first_perm _ _ _ Er). perm_count.
Qed.

(* companion: a crashed item put back by mark_test_pending adds exactly its index *)
Theorem W8b_mark_test_pending item s s' outs r :
  ws_mark_test_pending item s = (s', outs, r) -> r = Ok tt ->
  exists coll idx, ws_coll s = Some coll /\ index_of_str item coll = Some idx
                   /\ Permutation (tokens s') (idx :: tokens s).
Proof.
  unfold ws_mark_test_pending. munf. intros H ->.
  destruct (ws_coll s) as [coll|] eqn:Ec; [|discriminate]. revert H. munf.
  destruct (index_of_str item coll) as [idx|] eqn:Ei; [|discriminate]. munf.
  match goal with |- context [ws_check_schedule ?a] =>
    destruct (ws_check_schedule a) as [[s2 o2] r2] eqn:E end.
  intros H. inversion H; subst. clear H.
  apply W5_conservation in E. destruct E as (P & _).
  exists coll, idx. split; [reflexivity|]. split; [exact Ei|].
  unfold tokens, books in *. proj. perm_count.
Qed.

(* ---------- the book table keeps duplicate-free keys ---------- *)
Lemma akeys_aset_new {V} n (v : V) m : aget n m = None -> akeys (aset n v m) = akeys m ++ [n].
Proof.
  induction m as [|[k x] m IH]; cbn; [reflexivity|].
  destruct (Nat.eqb n k); [discriminate|]. intros H. cbn. f_equal. apply IH. exact H.
Qed.

Lemma adel_keys_incl {V} n (m : amap V) k : In k (akeys (adel n m)) -> In k (akeys m).
Proof.
  induction m as [|[k' x] m IH]; cbn; [tauto|].
  destruct (Nat.eqb n k'); cbn; [auto | intros [H|H]; auto].
Qed.

Lemma keys_nodup_adel {V} n (m : amap V) : NoDup (akeys m) -> NoDup (akeys (adel n m)).
Proof.
  induction m as [|[k x] m IH]; cbn; [auto|].
  intros H. inversion H; subst. destruct (Nat.eqb n k); [assumption|].
  cbn. constructor; [|auto]. intros Hin. apply H2. eapply adel_keys_incl. exact Hin.
Qed.

Theorem keys_nodup_add_node n s s' o r :
  ws_add_node n s = (s', o, r) -> NoDup (akeys (ws_n2p s)) -> NoDup (akeys (ws_n2p s')).
Proof.
  unfold ws_add_node, ahas. munf. destruct (aget n (ws_n2p s)) eqn:E; cbn [negb]; munf.
  - intros H. inversion H; subst. auto.
  - intros H Hnd. inversion H; subst. proj. rewrite (akeys_aset_new n [] _ E).
    apply NoDup_rev in Hnd. rewrite <- (rev_involutive (akeys (ws_n2p s) ++ [n])).
    apply NoDup_rev. rewrite rev_app_distr. cbn. constructor; [|exact Hnd].
    rewrite <- in_rev. intros Hin. apply aget_keys in Hin. destruct Hin as [c Hc]. congruence.
Qed.

Theorem keys_nodup_remove_node n s s' o r :
  ws_remove_node n s = (s', o, r) -> NoDup (akeys (ws_n2p s)) -> NoDup (akeys (ws_n2p s')).
Proof.
  intros H Hnd.
  destruct (aget n (ws_n2p s)) as [[|i rest]|] eqn:Hp.
  - rewrite (W7_eq_idle n s Hp) in H.
    destruct (ws_check_schedule (rn_mid n s [])) as [[s2 o2] r2] eqn:E.
    apply check_frame in E. destruct E as (K & _). inversion H; subst.
    rewrite K. unfold rn_mid. proj. apply keys_nodup_adel. exact Hnd.
  - destruct (ws_coll s) as [coll|] eqn:Hc; [destruct (nth_error coll i) as [item|] eqn:Hi|].
    + rewrite (W7_eq n s i rest coll item Hp Hc Hi) in H.
      destruct (ws_check_schedule (rn_mid n s rest)) as [[s2 o2] r2] eqn:E.
      apply check_frame in E. destruct E as (K & _). inversion H; subst.
      rewrite K. unfold rn_mid. proj. apply keys_nodup_adel. exact Hnd.
    + revert H.
      unfold ws_remove_node, ws_collection_is_completed,
        ws_set_steal, ws_set_pending, ws_set_n2p, ws_set_n2c.
      munf. rewrite Hp. munf. proj.
      destruct (ws_numnodes s <=? length (ws_n2c s)); munf; proj; rewrite ?Hc; munf; rewrite Hi;
        munf; intros H; inversion H; subst; proj; apply keys_nodup_adel; exact Hnd.
    + revert H.
      unfold ws_remove_node, ws_collection_is_completed,
        ws_set_steal, ws_set_pending, ws_set_n2p, ws_set_n2c.
      munf. rewrite Hp. munf. proj.
      destruct (ws_numnodes s <=? length (ws_n2c s)); munf; proj; rewrite ?Hc; munf;
        intros H; inversion H; subst; proj; apply keys_nodup_adel; exact Hnd.
  - revert H. unfold ws_remove_node. munf. rewrite Hp. intros H. inversion H; subst. exact Hnd.
Qed.

Theorem keys_mark_test_complete n idx s s' o r :
  ws_mark_test_complete n idx s = (s', o, r) -> akeys (ws_n2p s') = akeys (ws_n2p s).
Proof.
  unfold ws_mark_test_complete. munf.
  destruct (aget n (ws_n2p s)) as [cur|] eqn:Ec; munf.
  2:{ intros H. inversion H; subst. reflexivity. }
  destruct (remove_first idx cur) as [cur'|]; munf.
  2:{ intros H. inversion H; subst. reflexivity. }
  match goal with |- context [ws_check_schedule ?a] =>
    destruct (ws_check_schedule a) as [[s2 o2] r2] eqn:E end.
  intros H. inversion H; subst. apply check_frame in E. destruct E as (K & _).
  rewrite K. proj. eapply akeys_aset. exact Ec.
Qed.

Theorem keys_remove_pending n ixs s s' o r :
  ws_remove_pending_tests_from_node n ixs s = (s', o, r) ->
  akeys (ws_n2p s') = akeys (ws_n2p s).
Proof.
  intros H. destruct (ws_steal s) as [m|] eqn:Es.
  - destruct (Nat.eq_dec m n) as [->|Hne].
    + destruct (aget n (ws_n2p s)) as [cur|] eqn:Ec.
      * rewrite (W6_eq n ixs s cur Es Ec) in H. apply check_frame in H.
        destruct H as (K & _). rewrite K. apply (W6_mid_state n ixs s cur Ec).
      * rewrite (W6_unknown_node n ixs s Es Ec) in H. inversion H; subst. reflexivity.
    + rewrite W6_assert in H by congruence. inversion H; subst. reflexivity.
  - rewrite W6_assert in H by congruence. inversion H; subst. reflexivity.
Qed.

(* ---------- non-vacuity: concrete sessions ---------- *)
Definition fl (closed : bool) : nctl :=
  {| n_spec := 0; n_down := false; n_sdsent := false; n_closed := closed |}.
Definition coll12 : list string := map (fun _ => "t"%string) (seq 0 12).
Definition mk (nt : ntable) (n2p : amap (list nat)) (pend : list nat) (st : option nat) : wsstate :=
  {| ws_nt := nt; ws_numnodes := length nt;
     ws_n2c := map (fun p => (fst p, coll12)) nt;
     ws_n2p := n2p; ws_pending := pend; ws_coll := Some coll12; ws_steal := st |}.
Definition nt3 : ntable := [(0, fl false); (1, fl false); (2, fl false)].

(* three nodes, node 0 has six tests booked, nodes 1 and 2 are idle, the pool is empty:
   the tail half of node 0's book is requested *)
Definition ex1 := mk nt3 [(0, [0;1;2;3;4;5]); (1, [6]); (2, [])] [] None.
Example ex1_steal_issued :
  ws_check_schedule ex1 = (ws_set_steal ex1 (Some 0), [OSend 0 (CSteal [3;4;5])], Ok tt).
Proof. vm_compute. reflexivity. Qed.

(* the same state with the request already outstanding: nothing is sent *)
Example ex1_no_second_request :
  ws_check_schedule (ws_set_steal ex1 (Some 0)) = (ws_set_steal ex1 (Some 0), [], Ok tt).
Proof. vm_compute. reflexivity. Qed.

(* one test in the pool: it goes to the idle node 1, which stays idle, so a steal follows *)
Definition ex2 := mk nt3 [(0, [0;1;2;3;4;5]); (1, []); (2, [7;8])] [10] None.
Example ex2_distribute_then_steal :
  let '(s', outs, r) := ws_check_schedule ex2 in
  outs = [OSend 1 (CRun [10]); OSend 0 (CSteal [3;4;5])]
  /\ r = Ok tt /\ ws_steal s' = Some 0 /\ ws_pending s' = []
  /\ ws_n2p s' = [(0, [0;1;2;3;4;5]); (1, [10]); (2, [7;8])].
Proof. vm_compute. repeat split; reflexivity. Qed.

(* nobody has more than two tests: nothing can be stolen, the idle nodes are shut down *)
Definition ex3 := mk nt3 [(0, [0;1]); (1, []); (2, [2])] [] None.
Example ex3_idle_shutdown :
  let '(s', outs, r) := ws_check_schedule ex3 in
  outs = [OSend 1 CShutdown; OSend 2 CShutdown]
  /\ r = Ok tt /\ ws_steal s' = None
  /\ map (fun p => (fst p, n_sdsent (snd p))) (ws_nt s') = [(0, false); (1, true); (2, true)].
Proof. vm_compute. repeat split; reflexivity. Qed.

(* the victim answers with the requested tail: marker cleared, tail redistributed *)
Example ex1_reply :
  let '(s', outs, r) := ws_remove_pending_tests_from_node 0 [3;4;5] (ws_set_steal ex1 (Some 0)) in
  outs = [OSend 1 (CRun [3]); OSend 2 (CRun [4;5])]
  /\ r = Ok tt /\ ws_steal s' = None /\ ws_pending s' = []
  /\ ws_n2p s' = [(0, [0;1;2]); (1, [6;3]); (2, [4;5])].
Proof. vm_compute. repeat split; reflexivity. Qed.

(* the victim crashes instead: its first test is reported, the rest is redistributed,
   the marker is cleared *)
Example ex1_crash :
  let '(s', outs, r) := ws_remove_node 0 (ws_set_steal ex1 (Some 0)) in
  r = Ok (Some "t"%string)
  /\ ws_steal s' = None /\ akeys (ws_n2p s') = [1; 2]
  /\ sent_inds outs = [1;2;3;4;5] /\ steal_reqs outs = [].
Proof. vm_compute. repeat split; reflexivity. Qed.

(* ---------- counterexamples to the statements that had to be weakened ---------- *)
(* W2, fourth bullet: the victim's channel is closed, so no request is on the wire,
   yet the marker is set *)
Definition ex1_closed :=
  mk [(0, fl true); (1, fl false); (2, fl false)] [(0, [0;1;2;3;4;5]); (1, [6]); (2, [])] [] None.
Example W2_closed_counterexample :
  let '(s', outs, r) := ws_check_schedule ex1_closed in
  steal_reqs outs = [] /\ ws_steal ex1_closed = None /\ ws_steal s' = Some 0.
Proof. vm_compute. repeat split; reflexivity. Qed.

(* W5, second half: node 1's channel is closed; test 10 leaves the pool and is booked
   on node 1 but no run command is emitted *)
Definition ex5_closed := mk [(0, fl false); (1, fl true)] [(0, [0;1]); (1, [])] [10] None.
Example W5_closed_counterexample :
  let '(s', outs, r) := ws_check_schedule ex5_closed in
  r = Ok tt /\ sent_inds outs = [] /\ ws_pending ex5_closed = [10] /\ ws_pending s' = []
  /\ aget 1 (ws_n2p s') = Some [10].
Proof. vm_compute. repeat split; reflexivity. Qed.

(* W7, "n is not a key afterwards": a book table with a duplicated key *)
Definition ex7_dup := mk [(0, fl false)] [(0, [1]); (0, [2])] [] None.
Example W7_dupkey_counterexample :
  let '(s', outs, r) := ws_remove_node 0 ex7_dup in
  r = Ok (Some "t"%string) /\ In 0 (akeys (ws_n2p s')).
Proof. vm_compute. split; [reflexivity | left; reflexivity]. Qed.

Print Assumptions W1_send_tests.
Print Assumptions W1_send_tests_sent.
Print Assumptions W2_single_steal.
Print Assumptions W2_no_request_no_marker.
Print Assumptions W3_steal_tail.
Print Assumptions W4_guard.
Print Assumptions W4_guard_flags.
Print Assumptions W5_conservation.
Print Assumptions W5_conservation_open.
Print Assumptions W6_assert.
Print Assumptions W6_requires_marker.
Print Assumptions W6_unknown_node.
Print Assumptions W6_eq.
Print Assumptions W6_mid_state.
Print Assumptions W6_refused.
Print Assumptions W6_final.
Print Assumptions W6_conservation.
Print Assumptions W7_eq.
Print Assumptions W7_remove_node.
Print Assumptions W8_mark_test_complete.
Print Assumptions W8b_mark_test_pending.
Print Assumptions W9_check_schedule_before_distribution.
Print Assumptions W10_check_schedule_never_raises.
Print Assumptions keys_nodup_add_node.
Print Assumptions keys_nodup_remove_node.
Print Assumptions keys_mark_test_complete.
Print Assumptions keys_remove_pending.
Print Assumptions ex1_steal_issued.
Print Assumptions ex2_distribute_then_steal.
Print Assumptions ex3_idle_shutdown.
Print Assumptions W2_closed_counterexample.
Print Assumptions W5_closed_counterexample.
Print Assumptions W7_dupkey_counterexample.
