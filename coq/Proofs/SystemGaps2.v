(* SystemGaps2.v — C11, strengthened: NO dispatch at all after the stop decision.

   MAIN THEOREM (all six modes, every schedule with crashes, no hypothesis on the configuration):

     sys_no_dispatch_after_stop :
       sys_exec c (sys_init c) ls1 = (s1, o1, w1) -> not_errored s1 ->
       sys_exec c s1 ls2 = (s2, o2, w2) -> d_shouldstop (y_d s1) = true ->
       forall n, nwork (cmds_to n o2) = 0.

   i.e. once the stop reason is set (maxfail reached, a worker finished with shouldstop, exit
   status 2), no later step sends CRun / CRunAll / CSteal to ANY worker: not to workers whose
   shutdown flag is set (that was SystemCorollaries.sys_stop_guard), not to registered workers that
   are dead or finished, not to replacement workers (registered or not, spawned or not yet).

   Ingredients
     (W)  SystemGaps2a.s_step_wlaw: scheduler operations other than schedule() / add_node() send
          work only to nodes that are registered and not shutting down, and register nothing;
     (I)  sys_shutting_down_all_registered: in every reachable state in which no exception has
          escaped, if the session is shutting down then every node registered with the scheduler
          is shutting down (its WorkerController has _down or _shutdown_sent set)   [new invariant];
     (S)  SystemCorollaries.sys_stop_shutting_down: stop reason set => the session is shutting down.
   From (I)+(S) the state s1 satisfies [stopped]; every controller move from a [stopped] state
   sends no work and (if it does not raise) leads to a [stopped] state (cmove_stopped):
   worker_errordown's scheduler calls (remove_node, mark_test_pending) come before it revokes the
   shutdown, the clone registers nothing and gets an unused id, and the tail of loop_once
   re-triggers the shutdown; a worker that reports in is shut down instead of being added; a late
   collection is ignored.

   The step that TAKES the stop decision is covered too (section 4):
     loop_once_stop_decision_no_dispatch / sys_stop_decision_step_no_dispatch :
       a controller iteration / system step at the end of which the stop reason is set sends no
       work (for exit status 2, worker_workerfinished triggers the shutdown before it calls
       worker_errordown). *)
From XV Require Import Base Worker Ctl SchedLoad SchedSteal SchedScope SchedEach Sched DSession System
  NoHook DSessionProofs ShutdownOnce StopProofs FifoProofs SystemCorollaries SystemGaps2a.
Open Scope nat_scope.

(* ====================================================================================== *)
(* 1. controller level: relations                                                          *)
(* ====================================================================================== *)
(* every node registered with the scheduler is shutting down *)
Definition AllSD (d : dstate) : Prop := forall n, In n (s_nodes (d_sched d)) -> sdn (d_nt d) n = true.
(* no work command to anybody *)
Definition nowork (o : list out) : Prop := forall n, work_count n o = 0.

Lemma nowork_nil : nowork [].
Proof. intros n. reflexivity. Qed.
Lemma nowork_app a b : nowork a -> nowork b -> nowork (a ++ b).
Proof. intros A B n. rewrite work_count_app, A, B. reflexivity. Qed.

(* without _clone_node *)
Definition AP (d d' : dstate) (o : list out) : Prop := AllSD d -> AllSD d' /\ nowork o.
(* with _clone_node: needs, and keeps, the freshness of ids *)
Definition AD (d d' : dstate) (o : list out) : Prop :=
  fresh d -> AllSD d -> fresh d' /\ AllSD d' /\ nowork o.
(* the shutting-down flag is left alone *)
Definition SS (d d' : dstate) (o : list out) : Prop := d_shuttingdown d' = d_shuttingdown d.

Lemma AP_refl : rrefl AP. Proof. intros d A. split; [exact A|apply nowork_nil]. Qed.
Lemma AP_trans : rtrans AP.
Proof.
  intros a b c o1 o2 HA HB A. destruct (HA A) as (Ab & N1). destruct (HB Ab) as (Ac & N2).
  split; [exact Ac|apply nowork_app; assumption].
Qed.
Lemma AD_refl : rrefl AD. Proof. intros d F A. split; [exact F|]. split; [exact A|apply nowork_nil]. Qed.
Lemma AD_trans : rtrans AD.
Proof.
  intros a b c o1 o2 HA HB F A. destruct (HA F A) as (Fb & Ab & N1). destruct (HB Fb Ab) as (Fc & Ac & N2).
  split; [exact Fc|]. split; [exact Ac|apply nowork_app; assumption].
Qed.
Lemma SS_refl : rrefl SS. Proof. intros d. reflexivity. Qed.
Lemma SS_trans : rtrans SS. Proof. intros a b c o1 o2 HA HB. unfold SS in *. congruence. Qed.
#[export] Hint Resolve AP_refl AP_trans AD_refl AD_trans SS_refl SS_trans : sdrel.

Lemma ap_ad {A} d0 (m : D A) : from RD d0 m -> from AP d0 m -> from AD d0 m.
Proof.
  intros H1 H2 d' o r E F A0. destruct (H1 _ _ _ E F) as (F' & _). destruct (H2 _ _ _ E A0) as (A' & N).
  split; [exact F'|]. split; assumption.
Qed.

(* emit followed by more code: the state is unchanged *)
Lemma f_emit_bind {S B} (R : S -> S -> list out -> Prop) s0 x (k : unit -> M S B) :
  rtrans R -> R s0 s0 [x] -> from R s0 (k tt) -> from R s0 (mbind (emit x) k).
Proof.
  intros Rt Hr Hk s' o r H. unfold mbind, emit in H.
  destruct (k tt s0) as [[s2 o2] r2] eqn:E2. inversion H; subst.
  change (x :: o2) with ([x] ++ o2). eapply Rt; [exact Hr|apply (Hk _ _ _ E2)].
Qed.

(* from law W to the controller *)
Lemma g_w_allsd d d' o :
  g_w (d_nt d) (s_nodes (d_sched d)) (d_nt d') (s_nodes (d_sched d')) o -> AP d d' o.
Proof.
  intros (M & I & W) A. split.
  - intros n Hn. apply M. apply A. apply I. exact Hn.
  - intros n. destruct (Nat.eq_dec (work_count n o) 0) as [E|E]; [exact E|].
    destruct (W n E) as (Hi & Hs). rewrite (A n Hi) in Hs. discriminate.
Qed.

Lemma nowork_hook h : nowork [OHook h].
Proof. intros n. reflexivity. Qed.

(* ---- the pieces of DSession that do not clone ---- *)
Create HintDb apdb.
Ltac ap_put := intros ?A; split; [exact A|first [apply nowork_nil|apply nowork_hook]].
Ltac ap1 :=
  first
    [ apply f_ret; rr | apply f_raise; rr | apply f_massert; rr | apply f_of_opt; rr
    | apply f_getv; rr
    | apply f_put; ap_put
    | apply f_emit; ap_put
    | apply f_mfor; [rr | rr | intros ? ?]
    | match goal with
      | |- from _ _ (mbind get _) => apply f_get
      | |- from _ _ (mbind (ret _) _) => apply f_ret_bind
      | |- from _ _ (mbind (of_opt _ _) _) => apply f_of_opt_bind; [rr | intros ? ?]
      | |- from _ _ (mbind (massert _) _) => apply f_massert_bind; [rr | intros ?]
      | |- from _ _ (mbind _ _) => apply f_bind; [rr | | intros ? ?]
      end
    | progress cbv zeta
    | match goal with
      | |- from _ _ (match ?x with _ => _ end) => destruct x eqn:?
      | |- from _ _ (let '(_, _) := ?x in _) => destruct x eqn:?
      end
    | solve [eauto with apdb] ].
Ltac ap := repeat ap1.

Lemma ap_sched_op op d0 : wl_op op = true -> from AP d0 (d_sched_op op).
Proof.
  intros Hop d' o r H. unfold d_sched_op in H.
  destruct (s_step (d_sched d0) op) as [[st o1] r1] eqn:E. inversion H; subst.
  apply g_w_allsd. unfold d_nt. cbn [d_sched d_set_sched]. exact (s_step_g_w _ _ _ _ _ Hop E).
Qed.
Lemma ap_sched_op_remove n d0 : from AP d0 (d_sched_op (SRemove n)).
Proof. apply ap_sched_op. reflexivity. Qed.
Lemma ap_sched_op_pending i d0 : from AP d0 (d_sched_op (SPending i)).
Proof. apply ap_sched_op. reflexivity. Qed.
Lemma ap_sched_op_complete n i ms d0 : from AP d0 (d_sched_op (SComplete n i ms)).
Proof. apply ap_sched_op. reflexivity. Qed.
Lemma ap_sched_op_unsched n ixs d0 : from AP d0 (d_sched_op (SUnsched n ixs)).
Proof. apply ap_sched_op. reflexivity. Qed.
#[export] Hint Resolve ap_sched_op_remove ap_sched_op_pending ap_sched_op_complete ap_sched_op_unsched : apdb.

Lemma d_nodes_set_nt d v : s_nodes (d_sched (d_set_nt d v)) = s_nodes (d_sched d).
Proof. unfold d_set_nt. cbn [d_sched d_set_sched]. apply s_nodes_set_nt. Qed.

Lemma gw_d_node_shutdown n d0 :
  from (gWR d_nt (fun d => s_nodes (d_sched d))) d0 (d_node_shutdown n).
Proof. apply gw_node_shutdown; [apply ShutdownOnce.d_nt_set|apply d_nodes_set_nt]. Qed.

Lemma ap_node_shutdown n d0 : from AP d0 (d_node_shutdown n).
Proof. intros d' o r H. apply g_w_allsd. exact (gw_d_node_shutdown n d0 _ _ _ H). Qed.
#[export] Hint Resolve ap_node_shutdown : apdb.

Lemma ap_triggershutdown d0 : from AP d0 d_triggershutdown.
Proof. unfold d_triggershutdown. ap. Qed.
#[export] Hint Resolve ap_triggershutdown : apdb.
Lemma ap_active_remove n d0 : from AP d0 (d_active_remove n).
Proof. unfold d_active_remove. ap. Qed.
#[export] Hint Resolve ap_active_remove : apdb.
Lemma ap_handlefailures f d0 : from AP d0 (d_handlefailures f).
Proof. unfold d_handlefailures. ap. Qed.
#[export] Hint Resolve ap_handlefailures : apdb.
Lemma ap_handle_crashitem item n d0 : from AP d0 (d_handle_crashitem item n).
Proof. unfold d_handle_crashitem, hook. ap. Qed.
#[export] Hint Resolve ap_handle_crashitem : apdb.
Lemma ap_try_block n d0 : from AP d0 (try_block n).
Proof. apply f_try_block; [rr|intros; apply ap_sched_op_remove|intros; apply ap_handle_crashitem]. Qed.
#[export] Hint Resolve ap_try_block : apdb.
Lemma ap_no_active d0 : from AP d0 d_no_active.
Proof. unfold d_no_active. ap. Qed.

(* marking a node as down / shutting down in the table *)
Lemma ap_set_nt d n c :
  shutting_down c = true -> AP d (d_set_nt d (aset n c (d_nt d))) [].
Proof.
  intros Hc A. split; [|apply nowork_nil]. intros m Hm. rewrite d_nodes_set_nt in Hm.
  rewrite ShutdownOnce.d_nt_set. unfold sdn. rewrite aget_aset. destruct (Nat.eqb m n); [exact Hc|].
  exact (A m Hm).
Qed.

Ltac ap_put ::=
  first [ intros ?A; split; [exact A|first [apply nowork_nil|apply nowork_hook]]
        | apply ap_set_nt; reflexivity ].

(* the receiver thread *)
Lemma ap_process_from_remote n m d0 : from AP d0 (process_from_remote n m).
Proof.
  unfold process_from_remote. apply f_get. apply f_of_opt_bind; [rr|]. intros f Hf. cbv zeta.
  destruct m as [e|ids|sk|i ms|[|]| | |]; try destruct e; ap.
Qed.

(* ---- with _clone_node ---- *)
Lemma ad_clone n d0 : from AD d0 (d_clone_node n).
Proof.
  intros d' o r H F A. destruct (rd_clone n d0 _ _ _ H F) as (F' & _). split; [exact F'|].
  revert H. unfold d_clone_node, mbind, get, of_opt, hook, emit, put, ret, raise.
  destruct (aget n (d_nt d0)) as [f|]; [|intros H; inversion H; subst; split; [exact A|apply nowork_nil]].
  unfold d_sched_op. cbn [s_step]. intros H. inversion H; subst. clear H.
  split; [|intros m; reflexivity].
  intros m Hm. unfold d_nt in *. cbn [d_sched d_set_active d_set_next_gw d_set_sched] in *.
  rewrite s_nodes_set_nt in Hm. rewrite ShutdownOnce.s_nt_set.
  pose proof (A m Hm) as Am. unfold sdn in *. rewrite aget_aset.
  destruct (Nat.eqb m (d_next_gw d0)) eqn:E; [|exact Am].
  apply Nat.eqb_eq in E. subst m. pose proof (F (d_next_gw d0) (le_n _)) as Fn.
  unfold d_nt in Fn, Am. rewrite Fn in Am. discriminate.
Qed.

Create HintDb addb.
#[export] Hint Resolve ad_clone : addb.
Ltac ad_put := intros ?F ?A; split; [exact F|split; [exact A|first [apply nowork_nil|apply nowork_hook]]].
Ltac ad_leaf :=
  apply ap_ad;
  [ first [ solve [eauto with dddb] | apply rk_rd; solve [eauto with dddb] ]
  | solve [eauto with apdb] ].
Ltac ad1 :=
  first
    [ apply f_ret; rr | apply f_raise; rr | apply f_massert; rr | apply f_of_opt; rr
    | apply f_getv; rr
    | apply f_put; ad_put
    | apply f_emit; ad_put
    | apply f_mfor; [rr | rr | intros ? ?]
    | match goal with
      | |- from _ _ (mbind get _) => apply f_get
      | |- from _ _ (mbind (ret _) _) => apply f_ret_bind
      | |- from _ _ (mbind (emit _) _) => apply f_emit_bind; [rr | ad_put | ]
      | |- from _ _ (mbind (of_opt _ _) _) => apply f_of_opt_bind; [rr | intros ? ?]
      | |- from _ _ (mbind (massert _) _) => apply f_massert_bind; [rr | intros ?]
      | |- from _ _ (mbind _ _) => apply f_bind; [rr | | intros ? ?]
      end
    | progress cbv zeta
    | match goal with
      | |- from _ _ (match ?x with _ => _ end) => destruct x eqn:?
      | |- from _ _ (let '(_, _) := ?x in _) => destruct x eqn:?
      end
    | solve [eauto with addb]
    | ad_leaf ].
Ltac ad := repeat ad1.

Lemma ad_errordown n d0 : from AD d0 (d_worker_errordown n).
Proof. rewrite errordown_unfold. unfold hook. ad. Qed.
#[export] Hint Resolve ad_errordown : addb.

(* every handler, when the session is shutting down at the start of the iteration *)
Lemma ad_handle ev d0 : d_shuttingdown d0 = true -> from AD d0 (d_handle ev).
Proof.
  intros Hsd.
  destruct ev as [n|n ids|n key fl|n i|n i|n i k oc|n i ms|n ixs| |n|n sk|n]; cbn [d_handle]; unfold hook.
  - (* workerready: shut down instead of being added *)
    apply f_emit_bind; [rr|ad_put|]. apply f_get. rewrite Hsd. ad.
  - (* collectionfinish: ignored *)
    apply f_get. rewrite Hsd. ad.
  - ad.
  - ad.
  - ad.
  - ad.
  - ad.
  - ad.
  - ad.
  - ad.
  - unfold d_worker_workerfinished, hook. destruct sk; ad.
  - ad.
Qed.

Lemma ad_loop_tail (u : unit) d0 :
  from AD d0 ((d <- get ;; if s_tests_finished (d_sched d) then d_triggershutdown else ret tt) ;;;
              (d <- get ;; if d_shouldstop d then d_triggershutdown else ret tt)).
Proof. ad. Qed.

(* T2: an iteration of the controller loop that starts while the session is shutting down and
   every registered node is shutting down sends no work, and every registered node is still
   shutting down afterwards (whether or not the iteration raised) *)
Theorem loop_once_no_dispatch ev d d' o r :
  d_shuttingdown d = true -> fresh d -> AllSD d -> d_loop_once ev d = (d', o, r) ->
  fresh d' /\ AllSD d' /\ nowork o.
Proof.
  intros Hsd F A H.
  assert (K : from AD d (d_loop_once ev)).
  { unfold d_loop_once. apply f_bind; [rr|apply ad_handle; exact Hsd|intros u d1; apply (ad_loop_tail tt)]. }
  exact (K _ _ _ H F A).
Qed.
Print Assumptions loop_once_no_dispatch.

(* ====================================================================================== *)
(* 2. the invariant (I): shutting down => every registered node is shutting down            *)
(* ====================================================================================== *)
Definition sd_inv (d : dstate) : Prop := d_shuttingdown d = true -> AllSD d.

Lemma sd_inv_ext d d' :
  d_sched d' = d_sched d -> d_shuttingdown d' = d_shuttingdown d -> sd_inv d -> sd_inv d'.
Proof.
  intros E1 E2 H Hs. rewrite E2 in Hs. specialize (H Hs). unfold AllSD, d_nt in *. rewrite E1. exact H.
Qed.

Lemma bind_ok_inv {S A B} (m : M S A) (f : A -> M S B) s s' o b :
  mbind m f s = (s', o, Ok b) ->
  exists s1 o1 a o2, m s = (s1, o1, Ok a) /\ f a s1 = (s', o2, Ok b) /\ o = o1 ++ o2.
Proof.
  intros H. apply mbind_inv in H. destruct H as [H|(e & _ & He)]; [exact H|discriminate].
Qed.

(* ---- pieces that leave d_shuttingdown alone ---- *)
Create HintDb ssdb.
Ltac ss_put := unfold SS; reflexivity.
Ltac ss1 :=
  first
    [ apply f_ret; rr | apply f_raise; rr | apply f_massert; rr | apply f_of_opt; rr
    | apply f_getv; rr
    | apply f_put; ss_put
    | apply f_emit; ss_put
    | apply f_mfor; [rr | rr | intros ? ?]
    | match goal with
      | |- from _ _ (mbind get _) => apply f_get
      | |- from _ _ (mbind (ret _) _) => apply f_ret_bind
      | |- from _ _ (mbind (of_opt _ _) _) => apply f_of_opt_bind; [rr | intros ? ?]
      | |- from _ _ (mbind (massert _) _) => apply f_massert_bind; [rr | intros ?]
      | |- from _ _ (mbind _ _) => apply f_bind; [rr | | intros ? ?]
      end
    | progress cbv zeta
    | match goal with
      | |- from _ _ (match ?x with _ => _ end) => destruct x eqn:?
      | |- from _ _ (let '(_, _) := ?x in _) => destruct x eqn:?
      end
    | solve [eauto with ssdb] ].
Ltac ss := repeat ss1.

Lemma ss_sched_op op d0 : from SS d0 (d_sched_op op).
Proof.
  intros d' o r H. unfold d_sched_op in H.
  destruct (s_step (d_sched d0) op) as [[st o1] r1]. inversion H; subst. reflexivity.
Qed.
#[export] Hint Resolve ss_sched_op : ssdb.
Lemma ss_node_shutdown n d0 : from SS d0 (d_node_shutdown n).
Proof.
  intros d' o r H. destruct (node_shutdown_frame _ _ _ _ _ _ _ H) as [->|(v & ->)]; reflexivity.
Qed.
#[export] Hint Resolve ss_node_shutdown : ssdb.
Lemma ss_active_remove n d0 : from SS d0 (d_active_remove n).
Proof. unfold d_active_remove. ss. Qed.
#[export] Hint Resolve ss_active_remove : ssdb.
Lemma ss_handlefailures f d0 : from SS d0 (d_handlefailures f).
Proof. unfold d_handlefailures. ss. Qed.
#[export] Hint Resolve ss_handlefailures : ssdb.
Lemma ss_handle_crashitem item n d0 : from SS d0 (d_handle_crashitem item n).
Proof. unfold d_handle_crashitem, hook. ss. Qed.
#[export] Hint Resolve ss_handle_crashitem : ssdb.
Lemma ss_try_block n d0 : from SS d0 (try_block n).
Proof. apply f_try_block; [rr|intros; apply ss_sched_op|intros; apply ss_handle_crashitem]. Qed.
#[export] Hint Resolve ss_try_block : ssdb.
Lemma ss_clone n d0 : from SS d0 (d_clone_node n).
Proof. unfold d_clone_node, hook. ss. Qed.
#[export] Hint Resolve ss_clone : ssdb.
Lemma ss_handle ev d0 : death_event ev = false -> from SS d0 (d_handle ev).
Proof.
  destruct ev as [n|n ids|n key fl|n i|n i|n i k oc|n i ms|n ixs| |n|n sk|n]; cbn [death_event d_handle];
    intros Hd; try discriminate; unfold hook; try (ss; fail).
  unfold d_worker_workerfinished, hook. destruct sk; try discriminate; ss.
Qed.
Lemma ss_process_from_remote n m d0 : from SS d0 (process_from_remote n m).
Proof.
  unfold process_from_remote. apply f_get. apply f_of_opt_bind; [rr|]. intros f Hf. cbv zeta.
  destruct m as [e|ids|sk|i ms|[|]| | |]; try destruct e; ss.
Qed.

(* ---- triggershutdown, when it completes, establishes AllSD ---- *)
Lemma node_shutdown_ok {S} (nt_of : S -> ntable) set_nt n s s' o :
  (forall s v, nt_of (set_nt s v) = v) ->
  node_shutdown nt_of set_nt n s = (s', o, Ok tt) -> sdn (nt_of s') n = true.
Proof.
  intros nt_set. unfold node_shutdown, node_send, node_flags, mbind, get, of_opt.
  destruct (aget n (nt_of s)) as [f|] eqn:Ef; cbn [ret raise]; [|intros H; inversion H].
  unfold ret. destruct (n_down f || n_sdsent f) eqn:Esd.
  - intros H; inversion H; subst. unfold sdn. rewrite Ef. exact Esd.
  - rewrite Ef. destruct (n_closed f); unfold emit, put; intros H; inversion H; rewrite nt_set; unfold sdn;
      rewrite aget_aset, Nat.eqb_refl; unfold shutting_down; cbn; apply orb_true_r.
Qed.

Lemma gw_mfor_shutdown l d0 :
  from (gWR d_nt (fun d => s_nodes (d_sched d))) d0 (mfor l d_node_shutdown).
Proof. apply f_mfor; [rr|rr|]. intros n d. apply gw_d_node_shutdown. Qed.

Lemma mfor_shutdown_ok l : forall d0 d' o,
  mfor l d_node_shutdown d0 = (d', o, Ok tt) -> forall n, In n l -> sdn (d_nt d') n = true.
Proof.
  induction l as [|x l IH]; intros d0 d' o H n Hn; [destruct Hn|].
  cbn [mfor] in H. apply bind_ok_inv in H. destruct H as (d1 & o1 & [] & o2 & H1 & H2 & ->).
  destruct Hn as [->|Hn]; [|exact (IH _ _ _ H2 n Hn)].
  pose proof (node_shutdown_ok d_nt d_set_nt n d0 d1 o1 ShutdownOnce.d_nt_set H1) as S1.
  destruct (gw_mfor_shutdown l d1 _ _ _ H2) as (M & _). exact (M n S1).
Qed.

Lemma triggershutdown_inv d d' o :
  d_triggershutdown d = (d', o, Ok tt) -> sd_inv d -> sd_inv d'.
Proof.
  intros H HI. unfold d_triggershutdown in H. unfold mbind at 1 in H. unfold get in H.
  destruct (d_shuttingdown d) eqn:Es.
  - unfold ret in H. inversion H; subst. exact HI.
  - destruct ((put (d_set_shuttingdown d true) ;;; mfor (s_nodes (d_sched d)) d_node_shutdown) d)
      as [[dx ox] rx] eqn:E.
    inversion H; subst dx ox rx. clear H.
    apply bind_ok_inv in E. destruct E as (d1 & o1 & [] & o2 & H1 & H2 & ->).
    unfold put in H1. inversion H1; subst d1 o1. clear H1.
    intros _ n Hn.
    destruct (gw_mfor_shutdown _ _ _ _ _ H2) as (_ & I & _).
    apply (mfor_shutdown_ok _ _ _ _ H2). apply I in Hn. exact Hn.
Qed.

Lemma tail_inv (b : dstate -> bool) d d' o :
  (d0 <- get ;; if b d0 then d_triggershutdown else ret tt) d = (d', o, Ok tt) -> sd_inv d -> sd_inv d'.
Proof.
  unfold mbind, get. destruct (b d).
  - destruct (d_triggershutdown d) as [[d3 o3] r3] eqn:E3. intros H; inversion H; subst.
    eapply triggershutdown_inv; eassumption.
  - unfold ret. intros H; inversion H; subst. exact (fun X => X).
Qed.

Lemma active_remove_frame n d d' o r :
  d_active_remove n d = (d', o, r) -> d_sched d' = d_sched d /\ d_shuttingdown d' = d_shuttingdown d.
Proof.
  unfold d_active_remove, mbind, get, put, raise. destruct (mem_nat n (d_active d)); intros H; inversion H; subst; auto.
Qed.

(* errordown from a state in which the session is not shutting down *)
Lemma errordown_inv n d d' o :
  d_worker_errordown n d = (d', o, Ok tt) -> d_shuttingdown d = false -> sd_inv d'.
Proof.
  rewrite errordown_unfold. intros H Hsd.
  apply bind_ok_inv in H. destruct H as (d0 & o0 & [] & oR & H0 & H & ->).
  unfold hook, emit in H0. inversion H0; subst d0 o0. clear H0.
  apply bind_ok_inv in H. destruct H as (d1 & o1 & [] & oR2 & H1 & H & ->).
  pose proof (ss_try_block n d _ _ _ H1) as S1. unfold SS in S1.
  apply bind_ok_inv in H. destruct H as (dg & og & dd & oR3 & Hg & H & ->).
  unfold get in Hg. inversion Hg; subst dg og dd. clear Hg. cbv zeta in H.
  apply bind_ok_inv in H. destruct H as (dp & op & [] & oR4 & Hp & H & ->).
  unfold put in Hp. inversion Hp; subst dp op. clear Hp.
  set (d3 := d_set_failed_nodes d1 (d_failed_nodes d1 + 1)%Z) in *.
  assert (S3 : d_shuttingdown d3 = false) by (unfold d3; cbn [d_shuttingdown d_set_failed_nodes]; congruence).
  apply bind_ok_inv in H. destruct H as (d4 & o4 & [] & oR5 & H4 & H5 & ->).
  destruct (active_remove_frame _ _ _ _ _ H5) as (E1 & E2).
  apply (sd_inv_ext d4 d' E1 E2).
  assert (REV : forall dx ox,
            ((d2 <- get ;; put (d_set_shuttingdown d2 false)) ;;; d_clone_node n) d3 = (dx, ox, Ok tt) -> sd_inv dx).
  { intros dx ox HC. apply bind_ok_inv in HC. destruct HC as (da & oa & [] & ob & Ha & Hb & ->).
    unfold mbind, get, put in Ha. inversion Ha; subst da oa. clear Ha.
    pose proof (ss_clone n _ _ _ _ Hb) as Sc. unfold SS in Sc. cbn [d_shuttingdown d_set_shuttingdown] in Sc.
    intros X. congruence. }
  destruct (d_max_restart d1) as [mx|].
  - destruct (mx <? d_failed_nodes d1 + 1)%Z.
    + apply bind_ok_inv in H4. destruct H4 as (da & oa & [] & ob & Ha & Hb & ->).
      unfold hook, emit in Ha. inversion Ha; subst da oa. clear Ha.
      apply (triggershutdown_inv _ _ _ Hb). intros X. congruence.
    + exact (REV _ _ H4).
  - exact (REV _ _ H4).
Qed.

Lemma handle_inv ev d d' o :
  d_handle ev d = (d', o, Ok tt) -> fresh d -> d_shuttingdown d = false -> sd_inv d'.
Proof.
  intros H F Hsd. destruct (death_event ev) eqn:Ed.
  2:{ pose proof (ss_handle ev d Ed _ _ _ H) as K. unfold SS in K. intros X. congruence. }
  destruct ev as [| | | | | | | | | |n sk|n]; try discriminate; cbn [d_handle] in H.
  - destruct sk; try discriminate. unfold d_worker_workerfinished in H.
    apply bind_ok_inv in H. destruct H as (d0 & o0 & [] & oR & H0 & H & ->).
    unfold hook, emit in H0. inversion H0; subst d0 o0. clear H0.
    apply bind_ok_inv in H. destruct H as (d1 & o1 & [] & oR2 & H1 & H & ->).
    unfold mbind, get, put in H1. inversion H1; subst d1 o1. clear H1.
    (* keyboard interrupt: the shutdown is triggered first, worker_errordown then starts from a
       state in which every registered node is shutting down *)
    apply bind_ok_inv in H. destruct H as (d3 & o3 & [] & oR3 & H3 & H4 & ->).
    assert (F1 : fresh (d_set_shouldstop d true)) by exact F.
    assert (F3 : fresh d3) by exact (proj1 (rk_rd _ _ (rk_triggershutdown _) _ _ _ H3 F1)).
    assert (I3 : sd_inv d3).
    { apply (triggershutdown_inv _ _ _ H3). intros X. cbn [d_shuttingdown d_set_shouldstop] in X. congruence. }
    pose proof (proj1 (triggershutdown_spec _ _ _ _ H3)) as Sd3.
    destruct (ad_errordown n d3 _ _ _ H4 F3 (I3 Sd3)) as (_ & A' & _). intros _. exact A'.
  - eapply errordown_inv; eassumption.
Qed.

(* one iteration of the controller loop that completes keeps the invariant *)
Theorem loop_once_sd_inv ev d d' o :
  d_loop_once ev d = (d', o, Ok tt) -> fresh d -> sd_inv d -> sd_inv d'.
Proof.
  intros H F HI. destruct (d_shuttingdown d) eqn:Hsd.
  - destruct (loop_once_no_dispatch _ _ _ _ _ Hsd F (HI Hsd) H) as (_ & A' & _). intros _. exact A'.
  - unfold d_loop_once in H.
    apply bind_ok_inv in H. destruct H as (d1 & o1 & [] & oR & H1 & H & ->).
    apply bind_ok_inv in H. destruct H as (d2 & o2 & [] & oR2 & H2 & H3 & ->).
    apply (tail_inv _ _ _ _ H3). apply (tail_inv _ _ _ _ H2). eapply handle_inv; eassumption.
Qed.
Print Assumptions loop_once_sd_inv.

Definition reach_inv (d : dstate) : Prop := fresh d /\ sd_inv d.

Lemma close_flag_sdn d n f m :
  aget n (d_nt d) = Some f -> sdn (aset n (close_flag f) (d_nt d)) m = sdn (d_nt d) m.
Proof.
  intros Hf. unfold sdn. rewrite aget_aset. destruct (Nat.eqb m n) eqn:E; [|reflexivity].
  apply Nat.eqb_eq in E. subst m. rewrite Hf. reflexivity.
Qed.

Lemma cmove_reach_inv k d d' o : cmove k d d' o -> reach_inv d -> True /\ (k = true -> reach_inv d').
Proof.
  intros M (F & HI). split; [exact I|]. intros ->.
  split; [exact (proj1 (cmove_RD _ _ _ _ M F))|].
  destruct (cmove_ok_inv _ _ _ M) as [(ev & E)|[(n & m & evs & E)|(n & f & Hf & -> & ->)]].
  - eapply loop_once_sd_inv; eassumption.
  - pose proof (ss_process_from_remote n m d _ _ _ E) as K. unfold SS in K.
    intros X. rewrite K in X. exact (proj1 (ap_process_from_remote n m d _ _ _ E (HI X))).
  - intros X. cbn in X. intros m Hm. rewrite d_nodes_set_nt in Hm. rewrite ShutdownOnce.d_nt_set.
    rewrite (close_flag_sdn _ _ _ _ Hf). exact (HI X m Hm).
Qed.

Lemma reach_inv_init c : reach_inv (y_d (sys_init c)).
Proof. split; [apply fresh_init|]. intros X. discriminate X. Qed.

(* (I) *)
Theorem sys_shutting_down_all_registered c ls s outs wevs :
  sys_exec c (sys_init c) ls = (s, outs, wevs) -> not_errored s ->
  d_shuttingdown (y_d s) = true ->
  forall n, In n (s_nodes (d_sched (y_d s))) ->
    exists f, aget n (d_nt (y_d s)) = Some f /\ shutting_down f = true.
Proof.
  intros H Hn Hsd n Hin.
  destruct (sys_exec_lift_pre reach_inv (fun _ _ _ => True) (fun _ => I) (fun _ _ _ _ _ _ _ => I)
              cmove_reach_inv _ _ _ _ _ _ H (reach_inv_init c)) as (_ & P).
  destruct (P Hn) as (_ & HI). specialize (HI Hsd n Hin). unfold sdn in HI.
  destruct (aget n (d_nt (y_d s))) as [f|]; [|discriminate]. exists f. auto.
Qed.
Print Assumptions sys_shutting_down_all_registered.

(* ====================================================================================== *)
(* 3. the system theorem                                                                   *)
(* ====================================================================================== *)
Definition stopped (d : dstate) : Prop :=
  fresh d /\ d_shouldstop d = true /\ d_shuttingdown d = true /\ AllSD d.

Definition nowork_rel (d d' : dstate) (o : list out) : Prop := nowork o.

Lemma cmove_stopped k d d' o : cmove k d d' o -> stopped d -> nowork_rel d d' o /\ (k = true -> stopped d').
Proof.
  intros M (F & Ss & Sd & A).
  assert (G : fresh d' /\ AllSD d' /\ nowork o).
  { destruct M as [ev d0 d1 o1 r H|d0 d1 o1 r H|n m d0 d1 o1 r H|n f d0 Hf].
    - exact (loop_once_no_dispatch _ _ _ _ _ Sd F A H).
    - destruct (ap_no_active d0 _ _ _ H A) as (A' & N). split; [|split; assumption].
      exact (proj1 (cmove_RD _ _ _ _ (CM_noact _ _ _ _ H) F)).
    - destruct (ap_process_from_remote n m d0 _ _ _ H A) as (A' & N). split; [|split; assumption].
      exact (proj1 (cmove_RD _ _ _ _ (CM_recv _ _ _ _ _ _ H) F)).
    - split; [exact (proj1 (cmove_RD _ _ _ _ (CM_close n f d0 Hf) F))|]. split; [|apply nowork_nil].
      intros m Hm. rewrite d_nodes_set_nt in Hm. rewrite ShutdownOnce.d_nt_set.
      rewrite (close_flag_sdn _ _ _ _ Hf). exact (A m Hm). }
  destruct G as (F' & A' & N). split; [exact N|].
  intros ->. split; [exact F'|].
  pose proof (cmove_stop_mono _ _ _ _ M Ss) as Ss'. split; [exact Ss'|]. split; [|exact A'].
  apply (cmove_stop_sd _ _ _ M); [intros _; exact Sd|exact Ss'].
Qed.

Lemma nowork_rel_refl : rrefl nowork_rel. Proof. intros d. apply nowork_nil. Qed.
Lemma nowork_rel_trans : rtrans nowork_rel. Proof. intros a b c o1 o2. apply nowork_app. Qed.

(* every reachable state in which the stop reason is set (and no exception has escaped) is
   [stopped] *)
Theorem sys_stop_stopped c ls s outs wevs :
  sys_exec c (sys_init c) ls = (s, outs, wevs) -> not_errored s ->
  d_shouldstop (y_d s) = true -> stopped (y_d s).
Proof.
  intros H Hn Ss.
  pose proof (sys_stop_shutting_down _ _ _ _ _ H Hn Ss) as Sd.
  destruct (sys_exec_lift_pre reach_inv (fun _ _ _ => True) (fun _ => I) (fun _ _ _ _ _ _ _ => I)
              cmove_reach_inv _ _ _ _ _ _ H (reach_inv_init c)) as (_ & P).
  destruct (P Hn) as (F & HI). split; [exact F|]. split; [exact Ss|]. split; [exact Sd|exact (HI Sd)].
Qed.

(* C11: NO DISPATCH AFTER THE STOP DECISION *)
Theorem sys_no_dispatch_after_stop c ls1 ls2 s1 o1 w1 s2 o2 w2 :
  sys_exec c (sys_init c) ls1 = (s1, o1, w1) -> not_errored s1 ->
  sys_exec c s1 ls2 = (s2, o2, w2) -> d_shouldstop (y_d s1) = true ->
  forall n, nwork (cmds_to n o2) = 0.
Proof.
  intros H1 Hn1 H2 Ss n.
  pose proof (sys_stop_stopped _ _ _ _ _ H1 Hn1 Ss) as St.
  destruct (sys_exec_lift_pre stopped nowork_rel nowork_rel_refl nowork_rel_trans cmove_stopped
              _ _ _ _ _ _ H2 St) as (N & _).
  rewrite <- work_count_cmds. exact (N n).
Qed.
Print Assumptions sys_no_dispatch_after_stop.

(* the same with what else holds at the end: the stop reason stays; unless an exception escaped
   the session is still shutting down and every registered node is shutting down *)
Theorem sys_no_dispatch_after_stop_full c ls1 ls2 s1 o1 w1 s2 o2 w2 :
  sys_exec c (sys_init c) ls1 = (s1, o1, w1) -> not_errored s1 ->
  sys_exec c s1 ls2 = (s2, o2, w2) -> d_shouldstop (y_d s1) = true ->
  (forall n, nwork (cmds_to n o2) = 0) /\
  d_shouldstop (y_d s2) = true /\
  (not_errored s2 -> d_shuttingdown (y_d s2) = true /\
     forall n, In n (s_nodes (d_sched (y_d s2))) ->
       exists f, aget n (d_nt (y_d s2)) = Some f /\ shutting_down f = true).
Proof.
  intros H1 Hn1 H2 Ss.
  pose proof (sys_stop_stopped _ _ _ _ _ H1 Hn1 Ss) as St.
  destruct (sys_exec_lift_pre stopped nowork_rel nowork_rel_refl nowork_rel_trans cmove_stopped
              _ _ _ _ _ _ H2 St) as (N & P).
  split; [intros n; rewrite <- work_count_cmds; exact (N n)|].
  split; [eapply sys_stop_sticky; eassumption|].
  intros Hn2. destruct (P Hn2) as (_ & _ & Sd2 & A2). split; [exact Sd2|].
  intros n Hin. specialize (A2 n Hin). unfold sdn in A2.
  destruct (aget n (d_nt (y_d s2))) as [f|]; [|discriminate]. exists f. auto.
Qed.
Print Assumptions sys_no_dispatch_after_stop_full.

(* the hypothesis [not_errored s1] is not needed: once an exception has escaped nothing moves *)
Corollary sys_no_dispatch_after_stop_any c ls1 ls2 s1 o1 w1 s2 o2 w2 :
  sys_exec c (sys_init c) ls1 = (s1, o1, w1) ->
  sys_exec c s1 ls2 = (s2, o2, w2) -> d_shouldstop (y_d s1) = true ->
  forall n, nwork (cmds_to n o2) = 0.
Proof.
  intros H1 H2 Ss n. destruct (y_result s1) as [rk|] eqn:Er.
  - destruct rk as [| |e].
    + eapply sys_no_dispatch_after_stop; try eassumption. intros e He. congruence.
    + eapply sys_no_dispatch_after_stop; try eassumption. intros e He. congruence.
    + rewrite (sys_exec_done c ls2 s1) in H2 by (rewrite Er; discriminate). inversion H2; subst. reflexivity.
  - eapply sys_no_dispatch_after_stop; try eassumption. intros e He. congruence.
Qed.
Print Assumptions sys_no_dispatch_after_stop_any.

(* in particular: a replacement worker started after the stop decision is never given work *)
Corollary sys_replacement_after_stop_idle c ls1 ls2 s1 o1 w1 s2 o2 w2 id :
  sys_exec c (sys_init c) ls1 = (s1, o1, w1) ->
  sys_exec c s1 ls2 = (s2, o2, w2) -> d_shouldstop (y_d s1) = true ->
  In id (spawn_ids o2) -> Forall (fun x => is_workcmd x = false) (cmds_to id o2).
Proof.
  intros H1 H2 Ss _. apply nwork_zero. eapply sys_no_dispatch_after_stop_any; eassumption.
Qed.

(* ====================================================================================== *)
(* Non-vacuity                                                                             *)
(* ====================================================================================== *)
(* two workers, six tests, --maxfail 1, test 0 fails: after 13 rounds the stop reason is set.
   Then worker 1 is killed; its replacement (worker 2) is spawned AFTER the stop decision: all it
   ever receives is the shutdown command.  Theorem + evaluation, for all five scheduler families. *)
Definition g2_nocrash (n i : nat) : bool := false.
Definition g2_cfg (m : mode) : config := xc_cfg m (Some 4%Z) 1%Z 0 g2_nocrash.
Definition g2_pre : list label := rounds 13 xc_round.
Definition g2_post : list label := LCrash 1 :: rounds 60 xc_round.

Definition g2_view (m : mode) :=
  let '(s1, o1, _) := sys_exec (g2_cfg m) (sys_init (g2_cfg m)) g2_pre in
  let '(s2, o2, _) := sys_exec (g2_cfg m) s1 g2_post in
  (d_shouldstop (y_d s1), y_result s1, s_nodes (d_sched (y_d s1)), spawn_ids o1, spawn_ids o2,
   map (fun n => cmds_to n o2) [0; 1; 2; 3], y_result s2).

Example g2_eval :
  map g2_view [MLoad; MSteal; MScope KFile; MScope KScope; MScope KGroup; MEach] =
  repeat (true, None, [0; 1], [], [2], [[]; []; [CShutdown]; []], Some RInterrupted) 6.
Proof. vm_compute. reflexivity. Qed.

Example g2_theorem_applies :
  let c := g2_cfg MLoad in
  let '(s1, o1, w1) := sys_exec c (sys_init c) g2_pre in
  let '(s2, o2, w2) := sys_exec c s1 g2_post in
  d_shouldstop (y_d s1) = true /\ spawn_ids o2 = [2] /\ cmds_to 2 o2 = [CShutdown] /\
  (forall n, nwork (cmds_to n o2) = 0) /\
  (forall n, In n (s_nodes (d_sched (y_d s2))) ->
     exists f, aget n (d_nt (y_d s2)) = Some f /\ shutting_down f = true).
Proof.
  cbv zeta.
  destruct (sys_exec (g2_cfg MLoad) (sys_init (g2_cfg MLoad)) g2_pre) as [[s1 o1] w1] eqn:E1.
  destruct (sys_exec (g2_cfg MLoad) s1 g2_post) as [[s2 o2] w2] eqn:E2.
  assert (F : d_shouldstop (y_d s1) = true /\ y_result s1 = None).
  { vm_compute in E1. inversion E1; subst. vm_compute. split; reflexivity. }
  destruct F as (F1 & F3).
  assert (N1 : not_errored s1) by (intros e; rewrite F3; discriminate).
  destruct (sys_no_dispatch_after_stop_full _ _ _ _ _ _ _ _ _ E1 N1 E2 F1) as (A & _ & B).
  assert (G : spawn_ids o2 = [2] /\ cmds_to 2 o2 = [CShutdown] /\ y_result s2 = Some RInterrupted).
  { vm_compute in E1. inversion E1; subst. vm_compute in E2. inversion E2; subst. vm_compute. repeat split. }
  destruct G as (G1 & G2 & G3).
  split; [exact F1|]. split; [exact G1|]. split; [exact G2|]. split; [exact A|].
  apply B. intros e He. rewrite G3 in He. discriminate.
Qed.
Print Assumptions g2_theorem_applies.

(* law W is not vacuous either: remove_node of a crashed worker re-queues its work units and
   hands one to a registered node that is NOT shutting down (here node 0) *)
Definition g2_st : sstate :=
  run_ops (s_init (MScope KFile) 2 None)
    [SNew 0 0; SNew 1 0; SAddNode 0; SAddNode 1;
     SAddColl 0 ["a"; "b"; "c"; "d"; "e"; "f"; "g"; "h"]%string; SAddColl 1 ["a"; "b"; "c"; "d"; "e"; "f"; "g"; "h"]%string;
     SSchedule].
Example g2_law_w_witness :
  let '(st', o, r) := s_step g2_st (SRemove 1) in
  (o, s_nodes g2_st, s_nodes st', sdn (s_nt g2_st) 0) = ([OSend 0 (CRun [4])], [0; 1], [0], false).
Proof. vm_compute. reflexivity. Qed.

(* ====================================================================================== *)
(* 4. the iteration that TAKES the stop decision                                           *)
(* ====================================================================================== *)
(* The theorem above speaks about the steps AFTER a state in which the stop reason is set.  The
   iteration that SETS it sends no work either: maxfail (a report) and a worker that finished
   with shouldstop call no scheduler method at all; for a worker that finished with exit status 2
   (keyboard interrupt) worker_workerfinished sets shouldstop, TRIGGERS THE SHUTDOWN, and only
   then calls worker_errordown, whose sched.remove_node() / mark_test_pending() therefore find
   every registered node shutting down and re-schedule nothing. *)
Lemma nowork_shutdown n : nowork [OSend n CShutdown].
Proof. intros m. rewrite work_count_one. cbn. destruct (Nat.eqb n m); reflexivity. Qed.

Lemma nwr_node_shutdown n d0 : from nowork_rel d0 (d_node_shutdown n).
Proof.
  intros d' o r H. destruct (node_shutdown_out _ _ _ _ _ _ _ H) as (_ & [->| ->]);
    [apply nowork_nil|apply nowork_shutdown].
Qed.
#[local] Hint Resolve nowork_rel_refl nowork_rel_trans : sdrel.
Create HintDb nwrdb.
#[local] Hint Resolve nwr_node_shutdown : nwrdb.
Ltac nwr_leaf := unfold nowork_rel; first [apply nowork_nil|apply nowork_hook].
Ltac nwr1 :=
  first
    [ apply f_ret; rr | apply f_raise; rr | apply f_massert; rr | apply f_of_opt; rr
    | apply f_getv; rr
    | apply f_put; nwr_leaf
    | apply f_emit; nwr_leaf
    | apply f_mfor; [rr | rr | intros ? ?]
    | match goal with
      | |- from _ _ (mbind get _) => apply f_get
      | |- from _ _ (mbind (ret _) _) => apply f_ret_bind
      | |- from _ _ (mbind (of_opt _ _) _) => apply f_of_opt_bind; [rr | intros ? ?]
      | |- from _ _ (mbind (massert _) _) => apply f_massert_bind; [rr | intros ?]
      | |- from _ _ (mbind _ _) => apply f_bind; [rr | | intros ? ?]
      end
    | progress cbv zeta
    | match goal with
      | |- from _ _ (match ?x with _ => _ end) => destruct x eqn:?
      | |- from _ _ (let '(_, _) := ?x in _) => destruct x eqn:?
      end
    | solve [eauto with nwrdb] ].
Ltac nwr := repeat nwr1.

Lemma nwr_triggershutdown d0 : from nowork_rel d0 d_triggershutdown.
Proof. unfold d_triggershutdown. nwr. Qed.
#[local] Hint Resolve nwr_triggershutdown : nwrdb.
Lemma nwr_active_remove n d0 : from nowork_rel d0 (d_active_remove n).
Proof. unfold d_active_remove. nwr. Qed.
#[local] Hint Resolve nwr_active_remove : nwrdb.
Lemma nwr_handlefailures f d0 : from nowork_rel d0 (d_handlefailures f).
Proof. unfold d_handlefailures. nwr. Qed.
#[local] Hint Resolve nwr_handlefailures : nwrdb.
Lemma nwr_no_active d0 : from nowork_rel d0 d_no_active.
Proof. unfold d_no_active. nwr. Qed.
Lemma nwr_process_from_remote n m d0 : from nowork_rel d0 (process_from_remote n m).
Proof.
  unfold process_from_remote. apply f_get. apply f_of_opt_bind; [rr|]. intros f Hf. cbv zeta.
  destruct m as [e|ids|sk|i ms|[|]| | |]; try destruct e; nwr.
Qed.
Lemma nwr_loop_tail (u : unit) d0 :
  from nowork_rel d0 ((d <- get ;; if s_tests_finished (d_sched d) then d_triggershutdown else ret tt) ;;;
                      (d <- get ;; if d_shouldstop d then d_triggershutdown else ret tt)).
Proof. nwr. Qed.
Lemma keep_loop_tail (u : unit) d0 :
  from (lift2 sd_keep) d0 ((d <- get ;; if s_tests_finished (d_sched d) then d_triggershutdown else ret tt) ;;;
                           (d <- get ;; if d_shouldstop d then d_triggershutdown else ret tt)).
Proof. st. Qed.

(* the handlers that can set the stop reason (StopProofs.nonstop ev = false), other than the
   keyboard interrupt, call no scheduler method *)
Lemma nwr_handle_stopper ev d0 :
  nonstop ev = false -> (forall n, ev <> QFinished n SKKbd) -> from nowork_rel d0 (d_handle ev).
Proof.
  destruct ev as [n|n ids|n key fl|n i|n i|n i k oc|n i ms|n ixs| |n|n sk|n]; cbn [nonstop d_handle];
    intros Hn Hk; try discriminate; unfold hook.
  - nwr.
  - nwr.
  - unfold d_worker_workerfinished, hook. destruct sk; try discriminate; [nwr|].
    exfalso. exact (Hk n eq_refl).
Qed.

(* the keyboard interrupt: from a state satisfying the invariants (fresh ids; shutting down =>
   every registered node is shutting down) *)
Lemma kbd_no_dispatch n d d' o r :
  fresh d -> sd_inv d -> d_handle (QFinished n SKKbd) d = (d', o, r) -> nowork o.
Proof.
  intros F HI H. cbn [d_handle] in H. unfold d_worker_workerfinished in H.
  apply DSessionProofs.mbind_inv in H. destruct H as [(d0 & o0 & [] & oR & H0 & H & ->)|(e & H0 & _)]; [|inversion H0].
  unfold hook, emit in H0. inversion H0; subst d0 o0. clear H0.
  apply nowork_app; [apply nowork_hook|].
  apply DSessionProofs.mbind_inv in H. destruct H as [(d1 & o1 & [] & oR2 & H1 & H & ->)|(e & H1 & _)].
  2:{ unfold mbind, get, put in H1. inversion H1. }
  unfold mbind, get, put in H1. inversion H1; subst d1 o1. clear H1. cbn [app].
  apply DSessionProofs.mbind_inv in H. destruct H as [(d3 & o3 & [] & oR3 & H3 & H4 & ->)|(e & H3 & ->)].
  2:{ exact (nwr_triggershutdown _ _ _ _ H3). }
  apply nowork_app; [exact (nwr_triggershutdown _ _ _ _ H3)|].
  assert (F1 : fresh (d_set_shouldstop d true)) by exact F.
  assert (F3 : fresh d3) by exact (proj1 (rk_rd _ _ (rk_triggershutdown _) _ _ _ H3 F1)).
  assert (I3 : sd_inv d3).
  { apply (triggershutdown_inv _ _ _ H3). intros X. apply HI. exact X. }
  pose proof (proj1 (triggershutdown_spec _ _ _ _ H3)) as Sd3.
  destruct (ad_errordown n d3 _ _ _ H4 F3 (I3 Sd3)) as (_ & _ & N). exact N.
Qed.

(* T3: one iteration of the controller loop at the end of which the stop reason is set sends no
   work -- whether the stop reason was set before (then the session is shutting down: T2) or is
   set by this very iteration *)
Theorem loop_once_stop_decision_no_dispatch ev d d' o r :
  fresh d -> sd_inv d -> (d_shouldstop d = true -> d_shuttingdown d = true) ->
  d_loop_once ev d = (d', o, r) -> d_shouldstop d' = true -> nowork o.
Proof.
  intros F HI Hss H Hs'. destruct (d_shouldstop d) eqn:Hs.
  { pose proof (Hss eq_refl) as Sd. exact (proj2 (proj2 (loop_once_no_dispatch _ _ _ _ _ Sd F (HI Sd) H))). }
  unfold d_loop_once in H.
  assert (HN : forall d1 o1 r1, d_handle ev d = (d1, o1, r1) -> d_shouldstop d1 = true -> nowork o1).
  { intros d1 o1 r1 H1 S1. destruct (nonstop ev) eqn:En.
    { pose proof (eq_handle ev d En _ _ _ H1) as K. unfold lift2, stop_eq in K. congruence. }
    assert (DK : (exists n, ev = QFinished n SKKbd) \/ (forall n, ev <> QFinished n SKKbd)).
    { destruct ev as [| | | | | | | | | |n sk|]; try (right; intros; discriminate).
      destruct sk; try (right; intros; discriminate). left. exists n. reflexivity. }
    destruct DK as [(n & ->)|DK].
    - eapply kbd_no_dispatch; eassumption.
    - exact (nwr_handle_stopper ev d En DK _ _ _ H1). }
  apply DSessionProofs.mbind_inv in H. destruct H as [(d1 & o1 & [] & o2 & H1 & H2 & ->)|(e & H1 & ->)].
  - pose proof (keep_loop_tail tt d1 _ _ _ H2) as (K & _).
    apply nowork_app; [apply (HN _ _ _ H1); congruence|exact (nwr_loop_tail tt d1 _ _ _ H2)].
  - exact (HN _ _ _ H1 Hs').
Qed.
Print Assumptions loop_once_stop_decision_no_dispatch.

(* the same for one step of the system, from every reachable state in which no exception has
   escaped: a step after which the stop reason is set sends no work to anybody.  Together with
   sys_no_dispatch_after_stop: no CRun / CRunAll / CSteal from the step that takes the stop
   decision (included) onwards. *)
Theorem sys_stop_decision_step_no_dispatch c ls s o0 w0 l s' o w :
  sys_exec c (sys_init c) ls = (s, o0, w0) -> not_errored s ->
  sys_step c s l = Some (s', o, w) -> d_shouldstop (y_d s') = true ->
  forall n, nwork (cmds_to n o) = 0.
Proof.
  intros H Hn Hst Hs' n. rewrite <- work_count_cmds. revert n. change (nowork o).
  destruct (sys_exec_lift_pre reach_inv (fun _ _ _ => True) (fun _ => I) (fun _ _ _ _ _ _ _ => I)
              cmove_reach_inv _ _ _ _ _ _ H (reach_inv_init c)) as (_ & P).
  destruct (P Hn) as (F & HI).
  pose proof (sys_stop_shutting_down _ _ _ _ _ H Hn) as Hss.
  unfold sys_step in Hst. destruct (y_result s) eqn:Eres; [discriminate|].
  destruct l as [k|k|k|k| |k].
  - destruct (mem_nat k (y_dead s)); [discriminate|].
    destruct (aget k (y_down s)) as [[|cmd rest]|]; try discriminate.
    destruct (aget k (y_w s)); [|discriminate]. inversion Hst; subst. apply nowork_nil.
  - destruct (mem_nat k (y_dead s)); [discriminate|].
    destruct (aget k (y_w s)) as [w0'|]; [|discriminate].
    destruct (negb (wcb w0')); [discriminate|].
    destruct (recv_step (c_oracle c k) w0') as [w1 evs]. inversion Hst; subst. apply nowork_nil.
  - destruct (mem_nat k (y_dead s)); [discriminate|].
    destruct (aget k (y_w s)) as [w0'|]; [|discriminate].
    destruct (dies_now c k w0'); [inversion Hst; subst; apply nowork_nil|].
    destruct (main_step (c_oracle c k) w0') as [[w1 evs]|]; [|discriminate].
    inversion Hst; subst. apply nowork_nil.
  - destruct (aget k (y_up s)) as [[|m rest]|]; try discriminate. cbn [y_d] in Hst.
    destruct (process_from_remote k m (y_d s)) as [[d1 outs] r] eqn:E.
    pose proof (nwr_process_from_remote k m _ _ _ _ E) as N.
    destruct r; inversion Hst; subst; exact N.
  - destruct (d_active (y_d s)) as [|a act].
    + destruct (d_no_active (y_d s)) as [[d1 outs] r] eqn:E. inversion Hst; subst.
      exact (nwr_no_active _ _ _ _ E).
    + destruct (y_evq s) as [|ev q]; [discriminate|].
      destruct (d_loop_once ev (y_d s)) as [[d1 outs] r] eqn:E.
      assert (T3 : d_shouldstop d1 = true -> nowork outs).
      { intros S1. eapply loop_once_stop_decision_no_dispatch; eassumption. }
      destruct r as [u|e].
      * destruct (d_session_finished d1).
        { inversion Hst; subst. apply T3. cbn [set_result y_d] in Hs'. rewrite y_d_apply_outs in Hs'. exact Hs'. }
        destruct (d_active d1) as [|a' act'].
        { destruct (d_no_active d1) as [[d2 outs2] r2] eqn:E2. inversion Hst; subst.
          cbn [set_result y_d] in Hs'. rewrite y_d_apply_outs in Hs'. cbn [set_d y_d] in Hs'.
          pose proof (keep_no_active d1 _ _ _ E2) as (K & _).
          apply nowork_app; [apply T3; congruence|exact (nwr_no_active _ _ _ _ E2)]. }
        inversion Hst; subst. apply T3. rewrite y_d_apply_outs in Hs'. exact Hs'.
      * inversion Hst; subst. apply T3. cbn [set_result y_d] in Hs'. rewrite y_d_apply_outs in Hs'. exact Hs'.
  - destruct (mem_nat k (y_dead s)); [discriminate|].
    destruct (aget k (y_w s)) as [w0'|]; [|discriminate].
    destruct (wph w0'); try discriminate; inversion Hst; subst; apply nowork_nil.
Qed.
Print Assumptions sys_stop_decision_step_no_dispatch.

(* Controller-level witness for the keyboard interrupt (the system model never produces exit
   status 2): loadfile, the controller state after 6 rounds, event workerfinished(node 1,
   exitstatus 2).  Both workers are told to shut down BEFORE worker_errordown runs; its
   remove_node() re-queues the dead worker's tests but hands nothing out (no CRun / CRunAll /
   CSteal among the outputs); the crash report and the replacement worker are as before. *)
Example g2_kbd_same_iteration :
  let c := xc_cfg (MScope KFile) (Some 4%Z) 0%Z 0 g2_nocrash in
  let '(s, _, _) := sys_exec c (sys_init c) (rounds 6 xc_round) in
  let '(d', o, r) := d_loop_once (QFinished 1 SKKbd) (y_d s) in
  (d_shouldstop (y_d s), o, r, d_shouldstop d', d_shuttingdown d') =
  (false,
   [OHook (HNodeDown 1 false); OSend 0 CShutdown; OSend 1 CShutdown; OHook (HNodeDown 1 true);
    OHook (HCrashItem "b" 1); OHook (HCrashReport "b" 1); OHook (HSpawn 2 0)],
   Ok tt, true, true).
Proof. vm_compute. reflexivity. Qed.

(* ... and the theorem applies to it *)
Example g2_kbd_theorem_applies :
  let c := xc_cfg (MScope KFile) (Some 4%Z) 0%Z 0 g2_nocrash in
  let '(s, _, _) := sys_exec c (sys_init c) (rounds 6 xc_round) in
  let '(d', o, r) := d_loop_once (QFinished 1 SKKbd) (y_d s) in
  forall n, work_count n o = 0.
Proof.
  cbv zeta.
  destruct (sys_exec (xc_cfg (MScope KFile) (Some 4%Z) 0%Z 0 g2_nocrash)
              (sys_init (xc_cfg (MScope KFile) (Some 4%Z) 0%Z 0 g2_nocrash)) (rounds 6 xc_round)) as [[s o0] w0] eqn:E.
  destruct (d_loop_once (QFinished 1 SKKbd) (y_d s)) as [[d' o] r] eqn:E2.
  assert (Hn : not_errored s) by (vm_compute in E; inversion E; subst; intros e; discriminate).
  destruct (sys_exec_lift_pre reach_inv (fun _ _ _ => True) (fun _ => I) (fun _ _ _ _ _ _ _ => I)
              cmove_reach_inv _ _ _ _ _ _ E (reach_inv_init _)) as (_ & P).
  destruct (P Hn) as (F & HI).
  unfold d_loop_once in E2.
  apply DSessionProofs.mbind_inv in E2. destruct E2 as [(d1 & o1 & [] & o2 & H1 & H2 & ->)|(e & H1 & ->)].
  - apply nowork_app; [exact (kbd_no_dispatch _ _ _ _ _ F HI H1)|exact (nwr_loop_tail tt d1 _ _ _ H2)].
  - exact (kbd_no_dispatch _ _ _ _ _ F HI H1).
Qed.

Check sys_no_dispatch_after_stop.
Check sys_no_dispatch_after_stop_any.
Check sys_no_dispatch_after_stop_full.
Check sys_shutting_down_all_registered.
Check sys_stop_stopped.
Check loop_once_no_dispatch.
Check loop_once_stop_decision_no_dispatch.
Check sys_stop_decision_step_no_dispatch.
Check s_step_wlaw.
